(* Driver for the extracted models: reads history cases (see DESIGN.md, "History
   format") from the files given on the command line (or stdin), runs the extracted
   model on them and prints one trace line per operation in exactly the format the
   Rust harness prints for the implementation. *)
open Model

(* ---------- N <-> decimal strings, through Coq's own N.of_uint / N.to_uint ---------- *)
let n_of_string (s : string) : n =
  let rec build i : uint =
    if i >= String.length s then Nil
    else
      let r = build (i + 1) in
      match s.[i] with
      | '0' -> D0 r | '1' -> D1 r | '2' -> D2 r | '3' -> D3 r | '4' -> D4 r
      | '5' -> D5 r | '6' -> D6 r | '7' -> D7 r | '8' -> D8 r | '9' -> D9 r
      | c -> failwith (Printf.sprintf "bad digit %c in %s" c s)
  in
  N.of_uint (build 0)

let string_of_n (x : n) : string =
  let b = Buffer.create 20 in
  let rec go (u : uint) =
    match u with
    | Nil -> ()
    | D0 r -> Buffer.add_char b '0'; go r
    | D1 r -> Buffer.add_char b '1'; go r
    | D2 r -> Buffer.add_char b '2'; go r
    | D3 r -> Buffer.add_char b '3'; go r
    | D4 r -> Buffer.add_char b '4'; go r
    | D5 r -> Buffer.add_char b '5'; go r
    | D6 r -> Buffer.add_char b '6'; go r
    | D7 r -> Buffer.add_char b '7'; go r
    | D8 r -> Buffer.add_char b '8'; go r
    | D9 r -> Buffer.add_char b '9'; go r
  in
  go (N.to_uint x);
  if Buffer.length b = 0 then "0" else Buffer.contents b

(* small N -> OCaml int (only used for sorting indices) *)
let int_of_n (x : n) : int =
  let rec pos = function XH -> 1 | XO p -> 2 * pos p | XI p -> 2 * pos p + 1 in
  match x with N0 -> 0 | Npos p -> pos p

let string_of_err = function
  | UseAfterFree -> "UseAfterFree" | DoubleFree -> "DoubleFree" | NotMember -> "NotMember"
  | Unreachable -> "Unreachable" | ExpectFailed -> "ExpectFailed" | Panic -> "Panic"
  | Overflow -> "Overflow" | OutOfFuel -> "OutOfFuel"

let opt_n = function None -> "-" | Some x -> string_of_n x

(* ---------- sketch ---------- *)
let fmt_sketch (sk : sketch) : string =
  let l = sk_table_list sk in
  let l = List.filter (fun (_, w) -> w <> N0) l in
  let l = List.sort (fun (i, _) (j, _) -> compare (int_of_n i) (int_of_n j)) l in
  let words = List.map (fun (i, w) -> string_of_n i ^ ":" ^ string_of_n w) l in
  Printf.sprintf "sk=%s:%s:%s:%s:[%s]" (string_of_n sk.sk_size) (string_of_n sk.sk_sample)
    (string_of_n sk.sk_mask) (string_of_n sk.sk_tlen) (String.concat "," words)

(* ---------- shared cfg parsing ---------- *)
let n_cmp (a : n) (b : n) : int = match N.compare a b with Eq -> 0 | Lt -> -1 | Gt -> 1

let opt_of_string s = if s = "none" then None else Some (n_of_string s)

let parse_hasher s =
  match String.split_on_char ':' s with
  | [ "id" ] -> HId
  | [ "mod"; m ] -> HMod (n_of_string m)
  | [ "const"; c ] -> HConst (n_of_string c)
  | [ "mul"; a ] -> HMul (n_of_string a)
  | _ -> failwith ("bad hasher " ^ s)

let parse_weigher = function
  | "none" -> WNone | "value" -> WValue | "kv" -> WKeyPlusValue
  | s -> failwith ("bad weigher " ^ s)

let parse_pred toks =
  match toks with
  | [ "all" ] -> PAll
  | [ "kmod"; m; r ] -> PKeyMod (n_of_string m, n_of_string r)
  | [ "vlt"; x ] -> PValLt (n_of_string x)
  | _ -> failwith "bad predicate"

let assoc_def k kv d = match List.assoc_opt k kv with Some v -> v | None -> d

(* position of a node id in an id-tagged list: "-" (no pointer), index, or "!" (dangling) *)
let pos_in (l : (n * 'a) list) (p : n option) : string =
  match p with
  | None -> "-"
  | Some id ->
    let rec go i = function
      | [] -> "!"
      | (m, _) :: r -> if N.eqb m id then string_of_int i else go (i + 1) r
    in
    go 0 l

(* ---------- unsync cache ---------- *)
let fmt_ustate (s : ustate) : string =
  let entries = List.sort (fun (a, _) (b, _) -> n_cmp a b) (u_map_list s) in
  let es = List.map (fun (k, e) ->
      Printf.sprintf "%s:%s:%s:%s:%s" (string_of_n k) (string_of_n e.ue_val) (string_of_n e.ue_weight)
        (pos_in s.u_prob e.ue_ao) (pos_in s.u_wo e.ue_wo)) entries in
  let ps = List.map (fun (_, nd) ->
      Printf.sprintf "%s:%s:%s" (string_of_n nd.an_key) (string_of_n nd.an_hash) (opt_n nd.an_ts)) s.u_prob in
  let ws = List.map (fun (_, nd) -> Printf.sprintf "%s:%s" (string_of_n nd.wn_key) (opt_n nd.wn_ts)) s.u_wo in
  Printf.sprintf "ec=%s ws=%s skon=%d map=[%s] prob=[%s] wo=[%s] %s walk=ok live=%d:%d" (string_of_n s.u_ec)
    (string_of_n s.u_ws) (if s.u_skon then 1 else 0) (String.concat "," es) (String.concat "," ps)
    (String.concat "," ws) (fmt_sketch s.u_sk) (List.length entries) (List.length entries)

let fmt_pairs (l : (n * n) list) : string =
  let l = List.sort (fun (a, _) (b, _) -> n_cmp a b) l in
  "[" ^ String.concat "," (List.map (fun (k, v) -> string_of_n k ^ ":" ^ string_of_n v) l) ^ "]"

let parse_uop toks : uop =
  match toks with
  | [ "I"; k; v ] -> UInsert (n_of_string k, n_of_string v)
  | [ "G"; k ] -> UGet (n_of_string k)
  | [ "C"; k ] -> UContains (n_of_string k)
  | [ "T" ] -> UIter
  | [ "X"; k ] -> UInvalidate (n_of_string k)
  | [ "A" ] -> UInvalidateAll
  | "P" :: rest -> UInvalidateIf (pred_of (parse_pred rest))
  | [ "D"; d ] -> UAdvance (n_of_string d)
  | _ -> failwith ("bad unsync op: " ^ String.concat " " toks)

let fmt_uout = function
  | ONone -> "-"
  | OVal v -> opt_n v
  | OBool b -> if b then "1" else "0"
  | OList l -> fmt_pairs l

(* ---------- sync cache ---------- *)
let fmt_sstate (s : sstate) : string =
  let classes : n list ref = ref [] in
  let class_of (i : n) : int =
    let rec go j = function
      | [] -> classes := !classes @ [ i ]; j
      | x :: r -> if N.eqb x i then j else go (j + 1) r
    in
    go 0 !classes
  in
  let entries = List.sort (fun (a, _) (b, _) -> n_cmp a b) (s_map_list s) in
  let es = List.map (fun (k, ve) ->
      let e = get_ve s ve in
      let i = get_info s e.sv_info in
      Printf.sprintf "%s:%s:%s:%s:%s:%d:%d:%s:%s:%d" (string_of_n k) (string_of_n e.sv_val)
        (string_of_n i.si_weight) (string_of_n i.si_la) (string_of_n i.si_lm)
        (if i.si_admitted then 1 else 0) (if i.si_dirty then 1 else 0)
        (pos_in s.s_prob i.si_ao) (pos_in s.s_wo i.si_wo) (class_of e.sv_info)) entries in
  let ps = List.map (fun (_, nd) ->
      Printf.sprintf "%s:%s:%d" (string_of_n nd.sa_key) (string_of_n nd.sa_hash) (class_of nd.sa_info)) s.s_prob in
  let ws = List.map (fun (_, nd) -> Printf.sprintf "%s:%d" (string_of_n nd.sw_key) (class_of nd.sw_info)) s.s_wo in
  Printf.sprintf "ec=%s ws=%s skon=%d va=%s rq=%d wq=%d sa=%s run=0 map=[%s] prob=[%s] wo=[%s] %s walk=ok live=%d"
    (string_of_n s.s_ec) (string_of_n s.s_ws) (if s.s_skon then 1 else 0) (opt_n s.s_va)
    (List.length s.s_rq) (List.length s.s_wq) (string_of_n s.s_sync_after)
    (String.concat "," es) (String.concat "," ps) (String.concat "," ws) (fmt_sketch s.s_sk)
    (List.length (live_ves s))

(* Empirical check of the candidate invariant SInv (Sync/SInvDefs.v, extra = []) on model
   states: used while developing the invariant, enabled with MM_CHECK_INV=1. *)
let check_sinv (c : scfg) (s : sstate) : string list =
  let fails = ref [] in
  let fail x = fails := x :: !fails in
  let infos = s_infos_list s and ves = s_ves_list s and m = s_map_list s in
  let info_opt i = List.assoc_opt i infos and ve_opt v = List.assoc_opt v ves in
  let n_eq a b = N.eqb a b in
  let ve_ok k ve = match ve_opt ve with
    | None -> false
    | Some e -> (match info_opt e.sv_info with None -> false | Some i -> n_eq i.si_key k) in
  let lt a b = N.ltb a b in
  let wq = s.s_wq in
  let up_ves = List.filter_map (function WUpsert (_, _, ve, _, _) -> Some ve | WRemove _ -> None) wq in
  let has_upsert ve = List.exists (n_eq ve) up_ves in
  let has_upsert_info i = List.exists (fun ve -> n_eq (get_ve s ve).sv_info i) up_ves in
  let has_remove_info i = List.exists (function WRemove (_, ve) -> n_eq (get_ve s ve).sv_info i | _ -> false) wq in
  List.iter (fun (k, ve) -> if not (ve_ok k ve) then fail "sv_map") m;
  List.iter (fun (ve, e) -> if not (lt ve s.s_next) || info_opt e.sv_info = None then fail "sv_ves_lt") ves;
  List.iter (fun (i, _) -> if not (lt i s.s_next) then fail "sv_infos_lt") infos;
  List.iter (function
      | WUpsert (k, h, ve, _, nw) ->
        if not (ve_ok k ve && n_eq h (c.sc_hash k) && n_eq nw (sweigh c k (get_ve s ve).sv_val)) then fail "sv_wq_upsert"
      | WRemove (k, ve) -> if not (ve_ok k ve) then fail "sv_wq_remove") wq;
  List.iter (function RHit (_, ve, _) -> if ve_opt ve = None then fail "sv_rq" | RMiss _ -> ()) s.s_rq;
  let rec nodup = function [] -> true | x :: r -> not (List.exists (n_eq x) r) && nodup r in
  if not (nodup (List.map fst s.s_prob)) then fail "sn_nodup_ao";
  if not (nodup (List.map fst s.s_wo)) then fail "sn_nodup_wo";
  List.iter (fun (n, nd) ->
      if not (lt n s.s_next) then fail "sn_ao_lt";
      match info_opt nd.sa_info with
      | Some x when (match x.si_ao with Some n' -> n_eq n n' | None -> false)
                    && n_eq nd.sa_key x.si_key && n_eq nd.sa_hash (c.sc_hash x.si_key) -> ()
      | _ -> fail "sn_ao_info") s.s_prob;
  List.iter (fun (n, nd) ->
      if not (lt n s.s_next) then fail "sn_wo_lt";
      if c.sc_ttl = None then fail "sn_wo_info_ttl";
      match info_opt nd.sw_info with
      | Some x when (match x.si_wo with Some n' -> n_eq n n' | None -> false) && n_eq nd.sw_key x.si_key -> ()
      | _ -> fail "sn_wo_info") s.s_wo;
  List.iter (fun (i, x) ->
      (match x.si_ao with
       | Some n -> if not (List.exists (fun (n', nd) -> n_eq n n' && n_eq nd.sa_info i) s.s_prob) then fail "sn_info_ao"
       | None -> ());
      (match x.si_wo with
       | Some n -> if not (List.exists (fun (n', nd) -> n_eq n n' && n_eq nd.sw_info i) s.s_wo) then fail "sn_info_wo"
       | None -> ());
      if x.si_admitted <> (x.si_ao <> None) then fail "sn_admitted_ao";
      (match c.sc_ttl with
       | Some _ -> if x.si_admitted <> (x.si_wo <> None) then fail "sn_admitted_wo"
       | None -> if x.si_wo <> None then fail "sn_admitted_wo_none");
      if x.si_admitted && not (map_has_info s x.si_key i || has_remove_info i) then fail "sg_no_ghost";
      if x.si_dirty && not (has_upsert_info i) then fail "sd_dirty";
      if not (lt x.si_weight two32) then fail "sa_weight_lt") infos;
  List.iter (fun (k, ve) ->
      let i = get_info s (get_ve s ve).sv_info in
      if (not i.si_admitted) && not (has_upsert ve) then fail "so_no_orphan";
      if not (has_upsert ve || n_eq i.si_weight (sweigh c k (get_ve s ve).sv_val)) then fail "sw_weight";
      if not (has_upsert ve || List.for_all (fun v -> lt ve v) up_ves) then fail "sf_applied_older";
      List.iter (fun (v, e) -> if n_eq e.sv_info (get_ve s ve).sv_info && lt ve v then fail "sf_newest") ves) m;
  List.iter (function
      | WRemove (_, ve) ->
        List.iter (fun (_, vm) -> if n_eq (get_ve s vm).sv_info (get_ve s ve).sv_info then fail "sr_detached") m
      | _ -> ()) wq;
  let rec sorted = function a :: (b :: _ as r) -> lt a b && sorted r | _ -> true in
  if not (sorted up_ves) then fail "sf_sorted";
  let adm = List.filter (fun (_, x) -> x.si_admitted) infos in
  if int_of_n s.s_ec <> List.length adm then fail "sa_ec";
  if not (n_eq s.s_ws (List.fold_left (fun acc (_, x) -> N.add acc x.si_weight) N0 adm)) then fail "sa_ws";
  if List.length s.s_rq > 64 then fail "sq_rq";
  if List.length s.s_wq > 64 then fail "sq_wq";
  if s.s_skon = false && (s.s_sk.sk_tlen <> N0) then fail "sk_sketch";
  if Sys.getenv_opt "MM_CHECK_INV" = Some "selftest" && List.length s.s_wq > 3 then fail "selftest_wq_gt_3";
  List.sort_uniq compare !fails

let parse_sop toks : sop =
  match toks with
  | [ "I"; k; v ] -> SInsert (n_of_string k, n_of_string v)
  | [ "G"; k ] -> SGet (n_of_string k)
  | [ "C"; k ] -> SContains (n_of_string k)
  | [ "T" ] -> SIter
  | [ "X"; k ] -> SInvalidate (n_of_string k)
  | [ "A" ] -> SInvalidateAll
  | [ "S" ] -> SSync
  | [ "D"; d ] -> SAdvance (n_of_string d)
  | _ -> failwith ("bad sync op: " ^ String.concat " " toks)

let fmt_sout = function
  | SONone -> "-"
  | SOVal v -> opt_n v
  | SOBool b -> if b then "1" else "0"
  | SOList l -> fmt_pairs l

(* ---------- builder / policy (C17) ---------- *)
let fmt_policy (c : ucfg) : string =
  let ((cap, ttl), tti) = policy c in
  Printf.sprintf "%s:%s:%s" (opt_n cap) (opt_n ttl) (opt_n tti)

let run_config_op toks : string =
  match toks with
  | "B" :: _cache :: kvs ->
    let kv = List.map (fun s -> match String.index_opt s '=' with
        | Some i -> (String.sub s 0 i, String.sub s (i + 1) (String.length s - i - 1))
        | None -> (s, "")) kvs in
    let b = { b_cap = opt_of_string (assoc_def "cap" kv "none");
              b_ic = opt_of_string (assoc_def "ic" kv "none");
              b_ttl = opt_of_string (assoc_def "ttl" kv "none");
              b_tti = opt_of_string (assoc_def "tti" kv "none");
              b_wf = weigher_of (parse_weigher (assoc_def "weigher" kv "none")) } in
    (match build b (fun k -> k) with Ok c -> fmt_policy c | Err e -> "ERR " ^ string_of_err e)
  | [ "N"; _cache; n ] ->
    (match new_cache (n_of_string n) (fun k -> k) with Ok c -> fmt_policy c | Err e -> "ERR " ^ string_of_err e)
  | [ "E"; _cache; _n ] -> "same"     (* C17_new_is_builder: definitional in the model *)
  | _ -> failwith "bad config op"

(* ---------- acceptance of atomic-action traces by Conc/Cell.v ---------- *)
let parse_cact toks : cact =
  match toks with
  | [ "W"; t; k; v ] -> CWrite (n_of_string t, n_of_string k, n_of_string v)
  | [ "X"; t; k ] -> CRemove (n_of_string t, n_of_string k)
  | [ "R"; t; k; "-" ] -> CRead (n_of_string t, n_of_string k, None)
  | [ "R"; t; k; v ] -> CRead (n_of_string t, n_of_string k, Some (n_of_string v))
  | [ "E"; k ] -> CEnv (n_of_string k)
  | _ -> failwith "bad cell action"

(* ---------- intrusive list (Deque/DequePtr.v) ---------- *)
let parse_dop toks : dop =
  match toks with
  | [ "PUSH"; e ] -> DPush (n_of_string e)
  | [ "POP" ] -> DPop
  | [ "MTB"; h ] -> DMoveToBack (n_of_string h)
  | [ "MFTB" ] -> DMoveFrontToBack
  | [ "UNLINK"; h ] -> DUnlinkDrop (n_of_string h)
  | [ "CONTAINS"; h ] -> DContains (n_of_string h)
  | [ "PEEK" ] -> DPeekFront
  | [ "NEXT"; h ] -> DNextOf (n_of_string h)
  | [ "ITER" ] -> DIterNext
  | _ -> failwith "bad deque op"

let fmt_dout = function
  | DONone -> "-"
  | DOBool b -> if b then "1" else "0"
  | DOElem e -> opt_n e
  | DOHandle h -> opt_n h
  | DOPair None -> "-"
  | DOPair (Some (h, e)) -> string_of_n h ^ ":" ^ string_of_n e

let fmt_pdeque (d : pdeque) : string =
  match dq_walk d with
  | Some l ->
    Printf.sprintf "len=%s [%s] walk=ok" (string_of_n d.d_len)
      (String.concat "," (List.map (fun (h, e) -> string_of_n h ^ ":" ^ string_of_n e) l))
  | None -> Printf.sprintf "len=%s [] walk=dangling" (string_of_n d.d_len)

let parse_hact toks : hact =
  match toks with
  | [ "ACQ"; t ] -> HAcquire (n_of_string t)
  | [ "REL"; t ] -> HRelease (n_of_string t)
  | [ "LOCK"; t ] -> HLock (n_of_string t)
  | [ "UNLOCK"; t ] -> HUnlock (n_of_string t)
  | _ -> failwith "bad hk action"

type mode =
  | MNone
  | MHk of hact list
  | MDeque of pdeque
  | MCell of ((n, n) gmap) option * int      (* current map (None = already rejected), position *)
  | MConfig
  | MSync of scfg * srun
  | MSketch of sketch
  | MUnsync of ucfg * urun
  | MDead  (* the model returned Err: the rest of the case is skipped *)

let split_ws s = List.filter (fun x -> x <> "") (String.split_on_char ' ' s)

let run_sketch_op (sk : sketch) (toks : string list) : (sketch * string, err) result =
  let op =
    match toks with
    | [ "E"; c ] -> SkEnsure (n_of_string c)
    | [ "I"; h ] -> SkIncr (n_of_string h)
    | [ "F"; h ] -> SkFreq (n_of_string h)
    | _ -> failwith ("bad sketch op: " ^ String.concat " " toks)
  in
  match sk_step sk op with
  | Ok (sk', out) -> Result.Ok (sk', opt_n out)
  | Err e -> Result.Error e

let process (ic : in_channel) =
  let mode = ref MNone in
  let idx = ref 0 in
  (try
     while true do
       let line = String.trim (input_line ic) in
       if line = "" || line.[0] = '#' then ()
       else
         let toks = split_ws line in
         match toks with
         | "case" :: _ -> print_endline line; mode := MNone; idx := 0
         | "cfg" :: kvs ->
           let kv = List.map (fun s -> match String.index_opt s '=' with
               | Some i -> (String.sub s 0 i, String.sub s (i + 1) (String.length s - i - 1))
               | None -> (s, "")) kvs in
           (match List.assoc_opt "kind" kv with
            | Some "sketch" -> mode := MSketch sk_empty
            | Some "config" -> mode := MConfig
            | Some "hktrace" -> mode := MHk []
            | Some "deque" -> mode := MDeque pd_empty
            | Some "celltrace" -> mode := MCell (Some cell_empty, 0)
            | Some "sync" ->
              let c = { sc_cap = opt_of_string (assoc_def "cap" kv "none");
                        sc_ttl = opt_of_string (assoc_def "ttl" kv "none");
                        sc_tti = opt_of_string (assoc_def "tti" kv "none");
                        sc_wf = weigher_of (parse_weigher (assoc_def "weigher" kv "none"));
                        sc_hash = hasher_of (parse_hasher (assoc_def "hasher" kv "id")) } in
              mode := MSync (c, srun_init)
            | Some "unsync" ->
              let c = { uc_cap = opt_of_string (assoc_def "cap" kv "none");
                        uc_ttl = opt_of_string (assoc_def "ttl" kv "none");
                        uc_tti = opt_of_string (assoc_def "tti" kv "none");
                        uc_wf = weigher_of (parse_weigher (assoc_def "weigher" kv "none"));
                        uc_hash = hasher_of (parse_hasher (assoc_def "hasher" kv "id")) } in
              mode := MUnsync (c, urun_init)
            | Some k -> failwith ("unknown kind " ^ k)
            | None -> failwith "cfg without kind")
         | _ ->
           (match !mode with
            | MNone -> failwith "operation before cfg"
            | MDead -> ()
            | MDeque d ->
              (match dq_step d (parse_dop toks) with
               | Ok (d', out) ->
                 Printf.printf "%d %s -> %s | %s\n" !idx line (fmt_dout out) (fmt_pdeque d');
                 mode := MDeque d'
               | Err e ->
                 Printf.printf "%d %s -> ERR %s\n" !idx line (string_of_err e);
                 mode := MDead)
            | MHk acts ->
              if toks = [ "END" ] then
                let tr = List.rev acts in
                Printf.printf "%d END -> %s\n" !idx
                  (if hk_accepts_quiescent tr then "accept"
                   else if hk_accepts tr then "reject: flag or lock still held at the end"
                   else "reject: flag/lock discipline violated")
              else mode := MHk (parse_hact toks :: acts)
            | MCell (m, pos) ->
              if toks = [ "END" ] then
                Printf.printf "%d END -> %s\n" !idx (match m with Some _ -> "accept" | None -> Printf.sprintf "reject at action %d" pos)
              else (match m with
                  | None -> ()
                  | Some mm ->
                    (match cell_step mm (parse_cact toks) with
                     | Some m' -> mode := MCell (Some m', pos + 1)
                     | None -> mode := MCell (None, pos)))
            | MConfig -> Printf.printf "%d %s -> %s | -\n" !idx line (run_config_op toks)
            | MSync (_, _) when toks = [ "DROP" ] ->
              Printf.printf "%d %s -> - | dropped live=0:0\n" !idx line;
              mode := MDead
            | MSync (c, r) when List.hd toks = "Q" ->
              let k = n_of_string (List.nth toks 1) in
              Printf.printf "%d %s -> %s | %s\n" !idx line
                (string_of_n (frequency r.sr_state.s_sk (c.sc_hash k))) (fmt_sstate r.sr_state)
            | MSync (c, r) when List.hd toks = "TD" ->
              (* an iterator created now and drained after the clock moved on by d: every entry is tested
                 against the clock when it is visited, i.e. the result is that of `D d; T` *)
              let d = n_of_string (List.nth toks 1) in
              (match sstep c r (SAdvance d) with
               | Ok (r1, _) ->
                 (match sstep c r1 SIter with
                  | Ok (r2, out) ->
                    Printf.printf "%d %s -> %s | %s\n" !idx line (fmt_sout out) (fmt_sstate r2.sr_state);
                    mode := MSync (c, r2)
                  | Err e -> Printf.printf "%d %s -> ERR %s\n" !idx line (string_of_err e); mode := MDead)
               | Err e -> Printf.printf "%d %s -> ERR %s\n" !idx line (string_of_err e); mode := MDead)
            | MSync (c, r) ->
              (match sstep c r (parse_sop toks) with
               | Ok (r', out) ->
                 Printf.printf "%d %s -> %s | %s\n" !idx line (fmt_sout out) (fmt_sstate r'.sr_state);
                 if Sys.getenv_opt "MM_CHECK_INV" <> None then
                   (match check_sinv c r'.sr_state with
                    | [] -> ()
                    | fs -> Printf.printf "%d INV-FAIL %s\n" !idx (String.concat "," fs));
                 mode := MSync (c, r')
               | Err e ->
                 Printf.printf "%d %s -> ERR %s\n" !idx line (string_of_err e);
                 mode := MDead)
            | MUnsync (_, _) when toks = [ "DROP" ] ->
              Printf.printf "%d %s -> - | dropped live=0:0\n" !idx line;
              mode := MDead
            | MUnsync (c, r) when List.hd toks = "Q" ->
              let k = n_of_string (List.nth toks 1) in
              Printf.printf "%d %s -> %s | %s\n" !idx line
                (string_of_n (frequency r.ur_state.u_sk (c.uc_hash k))) (fmt_ustate r.ur_state)
            | MUnsync (c, r) when List.hd toks = "TD" ->
              let d = n_of_string (List.nth toks 1) in
              (match ustep c r (UAdvance d) with
               | Ok (r1, _) ->
                 (match ustep c r1 UIter with
                  | Ok (r2, out) ->
                    Printf.printf "%d %s -> %s | %s\n" !idx line (fmt_uout out) (fmt_ustate r2.ur_state);
                    mode := MUnsync (c, r2)
                  | Err e -> Printf.printf "%d %s -> ERR %s\n" !idx line (string_of_err e); mode := MDead)
               | Err e -> Printf.printf "%d %s -> ERR %s\n" !idx line (string_of_err e); mode := MDead)
            | MUnsync (c, r) ->
              (match ustep c r (parse_uop toks) with
               | Ok (r', out) ->
                 Printf.printf "%d %s -> %s | %s\n" !idx line (fmt_uout out) (fmt_ustate r'.ur_state);
                 mode := MUnsync (c, r')
               | Err e ->
                 Printf.printf "%d %s -> ERR %s\n" !idx line (string_of_err e);
                 mode := MDead)
            | MSketch sk ->
              (match run_sketch_op sk toks with
               | Result.Ok (sk', out) ->
                 Printf.printf "%d %s -> %s | %s\n" !idx line out (fmt_sketch sk');
                 mode := MSketch sk'
               | Result.Error e ->
                 Printf.printf "%d %s -> ERR %s\n" !idx line (string_of_err e);
                 mode := MDead));
           incr idx
     done
   with End_of_file -> ())

let () =
  if Array.length Sys.argv <= 1 then process stdin
  else
    for i = 1 to Array.length Sys.argv - 1 do
      let ic = open_in Sys.argv.(i) in
      process ic;
      close_in ic
    done
