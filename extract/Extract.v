(** Extraction of the executable models to OCaml.  ExtrOcamlBasic only: bool, option,
    unit, list, prod, sumbool are mapped to OCaml's; N / positive stay inductive
    (no Extract Constant, no mapping to OCaml int). *)
Require Import ExtrOcamlBasic.
From Coq Require Import NArith Decimal DecimalN.
From MM Require Import Base.Prelude Base.Families Sketch.SketchModel Unsync.UModel Sync.SModel Config.Builder Conc.Cell Conc.HK Deque.DequePtr Deque.DequeAbs.

Definition sk_table_list (sk : sketch) : list (N * N) := map_to_list (sk_table sk).
Definition u_map_list (s : ustate) : list (N * uentry) := map_to_list (u_map s).
Definition cell_empty : gmap N N := ∅.
Definition s_map_list (s : sstate) : list (N * N) := map_to_list (s_map s).
Definition s_infos_list (s : sstate) : list (N * sinfo) := map_to_list (s_infos s).
Definition s_ves_list (s : sstate) : list (N * sve) := map_to_list (s_ves s).

Extraction Language OCaml.
Extraction "model.ml"
  N.of_uint N.to_uint N.eqb N.ltb N.compare
  hasher_of weigher_of pred_of
  sk_empty sk_step frequency sk_table_list sk_sample sk_mask sk_tlen sk_size
  urun_init ustep u_map_list
  srun_init sstep s_map_list pd_empty dq_step dq_walk dq_drop in_contractb hk_accepts hk_accepts_quiescent cell_empty cell_step build new_cache policy get_ve get_info live_ves s_infos_list s_ves_list sweigh map_has_info.
