//! Concurrent mode: real threads of the real concurrent cache, run one at a time between
//! the library's switch points by a baton-passing scheduler, along an explicit schedule.
//!
//!   cfg kind=conc cap=.. ttl=.. tti=.. weigher=.. hasher=..
//!   TH 0 I 1 10 ; G 1 ; X 1
//!   TH 1 G 1 ; I 1 11 ; S
//!   SCHED 0 0 1 1 0 ...          (thread to run at each decision; then a default policy)
//!   RUN
//!
//! Output of RUN (one line each):
//!   ev <step> t<i> <site>                       every switch point passed, in global order
//!   op t<i> <n> <op> -> <result> start=<s> end=<e> lin=<l>
//!   done steps=<n> status=<ok|livelock>
//!   final <snapshot after quiescence> live=<v> lk=<k>
//!   probe <k1:v1,...>                           refill probe (C03) when cap is small
//!   dropped live=<k>:<v>
use crate::common::*;
use crate::sync_mode::build_sync;
use crate::Runner;
use mini_moka::sync::{Cache, ConcurrentCacheExt};
use mini_moka::verif::sched::{self, Scheduler};
use mini_moka::verif::MockClock;
use std::cell::Cell;
use std::collections::HashMap;
use std::sync::atomic::Ordering;
use std::sync::{Arc, Condvar, Mutex};

thread_local! {
    static TID: Cell<usize> = const { Cell::new(usize::MAX) };
}

struct CtlState {
    nthreads: usize,
    baton: Option<usize>,
    at_point: HashMap<usize, &'static str>,
    last_site: HashMap<usize, &'static str>,
    spinning: HashMap<usize, bool>,
    finished: Vec<bool>,
    schedule: Vec<usize>,
    sparse: HashMap<u64, usize>, // decision index -> thread to switch to (bounded-preemption exploration)
    pos: usize,
    last_run: usize,
    steps: u64,
    budget: u64,
    livelock: bool,
    events: Vec<String>,
    lin: HashMap<usize, u64>, // tid -> step of the current op's linearisation point
}

struct Ctl {
    st: Mutex<CtlState>,
    cv: Condvar,
    /// honour the switch points added later (check-then-act windows inside maintenance); off by default so that
    /// the schedules recorded before they existed keep their meaning
    ext: bool,
}

const EXT_SITES: [&str; 4] = ["upsert:checked", "expire_ao:before_remove", "expire_wo:before_remove", "evict:before_remove"];

impl Ctl {
    /// Picks the next thread to run among those waiting at a point. Must hold the lock.
    fn choose(st: &mut CtlState) {
        let runnable: Vec<usize> = (0..st.nthreads)
            .filter(|t| !st.finished[*t] && st.at_point.contains_key(t))
            .collect();
        if runnable.is_empty() {
            st.baton = None;
            return;
        }
        let not_spinning: Vec<usize> = runnable
            .iter()
            .copied()
            .filter(|t| !st.spinning.get(t).copied().unwrap_or(false))
            .collect();
        let pool = if not_spinning.is_empty() { &runnable } else { &not_spinning };
        let mut pick = None;
        if let Some(t) = st.sparse.get(&st.steps) {
            if pool.contains(t) {
                pick = Some(*t);
            }
        }
        while pick.is_none() && st.pos < st.schedule.len() {
            let t = st.schedule[st.pos];
            st.pos += 1;
            if pool.contains(&t) {
                pick = Some(t);
                break;
            }
        }
        let t = pick.unwrap_or_else(|| {
            if pool.contains(&st.last_run) {
                st.last_run
            } else {
                pool[0]
            }
        });
        st.last_run = t;
        st.baton = Some(t);
        st.steps += 1;
        if st.steps > st.budget {
            st.livelock = true;
        }
    }

    fn arrive(&self, tid: usize, site: &'static str) {
        let mut st = self.st.lock().unwrap();
        let step = st.steps;
        st.events.push(format!("ev {} t{} {}", step, tid, site));
        if matches!(site, "insert:after_map" | "invalidate:after_map" | "rop:start" | "invalidate_all:before_set") {
            st.lin.entry(tid).or_insert(step);
        }
        let spinning = site == "sync:lock" && st.last_site.get(&tid) == Some(&"sync:lock");
        st.spinning.insert(tid, spinning);
        st.last_site.insert(tid, site);
        st.at_point.insert(tid, site);
        if st.baton == Some(tid) || st.baton.is_none() {
            // the running thread yields; when nobody holds the baton yet (start-up) the
            // controller thread makes the first choice once everybody has arrived
            if st.baton == Some(tid) {
                Self::choose(&mut st);
                self.cv.notify_all();
            }
        }
        while st.baton != Some(tid) {
            if st.livelock {
                // give up scheduling: let every thread run freely so the process can end
                break;
            }
            st = self.cv.wait(st).unwrap();
        }
        st.at_point.remove(&tid);
    }

    fn finish(&self, tid: usize) {
        let mut st = self.st.lock().unwrap();
        st.finished[tid] = true;
        st.at_point.remove(&tid);
        if st.baton == Some(tid) {
            Self::choose(&mut st);
        }
        self.cv.notify_all();
    }
}

impl Scheduler for Ctl {
    fn point(&self, site: &'static str) {
        let tid = TID.with(|t| t.get());
        if tid == usize::MAX {
            return; // not a scheduled thread (controller / quiescence phase)
        }
        if !self.ext && EXT_SITES.contains(&site) {
            return;
        }
        {
            let st = self.st.lock().unwrap();
            if st.livelock {
                return;
            }
        }
        self.arrive(tid, site);
    }
}

pub struct ConcRunner {
    cfg: Cfg,
    programs: Vec<Vec<Vec<String>>>,
    schedule: Vec<usize>,
    sparse: HashMap<u64, usize>,
    budget: u64,
    ext: bool,
}

impl ConcRunner {
    pub fn new(kv: &HashMap<&str, &str>) -> ConcRunner {
        ConcRunner {
            cfg: Cfg::parse(kv),
            programs: Vec::new(),
            schedule: Vec::new(),
            sparse: HashMap::new(),
            budget: kv.get("budget").map(|b| b.parse().unwrap()).unwrap_or(20000),
            ext: kv.get("ext").map(|b| *b == "1").unwrap_or(false),
        }
    }

    fn run(&mut self) -> String {
        let cache: Cache<TK, TV, VBuild> = build_sync(&self.cfg);
        let clock = Arc::new(MockClock::default());
        cache.verif_set_clock(&clock);
        let counters = Arc::new(Counters::default());
        let n = self.programs.len();
        let ctl = Arc::new(Ctl {
            st: Mutex::new(CtlState {
                nthreads: n,
                baton: None,
                at_point: HashMap::new(),
                last_site: HashMap::new(),
                spinning: HashMap::new(),
                finished: vec![false; n],
                schedule: self.schedule.clone(),
                sparse: self.sparse.clone(),
                pos: 0,
                last_run: 0,
                steps: 0,
                budget: self.budget,
                livelock: false,
                events: Vec::new(),
                lin: HashMap::new(),
            }),
            cv: Condvar::new(),
            ext: self.ext,
        });
        sched::install(Some(ctl.clone() as Arc<dyn Scheduler>));
        let records: Arc<Mutex<Vec<String>>> = Arc::new(Mutex::new(Vec::new()));
        let mut handles = Vec::new();
        for (tid, prog) in self.programs.iter().enumerate() {
            let cache = cache.clone();
            let ctl = ctl.clone();
            let prog = prog.clone();
            let cn = counters.clone();
            let clock = clock.clone();
            let records = records.clone();
            handles.push(std::thread::spawn(move || {
                TID.with(|t| t.set(tid));
                ctl.arrive(tid, "start");
                for (i, op) in prog.iter().enumerate() {
                    let start = {
                        let mut st = ctl.st.lock().unwrap();
                        st.lin.remove(&tid);
                        st.steps
                    };
                    let now0 = clock.now_ns();
                    let num = |j: usize| -> u64 { op[j].parse().expect("bad number") };
                    let res = match op[0].as_str() {
                        "I" => {
                            cache.insert(TK::new(num(1), &cn), TV::new(num(2), &cn));
                            "-".to_string()
                        }
                        "G" => match cache.get(&TK::new(num(1), &cn)) {
                            Some(v) => v.v.to_string(),
                            None => "-".to_string(),
                        },
                        "C" => (cache.contains_key(&TK::new(num(1), &cn)) as u8).to_string(),
                        "T" => fmt_pairs(cache.iter().map(|e| (e.key().k, e.value().v)).collect()),
                        "X" => {
                            cache.invalidate(&TK::new(num(1), &cn));
                            "-".to_string()
                        }
                        "A" => {
                            cache.invalidate_all();
                            "-".to_string()
                        }
                        "S" => {
                            cache.sync();
                            "-".to_string()
                        }
                        "D" => {
                            clock.advance(dur_ns(op[1].parse().expect("bad duration")));
                            "-".to_string()
                        }
                        o => panic!("bad conc op {}", o),
                    };
                    let (end, lin) = {
                        let st = ctl.st.lock().unwrap();
                        (st.steps, st.lin.get(&tid).copied())
                    };
                    records.lock().unwrap().push(format!(
                        "op t{} {} {} -> {} start={} end={} lin={} now={}:{}",
                        tid,
                        i,
                        op.join(" "),
                        res,
                        start,
                        end,
                        lin.map(|l| l.to_string()).unwrap_or_else(|| "-".to_string()),
                        now0,
                        clock.now_ns()
                    ));
                }
                ctl.finish(tid);
            }));
        }
        // controller: wait until every thread is at its start point, then hand out the baton
        {
            let mut st = ctl.st.lock().unwrap();
            while st.at_point.len() < n {
                drop(st);
                std::thread::yield_now();
                st = ctl.st.lock().unwrap();
            }
            Ctl::choose(&mut st);
            ctl.cv.notify_all();
        }
        for h in handles {
            let _ = h.join();
        }
        sched::install(None);
        let mut out: Vec<String> = Vec::new();
        {
            let st = ctl.st.lock().unwrap();
            out.extend(st.events.iter().cloned());
            let mut recs = records.lock().unwrap().clone();
            recs.sort();
            out.extend(recs);
            out.push(format!(
                "done steps={} status={}",
                st.steps,
                if st.livelock { "livelock" } else { "ok" }
            ));
        }
        // quiescence: apply everything that is still queued
        cache.sync();
        cache.sync();
        out.push(format!(
            "final {} live={} lk={}",
            cache.verif_snapshot(clock.base(), &|k: &TK| k.k, &|v: &TV| v.v),
            counters.vals.load(Ordering::SeqCst),
            counters.keys.load(Ordering::SeqCst)
        ));
        // C03 refill probe: after the multi-threaded phase has quiesced, empty the cache and
        // insert max_capacity fresh unit-weight keys: all must be retained
        if let (Some(cap), WKind::None) = (self.cfg.cap, self.cfg.weigher) {
            if cap > 0 && cap <= 16 && self.cfg.ttl.is_none() && self.cfg.tti.is_none() {
                clock.advance(dur_ns(1));
                cache.invalidate_all();
                clock.advance(dur_ns(1));
                cache.sync();
                cache.sync();
                for j in 0..cap {
                    cache.insert(TK::new(1_000_000 + j, &counters), TV::new(1, &counters));
                    cache.sync();
                }
                out.push(format!(
                    "probe {}",
                    fmt_pairs(cache.iter().map(|e| (e.key().k, e.value().v)).collect())
                ));
            }
        }
        drop(cache);
        out.push(format!(
            "dropped live={}:{}",
            counters.keys.load(Ordering::SeqCst),
            counters.vals.load(Ordering::SeqCst)
        ));
        out.join("\n")
    }
}

impl Runner for ConcRunner {
    fn step(&mut self, toks: &[&str]) -> String {
        match toks[0] {
            "TH" => {
                let tid: usize = toks[1].parse().unwrap();
                while self.programs.len() <= tid {
                    self.programs.push(Vec::new());
                }
                let mut cur: Vec<String> = Vec::new();
                for t in &toks[2..] {
                    if *t == ";" {
                        if !cur.is_empty() {
                            self.programs[tid].push(std::mem::take(&mut cur));
                        }
                    } else {
                        cur.push(t.to_string());
                    }
                }
                if !cur.is_empty() {
                    self.programs[tid].push(cur);
                }
                "-".to_string()
            }
            "SCHED" => {
                for t in &toks[1..] {
                    if let Some(rest) = t.strip_prefix('@') {
                        let (p, th) = rest.split_once(':').expect("bad sparse schedule entry");
                        self.sparse.insert(p.parse().unwrap(), th.parse().unwrap());
                    } else {
                        self.schedule.push(t.parse().unwrap());
                    }
                }
                "-".to_string()
            }
            "RUN" => format!("-\n{}", self.run()),
            o => panic!("bad conc directive {}", o),
        }
    }
}
