//! C17: builder / policy sweep.
use crate::common::*;
use crate::Runner;
use std::collections::HashMap;
use std::time::Duration;

#[derive(Default)]
pub struct ConfigRunner;

fn fmt_opt_u64(x: Option<u64>) -> String {
    x.map(|v| v.to_string()).unwrap_or_else(|| "-".to_string())
}
fn fmt_opt_dur(x: Option<Duration>) -> String {
    x.map(|v| v.as_nanos().to_string()).unwrap_or_else(|| "-".to_string())
}
fn fmt_policy(p: &mini_moka::Policy) -> String {
    format!(
        "{}:{}:{}",
        fmt_opt_u64(p.max_capacity()),
        fmt_opt_dur(p.time_to_live()),
        fmt_opt_dur(p.time_to_idle())
    )
}

fn build_policy(cache: &str, cfg: &Cfg) -> String {
    match cache {
        "unsync" => {
            let mut b = mini_moka::unsync::Cache::<u64, u64>::builder();
            if let Some(c) = cfg.cap {
                b = b.max_capacity(c);
            }
            if let Some(d) = cfg.ttl {
                b = b.time_to_live(d);
            }
            if let Some(d) = cfg.tti {
                b = b.time_to_idle(d);
            }
            if let Some(ic) = cfg.ic {
                b = b.initial_capacity(ic);
            }
            if !matches!(cfg.weigher, WKind::None) {
                let w = cfg.weigher;
                b = b.weigher(move |k, v| weigh(w, *k, *v));
            }
            fmt_policy(&b.build().policy())
        }
        "sync" => {
            let mut b = mini_moka::sync::Cache::<u64, u64>::builder();
            if let Some(c) = cfg.cap {
                b = b.max_capacity(c);
            }
            if let Some(d) = cfg.ttl {
                b = b.time_to_live(d);
            }
            if let Some(d) = cfg.tti {
                b = b.time_to_idle(d);
            }
            if let Some(ic) = cfg.ic {
                b = b.initial_capacity(ic);
            }
            if !matches!(cfg.weigher, WKind::None) {
                let w = cfg.weigher;
                b = b.weigher(move |k, v| weigh(w, *k, *v));
            }
            fmt_policy(&b.build().policy())
        }
        c => panic!("bad cache kind {}", c),
    }
}

/// new(n) against builder().max_capacity(n).build() on a history whose outputs do not
/// depend on hash values (no admission contest: at most n distinct keys).
fn equivalent(cache: &str, n: u64) -> String {
    let keys: Vec<u64> = (0..n.min(6)).collect();
    match cache {
        "unsync" => {
            let mut a = mini_moka::unsync::Cache::<u64, u64>::new(n);
            let mut b = mini_moka::unsync::Cache::<u64, u64>::builder().max_capacity(n).build();
            let mut same = fmt_policy(&a.policy()) == fmt_policy(&b.policy());
            for k in &keys {
                a.insert(*k, k * 10);
                b.insert(*k, k * 10);
            }
            for k in 0..8u64 {
                same &= a.get(&k) == b.get(&k) && a.contains_key(&k) == b.contains_key(&k);
            }
            a.invalidate(&0);
            b.invalidate(&0);
            same &= a.entry_count() == b.entry_count() && a.weighted_size() == b.weighted_size();
            same &= a.iter().count() == b.iter().count();
            if same { "same" } else { "different" }.to_string()
        }
        "sync" => {
            use mini_moka::sync::ConcurrentCacheExt;
            let a = mini_moka::sync::Cache::<u64, u64>::new(n);
            let b = mini_moka::sync::Cache::<u64, u64>::builder().max_capacity(n).build();
            let mut same = fmt_policy(&a.policy()) == fmt_policy(&b.policy());
            for k in &keys {
                a.insert(*k, k * 10);
                b.insert(*k, k * 10);
                a.sync();
                b.sync();
            }
            for k in 0..8u64 {
                same &= a.get(&k) == b.get(&k) && a.contains_key(&k) == b.contains_key(&k);
            }
            a.invalidate(&0);
            b.invalidate(&0);
            a.sync();
            b.sync();
            same &= a.entry_count() == b.entry_count() && a.weighted_size() == b.weighted_size();
            same &= a.iter().count() == b.iter().count();
            if same { "same" } else { "different" }.to_string()
        }
        c => panic!("bad cache kind {}", c),
    }
}

impl Runner for ConfigRunner {
    fn step(&mut self, toks: &[&str]) -> String {
        let cache = toks[1].to_string();
        let out = match toks[0] {
            "B" => {
                let kv: HashMap<&str, &str> = crate::parse_cfg(&toks[2..]);
                let cfg = Cfg::parse(&kv);
                match std::panic::catch_unwind(move || build_policy(&cache, &cfg)) {
                    Ok(s) => s,
                    Err(_) => "ERR Panic".to_string(),
                }
            }
            "N" => {
                let n: u64 = toks[2].parse().unwrap();
                match cache.as_str() {
                    "unsync" => fmt_policy(&mini_moka::unsync::Cache::<u64, u64>::new(n).policy()),
                    _ => fmt_policy(&mini_moka::sync::Cache::<u64, u64>::new(n).policy()),
                }
            }
            "E" => equivalent(&cache, toks[2].parse().unwrap()),
            o => panic!("bad config op {}", o),
        };
        format!("{} | -", out)
    }
}
