//! Uncontrolled real-thread stress (no scheduler installed).
//!   cfg kind=stress cap=.. ...
//!   RW threads=4 keys=3 ops=80 seed=7      -> op records (same format as conc mode) + final + dropped
//!   ITER writers=3 iters=2 keys=40 rounds=300 seed=7 -> "iter ok iterations=N" | "iter VIOLATION ..."
use crate::common::*;
use crate::sync_mode::build_sync;
use crate::Runner;
use mini_moka::sync::{Cache, ConcurrentCacheExt};
use mini_moka::verif::MockClock;
use std::collections::HashMap;
use std::sync::atomic::{AtomicBool, AtomicU64, Ordering};
use std::sync::{Arc, Mutex};

pub struct StressRunner {
    cfg: Cfg,
}

fn arg(toks: &[&str], name: &str, default: u64) -> u64 {
    for t in toks {
        if let Some(v) = t.strip_prefix(&format!("{}=", name)) {
            return v.parse().unwrap();
        }
    }
    default
}

struct Lcg(u64);
impl Lcg {
    fn next(&mut self) -> u64 {
        self.0 = self.0.wrapping_mul(6364136223846793005).wrapping_add(1442695040888963407);
        self.0 >> 33
    }
}

impl StressRunner {
    pub fn new(kv: &HashMap<&str, &str>) -> StressRunner {
        StressRunner { cfg: Cfg::parse(kv) }
    }

    fn rw(&self, toks: &[&str]) -> String {
        let (threads, keys, nops, seed) = (arg(toks, "threads", 4), arg(toks, "keys", 3), arg(toks, "ops", 60), arg(toks, "seed", 1));
        let cache: Cache<TK, TV, VBuild> = build_sync(&self.cfg);
        let clock = MockClock::default();
        cache.verif_set_clock(&clock);
        // optionally leave the periodic-sync interval of the clock before the threads start
        let adv = arg(toks, "adv", 0);
        if adv > 0 {
            clock.advance(dur_ns(adv as u128));
        }
        let wr = arg(toks, "writes", 40);
        let quiet = arg(toks, "quiet", 0) == 1;
        let tick = arg(toks, "tick", 0);
        let inval = arg(toks, "inval", 0);
        let clock = Arc::new(clock);
        let counters = Arc::new(Counters::default());
        let ticket = Arc::new(AtomicU64::new(1));
        let records: Arc<Mutex<Vec<String>>> = Arc::new(Mutex::new(Vec::new()));
        let mut hs = Vec::new();
        for t in 0..threads {
            let cache = cache.clone();
            let cn = counters.clone();
            let ticket = ticket.clone();
            let records = records.clone();
            let clock = clock.clone();
            hs.push(std::thread::spawn(move || {
                let mut rng = Lcg(seed.wrapping_mul(1000003).wrapping_add(t));
                let mut local = Vec::new();
                for i in 0..nops {
                    if tick > 0 {
                        // keep the clock beyond the periodic-sync interval of the last maintenance run
                        clock.advance(dur_ns(tick as u128));
                    }
                    let k = 1 + rng.next() % keys;
                    let r = rng.next() % 100;
                    if inval > 0 && rng.next() % 100 < inval {
                        // invalidate_all at a strictly later clock reading than everything written so far
                        clock.advance(dur_ns(1));
                        let start = ticket.fetch_add(1, Ordering::SeqCst);
                        let now0 = clock.now_ns();
                        cache.invalidate_all();
                        let now1 = clock.now_ns();
                        let end = ticket.fetch_add(1, Ordering::SeqCst);
                        if !quiet {
                            local.push(format!("op t{} {} A -> - start={} end={} lin=- now={}:{}", t, i, start, end, now0, now1));
                        }
                        continue;
                    }
                    let start = ticket.fetch_add(1, Ordering::SeqCst);
                    let now0 = clock.now_ns();
                    let (op, res) = if r < wr {
                        let v = 1000 * (t + 1) * 1000 + i; // unique per write
                        cache.insert(TK::new(k, &cn), TV::new(v, &cn));
                        (format!("I {} {}", k, v), "-".to_string())
                    } else if r < wr + 45 {
                        let res = match cache.get(&TK::new(k, &cn)) {
                            Some(v) => v.v.to_string(),
                            None => "-".to_string(),
                        };
                        (format!("G {}", k), res)
                    } else if r < wr + 55 {
                        cache.invalidate(&TK::new(k, &cn));
                        (format!("X {}", k), "-".to_string())
                    } else {
                        cache.sync();
                        ("S".to_string(), "-".to_string())
                    };
                    let now1 = clock.now_ns();
                    let end = ticket.fetch_add(1, Ordering::SeqCst);
                    if !quiet {
                        local.push(format!("op t{} {} {} -> {} start={} end={} lin=- now={}:{}", t, i, op, res, start, end, now0, now1));
                    }
                }
                records.lock().unwrap().extend(local);
            }));
        }
        let mut joined = true;
        for h in hs {
            joined &= h.join().is_ok();
        }
        let mut out = records.lock().unwrap().clone();
        out.sort();
        out.push(format!("done steps={} status={}", ticket.load(Ordering::SeqCst), if joined { "ok" } else { "panic" }));
        cache.sync();
        cache.sync();
        out.push(format!(
            "final {} live={} lk={}",
            cache.verif_snapshot(clock.base(), &|k: &TK| k.k, &|v: &TV| v.v),
            counters.vals.load(Ordering::SeqCst),
            counters.keys.load(Ordering::SeqCst)
        ));
        drop(cache);
        out.push(format!(
            "dropped live={}:{}",
            counters.keys.load(Ordering::SeqCst),
            counters.vals.load(Ordering::SeqCst)
        ));
        out.join("\n")
    }

    /// k writer threads update a fixed key set (each key owned by one writer, values
    /// strictly increasing) while m threads iterate: every iteration must yield every key
    /// exactly once with a value that was current at some moment of the iteration.
    fn iter(&self, toks: &[&str]) -> String {
        let (writers, iters, keys, rounds, seed) =
            (arg(toks, "writers", 3), arg(toks, "iters", 2), arg(toks, "keys", 40), arg(toks, "rounds", 300), arg(toks, "seed", 1));
        // churn=c: c more threads insert and invalidate keys OUTSIDE the resident set [0, keys) all the time
        // (they may or may not be yielded); the resident keys must still be yielded exactly once
        let churn = arg(toks, "churn", 0);
        let cache: Cache<u64, u64, VBuild> = {
            let mut b = Cache::builder();
            if let Some(c) = self.cfg.cap {
                b = b.max_capacity(c.max(keys * 8));
            }
            b.build_with_hasher(VBuild(self.cfg.hasher))
        };
        let latest: Arc<Vec<AtomicU64>> = Arc::new((0..keys).map(|_| AtomicU64::new(0)).collect());
        for k in 0..keys {
            cache.insert(k, 0);
        }
        cache.sync();
        let stop = Arc::new(AtomicBool::new(false));
        let mut hs = Vec::new();
        for w in 0..writers {
            let (cache, latest, stop) = (cache.clone(), latest.clone(), stop.clone());
            hs.push(std::thread::spawn(move || {
                let mut rng = Lcg(seed.wrapping_add(w * 77));
                let mut n = 0u64;
                while !stop.load(Ordering::SeqCst) {
                    let k = (rng.next() % keys) / writers * writers + w;
                    if k >= keys {
                        continue;
                    }
                    n += 1;
                    let v = latest[k as usize].load(Ordering::SeqCst) + 1;
                    cache.insert(k, v);
                    latest[k as usize].store(v, Ordering::SeqCst);
                    if n % 64 == 0 {
                        cache.sync();
                    }
                }
            }));
        }
        for c in 0..churn {
            let (cache, stop) = (cache.clone(), stop.clone());
            hs.push(std::thread::spawn(move || {
                let mut rng = Lcg(seed.wrapping_add(900 + c * 31));
                let mut n = 0u64;
                while !stop.load(Ordering::SeqCst) {
                    let x = rng.next() % keys;
                    // half of the outside keys differ from a resident key only in the upper hash bits
                    let k = if rng.next() % 2 == 0 { keys + x } else { ((x + 1) << 32) | x };
                    n += 1;
                    if rng.next() % 3 == 0 {
                        cache.invalidate(&k);
                    } else {
                        cache.insert(k, n);
                    }
                    if n % 97 == 0 {
                        cache.sync();
                    }
                }
            }));
        }
        let problem: Arc<Mutex<Option<String>>> = Arc::new(Mutex::new(None));
        if churn > 0 {
            // deterministic prologue: keys inserted between the creation of an iterator and its first step
            let it = cache.iter();
            for k in 0..keys {
                cache.insert(2 * keys + k, 7);
                cache.insert(((k + 1) << 40) | k, 7);
            }
            let mut seen = vec![0u32; keys as usize];
            for e in it {
                if *e.key() < keys {
                    seen[*e.key() as usize] += 1;
                }
            }
            if let Some((k, c)) = seen.iter().enumerate().find(|(_, c)| **c != 1) {
                *problem.lock().unwrap() =
                    Some(format!("resident key {} yielded {} times by an iterator created before {} other keys were inserted", k, c, keys));
            }
            for k in 0..keys {
                cache.invalidate(&(2 * keys + k));
                cache.invalidate(&(((k + 1) << 40) | k));
            }
            cache.sync();
        }
        let total = Arc::new(AtomicU64::new(0));
        let mut is = Vec::new();
        for _ in 0..iters {
            let (cache, latest, problem, total) = (cache.clone(), latest.clone(), problem.clone(), total.clone());
            is.push(std::thread::spawn(move || {
                for _ in 0..rounds {
                    let before: Vec<u64> = latest.iter().map(|a| a.load(Ordering::SeqCst)).collect();
                    let got: Vec<(u64, u64)> = cache.iter().map(|e| (*e.key(), *e.value())).collect();
                    let after: Vec<u64> = latest.iter().map(|a| a.load(Ordering::SeqCst)).collect();
                    total.fetch_add(1, Ordering::SeqCst);
                    let mut seen = vec![0u32; keys as usize];
                    for (k, v) in &got {
                        if *k >= keys {
                            if churn > 0 {
                                continue;
                            }
                            *problem.lock().unwrap() = Some(format!("iteration yielded unknown key {}", k));
                            return;
                        }
                        seen[*k as usize] += 1;
                        // a writer publishes `latest` after the insert, so the map may be one ahead
                        if *v < before[*k as usize] || *v > after[*k as usize] + 1 {
                            *problem.lock().unwrap() = Some(format!(
                                "key {} yielded with value {} which was not current during the iteration ({}..{})",
                                k, v, before[*k as usize], after[*k as usize]
                            ));
                            return;
                        }
                    }
                    for (k, c) in seen.iter().enumerate() {
                        if *c != 1 {
                            *problem.lock().unwrap() = Some(format!("key {} yielded {} times in one iteration", k, c));
                            return;
                        }
                    }
                }
            }));
        }
        for h in is {
            let _ = h.join();
        }
        stop.store(true, Ordering::SeqCst);
        for h in hs {
            let _ = h.join();
        }
        let p = problem.lock().unwrap().clone();
        match p {
            None => format!("iter ok iterations={}", total.load(Ordering::SeqCst)),
            Some(p) => format!("iter VIOLATION {}", p),
        }
    }
}

impl Runner for StressRunner {
    fn step(&mut self, toks: &[&str]) -> String {
        match toks[0] {
            "RW" => format!("-\n{}", self.rw(toks)),
            "ITER" => format!("-\n{}", self.iter(toks)),
            o => panic!("bad stress directive {}", o),
        }
    }
}
