//! Harness: runs history cases (see /verif/DESIGN.md, "History format") against the
//! real implementation built from /repo with `--cfg mini_moka_verif` and prints one
//! trace line per operation, in exactly the format the extracted Coq model prints.

use std::io::{BufRead, Write};

mod common;
mod conc_mode;
mod config_mode;
mod deque_mode;
mod sketch_mode;
mod stress_mode;
mod sync_mode;
mod unsync_mode;

pub trait Runner {
    /// Runs one operation line; returns the text after "-> ".
    fn step(&mut self, toks: &[&str]) -> String;
}

pub fn parse_cfg<'a>(toks: &[&'a str]) -> std::collections::HashMap<&'a str, &'a str> {
    toks.iter()
        .map(|t| match t.find('=') {
            Some(i) => (&t[..i], &t[i + 1..]),
            None => (*t, ""),
        })
        .collect()
}

/// Runs the operation lines of one case in a worker thread; the caller waits for every
/// answer with a timeout, so that a hanging operation (deadlock, livelock) is reported
/// as `CRASH hang` for that operation and does not block the remaining cases.
fn run_case(lines: Vec<String>, tx: std::sync::mpsc::Sender<String>) {
    let mut runner: Option<Box<dyn Runner>> = None;
    let mut dead = false;
    let mut idx = 0usize;
    for line in lines {
        let toks: Vec<&str> = line.split_whitespace().collect();
        if toks[0] == "cfg" {
            let cfg = parse_cfg(&toks[1..]);
            let kind = cfg.get("kind").copied();
            let r: Result<Box<dyn Runner>, _> = std::panic::catch_unwind(std::panic::AssertUnwindSafe(|| -> Box<dyn Runner> {
                match kind {
                    Some("sketch") => Box::new(sketch_mode::SketchRunner::default()),
                    Some("deque") => Box::new(deque_mode::DequeRunner::default()),
                    Some("conc") => Box::new(conc_mode::ConcRunner::new(&cfg)),
                    Some("config") => Box::new(config_mode::ConfigRunner),
                    Some("stress") => Box::new(stress_mode::StressRunner::new(&cfg)),
                    Some("sync") => Box::new(sync_mode::SyncRunner::new(&cfg)),
                    Some("unsync") => Box::new(unsync_mode::UnsyncRunner::new(&cfg)),
                    k => panic!("unknown kind {:?}", k),
                }
            }));
            match r {
                Ok(r) => runner = Some(r),
                Err(_) => {
                    let _ = tx.send(format!("{} {} -> ERR Panic [cache construction panicked]", idx, line));
                    dead = true;
                }
            }
            continue;
        }
        if !dead {
            let _ = tx.send(format!("@begin {} {}", idx, line));
            let r = runner.as_mut().expect("operation before cfg");
            let res = std::panic::catch_unwind(std::panic::AssertUnwindSafe(|| r.step(&toks)));
            match res {
                Ok(s) => {
                    let _ = tx.send(format!("{} {} -> {}", idx, line, s));
                }
                Err(e) => {
                    let msg = if let Some(s) = e.downcast_ref::<String>() {
                        s.clone()
                    } else if let Some(s) = e.downcast_ref::<&str>() {
                        s.to_string()
                    } else {
                        "?".to_string()
                    };
                    let _ = tx.send(format!("{} {} -> ERR {}", idx, line, classify_panic(&msg)));
                    dead = true;
                    // the runner may be in a broken state: leak it rather than drop it
                    std::mem::forget(runner.take());
                }
            }
        }
        idx += 1;
    }
    let _ = tx.send("@end".to_string());
}

fn process(input: &mut dyn BufRead, out: &mut dyn Write) {
    // group the input into cases
    let mut cases: Vec<(String, Vec<String>)> = Vec::new();
    for line in input.lines() {
        let line = line.expect("read error");
        let line = line.trim().to_string();
        if line.is_empty() || line.starts_with('#') {
            continue;
        }
        if line.starts_with("case") {
            cases.push((line, Vec::new()));
        } else {
            if cases.is_empty() {
                cases.push(("case anonymous".to_string(), Vec::new()));
            }
            cases.last_mut().unwrap().1.push(line);
        }
    }
    let op_timeout = std::time::Duration::from_secs(
        std::env::var("VERIF_OP_TIMEOUT").ok().and_then(|s| s.parse().ok()).unwrap_or(20),
    );
    for (header, lines) in cases {
        writeln!(out, "{}", header).unwrap();
        let (tx, rx) = std::sync::mpsc::channel::<String>();
        let handle = std::thread::Builder::new()
            .stack_size(16 << 20)
            .spawn(move || run_case(lines, tx))
            .expect("spawn");
        let mut current: Option<String> = None;
        loop {
            match rx.recv_timeout(op_timeout) {
                Ok(l) if l == "@end" => {
                    let _ = handle.join();
                    break;
                }
                Ok(l) if l.starts_with("@begin ") => current = Some(l[7..].to_string()),
                Ok(l) => {
                    current = None;
                    writeln!(out, "{}", l).unwrap();
                }
                Err(std::sync::mpsc::RecvTimeoutError::Timeout) => {
                    let c = current.clone().unwrap_or_else(|| "? ?".to_string());
                    writeln!(out, "{} -> CRASH hang (the operation did not return within {} s)", c, op_timeout.as_secs()).unwrap();
                    // abandon the worker thread (it only holds its own cache's locks)
                    break;
                }
                Err(std::sync::mpsc::RecvTimeoutError::Disconnected) => {
                    let c = current.clone().unwrap_or_else(|| "? ?".to_string());
                    writeln!(out, "{} -> CRASH worker thread died", c).unwrap();
                    break;
                }
            }
        }
        out.flush().unwrap();
    }
}

/// Maps a panic message of the implementation to the model's error enum.
fn classify_panic(msg: &str) -> String {
    let class = if msg.contains("overflow") && (msg.contains("attempt to") || msg.contains("arithmetic")) {
        "Overflow"
    } else if msg.contains("unreachable") {
        "Unreachable"
    } else if msg.contains("called `Option::unwrap()`") || msg.contains("Cannot ") || msg.contains("expect") {
        "ExpectFailed"
    } else {
        "Panic"
    };
    format!("{} [{}]", class, msg.replace('\n', " "))
}

fn main() {
    std::panic::set_hook(Box::new(|_| {}));
    let args: Vec<String> = std::env::args().skip(1).collect();
    let stdout = std::io::stdout();
    let mut out = std::io::BufWriter::new(stdout.lock());
    if args.is_empty() {
        let stdin = std::io::stdin();
        process(&mut stdin.lock(), &mut out);
    } else {
        for a in args {
            let f = std::fs::File::open(&a).unwrap_or_else(|e| panic!("{}: {}", a, e));
            process(&mut std::io::BufReader::new(f), &mut out);
        }
    }
}
