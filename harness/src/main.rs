//! Harness: runs history cases (see /verif/DESIGN.md, "History format") against the
//! real implementation built from /repo with `--cfg mini_moka_verif` and prints one
//! trace line per operation, in exactly the format the extracted Coq model prints.

use std::io::{BufRead, Write};

mod common;
mod conc_mode;
mod config_mode;
mod sketch_mode;
mod stress_mode;
mod sync_mode;
mod unsync_mode;

pub trait Runner {
    /// Runs one operation line; returns the text after "-> ".
    fn step(&mut self, toks: &[&str]) -> String;
}

pub fn parse_cfg<'a>(toks: &[&'a str]) -> std::collections::HashMap<&'a str, &'a str> {
    toks.iter()
        .map(|t| match t.find('=') {
            Some(i) => (&t[..i], &t[i + 1..]),
            None => (*t, ""),
        })
        .collect()
}

fn process(input: &mut dyn BufRead, out: &mut dyn Write) {
    let mut runner: Option<Box<dyn Runner>> = None;
    let mut dead = false;
    let mut idx = 0usize;
    for line in input.lines() {
        let line = line.expect("read error");
        let line = line.trim();
        if line.is_empty() || line.starts_with('#') {
            continue;
        }
        let toks: Vec<&str> = line.split_whitespace().collect();
        match toks[0] {
            "case" => {
                writeln!(out, "{}", line).unwrap();
                runner = None;
                dead = false;
                idx = 0;
            }
            "cfg" => {
                let cfg = parse_cfg(&toks[1..]);
                runner = Some(match cfg.get("kind").copied() {
                    Some("sketch") => Box::new(sketch_mode::SketchRunner::default()),
                    Some("conc") => Box::new(conc_mode::ConcRunner::new(&cfg)),
                    Some("config") => Box::new(config_mode::ConfigRunner),
                    Some("stress") => Box::new(stress_mode::StressRunner::new(&cfg)),
                    Some("sync") => Box::new(sync_mode::SyncRunner::new(&cfg)),
                    Some("unsync") => Box::new(unsync_mode::UnsyncRunner::new(&cfg)),
                    k => panic!("unknown kind {:?}", k),
                });
            }
            _ => {
                if !dead {
                    let r = runner.as_mut().expect("operation before cfg");
                    let res = std::panic::catch_unwind(std::panic::AssertUnwindSafe(|| r.step(&toks)));
                    match res {
                        Ok(s) => writeln!(out, "{} {} -> {}", idx, line, s).unwrap(),
                        Err(e) => {
                            let msg = if let Some(s) = e.downcast_ref::<String>() {
                                s.clone()
                            } else if let Some(s) = e.downcast_ref::<&str>() {
                                s.to_string()
                            } else {
                                "?".to_string()
                            };
                            writeln!(out, "{} {} -> ERR {}", idx, line, classify_panic(&msg)).unwrap();
                            dead = true;
                            // the runner may be in a broken state: leak it rather than drop it
                            std::mem::forget(runner.take());
                        }
                    }
                }
                idx += 1;
            }
        }
    }
}

/// Maps a panic message of the implementation to the model's error enum.
fn classify_panic(msg: &str) -> String {
    let class = if msg.contains("overflow") && (msg.contains("attempt to") || msg.contains("arithmetic")) {
        "Overflow"
    } else if msg.contains("unreachable") {
        "Unreachable"
    } else if msg.contains("called `Option::unwrap()`") || msg.contains("Cannot ") || msg.contains("expect") {
        "ExpectFailed"
    } else {
        "Panic"
    };
    format!("{} [{}]", class, msg.replace('\n', " "))
}

fn main() {
    std::panic::set_hook(Box::new(|_| {}));
    let args: Vec<String> = std::env::args().skip(1).collect();
    let stdout = std::io::stdout();
    let mut out = std::io::BufWriter::new(stdout.lock());
    if args.is_empty() {
        let stdin = std::io::stdin();
        process(&mut stdin.lock(), &mut out);
    } else {
        for a in args {
            let f = std::fs::File::open(&a).unwrap_or_else(|e| panic!("{}: {}", a, e));
            process(&mut std::io::BufReader::new(f), &mut out);
        }
    }
}
