//! Deque facade mode: drives `Deque<u64>` through integer handles (allocation order).
//!   cfg kind=deque ;  ops: PUSH e | POP | MTB h | MFTB | UNLINK h | CONTAINS h | PEEK | NEXT h | ITER
use crate::Runner;
use mini_moka::verif::Deq;

#[derive(Default)]
pub struct DequeRunner {
    d: Deq,
}

fn opt(x: Option<u64>) -> String {
    x.map(|v| v.to_string()).unwrap_or_else(|| "-".to_string())
}

impl Runner for DequeRunner {
    fn step(&mut self, toks: &[&str]) -> String {
        let num = |i: usize| -> usize { toks[i].parse().expect("bad number") };
        let out = match toks[0] {
            "PUSH" => self.d.push_back(toks[1].parse().unwrap()).to_string(),
            "POP" => opt(self.d.pop_front()),
            "MTB" => {
                self.d.move_to_back(num(1));
                "-".to_string()
            }
            "MFTB" => {
                self.d.move_front_to_back();
                "-".to_string()
            }
            "UNLINK" => {
                self.d.unlink_and_drop(num(1));
                "-".to_string()
            }
            "CONTAINS" => (self.d.contains(num(1)) as u8).to_string(),
            "PEEK" => match self.d.peek_front() {
                Some((h, e)) => format!("{}:{}", h, e),
                None => "-".to_string(),
            },
            "NEXT" => opt(self.d.next_of(num(1)).map(|h| h as u64)),
            "ITER" => opt(self.d.iter_next()),
            o => panic!("bad deque op {}", o),
        };
        format!("{} | {}", out, self.d.state())
    }
}
