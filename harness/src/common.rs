//! Deterministic hashers, drop-counting key/value types and cfg parsing shared by the
//! cache modes.
use std::collections::HashMap;
use std::hash::{BuildHasher, Hash, Hasher};
use std::sync::atomic::{AtomicI64, Ordering};
use std::sync::Arc;
use std::time::Duration;

#[derive(Clone, Copy, Debug)]
pub enum HKind {
    Id,
    Mod(u64),
    Const(u64),
    Mul(u64),
}

impl HKind {
    pub fn parse(s: &str) -> HKind {
        let p: Vec<&str> = s.split(':').collect();
        match p.as_slice() {
            ["id"] => HKind::Id,
            ["mod", m] => HKind::Mod(m.parse().unwrap()),
            ["const", c] => HKind::Const(c.parse().unwrap()),
            ["mul", a] => HKind::Mul(a.parse().unwrap()),
            _ => panic!("bad hasher {}", s),
        }
    }
    pub fn apply(&self, k: u64) -> u64 {
        match *self {
            HKind::Id => k,
            HKind::Mod(m) => {
                if m == 0 {
                    0
                } else {
                    k % m
                }
            }
            HKind::Const(c) => c,
            HKind::Mul(a) => k.wrapping_mul(a),
        }
    }
}

#[derive(Clone)]
pub struct VBuild(pub HKind);
pub struct VHasher {
    kind: HKind,
    acc: u64,
}
impl BuildHasher for VBuild {
    type Hasher = VHasher;
    fn build_hasher(&self) -> VHasher {
        VHasher { kind: self.0, acc: 0 }
    }
}
impl Hasher for VHasher {
    fn write(&mut self, bytes: &[u8]) {
        for b in bytes {
            self.acc = (self.acc << 8) | (*b as u64);
        }
    }
    fn write_u64(&mut self, x: u64) {
        self.acc = x;
    }
    fn finish(&self) -> u64 {
        self.kind.apply(self.acc)
    }
}

/// Live-object counters (constructions + clones - drops).
#[derive(Default)]
pub struct Counters {
    pub keys: AtomicI64,
    pub vals: AtomicI64,
    pub key_drops: AtomicI64,
    pub val_drops: AtomicI64,
}

pub struct TK {
    pub k: u64,
    c: Arc<Counters>,
}
impl TK {
    pub fn new(k: u64, c: &Arc<Counters>) -> TK {
        c.keys.fetch_add(1, Ordering::SeqCst);
        TK { k, c: Arc::clone(c) }
    }
}
impl Drop for TK {
    fn drop(&mut self) {
        self.c.keys.fetch_sub(1, Ordering::SeqCst);
        self.c.key_drops.fetch_add(1, Ordering::SeqCst);
    }
}
impl PartialEq for TK {
    fn eq(&self, o: &TK) -> bool {
        self.k == o.k
    }
}
impl Eq for TK {}
impl Hash for TK {
    fn hash<H: Hasher>(&self, state: &mut H) {
        state.write_u64(self.k)
    }
}

pub struct TV {
    pub v: u64,
    c: Arc<Counters>,
}
impl TV {
    pub fn new(v: u64, c: &Arc<Counters>) -> TV {
        c.vals.fetch_add(1, Ordering::SeqCst);
        TV { v, c: Arc::clone(c) }
    }
}
impl Clone for TV {
    fn clone(&self) -> TV {
        TV::new(self.v, &self.c)
    }
}
impl Drop for TV {
    fn drop(&mut self) {
        self.c.vals.fetch_sub(1, Ordering::SeqCst);
        self.c.val_drops.fetch_add(1, Ordering::SeqCst);
    }
}

#[derive(Clone, Copy, Debug)]
pub enum WKind {
    None,
    Value,
    KeyPlusValue,
}

#[derive(Clone, Debug)]
pub struct Cfg {
    pub cap: Option<u64>,
    pub ttl: Option<Duration>,
    pub tti: Option<Duration>,
    pub weigher: WKind,
    pub hasher: HKind,
    pub ic: Option<usize>,
}

fn opt_u64(s: Option<&&str>) -> Option<u64> {
    match s {
        None | Some(&"none") => None,
        Some(x) => Some(x.parse().expect("bad number")),
    }
}

/// nanoseconds (possibly more than u64::MAX) -> Duration
pub fn dur_ns(ns: u128) -> Duration {
    Duration::new((ns / 1_000_000_000) as u64, (ns % 1_000_000_000) as u32)
}

fn opt_dur(s: Option<&&str>) -> Option<Duration> {
    match s {
        None | Some(&"none") => None,
        Some(x) => Some(dur_ns(x.parse::<u128>().expect("bad duration"))),
    }
}

impl Cfg {
    pub fn parse(kv: &HashMap<&str, &str>) -> Cfg {
        Cfg {
            cap: opt_u64(kv.get("cap")),
            ttl: opt_dur(kv.get("ttl")),
            tti: opt_dur(kv.get("tti")),
            weigher: match kv.get("weigher").copied().unwrap_or("none") {
                "none" => WKind::None,
                "value" => WKind::Value,
                "kv" => WKind::KeyPlusValue,
                w => panic!("bad weigher {}", w),
            },
            hasher: HKind::parse(kv.get("hasher").copied().unwrap_or("id")),
            ic: opt_u64(kv.get("ic")).map(|x| x as usize),
        }
    }
}

pub fn weigh(w: WKind, k: u64, v: u64) -> u32 {
    match w {
        WKind::None => 1,
        WKind::Value => v as u32,
        WKind::KeyPlusValue => k.wrapping_add(v) as u32,
    }
}

pub fn pred(toks: &[&str]) -> Box<dyn Fn(u64, u64) -> bool> {
    match toks {
        ["all"] => Box::new(|_, _| true),
        ["kmod", m, r] => {
            let (m, r): (u64, u64) = (m.parse().unwrap(), r.parse().unwrap());
            Box::new(move |k, _| m != 0 && k % m == r)
        }
        ["vlt", x] => {
            let x: u64 = x.parse().unwrap();
            Box::new(move |_, v| v < x)
        }
        _ => panic!("bad predicate {:?}", toks),
    }
}

pub fn fmt_pairs(mut l: Vec<(u64, u64)>) -> String {
    l.sort();
    let s: Vec<String> = l.iter().map(|(k, v)| format!("{}:{}", k, v)).collect();
    format!("[{}]", s.join(","))
}
