use crate::Runner;
use mini_moka::verif::Sketch;

#[derive(Default)]
pub struct SketchRunner {
    sk: Sketch,
}

impl Runner for SketchRunner {
    fn step(&mut self, toks: &[&str]) -> String {
        let arg: u64 = toks[1].parse().expect("bad number");
        let out = match toks[0] {
            "E" => {
                self.sk.ensure_capacity(arg as u32);
                "-".to_string()
            }
            "I" => {
                self.sk.increment(arg);
                "-".to_string()
            }
            "F" => self.sk.frequency(arg).to_string(),
            o => panic!("bad sketch op {}", o),
        };
        format!("{} | {}", out, self.sk.state())
    }
}
