use crate::common::*;
use crate::Runner;
use mini_moka::sync::{Cache, ConcurrentCacheExt};
use mini_moka::verif::MockClock;
use std::collections::HashMap;
use std::sync::atomic::Ordering;
use std::sync::Arc;

pub struct SyncRunner {
    cache: Option<Cache<TK, TV, VBuild>>,
    clock: MockClock,
    counters: Arc<Counters>,
}

pub fn build_sync(cfg: &Cfg) -> Cache<TK, TV, VBuild> {
    let mut b = Cache::builder();
    if let Some(c) = cfg.cap {
        b = b.max_capacity(c);
    }
    if let Some(d) = cfg.ttl {
        b = b.time_to_live(d);
    }
    if let Some(d) = cfg.tti {
        b = b.time_to_idle(d);
    }
    if let Some(ic) = cfg.ic {
        b = b.initial_capacity(ic);
    }
    match cfg.weigher {
        WKind::None => {}
        w => b = b.weigher(move |k: &TK, v: &TV| weigh(w, k.k, v.v)),
    }
    b.build_with_hasher(VBuild(cfg.hasher))
}

impl SyncRunner {
    pub fn new(kv: &HashMap<&str, &str>) -> SyncRunner {
        let cfg = Cfg::parse(kv);
        let cache = build_sync(&cfg);
        let clock = MockClock::default();
        cache.verif_set_clock(&clock);
        SyncRunner {
            cache: Some(cache),
            clock,
            counters: Arc::new(Counters::default()),
        }
    }

    fn state(&self) -> String {
        let c = self.cache.as_ref().unwrap();
        format!(
            "{} live={} lk={}",
            c.verif_snapshot(self.clock.base(), &|k: &TK| k.k, &|v: &TV| v.v),
            self.counters.vals.load(Ordering::SeqCst),
            self.counters.keys.load(Ordering::SeqCst)
        )
    }
}

impl Runner for SyncRunner {
    fn step(&mut self, toks: &[&str]) -> String {
        let cn = Arc::clone(&self.counters);
        let num = |i: usize| -> u64 { toks[i].parse().expect("bad number") };
        let cache = self.cache.as_ref().unwrap();
        let out = match toks[0] {
            "I" => {
                cache.insert(TK::new(num(1), &cn), TV::new(num(2), &cn));
                "-".to_string()
            }
            "G" => match cache.get(&TK::new(num(1), &cn)) {
                Some(v) => v.v.to_string(),
                None => "-".to_string(),
            },
            "C" => (cache.contains_key(&TK::new(num(1), &cn)) as u8).to_string(),
            "T" => fmt_pairs(cache.iter().map(|e| (e.key().k, e.value().v)).collect()),
            "TD" => {
                // an iterator created now and drained after the clock moved on
                let it = cache.iter();
                self.clock.advance(dur_ns(toks[1].parse().expect("bad duration")));
                fmt_pairs(it.map(|e| (e.key().k, e.value().v)).collect())
            }
            "X" => {
                cache.invalidate(&TK::new(num(1), &cn));
                "-".to_string()
            }
            "A" => {
                cache.invalidate_all();
                "-".to_string()
            }
            "S" => {
                cache.sync();
                "-".to_string()
            }
            "Q" => cache.verif_frequency(&TK::new(num(1), &cn)).to_string(),
            "D" => {
                self.clock.advance(dur_ns(toks[1].parse().expect("bad duration")));
                "-".to_string()
            }
            "DROP" => {
                self.cache = None;
                return format!(
                    "- | dropped live={}:{}",
                    self.counters.keys.load(Ordering::SeqCst),
                    self.counters.vals.load(Ordering::SeqCst)
                );
            }
            o => panic!("bad sync op {}", o),
        };
        format!("{} | {}", out, self.state())
    }
}
