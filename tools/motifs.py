"""Scenario composer: histories built from short *motifs*, each a pattern that realistic defects need in order to
show (a write or a read still pending on the concurrent cache, an update that changes the weight, a weight of 0 /
exactly the capacity / more than the capacity, a clock landing exactly on a write-based or access-based deadline,
re-insertion after an invalidation, two operations at the same clock reading, more than one maintenance batch, ...).
A case is a configuration that makes its motifs meaningful plus 3-7 motifs over a small key universe, glued with
occasional maintenance and observation.  The composer tracks the clock and per-key write/access times, so that the
deadline motifs can aim at the exact nanosecond."""
from gen import SEC, cfg_line

REGIME = 500_000_000          # housekeeping runs on every operation while now <= sync_after


class Ctx:
    def __init__(self, rng, kind, cfg):
        self.rng, self.kind, self.cfg = rng, kind, cfg
        self.now = 0
        self.lines = [cfg_line(cfg)]
        self.wt = {}          # key -> clock reading of its last insert/update
        self.at = {}          # key -> clock reading of its last insert/update/successful-looking get
        self.keys = list(range(1, rng.choice([3, 4, 6]) + 1))
        self.cap = cfg["cap"] if cfg["cap"] != "none" else None
        self.weighted = cfg["weigher"] != "none"

    # ---- primitive emitters
    def S(self, p=1.0):
        if self.kind == "sync" and self.rng.random() < p:
            self.lines.append("S")

    def D(self, d):
        if d > 0:
            self.lines.append(f"D {d}")
            self.now += d

    def I(self, k, v):
        self.lines.append(f"I {k} {v}")
        self.wt[k] = self.at[k] = self.now

    def G(self, k):
        self.lines.append(f"G {k}")
        if k in self.at:
            self.at[k] = self.now

    def key(self, resident=None):
        pool = [k for k in self.keys if (k in self.wt) == resident] if resident is not None else self.keys
        return self.rng.choice(pool or self.keys)

    def val(self, kind="normal"):
        r = self.rng
        if not self.weighted:
            return r.randrange(1, 90)
        cap = self.cap if self.cap is not None else 8
        if kind == "zero":
            return 0
        if kind == "exact":
            return cap
        if kind == "over":
            return cap + r.choice([1, 1, 3])
        if kind == "big":
            return max(1, cap - r.choice([0, 1, 2]))
        return r.choice([1, 1, 2, 3])


# ---- motifs: each takes a Ctx and appends operations
def m_leave_regime(c):
    """beyond the periodic-maintenance interval: operations no longer run maintenance themselves"""
    c.D(c.rng.choice([REGIME + 1, 600_000_000, SEC]))


def m_pending_write(c):
    if c.now <= REGIME:
        m_leave_regime(c)
    c.I(c.key(), c.val())


def m_pending_update(c):
    k = c.key()
    c.I(k, c.val())
    c.S()
    if c.now <= REGIME:
        m_leave_regime(c)
    else:
        c.D(c.rng.choice([0, 1, SEC]))
    c.I(k, c.val(c.rng.choice(["normal", "big", "zero"])))


def m_pending_hit(c):
    k = c.key(True)
    if c.now <= REGIME:
        m_leave_regime(c)
    c.G(k)
    if c.rng.random() < 0.5:
        c.D(c.rng.choice([1, SEC]))


def m_grow_update(c):
    k = c.key(True)
    c.I(k, c.val("normal"))
    c.S(0.6)
    c.I(k, c.val(c.rng.choice(["big", "exact", "over"])))


def m_shrink_update(c):
    k = c.key()
    c.I(k, c.val("big"))
    c.S(0.6)
    c.I(k, c.val(c.rng.choice(["normal", "zero"])))


def m_oversized(c):
    c.I(c.key(c.rng.choice([True, False])), c.val("over"))


def m_exact_fit(c):
    c.I(c.key(False), c.val("exact"))


def m_zero_weights(c):
    for _ in range(c.rng.choice([1, 2, 3])):
        c.I(c.key(), c.val("zero"))
        c.S(0.4)


def m_reinsert(c):
    k = c.key(True)
    c.lines.append(f"X {k}")
    c.wt.pop(k, None)
    c.at.pop(k, None)
    if c.rng.random() < 0.4:
        c.D(c.rng.choice([1, SEC]))
    c.S(0.3)
    c.I(k, c.val())


def m_invalidate_all(c):
    if c.rng.random() < 0.6:
        c.D(c.rng.choice([1, 1, SEC]))
    c.lines.append("A")
    c.wt.clear()
    c.at.clear()
    c.S(0.4)
    k = c.key()
    if c.rng.random() < 0.7:
        if c.rng.random() < 0.5:
            c.D(1)
        c.I(k, c.val())
    c.G(k)


def m_predicate(c):
    if c.kind == "sync":
        return m_reinsert(c)
    p = c.rng.choice(["all", f"kmod 2 {c.rng.randrange(2)}", f"vlt {c.rng.randrange(1, 4)}"])
    c.lines.append(f"P {p}")
    # (which keys go depends on the values; forget the bookkeeping of all of them: only used for aiming the clock)
    k = c.key()
    if c.rng.random() < 0.6:
        c.I(k, c.val())


def m_to_deadline(c):
    """move the clock to (or next to) a deadline of some resident entry"""
    cands = []
    for k in c.wt:
        if c.cfg["ttl"] != "none":
            cands.append(c.wt[k] + c.cfg["ttl"])
        if c.cfg["tti"] != "none":
            cands.append(c.at[k] + c.cfg["tti"])
    cands = [t for t in cands if t > c.now]
    if not cands:
        return c.D(c.rng.choice([1, SEC]))
    t = c.rng.choice(cands) + c.rng.choice([0, 0, 0, 1, -1])
    c.D(max(t - c.now, 1))


def m_same_instant(c):
    ks = [c.key(True) for _ in range(c.rng.choice([2, 3]))]
    for k in ks:
        if c.rng.random() < 0.7:
            c.G(k)
        else:
            c.I(k, c.val())


def m_popular_newcomer(c):
    k = c.key(False)
    for _ in range(c.rng.choice([1, 2, 3, 5])):
        c.G(k)
        c.S(0.5)
    c.I(k, c.val(c.rng.choice(["normal", "big"])))


def m_touch_order(c):
    for _ in range(c.rng.choice([2, 3, 4])):
        c.G(c.key(True))
        c.S(0.5)


def m_observe(c):
    for _ in range(c.rng.choice([1, 2, 3])):
        k = c.key()
        if c.rng.random() < 0.1:
            d = c.rng.choice([1, SEC, 3 * SEC])
            c.lines.append(f"TD {d}")            # an iteration spanning a clock advance
            c.now += d
            continue
        c.lines.append(c.rng.choice([f"C {k}", f"C {k}", "T", f"G {k}"]))


def m_fill(c):
    for k in c.keys:
        if k not in c.wt or c.rng.random() < 0.3:
            c.I(k, c.val())
            c.S(0.5)


def m_invalidate_observed(c):
    k = c.key(True)
    c.lines.append(f"X {k}")
    c.wt.pop(k, None)
    c.at.pop(k, None)
    c.S(0.6)
    c.lines += [f"G {k}", f"C {k}"]


def m_kept_alive_then_invalidated(c):
    """an entry kept alive by reads beyond the idle deadline counted from its last write, then invalidated by one
    of the three means, then looked up"""
    k = c.key(True)
    if k not in c.wt:
        c.I(k, c.val())
        c.S(0.6)
    step = c.cfg["tti"] if c.cfg["tti"] != "none" else (c.cfg["ttl"] if c.cfg["ttl"] != "none" else SEC)
    for _ in range(c.rng.choice([1, 2, 3])):
        c.D(max(step - c.rng.choice([1, 1, step // 2]), 1))
        c.G(k)
        c.S(0.4)
    how = c.rng.choice(["X", "P", "A"]) if c.kind == "unsync" else c.rng.choice(["X", "X", "A"])
    if how == "X":
        c.lines.append(f"X {k}")
        c.wt.pop(k, None); c.at.pop(k, None)
    elif how == "P":
        c.lines.append(c.rng.choice([f"P kmod 2 {k % 2}", f"P kmod 3 {k % 3}", "P all"]))
        c.wt.pop(k, None); c.at.pop(k, None)
    else:
        if c.rng.random() < 0.7:
            c.D(1)
        c.lines.append("A")
        c.wt.clear(); c.at.clear()
    c.S(0.5)
    c.lines += [f"G {k}", f"C {k}", "T"]


def m_burst(c):
    """more writes than the flush point of the write queue / than one eviction batch"""
    n = c.rng.choice([66, 70, 130])
    base = 100 + c.rng.randrange(3) * 200
    for j in range(n):
        c.I(base + j, c.val(c.rng.choice(["normal", "zero"])) if c.weighted else j % 50)
    for j in range(n):          # not part of the aiming bookkeeping
        c.wt.pop(base + j, None)
        c.at.pop(base + j, None)


MOTIFS = [(m_pending_write, 8), (m_pending_update, 8), (m_pending_hit, 8), (m_grow_update, 8), (m_shrink_update, 4),
          (m_oversized, 4), (m_exact_fit, 4), (m_zero_weights, 5), (m_reinsert, 7), (m_invalidate_all, 5),
          (m_predicate, 4), (m_to_deadline, 12), (m_same_instant, 6), (m_popular_newcomer, 7), (m_touch_order, 6),
          (m_observe, 10), (m_fill, 8), (m_invalidate_observed, 5), (m_leave_regime, 4), (m_burst, 1),
          (m_kept_alive_then_invalidated, 9)]


def gen_motif_case(rng, kind, i):
    cap = rng.choice(["none", 2, 3, 4, 6, 8, 10])
    weigher = rng.choice(["none", "value", "value"]) if cap != "none" else rng.choice(["none", "value"])
    d = rng.choice([3 * SEC, 10 * SEC])
    mode = rng.choice(["none", "ttl", "tti", "both", "both"])
    cfg = {"kind": kind, "cap": cap,
           "ttl": d if mode in ("ttl", "both") else "none",
           "tti": rng.choice([d, d // 2, d // 2, 2 * d]) if mode in ("tti", "both") else "none",
           "weigher": weigher, "hasher": rng.choice(["id", "id", "mod:3", "const:7", "mul:11400714819323198485"])}
    c = Ctx(rng, kind, cfg)
    fs, ws = zip(*MOTIFS)
    m_fill(c)
    c.S(0.7)
    for _ in range(rng.choice([3, 4, 5, 7])):
        rng.choices(fs, ws)[0](c)
        r = rng.random()
        if r < 0.35:
            c.S()
        elif r < 0.5:
            m_observe(c)
    m_observe(c)
    c.S()
    c.lines.append("T")
    for k in c.keys:
        c.lines.append(f"G {k}")
    c.S()
    c.lines.append("T")
    return (f"{kind[0]}{i}_motifs", c.lines)
