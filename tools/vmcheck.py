"""Cross-check of extraction: the same histories are evaluated INSIDE Coq with vm_compute
(Contract/Digest.v) and by the extracted OCaml driver; numeric digests of every step must agree."""
import os, random, re, subprocess
import common as C
import gen
from trace import USnap, SSnap, parse_cfg, parse_pairs

MIX = lambda k, v, w: k * 1000003 + v * 7919 + w


def coq_opt(x):
    return "None" if x is None else f"(Some {x})"


def coq_cfg(cfg):
    w = {"none": "WNone", "value": "WValue", "kv": "WKeyPlusValue"}[cfg["weigher"]]
    h = cfg["hasher"].split(":")
    hk = {"id": "HId", "mod": f"(HMod {h[-1]})", "const": f"(HConst {h[-1]})", "mul": f"(HMul {h[-1]})"}[h[0]]
    ctor = "mkUCfg" if cfg["kind"] == "unsync" else "mkSCfg"
    return f"({ctor} {coq_opt(cfg['cap'])} {coq_opt(cfg['ttl'])} {coq_opt(cfg['tti'])} (weigher_of {w}) (hasher_of {hk}))"


def coq_op(kind, l):
    t = l.split()
    p = "U" if kind == "unsync" else "S"
    if t[0] == "I":
        return f"{p}Insert {t[1]} {t[2]}"
    if t[0] == "G":
        return f"{p}Get {t[1]}"
    if t[0] == "C":
        return f"{p}Contains {t[1]}"
    if t[0] == "T":
        return f"{p}Iter"
    if t[0] == "X":
        return f"{p}Invalidate {t[1]}"
    if t[0] == "A":
        return f"{p}InvalidateAll"
    if t[0] == "S":
        return "SSync"
    if t[0] == "D":
        return f"{p}Advance {t[1]}"
    if t[0] == "P":
        pk = {"all": "PAll", "kmod": f"(PKeyMod {t[2] if len(t) > 2 else 0} {t[3] if len(t) > 3 else 0})", "vlt": f"(PValLt {t[2] if len(t) > 2 else 0})"}[t[1]]
        return f"UInvalidateIf (pred_of {pk})"
    raise ValueError(l)


def sk_digest(sk):
    m = re.match(r"(\d+):(\d+):(\d+):(\d+):\[([^\]]*)\]", sk)
    size, tlen = int(m.group(1)), int(m.group(4))
    tab = 0
    for e in filter(None, m.group(5).split(",")):
        i, w = e.split(":")
        tab += int(w) * (int(i) * 1000003 + 1)
    return size, tlen, tab


def out_digest(op, out):
    o = op.split()[0]
    if o in ("G",):
        return [1] if out == "-" else [2, int(out)]
    if o == "C":
        return [3, int(out)]
    if o == "T":
        ps = parse_pairs(out)
        return [4, len(ps), sum(MIX(k, v, 0) for k, v in ps)]
    return [0]


def line_digest(kind, line):
    op, out, st = C.split_line(line)
    if out.startswith("ERR"):
        return [666666666]
    d = out_digest(op, out) + [777777777]
    if kind == "unsync":
        s = USnap(st)
        size, tlen, tab = sk_digest(s.sk)
        d += [s.ec, s.ws, len(s.map), sum(MIX(k, e["v"], e["w"]) for k, e in s.map.items()), int(s.skon), size, tlen, tab]
        d += [k for k, _, _ in s.prob] + [888888888] + [k for k, _ in s.wo]
    else:
        s = SSnap(st)
        size, tlen, tab = sk_digest(s.sk)
        d += [s.ec, s.ws, len(s.map), sum(MIX(k, e["v"], e["w"]) for k, e in s.map.items()),
              sum(MIX(k, e["la"], e["lm"]) for k, e in s.map.items()), 0 if s.va is None else s.va + 1,
              s.rq, s.wq, s.sa, int(s.skon), size, tlen, tab]
        d += [k for k, _, _ in s.prob] + [888888888] + [k for k, _ in s.wo]
    return d


def run(seed, n=40):
    """Returns (number of cases compared, list of mismatch descriptions)."""
    rng = random.Random(seed * 65537 + 3)
    cases = []
    for i in range(n):
        kind = rng.choice(["unsync", "sync"])
        name, lines = gen.gen_cache_case(rng, kind, i, nops=rng.choice([6, 12, 25]))
        lines = [l for l in lines if l != "DROP"]
        # (the iteration-across-an-advance op is two model steps: the extraction cross-check runs it as such)
        lines = [x for l in lines for x in ([f"D {l.split()[1]}", "T"] if l.startswith("TD ") else [l])]
        cases.append((name, lines))
    os.makedirs(C.WORK, exist_ok=True)
    vfile = os.path.join(C.WORK, f"vmcases_{os.getpid()}.v")
    with open(vfile, "w") as f:
        f.write("From MM Require Import Contract.Digest.\nOpen Scope N_scope.\n")
        for name, lines in cases:
            cfg = parse_cfg(lines[0])
            ops = "; ".join(coq_op(cfg["kind"], l) for l in lines[1:])
            fn = "urun_digest" if cfg["kind"] == "unsync" else "srun_digest"
            init = "urun_init" if cfg["kind"] == "unsync" else "srun_init"
            f.write(f'Goal True. idtac "@@CASE {name}". Abort.\nEval vm_compute in {fn} {coq_cfg(cfg)} {init} [{ops}].\n')
    rc, out = C.run(["timeout", "600", "coqc", "-Q", os.path.join(C.COQ, "theories"), "MM", vfile], cwd=C.WORK)
    for ext in (".v", ".vo", ".vok", ".vos", ".glob"):
        try:
            os.remove(vfile[:-2] + ext)
        except OSError:
            pass
    if rc != 0:
        raise C.Broken("vm_compute-cross-check", out[-1500:])
    coq = {}
    cur = None
    for chunk in re.split(r"@@CASE ", out)[1:]:
        name, _, rest = chunk.partition("\n")
        body = rest.split("\n     :")[0]
        coq[name.strip()] = [int(x) for x in re.findall(r"\d+", body)]
    model = C.run_model(cases, shards=4)
    bad = []
    for name, lines in cases:
        kind = parse_cfg(lines[0])["kind"]
        exp = []
        for l in model.get(name, []):
            exp += line_digest(kind, l)
        if coq.get(name) != exp:
            got = coq.get(name, [])
            j = next((i for i in range(min(len(got), len(exp))) if got[i] != exp[i]), min(len(got), len(exp)))
            bad.append(f"{name}: digests differ at position {j} (vm_compute {got[max(0, j - 3):j + 3]} vs extracted {exp[max(0, j - 3):j + 3]})")
    return len(cases), bad
