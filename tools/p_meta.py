"""C15: contains_key and iteration are pure observations.  Metamorphic pairs (h, h') where
h' is h with extra contains_key / iter calls inserted anywhere: the results of all other
operations must be identical; on the concurrent cache the inserted calls must leave the
whole internal state untouched.  A difference on the single-threaded cache that is due
to an inserted contains_key starting with an update-created excess pending is the
recorded known finding (class PendingExcessAtObservation); anything else is a violation."""
import json, os, random, re
import common as C
import gen
import motifs
from trace import parse_cfg, USnap

KF_CLASS = "PendingExcessAtObservation"


def insert_obs(rng, lines, nkeys=12):
    """Returns (h', index map: position in h' of every op of h, set of inserted positions)."""
    out, pos, inserted = [lines[0]], [], set()
    for l in lines[1:]:
        while rng.random() < 0.35:
            inserted.add(len(out) - 1)
            out.append(rng.choice([f"C {rng.randrange(1, nkeys + 1)}", f"C {rng.randrange(1, nkeys + 1)}", "T"]))
        pos.append(len(out) - 1)
        out.append(l)
    return out, pos, inserted


def clock_at(trace, q):
    """Clock reading observed by op q (sum of the advances before it)."""
    now = 0
    for l in trace[:q]:
        op, out, _ = C.split_line(l)
        t = op.split()
        if t and t[0] in ("D", "TD") and not out.startswith("ERR"):
            now += int(t[1])
    return now


def pending_maintenance(cfg, sp, now):
    """The keys left by the maintenance EVERY operation of the single-threaded cache starts with (and that
    contains_key therefore performs too): purge what is expired at `now`, then evict from the LRU end until
    the weighted size is within max_capacity.  (Key universes are smaller than one batch.)  The recorded
    finding is exactly this maintenance becoming visible; a contains_key call that removes anything else is
    a different violation."""
    from oracles import expired_u
    expired = {k for k, e in sp.map.items() if expired_u(cfg, e, now)}
    ws = sp.ws - sum(sp.map[k]["w"] for k in expired)
    keep = set(sp.map) - expired
    for k, _, _ in sp.prob:
        if ws <= cfg["cap"]:
            break
        if k in keep:
            keep.discard(k)
            ws -= sp.map[k]["w"]
    return keep


def strip_state(line):
    op, out, _ = C.split_line(line)
    return op, C.norm_err(out)


def compare_pair(cfg, h, h2, pos, inserted, ta, tb):
    """None or (description, is_known_finding)."""
    for i, p in enumerate(pos):
        if i >= len(ta) or p >= len(tb):
            if (i >= len(ta)) != (p >= len(tb)):
                return (f"one of the runs stops early (op {i})", False)
            break
        a, b = strip_state(ta[i]), strip_state(tb[p])
        if a != b:
            # classification: did an inserted contains_key before this point start with pending excess and evict?
            known = False
            if cfg["kind"] == "unsync" and cfg["cap"] is not None:
                for q in sorted(inserted):
                    if q >= p or q >= len(tb) or q == 0:
                        continue
                    opq, _, stq = C.split_line(tb[q])
                    if not opq.startswith("C "):
                        continue
                    _, _, prev = C.split_line(tb[q - 1])
                    if prev.startswith("dropped") or stq.startswith("dropped"):
                        continue
                    sp, sq = USnap(prev), USnap(stq)
                    if sp.ws > cfg["cap"] and len(sq.map) < len(sp.map) and \
                            set(sq.map) == pending_maintenance(cfg, sp, clock_at(tb, q)):
                        known = True
                        break
            return (f"op {i} `{a[0]}` answers `{a[1]}` in h but `{b[1]}` in h' (h with contains_key/iter calls inserted)", known)
    return None


def purity_literal(cfg, tb, inserted):
    """concurrent cache: an inserted call leaves the internal state untouched; single-threaded: iter does."""
    for q in sorted(inserted):
        if q == 0 or q >= len(tb):
            continue
        op, out, st = C.split_line(tb[q])
        _, _, prev = C.split_line(tb[q - 1])
        if cfg["kind"] == "sync" or op == "T":
            if st != prev:
                return f"op {q} `{op}` changed the internal state: `{prev[:150]}` -> `{st[:150]}`"
    return None


def known_witness():
    h = ["cfg kind=unsync cap=2 ttl=none tti=none weigher=value hasher=id", "I 1 1", "I 2 1", "I 2 2", "T"]
    h2 = h[:4] + ["C 99", "T"]
    return h, h2, [0, 1, 2, 4], {3}


def run(pid, tier, seed, model_ok, replay):
    rng = random.Random(seed * 104729 + 15)
    n = 200 if tier == "quick" else 2500
    pairs = []
    if replay:
        with open(replay) as f:
            lines = [l.strip() for l in f if l.strip() and not l.startswith("#") and not l.startswith("case ")]
        # a replay file holds h' ; h is h' without the calls marked by a trailing "#ins" comment is not kept: re-derive
        h = [l for l in lines if not (l.split()[0] in ("C", "T"))]
        pos = [i - 1 for i, l in enumerate(lines) if i > 0 and l.split()[0] not in ("C", "T")]
        ins = {i - 1 for i, l in enumerate(lines) if i > 0 and l.split()[0] in ("C", "T")}
        pairs.append(("replay", h, lines, pos, ins))
    else:
        for kind in ("unsync", "sync"):
            for i in range(n):
                name, h = gen.gen_cache_case(rng, kind, i, profile=rng.choice(["tight", "admission", "expiry", "basic"]))
                h = [l for l in h if l != "DROP"]
                h2, pos, ins = insert_obs(rng, h)
                pairs.append((name, h, h2, pos, ins))
            for i in range(n // 2):
                name, h = motifs.gen_motif_case(rng, kind, 6000 + i)
                h2, pos, ins = insert_obs(rng, h)
                pairs.append((name, h, h2, pos, ins))
            for i in range(n // 4):
                # an update-created excess pending while the clock reaches a deadline: purge/evict order matters
                name, h = gen.gen_excess_case(rng, kind, 7000 + i)
                h2, pos, ins = insert_obs(rng, h)
                pairs.append((name, h, h2, pos, ins))
    cases = [(n_ + "_h", h) for n_, h, _, _, _ in pairs] + [(n_ + "_h2", h2) for n_, _, h2, _, _ in pairs]
    impl = C.run_impl(cases)
    model = C.run_model(cases) if model_ok else {}
    violations, disagreements, known = [], [], []
    dist = {"pairs": len(pairs), "inserted_calls": 0, "pairs_with_pending_excess_class": 0, "kinds": {"unsync": 0, "sync": 0}}
    for name, h, h2, pos, ins in pairs:
        cfg = parse_cfg(h[0])
        dist["kinds"][cfg["kind"]] += 1
        dist["inserted_calls"] += len(ins)
        ta, tb = impl.get(name + "_h", []), impl.get(name + "_h2", [])
        r = compare_pair(cfg, h, h2, pos, ins, ta, tb)
        if r:
            if r[1]:
                dist["pairs_with_pending_excess_class"] += 1
            else:
                violations.append((name + "_h2", h2, r[0]))
        v = purity_literal(cfg, tb, ins)
        if v:
            violations.append((name + "_h2", h2, v))
        if model_ok:
            for nm, ls, tr in ((name + "_h", h, ta), (name + "_h2", h2, tb)):
                d = C.first_disagreement(tr, model.get(nm, []))
                if d and len(disagreements) < 20:
                    disagreements.append((nm, ls, f"line {d[0]}: impl `{d[1][:300]}` model `{d[2][:300]}`"))
    # the recorded known finding: reproduce its witness
    kf = [k for k in C.load_known_findings().get("open", []) if k.get("property") == pid]
    if kf and not replay:
        h, h2, pos, ins = known_witness()
        t = C.run_impl([("kf_h", h), ("kf_h2", h2)], shards=1)
        r = compare_pair(parse_cfg(h[0]), h, h2, pos, ins, t.get("kf_h", []), t.get("kf_h2", []))
        if r and r[1]:
            known.append(f"{KF_CLASS}: unsync contains_key performs the size eviction an earlier weight-growing update left pending "
                         f"(witness corpus/c15/du5_contains_evicts.hist: {r[0]})")
    return {
        "evaluations": len(cases),
        "distinct_nontrivial": len({"\n".join(h2) for _, _, h2, _, ins in pairs if len(ins) >= 2}),
        "rule": "metamorphic pairs (h, h'): h a random history (tight capacities, tti, admission-heavy and expiry profiles, key universes "
                "<= 24 keys, i.e. smaller than a maintenance batch), h' = h with contains_key/iter calls inserted with probability 0.35 "
                "before every operation; all outputs of the operations of h must coincide; inserted calls must not change the internal "
                "state (concurrent cache: any call; single-threaded: iter); non-trivial = at least two inserted calls; distinct h'",
        "samples": [{"case": n_, "h_prime": h2[:14]} for n_, _, h2, _, _ in pairs[:2]],
        "violations": violations,
        "disagreements": disagreements,
        "known": known,
        "distribution": dist,
        "traces_validated": len(cases) if model_ok else 0,
    }
