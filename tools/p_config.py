"""C17: configuration honoured.  Builder/policy sweep against the builder model, plus
differential histories (initial_capacity present/absent; no weigher => weight 1)."""
import random, re
import common as C
import gen
from trace import parse_cfg, USnap, SSnap

YEAR = 365 * 24 * 3600
MAX_NS = 1000 * YEAR * 10 ** 9
DURS = ["none", 0, 1, 10 ** 9, MAX_NS - 1, MAX_NS, MAX_NS + 1, MAX_NS + 10 ** 9, 2 * MAX_NS]
CAPS = ["none", 0, 1, 1000, 2 ** 32, 2 ** 64 - 1]
ICS = ["none", 0, 1, 100, 5000]


def sweep_cases(rng, tier):
    lines = []
    for cache in ("unsync", "sync"):
        for cap in CAPS:
            for ttl in DURS:
                for tti in DURS:
                    if tier == "quick" and rng.random() < 0.5 and ttl not in (MAX_NS, MAX_NS + 1) and tti not in (MAX_NS, MAX_NS + 1):
                        continue
                    w = rng.choice(["none", "value"])
                    ic = rng.choice(ICS)
                    lines.append(f"B {cache} cap={cap} ttl={ttl} tti={tti} weigher={w} ic={ic}")
        for n in (0, 1, 2, 3, 7, 100, 2 ** 40):
            lines.append(f"N {cache} {n}")
            if n <= 100:
                lines.append(f"E {cache} {n}")
    cases = []
    for i in range(0, len(lines), 120):
        cases.append((f"cfgsweep{i // 120}", ["cfg kind=config"] + lines[i:i + 120]))
    return cases


def sweep_oracle(lines, trace):
    for i, line in enumerate(trace):
        op, out, _ = C.split_line(line)
        t = op.split()
        if t[0] == "B":
            kv = dict(x.split("=") for x in t[2:])
            too_long = any(kv.get(k, "none") != "none" and int(kv[k]) > MAX_NS for k in ("ttl", "tti"))
            f = lambda x: "-" if x == "none" else x
            exp = "ERR Panic" if too_long else f"{f(kv.get('cap', 'none'))}:{f(kv.get('ttl', 'none'))}:{f(kv.get('tti', 'none'))}"
            got = " ".join(out.split()[:2]) if out.startswith("ERR") else out
            if got != exp:
                return f"op {i} `{op}`: got `{out}` expected `{exp}`"
        elif t[0] == "N":
            if out != f"{t[2]}:-:-":
                return f"op {i} `{op}`: policy of new({t[2]}) is `{out}`"
        elif t[0] == "E":
            if out != "same":
                return f"op {i} `{op}`: new(n) and builder().max_capacity(n).build() behave differently"
    if len(trace) < len(lines) - 1:
        return f"trace ends after {len(trace)} of {len(lines) - 1} operations"
    return None


def run(pid, tier, seed, model_ok, replay):
    rng = random.Random(seed * 7919 + 17)
    violations, disagreements = [], []
    if replay:
        with open(replay) as f:
            lines = [l.strip() for l in f if l.strip() and not l.startswith("#") and not l.startswith("case ")]
        cases = [("replay", lines)]
    else:
        cases = sweep_cases(rng, tier)
    n_hist = 0 if replay else (150 if tier == "quick" else 1500)
    # differential histories: initial_capacity present / absent
    pairs = []
    for i in range(n_hist):
        name, lines = gen.gen_cache_case(rng, rng.choice(["unsync", "sync"]), i)
        ic = rng.choice([0, 1, 64, 1000, 100000])
        pairs.append((name, lines, [lines[0] + f" ic={ic}"] + lines[1:]))
    allcases = cases + [(n, a) for n, a, b in pairs] + [(n + "_ic", b) for n, a, b in pairs]
    impl = C.run_impl(allcases)
    model = C.run_model(allcases) if model_ok else {}
    dist = {"builder_calls": 0, "panics": 0, "new_calls": 0, "equivalence_runs": 0, "ic_pairs": len(pairs), "unit_weight_snapshots": 0}
    for name, lines in cases:
        tr = impl.get(name, [])
        if lines[0].startswith("cfg kind=config"):
            v = sweep_oracle(lines, tr)
            if v:
                violations.append((name, lines, v))
            for l in tr:
                op, out, _ = C.split_line(l)
                dist["builder_calls"] += op.startswith("B")
                dist["new_calls"] += op.startswith("N")
                dist["equivalence_runs"] += op.startswith("E")
                dist["panics"] += out.startswith("ERR")
        if model_ok:
            d = C.first_disagreement(tr, model.get(name, []))
            if d:
                disagreements.append((name, lines, f"line {d[0]}: impl `{d[1][:300]}` model `{d[2][:300]}`"))
    for name, a, b in pairs:
        ta, tb = impl.get(name, []), impl.get(name + "_ic", [])
        if ta != tb:
            j = next((i for i in range(min(len(ta), len(tb))) if ta[i] != tb[i]), min(len(ta), len(tb)))
            violations.append((name + "_ic", b, f"initial_capacity changes the behaviour at op {j}: `{(ta[j] if j < len(ta) else '<end>')[:200]}` vs `{(tb[j] if j < len(tb) else '<end>')[:200]}`"))
        cfg = parse_cfg(a[0])
        if cfg["weigher"] == "none":
            for l in ta:
                _, out, st = C.split_line(l)
                if st.startswith("dropped") or out.startswith("ERR"):
                    continue
                s = USnap(st) if cfg["kind"] == "unsync" else SSnap(st)
                dist["unit_weight_snapshots"] += 1
                bad = [k for k, e in s.map.items() if e["w"] != 1]
                if bad:
                    violations.append((name, a, f"no weigher configured but entries {bad} do not weigh 1"))
                    break
        else:
            # a configured weigher is the one that weighs: wherever nothing is queued, every resident entry's
            # weight is the weigher's value for its key and current value (both build paths, custom hasher)
            from trace import weigh
            for l in ta:
                op, out, st = C.split_line(l)
                if st.startswith("dropped") or out.startswith("ERR"):
                    continue
                s = USnap(st) if cfg["kind"] == "unsync" else SSnap(st)
                if cfg["kind"] == "sync" and not (op.startswith("S") and s.rq == 0 and s.wq == 0):
                    continue
                dist["weigher_snapshots"] = dist.get("weigher_snapshots", 0) + 1
                bad = [(k, e["v"], e["w"]) for k, e in s.map.items() if e["w"] != weigh(cfg, k, e["v"])]
                if bad:
                    violations.append((name, a, f"weigher `{cfg['weigher']}` configured but (key, value, weight) {bad[:3]} disagree with it"))
                    break
        if model_ok:
            d = C.first_disagreement(ta, model.get(name, []))
            if d:
                disagreements.append((name, a, f"line {d[0]}: impl `{d[1][:300]}` model `{d[2][:300]}`"))
    return {
        "evaluations": len(allcases),
        "distinct_nontrivial": len({"\n".join(l) for _, l in allcases if len(l) > 5}),
        "rule": "builder sweep: both cache kinds x capacities {absent,0,1,1000,2^32,u64::MAX} x ttl,tti in {absent,0,1ns,1s,1000y-1ns,1000y,"
                "1000y+1ns,1000y+1s,2000y} x weigher x initial_capacity, new(n) and new(n)-vs-builder equivalence runs; plus random "
                "cache histories run with and without initial_capacity (traces must be identical) and unit-weight check without "
                "weigher; non-trivial = more than 4 operations; distinct op sequences",
        "samples": [{"case": n_, "ops": l_[:8]} for n_, l_ in allcases[:2]],
        "violations": violations,
        "disagreements": disagreements,
        "known": [],
        "distribution": dist,
        "traces_validated": len(allcases) if model_ok else 0,
    }
