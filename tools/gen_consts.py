#!/usr/bin/env python3
"""Constant translator: regenerates coq/theories/Gen/Consts.v from the Rust sources
of /repo on every run, so that the theorems are re-checked against the numbers the
code has *now*.  Only writes the file when its content changes (keeps `make`
incremental).  Exits 2 (tie broken) when a constant cannot be found/evaluated."""
import ast, os, re, sys

REPO = os.environ.get("VERIF_REPO", "/repo")
OUT = os.path.join(os.path.dirname(os.path.abspath(__file__)), "..", "coq", "theories", "Gen", "Consts.v")


class TieBroken(Exception):
    pass


def read(rel):
    try:
        with open(os.path.join(REPO, rel)) as f:
            return f.read()
    except OSError as e:
        raise TieBroken(f"cannot read {rel}: {e}")


def rust_eval(expr, env):
    """Evaluate a Rust integer constant expression made of literals, names in env,
    + - * / ( ), `as T` casts, N.pow(M), uNN::MAX."""
    e = expr.strip()
    e = re.sub(r"\bas\s+[ui](8|16|32|64|128|size)\b", "", e)
    e = re.sub(r"\b([ui])(8|16|32|64|size)::MAX\b",
               lambda m: str((1 << (64 if m.group(2) == "size" else int(m.group(2))) - (1 if m.group(1) == "i" else 0)) - 1), e)
    e = re.sub(r"(\d[\d_]*)\s*(?:_?[ui](?:8|16|32|64|128|size))?\s*\.pow\(\s*(\d+)\s*\)", r"(\1**\2)", e)
    e = re.sub(r"\b(0x[0-9a-fA-F_]+|\d[\d_]*)(?:_?[ui](?:8|16|32|64|128|size))\b", r"\1", e)
    e = e.replace("_", "") if re.fullmatch(r"[0-9a-fA-Fx_]+", e) else re.sub(r"(?<=[0-9a-fA-F])_(?=[0-9a-fA-F])", "", e)
    tree = ast.parse(e, mode="eval")

    def ev(n):
        if isinstance(n, ast.Expression):
            return ev(n.body)
        if isinstance(n, ast.Constant) and isinstance(n.value, int):
            return n.value
        if isinstance(n, ast.Name):
            if n.id in env:
                return env[n.id]
            raise TieBroken(f"unknown name {n.id} in constant expression {expr!r}")
        if isinstance(n, ast.BinOp):
            a, b = ev(n.left), ev(n.right)
            if isinstance(n.op, ast.Add):
                return a + b
            if isinstance(n.op, ast.Sub):
                return a - b
            if isinstance(n.op, ast.Mult):
                return a * b
            if isinstance(n.op, (ast.Div, ast.FloorDiv)):
                return a // b
            if isinstance(n.op, ast.Pow):
                return a ** b
        raise TieBroken(f"unsupported constant expression {expr!r}")

    return ev(tree)


def find_const(src, name, env, rel):
    m = re.search(r"\b(?:const|static)\s+" + name + r"\s*:\s*[^=;]+=\s*([^;]+);", src)
    if not m:
        raise TieBroken(f"constant {name} not found in {rel}")
    return rust_eval(m.group(1), env)


def main():
    consts = []  # (coq_name, value, origin)
    try:
        # ---- sync constants ------------------------------------------------
        rel = "src/common/concurrent/constants.rs"
        src = read(rel)
        env = {}
        for name in ["MAX_SYNC_REPEATS", "PERIODICAL_SYNC_INTERVAL_MILLIS", "READ_LOG_FLUSH_POINT",
                     "READ_LOG_SIZE", "WRITE_LOG_FLUSH_POINT", "WRITE_LOG_SIZE", "WRITE_RETRY_INTERVAL_MICROS"]:
            env[name] = find_const(src, name, env, rel)
            consts.append((name, env[name], rel))
        rel = "src/sync/base_cache.rs"
        src = read(rel)
        consts.append(("S_EVICTION_BATCH_SIZE", find_const(src, "EVICTION_BATCH_SIZE", {}, rel), rel))
        consts.append(("MAX_CONSECUTIVE_RETRIES", find_const(src, "MAX_CONSECUTIVE_RETRIES", {}, rel), rel))
        # ---- unsync ----------------------------------------------------------
        rel = "src/unsync/cache.rs"
        src = read(rel)
        consts.append(("U_EVICTION_BATCH_SIZE", find_const(src, "EVICTION_BATCH_SIZE", {}, rel), rel))
        # ---- sketch ----------------------------------------------------------
        rel = "src/common/frequency_sketch.rs"
        src = read(rel)
        m = re.search(r"static\s+SEED\s*:\s*\[u64;\s*4\]\s*=\s*\[([^\]]+)\]", src)
        if not m:
            raise TieBroken("SEED array not found in " + rel)
        seeds = [rust_eval(x, {}) for x in m.group(1).split(",") if x.strip()]
        if len(seeds) != 4:
            raise TieBroken("SEED array does not have 4 elements")
        for i, s in enumerate(seeds):
            consts.append((f"SEED{i}", s, rel))
        consts.append(("RESET_MASK", find_const(src, "RESET_MASK", {}, rel), rel))
        consts.append(("ONE_MASK", find_const(src, "ONE_MASK", {}, rel), rel))
        # the 64-bit clamp of ensure_capacity: last `cap.min(2u32.pow(N))`
        ms = re.findall(r"cap\.min\(([^;\n]*?)\)\s*(?://.*)?\n", src)
        if not ms:
            raise TieBroken("sketch capacity clamp not found in " + rel)
        consts.append(("SKETCH_MAX_CAP", rust_eval(ms[-1], {}), rel))
        m = re.search(r"saturating_mul\((\d+)\)", src)
        if not m:
            raise TieBroken("sketch sample multiplier not found in " + rel)
        consts.append(("SKETCH_SAMPLE_MUL", int(m.group(1)), rel))
        # ---- common ----------------------------------------------------------
        rel = "src/common.rs"
        src = read(rel)
        m = re.search(r"fn sketch_capacity[^{]*\{[^}]*?\.max\((\d+)\)", src, re.S)
        if not m:
            raise TieBroken("sketch_capacity minimum not found in " + rel)
        consts.append(("SKETCH_MIN_CAP", int(m.group(1)), rel))
        rel = "src/common/builder_utils.rs"
        src = read(rel)
        env = {"YEAR_SECONDS": find_const(src, "YEAR_SECONDS", {}, rel)}
        m = re.search(r"let\s+max_duration\s*=\s*Duration::from_secs\(([^)]+)\)", src)
        if not m:
            raise TieBroken("max_duration not found in " + rel)
        consts.append(("MAX_EXPIRY_SECS", rust_eval(m.group(1), env), rel))
    except TieBroken as e:
        print(f"TIE-BROKEN gen_consts: {e}")
        return 2

    lines = ["(** GENERATED by tools/gen_consts.py from the Rust sources of /repo on every run.",
             "    Do not edit: the theorems must be re-checked against the numbers the code has now. *)",
             "From Coq Require Import NArith.", "Open Scope N_scope.", ""]
    for name, val, origin in consts:
        lines.append(f"Definition {name} : N := {val}.  (* {origin} *)")
    text = "\n".join(lines) + "\n"
    out = os.path.normpath(OUT)
    old = None
    if os.path.exists(out):
        with open(out) as f:
            old = f.read()
    if old != text:
        os.makedirs(os.path.dirname(out), exist_ok=True)
        with open(out, "w") as f:
            f.write(text)
        print("gen_consts: Consts.v updated")
    return 0


if __name__ == "__main__":
    sys.exit(main())
