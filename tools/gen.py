"""History generators for the cache models (see DESIGN.md, "Generators").  Every random
choice derives from the one `random.Random` passed in."""

SEC = 1_000_000_000


def gen_cfg(rng, kind, profile):
    cap = rng.choice(["none", 0, 1, 2, 2, 3, 3, 5, 8]) if profile != "nocap" else "none"
    if profile in ("tight", "admission"):
        cap = rng.choice([1, 2, 3, 4, 5, 8, 16])
    if profile == "burst":
        cap = rng.choice(["none", 3, 50, 1000])
    if profile == "bigsketch":
        cap = rng.choice([300, 600, 1000])
    weigher = rng.choice(["none", "none", "value", "kv"]) if cap != "none" else rng.choice(["none", "value"])
    if profile == "unit":
        weigher = "none"
    ttl = rng.choice(["none", "none", 0, 1, 3 * SEC, 10 * SEC])
    tti = rng.choice(["none", "none", 0, 1, 3 * SEC, 10 * SEC])
    if profile in ("expiry", "mass-expiry"):
        ttl = rng.choice(["none", 3 * SEC, 10 * SEC])
        tti = rng.choice(["none", 3 * SEC, 10 * SEC])
        if ttl == "none" and tti == "none":
            ttl = 5 * SEC
    if profile in ("noexpiry", "admission", "bigsketch"):
        ttl = tti = "none"
    if profile in ("basic", "nocap") and rng.random() < 0.04:
        ttl = 31536000000 * SEC                 # the 1000-year maximum
    if profile == "basic" and rng.random() < 0.03:
        cap = rng.choice([2 ** 32, 2 ** 63, 2 ** 64 - 1])
    hasher = rng.choice(["id", "id", "mod:2", "const:7", "mul:11400714819323198485", "mod:3"])
    return {"kind": kind, "cap": cap, "ttl": ttl, "tti": tti, "weigher": weigher, "hasher": hasher}


def cfg_line(cfg):
    return "cfg " + " ".join(f"{k}={v}" for k, v in cfg.items())


def gen_value(rng, cfg):
    cap = cfg["cap"]
    if cfg["weigher"] == "none":
        return rng.randrange(0, 100)
    if cap == "none":
        return rng.randrange(0, 6)
    r = rng.random()
    if r < 0.01 and (cap >= 2 ** 31 or r < 0.0005):
        # u32::MAX - almost only with capacities of that magnitude: the concurrent cache sizes its sketch by
        # entry_count * weighted_size / max_capacity, so one such weight in a small cache allocates a 2^30-word table
        return 4294967295
    if r < 0.08 and cap < 2 ** 31:
        return cap + rng.randrange(1, 3)        # heavier than the whole cache
    if r < 0.18:
        return 0                                # weightless
    return rng.randrange(0, max(2, min(cap + 1, 5)))


def gen_advance(rng, cfg, sync_regime=False):
    choices = [1, 1, 1000, SEC, SEC]
    for d in (cfg["ttl"], cfg["tti"]):
        if d != "none":
            choices += [d, d, max(d - 1, 0), d + 1, d // 2 + 1]
    if sync_regime:
        choices += [500_000_000, 500_000_001, 499_999_999, 600_000_000, 600_000_000]
    return rng.choice(choices)


def gen_cache_case(rng, kind, i, profile=None, nops=None):
    profile = profile or rng.choice(["basic", "basic", "tight", "expiry", "unit", "noexpiry", "nocap", "admission"])
    cfg = gen_cfg(rng, kind, profile)
    nkeys = rng.choice([2, 3, 4, 6, 6, 12])
    if profile == "admission":
        nkeys = rng.choice([6, 12, 24])
    n = nops or rng.choice([8, 15, 30, 60, 120])
    has_exp = cfg["ttl"] != "none" or cfg["tti"] != "none"
    sync_p = rng.choice([1.0, 0.5, 0.1, 0.0]) if kind == "sync" else 0.0
    w = {"I": 35, "G": 25, "C": 8, "T": 5, "X": 7, "A": 2, "P": 3, "D": 15 if has_exp else 4}
    if profile == "admission":
        w.update({"G": 45, "X": 2, "A": 0.5, "P": 1})
    if kind == "sync":
        w["P"] = 0          # the concurrent cache has no invalidate_entries_if
        w["S"] = 12
        w["D"] = max(w["D"], 10)
    ops, weights = zip(*w.items())
    lines = [cfg_line(cfg)]
    hot = [rng.randrange(1, nkeys + 1) for _ in range(2)]
    for _ in range(n):
        o = rng.choices(ops, weights)[0]
        k = rng.choice(hot) if rng.random() < 0.3 else rng.randrange(1, nkeys + 1)
        if o == "I":
            lines.append(f"I {k} {gen_value(rng, cfg)}")
        elif o in ("G", "C", "X"):
            lines.append(f"{o} {k}")
        elif o == "T" and rng.random() < 0.2:
            lines.append(f"TD {gen_advance(rng, cfg, kind == 'sync')}")      # an iteration spanning a clock advance
        elif o in ("T", "A", "S"):
            lines.append(o)
        elif o == "P":
            p = rng.choice(["all", f"kmod 2 {rng.randrange(2)}", f"kmod 3 {rng.randrange(3)}", f"vlt {rng.randrange(0, 5)}"])
            lines.append(f"P {p}")
        elif o == "D":
            lines.append(f"D {gen_advance(rng, cfg, kind == 'sync')}")
        if kind == "sync" and o in ("I", "X", "G", "A") and rng.random() < sync_p:
            lines.append("S")
    lines.append("T")
    if kind == "sync":
        lines += ["S", "T"]
    if rng.random() < 0.3:
        lines.append("DROP")
    return (f"{kind[0]}{i}_{profile}", lines)


def gen_mass_expiry(rng, kind, i, batch):
    """More entries than one purge batch expire at once (around `batch`); then entries beyond
    the part one maintenance run can purge (expired but still physically held) are touched."""
    cfg = gen_cfg(rng, kind, "mass-expiry")
    cfg["cap"] = rng.choice(["none", 10 * batch])
    cfg["weigher"] = "none"
    both = cfg["ttl"] != "none" and cfg["tti"] != "none"
    per_run = batch * (2 if both and kind == "unsync" else 1)     # entries one maintenance run can purge
    n = per_run + rng.choice([-1, 0, 1, 7, 30, batch])
    lines = [cfg_line(cfg)]
    for k in range(n):
        lines.append(f"I {k} {k % 7}")
        if rng.random() < 0.02:
            lines.append("D 1000")
    if kind == "sync":
        lines.append("S")
    ds = [x for x in (cfg["ttl"], cfg["tti"]) if x != "none"]
    d = rng.choice([max(ds), min(ds)])           # min: only the policy with the earlier deadline has fired
    lines.append(f"D {rng.choice([d, d + 1])}")
    if rng.random() < 0.3:
        for _ in range(2):
            lines.append(rng.choice([f"G {rng.randrange(n)}", f"C {rng.randrange(n)}", "T", f"I {n + 5} 1", f"X {rng.randrange(n)}"] + (["S"] if kind == "sync" else [])))
    # touch entries in the tail of the LRU / write order: expired, possibly not yet purged
    for _ in range(3):
        k = rng.randrange(max(0, min(per_run, n - 1)), n) if n > per_run else rng.randrange(n)
        first = [f"G {k}", f"C {k}"]
        rng.shuffle(first)                       # either kind of lookup may be the first to meet the unpurged tail
        if rng.random() < 0.2:
            first.insert(0, "T")
        lines += first + [rng.choice(["T", f"G {k}", "D 1"]), f"C {k}"]
    lines.append("T")
    return (f"{kind[0]}{i}_massexp{n}", lines)


def gen_excess_case(rng, kind, i):
    """A weight-growing in-place update leaves the cache over capacity; the clock then moves to (or next to)
    a deadline of an entry that is NOT at the LRU end, and lookups / observations of every kind follow: the
    order 'purge expired first, then evict from the LRU end' decides who survives."""
    cfg = gen_cfg(rng, kind, "expiry")
    cap = rng.choice([6, 8, 10, 12])
    cfg["cap"] = cap
    cfg["weigher"] = "value"
    d = rng.choice([3 * SEC, 10 * SEC])
    mode = rng.choice(["ttl", "ttl", "both", "tti", "none"])
    cfg["ttl"] = d if mode in ("ttl", "both") else "none"
    cfg["tti"] = rng.choice([d, 2 * d]) if mode in ("tti", "both") else "none"
    cfg["hasher"] = rng.choice(["id", "id", "mod:3"])
    lines = [cfg_line(cfg)]
    S = ["S"] if kind == "sync" else []
    keys = [1, 2, 3, 4]
    w = {}
    lines.append(f"I 1 {rng.choice([1, 2, 3])}")      # the oldest write
    w[1] = int(lines[-1].split()[2])
    if rng.random() < 0.7:
        lines += S
    a = rng.choice([d // 2, d // 3, d - 1, 1])
    lines.append(f"D {a}")
    for k in keys[1:rng.choice([3, 4])]:
        w[k] = rng.choice([1, 2, 3])
        lines.append(f"I {k} {w[k]}")
    if rng.random() < 0.7:
        lines += S
    for _ in range(rng.choice([1, 2, 3])):            # reorder: the oldest write becomes recently used
        lines.append(f"G {rng.choice([1, 1] + list(w))}")
    if rng.random() < 0.7:
        lines += S
    # the growing update: total weight goes beyond the capacity
    k = rng.choice([x for x in w if x != 1] or [1])
    tot = sum(w.values())
    grow = max(1, cap - tot + w[k] + rng.choice([1, 1, 2, 3]))
    if grow > cap:
        grow = cap
    w[k] = grow
    adv = f"D {rng.choice([d - a, d - a, d - a + 1, max(d - a - 1, 1), 1])}"
    early = rng.random() < 0.4
    if early:
        lines.append(adv)           # the growing update itself happens at (next to) the deadline of key 1
    lines.append(f"I {k} {grow}")
    if kind == "sync" and rng.random() < 0.3:
        lines.append("S")
    # to the write-based deadline of key 1 (exactly, one before, one after), or nowhere
    if not early:
        lines.append(adv)
    univ = list(w) + [9]
    for _ in range(rng.choice([3, 5, 8])):
        x = rng.choice(univ)
        lines.append(rng.choice([f"C {x}", f"C {x}", f"G {x}", "T", f"X {x}", f"I {x} {rng.choice([1, 2])}", "D 1"] + S))
    lines += S + ["T"] + [f"G {x}" for x in sorted(w)] + S + ["T"]
    return (f"{kind[0]}{i}_excess", lines)


def gen_bigsketch(rng, kind, i):
    """Enough weighted entries that the float-computed sketch capacity exceeds 128."""
    cfg = gen_cfg(rng, kind, "bigsketch")
    cfg["weigher"] = rng.choice(["value", "none"])
    lines = [cfg_line(cfg)]
    n = rng.choice([200, 320, 450])
    exact = rng.random() < 0.5
    if exact:
        # filled exactly to the brim without a single contended insert; the first contended one is a popular newcomer
        n = cfg["cap"] = rng.choice([150, 200, 300])
        cfg["weigher"] = rng.choice(["value", "value", "none"])
        lines = [cfg_line(cfg)]
    for k in range(n):
        lines.append(f"I {k} {1 if exact else rng.choice([0, 1, 1, 1, 2])}")
        if kind == "sync" and rng.random() < 0.05:
            lines.append("S")
    if kind == "sync":
        lines.append("S")
    if exact:
        new = n + 7
        for _ in range(rng.choice([1, 3, 4])):
            lines.append(f"G {new}")
            if kind == "sync":
                lines.append("S")
        lines.append(f"I {new} 1")
        if kind == "sync":
            lines.append("S")
        lines += [f"G {new}", "G 0", "G 1"]
    for _ in range(30):
        k = rng.randrange(n + 20)
        lines.append(rng.choice([f"G {k}", f"G {k}", f"I {k} 1"]))
    if kind == "sync":
        lines.append("S")
    lines.append("T")
    return (f"{kind[0]}{i}_bigsketch{n}", lines)


def gen_burst(rng, i):
    """Single-thread bursts of N >> write-queue-size operations without sync(), in both
    housekeeping regimes (within / beyond the periodic-sync interval of the clock)."""
    cfg = gen_cfg(rng, "sync", "burst")
    cfg["ttl"] = rng.choice(["none", 10 * SEC])
    cfg["tti"] = rng.choice(["none", 10 * SEC])
    n = rng.choice([400, 700, 1100])
    nkeys = rng.choice([3, 50, 2000])
    lines = [cfg_line(cfg)]
    beyond = rng.random() < 0.7
    if beyond:
        lines.append(f"D {rng.choice([500_000_001, 2 * SEC])}")
    for j in range(n):
        k = rng.randrange(nkeys)
        r = rng.random()
        if r < 0.6:
            lines.append(f"I {k} {gen_value(rng, cfg)}")
        elif r < 0.85:
            lines.append(f"G {k}")
        elif r < 0.95:
            lines.append(f"X {k}")
        else:
            lines.append(rng.choice(["A", "T", f"C {k}"]))
        if beyond and rng.random() < 0.01:
            lines.append(f"D {rng.choice([1, 600_000_000])}")
    lines += ["S", "T"]
    return (f"s{i}_burst{n}", lines)


def gen_skip_case(rng, kind, i):
    """Directed at the maintenance paths that meet a deque node whose key is no longer in the
    map (or was re-inserted): an admitted entry is invalidated while the housekeeper still runs
    on every operation (clock within the periodic-sync interval), with the node selected by
    expiry (tiny tti, invalidate_all) or by size eviction (a pending excess)."""
    cfg = gen_cfg(rng, kind, "tight")
    cfg["ttl"] = rng.choice(["none", "none", 1, 5])
    cfg["tti"] = rng.choice(["none", 1, 2, 5])
    cfg["cap"] = rng.choice(["none", 2, 3, 4])
    cfg["weigher"] = rng.choice(["none", "value"])
    lines = [cfg_line(cfg)]
    keys = [1, 2, 3]
    for k in keys:
        lines.append(f"I {k} {rng.choice([1, 1, 2])}")
    lines.append("S" if kind == "sync" else "T")
    for _ in range(rng.randrange(2, 7)):
        k = rng.choice(keys)
        lines.append(rng.choice(["A", f"D {rng.choice([1, 1, 2, 5])}", f"I {k} {rng.choice([1, 2, 3, 4])}", f"G {k}",
                                 f"X {k}", f"X {k}", f"I {k + 3} 1"]))
        if rng.random() < 0.15 and kind == "sync":
            lines.append("S")
    lines += ["T"] + (["S", "T"] if kind == "sync" else [])
    if rng.random() < 0.3:
        lines.append("DROP")
    return (f"{kind[0]}{i}_skip", lines)


def gen_deque_case(rng, i):
    """API sequences on the intrusive list within its `unsafe` contract: handles passed to
    move_to_back / unlink_and_drop / contains / next are live members."""
    n = rng.choice([10, 30, 80, 200])
    order = []          # live handles front to back
    nxt = 0
    lines = ["cfg kind=deque"]
    if rng.random() < 0.35:
        # tiny lists drained to empty (and refilled) while the cursor iterator is in use
        n = rng.choice([6, 10, 16])
        for _ in range(n):
            r = rng.random()
            if (r < 0.3 and len(order) < 3) or (not order and r < 0.6):
                lines.append(f"PUSH {rng.randrange(1000)}")
                order.append(nxt)
                nxt += 1
            elif r < 0.6 and order:
                lines.append("POP")
                order.pop(0)
            elif r < 0.7 and order:
                h = rng.choice(order)
                lines.append(f"UNLINK {h}")
                order.remove(h)
            elif r < 0.75 and order:
                lines.append("MFTB")
                order.append(order.pop(0))
            else:
                lines.append("ITER")
        lines += ["ITER", "PEEK"]
        return (f"d{i}_deque_tiny{n}", lines)
    for _ in range(n):
        r = rng.random()
        if r < 0.35 or not order:
            lines.append(f"PUSH {rng.randrange(1000)}")
            order.append(nxt)
            nxt += 1
        elif r < 0.45:
            lines.append("POP")
            order.pop(0)
        elif r < 0.60:
            h = rng.choice(order)
            lines.append(f"MTB {h}")
            order.remove(h)
            order.append(h)
        elif r < 0.65:
            lines.append("MFTB")
            order.append(order.pop(0))
        elif r < 0.78:
            h = rng.choice(order)
            lines.append(f"UNLINK {h}")
            order.remove(h)
        elif r < 0.84:
            lines.append(f"CONTAINS {rng.choice(order)}")
        elif r < 0.88:
            lines.append("PEEK")
        elif r < 0.92:
            lines.append(f"NEXT {rng.choice(order)}")
        else:
            lines.append("ITER")
    for _ in range(rng.randrange(0, 4)):
        lines.append("POP")
    return (f"d{i}_deque{n}", lines)


def gen_reinsert_case(rng, kind, i):
    """Invalidation followed by re-insertion of the same keys, with clock advances landing between
    the deadlines of the old and of the new entry (C07: re-inserted keys remain retrievable)."""
    cfg = gen_cfg(rng, kind, "expiry")
    cfg["cap"] = rng.choice(["none", "none", 3, 8])
    cfg["weigher"] = "none"
    d = max([x for x in (cfg["ttl"], cfg["tti"]) if x != "none"])
    lines = [cfg_line(cfg)]
    keys = [1, 2, 3]
    for k in keys:
        lines.append(f"I {k} {k * 10}")
    if kind == "sync" and rng.random() < 0.7:
        lines.append("S")
    t1 = rng.choice([d // 3, d // 2, d - 1, 1])
    lines.append(f"D {t1}")
    inv = rng.choice(["X", "X", "A", "P"])
    k = rng.choice(keys)
    lines.append({"X": f"X {k}", "A": "A", "P": f"P kmod 4 {k % 4}"}[inv] if kind == "unsync" or inv != "P" else f"X {k}")
    if kind == "sync" and rng.random() < 0.5:
        lines.append("S")
    if rng.random() < 0.6:
        lines.append(f"D {rng.choice([1, d // 4])}")
    lines.append(f"I {k} {k * 10 + 1}")
    if kind == "sync" and rng.random() < 0.5:
        lines.append("S")
    # land after the OLD entry's deadline but before the new one's
    lines.append(f"D {max(d - t1, 1)}")
    lines += [f"G {k}", f"C {k}", "T"]
    if kind == "sync":
        lines += ["S", f"G {k}", "T"]
    lines += [f"D {rng.choice([1, d // 4])}", f"G {k}", "T"]
    return (f"{kind[0]}{i}_reinsert", lines)


def gen_window_case(rng, kind, i):
    """Lookups (especially iteration, which runs no maintenance on the single-threaded cache) at
    clock readings between the write-based and the access-based deadline of an entry."""
    cfg = gen_cfg(rng, kind, "expiry")
    cfg["cap"] = rng.choice(["none", "none", 8])
    cfg["weigher"] = "none"
    mode = rng.choice(["ttl", "tti", "both"])
    xbranch = rng.random() < 0.35                # an invalidation inside the window (see below)
    if xbranch and rng.random() < 0.5:
        mode = "tti"
    d = rng.choice([3 * SEC, 10 * SEC])
    cfg["ttl"] = d if mode in ("ttl", "both") else "none"
    cfg["tti"] = (d if mode == "tti" else rng.choice([d, 2 * d, d // 2])) if mode in ("tti", "both") else "none"
    lines = [cfg_line(cfg)]
    keys = [1, 2, 3]
    for k in keys[:2]:
        lines.append(f"I {k} {k * 10}")
    if kind == "sync" and rng.random() < 0.6:
        lines.append("S")
    a = rng.choice([d // 2, d // 3, d - 1])
    lines.append(f"D {a}")
    lines.append(f"G {keys[0]}")                 # refreshes last_accessed only
    lines.append(f"I {keys[2]} 30")              # a younger entry
    if kind == "sync" and rng.random() < (0.15 if xbranch else 0.6):
        lines.append("S")
    b = rng.choice([d - a, d - a + 1, d - a - 1 if d - a > 1 else 1])
    if not xbranch and rng.random() < 0.3:
        lines.append(f"TD {b}")                  # the iterator is created before, drained after the advance
    else:
        lines.append(f"D {b}")                   # around the write-based deadline of keys 1, 2
    if xbranch:
        # invalidate inside the window: an entry that looks expired by its stored timestamps may still be
        # alive (concurrent cache: a recorded hit not applied yet); invalidated it must stay gone
        x = rng.choice([keys[0], keys[0], keys[0], keys[1]])      # mostly the entry whose read refreshed it
        lines += [f"X {x}"] + (["S"] if kind == "sync" else []) + [f"G {x}", f"C {x}", "T"]
    lines += ["T", f"C {keys[0]}", f"C {keys[1]}", "T", f"G {keys[0]}", "T"]
    if kind == "sync":
        lines += ["S", "T"]
    lines += [f"D {rng.choice([1, a])}", "T", f"G {keys[2]}", "T"]
    return (f"{kind[0]}{i}_window", lines)


def gen_stuck_excess_case(rng, kind, i):
    """An update-created excess that one eviction batch cannot clear (a batch worth of zero-weight entries sits at
    the LRU end), then fresh inserts of every size - oversized ones must never be retained, however popular."""
    cap = rng.choice([10, 100])
    cfg = {"kind": kind, "cap": cap, "ttl": "none", "tti": "none", "weigher": "value", "hasher": rng.choice(["id", "mul:11400714819323198485"])}
    batch = 100 if kind == "unsync" else 500
    lines = [cfg_line(cfg)]
    S = ["S"] if kind == "sync" else []
    grow, big = 5000, 5001
    lines.append(f"I {grow} {max(cap * 6 // 10, 1)}")       # enables the sketch
    lines += S
    for _ in range(rng.choice([0, 1, 3, 5])):
        lines.append(f"G {big}")                            # the future newcomer becomes popular
    lines += S
    nz = batch + rng.choice([-1, 0, 1, 30])
    for j in range(nz):
        lines.append(f"I {j} 0")
    lines += S
    lines.append(f"G {grow}")                                # the zero-weight entries are now the LRU end
    lines += S
    lines.append(f"I {grow} {cap * rng.choice([2, 5])}")     # excess far beyond what the zero-weight prefix frees
    lines.append(f"I {big} {rng.choice([cap + 1, cap + cap // 2, cap, cap - 1, 2 * cap + 1])}")
    lines += ["T"] + S + ["T", f"G {big}", f"G {grow}", f"C {big}"] + S + ["T"]
    return (f"{kind[0]}{i}_stuckexcess{nz}", lines)


def gen_window_grid(kind):
    """Small exhaustive grid around the two deadlines of an entry: (ttl, tti) pairs incl. tti < ttl, an access / update /
    contains_key at time a, then observations (iteration first: it runs no maintenance on the single-threaded cache) at
    every boundary reading of either deadline."""
    cases = []
    n = 0
    for ttl, tti in ((10, 6), (10, 5), (6, 10), (10, 10), (10, None), (None, 10)):
        for a in sorted({1, (tti or ttl) - 1, (tti or ttl), (ttl or tti) - 1}):
            for what in ("G 1", "I 1 77", "C 1"):
                ts = set()
                if ttl:
                    ts |= {ttl - 1, ttl, ttl + 1} | ({a + ttl - 1, a + ttl} if what.startswith("I") else set())
                if tti:
                    ts |= {tti, a + tti - 1, a + tti, a + tti + 1}
                for t in sorted(x for x in ts if x > a):
                    cfg = {"kind": kind, "cap": "none", "ttl": ttl * SEC if ttl else "none", "tti": tti * SEC if tti else "none",
                           "weigher": "none", "hasher": "id"}
                    S = ["S"] if kind == "sync" and n % 2 == 0 else []
                    lines = [cfg_line(cfg), "I 1 10", "I 2 20"] + S + [f"D {a * SEC}", what] + (S if n % 4 == 0 else []) + \
                            ([f"TD {(t - a) * SEC}"] if n % 3 == 1 else [f"D {(t - a) * SEC}", "T"]) + \
                            ["C 1", "G 1", "C 2", "T"] + (["S", "T"] if kind == "sync" else [])
                    cases.append((f"{kind[0]}{n}_grid_{ttl}_{tti}_{a}_{t}", lines))
                    n += 1
    return cases


def gen_huge_weights_case(rng, kind, i):
    """Weights of the order of 2^31 .. 2^32-1: sums of a few of them leave u32 (victim weight aggregation, evicted
    weight accumulation, capacity arithmetic).  Either a capacity of that magnitude, or a small capacity whose sketch
    was enabled by ordinary weights first and an in-place update to a huge weight afterwards."""
    big = [3_000_000_000, 2_147_483_648, 4_294_967_295, 2_500_000_000]
    S = ["S"] if kind == "sync" else []
    if rng.random() < 0.55:
        cap = rng.choice([8_000_000_000, 2 ** 33, 2 ** 40, 12_000_000_000])
        cfg = {"kind": kind, "cap": cap, "ttl": "none", "tti": "none", "weigher": "value", "hasher": rng.choice(["id", "mod:3"])}
        lines = [cfg_line(cfg)]
        for k in (1, 2, 3):
            lines.append(f"I {k} {rng.choice(big)}")
            lines += S
        new = 9
        for _ in range(rng.choice([1, 3, 5])):
            lines.append(f"G {new}")
            lines += S
        lines.append(f"I {new} {rng.choice([4_000_000_000, 4_294_967_295, 3_500_000_000])}")   # needs two victims
        lines += S + ["T", f"G {new}", "G 1", "G 2"] + S
        lines.append(f"I {rng.choice([1, 2, 3, new])} {rng.choice(big)}")                 # an update changing a huge weight
        lines += S + ["T"]
        return (f"{kind[0]}{i}_hugecap", lines)
    cap = rng.choice([10, 100])
    cfg = {"kind": kind, "cap": cap, "ttl": "none", "tti": "none", "weigher": "value", "hasher": "id"}
    lines = [cfg_line(cfg)]
    ks = [1, 2, 3, 4]
    for k in ks:
        lines.append(f"I {k} {max(cap // 5, 1)}")        # beyond half full: the sketch is sized by ordinary weights
        lines += S
    for k in rng.sample(ks, rng.choice([1, 2, 3])):
        # in-place growth far beyond the capacity; mostly so close to u32::MAX that one such entry plus the small
        # ones evicted in the same pass leave u32 (every operation clears the excess of the previous update first)
        lines.append(f"I {k} {rng.choice([4_294_967_295, 4_294_967_295, 4_294_967_290, 3_000_000_000])}")
        if rng.random() < 0.5:
            lines += S
    lines += [f"G {ks[0]}"] + S + ["T", f"I 7 1"] + S + ["T"] + [f"G {k}" for k in ks] + S + ["T"]
    return (f"{kind[0]}{i}_hugeupd", lines)
