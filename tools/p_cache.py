"""Correspondence check + oracles for the cache-level properties (both caches, sequential
histories).  For each property: which generator profiles, which slice of the internal
state is compared between implementation and model, and which oracle decides a
concrete violation on the implementation trace."""
import json, os, random, re
import common as C
import gen
import motifs
import oracles as O
from trace import parse_cfg, _kv

# ------------------------------------------------------------------ state projections
def _fields(names):
    def proj(state):
        if state.startswith("dropped") or "map=" not in state:
            return state
        d = _kv(state)
        return " ".join(f"{n}={d.get(n, '?')}" for n in names)
    return proj


def proj_cells(state):
    """value + timestamps of every cell (+ valid_after), nothing about policy."""
    if state.startswith("dropped") or "map=" not in state:
        return state
    d = _kv(state)
    if "va" in d:    # sync
        cells = [":".join(e.split(":")[i] for i in (0, 1, 3, 4)) for e in d["map"][1:-1].split(",") if e]
        return f"va={d['va']} cells={cells}"
    from trace import USnap
    s = USnap(state)
    return "cells=" + str(sorted((k, e["v"], e["la"], e["lm"]) for k, e in s.map.items()))


PROJ = {
    "full": None,
    "cells": proj_cells,
    "counters": _fields(["ec", "ws", "map", "rq", "wq"]),
    "order": _fields(["map", "prob", "wo"]),
    "sketch": _fields(["sk", "skon"]),
    "live": _fields(["live", "map"]),
    "safety": _fields(["map", "prob", "wo", "walk"]),
    "policy": _fields(["ec", "ws", "map", "prob", "sk", "skon"]),
}

# ---------------------------------------------------------------------- generators
def with_estimates(case, nkeys=12):
    """Insert Q (estimate query) ops for the candidate and all possible residents before
    every insert (C13: decision predicted from the implementation's own estimates)."""
    name, lines = case
    keys = sorted({int(l.split()[1]) for l in lines[1:] if l.split()[0] in ("I", "G", "C", "X")})
    if len(keys) > 24:      # never more than 24 estimate reads per insert (the history would grow quadratically)
        keys = keys[:12] + keys[-12:]
    out = [lines[0]]
    n_ins = sum(1 for l in lines[1:] if l.startswith("I "))
    seen = 0
    for l in lines[1:]:
        if l.startswith("I "):
            seen += 1
            if seen > n_ins - 60:       # only the last 60 inserts (a long fill phase is uncontended anyway)
                for k in keys:
                    out.append(f"Q {k}")
        out.append(l)
    return (name, out)


def sync_every_op(case):
    name, lines = case
    out = [lines[0]]
    for l in lines[1:]:
        out.append(l)
        if l.split()[0] in ("I", "G", "X", "A") and lines[0].split()[1] == "kind=sync":
            out.append("S")
    return (name, out)


def refill_probe(rng, i):
    """C03: after an arbitrary history, empty the cache (invalidate_all + maintenance)
    and insert max_capacity fresh unit-weight keys: all must be retained."""
    name, lines = gen.gen_cache_case(rng, "sync", i, profile=rng.choice(["tight", "basic", "unit"]))
    cfg = parse_cfg(lines[0])
    if cfg["cap"] is None or cfg["cap"] == 0 or cfg["cap"] > 16:
        lines[0] = re.sub(r"cap=\S+", f"cap={rng.choice([1, 2, 3, 5, 8])}", lines[0])
        cfg = parse_cfg(lines[0])
    lines[0] = re.sub(r"weigher=\S+", "weigher=none", lines[0])
    lines[0] = re.sub(r"ttl=\S+", "ttl=none", lines[0])
    lines[0] = re.sub(r"tti=\S+", "tti=none", lines[0])
    lines = [l for l in lines if l != "DROP"]
    lines += ["S", "D 1", "A", "D 1", "S", "S"]
    for j in range(cfg["cap"]):
        lines += [f"I {O.PROBE_BASE + j} 1", "S"]
    lines += ["T"]
    return (name + "_probe", lines)


def gen_cases(pid, rng, tier, kinds):
    n = {"quick": 260, "thorough": 3000}[tier]
    cases = []
    for kind in kinds:
        for i in range(n):
            prof = None
            if pid in ("C12", "C13"):
                prof = rng.choice(["admission", "tight", "tight"])
            elif pid in ("C05", "C06"):
                prof = rng.choice(["expiry", "expiry", "basic"])
            elif pid == "C04":
                prof = rng.choice(["tight", "tight", "basic", "admission"])
            case = gen.gen_cache_case(rng, kind, i, profile=prof)
            if pid in ("C12", "C13"):
                # these properties are stated for the concurrent cache with maintenance after every op
                if kind == "sync":
                    case = sync_every_op(case)
                if pid == "C13":
                    case = with_estimates(case)
            cases.append(case)
        # scenario composer: 3-7 motifs (pending ops, weight-changing updates, 0 / exact / oversized weights,
        # exact deadlines, re-insertion, same-instant operations, bursts, ...) over a small key universe
        mo = [motifs.gen_motif_case(rng, kind, 6000 + i) for i in range((200 if pid != "C13" else 100) if tier == "quick" else 1500)]
        if pid in ("C12", "C13") and kind == "sync":
            mo = [sync_every_op(c) for c in mo]
        if pid == "C13":
            mo = [with_estimates(c) for c in mo]
        cases += mo
        if pid in ("C08", "C10", "C11", "C03", "C09"):
            cases += [gen.gen_skip_case(rng, kind, 8000 + i) for i in range(60 if tier == "quick" else 600)]
        if pid in ("C07", "C03", "C05", "C01"):
            cases += [gen.gen_reinsert_case(rng, kind, 8500 + i) for i in range(60 if tier == "quick" else 600)]
        if pid in ("C16", "C05", "C06", "C01", "C07", "C03"):
            cases += gen.gen_window_grid(kind)
        if pid in ("C16", "C05", "C06", "C01", "C07"):
            cases += [gen.gen_window_case(rng, kind, 8700 + i) for i in range(50 if tier == "quick" else 500)]
        if pid in ("C03", "C04", "C12", "C05", "C10", "C16", "C01"):
            ex = [gen.gen_excess_case(rng, kind, 8900 + i) for i in range(50 if tier == "quick" else 500)]
            if pid == "C12" and kind == "sync":
                # C12 is stated for the concurrent cache with maintenance after every op (the oracle's recency
                # order is the history's only then: reads and writes travel through separate queues)
                ex = [sync_every_op(c) for c in ex]
            cases += ex
        if pid in ("C04", "C03", "C12", "C10"):
            se = [gen.gen_stuck_excess_case(rng, kind, 8950 + i) for i in range(6 if tier == "quick" else 40)]
            if pid == "C12" and kind == "sync":
                se = [sync_every_op(c) for c in se]
            cases += se
        if pid in ("C08", "C10", "C04", "C13", "C12", "C03"):
            hw = [gen.gen_huge_weights_case(rng, kind, 8980 + i) for i in range(10 if tier == "quick" else 80)]
            if pid in ("C12", "C13") and kind == "sync":
                hw = [sync_every_op(c) for c in hw]
            cases += [with_estimates(c) for c in hw] if pid == "C13" else hw
        extra = 4 if tier == "quick" else 30
        if pid in ("C03", "C05", "C06", "C08", "C10", "C11", "C01", "C16"):
            nme = extra // 2 if pid not in ("C05", "C06") else (extra * 8 if kind == "unsync" else extra * 2)
            cases += [gen.gen_mass_expiry(rng, kind, 9000 + i, 100 if kind == "unsync" else 500) for i in range(nme)]
        if pid in ("C08", "C13", "C10", "C14"):
            bs = [gen.gen_bigsketch(rng, kind, 9500 + i) for i in range(extra // 2 if pid != "C13" else extra * 2)]
            if pid == "C13":
                bs = [with_estimates(sync_every_op(c) if kind == "sync" else c) for c in bs]
            cases += bs
        if pid in ("C08", "C09", "C10") and kind == "sync":
            cases += [gen.gen_burst(rng, 9700 + i) for i in range(extra)]
    if pid == "C08":
        cases += [gen.gen_deque_case(rng, 7000 + i) for i in range(150 if tier == "quick" else 2000)]
    if pid == "C03" and "sync" in kinds:
        cases += [refill_probe(rng, 9800 + i) for i in range(60 if tier == "quick" else 600)]
    return cases


# ------------------------------------------------------------------------ properties
def lookups(clauses):
    return lambda cfg, ops, tr: O.oracle_lookups(cfg, ops, tr, clauses)


def both(*fs):
    def f(cfg, ops, tr):
        for g in fs:
            v = g(cfg, ops, tr)
            if v:
                return v
        return None
    return f


CHECKS = {
    "C01": dict(oracle=lookups(("val",)), proj="cells", corpus=["c01"]),
    "C03": dict(oracle=O.oracle_no_loss, proj="counters", corpus=["c03", "c10"]),
    "C04": dict(oracle=O.oracle_capacity, proj="counters", corpus=["c04", "c10"]),
    # (an update or a read that fails to restart the interval shows as a live entry missing: the no-loss oracle)
    "C05": dict(oracle=both(lookups(("val", "ttl")), O.oracle_no_loss), proj="cells", corpus=["c05"]),
    "C06": dict(oracle=both(lookups(("val", "tti")), O.oracle_no_loss), proj="cells", corpus=["c06", "c03"]),
    "C07": dict(oracle=both(lookups(("val",)), O.oracle_no_loss), proj="cells", corpus=["c07", "c03"]),
    "C08": dict(oracle=O.oracle_safety, proj="safety", corpus=["c08", "c10", "c03"]),
    "C10": dict(oracle=O.oracle_counters, proj="counters", corpus=["c10", "c03"]),
    "C11": dict(oracle=O.oracle_drops, proj="live", corpus=["c11", "c10"]),
    "C12": dict(oracle=O.oracle_lru, proj="order", corpus=["c12"]),
    "C13": dict(oracle=O.oracle_admission, proj="policy", corpus=["c13"]),
    "C16": dict(oracle=both(O.oracle_iter_complete, lookups(("val", "ttl", "tti"))), proj="cells", corpus=["c16"]),
}

RULE = ("random operation histories (insert/get/contains_key/iter/invalidate/invalidate_all/invalidate_entries_if/"
        "clock advance/sync) over capacities none/0..16, weighers none/value/key+value (weights 0..>capacity), "
        "ttl/tti none/0/1ns/3s/10s with advances landing on deadlines, hashers identity/mod/constant/multiplicative, "
        "sync probability 1/0.5/0.1/0 in both housekeeping regimes; plus corpus witnesses, mass-expiry, big-sketch, "
        "burst and refill-probe profiles where relevant; a case is non-trivial when at least one lookup returns a value "
        "and at least one entry is removed or rejected; distinct = distinct (config, op sequence)")


def load_case_file(path):
    with open(path) as f:
        return [l.strip() for l in f if l.strip() and not l.startswith("#") and not l.startswith("case ")]


def run(pid, tier, seed, model_ok, replay):
    spec = CHECKS[pid]
    rng = random.Random(seed * 1000003 + int(pid[1:]))
    kinds = ["unsync", "sync"]
    if replay:
        cases = [("replay", load_case_file(replay))]
    else:
        cases = []
        for d in spec["corpus"]:
            cases += C.load_corpus(d)
        cases += gen_cases(pid, rng, tier, kinds)
    res = run_cases(pid, spec["oracle"], PROJ[spec["proj"]], cases, model_ok)
    if not replay and pid in ("C03", "C04", "C07", "C08", "C10", "C11"):
        # "for the concurrent cache also at the end of every explored schedule after quiescence"
        import p_conc
        cres = p_conc.run(pid, tier, seed, False, None, nprog=20 if tier == "quick" else 300)
        res["violations"] += cres["violations"]
        res["evaluations"] += cres["evaluations"]
        res["distinct_nontrivial"] += cres["distinct_nontrivial"]
        res["distribution"]["concurrent_schedules"] = cres["distribution"]
        res["rule"] += "; plus " + cres["rule"]
    if not replay and pid == "C16":
        # real-thread stress: k writers updating a fixed key set against m iterating threads
        srng = random.Random(seed * 13 + 16)
        scases = []
        for i in range(6 if tier == "quick" else 80):
            # (with churn a spreading hasher: under the identity hasher small resident keys always come first in walk order)
            scases.append((f"iterstress{i}", [f"cfg kind=stress cap={srng.choice(['none', 1000])} hasher={srng.choice(['id', 'mul:11400714819323198485']) if i % 2 == 0 else 'mul:11400714819323198485'}",
                                              f"ITER writers={srng.choice([1, 2, 3, 4])} iters={srng.choice([1, 2, 3])} keys={srng.choice([8, 40, 64, 300])} "
                                              f"rounds={srng.choice([100, 300])} seed={srng.randrange(10**6)}"
                                              + (f" churn={srng.choice([1, 2])}" if i % 2 else "")]))
        out = C.run_impl(scases, timeout=300)
        iters = 0
        for name, lines in scases:
            tr = out.get(name, [])
            ok = [l for l in tr if l.startswith("iter ok")]
            if not ok:
                bad = [l for l in tr if "VIOLATION" in l or "CRASH" in l or "ERR" in l]
                res["violations"].append((name, lines, (bad[0] if bad else "iterator stress did not complete")[:300]))
            else:
                iters += int(ok[0].split("=")[1])
        res["evaluations"] += len(scases)
        res["distribution"]["iterator_stress_iterations"] = iters
        res["rule"] += "; plus real-thread stress of k writer threads updating a fixed key set against m iterating threads (every iteration must yield every key exactly once with a value current during the iteration); in every other run 1-2 more threads insert and invalidate keys outside that set all the time, and an iterator created before a burst of inserts is drained after it"
    return res


def run_cases(pid, oracle, project, cases, model_ok, max_report=3):
    O.STATS.clear()
    impl = C.run_impl(cases)
    model = C.run_model(cases) if model_ok else {}
    violations, disagreements = [], []
    dist = {"kinds": {}, "ops": {}, "gets_hit": 0, "gets_miss": 0, "removals": 0, "impl_errors": 0,
            "configs": {"cap": {}, "ttl": {}, "tti": {}, "weigher": {}, "hasher": {}}, "lengths": {"<=10": 0, "<=40": 0, "<=150": 0, ">150": 0}}
    nontrivial = set()
    for name, lines in cases:
        cfg = parse_cfg(lines[0])
        tr = impl.get(name, [])
        v = oracle(cfg, lines[1:], tr)
        if v and len(violations) < max_report:
            def fails(ls, cfg=cfg):
                t = C.run_impl([("s", ls)], shards=1).get("s", [])
                return oracle(cfg, ls[1:], t) is not None
            small = C.shrink(lines, fails)
            t = C.run_impl([("s", small)], shards=1).get("s", [])
            violations.append((name, small, oracle(cfg, small[1:], t) or v))
        elif v:
            violations.append((name, lines, v))
        if model_ok and len(disagreements) < 50:
            d = C.first_disagreement(tr, model.get(name, []), project)
            if d:
                disagreements.append((name, lines, f"line {d[0]}: impl `{d[1][:400]}` model `{d[2][:400]}`"))
        # measured input distribution
        dist["kinds"][cfg["kind"]] = dist["kinds"].get(cfg["kind"], 0) + 1
        for key in ("cap", "ttl", "tti", "weigher", "hasher"):
            val = str(cfg[key])
            dist["configs"][key][val] = dist["configs"][key].get(val, 0) + 1
        hit = rem = False
        prev_n = None
        for l in tr:
            op, out, st = C.split_line(l)
            o = op.split()[0] if op else "?"
            dist["ops"][o] = dist["ops"].get(o, 0) + 1
            if out.startswith("ERR") or out.startswith("CRASH"):
                dist["impl_errors"] += 1
            if o == "G":
                if out == "-":
                    dist["gets_miss"] += 1
                else:
                    dist["gets_hit"] += 1
                    hit = True
            m = re.search(r"map=\[([^\]]*)\]", st)
            if m:
                n = m.group(1).count(",") + 1 if m.group(1) else 0
                if prev_n is not None and n < prev_n:
                    dist["removals"] += 1
                    rem = True
                prev_n = n
        L = len(lines) - 1
        dist["lengths"]["<=10" if L <= 10 else "<=40" if L <= 40 else "<=150" if L <= 150 else ">150"] += 1
        if hit and rem:
            nontrivial.add("\n".join(lines))
    dist["oracle_decisions"] = dict(sorted(O.STATS.items()))
    # directed search: the correspondence broke but no generated history violates the property.
    # Look for a concrete failing input near the disagreeing histories: the same history without
    # capacity pressure, and the history cut right after the disagreement followed by probes of
    # every key at clock readings around the configured deadlines.
    if disagreements and not violations:
        probes = []
        # up to 40 disagreeing histories, spread over the configurations (a change often shows up as many harmless
        # state differences and only in a few configurations as a wrong answer)
        groups = {}
        for dgr in disagreements:
            c0 = parse_cfg(dgr[1][0])
            groups.setdefault((c0["kind"], c0["ttl"] is None, c0["tti"] is None, c0["cap"] is None), []).append(dgr)
        picked = []
        while len(picked) < 40 and any(groups.values()):
            for g in list(groups.values()):
                if g and len(picked) < 40:
                    picked.append(g.pop(0))
        for name, lines, detail in picked:
            cfg = parse_cfg(lines[0])
            m = re.match(r"line (\d+):", detail)
            cut = int(m.group(1)) + 1 if m else len(lines) - 1
            keys = sorted({int(l.split()[1]) for l in lines[1:] if l.split()[0] in ("I", "G", "C", "X")})[:8]
            nocap = re.sub(r"cap=\S+", "cap=none", lines[0])
            probes.append((name + "_nocap", [nocap] + lines[1:]))
            ds = {0, 1}
            for d in (cfg["ttl"], cfg["tti"]):
                if d:
                    ds |= {d // 2, max(d - 1, 0), d, d // 4}
            for j, d in enumerate(sorted(ds)):
                for cfgl in (lines[0], nocap):
                    tail = ["S"] if cfg["kind"] == "sync" else []
                    tail += [f"D {d}"] + [f"C {k}" for k in keys] + [f"G {k}" for k in keys] + ["T"] + tail + ["T"]
                    probes.append((f"{name}_probe{j}{'n' if cfgl is nocap else ''}", [cfgl] + lines[1:1 + cut] + tail))
        pimpl = C.run_impl(probes)
        for name, lines in probes:
            cfg = parse_cfg(lines[0])
            v = oracle(cfg, lines[1:], pimpl.get(name, []))
            if v:
                def fails(ls, cfg=cfg):
                    t = C.run_impl([("s", ls)], shards=1).get("s", [])
                    return oracle(cfg, ls[1:], t) is not None
                small = C.shrink(lines, fails)
                t = C.run_impl([("s", small)], shards=1).get("s", [])
                violations.append((name, small, oracle(cfg, small[1:], t) or v))
                break
        dist["directed_search_probes"] = len(probes)
    return {
        "evaluations": len(cases),
        "distinct_nontrivial": len(nontrivial),
        "rule": RULE,
        "samples": [{"case": n_, "history": l_[:14]} for n_, l_ in cases[:3]],
        "violations": violations,
        "disagreements": disagreements,
        "known": [],
        "distribution": dist,
        "traces_validated": len(cases) if model_ok else 0,
    }
