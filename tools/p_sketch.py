"""C14: popularity estimator.  Lock-step of the sketch facade against the bit-level
Coq model on raw table words + an exact-counting oracle on the implementation trace."""
import random, re
import common as C

CAPS = [0, 1, 2, 3, 5, 8, 100, 127, 128, 129, 255, 256, 1000, 4096, 1 << 20]


def gen_case(rng, i, tier):
    cap = rng.choice(CAPS if tier == "thorough" or rng.random() < 0.85 else [0, 1, 2, 3])
    n = rng.choice([20, 60, 150, 400]) if cap < 5000 else rng.choice([20, 60])
    style = rng.choice(["uniform", "skewed", "small", "target", "saturate"])
    if tier == "thorough" and style in ("skewed", "small", "saturate"):
        n *= 3      # long sessions only over few distinct hashes: every trace line lists the non-zero table words
    lines = ["cfg kind=sketch", f"E {cap}"]
    universe = [rng.getrandbits(64) for _ in range(rng.choice([2, 5, 20]))]
    for _ in range(n):
        r = rng.random()
        if style == "uniform":
            h = rng.getrandbits(64)
        elif style == "skewed":
            h = universe[min(int(rng.expovariate(0.7)), len(universe) - 1)]
        elif style == "small":
            h = rng.randrange(0, 64)
        elif style == "target":  # hashes sharing low bits -> same nibble group
            h = (rng.getrandbits(62) << 2) | rng.choice([0, 0, 1])
        else:
            h = universe[0] if r < 0.8 else rng.getrandbits(64)
        if r < 0.75:
            lines.append(f"I {h}")
        elif r < 0.98:
            lines.append(f"F {h if rng.random() < 0.7 or not universe else rng.choice(universe)}")
        else:
            lines.append(f"E {rng.choice(CAPS[:13])}")
    for h in universe[:3]:
        lines.append(f"F {h}")
    return (f"sk{i}_{style}_cap{cap}", lines)


SK = re.compile(r"sk=(\d+):(\d+):(\d+):(\d+):\[([^\]]*)\]")


def oracle(lines):
    """Independent exact-counting reference run over the implementation trace.
    Returns None or a description of the violated clause."""
    ref = {}          # hash -> reference count (saturating 15, halved at aging)
    prev_size = 0
    prev_tlen = 0
    last_f = {}       # hash -> last observed estimate, valid while no aging/resizing happened
    before = {}       # hash -> estimate read since the last I/E (i.e. directly before the next op)
    aged_from = None  # (recorded hash, estimates read directly before the aging step)
    for line in lines:
        op, out, state = C.split_line(line)
        if out.startswith("ERR") or out.startswith("CRASH"):
            return f"implementation failed: {line}"
        m = SK.search(state)
        if not m:
            return f"unparsable state: {line}"
        size, sample, mask, tlen = (int(m.group(k)) for k in range(1, 5))
        t = op.split()
        if t[0] == "E":
            if tlen != prev_tlen:
                ref.clear()
                last_f.clear()
            before = {}
            aged_from = None
        elif t[0] == "I":
            h = int(t[1])
            if tlen > 0:
                ref[h] = min(ref.get(h, 0) + 1, 15)
                if size < prev_size:          # aging step happened
                    for k in ref:
                        ref[k] //= 2
                    last_f.clear()
                    aged_from = (h, dict(before))
                else:
                    aged_from = None
            before = {}
        elif t[0] == "F":
            h = int(t[1])
            f = int(out)
            if f > 15:
                return f"estimate {f} > 15: {line}"
            if f < ref.get(h, 0):
                return f"estimate {f} of {h} below the reference count {ref.get(h, 0)}: {line}"
            if h in last_f and f < last_f[h]:
                return f"estimate of {h} dropped from {last_f[h]} to {f} without an aging step: {line}"
            last_f[h] = f
            before[h] = f
            if aged_from is not None and h in aged_from[1]:
                # the aging step floor-halves every estimate at once; the recording that triggered it raised
                # the estimate of its own key by one (saturating) and of any other key by at most one
                b = aged_from[1][h]
                allowed = {min(b + 1, 15) // 2} if h == aged_from[0] else {b // 2, min(b + 1, 15) // 2}
                if f not in allowed:
                    return (f"aging step did not floor-halve the estimate of {h}: {b} before the step "
                            f"(recording {aged_from[0]}), {f} after, expected {sorted(allowed)}: {line}")
        if mask + 1 != tlen and tlen != 0:
            return f"table_mask {mask} does not match table length {tlen}"
        for w in filter(None, m.group(5).split(",")):
            i, _ = w.split(":")
            if int(i) >= tlen:
                return f"word index {i} outside table of length {tlen}"
        prev_size, prev_tlen = size, tlen
    return None


def with_aging_probes(lines, trace):
    """Second phase: read the estimates of the keys in play directly before and after every aging step
    (positions taken from the implementation's own trace; F is read-only, so the positions do not move)."""
    ops = lines[1:]
    if len(trace) != len(ops):
        return None
    hs, out, prev, n = [], [lines[0]], 0, 0
    for op, l in zip(ops, trace):
        m = SK.search(C.split_line(l)[2])
        size = int(m.group(1)) if m else prev
        t = op.split()
        if t[0] == "I" and size < prev:
            probe = list(dict.fromkeys([int(t[1])] + hs[-12:][::-1]))
            out += [f"F {h}" for h in probe] + [op] + [f"F {h}" for h in probe]
            n += 1
        else:
            out.append(op)
        if t[0] == "I":
            hs.append(int(t[1]))
        prev = size
    return out if n else None


def run(pid, tier, seed, model_ok, replay):
    rng = random.Random(seed)
    n = 400 if tier == "quick" else 4000
    cases = []
    if replay:
        with open(replay) as f:
            lines = [l.strip() for l in f if l.strip() and not l.startswith("#") and not l.startswith("case ")]
        cases = [("replay", lines)]
    else:
        cases += C.load_corpus("sketch")
        cases += [gen_case(rng, i, tier) for i in range(n)]
    impl = C.run_impl(cases)
    if not replay:
        probed = []
        for name, lines in cases:
            pl = with_aging_probes(lines, impl.get(name, []))
            if pl:
                probed.append((name + "_probed", pl))
        impl.update(C.run_impl(probed))
        cases = cases + probed
    model = C.run_model(cases) if model_ok else {}
    violations, disagreements = [], []
    bycase = dict(cases)
    nontrivial = set()
    dist = {"ops": {"E": 0, "I": 0, "F": 0}, "aging_steps": 0, "cases_with_aging": 0, "saturated_estimates": 0, "caps": {}}
    for name, lines in cases:
        tr = impl.get(name, [])
        v = oracle(tr)
        if v:
            def fails(ls):
                return oracle(C.run_impl([("s", ls)], shards=1).get("s", [])) is not None
            violations.append((name, C.shrink(lines, fails), v))
        if model_ok:
            d = C.first_disagreement(tr, model.get(name, []))
            if d:
                disagreements.append((name, lines, f"line {d[0]}: impl `{d[1][:300]}` model `{d[2][:300]}`"))
        # distribution / non-triviality
        aged = 0
        prev = 0
        for l in tr:
            op, out, st = C.split_line(l)
            dist["ops"][op[0]] = dist["ops"].get(op[0], 0) + 1
            m = SK.search(st)
            if m:
                s = int(m.group(1))
                if op[0] == "I" and s < prev:
                    aged += 1
                prev = s
            if op[0] == "F" and out == "15":
                dist["saturated_estimates"] += 1
        dist["aging_steps"] += aged
        dist["cases_with_aging"] += 1 if aged else 0
        cap = lines[1].split()[1]
        dist["caps"][cap] = dist["caps"].get(cap, 0) + 1
        if len(tr) > 10:
            nontrivial.add("\n".join(lines))
    # cache-level clause: only get calls are recorded (both caches), lock-step on the sketch words
    if not replay:
        import gen, p_cache, oracles
        crng = random.Random(seed * 17 + 14)
        ccases = [gen.gen_cache_case(crng, k, i, profile=crng.choice(["admission", "tight", "basic"]))
                  for k in ("unsync", "sync") for i in range(120 if tier == "quick" else 1500)]
        cres = p_cache.run_cases(pid, oracles.oracle_only_get_records, p_cache.PROJ["sketch"], ccases, model_ok)
        violations += cres["violations"]
        disagreements += cres["disagreements"]
        dist["cache_histories_for_only_get_records"] = cres["evaluations"]
        cases = cases + ccases
    return {
        "evaluations": len(cases),
        "distinct_nontrivial": len(nontrivial),
        "rule": "random sketch facade sessions (ensure_capacity / increment / frequency) over capacities "
                "0..2^20 and uniform, skewed, small-integer, nibble-targeting and saturating hash streams; "
                "a case is non-trivial when it has more than 10 operations; distinct = distinct op sequences",
        "samples": [{"case": n_, "ops": l_[:12]} for n_, l_ in cases[:3]],
        "violations": violations,
        "disagreements": disagreements,
        "known": [],
        "distribution": dist,
        "traces_validated": len(cases) if model_ok else 0,
    }
