#!/bin/bash
# Runs every claimed check against every seeded change (sequentially; mutates /repo while running).
cd /verif
for d in seeded/*/; do
  n=$(basename $d)
  echo "=== $n"
  python3 tools/seed_eval.py /verif/seeded/$n $n 2>&1 | tail -1
done
