#!/usr/bin/env python3
"""Writes MANIFEST.json from tools/registry.py (claimed properties) and properties.jsonl."""
import json, os, sys
sys.path.insert(0, os.path.dirname(os.path.abspath(__file__)))
from registry import PROPS, HOOK_COMMITS, NOT_APPLICABLE
ROOT = os.path.normpath(os.path.join(os.path.dirname(os.path.abspath(__file__)), ".."))
ids = [json.loads(l)["id"] for l in open(os.path.join(ROOT, "properties.jsonl"))]
checks = []
for pid in ids:
    if pid not in PROPS:
        continue
    s = PROPS[pid]
    checks.append({
        "property_id": pid,
        "quick_cmd": f"./check {pid} --tier quick",
        "thorough_cmd": f"./check {pid} --tier thorough",
        "evidence_file": f"/verif/evidence/{pid}.json",
        "replay_cmd_template": f"./check {pid} --replay {{path}}",
        "engine": "coq-proof+correspondence",
        "level_claimed": {"category": "proof", "text": s["level_text"], "design_ref": s.get("design_ref", "DESIGN.md section 4")},
        "level_note": s["level_note"],
        "technique": s["technique"],
    })
na = [{"property_id": p, "reason": NOT_APPLICABLE.get(p, "not yet built: the model/proof/correspondence for this property is still under construction in this development (see DESIGN.md section 7 staging)")}
      for p in ids if p not in PROPS]
m = {
    "version": 1,
    "setup_cmd": "./check --setup",
    "hooks": {
        "guard": "mini_moka_verif",
        "enable": "RUSTFLAGS=\"--cfg mini_moka_verif\" (set in /verif/harness/.cargo/config.toml; the harness crate has a path dependency on /repo)",
        "baseline_off_cmd": "cd /repo && cargo test --workspace --no-fail-fast --offline",
        "source_commits": HOOK_COMMITS,
        "add_only": True,
    },
    "engines": [{
        "name": "coq-proof+correspondence",
        "path": "/verif/check",
        "serves_properties": [c["property_id"] for c in checks],
        "kind_free_text": "Coq 8.16 theorems about executable Gallina models (coq/), tied to /repo on every run by a lock-step differential run of the extracted model against a Rust harness built from the current working tree with cfg-guarded hooks, plus constants regenerated from the source",
    }],
    "checks": checks,
    "not_applicable": na,
    "notes": "See DESIGN.md. VERIF_SEED seeds every random choice; build products live under /verif (coq/*.vo, extract/, harness/target, work/).",
}
json.dump(m, open(os.path.join(ROOT, "MANIFEST.json"), "w"), indent=1)
print(f"MANIFEST.json: {len(checks)} checks, {len(na)} not_applicable")
