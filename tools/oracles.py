"""Property oracles evaluated on IMPLEMENTATION traces (independent of the Coq model).
Each returns None or a short description of the violated clause.  They demand no
more than the property texts state (see DESIGN.md section 4 and the interpretive
notes of section 2)."""
import common as C
from trace import USnap, SSnap, parse_cfg, weigh, pred_of, parse_pairs

import collections

PROBE_BASE = 1_000_000   # keys of the refill probe

# how often each oracle actually decided something (reported in the evidence, so that a clause that is
# never exercised by the generated histories is visible)
STATS = collections.Counter()


def steps(cfg, trace):
    """Yields (i, toks, out, state, now) with the clock reading the step observes."""
    now = 0
    for i, line in enumerate(trace):
        op, out, state = C.split_line(line)
        toks = op.split()
        if toks and toks[0] == "TD" and not out.startswith("ERR"):
            # iterator created, clock advanced by d, then drained: every entry is judged when it is visited
            now += int(toks[1])
            toks = ["T"]
        yield i, toks, out, state, now
        if toks and toks[0] == "D" and not out.startswith("ERR"):
            now += int(toks[1])


def failed(out):
    return out.startswith("ERR") or out.startswith("CRASH")


def snap(cfg, state):
    if state.startswith("dropped"):
        return None
    return USnap(state) if cfg["kind"] == "unsync" else SSnap(state)


# ----------------------------------------------------------------------------- C08
def oracle_safety(cfg, ops, trace):
    for i, toks, out, state, now in steps(cfg, trace):
        if failed(out):
            return f"op {i} `{' '.join(toks)}`: {out[:200]}"
        if "walk=" in state and "walk=ok" not in state:
            return f"op {i} `{' '.join(toks)}`: structural walker: {state[state.index('walk='):][:200]}"
        if "before-base" in state:
            return f"op {i}: timestamp before the base instant"
    if len(trace) < len(ops):
        return f"trace ends after {len(trace)} of {len(ops)} operations"
    return None


# ------------------------------------------------------- C01 / C05 / C06 / C07 / C16
class Ref:
    """History-level reference state (Spec/History.v: rstate, rstep, justified)."""

    def __init__(self, cfg):
        self.cfg = cfg
        self.r = {}       # k -> [val, ins, acc]

    def justified(self, k, v, now, clauses):
        c = self.r.get(k)
        if c is None:
            return f"key {k} shown although its latest insert was invalidated / it was never inserted"
        if "val" in clauses and v is not None and c[0] != v:
            return f"key {k} shown with value {v}, latest insert wrote {c[0]}"
        if "ttl" in clauses and self.cfg["ttl"] is not None and now >= c[1] + self.cfg["ttl"]:
            return f"key {k} shown at {now}, inserted at {c[1]} with time_to_live {self.cfg['ttl']}"
        if "tti" in clauses and self.cfg["tti"] is not None and now >= c[2] + self.cfg["tti"]:
            return f"key {k} shown at {now}, last accessed at {c[2]} with time_to_idle {self.cfg['tti']}"
        return None

    def step(self, toks, out, now):
        o = toks[0]
        if o == "I":
            self.r[int(toks[1])] = [int(toks[2]), now, now]
        elif o == "G" and out != "-":
            if int(toks[1]) in self.r:
                self.r[int(toks[1])][2] = now
        elif o == "X":
            self.r.pop(int(toks[1]), None)
        elif o == "A":
            if self.cfg["kind"] == "unsync":
                self.r.clear()
            else:
                self.r = {k: c for k, c in self.r.items() if now <= c[1]}
        elif o == "P":
            p = pred_of(toks[1:])
            self.r = {k: c for k, c in self.r.items() if not p(k, c[0])}

    def live(self, k, now, acc_override=None):
        c = self.r.get(k)
        if c is None:
            return False
        if self.cfg["ttl"] is not None and now >= c[1] + self.cfg["ttl"]:
            return False
        acc = c[2] if acc_override is None else acc_override.get(k, c[1])
        if self.cfg["tti"] is not None and now >= acc + self.cfg["tti"]:
            return False
        return True


def oracle_lookups(cfg, ops, trace, clauses=("val", "ttl", "tti"), iter_dups=True):
    ref = Ref(cfg)
    for i, toks, out, state, now in steps(cfg, trace):
        if failed(out):
            return None          # C08's business
        o = toks[0]
        v = None
        if o == "G" and out != "-":
            v = ref.justified(int(toks[1]), int(out), now, clauses)
            STATS["lookups:get_hit_justified"] += 1
        elif o == "C" and out == "1":
            v = ref.justified(int(toks[1]), None, now, clauses)
            STATS["lookups:contains_true_justified"] += 1
        elif o == "T":
            pairs = parse_pairs(out)
            STATS["lookups:iter_entries_justified"] += len(pairs)
            keys = [k for k, _ in pairs]
            if iter_dups and len(set(keys)) != len(keys):
                v = f"iteration yields a key twice: {sorted(keys)}"
            for k, val in pairs:
                v = v or ref.justified(k, val, now, clauses)
        if v:
            return f"op {i} `{' '.join(toks)}` -> {out[:80]}: {v}"
        ref.step(toks, out, now)
    return None


# ------------------------------------------------------------------------- C16 (seq)
def expired_u(cfg, e, now):
    return (cfg["ttl"] is not None and e["lm"] is not None and e["lm"] + cfg["ttl"] <= now) or \
           (cfg["tti"] is not None and e["la"] is not None and e["la"] + cfg["tti"] <= now)


def expired_s(cfg, e, va, now):
    hidden = va is not None and (e["lm"] < va or e["la"] < va)
    return hidden or (cfg["ttl"] is not None and e["lm"] + cfg["ttl"] <= now) or \
        (cfg["tti"] is not None and e["la"] + cfg["tti"] <= now)


def oracle_iter_complete(cfg, ops, trace):
    """Iteration = exactly the physically held entries not expired at the clock reading."""
    prev = None
    for i, toks, out, state, now in steps(cfg, trace):
        if failed(out):
            return None
        s = snap(cfg, state)
        if s is None:
            return None
        if toks[0] == "T":
            pairs = sorted(parse_pairs(out))
            if cfg["kind"] == "unsync":
                exp = sorted((k, e["v"]) for k, e in s.map.items() if not expired_u(cfg, e, now))
            else:
                exp = sorted((k, e["v"]) for k, e in s.map.items() if not expired_s(cfg, e, s.va, now))
            STATS["iter:exact_iterations"] += 1
            if len(exp) < len(s.map):
                STATS["iter:iterations_hiding_expired"] += 1
            if pairs != exp:
                return f"op {i} iteration yields {pairs[:12]} but the cache holds unexpired {exp[:12]}"
        prev = s
    return None


# ------------------------------------------------------------------------- C10 / C11
def oracle_counters(cfg, ops, trace):
    for i, toks, out, state, now in steps(cfg, trace):
        if failed(out):
            return None
        s = snap(cfg, state)
        if s is None:
            continue
        if cfg["kind"] == "unsync" or (s.rq == 0 and s.wq == 0 and toks[0] == "S"):
            phys_w = sum(weigh(cfg, k, e["v"]) for k, e in s.map.items())
            STATS["counters:states_compared"] += 1
            if s.ec != len(s.map):
                return f"op {i} `{' '.join(toks)}`: entry_count={s.ec} but the cache physically holds {len(s.map)} entries"
            if s.ws != phys_w:
                return f"op {i} `{' '.join(toks)}`: weighted_size={s.ws} but the held entries weigh {phys_w}"
            if len(s.prob) != len(s.map):
                return f"op {i} `{' '.join(toks)}`: {len(s.prob)} deque nodes for {len(s.map)} entries"
    return None


def oracle_drops(cfg, ops, trace):
    for i, toks, out, state, now in steps(cfg, trace):
        if failed(out):
            return None
        if state.startswith("dropped"):
            STATS["drops:cache_drops_checked"] += 1
            if "live=0:0" not in state:
                return f"after dropping the cache: {state} key/value objects still alive"
            continue
        s = snap(cfg, state)
        if cfg["kind"] == "unsync":
            STATS["drops:states_compared"] += 1
            if s.live != (len(s.map), len(s.map)):
                return f"op {i} `{' '.join(toks)}`: live key/value objects {s.live} but {len(s.map)} resident entries"
        elif toks[0] == "S" and s.rq == 0 and s.wq == 0:
            STATS["drops:states_compared"] += 1
            if s.live != len(s.map):
                return f"op {i} after sync: {s.live} live value objects but {len(s.map)} resident entries"
            if "lk" in s.raw and int(s.raw["lk"]) != len(s.map):
                return f"op {i} after sync: {s.raw['lk']} live key objects but {len(s.map)} resident entries"
    return None


# ------------------------------------------------------------------------------- C04
def oracle_capacity(cfg, ops, trace):
    if cfg["cap"] is None:
        return None
    cap = cfg["cap"]
    prev = None
    for i, toks, out, state, now in steps(cfg, trace):
        if failed(out):
            return None
        s = snap(cfg, state)
        if s is None:
            return None
        tot = sum(weigh(cfg, k, e["v"]) for k, e in s.map.items())
        if cfg["kind"] == "unsync":
            prev_tot = sum(weigh(cfg, k, e["v"]) for k, e in prev.map.items()) if prev else 0
            o = toks[0]
            batch_limited = prev is not None and len(prev.map) - len(s.map) >= 99
            if o in ("T", "D", "A", "P", "Q"):
                # no maintenance: an excess may stay, it must not grow
                if tot > max(cap, prev_tot):
                    return f"op {i} `{' '.join(toks)}`: resident weight grew from {prev_tot} to {tot} > max_capacity {cap}"
            else:
                growth = 0
                if o == "I" and prev and int(toks[1]) in prev.map:
                    k = int(toks[1])
                    growth = max(0, weigh(cfg, k, int(toks[2])) - weigh(cfg, k, prev.map[k]["v"]))
                # every other operation first removes a pending excess (up to a batch of entries)
                STATS["capacity:maintenance_ops_checked"] += 1
                if growth:
                    STATS["capacity:growing_updates"] += 1
                if prev_tot > cap:
                    STATS["capacity:pending_excess_before_op"] += 1
                if tot > cap + growth and not batch_limited:
                    return (f"op {i} `{' '.join(toks)}`: resident weight {tot} > max_capacity {cap} after an operation that "
                            f"runs maintenance (excess allowed by this operation's own weight-growing update: {growth})")
            if toks[0] == "I" and (not prev or int(toks[1]) not in prev.map):
                k = int(toks[1])
                if weigh(cfg, k, int(toks[2])) > cap:
                    STATS["capacity:oversized_fresh_inserts"] += 1
                if weigh(cfg, k, int(toks[2])) > cap and k in s.map:
                    return f"op {i}: fresh insert of weight {weigh(cfg, k, int(toks[2]))} > max_capacity {cap} retained"
        else:
            if toks[0] == "S" and s.rq == 0 and s.wq == 0:
                STATS["capacity:quiescent_states_checked"] += 1
            if toks[0] == "S" and s.rq == 0 and s.wq == 0 and tot > cap and len(prev.map) - len(s.map) < 500:
                return f"op {i} after sync: resident weight {tot} > max_capacity {cap}"
            if len(s.map) > (cap if cfg["weigher"] == "none" else 10 ** 18) + 384 + 1:
                return f"op {i}: {len(s.map)} entries, more than max_capacity + write queue + 1"
        prev = s
    return None


# ------------------------------------------------------------------ C03 / C07 precise
def oracle_no_loss(cfg, ops, trace):
    ref = Ref(cfg)
    weak_acc = {}      # sync + tti: accesses guaranteed to count (insert/update, gets applied by a later sync)
    pending_gets = {}
    prev = None
    cap = cfg["cap"]
    # no capacity pressure ever: even if nothing were ever purged, everything inserted fits
    maxw = {}
    for t in ops:
        tk = t.split()
        if tk[0] == "I":
            maxw[int(tk[1])] = max(maxw.get(int(tk[1]), 0), weigh(cfg, int(tk[1]), int(tk[2])))
    no_pressure = cap is None or sum(maxw.values()) <= cap
    for i, toks, out, state, now in steps(cfg, trace):
        if failed(out):
            return None
        s = snap(cfg, state)
        if s is None:
            return None
        o = toks[0]
        unsync = cfg["kind"] == "unsync"
        acc = None if unsync else weak_acc
        # (1) no capacity (pressure): every live entry is returned
        if no_pressure:
            if o in ("G", "C"):
                k = int(toks[1])
                if ref.live(k, now, acc):
                    STATS["no_loss:live_lookups_must_hit"] += 1
                if ref.live(k, now, acc) and ((o == "G" and out == "-") or (o == "C" and out == "0")):
                    return f"op {i} `{' '.join(toks)}`: live entry {k}->{ref.r[k][0]} not returned although everything ever inserted fits (max_capacity {cap})"
            if o == "T":
                got = dict(parse_pairs(out))
                for k in ref.r:
                    if ref.live(k, now, acc) and got.get(k) != ref.r[k][0]:
                        return f"op {i} iteration misses live entry {k}->{ref.r[k][0]} although everything ever inserted fits (max_capacity {cap})"
        # (2) unsync: a new key that fits is admitted and evicts nothing; removal causes
        if unsync and prev is not None:
            removed = set(prev.map) - set(s.map)
            w_new = None
            # (an insert of a key whose old entry has expired is a fresh insert once the purge has removed it)
            if o == "I" and (int(toks[1]) not in prev.map or expired_u(cfg, prev.map[int(toks[1])], now)):
                w_new = weigh(cfg, int(toks[1]), int(toks[2]))
            for k in removed:
                e = prev.map[k]
                STATS["no_loss:removals_need_cause"] += 1
                why = (o == "X" and int(toks[1]) == k) or o == "A" or \
                    (o == "P" and pred_of(toks[1:])(k, e["v"])) or expired_u(cfg, e, now) or \
                    (cap is not None and prev.ws > cap) or \
                    (w_new is not None and cap is not None and prev.ws + w_new > cap)
                if not why:
                    return (f"op {i} `{' '.join(toks)}`: entry {k} removed although it is neither invalidated, "
                            f"expired, nor is the cache over capacity (weighted_size {prev.ws}, cap {cap})")
            if w_new is not None:
                # room computed from the residents physically held when the insert decides: the entries
                # of the previous snapshot minus those the insert's own purge removes (at most one batch)
                exp = [k for k, e in prev.map.items() if expired_u(cfg, e, now)]
                purged = set(exp) if len(exp) <= 100 else set()
                phys = sum(e["w"] for k, e in prev.map.items() if k not in purged)
                if cap is None or phys + w_new <= cap:
                    STATS["no_loss:fitting_inserts_must_be_admitted"] += 1
                    k = int(toks[1])
                    if k not in s.map:
                        return (f"op {i} `{' '.join(toks)}`: new key of weight {w_new} fits (held weight {phys}, "
                                f"cap {cap}) but was not admitted")
                    # (an expired entry may always go: when more than one batch is expired we do not know which)
                    lost = [x for x in prev.map if x not in purged and x not in exp and x not in s.map]
                    if lost:
                        return f"op {i} `{' '.join(toks)}`: new key fits (held weight {phys}, cap {cap}) but {lost} were evicted"
        # (3) refill probe: all probe keys retained
        if o == "T" and cap is not None and any(t.startswith(f"I {PROBE_BASE}") for t in ops):
            got = dict(parse_pairs(out))
            n_probe = sum(1 for t in ops[: i + 1] if t.startswith("I ") and int(t.split()[1]) >= PROBE_BASE)
            if n_probe and i == len(trace) - 1:
                STATS["no_loss:refill_probes"] += 1
                missing = [k for k in range(PROBE_BASE, PROBE_BASE + n_probe) if k not in got]
                if missing:
                    return f"refill probe: {len(missing)} of {n_probe} fresh unit-weight keys were not retained by an emptied cache of capacity {cap}"
        # reference update
        ref.step(toks, out, now)
        if not unsync:
            if o == "I":
                weak_acc[int(toks[1])] = now
            elif o == "G" and out != "-":
                pending_gets[int(toks[1])] = now
            elif o == "S":
                # an explicit sync applies every recorded hit (the read channel never fills up in
                # these sequential histories), so the idle timers are extended from here on
                for k, t in pending_gets.items():
                    if k in weak_acc:
                        weak_acc[k] = max(weak_acc[k], t)
                pending_gets.clear()
            elif o in ("X",):
                pending_gets.pop(int(toks[1]), None)
        prev = s
    return None


# ------------------------------------------------------------------------------ C12
def oracle_lru(cfg, ops, trace):
    """Size-driven removals are a prefix of the recency order, as short as needed."""
    if cfg["cap"] is None:
        return None
    cap = cfg["cap"]
    prev = None
    recency = []        # history recency order (unsync): insert / update / successful get move to MRU
    last_op = before_last = None
    unsync = cfg["kind"] == "unsync"
    for i, toks, out, state, now in steps(cfg, trace):
        if failed(out):
            return None
        s = snap(cfg, state)
        if s is None:
            return None
        o = toks[0]
        if prev is not None and (unsync or o == "S"):
            # unsync: the deque order before the op; sync: the order in which maintenance applies the
            # recorded reads and writes = the recency order of the history (maintenance after every op)
            order = [k for k, _, _ in prev.prob] if unsync else \
                [k for k in recency if k in prev.map and prev.map[k]["adm"]]
            removed = set(prev.map) - set(s.map)
            if unsync:
                expired_removed = {k for k in removed if expired_u(cfg, prev.map[k], now)}
                # removed (or removed and re-inserted) by the operation itself, after the eviction
                amb = set()
                if o in ("X", "I"):
                    amb = {int(toks[1])}
                elif o == "A":
                    amb = set(prev.map)
                elif o == "P":
                    amb = {k for k, e in prev.map.items() if pred_of(toks[1:])(k, e["v"])}
            else:
                expired_removed = {k for k in removed if expired_s(cfg, prev.map[k], prev.va, now)
                                   or not prev.map[k]["adm"]}
                amb = set()
            order2 = [k for k in order if k not in expired_removed]
            size_set = [k for k in order2 if k in removed and k not in amb]
            if size_set:
                STATS["lru:size_removals_checked_prefix"] += 1
                j = max(order2.index(k) for k in size_set)
                prefix = order2[: j + 1]
                stay = [k for k in prefix if k not in removed and k not in amb]
                if stay:
                    return (f"op {i} `{' '.join(toks)}`: entries {sorted(size_set)} removed for size while less "
                            f"recently used {stay} stay (LRU order {order2})")
                if unsync and not (set(prefix) & amb):
                    # minimality: the excess first (evict_lru_entries), then the admission victims
                    w = lambda k: prev.map[k]["w"]
                    excess = max(0, prev.ws - sum(w(k) for k in expired_removed) - cap)
                    freed = 0
                    jj = 0
                    while jj < len(prefix) and freed < excess:
                        freed += w(prefix[jj])
                        jj += 1
                    victims = prefix[jj:]
                    STATS["lru:minimality_checked"] += 1
                    if victims:
                        # (an insert over an entry that has expired is a fresh insert once the purge has removed it)
                        if not (o == "I" and (int(toks[1]) not in prev.map or expired_u(cfg, prev.map[int(toks[1])], now))):
                            return f"op {i} `{' '.join(toks)}`: {victims} removed beyond the excess {excess} without an admission"
                        need = weigh(cfg, int(toks[1]), int(toks[2]))
                        if sum(w(k) for k in victims[:-1]) >= need:
                            return f"op {i}: admission of weight {need} removed {victims}, a shorter prefix suffices"
        # concurrent cache, maintenance after every op: an update that grew an admitted entry - the maintenance run
        # that applies it removes for size exactly the shortest prefix of the recency order (the updated key now
        # most recent, expired entries purged first) that covers the excess: no more, no fewer
        if (not unsync) and o == "S" and prev is not None and last_op is not None and before_last is not None \
                and last_op[0] == "I" and prev.rq == 0 and prev.wq == 1 and before_last.rq == 0 and before_last.wq == 0 \
                and prev.va is None:
            # (not after an invalidate_all: an entry it hides from lookups may stay physically held - and counted -
            #  when a read at the very reading of the call refreshed its access time; which entries the sweep can
            #  purge is then not what `expired_s` says)
            k = int(last_op[1])
            e0 = before_last.map.get(k)
            if e0 is not None and e0["adm"] and k in prev.map:
                neww = weigh(cfg, k, int(last_op[2]))
                wt = {x: (neww if x == k else e["w"]) for x, e in prev.map.items()}
                expired = {x for x, e in prev.map.items() if expired_s(cfg, e, prev.va, now)}
                excess = prev.ws - e0["w"] + neww - sum(wt[x] for x in expired) - cap
                order3 = [x for x in recency if x in prev.map and x not in expired and (prev.map[x]["adm"] or x == k)]
                if all(prev.map[x]["adm"] for x in prev.map) and set(order3) == set(prev.map) - expired:
                    exp_victims, freed = [], 0
                    for x in order3:
                        if freed >= excess:
                            break
                        exp_victims.append(x)
                        freed += wt[x]
                    gone = set(prev.map) - set(s.map) - expired
                    STATS["lru:sync_update_minimality_checked"] += 1
                    if len(exp_victims) < 500 and gone != set(exp_victims):
                        return (f"op {i} `S` after `{' '.join(last_op)}`: removed for size {sorted(gone)}, but the shortest "
                                f"LRU prefix covering the excess {max(excess, 0)} (recency order {order3}, expired purged first: "
                                f"{sorted(expired)}) is {exp_victims}")
        if o not in ("Q", "C", "T"):
            before_last = prev
            last_op = toks
        # recency order of the history
        if o == "I" or (o == "G" and out != "-"):
            k = int(toks[1])
            if k in recency:
                recency.remove(k)
            recency.append(k)
        recency = [k for k in recency if k in s.map]
        if unsync:
            got = [k for k, _, _ in s.prob]
            STATS["lru:order_vs_history_recency"] += 1
            if got != recency:
                return f"op {i} `{' '.join(toks)}`: LRU order {got} differs from the recency order of the history {recency}"
        prev = s
    return None


# ------------------------------------------------------------------------------ C13
def oracle_admission(cfg, ops, trace):
    """TinyLFU decision predicted from the implementation's own estimates (Q ops) read
    just before the insert."""
    if cfg["cap"] is None:
        return None
    cap = cfg["cap"]
    unsync = cfg["kind"] == "unsync"
    est = {}
    prev = None
    pending = None     # sync: (i, k, w, snapshot before) decided at the next S
    for i, toks, out, state, now in steps(cfg, trace):
        if failed(out):
            return None
        s = snap(cfg, state)
        if s is None:
            return None
        o = toks[0]
        if o == "Q":
            est[int(toks[1])] = int(out)
        decide = None
        if unsync and o == "I" and prev is not None and int(toks[1]) not in prev.map:
            decide = (int(toks[1]), weigh(cfg, int(toks[1]), int(toks[2])), prev)
        if not unsync:
            if o == "I" and prev is not None and int(toks[1]) not in prev.map and prev.rq == 0 and prev.wq == 0:
                pending = (int(toks[1]), weigh(cfg, int(toks[1]), int(toks[2])), prev, dict(est))
            elif o == "S" and pending is not None:
                decide = pending[:3]
                est = pending[3]        # the estimates read just before the insert
                pending = None
            elif o not in ("Q", "C", "T"):
                pending = None
        if decide is not None:
            k, w, before = decide
            order = [x for x, _, _ in before.prob]
            # estimates are needed only for the residents the victim loop looks at
            need, vw0, vf0 = [], 0, 0
            if k in est:
                for x in order:
                    if vw0 >= w or x not in est or est[k] < vf0:
                        break
                    need.append(x)
                    vw0 += before.map[x]["w"]
                    vf0 += est[x]
            examined_all = k in est and (vw0 >= w or est[k] < vf0 or len(need) == len(order))
            clean = examined_all and \
                (unsync or all(before.map.get(x, {}).get("adm") for x in order))
            no_expiry = cfg["ttl"] is None and cfg["tti"] is None and (unsync or before.va is None)
            if clean and no_expiry and before.ws <= cap and before.ws + w > cap and w <= cap:
                # shortest LRU prefix with weight >= w, with the early exit on popularity
                vw = vf = 0
                P = []
                for x in order:
                    if vw >= w or est[k] < vf:
                        break
                    vw += before.map[x]["w"]
                    vf += est[x]
                    P.append(x)
                admit = vw >= w and est[k] > vf
                STATS[f"admission:{'unsync' if unsync else 'sync'}_predicted_{'admit' if admit else 'reject'}"] += 1
                if len(P) > 1:
                    STATS["admission:multi_victim_prefix"] += 1
                if admit:
                    if k not in s.map or any(x in s.map for x in P) or \
                            set(before.map) - set(s.map) != set(P):
                        return (f"op {i}: newcomer {k} (estimate {est[k]}, weight {w}) beats the LRU prefix {P} "
                                f"(estimates sum {vf}) but the cache now holds {sorted(s.map)}")
                else:
                    if k in s.map or set(before.map) - set(s.map):
                        return (f"op {i}: newcomer {k} (estimate {est[k]}, weight {w}) does not beat the LRU prefix {P} "
                                f"(estimates sum {vf}, weight {vw}) yet the cache went from {sorted(before.map)} to {sorted(s.map)}")
            est = {}
        if o not in ("Q",):
            if o not in ("C", "T"):
                est = {} if o != "Q" else est
        prev = s
    return None


# ------------------------------------------------------------------- C14 (cache level)
def oracle_only_get_records(cfg, ops, trace):
    """Only get calls (hit or miss, each at most once) are ever recorded in the popularity sketch."""
    import re as _re
    prev = None
    pstate = None
    recorded = 0
    for i, toks, out, state, now in steps(cfg, trace):
        if failed(out):
            return None
        s = snap(cfg, state)
        if s is None:
            return None
        m = _re.match(r"(\d+):(\d+):(\d+):(\d+):\[([^\]]*)\]", s.sk)
        cur = (int(m.group(1)), m.group(5)) if m else None
        o = toks[0]
        if prev is not None and cur is not None:
            psk, prq = prev
            if cfg["kind"] == "unsync":
                if o == "G" and s.skon and getattr(pstate, "skon", 0) and cur == psk and recorded < 15:
                    # fewer than 15 lookups recorded since the table was enabled / last aged: no counter can be
                    # saturated, so a recorded lookup must change the table
                    return f"op {i} `{' '.join(toks)}` was not recorded in the enabled popularity sketch"
                if o == "G" and cur != psk:
                    recorded = 8 if cur[0] < psk[0] else recorded + 1     # (after an aging step counters are <= 7)
                if o != "G" and cur != psk:
                    return f"op {i} `{' '.join(toks)}` changed the popularity sketch (size {psk[0]} -> {cur[0]}) although it is not a get"
                if o == "G" and cur[0] > psk[0] + 1:
                    return f"op {i} `{' '.join(toks)}` recorded more than one lookup (sketch size {psk[0]} -> {cur[0]})"
            else:
                if o != "G" and s.rq > prq:
                    return f"op {i} `{' '.join(toks)}` queued a read op although it is not a get (rq {prq} -> {s.rq})"
                if o == "G" and s.rq > prq + 1:
                    return f"op {i} `{' '.join(toks)}` queued more than one read op (rq {prq} -> {s.rq})"
                if cur != psk and prq == 0 and o != "G":
                    return f"op {i} `{' '.join(toks)}`: the sketch changed although no recorded read was pending"
        if cur is not None:
            if prev is not None and cur[0] == 0 and prev[0][0] != 0:
                recorded = 0
            prev = (cur, getattr(s, "rq", 0))
            pstate = s
    return None
