"""Property registry: which Coq file states the property, which python module
runs its correspondence check and oracle, and the trusted base / assumptions that go
into the evidence."""

TB_COMMON = [
    "Coq 8.16.1 kernel (coqc, full .vo build); vm_compute used in Example/constant-fact proofs; native_compute not used",
    "axioms: none (every property theorem is `Closed under the global context`, audited on every run)",
    "extraction: Require Import ExtrOcamlBasic only (bool/option/unit/list/prod/sumbool mapped to OCaml's); no Extract Constant / Extract Inductive of our own; N/positive stay inductive; OCaml driver extract/driver.ml parses histories and prints traces",
    "correspondence check (differential testing, not proof): Rust harness built from /repo with --cfg mini_moka_verif, cfg-guarded snapshot hooks inside /repo, canonicalisation, tools/*.py generators and comparison",
    "constant translator tools/gen_consts.py (regenerates Gen/Consts.v from the Rust sources each run)",
    "modelled, not verified: the Rust semantics of the source (hand transcription into Gallina), std HashMap, dashmap, crossbeam-channel, std sync primitives under sequential consistency, Rc/Arc/triomphe::Arc/Box/tagptr, std::time::Instant",
]

HOOK_COMMITS = ["3635e1b", "c1db4d1", "9939cb6", "a3bd6f1"]

# properties deliberately not claimed (none so far: everything else is "not yet built")
NOT_APPLICABLE = {}

PROPS_ALL = {
    "C14": {
        "prop_file": "theories/Properties/C14.v",
        "module": "p_sketch",
        "technique": "Coq proof (induction over increment sequences, bit-level refinement) + lock-step correspondence on raw sketch words",
        "level_text": "Theorems in Coq about a bit-level Gallina model of FrequencySketch for all capacities, all hash sequences and all interleavings with aging steps (bounded by 15, never underestimates the saturating/halved reference count, exact without collision, monotone except aging, aging halves every estimate, no overflow/out-of-bounds); the model is tied to the code by running the extracted model and the real FrequencySketch (through a cfg-guarded facade) on the same operation sequences and comparing every table word, size, sample size and mask after every operation, and by regenerating SEED/RESET_MASK/ONE_MASK and the capacity clamps from the Rust source on every run.",
        "level_note": "Trusted: Coq kernel; extraction (ExtrOcamlBasic) and the OCaml driver; the harness/facade/compare scripts (differential testing over sampled sequences, measured in the evidence); constants translator. Hypothesis: table shorter than 2^28 words for the no-overflow clause. Cache level (only get records): unsync u_get_sketch + frame lemmas, sync sstep_get_records_once / sstep_records_nothing / s_sync_reads_consumed; checked on the implementation by the only-get-records oracle over cache histories.",
        "trusted_base": TB_COMMON,
        "assumptions": [
            "hash values are arbitrary u64 (the hasher is any pure function)",
            "sketch table shorter than 2^28 words for the no-overflow clause (u32 odd-counter accumulator in reset)",
            "64-bit target (cfg!(target_pointer_width) branch of ensure_capacity)",
        ],
    },
}


ASSUME_CACHE = [
    "weigher and hasher are pure functions (the weigher returns a u32, the hasher a u64)",
    "clock readings are non-decreasing (the clock is part of the run state of the models; std Instant is monotonic)",
    "Instant + Duration cannot overflow for durations <= 1000 years (what ensure_expirations_or_panic establishes)",
    "histories shorter than 2^24 operations (single-threaded cache) / 2^18 (concurrent cache) for the no-overflow clauses",
    "the concurrent cache is modelled in its sequential regime (one thread; implicit housekeeper and explicit sync); interleavings are covered by the Conc models where claimed",
]

NOTE_CACHE = ("Trusted: Coq kernel; extraction (ExtrOcamlBasic only) and extract/driver.ml; the Rust harness, the cfg-guarded "
              "snapshot hooks in /repo, canonicalisation and tools/*.py (differential testing on sampled histories: "
              "coverage measured in the evidence); tools/gen_consts.py. The models are hand transcriptions of "
              "src/unsync/cache.rs and src/sync/{cache,base_cache}.rs (+ deques, entry_info, housekeeper); std HashMap, "
              "dashmap, crossbeam-channel, Rc/Arc/Box are modelled, not verified. ")


def cache_prop(pid, technique, text, note_extra="", assumptions=None):
    return {
        "prop_file": f"theories/Properties/{pid}.v",
        "module": "p_cache",
        "trusted_base": TB_COMMON,
        "technique": technique,
        "level_text": text,
        "level_note": NOTE_CACHE + note_extra,
        "assumptions": assumptions or ASSUME_CACHE,
    }


TIE = (" Tie to /repo on every run: the extracted models and the real caches (built from the working tree with cfg-guarded "
       "snapshot hooks, mock clock, deterministic hashers) run the same generated histories; outputs and the relevant slice of "
       "internal state are compared after every operation, and the property's oracle (the theorem statement evaluated on "
       "implementation traces) searches for a concrete failing history.")

PROPS_ALL["C01"] = cache_prop(
    "C01", "Coq proof (induction over histories with a simulation invariant against a history-level reference state) + lock-step correspondence + reference-map oracle",
    "Theorems for ALL histories, configurations, hashers, weighers, clock patterns and sync placements: every answer of get/contains_key/iteration of the single-threaded cache model (UModel) and of the concurrent cache model in its sequential regime (SModel) is justified by the reference state = most recent insert of the key not invalidated since (by key, predicate, or invalidate_all at a strictly later reading)." + TIE)
PROPS_ALL["C05"] = cache_prop(
    "C05", "Coq proof (same simulation invariant; TTL clause of `justified`) + lock-step correspondence + reference-map oracle with deadlines",
    "Theorems for all histories/configurations/clock patterns (ttl = 0, exact deadlines, combined with tti) for both cache models: any visible answer at reading `now` has now < (reading of the latest insert/update of that key) + ttl; an update restarts the interval, reads do not." + TIE)
PROPS_ALL["C06"] = cache_prop(
    "C06", "Coq proof (same simulation invariant; TTI clause of `justified`) + lock-step correspondence + reference-map oracle with deadlines",
    "Theorems for all histories/configurations for both cache models: any visible answer at reading `now` has now < a + tti where a is the reading of the most recent insert, update or successful get; contains_key, iteration, sync and misses never enter a (on the concurrent cache a late-applied read can only move last_accessed up to a recorded successful get)." + TIE)

PROPS_ALL["C07"] = cache_prop(
    "C07", "Coq proof (trace theorems + reference-state lemmas; completeness theorem for unbounded single-threaded caches) + lock-step correspondence + reference-map / no-loss oracles",
    "Theorems for all histories and configurations of both cache models: once the history-level reference state lacks a key (which the reference lemmas show for exactly the targets of invalidate / invalidate_entries_if / invalidate_all), no lookup of any continuation shows it until it is inserted again (immediate + permanent, whatever maintenance does); the reference state of non-targets and of later inserts is untouched, and the unbounded single-threaded cache returns every reference-live entry (precise). PARTIAL: the clause about an invalidating thread racing with readers is covered by the concurrent-cell model only when C02 lands; precision for bounded caches is checked by the correspondence and the no-loss oracle (removal causes), not by a theorem yet." + TIE)
PROPS_ALL["C16"] = cache_prop(
    "C16", "Coq proof (iteration = exact duplicate-free listing of the unexpired map entries; trace theorem for justification) + lock-step correspondence + iteration oracle",
    "Theorems for both cache models, all states/histories: an iteration at reading now lists, without duplicates, exactly the physically held entries that are not expired at now, each with its current value, and every listed entry is justified by the history (never expired/invalidated); iteration changes no state. PARTIAL: the clause about concurrent writers (DashMap shard iteration) is not modelled yet; it is exercised by real-thread stress only when the concurrent harness lands." + TIE)
PROPS_ALL["C08"] = cache_prop(
    "C08", "Coq proof (inductive well-formedness invariant => no checked operation fails) + outcome lock-step with overflow checks/debug assertions on + structural walker oracle",
    "Every raw-pointer dereference, Box::from_raw, unreachable!, expect/unwrap and non-wrapping arithmetic of the source is a checked operation of the models. Theorems: for ALL configurations and histories (< 2^24 ops) the single-threaded cache model never returns Err and stays well formed (node<->entry bijection, no dangling pointer); the sketch never overflows or indexes out of bounds. The same for the concurrent cache model in its sequential regime (srun_safe: 28-clause invariant SInv inductive incl. the in-flight op of the implicit housekeeper; no ghost node, no dangling pointer, retry loop never out of fuel) and for the intrusive list at POINTER level (heap of nodes, every dereference checked): every operation sequence within the unsafe contract is safe and refines the list model, dropping frees every node once, out-of-contract use is detected. PARTIAL: interleavings (covered by crash/walker/live-object oracles at the end of explored schedules), allocator behaviour and hardware data races are not modelled; Miri is not part of the quick tier." + TIE)
PROPS_ALL["C10"] = cache_prop(
    "C10", "Coq proof (accounting clauses of the inductive invariant) + lock-step correspondence on counters + counters-vs-physical oracle",
    "Theorem for ALL configurations and histories of the single-threaded cache model: after every operation entry_count = number of map entries and weighted_size = sum of their weights (and weights are the weigher's). Concurrent cache (sequential regime, all histories): every maintenance run empties both queues (sync_quiescent) and whenever nothing is queued entry_count = |map| = |deque nodes| and weighted_size = the weigher's sum over the map, every map entry is admitted and every node belongs to the map entry of its key (quiescent_counters). PARTIAL: after multi-threaded schedules this is an oracle check after quiescence." + TIE)
PROPS_ALL["C11"] = cache_prop(
    "C11", "Coq proof (ownership = node/entry bijection of the inductive invariant; freed-node access is an error) + drop-counting lock-step + live-object oracle",
    "The models make ownership explicit (a node is live iff member of a deque; entries own their nodes). Theorem for all histories of the single-threaded cache: every node belongs to exactly one resident entry, so the objects referenced by the cache are exactly the resident entries' (as many live key/value objects as residents after every operation). The harness uses drop-counting key/value types and compares live counts with the model after every step and after dropping the cache with ops queued. Concurrent cache: queued read/write ops are the only other owners; at quiescence every node belongs to the map entry of its key and every map entry is admitted (quiescent_counters), so no ghost node pins a key. PARTIAL: that Rc/Arc/Box drop exactly once is Rust's guarantee (trusted); multi-threaded schedules: live-object oracle after quiescence and after dropping the cache." + TIE)

PROPS_ALL["C17"] = dict(cache_prop(
    "C17", "Coq proof (builder/policy model: computation + case analysis) + builder sweep and differential histories against the implementation",
    "Theorems on the builder model for ALL knob combinations: policy() reports exactly max_capacity/time_to_live/time_to_idle; build panics iff ttl or tti exceeds 1000 years (constant regenerated from builder_utils.rs), new(n) = builder().max_capacity(n).build(), initial_capacity never reaches the running configuration, no weigher => weight 1, no max_capacity => nothing to evict and every new key has room. Tie: every run sweeps both real builders over capacities 0..u64::MAX, boundary durations (1000y, 1000y+1ns), weigher and initial_capacity against the extracted builder model, runs new(n) against the builder on hash-independent histories, and runs random histories with/without initial_capacity (identical traces required)."), module="p_config")

PROPS_ALL["C15"] = dict(cache_prop(
    "C15", "Coq proof (literal purity + metamorphic theorem by induction over insertions for the concurrent cache; identity / maintenance-only frame lemmas for the single-threaded cache) + metamorphic differential runs on the implementation",
    "Theorems: for the concurrent cache model, for ALL histories h and ALL ways h' of inserting contains_key/iter calls, h' runs to the same final state with identical results for the operations of h (and conversely); for the single-threaded cache model iteration is the identity on the state and contains_key is exactly the maintenance every operation starts with (never touching sketch, timestamps or the relative recency order of what it leaves). For the single-threaded cache the metamorphic theorem is proved outside the class PendingExcessAtObservation (unsync_observations_pure: key universe smaller than a batch, no inserted contains_key starting with an update-created excess pending); inside that class the property is genuinely violated by the unchanged code (recorded known finding D-U5, reproduced on every run). Tie: metamorphic pairs are run on the real caches (all original outputs must coincide; inserted calls must leave the internal state of the concurrent cache / of iter untouched), plus the usual lock-step of both runs against the models."), module="p_meta")

NOTE_CONC = ("Trusted/assumed (not proved): sequential consistency of the atomics (Acquire/Release/Relaxed are modelled as SC), DashMap's per-key "
             "linearisability and iterator contract, crossbeam-channel's bounded FIFO semantics, the OS scheduler; the controlled scheduler only "
             "interleaves at the instrumented switch points inside /repo (cfg-guarded, add-only). ")

PROPS_ALL["C02"] = dict(cache_prop(
    "C02", "Coq proof (trace induction over an abstract concurrent-cell model, all interleavings) + controlled-scheduler replay of the real cache with acceptance of the action traces by the extracted model + interval-based coherence oracle + uncontrolled stress",
    "Theorems (Conc/Cell.v) for ALL interleavings of ANY number of threads: a get returns nothing or the value of the latest write action on its key (never superseded, removed or phantom), observed values never go backwards in the order the writes took effect, and after all threads stop each key holds nothing or the last value written; maintenance can only remove. PARTIAL (runtime behaviour the model cannot exhibit): that the real cache's operations perform exactly one such atomic map action each is checked, not proved: every run, small concurrent programs (2-4 threads x 1-6 ops, 1-3 keys, capacities none/1..4, ttl/tti/weigher) are executed with real threads under the baton-passing scheduler (unpreempted, random, every single preemption point, sampled pairs), the map actions ordered by their linearisation step must be accepted by the extracted cell model, and an oracle over operation intervals (independent of the hooks) plus uncontrolled real-thread stress runs look for a concrete incoherent history.",
    note_extra=NOTE_CONC), module="p_conc")

PROPS_ALL["C03"] = cache_prop(
    "C03", "Coq proof (completeness = converse simulation for unbounded caches; step characterisations of insert/maintenance/invalidation on the map view) + lock-step correspondence + no-loss oracle with removal causes + refill probe",
    "Theorems for the single-threaded cache model, all well-formed states / all histories: without max_capacity every reference-live entry is returned by get/contains_key/iteration (the cache is exactly a map with expiry); a new key that fits is admitted and evicts nothing; maintenance removes an entry only if it is expired or the cache is over capacity; get/contains_key remove nothing else, invalidation removes exactly its targets, updates evict nothing. Concurrent cache (sequential regime, all sync placements, both housekeeping regimes): without max_capacity every entry live under the weak reference (a get extends the idle timer only once maintenance applied it) is returned (s_trace_complete_all); a maintenance run on a quiescent state removes an entry only if expired or over capacity; a pending fresh insert that fits is admitted by the next maintenance run and evicts nothing. PARTIAL: multi-threaded schedules are covered by the no-loss oracle and the refill probe after quiescence of every explored schedule, not by a theorem. OPERATION LEVEL (Sync/SEndToEnd.v): fresh insert followed by the maintenance run, both housekeeping regimes, stated on the quiescent state before the insert - a key that fits is in the cache afterwards and nothing else changed (s_insert_sync_outcome)." + TIE)
PROPS_ALL["C04"] = cache_prop(
    "C04", "Coq proof (accounting invariant + step characterisations: weighted size never grows beyond capacity except by an in-place update, maintenance removes the excess) + lock-step correspondence on counters/weights + capacity oracle",
    "Theorems for the single-threaded cache model, every operation from every well-formed state: weighted_size (= physical resident weight, C10) never grows beyond max(capacity, previous) except by the weight growth of an in-place update; the maintenance every operation starts with brings it within capacity or evicts a whole batch; a fresh insert heavier than the capacity is never retained and touches nothing. Concurrent cache (sequential regime): after every maintenance run nothing is queued, weighted_size is the weigher's sum over the map, and it is within capacity or a whole batch was evicted (s_sync_capacity); a pending oversized fresh insert is rejected by the next maintenance run. Between maintenance runs, for all interleavings of any number of inserting threads, the abstract housekeeper/channel/mutex model (Conc/HK.v) bounds the overshoot by the write-queue size plus one entry per thread. PARTIAL: that the real threads follow the protocol model is checked by acceptance of the flag/lock traces on explored schedules and by the capacity oracle after quiescence, not proved. OPERATION LEVEL (Sync/SEndToEnd.v): update followed by the maintenance run - afterwards the cache is within capacity (or a whole batch was evicted), exactly the shortest LRU prefix covering the excess created by the update being gone (s_update_sync_outcome)." + TIE)
PROPS_ALL["C12"] = cache_prop(
    "C12", "Coq proof (loop invariants of evict_lru_entries / admit on the LRU list; recency characterisation of every operation) + lock-step correspondence on deque order + LRU-prefix oracle",
    "Theorems for the single-threaded cache model, all well-formed states, capacities and weights (incl. 0): size eviction removes a prefix of the LRU order, the shortest covering the excess (or a whole batch); admission victims are the shortest LRU prefix reaching the newcomer's weight; insert, update and successful get move the key to the MRU end and nothing else reorders (maintenance, contains_key, invalidation keep the relative order). Concurrent cache with maintenance after every op: the size eviction of a maintenance run on a quiescent state removes the shortest LRU prefix covering the excess (s_evict_lru_prefix) and the admission victims of a pending fresh insert are the shortest LRU prefix reaching its weight (s_pending_insert_outcome). The order itself is the order in which maintenance applies the recorded reads and writes (Sync/SRecency.v): an applied hit and an applied update of an admitted entry move its key to the MRU end and change nothing else (s_pending_hit_outcome, s_pending_update_outcome); a recorded miss or a hit of a not yet admitted entry leaves the order alone; for any number of queued reads the node order afterwards is the fold of move-to-MRU over the hits of admitted entries in queue order (apply_reads_recency). OPERATION LEVEL (Sync/SEndToEnd.v, both housekeeping regimes, no expiry configured): the operation and the maintenance run after it, composed and stated on the quiescent state before the operation - s_insert_sync_outcome (fresh insert; sync: no capacity / fits / oversized / TinyLFU admitted with exactly the shortest LRU prefix evicted / rejected with nothing touched, the estimates being those before the insert), s_get_sync_outcome and s_miss_sync_outcome (a hit moves the key to the MRU end and changes nothing else; a miss changes nothing), s_update_sync_outcome (the updated key moves to the MRU end with its new weight and the shortest LRU prefix covering the excess is evicted)." + TIE)
PROPS_ALL["C13"] = cache_prop(
    "C13", "Coq proof (admit loop = declarative TinyLFU rule on the LRU triples, early exit shown irrelevant) + lock-step correspondence incl. sketch words + prediction oracle from the implementation's own estimates",
    "Theorem for the single-threaded cache model, all well-formed states/configurations/hashers: a new key that does not fit (and is not oversized) is admitted iff the shortest LRU prefix with weight >= its own exists and its estimate is strictly greater than the summed estimates of that prefix; if admitted exactly that prefix is evicted, otherwise no resident is touched; an oversized newcomer is rejected without touching anything. Scan resistance and 'popular newcomer gets in' are instances. Concurrent cache with maintenance after every op: the same statement for the pending write op of a fresh insert applied by the next maintenance run (s_pending_insert_outcome: no capacity / fits / oversized / TinyLFU admitted with exactly the prefix evicted / rejected with no resident touched). OPERATION LEVEL (Sync/SEndToEnd.v, both housekeeping regimes, no expiry configured): the operation and the maintenance run after it, composed and stated on the quiescent state before the operation - s_insert_sync_outcome (fresh insert; sync: no capacity / fits / oversized / TinyLFU admitted with exactly the shortest LRU prefix evicted / rejected with nothing touched, the estimates being those before the insert), s_get_sync_outcome and s_miss_sync_outcome (a hit moves the key to the MRU end and changes nothing else; a miss changes nothing), s_update_sync_outcome (the updated key moves to the MRU end with its new weight and the shortest LRU prefix covering the excess is evicted)." + TIE)

PROPS_ALL["C09"] = dict(cache_prop(
    "C09", "Coq proof (sequential: every step of the concurrent-cache model returns Ok, fuel of the retry loop never exhausted; concurrent: invariants, deadlock freedom and fair termination of an abstract housekeeper/channel/mutex protocol model, all interleavings) + controlled-scheduler exploration with termination oracle and acceptance of flag/lock traces + single-thread bursts",
    "Theorems: (sequential regime, Sync/SInvTop.v) every operation of every history of the concurrent-cache model returns Ok, for any number of inserts without sync() in both housekeeping regimes (the retry loop of schedule_write_op, modelled on explicit fuel, never runs out; the queues stay within their flush points; a maintenance run drains both queues); (Conc/HK.v, any number of threads, all interleavings) the housekeeper flag is held exactly between the successful CAS and the releasing store, the mutex by exactly the thread inside sync, no reachable state is deadlocked, a finishing schedule exists from every reachable state, and under every fair scheduler all threads finish with flag and lock released. PARTIAL (runtime behaviour the model cannot exhibit): OS fairness, the 50 us sleep, DashMap/crossbeam internals; tie: every run explores small concurrent programs on the real cache under the controlled scheduler (termination oracle with a step budget; a thread blocking forever on a real lock is a hang reported with the program+schedule as replay), the flag/lock action traces must be accepted by the extracted hk_accepts_quiescent, single-thread bursts of 400-1100 un-synced operations in both regimes run in lock-step with the model, and every harness operation runs under a watchdog (a hang is reported as CRASH hang for that operation).",
    note_extra=NOTE_CONC), module="p_conc")

# Only properties whose whole pipeline is in place are claimed in MANIFEST.json.
CLAIMED = ["C14", "C01", "C05", "C06", "C07", "C16", "C08", "C10", "C11", "C17", "C15", "C02", "C03", "C04", "C12", "C13", "C09"]
PROPS = {k: v for k, v in PROPS_ALL.items() if k in CLAIMED}
