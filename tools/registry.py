"""Property registry: which Coq file states the property, which python module
runs its correspondence check and oracle, and the trusted base / assumptions that go
into the evidence."""

TB_COMMON = [
    "Coq 8.16.1 kernel (coqc, full .vo build); vm_compute used in Example/constant-fact proofs; native_compute not used",
    "axioms: none (every property theorem is `Closed under the global context`, audited on every run)",
    "extraction: Require Import ExtrOcamlBasic only (bool/option/unit/list/prod/sumbool mapped to OCaml's); no Extract Constant / Extract Inductive of our own; N/positive stay inductive; OCaml driver extract/driver.ml parses histories and prints traces",
    "correspondence check (differential testing, not proof): Rust harness built from /repo with --cfg mini_moka_verif, cfg-guarded snapshot hooks inside /repo, canonicalisation, tools/*.py generators and comparison",
    "constant translator tools/gen_consts.py (regenerates Gen/Consts.v from the Rust sources each run)",
    "modelled, not verified: the Rust semantics of the source (hand transcription into Gallina), std HashMap, dashmap, crossbeam-channel, std sync primitives under sequential consistency, Rc/Arc/triomphe::Arc/Box/tagptr, std::time::Instant",
]

HOOK_COMMITS = ["3635e1b", "c1db4d1"]

# properties deliberately not claimed (none so far: everything else is "not yet built")
NOT_APPLICABLE = {}

PROPS_ALL = {
    "C14": {
        "prop_file": "theories/Properties/C14.v",
        "module": "p_sketch",
        "technique": "Coq proof (induction over increment sequences, bit-level refinement) + lock-step correspondence on raw sketch words",
        "level_text": "Theorems in Coq about a bit-level Gallina model of FrequencySketch for all capacities, all hash sequences and all interleavings with aging steps (bounded by 15, never underestimates the saturating/halved reference count, exact without collision, monotone except aging, aging halves every estimate, no overflow/out-of-bounds); the model is tied to the code by running the extracted model and the real FrequencySketch (through a cfg-guarded facade) on the same operation sequences and comparing every table word, size, sample size and mask after every operation, and by regenerating SEED/RESET_MASK/ONE_MASK and the capacity clamps from the Rust source on every run.",
        "level_note": "Trusted: Coq kernel; extraction (ExtrOcamlBasic) and the OCaml driver; the harness/facade/compare scripts (differential testing over sampled sequences, measured in the evidence); constants translator. Hypothesis: table shorter than 2^28 words for the no-overflow clause. The cache-level clause (only get records) is covered by the cache models (C14 is extended when they land).",
        "trusted_base": TB_COMMON,
        "assumptions": [
            "hash values are arbitrary u64 (the hasher is any pure function)",
            "sketch table shorter than 2^28 words for the no-overflow clause (u32 odd-counter accumulator in reset)",
            "64-bit target (cfg!(target_pointer_width) branch of ensure_capacity)",
        ],
    },
}

# Only properties whose whole pipeline is in place are claimed in MANIFEST.json.
CLAIMED = ["C14"]
PROPS = {k: v for k, v in PROPS_ALL.items() if k in CLAIMED}
