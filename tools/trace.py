"""Parsing of trace lines / snapshots printed by the harness and the model driver."""
import re


def _kv(state):
    """'a=1 b=[..] c=x' -> dict (values are raw strings; bracketed values keep brackets)."""
    d = {}
    for m in re.finditer(r"(\w+)=(\[[^\]]*\]|\S+)", state):
        d[m.group(1)] = m.group(2)
    return d


def _list(v):
    v = v.strip()
    assert v.startswith("[") and v.endswith("]"), v
    body = v[1:-1]
    return [x for x in body.split(",") if x] if body else []


def _ts(x):
    return None if x == "-" else int(x)


class USnap:
    """unsync snapshot: ec ws skon map=[k:v:w:ao:wo] prob=[k:h:ts] wo=[k:ts] sk=.. walk=.. live=K:V"""

    def __init__(self, state):
        d = _kv(state)
        self.raw = d
        self.ec = int(d["ec"])
        self.ws = int(d["ws"])
        self.skon = d["skon"] == "1"
        self.map = {}
        for e in _list(d["map"]):
            k, v, w, ao, wo = e.split(":")
            self.map[int(k)] = {"v": int(v), "w": int(w), "ao": ao, "wo": wo}
        self.prob = [(int(k), int(h), _ts(t)) for k, h, t in (e.split(":") for e in _list(d["prob"]))]
        self.wo = [(int(k), _ts(t)) for k, t in (e.split(":") for e in _list(d["wo"]))]
        self.sk = d.get("sk", "")
        self.walk = d.get("walk", "ok")
        self.live = tuple(int(x) for x in d["live"].split(":")) if "live" in d else None
        # timestamps per key through the node pointers
        for k, e in self.map.items():
            e["la"] = self.prob[int(e["ao"])][2] if e["ao"].isdigit() and int(e["ao"]) < len(self.prob) else None
            e["lm"] = self.wo[int(e["wo"])][1] if e["wo"].isdigit() and int(e["wo"]) < len(self.wo) else None


class SSnap:
    """sync snapshot: ec ws skon va rq wq sa run map=[k:v:w:la:lm:adm:dirty:ao:wo:ic] prob=[k:h:ic] wo=[k:ic] sk walk live"""

    def __init__(self, state):
        d = _kv(state)
        self.raw = d
        self.ec = int(d["ec"])
        self.ws = int(d["ws"])
        self.skon = d["skon"] == "1"
        self.va = _ts(d["va"])
        self.rq = int(d["rq"])
        self.wq = int(d["wq"])
        self.sa = _ts(d["sa"])
        self.map = {}
        for e in _list(d["map"]):
            k, v, w, la, lm, adm, dirty, ao, wo, ic = e.split(":")
            self.map[int(k)] = {"v": int(v), "w": int(w), "la": int(la), "lm": int(lm), "adm": adm == "1",
                                "dirty": dirty == "1", "ao": ao, "wo": wo, "ic": int(ic)}
        self.prob = [(int(k), int(h), int(ic)) for k, h, ic in (e.split(":") for e in _list(d["prob"]))]
        self.wo = [(int(k), int(ic)) for k, ic in (e.split(":") for e in _list(d["wo"]))]
        self.sk = d.get("sk", "")
        self.walk = d.get("walk", "ok")
        self.live = int(d["live"]) if "live" in d and ":" not in d["live"] else None


def parse_cfg(line):
    d = dict(t.split("=", 1) for t in line.split()[1:])
    out = {"kind": d.get("kind")}
    for k in ("cap", "ttl", "tti"):
        v = d.get(k, "none")
        out[k] = None if v == "none" else int(v)
    out["weigher"] = d.get("weigher", "none")
    out["hasher"] = d.get("hasher", "id")
    return out


def weigh(cfg, k, v):
    if cfg["weigher"] == "none":
        return 1
    if cfg["weigher"] == "value":
        return v % (1 << 32)
    return (k + v) % (1 << 32)


def hash_of(cfg, k):
    h = cfg["hasher"].split(":")
    if h[0] == "id":
        return k
    if h[0] == "mod":
        return 0 if int(h[1]) == 0 else k % int(h[1])
    if h[0] == "const":
        return int(h[1])
    if h[0] == "mul":
        return (k * int(h[1])) % (1 << 64)
    raise ValueError(cfg["hasher"])


def pred_of(toks):
    if toks[0] == "all":
        return lambda k, v: True
    if toks[0] == "kmod":
        m, r = int(toks[1]), int(toks[2])
        return lambda k, v: m != 0 and k % m == r
    if toks[0] == "vlt":
        x = int(toks[1])
        return lambda k, v: v < x
    raise ValueError(toks)


def parse_pairs(out):
    return [tuple(int(x) for x in e.split(":")) for e in _list(out)]
