"""Shared machinery of the check driver: paths, builds (Coq, extraction, harness),
audit of the Coq development, running cases through implementation and model,
comparison, shrinking, evidence and verdicts."""
import fcntl, hashlib, json, os, re, shutil, subprocess, sys, time

ROOT = os.path.normpath(os.path.join(os.path.dirname(os.path.abspath(__file__)), ".."))
REPO = os.environ.get("VERIF_REPO", "/repo")
COQ = os.path.join(ROOT, "coq")
EXTRACT = os.path.join(ROOT, "extract")
HARNESS = os.path.join(ROOT, "harness")
WORK = os.path.join(ROOT, "work")
EVIDENCE = os.path.join(ROOT, "evidence")
CORPUS = os.path.join(ROOT, "corpus")
MODEL_BIN = os.path.join(EXTRACT, "model_driver")
HARNESS_BIN = os.path.join(HARNESS, "target", "debug", "verif-harness")
NPROC = os.cpu_count() or 4

ENV = dict(os.environ)
ENV.update({"CARGO_NET_OFFLINE": "true", "CARGO_TERM_COLOR": "never"})

FORBIDDEN = re.compile(
    r"\b(Admitted|admit|Axiom|Axioms|Parameter|Parameters|Conjecture|Abort All|"
    r"Unset\s+Guard\s+Checking|Unset\s+Positivity\s+Checking|Unset\s+Universe\s+Checking|"
    r"bypass_check|Admit\s+Obligations|native_compute)\b")
# stdlib-declared axioms that would be tolerated if they ever appeared (none expected)
AXIOM_ALLOWLIST = set()


class Broken(Exception):
    """A tie or proof obligation that no longer checks: (what, detail)."""

    def __init__(self, what, detail=""):
        super().__init__(what)
        self.what = what
        self.detail = detail


def log(*a):
    print(*a, flush=True)


def run(cmd, cwd=None, timeout=None, env=None, input=None):
    p = subprocess.run(cmd, cwd=cwd, env=env or ENV, timeout=timeout, input=input,
                       stdout=subprocess.PIPE, stderr=subprocess.STDOUT, text=True)
    out = "\n".join(l for l in p.stdout.splitlines() if "WARNING conda" not in l)
    return p.returncode, out


class Lock:
    def __init__(self, name="build"):
        os.makedirs(WORK, exist_ok=True)
        self.path = os.path.join(WORK, f".{name}.lock")

    def __enter__(self):
        self.f = open(self.path, "w")
        fcntl.flock(self.f, fcntl.LOCK_EX)
        return self

    def __exit__(self, *a):
        fcntl.flock(self.f, fcntl.LOCK_UN)
        self.f.close()


# --------------------------------------------------------------------------- Coq
def coq_files():
    files = []
    with open(os.path.join(COQ, "_CoqProject")) as f:
        for l in f:
            l = l.strip()
            if l.endswith(".v"):
                files.append(l)
    return files


def gen_consts():
    rc, out = run([sys.executable, os.path.join(ROOT, "tools", "gen_consts.py")])
    if rc != 0:
        raise Broken("constant-translator", out.strip())


def coq_build(targets=None, timeout=3000):
    """Full .vo build (incremental) of the given targets (default: everything).
    Returns (ok, output)."""
    with Lock("coq"):
        if not os.path.exists(os.path.join(COQ, "Makefile")) or \
                os.path.getmtime(os.path.join(COQ, "Makefile")) < os.path.getmtime(os.path.join(COQ, "_CoqProject")):
            rc, out = run(["coq_makefile", "-f", "_CoqProject", "-o", "Makefile"], cwd=COQ)
            if rc != 0:
                return False, out
        cmd = ["timeout", str(timeout), "make", f"-j{NPROC}", "-k"]
        if targets:
            cmd += [t[:-2] + ".vo" for t in targets]
        rc, out = run(cmd, cwd=COQ, timeout=timeout + 60)
        return rc == 0, out


def coq_cone(vfile):
    """Transitive project-local dependencies (as .v paths relative to coq/) of a file."""
    rc, out = run(["coqdep", "-Q", "theories", "MM"] + coq_files(), cwd=COQ)
    deps = {}
    for l in out.splitlines():
        if ":" not in l:
            continue
        lhs, rhs = l.split(":", 1)
        tgt = [t for t in lhs.split() if t.endswith(".vo")]
        if not tgt:
            continue
        src = tgt[0][:-1]
        deps[src] = [d[:-1] for d in rhs.split() if d.endswith(".vo")]
    seen, todo = set(), [vfile]
    while todo:
        f = todo.pop()
        if f in seen:
            continue
        seen.add(f)
        todo += deps.get(f, [])
    return sorted(seen)


PROOF_START = re.compile(r"^\s*(?:#\[[^\]]*\]\s*)?(?:Local\s+|Global\s+)?(Theorem|Lemma|Corollary|Proposition|Fact|Remark|Example|Instance)\s+([\w']+)", re.M)


def count_obligations(files):
    n = 0
    names = []
    for f in files:
        with open(os.path.join(COQ, f)) as fh:
            src = strip_comments(fh.read())
        for m in PROOF_START.finditer(src):
            n += 1
            names.append(m.group(2))
    return n, names


def strip_comments(src):
    out, depth, i = [], 0, 0
    while i < len(src):
        if src.startswith("(*", i):
            depth += 1
            i += 2
        elif src.startswith("*)", i) and depth > 0:
            depth -= 1
            i += 2
        else:
            if depth == 0:
                out.append(src[i])
            i += 1
    return "".join(out)


def audit(prop_file):
    """Audit the cone of a property file: forbidden vernacular, statement pins present,
    `Print Assumptions` of every theorem of the property file closed (or allow-listed).
    Returns dict(theorems=[...], assumptions={name: text}, obligations=n, cone=[...])."""
    cone = coq_cone(prop_file)
    for f in cone + ["../extract/Extract.v"]:
        path = os.path.normpath(os.path.join(COQ, f))
        with open(path) as fh:
            src = strip_comments(fh.read())
        m = FORBIDDEN.search(src)
        if m:
            raise Broken("audit", f"forbidden vernacular `{m.group(0)}` in {f}")
        if re.search(r"^\s*(Variable|Variables|Hypothesis|Hypotheses|Context)\b", src, re.M):
            # only allowed inside sections
            depth = 0
            for line in src.splitlines():
                if re.match(r"\s*Section\s+\w+", line):
                    depth += 1
                elif re.match(r"\s*End\s+\w+", line):
                    depth = max(0, depth - 1)
                elif re.match(r"\s*(Variable|Variables|Hypothesis|Hypotheses|Context)\b", line) and depth == 0:
                    raise Broken("audit", f"Variable/Hypothesis outside a section in {f}: {line.strip()}")
    with open(os.path.join(COQ, prop_file)) as fh:
        psrc = strip_comments(fh.read())
    theorems = re.findall(r"^\s*Theorem\s+([\w']+)", psrc, re.M)
    if not theorems:
        raise Broken("audit", f"no theorem in {prop_file}")
    for t in theorems:
        if not re.search(r"Print\s+Assumptions\s+" + re.escape(t) + r"\s*\.", psrc):
            raise Broken("audit", f"no `Print Assumptions {t}` in {prop_file}")
    mod = "MM." + prop_file[len("theories/"):-2].replace("/", ".")
    os.makedirs(WORK, exist_ok=True)
    tag = hashlib.sha1(prop_file.encode()).hexdigest()[:8]
    afile = os.path.join(WORK, f"Audit_{tag}.v")
    with open(afile, "w") as fh:
        fh.write(f"Require Import {mod}.\n")
        for t in theorems:
            fh.write(f'Goal True. idtac "@@BEGIN {t}". Abort.\nPrint Assumptions {t}.\n')
        fh.write('Goal True. idtac "@@END". Abort.\n')
    rc, out = run(["timeout", "300", "coqc", "-Q", os.path.join(COQ, "theories"), "MM", afile], cwd=WORK)
    for ext in (".vo", ".vok", ".vos", ".glob"):
        try:
            os.remove(afile[:-2] + ext)
        except OSError:
            pass
    if rc != 0:
        raise Broken("audit", "Print Assumptions run failed:\n" + out[-2000:])
    assumptions = {}
    cur = None
    for line in out.splitlines():
        if line.startswith("@@BEGIN "):
            cur = line.split()[1]
            assumptions[cur] = []
        elif line.startswith("@@END"):
            cur = None
        elif cur is not None:
            assumptions[cur].append(line)
    res = {}
    for t in theorems:
        text = "\n".join(assumptions.get(t, [])).strip()
        if "Closed under the global context" in text:
            res[t] = "Closed under the global context"
        else:
            axioms = [l.split(":")[0].strip() for l in text.splitlines()
                      if ":" in l and not l.startswith(" ") and l.strip() != "Axioms:"]
            bad = [a for a in axioms if a not in AXIOM_ALLOWLIST]
            if bad or not axioms:
                raise Broken("audit", f"theorem {t} depends on non-allow-listed axioms: {text[:500]}")
            res[t] = "axioms: " + ", ".join(axioms)
    n, _ = count_obligations(cone)
    return {"theorems": theorems, "assumptions": res, "obligations": n, "cone": cone}


# --------------------------------------------------------------------- extraction
def extract_build():
    """(Re)build the extracted OCaml model driver when a model .vo is newer."""
    with Lock("extract"):
        srcs = [os.path.join(EXTRACT, "Extract.v"), os.path.join(EXTRACT, "driver.ml")]
        rc, out = run(["coqdep", "-Q", os.path.join(COQ, "theories"), "MM", "Extract.v"], cwd=EXTRACT)
        vos = re.findall(r"(\S+\.vo)", out.split(":", 1)[1] if ":" in out else "")
        vos = [os.path.normpath(os.path.join(EXTRACT, v)) for v in vos if "Extract.vo" not in v]
        newest = max([os.path.getmtime(p) for p in srcs + vos if os.path.exists(p)] + [0])
        if os.path.exists(MODEL_BIN) and os.path.getmtime(MODEL_BIN) >= newest:
            return
        rc, out = run(["timeout", "900", "coqc", "-Q", os.path.join(COQ, "theories"), "MM", "Extract.v"], cwd=EXTRACT)
        if rc != 0:
            raise Broken("extraction", out[-3000:])
        rc, out = run(["ocamlfind", "ocamlopt", "-O2", "-w", "-a", "model.mli", "model.ml", "driver.ml",
                       "-o", "model_driver"], cwd=EXTRACT, timeout=900)
        if rc != 0:
            raise Broken("extraction-ocaml", out[-3000:])


# ------------------------------------------------------------------------ harness
def harness_build():
    with Lock("harness"):
        lock_src = os.path.join(REPO, "Cargo.lock")
        if os.path.exists(lock_src):
            shutil.copyfile(lock_src, os.path.join(HARNESS, "Cargo.lock"))
        rc, out = run(["cargo", "build", "--offline"], cwd=HARNESS, timeout=1800)
        if rc != 0:
            raise Broken("harness-build", out[-4000:])


def repo_fingerprint():
    h = hashlib.sha1()
    for base, dirs, files in os.walk(os.path.join(REPO, "src")):
        dirs.sort()
        for f in sorted(files):
            p = os.path.join(base, f)
            h.update(p.encode())
            with open(p, "rb") as fh:
                h.update(fh.read())
    return h.hexdigest()[:16]


# ---------------------------------------------------------------- running cases
def write_cases(path, cases):
    """cases: list of (name, [lines]) where lines[0] is the cfg line."""
    with open(path, "w") as f:
        for name, lines in cases:
            f.write(f"case {name}\n")
            for l in lines:
                f.write(l + "\n")


def parse_traces(text):
    traces, cur = {}, None
    for line in text.splitlines():
        if line.startswith("case "):
            cur = line[5:].strip()
            traces[cur] = []
        elif cur is not None and line.strip():
            traces[cur].append(line)
    return traces


def _run_sharded(binary, cases, tag, shards, timeout):
    os.makedirs(WORK, exist_ok=True)
    shards = max(1, min(shards, len(cases)))
    procs = []
    for i in range(shards):
        part = cases[i::shards]
        p = os.path.join(WORK, f"cases_{tag}_{os.getpid()}_{i}.txt")
        write_cases(p, part)
        procs.append((p, subprocess.Popen([binary, p], stdout=subprocess.PIPE, stderr=subprocess.PIPE, text=True, env=ENV)))
    traces = {}
    crashed = []
    for p, pr in procs:
        try:
            out, err = pr.communicate(timeout=timeout)
        except subprocess.TimeoutExpired:
            pr.kill()
            out, err = pr.communicate()
            crashed.append((p, "timeout", err[-500:]))
        else:
            if pr.returncode != 0:
                crashed.append((p, f"exit {pr.returncode}", err[-500:]))
        traces.update(parse_traces(out))
        if not any(c[0] == p for c in crashed):
            os.remove(p)
    return traces, crashed


def run_impl(cases, shards=NPROC, timeout=600):
    """Runs cases on the implementation. A crash (abort/segfault/hang) of a shard is
    re-run case by case so that it is attributed to a single case."""
    traces, crashed = _run_sharded(HARNESS_BIN, cases, "impl", shards, timeout)
    if crashed:
        done = set(traces.keys())
        bycase = dict(cases)
        for p, why, err in crashed:
            with open(p) as f:
                names = [l[5:].strip() for l in f if l.startswith("case ")]
            os.remove(p)
            for n in names:
                t, c = _run_sharded(HARNESS_BIN, [(n, bycase[n])], "impl1", 1, min(timeout, 120))
                tr = t.get(n, [])
                if c:
                    tr = tr + [f"{len(tr)} ? -> CRASH {c[0][1]} {c[0][2].strip().splitlines()[-1] if c[0][2].strip() else ''}"]
                    try:
                        os.remove(c[0][0])
                    except OSError:
                        pass
                traces[n] = tr
    return traces


def run_model(cases, shards=NPROC, timeout=900):
    traces, crashed = _run_sharded(MODEL_BIN, cases, "model", shards, timeout)
    if crashed:
        for p, why, err in crashed:
            try:
                os.remove(p)
            except OSError:
                pass
        raise Broken("model-driver", f"extracted model driver failed: {crashed[0][1]} {crashed[0][2]}")
    return traces


def split_line(line):
    """'<idx> <op...> -> <out> | <state>' -> (op, out, state)"""
    head, _, rest = line.partition(" -> ")
    op = head.split(" ", 1)[1] if " " in head else ""
    out, _, state = rest.partition(" | ")
    return op, out.strip(), state.strip()


def norm_err(out):
    """Implementation errors carry the panic message in brackets; compare classes only."""
    if out.startswith("ERR "):
        return " ".join(out.split()[:2])
    return out


def first_disagreement(impl, model, project=None):
    """Index and pair of the first differing line, or None. `project` maps a state
    string to the slice that is compared (default: everything)."""
    for i in range(max(len(impl), len(model))):
        a = impl[i] if i < len(impl) else "<missing>"
        b = model[i] if i < len(model) else "<missing>"
        if a == b:
            continue
        if a != "<missing>" and b != "<missing>":
            oa, outa, sa = split_line(a)
            ob, outb, sb = split_line(b)
            sa = re.sub(r" lk=\d+", "", sa)      # live key objects: measured on the implementation only
            if project is not None:
                sa, sb = project(sa), project(sb)
            if oa == ob and norm_err(outa) == norm_err(outb) and (sa == sb or outa.startswith("ERR")):
                continue
        return i, a, b
    return None


# ------------------------------------------------------------------- shrinking
def shrink(lines, still_fails, budget=150):
    """Delta debugging on the operation lines (lines[0] = cfg line is kept)."""
    cfg, ops = lines[0], list(lines[1:])
    n = 2
    calls = 0
    while len(ops) >= 2 and calls < budget:
        chunk = max(1, len(ops) // n)
        reduced = False
        for i in range(0, len(ops), chunk):
            cand = ops[:i] + ops[i + chunk:]
            calls += 1
            if cand and still_fails([cfg] + cand):
                ops = cand
                n = max(n - 1, 2)
                reduced = True
                break
            if calls >= budget:
                break
        if not reduced:
            if chunk == 1:
                break
            n = min(len(ops), n * 2)
    return [cfg] + ops


# -------------------------------------------------------------------- evidence
def write_evidence(pid, tier, seed, coverage, wall, violations, assumptions):
    os.makedirs(EVIDENCE, exist_ok=True)
    ev = {
        "property_id": pid,
        "tier": tier,
        "seed": seed,
        "level": "proof",
        "coverage": coverage,
        "assumptions": assumptions,
        "wall_s": round(wall, 2),
        "violations": violations,
    }
    with open(os.path.join(EVIDENCE, f"{pid}.json"), "w") as f:
        json.dump(ev, f, indent=1)


def save_replay(pid, name, lines, note=None):
    d = os.path.join(WORK, "replays")
    os.makedirs(d, exist_ok=True)
    p = os.path.join(d, f"{pid}_{name}.hist")
    with open(p, "w") as f:
        if note:
            for l in note.splitlines():
                f.write("# " + l + "\n")
        f.write(f"case {name}\n")
        for l in lines:
            f.write(l + "\n")
    return p


def load_known_findings():
    p = os.path.join(ROOT, "known_findings.json")
    if not os.path.exists(p):
        return {"open": [], "fixed": []}
    with open(p) as f:
        return json.load(f)


def load_corpus(kind):
    """Corpus cases (minimised failures, witnesses of fixed findings) of one kind; run first."""
    cases = []
    d = os.path.join(CORPUS, kind)
    if not os.path.isdir(d):
        return cases
    for fn in sorted(os.listdir(d)):
        if not fn.endswith(".hist"):
            continue
        with open(os.path.join(d, fn)) as f:
            lines = [l.strip() for l in f if l.strip() and not l.startswith("#") and not l.startswith("case ")]
        cases.append(("corpus_" + fn[:-5], lines))
    return cases


# ------------------------------------------------------------ thorough-tier supports
def coqchk(prop_file, timeout=3000):
    """Independent re-check of the compiled property file and everything it depends on
    (coqchk -o): returns the context summary; raises Broken if it reports axioms, type-in-type,
    unsafe fixpoints or assumed positivity."""
    mod = "MM." + prop_file[len("theories/"):-2].replace("/", ".")
    rc, out = run(["timeout", str(timeout), "coqchk", "-o", "-silent", "-Q", "theories", "MM", mod], cwd=COQ, timeout=timeout + 60)
    summary = out[out.find("CONTEXT SUMMARY"):] if "CONTEXT SUMMARY" in out else out[-1500:]
    if rc != 0:
        raise Broken("coqchk", f"coqchk failed on {mod}: {out[-1500:]}")
    bad = []
    for key in ("Axioms", "Constants/Inductives relying on type-in-type", "Constants/Inductives relying on unsafe (co)fixpoints",
                "Inductives whose positivity is assumed"):
        m = re.search(re.escape("* " + key) + r":\s*(.*?)(?:\n\s*\n|\Z)", summary, re.S)
        if not m or m.group(1).strip() != "<none>":
            bad.append(f"{key}: {(m.group(1).strip() if m else '?')[:300]}")
    if bad:
        raise Broken("coqchk", f"{mod}: " + "; ".join(bad))
    return " ".join(summary.split())[:600]


def miri_support(cases, timeout=2400):
    """Supporting, never deciding: runs a few short histories of the harness under Miri (real
    implementation, interpreted with aliasing / use-after-free / data-race detection).
    Returns (number of cases run, None | (case name, message))."""
    os.makedirs(WORK, exist_ok=True)
    path = os.path.join(WORK, f"miri_cases_{os.getpid()}.txt")
    write_cases(path, cases)
    env = dict(ENV)
    env["MIRIFLAGS"] = "-Zmiri-disable-isolation -Zmiri-ignore-leaks"
    env["VERIF_OP_TIMEOUT"] = "900"
    try:
        p = subprocess.run(["cargo", "+nightly", "miri", "run", "--offline", "--", path], cwd=HARNESS, env=env,
                           stdout=subprocess.PIPE, stderr=subprocess.PIPE, text=True, timeout=timeout)
    except subprocess.TimeoutExpired:
        os.remove(path)
        return 0, None
    os.remove(path)
    traces = parse_traces(p.stdout)
    if "Undefined Behavior" in p.stderr or "error: unsupported operation" in p.stderr or (p.returncode != 0 and "error" in p.stderr):
        last = list(traces.keys())[-1] if traces else "?"
        m = re.search(r"error: (Undefined Behavior[^\n]*(?:\n[^\n]*){0,6})", p.stderr)
        return len(traces), (last, (m.group(1) if m else p.stderr[-600:]).strip())
    return len(traces), None
