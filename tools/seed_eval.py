#!/usr/bin/env python3
"""Evaluate a seeded change produced by a sub-agent.
  seed_eval.py <outdir with patch.diff, demo.diff, meta.json> <name> [--checks C01,C03,...]
1. confirms in a scratch worktree (outside /repo and /verif) that the patch applies, the 35 tests pass with it, and the
   demonstration fails with the patch and passes without it;
2. applies the patch to /repo, runs the selected checks (default: all claimed), records which ones report it, undoes it;
3. stores everything under /verif/seeded/<name>/."""
import json, os, shutil, subprocess, sys, time

ROOT = os.path.normpath(os.path.join(os.path.dirname(os.path.abspath(__file__)), ".."))


def sh(cmd, cwd=None, timeout=3000):
    p = subprocess.run(cmd, shell=True, cwd=cwd, stdout=subprocess.PIPE, stderr=subprocess.STDOUT, text=True, timeout=timeout)
    return p.returncode, p.stdout


def main():
    out, name = sys.argv[1], sys.argv[2]
    checks = None
    if "--checks" in sys.argv:
        checks = sys.argv[sys.argv.index("--checks") + 1].split(",")
    meta = json.load(open(os.path.join(out, "meta.json")))
    if "breaks" in meta and "property" not in meta:      # re-evaluation from /verif/seeded/<name>
        meta = {"property": meta["breaks"], "summary": meta.get("summary"), "needs": meta.get("needs"),
                "demo_cmd": meta.get("demo_cmd"), "ran": meta.get("agent_ran")}
    wt = f"/tmp/seedchk_{name}"
    sh(f"git -C /repo worktree remove --force {wt}")
    rc, o = sh(f"git -C /repo worktree add -q --detach {wt} HEAD")
    assert rc == 0, o
    report = {"name": name, "meta": meta, "ran": []}
    try:
        demo = meta.get("demo_cmd", "cargo test --offline --lib seeded_demo")
        demo = demo.replace("cd " + meta.get("worktree", "/nonexistent"), "true")
        if "cd /tmp/mut_" in demo:
            demo = demo.split("&&", 1)[1].strip()
        # demo without patch
        rc, o = sh(f"git apply {out}/demo.diff", cwd=wt)
        assert rc == 0, "demo.diff does not apply: " + o
        rc1, o1 = sh(demo + " 2>&1 | tail -15", cwd=wt)
        ok_without = "test result: ok" in o1 and " 0 failed" in o1 and "running 0 tests" not in o1.split("test result")[0][-200:]
        report["ran"].append({"cmd": demo + "   (demo, unmodified tree)", "passes": ok_without, "tail": o1[-400:]})
        # demo with patch
        rc, o = sh(f"git apply {out}/patch.diff", cwd=wt)
        assert rc == 0, "patch.diff does not apply on top of demo: " + o
        rc2, o2 = sh(demo + " 2>&1 | tail -25", cwd=wt)
        fails_with = "FAILED" in o2 or "failed" in o2 and " 0 failed" not in o2 or "timed out" in o2 or rc2 != 0
        report["ran"].append({"cmd": demo + "   (demo, with the change)", "fails": bool(fails_with), "tail": o2[-600:]})
        # existing suite with patch only
        sh("git checkout -- . && git clean -fdq src", cwd=wt)
        rc, o = sh(f"git apply {out}/patch.diff", cwd=wt)
        assert rc == 0, "patch.diff does not apply: " + o
        rc3, o3 = sh("cargo test --offline --lib 2>&1 | grep 'test result'", cwd=wt)
        suite_ok = "35 passed; 0 failed" in o3
        report["ran"].append({"cmd": "cargo test --offline --lib   (existing suite, with the change)", "passes": suite_ok, "tail": o3[-200:]})
        report["confirmed"] = bool(ok_without and fails_with and suite_ok)
    finally:
        sh(f"git -C /repo worktree remove --force {wt}")
    # run our checks against the change
    detected = {}
    if report.get("confirmed"):
        rc, o = sh("git -C /repo status --porcelain")
        assert o.strip() == "", "/repo not clean: " + o
        rc, o = sh(f"git -C /repo apply {out}/patch.diff")
        assert rc == 0, o
        try:
            if checks is None:
                m = json.load(open(os.path.join(ROOT, "MANIFEST.json")))
                checks = [c["property_id"] for c in m["checks"]]
            for pid in checks:
                t0 = time.time()
                rc, o = sh(f"./check {pid} --tier quick", cwd=ROOT)
                vio = [l for l in o.splitlines() if l.startswith("VIOLATION")]
                detected[pid] = {"exit": rc, "line": vio[0] if vio else "", "detail": "\n".join(o.splitlines()[-4:-1])[-500:], "s": round(time.time() - t0)}
                print(pid, rc, vio[0] if vio else "", flush=True)
        finally:
            sh("git -C /repo checkout -- .")
            # the runs above rewrote evidence/<id>.json from the CHANGED tree: put the committed ones back
            sh("git checkout -- " + " ".join(f"evidence/{p}.json" for p in checks), cwd=ROOT)
            rc, o = sh("git -C /repo status --porcelain")
            assert o.strip() == "", "/repo not restored: " + o
    report["checks"] = detected
    report["caught_by"] = [p for p, d in detected.items() if d["exit"] != 0]
    d = os.path.join(ROOT, "seeded", name)
    os.makedirs(d, exist_ok=True)
    # merge with earlier evaluations of the same change (checks are strengthened over time)
    old = {}
    if os.path.exists(os.path.join(d, "meta.json")):
        old = json.load(open(os.path.join(d, "meta.json")))
    merged = dict(old.get("checks_run_against_it", {}))
    merged.update(detected)
    detected = merged
    report["caught_by"] = sorted(p for p, x in detected.items() if x["exit"] == 1)
    missed_first = sorted(set(old.get("missed_at_first_by", [])) | {p for p, x in old.get("checks_run_against_it", {}).items() if x["exit"] == 0})
    for f in ("patch.diff", "demo.diff"):
        if os.path.abspath(out) != os.path.abspath(d):
            shutil.copyfile(os.path.join(out, f), os.path.join(d, f))
    json.dump({"breaks": meta.get("property"), "summary": meta.get("summary"), "needs": meta.get("needs"),
               "demo_cmd": meta.get("demo_cmd"), "agent_ran": meta.get("ran"), "confirmed_by_us": report.get("confirmed"),
               "our_confirmation": report["ran"], "checks_run_against_it": detected, "caught_by": report["caught_by"],
               "missed_at_first_by": missed_first},
              open(os.path.join(d, "meta.json"), "w"), indent=1)
    print(json.dumps({"confirmed": report.get("confirmed"), "caught_by": report["caught_by"]}))


if __name__ == "__main__":
    main()
