"""C02 / C09 (and the concurrent clauses of C03, C04, C07, C08, C10, C11): small concurrent
programs run on the REAL concurrent cache with real threads under the controlled
scheduler (switch points inside /repo), over explicit schedules: exhaustive up to a
preemption bound for tiny programs, randomised beyond.  Oracles: per-key coherence
(interval based, independent of the hooks), monotone reads per single writer, final
state = nothing or a maximal write, termination (no deadlock / livelock), and after
quiescence: counters = physical, structural walker, live objects, refill probe.
The atomic-action traces (map actions at their linearisation steps; flag/lock actions)
are additionally checked for acceptance by the extracted Coq models Conc/Cell.v and
Conc/HK.v."""
import os, random, re, subprocess
import common as C
from trace import SSnap, parse_cfg, parse_pairs


def gen_program(rng, i, profile):
    nth = rng.choice([2, 2, 3, 4]) if profile != "tiny" else 2
    nkeys = rng.choice([1, 1, 2, 3])
    cap = rng.choice(["none", 1, 2, 3, 4])
    ttl = rng.choice(["none", "none", "none", 3_000_000_000])
    tti = rng.choice(["none", "none", "none", 3_000_000_000])
    weigher = rng.choice(["none", "none", "value"])
    if profile == "hot":
        # every thread hammers the same one or two keys with weight-changing updates
        nth, nkeys, weigher, cap = rng.choice([2, 3, 4]), rng.choice([1, 2]), "value", rng.choice(["none", "none", 3000])
    cfg = f"cfg kind=conc cap={cap} ttl={ttl} tti={tti} weigher={weigher} hasher={rng.choice(['id', 'mod:2', 'const:7'])}"
    val = [100]
    lines = [cfg]
    if profile == "invall":
        # an inserting (and maintaining) thread against a thread that invalidates everything and reads;
        # ps = how densely explicit maintenance is sprinkled (0: writes stay pending as long as the cache lets them)
        k = 1
        ps = rng.choice([0.0, 0.0, 0.3, 0.7])
        S = lambda p=1.0: (["S"] if rng.random() < ps * p else [])
        adv = lambda: [f"D {rng.choice([1, 1000, 600_000_000])}"]
        progs = [(adv() if rng.random() < 0.3 else []) + [f"I {k} 101"] + S() + ([f"G {k}"] if rng.random() < 0.4 else [])
                 + ([f"I {k} 102"] if rng.random() < 0.3 else []) + S(0.7),
                 adv() + ([f"G {k}"] if rng.random() < 0.3 else []) + (adv() if rng.random() < 0.4 else []) + ["A"]
                 + S(0.8) + [f"G {k}"] + (S() + [f"G {k}"] if rng.random() < 0.5 else [])
                 + ([f"C {k}"] if rng.random() < 0.3 else [])]
        if rng.random() < 0.3:
            progs.append([f"G {k}"] + S())
        if rng.random() < 0.25:
            # two invalidating threads: one parked between its clock read and its store (D-S5)
            progs = [["A"] + ([f"G {k}"] if rng.random() < 0.3 else []),
                     adv() + [f"I {k} 101"] + adv() + ["A", f"G {k}"]]
        elif rng.random() < 0.35:
            # one thread inserts, invalidates everything at a later reading and looks; the other re-inserts the key
            progs = [[f"I {k} 101"] + S(0.5) + adv() + ["A"] + (adv() if rng.random() < 0.6 else []) + [f"G {k}"],
                     [f"I {k} 102"] + ([f"G {k}"] if rng.random() < 0.3 else [])]
        for t, ops in enumerate(progs):
            lines.append(f"TH {t} " + " ; ".join(ops))
        return lines, len(progs)
    for t in range(nth):
        nops = rng.randrange(1, 4 if profile == "tiny" else 7)
        ops = []
        for _ in range(nops):
            k = rng.randrange(1, nkeys + 1)
            r = rng.random() * (0.6 if profile == "hot" else 1.0)
            if r < 0.42:
                val[0] += 1
                v = val[0] if weigher == "none" else rng.choice([1, 2, 3]) + 10 * val[0]
                if profile == "hot":
                    v = 1000 + val[0] * 10 + rng.randrange(10)
                ops.append(f"I {k} {val[0] if weigher == 'none' else v}")
            elif r < 0.75:
                ops.append(f"G {k}")
            elif r < 0.87:
                ops.append(f"X {k}")
            elif r < 0.93:
                ops.append("S")
            elif r < 0.96:
                ops.append(rng.choice(["T", f"C {k}"]))
            elif r < 0.98 and profile == "robust":
                ops.append("A")
            else:
                ops.append(f"D {rng.choice([1, 600_000_000, 3_000_000_000])}")
        lines.append(f"TH {t} " + " ; ".join(ops))
    return lines, nth


def maint_programs(rng, n):
    """Two-thread programs whose first thread ends in a maintenance run that has something to remove or admit, so
    that the second thread's operations can land inside the check-then-act windows of that run (extended switch
    points, `ext=1`): expiry sweep vs. invalidate / re-insert / update, admission vs. invalidate, eviction vs. update."""
    out = []
    for _ in range(n):
        shape = rng.choice(["expire", "expire", "admit", "evict"])
        k = 1
        other = rng.choice([[f"X {k}", f"I {k} 102"], [f"I {k} 102"], [f"X {k}"], [f"G {k}", f"I {k} 102"], [f"X {k}", f"I {k} 102", f"G {k}"]])
        if shape == "expire":
            d = 3_000_000_000
            mode = rng.choice(["ttl", "tti", "both"])
            cfg = (f"cfg kind=conc cap=none ttl={d if mode != 'tti' else 'none'} tti={d if mode != 'ttl' else 'none'} "
                   f"weigher=none hasher=id ext=1")
            t0 = [f"I {k} 101", "S", f"D {d + rng.choice([0, 1])}", "S"] + ([f"G {k}"] if rng.random() < 0.4 else [])
        elif shape == "admit":
            cfg = f"cfg kind=conc cap={rng.choice(['none', 2])} ttl=none tti=none weigher={rng.choice(['none', 'value'])} hasher=id ext=1"
            t0 = ([f"D 600000000"] if rng.random() < 0.5 else []) + [f"I {k} 101", "S"] + ([f"G {k}"] if rng.random() < 0.4 else [])
        else:
            cfg = f"cfg kind=conc cap=1 ttl=none tti=none weigher=none hasher=id ext=1"
            t0 = [f"I {k} 101", "S", "G 2", "S", "G 2", "S", "I 2 201", "S"] + ([f"G {k}"] if rng.random() < 0.4 else [])
        out.append(([cfg, "TH 0 " + " ; ".join(t0), "TH 1 " + " ; ".join(other)], 2))
    return out


def with_schedule(lines, sched, name):
    return (name, lines + ["SCHED " + " ".join(sched)] if sched else lines + [], )


def random_schedule(rng, nth, n=400):
    out, cur = [], rng.randrange(nth)
    p = rng.choice([0.05, 0.15, 0.4])
    for _ in range(n):
        if rng.random() < p:
            cur = rng.randrange(nth)
        out.append(str(cur))
    return out


# ----------------------------------------------------------------------------- parsing
OPRE = re.compile(r"op t(\d+) (\d+) (.*?) -> (\S+) start=(\d+) end=(\d+) lin=(\S+)(?: now=(\d+):(\d+))?")


def parse_run(trace):
    """trace: output lines of one conc case."""
    ops, events, final, probe, dropped, done = [], [], None, None, None, None
    for l in trace:
        m = OPRE.match(l)
        if m:
            ops.append({"t": int(m.group(1)), "i": int(m.group(2)), "op": m.group(3).split(), "res": m.group(4),
                        "start": int(m.group(5)), "end": int(m.group(6)), "lin": None if m.group(7) == "-" else int(m.group(7)),
                        "now0": int(m.group(8)) if m.group(8) else None, "now1": int(m.group(9)) if m.group(9) else None})
        elif l.startswith("ev "):
            _, step, t, site = l.split()
            events.append((int(step), int(t[1:]), site))
        elif l.startswith("final "):
            final = l[6:]
        elif l.startswith("probe "):
            probe = l[6:]
        elif l.startswith("dropped "):
            dropped = l
        elif l.startswith("done "):
            done = l
    return {"ops": ops, "events": events, "final": final, "probe": probe, "dropped": dropped, "done": done}


# ----------------------------------------------------------------------------- oracles
def program_ops(lines):
    n = 0
    for l in lines:
        if l.startswith("TH "):
            n += len([x for x in l.split(" ", 2)[2].split(";") if x.strip()])
    return n


def oracle_termination(lines, run):
    if run["done"] is None:
        return "the run did not complete (deadlock: a thread blocked forever, or the process died)"
    if "status=ok" not in run["done"]:
        return f"step budget exceeded (livelock): {run['done']}"
    if len(run["ops"]) != program_ops(lines):
        return f"only {len(run['ops'])} of {program_ops(lines)} operations returned"
    return None


def before(x, y):
    """x returned before y was invoked: by the step stamps, or by program order on one thread (consecutive
    operations of a thread carry the same stamp: the thread does not pass a switch point in between)."""
    return x["end"] < y["start"] or (x["t"] == y["t"] and x["i"] < y["i"])


def oracle_coherence(lines, run):
    ops = run["ops"]
    writes = {}
    for o in ops:
        if o["op"][0] == "I":
            writes[(int(o["op"][1]), o["op"][2])] = o
    mods = {}
    for o in ops:
        if o["op"][0] in ("I", "X"):
            mods.setdefault(int(o["op"][1]), []).append(o)
    for g in ops:
        if g["op"][0] != "G" or g["res"] == "-":
            continue
        k = int(g["op"][1])
        w = writes.get((k, g["res"]))
        if w is None:
            return f"t{g['t']} get({k}) returned {g['res']} which no insert({k}, .) wrote"
        if before(g, w):
            return f"t{g['t']} get({k}) returned {g['res']} before the insert that wrote it began"
        for m in mods.get(k, []):
            if m is not w and before(w, m) and before(m, g):
                return (f"t{g['t']} get({k}) returned {g['res']}, superseded by `{' '.join(m['op'])}` of t{m['t']} "
                        f"which completed before the get began")
        # invalidate_all issued at a strictly later clock reading than the insert, completed before the get began
        for a in ops:
            if a["op"][0] == "A" and a["now0"] is not None and w["now1"] is not None and \
                    w["now1"] < a["now0"] and before(w, a) and before(a, g):
                return (f"t{g['t']} get({k}) returned {g['res']} although invalidate_all of t{a['t']} (clock {a['now0']}), issued at a "
                        f"strictly later reading than that insert (clock {w['now1']}), completed before the get began")
    # monotone reads per single writer
    for k, ms in mods.items():
        writers = {m["t"] for m in ms if m["op"][0] == "I"}
        if len(writers) != 1 or any(m["op"][0] == "X" for m in ms):
            continue
        order = {m["op"][2]: m["i"] for m in ms}
        for t in {o["t"] for o in ops}:
            seq = [order[o["res"]] for o in sorted((o for o in ops if o["t"] == t), key=lambda o: o["i"])
                   if o["op"][0] == "G" and int(o["op"][1]) == k and o["res"] in order]
            if seq != sorted(seq):
                return f"thread t{t} saw the values of key {k} go backwards in the writer's order: {seq}"
    # final state: nothing or a maximal write
    if run["final"] and not any(o["op"][0] == "A" for o in ops):
        s = SSnap(run["final"])
        for k, e in s.map.items():
            w = writes.get((k, str(e["v"])))
            if w is None:
                return f"after all threads stopped the cache holds {k}->{e['v']} which nobody wrote"
            for m in mods.get(k, []):
                if m is not w and before(w, m):
                    return (f"after all threads stopped the cache holds {k}->{e['v']} although `{' '.join(m['op'])}` of "
                            f"t{m['t']} began after that insert had returned")
    return None


def oracle_quiescent(lines, run):
    cfg = parse_cfg(lines[0].replace("kind=conc", "kind=sync"))
    if run["final"] is None:
        return None
    s = SSnap(run["final"])
    from trace import weigh
    if "walk=ok" not in run["final"]:
        return f"structural walker after quiescence: {run['final'][run['final'].index('walk='):][:120]}"
    if s.rq or s.wq:
        return f"queues not empty after two sync() calls: rq={s.rq} wq={s.wq}"
    if s.ec != len(s.map) or len(s.prob) != len(s.map):
        return f"after quiescence entry_count={s.ec}, {len(s.prob)} deque nodes, but {len(s.map)} entries physically held"
    w = sum(weigh(cfg, k, e["v"]) for k, e in s.map.items())
    if s.ws != w:
        return f"after quiescence weighted_size={s.ws} but the held entries weigh {w}"
    if cfg["cap"] is not None and w > cfg["cap"]:
        return f"after quiescence resident weight {w} > max_capacity {cfg['cap']}"
    if s.live != len(s.map) or int(s.raw.get("lk", len(s.map))) != len(s.map):
        return f"after quiescence {s.live} live values / {s.raw.get('lk')} live keys but {len(s.map)} resident entries"
    if run["probe"] is not None and cfg["cap"]:
        got = dict(parse_pairs(run["probe"]))
        missing = [k for k in range(1_000_000, 1_000_000 + cfg["cap"]) if k not in got]
        if missing:
            return f"refill probe after the concurrent phase: {len(missing)} of {cfg['cap']} fresh unit keys not retained"
    if run["dropped"] and "live=0:0" not in run["dropped"]:
        return f"after dropping the cache: {run['dropped']}"
    return None


def oracle_conc_no_loss(lines, run):
    """C03 under schedules: an insert that is the last modification of its key in EVERY linearisation (all other
    inserts / invalidations of the key and every invalidate_all returned before it was invoked) must be what the
    cache holds after quiescence, unless a capacity is configured or the entry has expired by the final reading."""
    cfg = parse_cfg(lines[0].replace("kind=conc", "kind=sync"))
    if run["final"] is None or cfg["cap"] is not None:
        return None
    ops = run["ops"]
    if not ops:
        return None
    final_now = max([o["now1"] for o in ops if o["now1"] is not None] or [0])
    s = SSnap(run["final"])
    for w in ops:
        if w["op"][0] != "I" or w["now1"] is None:
            continue
        k = int(w["op"][1])
        others = [m for m in ops if m is not w and ((m["op"][0] in ("I", "X") and int(m["op"][1]) == k) or m["op"][0] == "A")]
        if not all(before(m, w) for m in others):
            continue
        # idle timer: at least from the insert itself
        if cfg["ttl"] is not None and final_now >= w["now0"] + cfg["ttl"]:
            continue
        if cfg["tti"] is not None and final_now >= w["now0"] + cfg["tti"]:
            continue
        e = s.map.get(k)
        if e is None or str(e["v"]) != w["op"][2]:
            return (f"t{w['t']} insert({k}, {w['op'][2]}) is the last modification of key {k} in every linearisation, nothing "
                    f"expired (final clock {final_now}) and there is no capacity, but after quiescence the cache holds "
                    f"{'nothing' if e is None else e['v']} for it")
    return None


def cell_trace(run):
    """Map actions in the order they took effect (linearisation step)."""
    acts = []
    for o in run["ops"]:
        if o["lin"] is None:
            continue
        if o["op"][0] == "I":
            acts.append((o["lin"], f"W {o['t']} {o['op'][1]} {o['op'][2]}"))
        elif o["op"][0] == "X":
            acts.append((o["lin"], f"X {o['t']} {o['op'][1]}"))
        elif o["op"][0] == "G":
            acts.append((o["lin"], f"R {o['t']} {o['op'][1]} {o['res']}"))
    return [a for _, a in sorted(acts)]


def hk_trace(run):
    m = {"hk:acquired": "ACQ", "hk:released": "REL", "sync:locked": "LOCK", "sync:unlocked": "UNLOCK"}
    return [f"{m[site]} {t}" for _, t, site in run["events"] if site in m]


ORACLES = {
    "C02": [oracle_termination, oracle_coherence],
    "C09": [oracle_termination],
    "C07": [oracle_termination, oracle_coherence, oracle_conc_no_loss],
    "quiescent": [oracle_termination, oracle_quiescent, oracle_conc_no_loss],
}


def explore(pid, tier, seed, nprog, exhaustive_bound):
    rng = random.Random(seed * 31337 + int(pid[1:]))
    cases = []
    for i in range(nprog):
        profile = rng.choice(["tiny", "basic", "basic", "robust", "hot"]) if pid not in ("C02", "C07") else rng.choice(["tiny", "basic", "basic", "invall"])
        if pid in ("C10", "C04") and rng.random() < 0.4:
            profile = "hot"
        lines, nth = gen_program(rng, i, profile)
        # the unpreempted run, random schedules, and bounded-preemption exploration
        cases.append((f"p{i}_seq", lines + ["RUN"]))
        for j in range(3 if tier == "quick" else 12):
            cases.append((f"p{i}_r{j}", lines + ["SCHED " + " ".join(random_schedule(rng, nth)), "RUN"]))
        if nth == 2 and (profile == "invall" or (profile == "tiny" and tier == "thorough")):
            # prefix x prefix: thread a runs to its i-th switch point, thread b to its j-th, then a to the end, then b
            # (one thread parked in the middle of an operation while the other runs whole operations)
            for a in (0, 1):
                for i_ in range(0, 22):
                    for j_ in range(1, 11):
                        sched = [str(a)] * i_ + [str(1 - a)] * j_ + [str(a)] * 150 + [str(1 - a)] * 150
                        cases.append((f"p{i}_q{a}_{i_}_{j_}", lines + ["SCHED " + " ".join(sched), "RUN"]))
        if profile in ("tiny", "invall") or tier == "thorough":
            horizon = 60
            pts = list(range(1, horizon, 1 if tier == "thorough" else 3))
            for p in pts:
                for t in range(nth):
                    cases.append((f"p{i}_x{p}_{t}", lines + [f"SCHED @{p}:{t}", "RUN"]))
            if exhaustive_bound >= 2:
                for _ in range(40 if tier == "quick" else 400):
                    p1, p2 = sorted(rng.sample(range(1, horizon), 2))
                    cases.append((f"p{i}_y{p1}_{p2}_{len(cases)}", lines + [f"SCHED @{p1}:{rng.randrange(nth)} @{p2}:{rng.randrange(nth)}", "RUN"]))
    return cases


def fullqueue_cases(rng, n):
    """C09: a thread is parked INSIDE a maintenance run it started through the housekeeper (flag held, logs
    already drained) while another thread fills the bounded write queue to the brim and keeps inserting; the
    first thread then finishes.  Every insert must still return: the blocked writer has to get the queue
    drained itself once the flag is free.  Two phases: the parking position is read off the parked thread's
    own event sequence in an unpreempted run."""
    progs, nbs = [], {}
    for i in range(n):
        cap = rng.choice(["none", 1000, 3])
        cfg = f"cfg kind=conc cap={cap} ttl=none tti=none weigher=none hasher=id budget=60000"
        first = rng.choice(["G 1", "I 1 7", "I 1 7"])
        nb = rng.choice([385, 386, 392, 420])
        # (usually nothing follows on thread 0: a later operation of its own would drain the queue for the other thread)
        lines = [cfg, f"TH 0 {first}" + (" ; G 1" if rng.random() < 0.25 else ""),
                 "TH 1 " + " ; ".join(f"I {2 + j % 5} {1000 + j}" for j in range(nb))]
        progs.append((f"fq{i}", lines))
        nbs[f"fq{i}"] = nb
    probe = C.run_impl([(nm + "_probe", ls + ["SCHED " + " ".join(["0"] * 120), "RUN"]) for nm, ls in progs], timeout=300)
    cases = []
    for nm, ls in progs:
        run_ = parse_run(probe.get(nm + "_probe", []))
        mine = [site for _, t, site in run_["events"] if t == 0]
        inside = [j for j, site in enumerate(mine) if site in ("hk:acquired", "sync:locked", "sync:after_reads", "sync:after_writes",
                                                               "sync:before_evict", "sync:before_publish", "sync:unlocked")]
        if not inside:
            continue
        j = rng.choice(inside)
        sched = ["0"] * j + ["1"] * (nbs[nm] * 9 + 400) + ["0"] * 200
        cases.append((nm, ls + ["SCHED " + " ".join(sched), "RUN"]))
    return cases


def explore_maint(pid, tier, seed):
    """maintenance-race programs under prefix x prefix schedules (thread 0 parked at its i-th switch point, incl. the
    check-then-act windows inside its maintenance runs, while thread 1 runs j switch points; then 0 to the end, then 1)"""
    rng = random.Random(seed * 7919 + int(pid[1:]))
    cases = []
    for n, (lines, nth) in enumerate(maint_programs(rng, 10 if tier == "quick" else 60)):
        cases.append((f"m{n}_seq", lines + ["RUN"]))
        for i_ in range(0, 70):
            for j_ in (1, 2, 3, 4, 6, 9, 14, 40):
                sched = ["0"] * i_ + ["1"] * j_ + ["0"] * 200 + ["1"] * 200
                cases.append((f"m{n}_q{i_}_{j_}", lines + ["SCHED " + " ".join(sched), "RUN"]))
    return cases


def accept_traces(kind, traces):
    """Runs the extracted Coq acceptors (Conc/Cell.v, Conc/HK.v) over action traces.
    Returns {name: verdict string}.  Silently empty if the driver has no such mode yet."""
    if not traces:
        return {}
    path = os.path.join(C.WORK, f"acc_{kind}_{os.getpid()}.txt")
    with open(path, "w") as f:
        for name, acts in traces:
            f.write(f"case {name}\ncfg kind={kind}\n")
            for a in acts:
                f.write(a + "\n")
            f.write("END\n")
    p = subprocess.run([C.MODEL_BIN, path], capture_output=True, text=True)
    os.remove(path)
    if p.returncode != 0:
        return None
    out = {}
    for name, lines in C.parse_traces(p.stdout).items():
        out[name] = lines[-1] if lines else "?"
    return out


def run(pid, tier, seed, model_ok, replay, nprog=None):
    oracles = ORACLES.get(pid, ORACLES["quiescent"])
    if replay:
        with open(replay) as f:
            lines = [l.strip() for l in f if l.strip() and not l.startswith("#") and not l.startswith("case ")]
        cases = [("replay", lines)]
    else:
        cases = []
        for name, lines in C.load_corpus("conc"):
            cases.append((name, lines))
        cases += explore(pid, tier, seed, nprog or (60 if tier == "quick" else 600), 2)
        if pid in ("C03", "C07", "C08", "C10", "C11", "C02"):
            cases += explore_maint(pid, tier, seed)
    # uncontrolled real-thread stress (no scheduler): same oracles over real-time tickets
    stress = []
    if not replay and pid in ("C02", "C09", "C08", "C10", "C11", "C07"):
        srng = random.Random(seed * 7 + 5)
        for i in range(12 if tier == "quick" else 200):
            cfgl = (f"cfg kind=stress cap={srng.choice(['none', 1, 2, 4])} ttl=none tti=none "
                    f"weigher=none hasher={srng.choice(['id', 'mod:2'])}")
            stress.append((f"stress{i}", [cfgl, f"RW threads={srng.choice([2, 3, 4])} keys={srng.choice([1, 2, 3])} "
                                                f"ops={srng.choice([40, 80, 120])} seed={srng.randrange(10**6)}"]))
        if pid in ("C02", "C07"):
            # gets racing with updates of a key whose older value a completed invalidate_all has discarded
            for i in range(6 if tier == "quick" else 60):
                cfgl = f"cfg kind=stress cap=none ttl=none tti=none weigher=none hasher=id"
                stress.append((f"stressa{i}", [cfgl, f"RW threads={srng.choice([3, 4])} keys={srng.choice([1, 1, 2])} "
                                                     f"ops={srng.choice([2000, 4000])} writes=35 inval={srng.choice([5, 15])} "
                                                     f"adv=600000000 seed={srng.randrange(10**6)}"]))
        if pid == "C09":
            # beyond the periodic-sync interval, write-heavy: the write queue must be drained by the
            # inserting threads themselves when it reaches its flush point
            for i in range(6 if tier == "quick" else 60):
                cfgl = f"cfg kind=stress cap={srng.choice(['none', 50])} ttl=none tti=none weigher=none hasher=id"
                stress.append((f"stressw{i}", [cfgl, f"RW threads={srng.choice([3, 4, 6])} keys={srng.choice([50, 500])} "
                                                     f"ops={srng.choice([5000, 20000])} writes=90 quiet=1 adv=600000000 tick=1000000000 seed={srng.randrange(10**6)}"]))
        cases += stress
    n_fq = 0
    if not replay and pid == "C09":
        fq = fullqueue_cases(random.Random(seed * 13 + 9), 6 if tier == "quick" else 40)
        n_fq = len(fq)
        cases += fq
    impl = C.run_impl(cases, timeout=300)
    violations, disagreements = [], []
    burst_res = None
    if pid == "C09" and not replay:
        # single-thread bursts of N >> write-queue-size operations without sync, both regimes, in lock-step
        import gen, p_cache, oracles as _orc
        brng = random.Random(seed * 11 + 9)
        bursts = [gen.gen_burst(brng, 9700 + i) for i in range(8 if tier == "quick" else 120)]
        bursts += [gen.gen_cache_case(brng, "sync", 9900 + i) for i in range(250 if tier == "quick" else 2500)]
        import motifs
        bursts += [gen.gen_skip_case(brng, "sync", 8000 + i) for i in range(60 if tier == "quick" else 600)]
        bursts += [motifs.gen_motif_case(brng, "sync", 6000 + i) for i in range(100 if tier == "quick" else 1000)]
        burst_res = p_cache.run_cases(pid, _orc.oracle_safety, p_cache.PROJ["counters"], bursts, model_ok)
        violations += burst_res["violations"]
        disagreements += burst_res["disagreements"]
    dist = {"runs": len(cases), "threads": {}, "steps_total": 0, "ops_total": 0, "gets_with_value": 0,
            "preemptive_runs": 0, "livelocks": 0, "incomplete": 0,
            "full_write_queue_runs": n_fq}
    cell_traces, hk_traces = [], []
    programs = set()
    for name, lines in cases:
        tr = impl.get(name, [])
        run_ = parse_run(tr)
        nth = sum(1 for l in lines if l.startswith("TH "))
        dist["threads"][str(nth)] = dist["threads"].get(str(nth), 0) + 1
        dist["ops_total"] += len(run_["ops"])
        dist["gets_with_value"] += sum(1 for o in run_["ops"] if o["op"][0] == "G" and o["res"] != "-")
        if run_["done"]:
            m = re.search(r"steps=(\d+)", run_["done"])
            dist["steps_total"] += int(m.group(1)) if m else 0
        else:
            dist["incomplete"] += 1
        if any(l.startswith("SCHED") for l in lines):
            dist["preemptive_runs"] += 1
        programs.add("\n".join(l for l in lines if not l.startswith("SCHED")))
        for orc in oracles:
            if name.startswith("stressw") and orc is not oracle_termination:
                v = None
            elif name.startswith("stressw"):
                v = None if (run_["done"] and "status=ok" in run_["done"]) else \
                    "write-heavy stress beyond the periodic-sync interval did not complete (inserting threads hang)"
            elif name.startswith("stress") and orc is oracle_termination:
                v = None if (run_["done"] and "status=ok" in run_["done"]) else "stress run did not complete"
            else:
                v = orc(lines, run_)
            if v:
                violations.append((name, lines, v))
                break
        if not name.startswith("stress"):
            cell_traces.append((name, cell_trace(run_)))
            hk_traces.append((name, hk_trace(run_)))
    if model_ok and not replay:
        for kind, traces, what in (("celltrace", cell_traces, "Conc/Cell.v"), ("hktrace", hk_traces, "Conc/HK.v")):
            if (kind == "celltrace" and pid not in ("C02", "C07")) or (kind == "hktrace" and pid not in ("C09", "C04")):
                continue
            verdicts = accept_traces(kind, traces)
            if verdicts is None:
                disagreements.append(("acceptor", [], f"the extracted acceptor of {what} failed to run"))
                continue
            bycase = dict(cases)
            for name, v in verdicts.items():
                if not v.endswith("accept") and len(disagreements) < 20:
                    disagreements.append((name, bycase.get(name, []), f"atomic-action trace rejected by {what}: {v}"))
    return {
        "evaluations": len(cases),
        "distinct_nontrivial": len(programs),
        "rule": "small concurrent programs (2-4 threads x 1-6 ops over insert/get/invalidate/sync/contains/iter/advance on 1-3 keys, "
                "capacities none/1..4, optional ttl/tti/weigher) run on the real cache under the controlled scheduler: the unpreempted "
                "schedule, random schedules with preemption probability 0.05/0.15/0.4, every single preemption point x thread for tiny "
                "programs and sampled pairs of preemption points; non-trivial/distinct = distinct programs (each run under many schedules)",
        "samples": [{"case": n_, "program": l_} for n_, l_ in cases[:2]],
        "violations": violations[:5],
        "disagreements": disagreements,
        "known": [],
        "distribution": dict(dist, bursts=(burst_res["distribution"]["ops"] if burst_res else None)),
        "traces_validated": len(cases) if model_ok else 0,
    }
