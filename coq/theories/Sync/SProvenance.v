(** Provenance of the popularity sketch of the concurrent-cache model (sequential regime):
    ONLY [get] calls are ever recorded in the sketch, each at most once.
    - the read-op queue [s_rq] grows only in [s_get], by at most one op that carries the hash of
      the looked-up key;
    - the sketch [s_sk] changes only by applying queued read ops in queue order (one
      [increment] each) or by being enabled ([ensure_capacity]).
    All statements are conditional on the model functions returning [Ok]: pure frame reasoning,
    no well-formedness invariant is needed. *)
From MM Require Import Sync.SModel.

Definition rop_hash (o : readop) : N := match o with RHit h _ _ => h | RMiss h => h end.

(** apply the increments of a list of recorded reads, in order, to a sketch *)
Fixpoint incr_hashes (sk : sketch) (hs : list N) : res sketch :=
  match hs with [] => Ok sk | h :: r => sk' <-r increment sk h; incr_hashes sk' r end.

(** the sketch of s' is obtained from the sketch of s by applying the increments of the first n
    queued reads of s (in queue order), possibly with the sketch being enabled (ensure_capacity
    on the not-yet-enabled sketch) somewhere in between; and the read queue of s' is the rest *)
Inductive sk_evolves : sketch -> bool -> list N -> sketch -> bool -> Prop :=
| ske_done sk on : sk_evolves sk on [] sk on
| ske_incr sk on h hs sk1 sk' on' :
    increment sk h = Ok sk1 -> sk_evolves sk1 on hs sk' on' -> sk_evolves sk on (h :: hs) sk' on'
| ske_enable sk hs cap sk' on' :
    sk_evolves (ensure_capacity sk cap) true hs sk' on' -> sk_evolves sk false hs sk' on'.

Definition reads_consumed (s s' : sstate) : Prop :=
  exists n, s_rq s' = drop n (s_rq s) /\
            sk_evolves (s_sk s) (s_skon s) (rop_hash <$> take n (s_rq s)) (s_sk s') (s_skon s').

(** ** The observed part of the state and its frame lemmas *)

(** the three fields the property talks about *)
Definition core (s : sstate) : list readop * sketch * bool := (s_rq s, s_sk s, s_skon s).

Lemma core_sset_map s x : core (sset_map s x) = core s. Proof. reflexivity. Qed.
Lemma core_sset_ves s x : core (sset_ves s x) = core s. Proof. reflexivity. Qed.
Lemma core_sset_infos s x : core (sset_infos s x) = core s. Proof. reflexivity. Qed.
Lemma core_sset_prob s x : core (sset_prob s x) = core s. Proof. reflexivity. Qed.
Lemma core_sset_wo s x : core (sset_wo s x) = core s. Proof. reflexivity. Qed.
Lemma core_sset_wq s x : core (sset_wq s x) = core s. Proof. reflexivity. Qed.
Lemma core_sset_ec s x : core (sset_ec s x) = core s. Proof. reflexivity. Qed.
Lemma core_sset_ws s x : core (sset_ws s x) = core s. Proof. reflexivity. Qed.
Lemma core_sset_va s x : core (sset_va s x) = core s. Proof. reflexivity. Qed.
Lemma core_sset_sa s x : core (sset_sa s x) = core s. Proof. reflexivity. Qed.
Lemma core_sset_next s x : core (sset_next s x) = core s. Proof. reflexivity. Qed.
Lemma core_upd_info s i f : core (upd_info s i f) = core s. Proof. reflexivity. Qed.
Lemma core_sset_rq s x : core (sset_rq s x) = (x, s_sk s, s_skon s). Proof. reflexivity. Qed.
Lemma core_sset_sk s x on : core (sset_sk s x on) = (s_rq s, x, on). Proof. reflexivity. Qed.

#[local] Hint Rewrite core_sset_map core_sset_ves core_sset_infos core_sset_prob core_sset_wo
  core_sset_wq core_sset_ec core_sset_ws core_sset_va core_sset_sa core_sset_next core_upd_info
  core_sset_rq core_sset_sk : core.

(** one step through the head of a hypothesis [H : <model code> = Ok _] *)
Ltac stp H :=
  lazymatch type of H with
  | Ok _ = Ok _ => inversion H; subst; clear H
  | Err _ = Ok _ => discriminate H
  | rbind ?m _ = Ok _ =>
      let E := fresh "E" in destruct m as [?|?] eqn:E; cbn [rbind] in H; [|discriminate H]
  | (match ?x with _ => _ end) = Ok _ => destruct x eqn:?
  end.

Ltac core_solve :=
  repeat (autorewrite with core in *;
          try match goal with
              | |- context [core (if ?b then _ else _)] => destruct b
              | H : context [core (if ?b then _ else _)] |- _ => destruct b
              end);
  congruence.

(** forward-chaining of the frame lemmas proved so far (re-bound as lemmas become available) *)
Ltac fwd_hook H := fail.
Ltac fwd := repeat match goal with H : _ = Ok _ |- _ => progress (fwd_hook H) end.
Ltac frame H := repeat stp H; fwd; core_solve.

Lemma s_move_to_back_ao_core s i s' : s_move_to_back_ao s i = Ok s' -> core s' = core s.
Proof. unfold s_move_to_back_ao. intros H. frame H. Qed.

Lemma s_move_to_back_wo_core s i s' : s_move_to_back_wo s i = Ok s' -> core s' = core s.
Proof. unfold s_move_to_back_wo. intros H. frame H. Qed.

Lemma handle_admit_core c s k h ve w s' : handle_admit c s k h ve w = Ok s' -> core s' = core s.
Proof.
  unfold handle_admit. intros H. stp H. inversion H; subst; clear H.
  destruct (sc_ttl c); reflexivity.
Qed.

Lemma s_unlink_nodes_core s i s' : s_unlink_nodes s i = Ok s' -> core s' = core s.
Proof. unfold s_unlink_nodes. intros H. cbv zeta in H. stp H. stp H. stp H. reflexivity. Qed.

Ltac fwd_hook H ::=
  first [ apply s_move_to_back_ao_core in H | apply s_move_to_back_wo_core in H
        | apply handle_admit_core in H | apply s_unlink_nodes_core in H ].

Lemma handle_remove_core s i s' : handle_remove s i = Ok s' -> core s' = core s.
Proof. unfold handle_remove. intros H. cbv zeta in H. frame H. Qed.

Ltac fwd_hook H ::=
  first [ apply s_move_to_back_ao_core in H | apply s_move_to_back_wo_core in H
        | apply handle_admit_core in H | apply s_unlink_nodes_core in H
        | apply handle_remove_core in H ].

Lemma s_remove_victims_core victims : forall s skipped s' sk',
  s_remove_victims s victims skipped = Ok (s', sk') -> core s' = core s.
Proof.
  induction victims as [|nid rest IH]; intros s skipped s' sk' H; cbn [s_remove_victims] in H.
  - stp H. reflexivity.
  - repeat stp H; apply IH in H; fwd; core_solve.
Qed.

Lemma s_move_skipped_core skipped : forall s s',
  s_move_skipped s skipped = Ok s' -> core s' = core s.
Proof.
  induction skipped as [|nid rest IH]; intros s s' H; cbn [s_move_skipped] in H.
  - stp H. reflexivity.
  - repeat stp H. apply IH in H. core_solve.
Qed.

Ltac fwd_hook H ::=
  first [ apply s_move_to_back_ao_core in H | apply s_move_to_back_wo_core in H
        | apply handle_admit_core in H | apply s_unlink_nodes_core in H
        | apply handle_remove_core in H | apply s_remove_victims_core in H
        | apply s_move_skipped_core in H ].

Lemma handle_upsert_core c s k h ve ow nw s' :
  handle_upsert c s k h ve ow nw = Ok s' -> core s' = core s.
Proof.
  unfold handle_upsert. intros H. cbv zeta beta in H. frame H.
Qed.

Lemma apply_write_core c s o s' : apply_write c s o = Ok s' -> core s' = core s.
Proof.
  destruct o; cbn [apply_write]; intros H.
  - now apply handle_upsert_core in H.
  - now apply handle_remove_core in H.
Qed.

Lemma apply_writes_core c count : forall s s', apply_writes c s count = Ok s' -> core s' = core s.
Proof.
  induction count as [|n IH]; intros s s' H; cbn [apply_writes] in H.
  - stp H. reflexivity.
  - repeat stp H; [reflexivity|]. apply IH in H. apply apply_write_core in E. core_solve.
Qed.

Lemma try_skip_updated_entry_core s k s' b :
  try_skip_updated_entry s k = Ok (s', b) -> core s' = core s.
Proof. unfold try_skip_updated_entry. intros H. cbv zeta in H. frame H. Qed.

Ltac fwd_hook H ::=
  first [ apply s_move_to_back_ao_core in H | apply s_move_to_back_wo_core in H
        | apply handle_admit_core in H | apply s_unlink_nodes_core in H
        | apply handle_remove_core in H | apply s_remove_victims_core in H
        | apply s_move_skipped_core in H | apply try_skip_updated_entry_core in H ].

Lemma s_remove_expired_wo_core c fuel now : forall s s',
  s_remove_expired_wo c fuel s now = Ok s' -> core s' = core s.
Proof.
  induction fuel as [|f IH]; intros s s' H; cbn [s_remove_expired_wo] in H.
  - stp H. reflexivity.
  - repeat stp H; try apply IH in H; fwd; core_solve.
Qed.

Lemma s_remove_expired_ao_core c fuel now : forall s s',
  s_remove_expired_ao c fuel s now = Ok s' -> core s' = core s.
Proof.
  induction fuel as [|f IH]; intros s s' H; cbn [s_remove_expired_ao] in H.
  - stp H. reflexivity.
  - repeat stp H; try apply IH in H; fwd; core_solve.
Qed.

Lemma s_evict_expired_core c s now s' : s_evict_expired c s now = Ok s' -> core s' = core s.
Proof.
  unfold s_evict_expired. intros H. stp H.
  assert (core a = core s) as Ha.
  { destruct (sc_ttl c); [now apply s_remove_expired_wo_core in E|]. stp E. reflexivity. }
  rewrite <- Ha. clear E Ha.
  repeat stp H; try apply s_remove_expired_ao_core in H; core_solve.
Qed.

Lemma s_evict_lru_loop_core fuel to_evict : forall s evicted s',
  s_evict_lru_loop fuel s to_evict evicted = Ok s' -> core s' = core s.
Proof.
  induction fuel as [|f IH]; intros s evicted s' H; cbn [s_evict_lru_loop] in H.
  - stp H. reflexivity.
  - repeat stp H; try apply IH in H; fwd; core_solve.
Qed.

(** ** [sk_evolves] and [reads_consumed]: reflexivity, transitivity *)

Lemma sk_evolves_app sk on l1 sk1 on1 l2 sk2 on2 :
  sk_evolves sk on l1 sk1 on1 -> sk_evolves sk1 on1 l2 sk2 on2 ->
  sk_evolves sk on (l1 ++ l2) sk2 on2.
Proof.
  induction 1; intros H2; cbn [app].
  - exact H2.
  - eapply ske_incr; eauto.
  - eapply ske_enable; eauto.
Qed.

Lemma take_add_drop {A} (l : list A) : forall n m : nat,
  take (n + m) l = take n l ++ take m (drop n l).
Proof.
  induction l as [|x l IH]; intros [|n] m; cbn [Nat.add take drop app]; try reflexivity.
  - now destruct m.
  - now rewrite IH.
Qed.

Lemma rc_of_core s s' : core s' = core s -> reads_consumed s s'.
Proof.
  intros H. injection H as H1 H2 H3. exists 0%nat. rewrite drop_0, H1, H2, H3.
  split; [reflexivity|apply ske_done].
Qed.

Lemma rc_refl s : reads_consumed s s.
Proof. now apply rc_of_core. Qed.

Lemma rc_trans s1 s2 s3 : reads_consumed s1 s2 -> reads_consumed s2 s3 -> reads_consumed s1 s3.
Proof.
  intros (n & Hq & He) (m & Hq' & He'). exists (n + m)%nat. split.
  - rewrite Hq', Hq. apply drop_drop.
  - rewrite take_add_drop, fmap_app. eapply sk_evolves_app; [exact He|]. now rewrite <- Hq.
Qed.

Lemma rc_core_r s1 s2 s3 : reads_consumed s1 s2 -> core s3 = core s2 -> reads_consumed s1 s3.
Proof. intros H1 H2. eapply rc_trans; [exact H1|now apply rc_of_core]. Qed.

Lemma rc_core_l s1 s2 s3 : core s2 = core s1 -> reads_consumed s2 s3 -> reads_consumed s1 s3.
Proof. intros H1 H2. eapply rc_trans; [apply rc_of_core; exact H1|exact H2]. Qed.

(** ** Functions that consume reads *)

Lemma apply_read_spec s o s' : apply_read s o = Ok s' ->
  exists sk, increment (s_sk s) (rop_hash o) = Ok sk /\ core s' = (s_rq s, sk, s_skon s).
Proof.
  destruct o as [h ve ts|h]; cbn [apply_read rop_hash]; intros H; stp H; exists a; (split; [reflexivity|]).
  - cbv zeta in H. frame H.
  - frame H.
Qed.

Lemma apply_reads_rc n : forall s s', apply_reads s n = Ok s' -> reads_consumed s s'.
Proof.
  induction n as [|n IH]; intros s s' H; cbn [apply_reads] in H.
  - stp H. apply rc_refl.
  - destruct (s_rq s) as [|o rest] eqn:Hq.
    + stp H. apply rc_refl.
    + stp H. apply apply_read_spec in E as (sk & Hinc & Hc).
      apply IH in H as (m & Hq' & He).
      cbn [s_rq s_sk s_skon sset_rq] in Hinc, Hc. injection Hc as H1 H2 H3.
      rewrite H1, H2, H3 in He.
      exists (S m). rewrite Hq. cbn [drop take]. rewrite fmap_cons. split.
      * now rewrite Hq', H1.
      * eapply ske_incr; [exact Hinc|exact He].
Qed.

(** enabling the sketch happens only while it is off, and is one [ske_enable] step *)
Lemma enable_rc c s :
  reads_consumed s (if s_should_enable_sketch c s then s_enable_sketch c s else s).
Proof.
  unfold s_should_enable_sketch, s_enable_sketch.
  destruct (s_skon s) eqn:Hon; [apply rc_refl|].
  destruct (sc_cap c) as [mc|]; [|apply rc_refl].
  destruct (_ <=? _); [|apply rc_refl].
  exists 0%nat. split; [reflexivity|]. rewrite Hon.
  cbn [take fmap list_fmap s_sk s_skon sset_sk].
  eapply ske_enable, ske_done.
Qed.

Lemma sync_rounds_rc c r : forall s s', sync_rounds c r s = Ok s' -> reads_consumed s s'.
Proof.
  induction r as [|r IH]; intros s s' H; cbn [sync_rounds] in H.
  - stp H. apply rc_refl.
  - stp H. stp H. apply apply_reads_rc in E. apply apply_writes_core in E0.
    pose proof (enable_rc c a0) as He.
    remember (if s_should_enable_sketch c a0 then s_enable_sketch c a0 else a0) as s3 eqn:Hs3.
    clear Hs3.
    assert (reads_consumed s s3) as H3
      by (eapply rc_trans; [eapply rc_core_r; [exact E|exact E0]|exact He]).
    stp H.
    + apply IH in H. eapply rc_trans; [exact H3|exact H].
    + stp H. exact H3.
Qed.

(** maintenance only consumes queued reads *)
Theorem s_sync_reads_consumed : forall c s now s', s_sync c s now = Ok s' -> reads_consumed s s'.
Proof.
  intros c s now s' H. unfold s_sync in H. stp H. stp H. apply sync_rounds_rc in E.
  assert (core a0 = core a) as Ha.
  { destruct (_ || _) in E0; [now apply s_evict_expired_core in E0|]. stp E0. reflexivity. }
  clear E0. cbv zeta in H.
  assert (core s' = core a0) as Hs'.
  { destruct (0 <? _) in H; [now apply s_evict_lru_loop_core in H|]. stp H. reflexivity. }
  eapply rc_core_r; [exact E|congruence].
Qed.

Lemma hk_maybe_sync_rc c s len flush now s' :
  hk_maybe_sync c s len flush now = Ok s' -> reads_consumed s s'.
Proof.
  unfold hk_maybe_sync. intros H. stp H.
  - apply s_sync_reads_consumed in H. eapply rc_core_l; [|exact H]. reflexivity.
  - stp H. apply rc_refl.
Qed.

Lemma schedule_write_op_rc c fuel o now : forall s s',
  schedule_write_op c fuel s o now = Ok s' -> reads_consumed s s'.
Proof.
  induction fuel as [|f IH]; intros s s' H; cbn [schedule_write_op] in H.
  - discriminate H.
  - stp H. apply hk_maybe_sync_rc in E. stp H.
    + stp H. eapply rc_core_r; [exact E|reflexivity].
    + apply IH in H. eapply rc_trans; [exact E|exact H].
Qed.

(** recording a read: maintenance first, then at most one push of exactly the given op *)
Lemma record_read_op_spec c s o now s' : record_read_op c s o now = Ok s' ->
  exists s1, reads_consumed s s1 /\
             (core s' = core s1 \/ core s' = (s_rq s1 ++ [o], s_sk s1, s_skon s1)).
Proof.
  unfold record_read_op. intros H. stp H. apply hk_maybe_sync_rc in E.
  exists a. split; [exact E|]. stp H; stp H; [right|left]; reflexivity.
Qed.

Lemma s_insert_rc c s now k v s' : s_insert c s now k v = Ok s' -> reads_consumed s s'.
Proof.
  unfold s_insert. intros H. cbv zeta in H.
  stp H; apply schedule_write_op_rc in H; (eapply rc_core_l; [|exact H]); reflexivity.
Qed.

Lemma s_invalidate_rc c s now k s' : s_invalidate c s now k = Ok s' -> reads_consumed s s'.
Proof.
  unfold s_invalidate. intros H. stp H.
  - apply schedule_write_op_rc in H. eapply rc_core_l; [|exact H]. reflexivity.
  - stp H. apply rc_refl.
Qed.

Lemma s_get_spec c s now k s' v : s_get c s now k = Ok (s', v) ->
  exists o s1, rop_hash o = sc_hash c k /\ reads_consumed s s1 /\
               (core s' = core s1 \/ core s' = (s_rq s1 ++ [o], s_sk s1, s_skon s1)).
Proof.
  unfold s_get. intros H. cbv zeta in H.
  repeat stp H; apply record_read_op_spec in E as (s1 & Hrc & Hc);
    (eexists _, s1; split; [|split; [exact Hrc|exact Hc]]); reflexivity.
Qed.

(** ** Main theorems on [sstep] *)

(** operations other than get never record anything *)
Theorem sstep_records_nothing : forall c r o r' out,
  (forall k, o <> SGet k) -> sstep c r o = Ok (r', out) -> reads_consumed (sr_state r) (sr_state r').
Proof.
  intros c r o r' out Hne H. destruct o; cbn [sstep] in H.
  - stp H. stp H. now apply s_insert_rc in E.
  - now destruct (Hne k).
  - stp H. apply rc_refl.
  - stp H. apply rc_refl.
  - stp H. stp H. now apply s_invalidate_rc in E.
  - stp H. now apply rc_of_core.
  - stp H. stp H. now apply s_sync_reads_consumed in E.
  - stp H. apply rc_refl.
Qed.

(** a get records at most one read, carrying the hash of its key (hit or miss), after the
    maintenance it may trigger *)
Theorem sstep_get_records_once : forall c r k r' out,
  sstep c r (SGet k) = Ok (r', out) ->
  exists n, (s_rq (sr_state r') = drop n (s_rq (sr_state r)) \/
             exists o, s_rq (sr_state r') = drop n (s_rq (sr_state r)) ++ [o] /\
                       rop_hash o = sc_hash c k) /\
            sk_evolves (s_sk (sr_state r)) (s_skon (sr_state r))
                       (rop_hash <$> take n (s_rq (sr_state r)))
                       (s_sk (sr_state r')) (s_skon (sr_state r')).
Proof.
  intros c r k r' out H. cbn [sstep] in H. stp H. destruct a as [s' v]. stp H.
  cbn [sr_state].
  apply s_get_spec in E as (o & s1 & Ho & (n & Hq & He) & [Hc|Hc]);
    injection Hc as H1 H2 H3; exists n; rewrite H1, H2, H3, Hq; (split; [|exact He]).
  - now left.
  - right. now exists o.
Qed.

(** lookups that are not gets do not even touch the state *)
Theorem contains_iter_touch_nothing : forall c r o r' out,
  (o = SIter \/ exists k, o = SContains k) -> sstep c r o = Ok (r', out) -> r' = r.
Proof.
  intros c r o r' out [->|[k ->]] H; cbn [sstep] in H; now inversion H.
Qed.

(** ** Reading [sk_evolves] through [incr_hashes]
    Either the sketch was not enabled on the way and it is the plain in-order application of
    the recorded hashes, or it was enabled exactly once (while off), between two such runs. *)
Lemma sk_evolves_incr_hashes sk on hs sk' on' :
  sk_evolves sk on hs sk' on' ->
  (on' = on /\ incr_hashes sk hs = Ok sk') \/
  (on = false /\ on' = true /\
   exists hs1 hs2 cap sk1, hs = hs1 ++ hs2 /\ incr_hashes sk hs1 = Ok sk1 /\
                           incr_hashes (ensure_capacity sk1 cap) hs2 = Ok sk').
Proof.
  induction 1 as [sk on|sk on h hs sk1 sk' on' Hi _ IH|sk hs cap sk' on' _ IH].
  - left. split; reflexivity.
  - destruct IH as [[-> Hr]|(-> & -> & hs1 & hs2 & cap & sk2 & -> & Hr1 & Hr2)].
    + left. split; [reflexivity|]. cbn [incr_hashes]. rewrite Hi. exact Hr.
    + right. split; [reflexivity|]. split; [reflexivity|].
      exists (h :: hs1), hs2, cap, sk2. split; [reflexivity|]. split; [|exact Hr2].
      cbn [incr_hashes]. rewrite Hi. exact Hr1.
  - destruct IH as [[-> Hr]|(Hf & _)]; [|discriminate Hf].
    right. split; [reflexivity|]. split; [reflexivity|].
    exists [], hs, cap, sk. split; [reflexivity|]. split; [reflexivity|exact Hr].
Qed.

(** once enabled, the sketch only ever sees in-order increments of recorded get hashes *)
Corollary sk_evolves_enabled sk hs sk' on' :
  sk_evolves sk true hs sk' on' -> on' = true /\ incr_hashes sk hs = Ok sk'.
Proof.
  intros H. apply sk_evolves_incr_hashes in H as [H|(Hf & _)]; [exact H|discriminate Hf].
Qed.

Print Assumptions s_sync_reads_consumed.
Print Assumptions sstep_records_nothing.
Print Assumptions sstep_get_records_once.
Print Assumptions contains_iter_touch_nothing.
Print Assumptions sk_evolves_incr_hashes.

(** non-vacuity: a get on the initial state succeeds and records exactly its own hash; a later
    explicit sync consumes it *)
Example get_then_sync_nonvacuous :
  let c := mkSCfg (Some 10) None None None (fun k => k + 100) in
  match sstep c srun_init (SGet 7) with
  | Ok (r1, _) =>
    match sstep c r1 SSync with
    | Ok (r2, _) => Some (s_rq (sr_state r1), s_rq (sr_state r2))
    | Err _ => None
    end
  | Err _ => None
  end = Some ([RMiss 107], []).
Proof. vm_compute. reflexivity. Qed.
