(** Recency theorems of the concurrent-cache model in its sequential regime: how applied
    reads and applied updates reorder the access-order (LRU) deque.  A hit or an update of
    an admitted entry moves its node to the most-recently-used (back) end and changes
    nothing else of the order; a read of a not-yet-admitted entry or a miss does not touch
    the order.  On top of SInvWrites.v / SInvTop.v / SPolicy.v. *)
From MM Require Import Sync.SInvDefs Sync.SInvWrites Sync.SInvTop Sync.SPolicyDefs Sync.SPolicy.

(* ------------------------------------------------------------------ *)
(** * Vocabulary *)

(** moving key k to the most-recently-used end of an LRU order *)
Definition touch (k : N) (l : list N) : list N :=
  if existsb (N.eqb k) l then List.filter (fun x => negb (x =? k)) l ++ [k] else l.

(** the same on node ids *)
Definition touch_id (n : N) (l : list N) : list N :=
  if existsb (N.eqb n) l then List.filter (fun x => negb (x =? n)) l ++ [n] else l.

Lemma touch_id_touch n l : touch_id n l = touch n l.
Proof. reflexivity. Qed.

(** the ao node id a queued read moves when it is applied *)
Definition read_target (s : sstate) (o : readop) : option N :=
  match o with
  | RHit _ ve _ => let x := get_info s (ve_info s ve) in if si_admitted x then si_ao x else None
  | RMiss _ => None
  end.

(** [sdeq_move_to_back] as a total function on id-tagged lists *)
Definition mtb_id {A} (n : N) (l : list (N * A)) : list (N * A) :=
  match find_id n l with Some a => remove_id n l ++ [(n, a)] | None => l end.

(* ------------------------------------------------------------------ *)
(** * Lists: [remove_id] / [mtb_id] seen through a projection *)

Lemma filter_all_true {B} (p : B -> bool) (l : list B) :
  (forall x, x ∈ l -> p x = true) -> List.filter p l = l.
Proof.
  induction l as [|a l IH]; intros Hl; cbn [List.filter]; [reflexivity|].
  rewrite (Hl a) by left. f_equal. apply IH. intros x Hx. apply Hl. right. exact Hx.
Qed.

Lemma existsb_eqb_true k (l : list N) : k ∈ l -> existsb (N.eqb k) l = true.
Proof.
  intros Hin. apply existsb_exists. exists k. split; [apply elem_of_list_In; exact Hin|apply N.eqb_refl].
Qed.

Lemma existsb_eqb_false k (l : list N) : k ∉ l -> existsb (N.eqb k) l = false.
Proof.
  intros Hn. destruct (existsb (N.eqb k) l) eqn:E; [|reflexivity].
  apply existsb_exists in E as (x & Hx & Hk). apply N.eqb_eq in Hk as <-.
  destruct Hn. apply elem_of_list_In. exact Hx.
Qed.

Section proj.
Context {A : Type} (g : N * A -> N).

(** [n] is the one node whose projection is [k] *)
Definition only_node (n k : N) (l : list (N * A)) : Prop :=
  forall p, p ∈ l -> (g p = k <-> p.1 = n).

Lemma only_node_cons n k p l : only_node n k (p :: l) -> only_node n k l.
Proof. intros H q Hq. apply H. right. exact Hq. Qed.

Lemma proj_remove_id n k (l : list (N * A)) :
  NoDup l.*1 -> only_node n k l ->
  g <$> remove_id n l = List.filter (fun x => negb (x =? k)) (g <$> l).
Proof.
  induction l as [|[m a] l IH]; intros Hnd Ho; [reflexivity|].
  rewrite fmap_cons in Hnd. apply NoDup_cons in Hnd as [Hm Hnd].
  cbn [remove_id]. rewrite fmap_cons. cbn [List.filter].
  destruct (N.eqb_spec m n) as [->|Hne].
  - assert (Hk : g (n, a) = k) by (apply (Ho (n, a)); [left|reflexivity]).
    rewrite Hk, N.eqb_refl. cbn [negb]. symmetry. apply filter_all_true.
    intros x Hx. apply elem_of_list_fmap in Hx as (p & -> & Hp).
    apply negb_true_iff, N.eqb_neq. intros Hgp.
    apply (Ho p) in Hgp; [|right; exact Hp]. apply Hm. cbn [fst] in *.
    apply elem_of_list_fmap. exists p. split; [symmetry; exact Hgp|exact Hp].
  - assert (Hk : g (m, a) <> k).
    { intros Hgp. apply (Ho (m, a)) in Hgp; [|left]. apply Hne. exact Hgp. }
    apply N.eqb_neq in Hk. rewrite Hk. cbn [negb]. rewrite fmap_cons. f_equal.
    apply IH; [exact Hnd|]. eapply only_node_cons. exact Ho.
Qed.

Lemma proj_mtb_id n k a (l : list (N * A)) :
  NoDup l.*1 -> only_node n k l -> (n, a) ∈ l ->
  g <$> mtb_id n l = touch k (g <$> l).
Proof.
  intros Hnd Ho Hin. unfold mtb_id, touch.
  rewrite (elem_find_id _ _ _ Hnd Hin).
  assert (Hk : g (n, a) = k) by (apply (Ho (n, a)); [exact Hin|reflexivity]).
  rewrite existsb_eqb_true.
  - rewrite fmap_app, (proj_remove_id n k l Hnd Ho). cbn [fmap list_fmap]. rewrite Hk. reflexivity.
  - apply elem_of_list_fmap. exists (n, a). split; [symmetry; exact Hk|exact Hin].
Qed.
End proj.

Lemma only_node_fst {A} n (l : list (N * A)) : only_node fst n n l.
Proof. intros p _. reflexivity. Qed.

(** node ids after a move-to-back *)
Lemma fst_mtb_id {A} n (l : list (N * A)) : NoDup l.*1 -> (mtb_id n l).*1 = touch_id n l.*1.
Proof.
  intros Hnd. rewrite touch_id_touch. destruct (find_id n l) as [a|] eqn:E.
  - apply (proj_mtb_id fst n n a l Hnd (only_node_fst n l)). apply find_id_Some_elem. exact E.
  - unfold mtb_id, touch. rewrite E, existsb_eqb_false; [reflexivity|].
    apply find_id_None_notin. exact E.
Qed.

Lemma mtb_id_perm {A} n (l : list (N * A)) : mtb_id n l ≡ₚ l.
Proof.
  unfold mtb_id. destruct (find_id n l) as [a|] eqn:E; [|reflexivity].
  apply remove_id_perm. exact E.
Qed.

Lemma elem_mtb_id {A} n (l : list (N * A)) p : p ∈ mtb_id n l <-> p ∈ l.
Proof. rewrite (mtb_id_perm n l). reflexivity. Qed.

Lemma sdeq_mtb_Ok {A} n (l p : list (N * A)) : sdeq_move_to_back n l = Ok p -> p = mtb_id n l.
Proof.
  unfold sdeq_move_to_back, mtb_id. destruct (find_id n l); [|discriminate]. intros [= <-]. reflexivity.
Qed.

Lemma keys_of_proj (l : list (N * saonode)) : keys_of l = (fun p => sa_key p.2) <$> l.
Proof. unfold keys_of. rewrite <- list_fmap_compose. reflexivity. Qed.

(* ------------------------------------------------------------------ *)
(** * What one applied read does to the fields of the state (pure computation) *)

(** the EntryInfo [j] after the read op [o] has been applied to [s] *)
Definition read_info (s : sstate) (o : readop) (j : N) : sinfo :=
  match o with
  | RHit _ ve ts =>
    let x := get_info s j in
    if (j =? ve_info s ve) && (si_la x <? ts) then si_set_la ts x else x
  | RMiss _ => get_info s j
  end.

Lemma apply_read_fields s o s1 :
  apply_read s o = Ok s1 ->
  s_prob s1 = match read_target s o with Some n => mtb_id n (s_prob s) | None => s_prob s end /\
  s_wo s1 = s_wo s /\ s_map s1 = s_map s /\ s_ves s1 = s_ves s /\
  s_rq s1 = s_rq s /\ s_wq s1 = s_wq s /\ s_ec s1 = s_ec s /\ s_ws s1 = s_ws s /\
  (forall j, get_info s1 j = read_info s o j).
Proof.
  intros E. destruct o as [h ve ts|h]; cbn [apply_read] in E;
    destruct (increment (s_sk s) h) as [sk|]; cbn [rbind] in E; try discriminate.
  2:{ injection E as <-. repeat split. }
  cbv zeta in E.
  set (s0 := sset_sk s sk (s_skon s)) in *.
  change (ve_info s0 ve) with (ve_info s ve) in E.
  set (i := ve_info s ve) in *.
  change (get_info s0 i) with (get_info s i) in E.
  assert (Hinfo : forall s2, s2 = (if si_la (get_info s i) <? ts then upd_info s0 i (si_set_la ts) else s0) ->
    forall j, get_info s2 j = read_info s (RHit h ve ts) j).
  { clear E. intros s2 -> j. cbn [read_info]. fold i. destruct (N.eqb_spec j i) as [->|Hne]; cbn [andb].
    - destruct (si_la (get_info s i) <? ts); [rewrite get_info_upd_same|]; reflexivity.
    - destruct (si_la (get_info s i) <? ts); [rewrite get_info_upd_ne by exact Hne|]; reflexivity. }
  set (s2 := if si_la (get_info s i) <? ts then upd_info s0 i (si_set_la ts) else s0) in *.
  specialize (Hinfo s2 eq_refl).
  assert (Hf2 : s_prob s2 = s_prob s /\ s_wo s2 = s_wo s /\ s_map s2 = s_map s /\ s_ves s2 = s_ves s /\
    s_rq s2 = s_rq s /\ s_wq s2 = s_wq s /\ s_ec s2 = s_ec s /\ s_ws s2 = s_ws s).
  { subst s2. destruct (si_la (get_info s i) <? ts); repeat split. }
  assert (Hadm : si_admitted (get_info s2 i) = si_admitted (get_info s i) /\
                 si_ao (get_info s2 i) = si_ao (get_info s i)).
  { rewrite Hinfo. cbn [read_info]. fold i. rewrite N.eqb_refl. cbn [andb].
    destruct (si_la (get_info s i) <? ts); split; reflexivity. }
  clearbody s2. destruct Hadm as [Ha Hao].
  destruct Hf2 as (F1 & F2 & F3 & F4 & F5 & F6 & F7 & F8).
  cbn [read_target]. cbv zeta. fold i. rewrite Ha in E.
  destruct (si_admitted (get_info s i)).
  - unfold s_move_to_back_ao in E. rewrite Hao in E.
    destruct (si_ao (get_info s i)) as [n|].
    + destruct (sdeq_move_to_back n (s_prob s2)) as [p|] eqn:Ep; cbn [rbind] in E; [|discriminate].
      injection E as <-. apply sdeq_mtb_Ok in Ep. rewrite F1 in Ep.
      split; [exact Ep|]. repeat (split; [assumption|]). exact Hinfo.
    + injection E as <-. repeat (split; [assumption|]). exact Hinfo.
  - injection E as <-. repeat (split; [assumption|]). exact Hinfo.
Qed.

Lemma read_info_adm_ao s o j :
  si_admitted (read_info s o j) = si_admitted (get_info s j) /\
  si_ao (read_info s o j) = si_ao (get_info s j) /\
  si_weight (read_info s o j) = si_weight (get_info s j).
Proof.
  destruct o as [h ve ts|h]; cbn [read_info]; [|repeat split].
  destruct ((j =? ve_info s ve) && (si_la (get_info s j) <? ts)); repeat split.
Qed.

Lemma read_target_ext s s' o :
  s_ves s' = s_ves s ->
  (forall j, si_admitted (get_info s' j) = si_admitted (get_info s j) /\
             si_ao (get_info s' j) = si_ao (get_info s j)) ->
  read_target s' o = read_target s o.
Proof.
  intros Hv Hi. destruct o as [h ve ts|h]; [|reflexivity]. cbn [read_target]. cbv zeta.
  rewrite (ve_info_ext s s') by exact Hv.
  destruct (Hi (ve_info s ve)) as [-> ->]. reflexivity.
Qed.

(* ------------------------------------------------------------------ *)
(** * General form: the node order after applying [n] queued reads *)

(** the step function of the fold, on nodes and on node ids *)
Definition read_move {A} (s : sstate) (l : list (N * A)) (o : readop) : list (N * A) :=
  match read_target s o with Some nid => mtb_id nid l | None => l end.
Definition read_touch (s : sstate) (l : list N) (o : readop) : list N :=
  match read_target s o with Some nid => touch_id nid l | None => l end.

Lemma foldl_ext_fun {B C} (f g : B -> C -> B) (b : B) (l : list C) :
  (forall x y, f x y = g x y) -> foldl f b l = foldl g b l.
Proof.
  intros Hfg. revert b. induction l as [|a l IH]; intros b; cbn [foldl]; [reflexivity|].
  rewrite Hfg. apply IH.
Qed.

Lemma read_move_perm {A} s (l : list (N * A)) o : read_move s l o ≡ₚ l.
Proof. unfold read_move. destruct (read_target s o); [apply mtb_id_perm|reflexivity]. Qed.

Lemma foldl_read_move_perm {A} s (ops : list readop) : forall l : list (N * A),
  foldl (read_move s) l ops ≡ₚ l.
Proof.
  induction ops as [|o ops IH]; intros l; cbn [foldl]; [reflexivity|].
  rewrite IH. apply read_move_perm.
Qed.

Lemma foldl_read_move_fst {A} s (ops : list readop) : forall l : list (N * A),
  NoDup l.*1 -> (foldl (read_move s) l ops).*1 = foldl (read_touch s) l.*1 ops.
Proof.
  induction ops as [|o ops IH]; intros l Hnd; cbn [foldl]; [reflexivity|].
  rewrite IH.
  - f_equal. unfold read_move, read_touch. destruct (read_target s o); [|reflexivity].
    apply fst_mtb_id. exact Hnd.
  - eapply perm_fst_NoDup; [apply read_move_perm|exact Hnd].
Qed.

Lemma apply_reads_fields c extra : forall n s s',
  scfg_ok c -> SInvQ c extra s ->
  sk_load_s s + 4 * N.of_nat (length (s_rq s)) < 2 ^ 28 ->
  apply_reads s n = Ok s' ->
  s_prob s' = foldl (read_move s) (s_prob s) (take n (s_rq s)) /\
  s_wo s' = s_wo s /\
  (forall j, si_admitted (get_info s' j) = si_admitted (get_info s j) /\
             si_ao (get_info s' j) = si_ao (get_info s j) /\
             si_weight (get_info s' j) = si_weight (get_info s j)).
Proof.
  induction n as [|n IH]; intros s s' Hc H Hload E.
  - injection E as <-. repeat split.
  - cbn [apply_reads] in E. destruct (s_rq s) as [|o rest] eqn:Hrq.
    + injection E as <-. repeat split.
    + destruct (apply_read (sset_rq s rest) o) as [s1|] eqn:E1; cbn [rbind] in E; [|discriminate].
      destruct (apply_read_inv c extra s o rest Hc H Hrq) as (s1' & E1' & H1 & F1 & _ & _ & F4 & _ & _ & _ & _ & _ & _ & F11).
      { cbn [length] in Hload. lia. }
      rewrite E1 in E1'. injection E1' as <-.
      destruct (apply_read_fields _ _ _ E1) as (P1 & P2 & _ & _ & _ & _ & _ & _ & P9).
      change (s_prob (sset_rq s rest)) with (s_prob s) in P1.
      change (read_target (sset_rq s rest) o) with (read_target s o) in P1.
      change (s_wo (sset_rq s rest)) with (s_wo s) in P2.
      assert (Hadm : forall j, si_admitted (get_info s1 j) = si_admitted (get_info s j) /\
                               si_ao (get_info s1 j) = si_ao (get_info s j) /\
                               si_weight (get_info s1 j) = si_weight (get_info s j)).
      { intros j. rewrite P9. apply (read_info_adm_ao (sset_rq s rest) o j). }
      destruct (IH s1 s' Hc H1) as (Q1 & Q2 & Q3); [|exact E|].
      { rewrite F1. cbn [length] in Hload. lia. }
      rewrite F1 in Q1. split; [|split].
      * cbn [take foldl]. rewrite Q1, P1. apply foldl_ext_fun. intros l o'. unfold read_move.
        rewrite (read_target_ext s s1 o'); [reflexivity|exact F4|].
        intros j. destruct (Hadm j) as (A1 & A2 & _). split; assumption.
      * rewrite Q2. exact P2.
      * intros j. destruct (Q3 j) as (B1 & B2 & B3). destruct (Hadm j) as (A1 & A2 & A3).
        repeat split; congruence.
Qed.

Lemma small_load s : s_small s -> qlen (s_rq s) <= READ_LOG_FLUSH_POINT ->
  sk_load_s s + 4 * N.of_nat (length (s_rq s)) < 2 ^ 28.
Proof.
  intros [_ Hs] Hq. unfold sk_load_s, qlen in *. pose proof c_flush_r_le.
  change (2 ^ 28) with 268435456. change (2 ^ 27) with 134217728 in Hs. lia.
Qed.

Theorem apply_reads_recency c s n s' :
  scfg_ok c -> SInv c s -> s_small s -> apply_reads s n = Ok s' ->
  (s_prob s').*1 = foldl (fun l o => match read_target s o with Some nid => touch_id nid l | None => l end)
                         (s_prob s).*1 (take n (s_rq s)) /\
  (forall nid nd, (nid, nd) ∈ s_prob s' <-> (nid, nd) ∈ s_prob s).
Proof.
  intros Hc H Hs E.
  destruct (apply_reads_fields c [] n s s' Hc H (small_load s Hs (sq_rq _ _ _ H)) E) as (P & _).
  rewrite P. split.
  - apply (foldl_read_move_fst s (take n (s_rq s)) (s_prob s)). exact (sn_nodup_ao _ _ _ H).
  - intros nid nd. rewrite (foldl_read_move_perm s (take n (s_rq s)) (s_prob s)). reflexivity.
Qed.

(* ------------------------------------------------------------------ *)
(** * The node of an admitted map entry is the only node of its key *)

Lemma hot_node c q s k ve :
  SInvG c q s -> no_removes q -> s_map s !! k = Some ve ->
  si_admitted (get_info s (ve_info s ve)) = true ->
  exists n nd, si_ao (get_info s (ve_info s ve)) = Some n /\ (n, nd) ∈ s_prob s /\
    only_node (fun p : N * saonode => sa_key p.2) n k (s_prob s).
Proof.
  intros H Hq Hm Ha.
  destruct (SInvWrites.ve_ok_info _ _ _ (gv_map _ _ _ H _ _ Hm)) as (x & Hi & Hkx).
  rewrite (get_info_Some _ _ _ Hi) in *.
  destruct (proj1 (proj1 (gn_admitted _ _ _ H _ _ Hi)) Ha) as (n & Hn).
  destruct (gn_info_ao _ _ _ H _ _ _ Hi Hn) as (nd & Hin & Hnd).
  exists n, nd. split; [exact Hn|]. split; [exact Hin|].
  intros [m nd'] Hin'. cbn [fst snd]. split.
  - intros Hk. destruct (node_clean _ _ _ _ _ H Hq Hin') as (x' & ve' & Hx' & Hao' & _ & _ & Hm' & Hve').
    rewrite Hk, Hm in Hm'. injection Hm' as <-. rewrite <- Hve', Hi in Hx'. injection Hx' as <-.
    congruence.
  - intros ->. rewrite (nodup_fst_unique _ _ _ _ (gn_nodup_ao _ _ _ H) Hin' Hin).
    destruct (gn_ao_info _ _ _ H _ _ Hin) as (x0 & Hx0 & _ & Hk0 & _).
    rewrite Hnd, Hi in Hx0. injection Hx0 as <-. congruence.
Qed.

Lemma hot_touch c q s k ve :
  SInvG c q s -> no_removes q -> s_map s !! k = Some ve ->
  si_admitted (get_info s (ve_info s ve)) = true ->
  exists n, si_ao (get_info s (ve_info s ve)) = Some n /\
    keys_of (mtb_id n (s_prob s)) = touch k (keys_of (s_prob s)) /\ k ∈ keys_of (s_prob s).
Proof.
  intros H Hq Hm Ha. destruct (hot_node _ _ _ _ _ H Hq Hm Ha) as (n & nd & Hn & Hin & Ho).
  exists n. split; [exact Hn|]. rewrite !keys_of_proj. split.
  - apply (proj_mtb_id _ n k nd); [exact (gn_nodup_ao _ _ _ H)|exact Ho|exact Hin].
  - apply elem_of_list_fmap. exists (n, nd). split; [|exact Hin].
    symmetry. apply (Ho (n, nd) Hin). reflexivity.
Qed.

(* ------------------------------------------------------------------ *)
(** * One recorded hit of an admitted entry *)

(** the only thing queued is one recorded hit of key k, whose entry is the map's and is admitted *)
Definition pending_hit (s : sstate) (k h ve ts : N) : Prop :=
  s_wq s = [] /\ s_rq s = [RHit h ve ts] /\ s_map s !! k = Some ve /\
  si_admitted (get_info s (ve_info s ve)) = true.

Lemma small_load_1 s : s_small s -> sk_load_s s + 4 * N.of_nat 1 < 2 ^ 28.
Proof.
  intros [_ Hs]. unfold sk_load_s.
  change (2 ^ 28) with 268435456. change (2 ^ 27) with 134217728 in Hs. lia.
Qed.

(** applying the single queued read op [o] *)
Lemma apply_reads_single c s o s' :
  scfg_ok c -> SInv c s -> s_small s -> s_rq s = [o] -> apply_reads s 1 = Ok s' ->
  SInv c s' /\ s_rq s' = [] /\ s_wq s' = s_wq s /\ s_view s' = s_view s /\
  s_ws s' = s_ws s /\ s_ec s' = s_ec s /\ s_wo s' = s_wo s /\ s_ves s' = s_ves s /\
  s_prob s' = read_move s (s_prob s) o /\
  (forall j, get_info s' j = read_info s o j).
Proof.
  intros Hc H Hs Hrq E.
  destruct (apply_reads_inv c [] 1 s Hc H (small_load_1 s Hs))
    as (s'' & E' & H' & Rrq & Rwq & Rmap & Rves & _ & _ & Rec & Rws & _).
  rewrite E in E'. injection E' as <-.
  split; [exact H'|]. split; [rewrite Rrq, Hrq; reflexivity|]. split; [exact Rwq|].
  split. { rewrite (s_view_ext s s' (s_map s) Rves Rmap). symmetry. apply s_view_eq. }
  split; [exact Rws|]. split; [exact Rec|].
  cbn [apply_reads] in E. rewrite Hrq in E.
  destruct (apply_read (sset_rq s []) o) as [s1|] eqn:E1; cbn [rbind] in E; [|discriminate].
  injection E as ->.
  destruct (apply_read_fields _ _ _ E1) as (P1 & P2 & _ & _ & _ & _ & _ & _ & P9).
  split; [exact P2|]. split; [exact Rves|]. split; [exact P1|exact P9].
Qed.

Theorem s_pending_hit_outcome c s k h ve ts s' :
  scfg_ok c -> SInv c s -> s_small s -> pending_hit s k h ve ts ->
  apply_reads s 1 = Ok s' ->
  SInv c s' /\ quiescent s' /\
  s_lru_keys s' = touch k (s_lru_keys s) /\ k ∈ s_lru_keys s /\
  s_view s' = s_view s /\ s_ws s' = s_ws s /\ s_ec s' = s_ec s /\ s_wo s' = s_wo s /\
  si_la (get_info s' (ve_info s' ve)) = N.max (si_la (get_info s (ve_info s ve))) ts.
Proof.
  intros Hc H Hs (Hwq & Hrq & Hm & Ha) E.
  destruct (apply_reads_single c s _ s' Hc H Hs Hrq E)
    as (H' & Rrq & Rwq & Rview & Rws & Rec & Rwo & Rves & Rprob & Rinfo).
  split; [exact H'|]. split; [split; [exact Rrq|rewrite Rwq; exact Hwq]|].
  assert (HG : SInvG c [] s).
  { apply SInvQ_G in H as [HG _]. rewrite Hwq in HG. exact HG. }
  destruct (hot_touch c [] s k ve HG no_removes_nil Hm Ha) as (n & Hn & Hk & Hin).
  rewrite !s_lru_keys_eq.
  split. { rewrite Rprob. unfold read_move. cbn [read_target]. cbv zeta. rewrite Ha, Hn. exact Hk. }
  split; [exact Hin|]. split; [exact Rview|]. split; [exact Rws|]. split; [exact Rec|].
  split; [exact Rwo|].
  rewrite (ve_info_ext s s' ve Rves), Rinfo. cbn [read_info]. cbv zeta.
  rewrite N.eqb_refl. cbn [andb].
  destruct (N.ltb_spec (si_la (get_info s (ve_info s ve))) ts) as [Hlt|Hge]; cbn [si_la si_set_la]; lia.
Qed.

(* ------------------------------------------------------------------ *)
(** * A recorded miss, or a hit of an entry that is not admitted (yet, or any more) *)

Theorem s_pending_miss_outcome c s h s' :
  scfg_ok c -> SInv c s -> s_small s -> s_wq s = [] -> s_rq s = [RMiss h] ->
  apply_reads s 1 = Ok s' ->
  SInv c s' /\ quiescent s' /\ s_prob s' = s_prob s /\ s_wo s' = s_wo s /\
  s_view s' = s_view s /\ s_ws s' = s_ws s /\ s_ec s' = s_ec s.
Proof.
  intros Hc H Hs Hwq Hrq E.
  destruct (apply_reads_single c s _ s' Hc H Hs Hrq E)
    as (H' & Rrq & Rwq & Rview & Rws & Rec & Rwo & Rves & Rprob & Rinfo).
  split; [exact H'|]. split; [split; [exact Rrq|rewrite Rwq; exact Hwq]|].
  split; [exact Rprob|]. split; [exact Rwo|]. split; [exact Rview|]. split; [exact Rws|exact Rec].
Qed.

(** Additional: the hit of an entry that is not admitted does not touch the order either.  The
    write queue is left arbitrary (in the sequential regime such a hit is only ever queued together
    with the write op of its entry, see [s_cold_hit_example]), so the conclusion says that the read
    queue is drained and the write queue kept, instead of [quiescent]. *)
Theorem s_pending_cold_hit_outcome c s h ve ts s' :
  scfg_ok c -> SInv c s -> s_small s -> s_rq s = [RHit h ve ts] ->
  si_admitted (get_info s (ve_info s ve)) = false ->
  apply_reads s 1 = Ok s' ->
  SInv c s' /\ s_rq s' = [] /\ s_wq s' = s_wq s /\ s_prob s' = s_prob s /\ s_wo s' = s_wo s /\
  s_view s' = s_view s /\ s_ws s' = s_ws s /\ s_ec s' = s_ec s /\
  si_la (get_info s' (ve_info s' ve)) = N.max (si_la (get_info s (ve_info s ve))) ts.
Proof.
  intros Hc H Hs Hrq Hna E.
  destruct (apply_reads_single c s _ s' Hc H Hs Hrq E)
    as (H' & Rrq & Rwq & Rview & Rws & Rec & Rwo & Rves & Rprob & Rinfo).
  split; [exact H'|]. split; [exact Rrq|]. split; [exact Rwq|].
  split. { rewrite Rprob. unfold read_move. cbn [read_target]. cbv zeta. rewrite Hna. reflexivity. }
  split; [exact Rwo|]. split; [exact Rview|]. split; [exact Rws|]. split; [exact Rec|].
  rewrite (ve_info_ext s s' ve Rves), Rinfo. cbn [read_info]. cbv zeta.
  rewrite N.eqb_refl. cbn [andb].
  destruct (N.ltb_spec (si_la (get_info s (ve_info s ve))) ts) as [Hlt|Hge]; cbn [si_la si_set_la]; lia.
Qed.

(* ------------------------------------------------------------------ *)
(** * The write op of an update of an admitted entry *)

(** the only thing queued is the write op of an update of the admitted entry of key k *)
Definition pending_update (c : scfg) (s : sstate) (k ve ow nw : N) : Prop :=
  s_rq s = [] /\ s_wq s = [WUpsert k (sc_hash c k) ve ow nw] /\
  s_map s !! k = Some ve /\ si_admitted (get_info s (ve_info s ve)) = true.

Lemma s_move_to_back_ao_fields s i s' :
  s_move_to_back_ao s i = Ok s' ->
  s' = sset_prob s (match si_ao (get_info s i) with Some n => mtb_id n (s_prob s) | None => s_prob s end).
Proof.
  unfold s_move_to_back_ao. destruct (si_ao (get_info s i)) as [n|].
  - destruct (sdeq_move_to_back n (s_prob s)) as [p|] eqn:Ep; cbn [rbind]; [|discriminate].
    intros [= <-]. apply sdeq_mtb_Ok in Ep. rewrite Ep. reflexivity.
  - intros [= <-]. symmetry. apply sset_prob_id.
Qed.

Lemma s_move_to_back_wo_fields s i s' :
  s_move_to_back_wo s i = Ok s' -> exists w, s' = sset_wo s w.
Proof.
  unfold s_move_to_back_wo. destruct (si_wo (get_info s i)) as [n|].
  - destruct (sdeq_move_to_back n (s_wo s)) as [w|]; cbn [rbind]; [|discriminate].
    intros [= <-]. exists w. reflexivity.
  - intros [= <-]. exists (s_wo s). symmetry. apply sset_wo_id.
Qed.

(** [handle_upsert] on the op that carries the map's current ValueEntry of an admitted entry
    (pure computation) *)
Lemma handle_upsert_update_fields c s k h ve ow nw s' :
  s_map s !! k = Some ve -> si_admitted (get_info s (ve_info s ve)) = true ->
  handle_upsert c s k h ve ow nw = Ok s' ->
  s_prob s' = match si_ao (get_info s (ve_info s ve)) with
              | Some n => mtb_id n (s_prob s) | None => s_prob s end /\
  s_map s' = s_map s /\ s_ves s' = s_ves s /\ s_ec s' = s_ec s /\
  s_ws s' = sat_add64 (sat_sub (s_ws s) (si_weight (get_info s (ve_info s ve)))) nw /\
  get_info s' (ve_info s ve) = si_set_weight nw (si_set_dirty false (get_info s (ve_info s ve))).
Proof.
  intros Hm Ha E. unfold handle_upsert in E. cbv zeta in E.
  set (i := ve_info s ve) in *.
  rewrite !get_info_upd_same in E. cbn [si_admitted si_set_dirty si_weight] in E. rewrite Ha in E.
  change (s_map (upd_info s i (si_set_dirty false))) with (s_map s) in E.
  rewrite Hm, N.eqb_refl in E.
  match type of E with context [s_move_to_back_ao ?t i] => set (t1 := t) in * end.
  assert (Hg1 : get_info t1 i = si_set_weight nw (si_set_dirty false (get_info s i))).
  { subst t1. repeat sinf. reflexivity. }
  destruct (s_move_to_back_ao t1 i) as [s3|] eqn:E3; cbn [rbind] in E; [|discriminate].
  apply s_move_to_back_ao_fields in E3. rewrite Hg1 in E3. cbn [si_ao si_set_weight si_set_dirty] in E3.
  apply s_move_to_back_wo_fields in E as (w & ->). rewrite E3.
  split; [reflexivity|]. split; [reflexivity|]. split; [reflexivity|]. split; [reflexivity|].
  split; [reflexivity|]. repeat sinf. exact Hg1.
Qed.

Lemma ws_update_arith ws wx nw rest nxt :
  ws = rest + wx -> ws <= nxt * two32 -> nxt < 2147483648 -> nw < two32 ->
  sat_add64 (sat_sub ws wx) nw + wx = ws + nw.
Proof.
  intros Hws Hb Hn Hnw. unfold sat_add64, sat_sub, u64_max, two32 in *. lia.
Qed.

(** the same with the invariant: the order is touched at [k], the weight is re-accounted *)
Lemma handle_upsert_update c t k ve ow nw s' :
  scfg_ok c -> SInvG c [WUpsert k (sc_hash c k) ve ow nw] t -> s_next t < 2147483648 ->
  s_map t !! k = Some ve -> si_admitted (get_info t (ve_info t ve)) = true ->
  handle_upsert c t k (sc_hash c k) ve ow nw = Ok s' ->
  keys_of (s_prob s') = touch k (keys_of (s_prob t)) /\ k ∈ keys_of (s_prob t) /\
  s_view s' = s_view t /\ s_ec s' = s_ec t /\
  s_ws s' + si_weight (get_info t (ve_info t ve)) = s_ws t + nw /\
  si_weight (get_info s' (ve_info s' ve)) = nw.
Proof.
  intros Hc HG Hnext Hm Ha Eu.
  destruct (handle_upsert_update_fields c t k _ ve ow nw s' Hm Ha Eu) as (P1 & P2 & P3 & P4 & P5 & P6).
  destruct (hot_touch c _ t k ve HG (no_removes_upsert _ _ _ _ _) Hm Ha) as (n & Hn & Hk & Hin).
  split. { rewrite P1, Hn. exact Hk. }
  split; [exact Hin|].
  split. { rewrite (s_view_ext t s' (s_map t) P3 P2). symmetry. apply s_view_eq. }
  split; [exact P4|].
  split.
  - rewrite P5.
    destruct (upsert_head_facts _ _ _ _ _ _ _ _ Hc HG) as (x & Hi & _ & _ & _ & Hnwlt & _).
    rewrite (get_info_Some _ _ _ Hi) in Ha |- *.
    pose proof (ga_ws _ _ _ HG) as Gws. rewrite admitted_infos_adm in Gws.
    pose proof (adm_weight_bound _ _ (gv_infos_lt _ _ _ HG) (ga_weight_lt _ _ _ HG)) as Hb.
    destruct (adm_split _ _ _ Hi) as [_ Hwt]. unfold wt_of in Hwt. rewrite Ha in Hwt.
    rewrite <- Gws in Hwt, Hb.
    exact (ws_update_arith _ _ _ _ _ Hwt Hb Hnext Hnwlt).
  - rewrite (ve_info_ext t s' ve P3), P6. reflexivity.
Qed.

Theorem s_pending_update_outcome c s k ve ow nw s' :
  scfg_ok c -> SInv c s -> s_small s -> pending_update c s k ve ow nw ->
  apply_writes c s 1 = Ok s' ->
  SInv c s' /\ quiescent s' /\
  s_lru_keys s' = touch k (s_lru_keys s) /\ k ∈ s_lru_keys s /\
  s_view s' = s_view s /\ s_ec s' = s_ec s /\
  s_ws s' + si_weight (get_info s (ve_info s ve)) = s_ws s + nw /\
  si_weight (get_info s' (ve_info s' ve)) = nw.
Proof.
  intros Hc H [Hs1 Hs2] (Hrq & Hwq & Hm & Ha) E.
  rewrite pow2_31 in Hs1.
  destruct (apply_writes_inv c [] 1 s Hc H) as (s'' & E' & H' & Wwq & Wrq & _).
  { change (2 ^ 32) with 4294967296. lia. }
  rewrite E in E'. injection E' as <-.
  split; [exact H'|]. split; [split; [rewrite Wrq; exact Hrq|rewrite Wwq, Hwq; reflexivity]|].
  cbn [apply_writes] in E. rewrite Hwq in E. cbn [apply_write] in E.
  destruct (handle_upsert c (sset_wq s []) k (sc_hash c k) ve ow nw) as [s1|] eqn:Eu;
    cbn [rbind] in E; [|discriminate].
  injection E as ->.
  apply SInvQ_G in H as [HG _]. rewrite Hwq in HG. cbn [app] in HG.
  apply (SInvG_wq_irrel _ _ _ []) in HG.
  exact (handle_upsert_update c (sset_wq s []) k ve ow nw s' Hc HG Hs1 Hm Ha Eu).
Qed.

(* ------------------------------------------------------------------ *)
(** * Non-vacuity: concrete reachable states *)

Definition ex_after_reads (s : sstate) (n : nat) : sstate :=
  match apply_reads s n with Ok s' => s' | Err _ => s_init end.
Definition ex_after_writes (c : scfg) (s : sstate) : sstate :=
  match apply_writes c s 1 with Ok s' => s' | Err _ => s_init end.

(** a second configuration: capacity 100, weigher [v mod 16] *)
Definition exw_cfg : scfg :=
  mkSCfg (Some 100) None None (Some (fun _ v => v mod 16)) (fun k => k mod two64).

Lemma exw_cfg_ok : scfg_ok exw_cfg.
Proof.
  split.
  - intros f k v [= <-]. pose proof (N.mod_lt v 16). unfold two32. lia.
  - intros k. cbn [sc_hash exw_cfg]. apply N.mod_lt. discriminate.
Qed.

Definition exw_state (ops : list sop) : sstate :=
  match srun_ops exw_cfg srun_init ops with Ok (r, _) => sr_state r | Err _ => s_init end.

Lemma exw_state_inv ops : N.of_nat (length ops) < 2 ^ 18 -> SInv exw_cfg (exw_state ops).
Proof.
  intros Hl. destruct (srun_safe exw_cfg ops exw_cfg_ok Hl) as (r & outs & E & W).
  unfold exw_state. rewrite E. exact W.
Qed.

Ltac ex_inv lem := apply lem; rewrite pow2_18; vm_compute; reflexivity.
Ltac ex_small := split; [rewrite pow2_31|rewrite pow2_27']; vm_compute; reflexivity.

(** keys 1 and 2 are resident (1 is the LRU one), then key 1 is looked up: the recorded hit is the
    only thing queued; applying it makes 2 the LRU key. *)
Definition ex_hit : list sop := [SInsert 1 10; SSync; SInsert 2 20; SSync; SGet 1].

Example s_pending_hit_example :
  let s := ex_state ex_hit in
  let s' := ex_after_reads s 1 in
  (scfg_ok ex_cfg /\ SInv ex_cfg s /\ s_small s /\
   pending_hit s 1 (sc_hash ex_cfg 1) (ex_ve s 1) 0 /\ apply_reads s 1 = Ok s') /\
  s_lru_keys s = [1; 2] /\ s_lru_keys s' = [2; 1] /\ s_lru_keys s' <> s_lru_keys s.
Proof.
  cbv zeta. split.
  - split; [exact ex_cfg_ok|]. split; [ex_inv ex_state_inv|]. split; [ex_small|].
    split; [unfold pending_hit, pending_update; repeat match goal with |- _ /\ _ => split end; vm_compute; reflexivity|vm_compute; reflexivity].
  - split; [vm_compute; reflexivity|]. split; [vm_compute; reflexivity|]. vm_compute. discriminate.
Qed.

(** a look-up of an absent key: the recorded miss does not touch the order *)
Definition ex_miss : list sop := [SInsert 1 10; SSync; SInsert 2 20; SSync; SGet 7].

Example s_pending_miss_example :
  let s := ex_state ex_miss in
  let s' := ex_after_reads s 1 in
  (scfg_ok ex_cfg /\ SInv ex_cfg s /\ s_small s /\ s_wq s = [] /\
   s_rq s = [RMiss (sc_hash ex_cfg 7)] /\ apply_reads s 1 = Ok s') /\
  s_lru_keys s = [1; 2] /\ s_lru_keys s' = [1; 2].
Proof.
  cbv zeta. split.
  - split; [exact ex_cfg_ok|]. split; [ex_inv ex_state_inv|]. split; [ex_small|].
    unfold pending_hit, pending_update; repeat match goal with |- _ /\ _ => split end; vm_compute; reflexivity.
  - split; vm_compute; reflexivity.
Qed.

(** key 2 is inserted and looked up while no maintenance runs (the clock is past the periodical
    sync point): its hit is queued while its own write op is still queued too; the entry is not
    admitted yet and the hit does not touch the order *)
Definition ex_coldhit : list sop :=
  [SInsert 1 10; SSync; SAdvance (sync_interval + 1); SInsert 2 20; SGet 2].

Example s_cold_hit_example :
  let s := ex_state ex_coldhit in
  let s' := ex_after_reads s 1 in
  (scfg_ok ex_cfg /\ SInv ex_cfg s /\ s_small s /\
   s_rq s = [RHit (sc_hash ex_cfg 2) (ex_ve s 2) (sync_interval + 1)] /\
   si_admitted (get_info s (ve_info s (ex_ve s 2))) = false /\ apply_reads s 1 = Ok s') /\
  s_wq s = [WUpsert 2 (sc_hash ex_cfg 2) (ex_ve s 2) 0 1] /\
  s_lru_keys s = [1] /\ s_lru_keys s' = [1].
Proof.
  cbv zeta. split.
  - split; [exact ex_cfg_ok|]. split; [ex_inv ex_state_inv|]. split; [ex_small|].
    unfold pending_hit, pending_update; repeat match goal with |- _ /\ _ => split end; vm_compute; reflexivity.
  - unfold pending_hit, pending_update; repeat match goal with |- _ /\ _ => split end; vm_compute; reflexivity.
Qed.

(** keys 1 (weight 3) and 2 (weight 4) are resident, then key 1 is overwritten by a value of
    weight 7: the write op of the update is the only thing queued; applying it makes 2 the LRU key
    and accounts for the new weight. *)
Definition ex_upd : list sop := [SInsert 1 3; SSync; SInsert 2 4; SSync; SInsert 1 7].

Example s_pending_update_example :
  let s := exw_state ex_upd in
  let s' := ex_after_writes exw_cfg s in
  (scfg_ok exw_cfg /\ SInv exw_cfg s /\ s_small s /\
   pending_update exw_cfg s 1 (ex_ve s 1) 3 7 /\ apply_writes exw_cfg s 1 = Ok s') /\
  s_lru_keys s = [1; 2] /\ s_lru_keys s' = [2; 1] /\ s_lru_keys s' <> s_lru_keys s /\
  s_ws s = 7 /\ s_ws s' = 11 /\ si_weight (get_info s (ve_info s (ex_ve s 1))) = 3.
Proof.
  cbv zeta. split.
  - split; [exact exw_cfg_ok|]. split; [ex_inv exw_state_inv|]. split; [ex_small|].
    split; [unfold pending_hit, pending_update; repeat match goal with |- _ /\ _ => split end; vm_compute; reflexivity|vm_compute; reflexivity].
  - split; [vm_compute; reflexivity|]. split; [vm_compute; reflexivity|].
    split; [vm_compute; discriminate|]. unfold pending_hit, pending_update; repeat match goal with |- _ /\ _ => split end; vm_compute; reflexivity.
Qed.

(** three residents, then four look-ups (hit 1, miss 9, hit 2, hit 1) queued without maintenance *)
Definition ex_many : list sop :=
  [SInsert 1 3; SInsert 2 4; SInsert 3 5; SSync; SAdvance (sync_interval + 1);
   SGet 1; SGet 9; SGet 2; SGet 1].

Example apply_reads_recency_example :
  let s := exw_state ex_many in
  (scfg_ok exw_cfg /\ SInv exw_cfg s /\ s_small s /\
   apply_reads s 3 = Ok (ex_after_reads s 3) /\ apply_reads s 4 = Ok (ex_after_reads s 4)) /\
  read_target s <$> s_rq s = [Some 4; None; Some 7; Some 4] /\
  (s_prob s).*1 = [4; 7; 8] /\ s_lru_keys s = [1; 2; 3] /\
  (s_prob (ex_after_reads s 3)).*1 = [8; 4; 7] /\ s_lru_keys (ex_after_reads s 3) = [3; 1; 2] /\
  (s_prob (ex_after_reads s 4)).*1 = [8; 7; 4] /\ s_lru_keys (ex_after_reads s 4) = [3; 2; 1].
Proof.
  cbv zeta. split.
  - split; [exact exw_cfg_ok|]. split; [ex_inv exw_state_inv|]. split; [ex_small|].
    split; vm_compute; reflexivity.
  - unfold pending_hit, pending_update; repeat match goal with |- _ /\ _ => split end; vm_compute; reflexivity.
Qed.

(** the theorems instantiated on the example states agree with the computation *)
Example s_recency_examples_thm :
  (let s := ex_state ex_hit in
   s_lru_keys (ex_after_reads s 1) = touch 1 (s_lru_keys s) /\ 1 ∈ s_lru_keys s /\
   s_view (ex_after_reads s 1) = s_view s) /\
  (let s := exw_state ex_upd in
   s_lru_keys (ex_after_writes exw_cfg s) = touch 1 (s_lru_keys s) /\
   s_ws (ex_after_writes exw_cfg s) + 3 = s_ws s + 7) /\
  (let s := ex_state ex_miss in s_prob (ex_after_reads s 1) = s_prob s) /\
  (let s := ex_state ex_coldhit in s_prob (ex_after_reads s 1) = s_prob s) /\
  (let s := exw_state ex_many in
   (s_prob (ex_after_reads s 4)).*1 = touch_id 4 (touch_id 7 (touch_id 4 [4; 7; 8]))).
Proof.
  cbv zeta.
  destruct s_pending_hit_example as ((Hc & W & Hs & Hp & E) & _).
  destruct (s_pending_hit_outcome _ _ _ _ _ _ _ Hc W Hs Hp E) as (_ & _ & A1 & A2 & A3 & _).
  destruct s_pending_update_example as ((Hcu & Wu & Hsu & Hpu & Eu) & _ & _ & _ & _ & _ & Hw).
  destruct (s_pending_update_outcome _ _ _ _ _ _ _ Hcu Wu Hsu Hpu Eu) as (_ & _ & B1 & _ & _ & _ & B2 & _).
  rewrite Hw in B2.
  destruct s_pending_miss_example as ((_ & Wm & Hsm & Hwm & Hrm & Em) & _).
  destruct (s_pending_miss_outcome _ _ _ _ Hc Wm Hsm Hwm Hrm Em) as (_ & _ & C1 & _).
  destruct s_cold_hit_example as ((_ & Wc & Hsc & Hrc & Hnc & Ec) & _).
  destruct (s_pending_cold_hit_outcome _ _ _ _ _ _ Hc Wc Hsc Hrc Hnc Ec) as (_ & _ & _ & D1 & _).
  destruct apply_reads_recency_example as ((_ & Wn & Hsn & _ & En) & Ht & Hids & _).
  destruct (apply_reads_recency _ _ _ _ Hcu Wn Hsn En) as (F1 & _).
  split; [split; [exact A1|split; [exact A2|exact A3]]|].
  split; [split; [exact B1|exact B2]|]. split; [exact C1|]. split; [exact D1|].
  rewrite F1, Hids. vm_compute. reflexivity.
Qed.

Print Assumptions s_pending_hit_outcome.
Print Assumptions s_pending_update_outcome.
Print Assumptions s_pending_miss_outcome.
Print Assumptions apply_reads_recency.
Print Assumptions s_pending_cold_hit_outcome.
Print Assumptions s_pending_hit_example.
Print Assumptions s_pending_update_example.
Print Assumptions s_recency_examples_thm.

(** Summary.  The four contract theorems are proved exactly as stated in the task
    ([s_pending_hit_outcome], [s_pending_update_outcome], [s_pending_miss_outcome],
    [apply_reads_recency]); no hypothesis had to be added.  In particular [ow] of
    [pending_update] is unconstrained: the model sets the applied weight from [nw] alone when
    the op's ValueEntry is the map's current one.  [touch_id] has literally the body of [touch]
    ([touch_id_touch]).  Additional: [s_pending_cold_hit_outcome] (the hit of a not-admitted
    entry; arbitrary write queue, since such a hit is only reachable together with a queued write
    op), [apply_read_fields] / [apply_reads_fields] / [handle_upsert_update_fields] (the exact
    fields after a read / an update), [hot_node] (the node of an admitted map entry is the only
    node of its key when no removal is queued), and the examples. *)
