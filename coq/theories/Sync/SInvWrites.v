(** Preservation of the sync-model invariant [SInvQ] by the op-application layer
    (apply_reads / apply_writes / handle_remove / deque moves).  *)
From MM Require Export Sync.SInvDefs Sketch.SketchProofs.

(* ------------------------------------------------------------------ *)
(** * Id-tagged lists *)

Section idlists.
Context {A : Type}.
Implicit Types l : list (N * A).

Lemma find_id_Some_elem n l a : find_id n l = Some a -> (n, a) ∈ l.
Proof.
  induction l as [|[m b] r IH]; cbn [find_id]; [discriminate|].
  destruct (N.eqb_spec m n) as [->|Hne]; intros H.
  - injection H as ->. left.
  - right. auto.
Qed.

Lemma find_id_None_notin n l : find_id n l = None -> n ∉ l.*1.
Proof.
  induction l as [|[m b] r IH]; cbn [find_id fmap list_fmap fst]; intros H.
  - apply not_elem_of_nil.
  - destruct (N.eqb_spec m n) as [->|Hne]; [discriminate|].
    apply not_elem_of_cons. split; [congruence|auto].
Qed.

Lemma elem_find_id n l a : NoDup l.*1 -> (n, a) ∈ l -> find_id n l = Some a.
Proof.
  induction l as [|[m b] r IH]; cbn [find_id fmap list_fmap fst]; intros Hnd Hin.
  - apply elem_of_nil in Hin as [].
  - apply NoDup_cons in Hnd as [Hm Hnd].
    apply elem_of_cons in Hin as [Heq|Hin].
    + injection Heq as -> ->. rewrite N.eqb_refl. reflexivity.
    + destruct (N.eqb_spec m n) as [->|Hne]; [|auto].
      exfalso. apply Hm. apply elem_of_list_fmap. exists (n, a). split; [reflexivity|assumption].
Qed.

Lemma elem_find_id_is_Some n l a : (n, a) ∈ l -> is_Some (find_id n l).
Proof.
  induction l as [|[m b] r IH]; cbn [find_id]; intros Hin.
  - apply elem_of_nil in Hin as [].
  - destruct (N.eqb_spec m n) as [->|Hne]; [eauto|].
    apply elem_of_cons in Hin as [Heq|Hin]; [congruence|auto].
Qed.

Lemma elem_fst_find_id n l : n ∈ l.*1 -> is_Some (find_id n l).
Proof.
  intros Hin. apply elem_of_list_fmap in Hin as ([m a] & -> & Hin).
  eapply elem_find_id_is_Some; eassumption.
Qed.

Lemma remove_id_sublist n l : sublist (remove_id n l) l.
Proof.
  induction l as [|[m b] r IH]; cbn [remove_id]; [constructor|].
  destruct (m =? n); [apply sublist_cons, reflexivity|apply sublist_skip, IH].
Qed.

Lemma remove_id_perm n l a : find_id n l = Some a -> remove_id n l ++ [(n, a)] ≡ₚ l.
Proof.
  induction l as [|[m b] r IH]; cbn [find_id remove_id]; [discriminate|].
  destruct (N.eqb_spec m n) as [->|Hne]; intros H.
  - injection H as ->. symmetry. apply Permutation_cons_append.
  - cbn. f_equiv. auto.
Qed.

Lemma remove_id_length n l a : find_id n l = Some a -> S (length (remove_id n l)) = length l.
Proof.
  intros H. apply remove_id_perm in H. apply Permutation_length in H.
  rewrite app_length in H. cbn in H. lia.
Qed.

Lemma elem_remove_id n l m b : NoDup l.*1 -> (m, b) ∈ remove_id n l <-> (m, b) ∈ l /\ m <> n.
Proof.
  induction l as [|[m' b'] r IH]; cbn [remove_id fmap list_fmap fst]; intros Hnd.
  - split; [intros H; apply elem_of_nil in H as []|intros [H _]; apply elem_of_nil in H as []].
  - apply NoDup_cons in Hnd as [Hm Hnd].
    destruct (N.eqb_spec m' n) as [->|Hne].
    + split.
      * intros Hin. split; [right; assumption|]. intros ->. apply Hm.
        apply elem_of_list_fmap. exists (n, b). split; [reflexivity|assumption].
      * intros [Hin Hne]. apply elem_of_cons in Hin as [Heq|Hin]; [congruence|assumption].
    + rewrite !elem_of_cons, IH by assumption. split.
      * intros [Heq|[Hin Hmn]]; [injection Heq as -> ->; auto|auto].
      * intros [[Heq|Hin] Hmn]; auto.
Qed.

Lemma mem_id_true n l a : (n, a) ∈ l -> mem_id n l = true.
Proof. intros H. unfold mem_id. destruct (elem_find_id_is_Some _ _ _ H) as [b ->]. reflexivity. Qed.

Lemma move_front_to_back_perm l : move_front_to_back l ≡ₚ l.
Proof. destruct l as [|x r]; cbn; [reflexivity|]. symmetry. apply Permutation_cons_append. Qed.

Lemma perm_fst_NoDup l l' : l ≡ₚ l' -> NoDup l'.*1 -> NoDup l.*1.
Proof. intros Hp. rewrite Hp. auto. Qed.

Lemma sublist_NoDup' {B} (l k : list B) : sublist l k -> NoDup k -> NoDup l.
Proof.
  induction 1 as [|x l k Hs IH|x l k Hs IH]; intros Hnd; [constructor| |].
  - apply NoDup_cons in Hnd as [Hx Hnd]. apply NoDup_cons. split; [|auto].
    intros Hin. apply Hx. eapply elem_of_submseteq; [eassumption|]. apply sublist_submseteq. assumption.
  - apply NoDup_cons in Hnd as [_ Hnd]. auto.
Qed.

Lemma sublist_fst_NoDup l l' : sublist l l' -> NoDup l'.*1 -> NoDup l.*1.
Proof. intros Hs. apply sublist_NoDup'. apply fmap_sublist. assumption. Qed.

Lemma sublist_elem {B} (l k : list B) x : sublist l k -> x ∈ l -> x ∈ k.
Proof. intros Hs Hin. eapply elem_of_submseteq; [eassumption|]. apply sublist_submseteq. assumption. Qed.

End idlists.

(* ------------------------------------------------------------------ *)
(** * The invariant with an explicit write queue

    None of the functions of this layer reads [s_wq]; [SInvG c q s] is [SInvQ] with the
    logical queue [q] as a parameter (and without the channel-length clause). *)

Record SInvG (c : scfg) (q : list writeop) (s : sstate) : Prop := mkSInvG {
  gv_map : forall k ve, s_map s !! k = Some ve -> ve_ok s k ve;
  gv_ves_lt : forall ve e, s_ves s !! ve = Some e -> ve < s_next s /\ is_Some (s_infos s !! sv_info e);
  gv_infos_lt : forall i x, s_infos s !! i = Some x -> i < s_next s;
  gv_wq : forall o, o ∈ q -> wop_ok c s o;
  gv_rq : forall o, o ∈ s_rq s -> rop_ok s o;
  gn_nodup_ao : NoDup (s_prob s).*1;
  gn_nodup_wo : NoDup (s_wo s).*1;
  gn_ao_lt : forall n nd, (n, nd) ∈ s_prob s -> n < s_next s;
  gn_wo_lt : forall n nd, (n, nd) ∈ s_wo s -> n < s_next s;
  gn_ao_info : forall n nd, (n, nd) ∈ s_prob s ->
      exists x, s_infos s !! sa_info nd = Some x /\ si_ao x = Some n /\
                sa_key nd = si_key x /\ sa_hash nd = sc_hash c (si_key x);
  gn_info_ao : forall i x n, s_infos s !! i = Some x -> si_ao x = Some n ->
      exists nd, (n, nd) ∈ s_prob s /\ sa_info nd = i;
  gn_wo_info : forall n nd, (n, nd) ∈ s_wo s ->
      sc_ttl c <> None /\
      exists x, s_infos s !! sw_info nd = Some x /\ si_wo x = Some n /\ sw_key nd = si_key x;
  gn_info_wo : forall i x n, s_infos s !! i = Some x -> si_wo x = Some n ->
      exists nd, (n, nd) ∈ s_wo s /\ sw_info nd = i;
  gn_admitted : forall i x, s_infos s !! i = Some x ->
      (si_admitted x = true <-> is_Some (si_ao x)) /\
      (match sc_ttl c with Some _ => si_admitted x = true <-> is_Some (si_wo x) | None => si_wo x = None end);
  gg_no_ghost : forall i x, s_infos s !! i = Some x -> si_admitted x = true ->
      map_has_info s (si_key x) i = true \/ has_remove_for_info s q i;
  gr_detached : forall k ve k' ve_m, WRemove k ve ∈ q ->
      s_map s !! k' = Some ve_m -> ve_info s ve_m <> ve_info s ve;
  go_no_orphan : forall k ve, s_map s !! k = Some ve ->
      si_admitted (get_info s (ve_info s ve)) = false -> has_upsert_for_ve q ve;
  gd_dirty : forall i x, s_infos s !! i = Some x -> si_dirty x = true ->
      has_upsert_for_info s q i;
  ga_ec : s_ec s = N.of_nat (size (admitted_infos s));
  ga_ws : s_ws s = infos_weight (admitted_infos s);
  ga_weight_lt : forall i x, s_infos s !! i = Some x -> si_weight x < two32;
  gw_weight : forall k ve, s_map s !! k = Some ve ->
      has_upsert_for_ve q ve \/
      si_weight (get_info s (ve_info s ve)) = sweigh c k (sv_val (get_ve s ve));
  gf_newest : forall ve e k ve_m, s_ves s !! ve = Some e -> s_map s !! k = Some ve_m ->
      ve_info s ve_m = sv_info e -> ve <= ve_m;
  gf_sorted : StronglySorted N.lt (upsert_ves q);
  gf_applied_older : forall k ve_m, s_map s !! k = Some ve_m ->
      has_upsert_for_ve q ve_m \/ (forall ve, ve ∈ upsert_ves q -> ve_m < ve);
  gq_rq : qlen (s_rq s) <= READ_LOG_FLUSH_POINT;
  gk_sketch : sk_wf (s_sk s) /\ (s_skon s = false -> s_sk s = sk_empty)
}.

Lemma SInvQ_G c extra s :
  SInvQ c extra s <->
  SInvG c (s_wq s ++ extra) s /\ qlen (s_wq s) <= WRITE_LOG_FLUSH_POINT /\ qlen extra <= 1.
Proof.
  split.
  - intros []. split; [constructor; assumption|assumption].
  - intros [[] ?]. constructor; assumption.
Qed.

(** all projections and setters, for [cbn] *)
Ltac sproj :=
  cbn [s_map s_ves s_infos s_prob s_wo s_rq s_wq s_ec s_ws s_va s_sk s_skon s_sync_after s_next
       sset_map sset_ves sset_infos sset_prob sset_wo sset_rq sset_wq sset_ec sset_ws sset_va
       sset_sk sset_sa sset_next upd_info] in *.

(** unfold the state-dependent notions down to the fields *)
Ltac sunf :=
  unfold wop_ok, rop_ok in *;
  unfold ve_ok, map_has_info, has_upsert_for_info, has_remove_for_info,
    admitted_infos, ve_info, get_ve, get_info in *; sproj.

Lemma SInvG_wq_irrel c q s w : SInvG c q (sset_wq s w) <-> SInvG c q s.
Proof. split; intros []; constructor; sunf; assumption. Qed.

(* ------------------------------------------------------------------ *)
(** * Size and weight of the admitted EntryInfos *)

Definition adm (m : gmap N sinfo) : gmap N sinfo :=
  filter (fun p => si_admitted (snd p) = true) m.

Lemma admitted_infos_adm s : admitted_infos s = adm (s_infos s).
Proof. reflexivity. Qed.

Definition cnt_of (x : sinfo) : nat := if si_admitted x then 1%nat else 0%nat.
Definition wt_of (x : sinfo) : N := if si_admitted x then si_weight x else 0.

Lemma infos_weight_insert m i x :
  m !! i = None -> infos_weight (<[i:=x]> m) = infos_weight m + si_weight x.
Proof.
  intros Hi. unfold infos_weight. rewrite map_fold_insert_L; [reflexivity| |assumption].
  intros. lia.
Qed.

Lemma adm_insert_fresh m i x :
  m !! i = None ->
  size (adm (<[i:=x]> m)) = (size (adm m) + cnt_of x)%nat /\
  infos_weight (adm (<[i:=x]> m)) = infos_weight (adm m) + wt_of x.
Proof.
  intros Hi. unfold adm, cnt_of, wt_of.
  assert (Hf : filter (fun p : N * sinfo => si_admitted p.2 = true) m !! i = None).
  { apply map_filter_lookup_None. left. assumption. }
  destruct (si_admitted x) eqn:Ea.
  - rewrite map_filter_insert_True by assumption.
    rewrite map_size_insert_None by assumption.
    rewrite infos_weight_insert by assumption. split; lia.
  - rewrite map_filter_insert_False by (cbn; congruence).
    rewrite delete_notin by assumption. split; lia.
Qed.

Lemma adm_split m i x :
  m !! i = Some x ->
  size (adm m) = (size (adm (delete i m)) + cnt_of x)%nat /\
  infos_weight (adm m) = infos_weight (adm (delete i m)) + wt_of x.
Proof.
  intros Hi. rewrite <- (insert_delete m i x) at 1 3 by assumption.
  apply adm_insert_fresh. apply lookup_delete.
Qed.

Lemma adm_update m i x' :
  size (adm (<[i:=x']> m)) = (size (adm (delete i m)) + cnt_of x')%nat /\
  infos_weight (adm (<[i:=x']> m)) = infos_weight (adm (delete i m)) + wt_of x'.
Proof.
  rewrite <- (insert_delete_insert m). apply adm_insert_fresh. apply lookup_delete.
Qed.

Lemma size_bounded {B} (m : gmap N B) n :
  (forall k x, m !! k = Some x -> k < n) -> N.of_nat (size m) <= n.
Proof.
  revert m. induction n as [|n IH] using N.peano_ind; intros m Hm.
  - destruct (decide (m = ∅)) as [->|Hne].
    + rewrite map_size_empty. lia.
    + apply map_choose in Hne as (k & x & Hk). apply Hm in Hk. lia.
  - specialize (IH (delete n m)).
    assert (N.of_nat (size (delete n m)) <= n) as Hd.
    { apply IH. intros k x Hk. apply lookup_delete_Some in Hk as [Hne Hk]. apply Hm in Hk. lia. }
    pose proof (map_size_delete n m) as Hs.
    destruct (m !! n); unfold id in Hs; lia.
Qed.

Lemma adm_lookup m i x : adm m !! i = Some x <-> m !! i = Some x /\ si_admitted x = true.
Proof. unfold adm. rewrite map_filter_lookup_Some. reflexivity. Qed.

Lemma adm_size_bound m n :
  (forall k x, m !! k = Some x -> k < n) -> N.of_nat (size (adm m)) <= n.
Proof.
  intros Hm. apply size_bounded. intros k x Hk. apply adm_lookup in Hk as [Hk _]. eauto.
Qed.

Lemma infos_weight_bound (m : gmap N sinfo) :
  (forall k x, m !! k = Some x -> si_weight x < two32) ->
  infos_weight m <= N.of_nat (size m) * two32.
Proof.
  induction m as [|i x m Hi IH] using map_ind; intros Hw.
  - unfold infos_weight. rewrite map_fold_empty, map_size_empty. lia.
  - rewrite infos_weight_insert, map_size_insert_None by assumption.
    assert (si_weight x < two32) by (apply (Hw i); apply lookup_insert).
    assert (infos_weight m <= N.of_nat (size m) * two32).
    { apply IH. intros k y Hk. apply (Hw k). rewrite lookup_insert_ne; [assumption|]. congruence. }
    lia.
Qed.

Lemma adm_weight_bound m n :
  (forall k x, m !! k = Some x -> k < n) ->
  (forall k x, m !! k = Some x -> si_weight x < two32) ->
  infos_weight (adm m) <= n * two32.
Proof.
  intros Hk Hw.
  pose proof (adm_size_bound m n Hk).
  assert (infos_weight (adm m) <= N.of_nat (size (adm m)) * two32).
  { apply infos_weight_bound. intros k x Hx. apply adm_lookup in Hx as [Hx _]. eauto. }
  nia.
Qed.

(* ------------------------------------------------------------------ *)
(** * Frame lemmas *)

Ltac destG H :=
  destruct H as [Gmap Gves Ginfos Gwq Grq Gndao Gndwo Gaolt Gwolt Gaoi Giao Gwoi Giwo Gadm
                 Gghost Gdet Gorph Gdirty Gec Gws Gwlt Gweight Gnewest Gsorted Golder Gqrq Gsk].
Lemma G_frame c q s s' :
  SInvG c q s ->
  s_map s' = s_map s -> s_ves s' = s_ves s -> s_infos s' = s_infos s ->
  s_prob s' ≡ₚ s_prob s -> s_wo s' ≡ₚ s_wo s ->
  (forall o, o ∈ s_rq s' -> o ∈ s_rq s) -> (length (s_rq s') <= length (s_rq s))%nat ->
  s_ec s' = s_ec s -> s_ws s' = s_ws s -> s_next s' = s_next s ->
  sk_wf (s_sk s') /\ (s_skon s' = false -> s_sk s' = sk_empty) ->
  SInvG c q s'.
Proof.
  intros H. destruct s'; sproj. intros -> -> -> Hp Hw Hrq Hrl -> -> -> Hsk.
  destG H. constructor; sunf; try assumption.
  all: try (intros n nd Hin; rewrite ?Hp, ?Hw in Hin; eauto; fail).
  - intros o Ho. apply Grq, Hrq, Ho.
  - rewrite Hp. assumption.
  - rewrite Hw. assumption.
  - intros i x n Hi Hn. setoid_rewrite Hp. eauto.
  - intros i x n Hi Hn. setoid_rewrite Hw. eauto.
  - unfold qlen in *. lia.
Qed.

Ltac ins_cases H := apply lookup_insert_Some in H as [[<- <-]|[? H]].

Definition infos_keys (m m' : gmap N sinfo) : Prop :=
  forall j y, m !! j = Some y -> exists y', m' !! j = Some y' /\ si_key y' = si_key y.

Lemma infos_keys_insert m i x x' :
  m !! i = Some x -> si_key x' = si_key x -> infos_keys m (<[i:=x']> m).
Proof.
  intros Hi Hk j y Hj. destruct (decide (j = i)) as [->|Hne].
  - exists x'. rewrite lookup_insert. split; congruence.
  - exists y. rewrite lookup_insert_ne by congruence. auto.
Qed.

Lemma infos_keys_refl m : infos_keys m m.
Proof. intros j y Hj. eauto. Qed.

Lemma infos_keys_trans m1 m2 m3 : infos_keys m1 m2 -> infos_keys m2 m3 -> infos_keys m1 m3.
Proof.
  intros H1 H2 j y Hj. destruct (H1 _ _ Hj) as (y' & Hy' & Hk').
  destruct (H2 _ _ Hy') as (y'' & Hy'' & Hk''). exists y''. split; congruence.
Qed.

Lemma ve_ok_keys s s' k ve :
  s_ves s' = s_ves s -> infos_keys (s_infos s) (s_infos s') -> ve_ok s k ve -> ve_ok s' k ve.
Proof.
  intros Hv Hk (e & y & He & Hy & Hky). destruct (Hk _ _ Hy) as (y' & Hy' & Hk').
  exists e, y'. rewrite Hv. split; [assumption|]. split; congruence.
Qed.

Lemma wop_ok_keys c s s' o :
  s_ves s' = s_ves s -> infos_keys (s_infos s) (s_infos s') -> wop_ok c s o -> wop_ok c s' o.
Proof.
  intros Hv Hk. destruct o as [k h ve ow nw|k ve]; cbn [wop_ok].
  - intros (H1 & H2 & H3). split; [eapply ve_ok_keys; eassumption|].
    split; [assumption|]. unfold get_ve in *. rewrite Hv. assumption.
  - apply ve_ok_keys; assumption.
Qed.

Lemma rop_ok_keys s s' o :
  s_ves s' = s_ves s -> infos_keys (s_infos s) (s_infos s') -> rop_ok s o -> rop_ok s' o.
Proof.
  intros Hv Hk. destruct o as [h ve ts|h]; cbn [rop_ok]; [|auto].
  intros [k H]. exists k. eapply ve_ok_keys; eassumption.
Qed.

Lemma get_ve_ext s s' v : s_ves s' = s_ves s -> get_ve s' v = get_ve s v.
Proof. unfold get_ve. intros ->. reflexivity. Qed.
Lemma ve_info_ext s s' v : s_ves s' = s_ves s -> ve_info s' v = ve_info s v.
Proof. unfold ve_info, get_ve. intros ->. reflexivity. Qed.
Lemma map_has_info_ext s s' k i :
  s_map s' = s_map s -> s_ves s' = s_ves s -> map_has_info s' k i = map_has_info s k i.
Proof. unfold map_has_info, ve_info, get_ve. intros -> ->. reflexivity. Qed.
Lemma has_remove_for_info_ext s s' q i :
  s_ves s' = s_ves s -> has_remove_for_info s' q i <-> has_remove_for_info s q i.
Proof. unfold has_remove_for_info, ve_info, get_ve. intros ->. reflexivity. Qed.
Lemma has_upsert_for_info_ext s s' q i :
  s_ves s' = s_ves s -> has_upsert_for_info s' q i <-> has_upsert_for_info s q i.
Proof. unfold has_upsert_for_info, ve_info, get_ve. intros ->. reflexivity. Qed.
Lemma get_info_Some s i x : s_infos s !! i = Some x -> get_info s i = x.
Proof. unfold get_info. intros ->. reflexivity. Qed.

Lemma G_upd c q s s' i x x' :
  SInvG c q s -> s_infos s !! i = Some x ->
  s_map s' = s_map s -> s_ves s' = s_ves s -> s_infos s' = <[i:=x']> (s_infos s) ->
  s_prob s' = s_prob s -> s_wo s' = s_wo s -> s_rq s' = s_rq s ->
  s_next s' = s_next s -> s_sk s' = s_sk s -> s_skon s' = s_skon s ->
  si_key x' = si_key x -> si_admitted x' = si_admitted x -> si_ao x' = si_ao x -> si_wo x' = si_wo x ->
  (si_dirty x' = true -> si_dirty x = true) ->
  si_weight x' < two32 ->
  s_ec s' = s_ec s ->
  s_ws s' + wt_of x = s_ws s + wt_of x' ->
  (forall k ve_m, s_map s !! k = Some ve_m -> ve_info s ve_m = i ->
     has_upsert_for_ve q ve_m \/ si_weight x' = sweigh c k (sv_val (get_ve s ve_m))) ->
  SInvG c q s'.
Proof.
  intros H Hi Hmap Hves Hinf Hprob Hwoq Hrq Hnext Hsk Hskon Hk Ha Hao Hwo Hd Hw Hec Hws HW.
  assert (HK : infos_keys (s_infos s) (s_infos s')).
  { rewrite Hinf. eapply infos_keys_insert; eassumption. }
  destG H. constructor.
  - intros k ve Hm. rewrite Hmap in Hm. eapply ve_ok_keys; eauto.
  - intros ve e He. rewrite Hves in He. rewrite Hnext. destruct (Gves _ _ He) as [? [y Hy]].
    split; [assumption|]. destruct (HK _ _ Hy) as (y' & -> & _). eauto.
  - intros j y Hj. rewrite Hnext. rewrite Hinf in Hj. ins_cases Hj; eauto.
  - intros o Ho. eapply wop_ok_keys; eauto.
  - intros o Ho. rewrite Hrq in Ho. eapply rop_ok_keys; eauto.
  - rewrite Hprob. assumption.
  - rewrite Hwoq. assumption.
  - rewrite Hprob, Hnext. assumption.
  - rewrite Hwoq, Hnext. assumption.
  - rewrite Hprob, Hinf. intros n nd Hin. destruct (Gaoi _ _ Hin) as (y & Hy & H1 & H2 & H3).
    destruct (decide (sa_info nd = i)) as [Hei|Hei].
    + exists x'. rewrite Hei, lookup_insert. rewrite Hei in Hy. replace y with x in * by congruence.
      rewrite Hao, Hk. auto.
    + exists y. rewrite lookup_insert_ne by congruence. auto.
  - rewrite Hprob, Hinf. intros j y n Hj Hn. ins_cases Hj; [rewrite Hao in Hn|]; eauto.
  - rewrite Hwoq, Hinf. intros n nd Hin. destruct (Gwoi _ _ Hin) as (Ht & y & Hy & H1 & H2).
    split; [assumption|].
    destruct (decide (sw_info nd = i)) as [Hei|Hei].
    + exists x'. rewrite Hei, lookup_insert. rewrite Hei in Hy. replace y with x in * by congruence.
      rewrite Hwo, Hk. auto.
    + exists y. rewrite lookup_insert_ne by congruence. auto.
  - rewrite Hwoq, Hinf. intros j y n Hj Hn. ins_cases Hj; [rewrite Hwo in Hn|]; eauto.
  - rewrite Hinf. intros j y Hj. ins_cases Hj; [rewrite Ha, Hao, Hwo|]; eauto.
  - intros j y Hj Hadm. rewrite (map_has_info_ext s s'), (has_remove_for_info_ext s s') by assumption.
    rewrite Hinf in Hj. ins_cases Hj; [rewrite Hk; rewrite Ha in Hadm|]; eauto.
  - intros k ve k' ve_m Hq Hm. rewrite !(ve_info_ext s s') by assumption. rewrite Hmap in Hm. eauto.
  - intros k ve Hm. rewrite (ve_info_ext s s') by assumption. rewrite Hmap in Hm.
    unfold get_info. rewrite Hinf. intros Hna. apply (Gorph _ _ Hm).
    destruct (decide (ve_info s ve = i)) as [Hei|Hei].
    + rewrite Hei, lookup_insert in Hna. cbn in Hna. rewrite Hei. unfold get_info. rewrite Hi. cbn. congruence.
    + rewrite lookup_insert_ne in Hna by congruence. assumption.
  - intros j y Hj Hdy. rewrite (has_upsert_for_info_ext s s') by assumption.
    rewrite Hinf in Hj. ins_cases Hj; eauto.
  - rewrite Hec, Gec, !admitted_infos_adm, Hinf.
    destruct (adm_split _ _ _ Hi) as [-> _]. destruct (adm_update (s_infos s) i x') as [-> _].
    unfold cnt_of. rewrite Ha. reflexivity.
  - rewrite !admitted_infos_adm, Hinf. rewrite Gws, admitted_infos_adm in Hws.
    destruct (adm_split _ _ _ Hi) as [_ Hs]. destruct (adm_update (s_infos s) i x') as [_ ->].
    rewrite Hs in Hws. lia.
  - rewrite Hinf. intros j y Hj. ins_cases Hj; eauto.
  - intros k ve Hm. rewrite (ve_info_ext s s'), (get_ve_ext s s') by assumption. rewrite Hmap in Hm.
    unfold get_info. rewrite Hinf.
    destruct (decide (ve_info s ve = i)) as [Hei|Hei].
    + rewrite Hei, lookup_insert. cbn. eauto.
    + rewrite lookup_insert_ne by congruence. apply Gweight. assumption.
  - intros ve e k ve_m He Hm. rewrite (ve_info_ext s s') by assumption. rewrite Hves in He. rewrite Hmap in Hm. eauto.
  - assumption.
  - rewrite Hmap. assumption.
  - rewrite Hrq. assumption.
  - rewrite Hsk, Hskon. assumption.
Qed.

Lemma map_has_info_true s k i :
  map_has_info s k i = true <-> exists ve, s_map s !! k = Some ve /\ ve_info s ve = i.
Proof.
  unfold map_has_info. destruct (s_map s !! k) as [ve|]; split.
  - intros H%N.eqb_eq. eauto.
  - intros (ve' & [= <-] & H). apply N.eqb_eq. assumption.
  - discriminate.
  - intros (ve' & [=] & _).
Qed.

Lemma G_remove c q s s' i x x' :
  SInvG c q s -> s_infos s !! i = Some x ->
  s_map s' ⊆ s_map s ->
  (forall k ve, s_map s !! k = Some ve -> s_map s' !! k = Some ve \/ ve_info s ve = i) ->
  (forall k ve, s_map s' !! k = Some ve -> ve_info s ve <> i) ->
  s_ves s' = s_ves s -> s_infos s' = <[i:=x']> (s_infos s) ->
  si_key x' = si_key x -> si_admitted x' = false -> si_ao x' = None -> si_wo x' = None ->
  si_dirty x' = si_dirty x -> si_weight x' = si_weight x ->
  s_prob s' = match si_ao x with Some n => remove_id n (s_prob s) | None => s_prob s end ->
  s_wo s' = match si_wo x with Some n => remove_id n (s_wo s) | None => s_wo s end ->
  s_rq s' = s_rq s -> s_next s' = s_next s -> s_sk s' = s_sk s -> s_skon s' = s_skon s ->
  s_ec s' + N.of_nat (cnt_of x) = s_ec s -> s_ws s' + wt_of x = s_ws s ->
  SInvG c q s'.
Proof.
  intros H Hi Hsub Hm2 Hm3 Hves Hinf Hk Ha Hao Hwo Hd Hw Hprob Hwoq Hrq Hnext Hsk Hskon Hec Hws.
  assert (HK : infos_keys (s_infos s) (s_infos s')).
  { rewrite Hinf. eapply infos_keys_insert; eassumption. }
  assert (Hps : sublist (s_prob s') (s_prob s)).
  { rewrite Hprob. destruct (si_ao x); [apply remove_id_sublist|reflexivity]. }
  assert (Hws' : sublist (s_wo s') (s_wo s)).
  { rewrite Hwoq. destruct (si_wo x); [apply remove_id_sublist|reflexivity]. }
  destG H. constructor.
  - intros k ve Hm. eapply lookup_weaken in Hm; [|exact Hsub]. eapply ve_ok_keys; eauto.
  - intros ve e He. rewrite Hves in He. rewrite Hnext. destruct (Gves _ _ He) as [? [y Hy]].
    split; [assumption|]. destruct (HK _ _ Hy) as (y' & -> & _). eauto.
  - intros j y Hj. rewrite Hnext. rewrite Hinf in Hj. ins_cases Hj; eauto.
  - intros o Ho. eapply wop_ok_keys; eauto.
  - intros o Ho. rewrite Hrq in Ho. eapply rop_ok_keys; eauto.
  - eapply sublist_fst_NoDup; eassumption.
  - eapply sublist_fst_NoDup; eassumption.
  - rewrite Hnext. intros n nd Hin. eapply Gaolt, sublist_elem; eassumption.
  - rewrite Hnext. intros n nd Hin. eapply Gwolt, sublist_elem; eassumption.
  - intros n nd Hin. pose proof (sublist_elem _ _ _ Hps Hin) as Hin0.
    destruct (Gaoi _ _ Hin0) as (y & Hy & H1 & H2 & H3).
    destruct (decide (sa_info nd = i)) as [Hei|Hei].
    + exfalso. rewrite Hei in Hy. replace y with x in * by congruence.
      rewrite Hprob, H1 in Hin. apply elem_remove_id in Hin as [_ Hne]; [congruence|assumption].
    + exists y. rewrite Hinf, lookup_insert_ne by congruence. auto.
  - rewrite Hinf. intros j y n Hj Hn. ins_cases Hj; [congruence|].
    destruct (Giao _ _ _ Hj Hn) as (nd & Hin & Hnd). exists nd. split; [|assumption].
    rewrite Hprob. destruct (si_ao x) as [n0|] eqn:Ex; [|assumption].
    apply elem_remove_id; [assumption|]. split; [assumption|]. intros ->.
    destruct (Giao _ _ _ Hi Ex) as (nd' & Hin' & Hnd').
    pose proof (elem_find_id _ _ _ Gndao Hin) as E1. pose proof (elem_find_id _ _ _ Gndao Hin') as E2.
    congruence.
  - intros n nd Hin. pose proof (sublist_elem _ _ _ Hws' Hin) as Hin0.
    destruct (Gwoi _ _ Hin0) as (Ht & y & Hy & H1 & H2). split; [assumption|].
    destruct (decide (sw_info nd = i)) as [Hei|Hei].
    + exfalso. rewrite Hei in Hy. replace y with x in * by congruence.
      rewrite Hwoq, H1 in Hin. apply elem_remove_id in Hin as [_ Hne]; [congruence|assumption].
    + exists y. rewrite Hinf, lookup_insert_ne by congruence. auto.
  - rewrite Hinf. intros j y n Hj Hn. ins_cases Hj; [congruence|].
    destruct (Giwo _ _ _ Hj Hn) as (nd & Hin & Hnd). exists nd. split; [|assumption].
    rewrite Hwoq. destruct (si_wo x) as [n0|] eqn:Ex; [|assumption].
    apply elem_remove_id; [assumption|]. split; [assumption|]. intros ->.
    destruct (Giwo _ _ _ Hi Ex) as (nd' & Hin' & Hnd').
    pose proof (elem_find_id _ _ _ Gndwo Hin) as E1. pose proof (elem_find_id _ _ _ Gndwo Hin') as E2.
    congruence.
  - rewrite Hinf. intros j y Hj. ins_cases Hj; [|eauto].
    rewrite Ha, Hao, Hwo. split.
    + split; [discriminate|intros [? [=]]].
    + destruct (sc_ttl c); [|reflexivity]. split; [discriminate|intros [? [=]]].
  - rewrite Hinf. intros j y Hj Hadm. ins_cases Hj; [congruence|].
    rewrite (has_remove_for_info_ext s s') by assumption.
    destruct (Gghost _ _ Hj Hadm) as [Hmh|Hr]; [left|right; assumption].
    apply map_has_info_true in Hmh as (ve & Hm & Hve). apply map_has_info_true.
    exists ve. rewrite (ve_info_ext s s') by assumption. split; [|assumption].
    destruct (Hm2 _ _ Hm) as [?|?]; [assumption|congruence].
  - intros k ve k' ve_m Hq Hm. rewrite !(ve_info_ext s s') by assumption.
    eapply lookup_weaken in Hm; [|exact Hsub]. eauto.
  - intros k ve Hm. rewrite (ve_info_ext s s') by assumption. pose proof (Hm3 _ _ Hm) as Hne.
    eapply lookup_weaken in Hm; [|exact Hsub].
    unfold get_info. rewrite Hinf, lookup_insert_ne by congruence. apply (Gorph _ _ Hm).
  - intros j y Hj Hdy. rewrite (has_upsert_for_info_ext s s') by assumption.
    rewrite Hinf in Hj. ins_cases Hj; [rewrite Hd in Hdy|]; eauto.
  - rewrite Gec, admitted_infos_adm in Hec. rewrite admitted_infos_adm, Hinf.
    destruct (adm_split _ _ _ Hi) as [Hs _]. destruct (adm_update (s_infos s) i x') as [-> _].
    unfold cnt_of at 1. rewrite Ha. lia.
  - rewrite Gws, admitted_infos_adm in Hws. rewrite admitted_infos_adm, Hinf.
    destruct (adm_split _ _ _ Hi) as [_ Hs]. destruct (adm_update (s_infos s) i x') as [_ ->].
    unfold wt_of at 1. rewrite Ha. lia.
  - rewrite Hinf. intros j y Hj. ins_cases Hj; [rewrite Hw|]; eauto.
  - intros k ve Hm. rewrite (ve_info_ext s s'), (get_ve_ext s s') by assumption.
    pose proof (Hm3 _ _ Hm) as Hne. eapply lookup_weaken in Hm; [|exact Hsub].
    unfold get_info. rewrite Hinf, lookup_insert_ne by congruence. apply Gweight. assumption.
  - intros ve e k ve_m He Hm. rewrite (ve_info_ext s s') by assumption. rewrite Hves in He.
    eapply lookup_weaken in Hm; [|exact Hsub]. eauto.
  - assumption.
  - intros k ve_m Hm. eapply lookup_weaken in Hm; [|exact Hsub]. eauto.
  - rewrite Hrq. assumption.
  - rewrite Hsk, Hskon. assumption.
Qed.

Lemma handle_remove_G c q s m' i x :
  SInvG c q s -> s_infos s !! i = Some x ->
  m' ⊆ s_map s ->
  (forall k ve, s_map s !! k = Some ve -> m' !! k = Some ve \/ ve_info s ve = i) ->
  (forall k ve, m' !! k = Some ve -> ve_info s ve <> i) ->
  exists s', handle_remove (sset_map s m') i = Ok s' /\ SInvG c q s' /\
    s_map s' = m' /\ s_ves s' = s_ves s /\ s_wq s' = s_wq s /\ s_rq s' = s_rq s /\
    s_va s' = s_va s /\ s_sk s' = s_sk s /\ s_skon s' = s_skon s /\ s_sync_after s' = s_sync_after s /\
    s_next s' = s_next s /\
    (forall j, j <> i -> s_infos s' !! j = s_infos s !! j) /\
    (exists x', s_infos s' !! i = Some x' /\ si_admitted x' = false) /\
    s_prob s' = match si_ao x with Some n => remove_id n (s_prob s) | None => s_prob s end /\
    s_wo s' = match si_wo x with Some n => remove_id n (s_wo s) | None => s_wo s end /\
    (si_admitted x = true -> s_ec s' + 1 = s_ec s /\ s_ws s' + si_weight x = s_ws s /\
       exists n nd, si_ao x = Some n /\ (n, nd) ∈ s_prob s).
Proof.
  intros H Hi Hsub Hm2 Hm3. pose proof H as H0. destG H0.
  assert (Hg0 : get_info (sset_map s m') i = x) by (apply get_info_Some; exact Hi).
  unfold handle_remove. rewrite Hg0.
  destruct (Gadm _ _ Hi) as [Hadm1 Hadm2].
  destruct (si_admitted x) eqn:Ea.
  - destruct Hadm1 as [[n Hn] _]; [reflexivity|].
    destruct (Giao _ _ _ Hi Hn) as (nd & Hin & Hnd).
    destruct (adm_split _ _ _ Hi) as [Hsz Hwt]. unfold cnt_of, wt_of in Hsz, Hwt. rewrite Ea in Hsz, Hwt.
    rewrite admitted_infos_adm in Gec, Gws.
    unfold chk_sub. sproj. destruct (1 <=? s_ec s) eqn:E1; [|apply N.leb_gt in E1; lia].
    cbn [rbind]. unfold s_unlink_nodes.
    match goal with |- context [get_info ?t i] =>
      assert (Hg1 : get_info t i = si_set_admitted false x)
        by (apply get_info_Some; sproj; rewrite Hg0; apply lookup_insert); rewrite Hg1 end.
    cbn [si_set_admitted si_ao si_wo]. rewrite Hn. sproj.
    unfold sdeq_unlink at 1. rewrite (mem_id_true _ _ _ Hin). cbn [rbind].
    assert (Hwo : match si_wo x with Some n0 => sdeq_unlink n0 (s_wo s) | None => Ok (s_wo s) end =
                  Ok (match si_wo x with Some n0 => remove_id n0 (s_wo s) | None => s_wo s end)).
    { destruct (si_wo x) as [n2|] eqn:Ew; [|reflexivity].
      destruct (Giwo _ _ _ Hi Ew) as (nd2 & Hin2 & _). unfold sdeq_unlink.
      rewrite (mem_id_true _ _ _ Hin2). reflexivity. }
    rewrite Hwo. cbn [rbind]. eexists. split; [reflexivity|].
    match goal with |- context [SInvG c q ?t] =>
      assert (Hinf : s_infos t = <[i := si_set_wo None (si_set_ao None (si_set_admitted false x))]> (s_infos s)) end.
    { sproj. match goal with |- context [get_info ?t i] =>
        assert (Hg2 : get_info t i = si_set_admitted false x)
          by (apply get_info_Some; sproj; rewrite Hg0; apply lookup_insert); rewrite Hg2 end.
      rewrite Hg0. apply insert_insert. }
    split; [|sproj; repeat (split; [reflexivity|])].
    + eapply G_remove with (i:=i) (x:=x); try exact Hinf; try eassumption; try reflexivity.
      * sproj. rewrite Hn. reflexivity.
      * sproj. unfold cnt_of. rewrite Ea. lia.
      * sproj. unfold wt_of, sat_sub. rewrite Ea. lia.
    + sproj. rewrite Hinf. split.
      { intros j Hj. apply lookup_insert_ne. congruence. }
      split. { eexists. rewrite lookup_insert. split; reflexivity. }
      split; [reflexivity|]. split; [reflexivity|]. intros _.
      unfold sat_sub. split; [lia|]. split; [lia|]. eauto.
  - assert (Hao : si_ao x = None).
    { destruct (si_ao x) eqn:E; [|reflexivity]. destruct Hadm1 as [_ Hx]. discriminate Hx. eauto. }
    assert (Hwo : si_wo x = None).
    { destruct (sc_ttl c); [|assumption]. destruct (si_wo x) eqn:E; [|reflexivity].
      destruct Hadm2 as [_ Hx]. discriminate Hx. eauto. }
    eexists. split; [reflexivity|].
    match goal with |- context [SInvG c q ?t] =>
      assert (Hinf : s_infos t = <[i := si_set_wo None (si_set_ao None x)]> (s_infos s)) end.
    { sproj. rewrite Hg0. reflexivity. }
    split; [|sproj; repeat (split; [reflexivity|])].
    + eapply G_remove with (i:=i) (x:=x); try exact Hinf; try eassumption; try reflexivity.
      * sproj. rewrite Hao. reflexivity.
      * sproj. rewrite Hwo. reflexivity.
      * sproj. unfold cnt_of. rewrite Ea. lia.
      * sproj. unfold wt_of. rewrite Ea. lia.
    + sproj. rewrite Hinf, Hao, Hwo. split.
      { intros j Hj. apply lookup_insert_ne. congruence. }
      split. { eexists. rewrite lookup_insert. split; [reflexivity|]. exact Ea. }
      split; [reflexivity|]. split; [reflexivity|]. discriminate.
Qed.

Lemma sset_prob_id s : sset_prob s (s_prob s) = s.
Proof. destruct s; reflexivity. Qed.
Lemma sset_wo_id s : sset_wo s (s_wo s) = s.
Proof. destruct s; reflexivity. Qed.

Lemma G_perm_prob c q s p : SInvG c q s -> p ≡ₚ s_prob s -> SInvG c q (sset_prob s p).
Proof.
  intros H Hp. eapply G_frame; try exact H; try reflexivity; try assumption; auto.
  destG H; assumption.
Qed.

Lemma G_perm_wo c q s p : SInvG c q s -> p ≡ₚ s_wo s -> SInvG c q (sset_wo s p).
Proof.
  intros H Hp. eapply G_frame; try exact H; try reflexivity; try assumption; auto.
  destG H; assumption.
Qed.

Lemma s_move_to_back_ao_G c q s i x :
  SInvG c q s -> s_infos s !! i = Some x ->
  exists s', s_move_to_back_ao s i = Ok s' /\ SInvG c q s' /\ s_prob s' ≡ₚ s_prob s /\
    s' = sset_prob s (s_prob s').
Proof.
  intros H Hi. unfold s_move_to_back_ao. rewrite (get_info_Some _ _ _ Hi).
  destruct (si_ao x) as [n|] eqn:En.
  - destruct (gn_info_ao _ _ _ H _ _ _ Hi En) as (nd & Hin & _).
    unfold sdeq_move_to_back. rewrite (elem_find_id _ _ _ (gn_nodup_ao _ _ _ H) Hin). cbn [rbind].
    pose proof (remove_id_perm _ _ _ (elem_find_id _ _ _ (gn_nodup_ao _ _ _ H) Hin)) as Hp.
    eexists. split; [reflexivity|]. split; [apply G_perm_prob; assumption|].
    split; [exact Hp|reflexivity].
  - exists s. split; [reflexivity|]. split; [assumption|]. split; [reflexivity|].
    symmetry. apply sset_prob_id.
Qed.

Lemma s_move_to_back_wo_G c q s i x :
  SInvG c q s -> s_infos s !! i = Some x ->
  exists s', s_move_to_back_wo s i = Ok s' /\ SInvG c q s' /\ s_wo s' ≡ₚ s_wo s /\
    s' = sset_wo s (s_wo s').
Proof.
  intros H Hi. unfold s_move_to_back_wo. rewrite (get_info_Some _ _ _ Hi).
  destruct (si_wo x) as [n|] eqn:En.
  - destruct (gn_info_wo _ _ _ H _ _ _ Hi En) as (nd & Hin & _).
    unfold sdeq_move_to_back. rewrite (elem_find_id _ _ _ (gn_nodup_wo _ _ _ H) Hin). cbn [rbind].
    pose proof (remove_id_perm _ _ _ (elem_find_id _ _ _ (gn_nodup_wo _ _ _ H) Hin)) as Hp.
    eexists. split; [reflexivity|]. split; [apply G_perm_wo; assumption|].
    split; [exact Hp|reflexivity].
  - exists s. split; [reflexivity|]. split; [assumption|]. split; [reflexivity|].
    symmetry. apply sset_wo_id.
Qed.

Lemma G_admit c q s s' i x x' :
  SInvG c q s -> s_infos s !! i = Some x -> si_admitted x = false ->
  map_has_info s (si_key x) i = true ->
  s_map s' = s_map s -> s_ves s' = s_ves s -> s_infos s' = <[i:=x']> (s_infos s) ->
  si_key x' = si_key x -> si_admitted x' = true -> si_dirty x' = si_dirty x ->
  si_weight x' = si_weight x -> si_ao x' = Some (s_next s) ->
  s_prob s' = s_prob s ++ [(s_next s, mkSAo (si_key x) (sc_hash c (si_key x)) i)] ->
  (match sc_ttl c with
   | Some _ => si_wo x' = Some (s_next s + 1) /\
               s_wo s' = s_wo s ++ [(s_next s + 1, mkSWo (si_key x) i)] /\ s_next s' = s_next s + 2
   | None => si_wo x' = None /\ s_wo s' = s_wo s /\ s_next s' = s_next s + 1
   end) ->
  s_rq s' = s_rq s -> s_sk s' = s_sk s -> s_skon s' = s_skon s ->
  s_ec s' = s_ec s + 1 -> s_ws s' = s_ws s + si_weight x ->
  SInvG c q s'.
Proof.
  intros H Hi Hna Hmh Hmap Hves Hinf Hk Ha Hd Hw Hao Hprob Httl Hrq Hsk Hskon Hec Hws.
  assert (HK : infos_keys (s_infos s) (s_infos s')).
  { rewrite Hinf. eapply infos_keys_insert; eassumption. }
  assert (Hnext : s_next s < s_next s') by (destruct (sc_ttl c); lia).
  destG H.
  destruct (Gadm _ _ Hi) as [Hadm1 Hadm2].
  assert (Hxao : si_ao x = None).
  { destruct (si_ao x) eqn:E; [|reflexivity]. destruct Hadm1 as [_ Hx]. rewrite Hna in Hx. discriminate Hx. eauto. }
  assert (Hxwo : si_wo x = None).
  { destruct (sc_ttl c); [|assumption]. destruct (si_wo x) eqn:E; [|reflexivity].
    destruct Hadm2 as [_ Hx]. rewrite Hna in Hx. discriminate Hx. eauto. }
  constructor.
  - intros k ve Hm. rewrite Hmap in Hm. eapply ve_ok_keys; eauto.
  - intros ve e He. rewrite Hves in He. destruct (Gves _ _ He) as [? [y Hy]].
    split; [lia|]. destruct (HK _ _ Hy) as (y' & -> & _). eauto.
  - intros j y Hj. rewrite Hinf in Hj. ins_cases Hj; [apply Ginfos in Hi|apply Ginfos in Hj]; lia.
  - intros o Ho. eapply wop_ok_keys; eauto.
  - intros o Ho. rewrite Hrq in Ho. eapply rop_ok_keys; eauto.
  - rewrite Hprob, fmap_app. apply NoDup_app. split; [assumption|]. split; [|apply NoDup_singleton].
    intros m0 Hn Hn'. cbn in Hn'. apply elem_of_list_singleton in Hn'. subst m0.
    apply elem_of_list_fmap in Hn as ([m nd] & Hn & Hin). cbn in Hn. subst m. apply Gaolt in Hin. lia.
  - destruct (sc_ttl c); destruct Httl as (_ & -> & _); [|assumption].
    rewrite fmap_app. apply NoDup_app. split; [assumption|]. split; [|apply NoDup_singleton].
    intros m0 Hn Hn'. cbn in Hn'. apply elem_of_list_singleton in Hn'. subst m0.
    apply elem_of_list_fmap in Hn as ([m nd] & Hn & Hin). cbn in Hn. subst m. apply Gwolt in Hin. lia.
  - rewrite Hprob. intros n nd Hin. apply elem_of_app in Hin as [Hin|Hin].
    + apply Gaolt in Hin. lia.
    + apply elem_of_list_singleton in Hin. injection Hin as -> _. lia.
  - intros n nd Hin. destruct (sc_ttl c); destruct Httl as (_ & Hwq & Hn); rewrite Hwq in Hin.
    + apply elem_of_app in Hin as [Hin|Hin].
      * apply Gwolt in Hin. lia.
      * apply elem_of_list_singleton in Hin. injection Hin as -> _. lia.
    + apply Gwolt in Hin. lia.
  - rewrite Hprob, Hinf. intros n nd Hin. apply elem_of_app in Hin as [Hin|Hin].
    + destruct (Gaoi _ _ Hin) as (y & Hy & H1 & H2 & H3).
      destruct (decide (sa_info nd = i)) as [Hei|Hei].
      * exfalso. rewrite Hei in Hy. congruence.
      * exists y. rewrite lookup_insert_ne by congruence. auto.
    + apply elem_of_list_singleton in Hin. injection Hin as -> ->. cbn [sa_info sa_key sa_hash].
      exists x'. rewrite lookup_insert, Hk. auto.
  - rewrite Hprob, Hinf. intros j y n Hj Hn. ins_cases Hj.
    + exists (mkSAo (si_key x) (sc_hash c (si_key x)) i). split; [|reflexivity].
      apply elem_of_app. right. apply elem_of_list_singleton. congruence.
    + destruct (Giao _ _ _ Hj Hn) as (nd & Hin & Hnd). exists nd. split; [|assumption].
      apply elem_of_app. left. assumption.
  - rewrite Hinf. intros n nd Hin.
    assert (Hold : (n, nd) ∈ s_wo s -> sc_ttl c <> None /\
       exists x0, <[i:=x']> (s_infos s) !! sw_info nd = Some x0 /\ si_wo x0 = Some n /\ sw_key nd = si_key x0).
    { intros Hin0. destruct (Gwoi _ _ Hin0) as (Ht & y & Hy & H1 & H2). split; [assumption|].
      destruct (decide (sw_info nd = i)) as [Hei|Hei].
      * exfalso. rewrite Hei in Hy. congruence.
      * exists y. rewrite lookup_insert_ne by congruence. auto. }
    destruct (sc_ttl c) eqn:Et; destruct Httl as (Hwo' & Hwq & Hn); rewrite Hwq in Hin; [|auto].
    apply elem_of_app in Hin as [Hin|Hin]; [auto|].
    apply elem_of_list_singleton in Hin. injection Hin as -> ->. cbn [sw_info sw_key].
    split; [discriminate|]. exists x'. rewrite lookup_insert, Hk. auto.
  - rewrite Hinf. intros j y n Hj Hn. ins_cases Hj.
    + destruct (sc_ttl c) eqn:Et; destruct Httl as (Hwo' & Hwq & Hn'); [|congruence].
      exists (mkSWo (si_key x) i). split; [|reflexivity]. rewrite Hwq.
      apply elem_of_app. right. apply elem_of_list_singleton. congruence.
    + destruct (Giwo _ _ _ Hj Hn) as (nd & Hin & Hnd). exists nd. split; [|assumption].
      destruct (sc_ttl c) eqn:Et; destruct Httl as (Hwo' & Hwq & Hn'); rewrite Hwq; [|assumption].
      apply elem_of_app. left. assumption.
  - rewrite Hinf. intros j y Hj. ins_cases Hj; [|eauto].
    rewrite Ha, Hao. split; [split; eauto|].
    destruct (sc_ttl c) eqn:Et; destruct Httl as (Hwo' & Hwq & Hn'); rewrite Hwo'; [split; eauto|reflexivity].
  - intros j y Hj Hadm. rewrite (map_has_info_ext s s'), (has_remove_for_info_ext s s') by assumption.
    rewrite Hinf in Hj. ins_cases Hj; [rewrite Hk; auto|eauto].
  - intros k ve k' ve_m Hq Hm. rewrite !(ve_info_ext s s') by assumption. rewrite Hmap in Hm. eauto.
  - intros k ve Hm. rewrite (ve_info_ext s s') by assumption. rewrite Hmap in Hm.
    unfold get_info. rewrite Hinf. intros Hna'. apply (Gorph _ _ Hm).
    destruct (decide (ve_info s ve = i)) as [Hei|Hei].
    + rewrite Hei, lookup_insert in Hna'. cbn in Hna'. congruence.
    + rewrite lookup_insert_ne in Hna' by congruence. assumption.
  - intros j y Hj Hdy. rewrite (has_upsert_for_info_ext s s') by assumption.
    rewrite Hinf in Hj. ins_cases Hj; [rewrite Hd in Hdy|]; eauto.
  - rewrite Hec, Gec, !admitted_infos_adm, Hinf.
    destruct (adm_split _ _ _ Hi) as [-> _]. destruct (adm_update (s_infos s) i x') as [-> _].
    unfold cnt_of. rewrite Ha, Hna. lia.
  - rewrite Hws, Gws, !admitted_infos_adm, Hinf.
    destruct (adm_split _ _ _ Hi) as [_ ->]. destruct (adm_update (s_infos s) i x') as [_ ->].
    unfold wt_of. rewrite Ha, Hna, Hw. lia.
  - rewrite Hinf. intros j y Hj. ins_cases Hj; [rewrite Hw|]; eauto.
  - intros k ve Hm. rewrite (ve_info_ext s s'), (get_ve_ext s s') by assumption. rewrite Hmap in Hm.
    unfold get_info. rewrite Hinf.
    destruct (decide (ve_info s ve = i)) as [Hei|Hei].
    + rewrite Hei, lookup_insert. cbn. rewrite Hw. pose proof (Gweight _ _ Hm) as HW.
      rewrite Hei in HW. unfold get_info in HW. rewrite Hi in HW. exact HW.
    + rewrite lookup_insert_ne by congruence. apply Gweight. assumption.
  - intros ve e k ve_m He Hm. rewrite (ve_info_ext s s') by assumption. rewrite Hves in He. rewrite Hmap in Hm. eauto.
  - assumption.
  - rewrite Hmap. assumption.
  - rewrite Hrq. assumption.
  - rewrite Hsk, Hskon. assumption.
Qed.

(** rewriting lemmas for [s_infos] / [get_info] of nested updates (each a small [reflexivity];
    letting the kernel find these conversions on big terms is very slow) *)
Lemma s_infos_upd_info s i f : s_infos (upd_info s i f) = <[i := f (get_info s i)]> (s_infos s).
Proof. reflexivity. Qed.
Lemma get_info_upd_same s i f : get_info (upd_info s i f) i = f (get_info s i).
Proof. unfold get_info at 1. rewrite s_infos_upd_info, lookup_insert. reflexivity. Qed.
Lemma get_info_upd_ne s i j f : j <> i -> get_info (upd_info s i f) j = get_info s j.
Proof. intros Hne. unfold get_info. rewrite s_infos_upd_info, lookup_insert_ne by congruence. reflexivity. Qed.
Lemma s_infos_sset_sk s v b : s_infos (sset_sk s v b) = s_infos s.
Proof. reflexivity. Qed.
Lemma get_info_sset_sk s v b i : get_info (sset_sk s v b) i = get_info s i.
Proof. reflexivity. Qed.
Lemma s_infos_sset_map s v : s_infos (sset_map s v) = s_infos s.
Proof. reflexivity. Qed.
Lemma get_info_sset_map s v i : get_info (sset_map s v) i = get_info s i.
Proof. reflexivity. Qed.
Lemma s_infos_sset_ves s v : s_infos (sset_ves s v) = s_infos s.
Proof. reflexivity. Qed.
Lemma get_info_sset_ves s v i : get_info (sset_ves s v) i = get_info s i.
Proof. reflexivity. Qed.
Lemma s_infos_sset_prob s v : s_infos (sset_prob s v) = s_infos s.
Proof. reflexivity. Qed.
Lemma get_info_sset_prob s v i : get_info (sset_prob s v) i = get_info s i.
Proof. reflexivity. Qed.
Lemma s_infos_sset_wo s v : s_infos (sset_wo s v) = s_infos s.
Proof. reflexivity. Qed.
Lemma get_info_sset_wo s v i : get_info (sset_wo s v) i = get_info s i.
Proof. reflexivity. Qed.
Lemma s_infos_sset_rq s v : s_infos (sset_rq s v) = s_infos s.
Proof. reflexivity. Qed.
Lemma get_info_sset_rq s v i : get_info (sset_rq s v) i = get_info s i.
Proof. reflexivity. Qed.
Lemma s_infos_sset_wq s v : s_infos (sset_wq s v) = s_infos s.
Proof. reflexivity. Qed.
Lemma get_info_sset_wq s v i : get_info (sset_wq s v) i = get_info s i.
Proof. reflexivity. Qed.
Lemma s_infos_sset_ec s v : s_infos (sset_ec s v) = s_infos s.
Proof. reflexivity. Qed.
Lemma get_info_sset_ec s v i : get_info (sset_ec s v) i = get_info s i.
Proof. reflexivity. Qed.
Lemma s_infos_sset_ws s v : s_infos (sset_ws s v) = s_infos s.
Proof. reflexivity. Qed.
Lemma get_info_sset_ws s v i : get_info (sset_ws s v) i = get_info s i.
Proof. reflexivity. Qed.
Lemma s_infos_sset_va s v : s_infos (sset_va s v) = s_infos s.
Proof. reflexivity. Qed.
Lemma get_info_sset_va s v i : get_info (sset_va s v) i = get_info s i.
Proof. reflexivity. Qed.
Lemma s_infos_sset_sa s v : s_infos (sset_sa s v) = s_infos s.
Proof. reflexivity. Qed.
Lemma get_info_sset_sa s v i : get_info (sset_sa s v) i = get_info s i.
Proof. reflexivity. Qed.
Lemma s_infos_sset_next s v : s_infos (sset_next s v) = s_infos s.
Proof. reflexivity. Qed.
Lemma get_info_sset_next s v i : get_info (sset_next s v) i = get_info s i.
Proof. reflexivity. Qed.
Ltac sinf := rewrite ?s_infos_upd_info, ?get_info_upd_same, ?s_infos_sset_sk, ?get_info_sset_sk, ?s_infos_sset_map, ?get_info_sset_map, ?s_infos_sset_ves, ?get_info_sset_ves, ?s_infos_sset_prob, ?get_info_sset_prob, ?s_infos_sset_wo, ?get_info_sset_wo, ?s_infos_sset_rq, ?get_info_sset_rq, ?s_infos_sset_wq, ?get_info_sset_wq, ?s_infos_sset_ec, ?get_info_sset_ec, ?s_infos_sset_ws, ?get_info_sset_ws, ?s_infos_sset_va, ?get_info_sset_va, ?s_infos_sset_sa, ?get_info_sset_sa, ?s_infos_sset_next, ?get_info_sset_next.

Ltac sprojg :=
  cbn [s_map s_ves s_infos s_prob s_wo s_rq s_wq s_ec s_ws s_va s_sk s_skon s_sync_after s_next
       sset_map sset_ves sset_infos sset_prob sset_wo sset_rq sset_wq sset_ec sset_ws sset_va
       sset_sk sset_sa sset_next upd_info].

Lemma handle_admit_G c q s k h ve w i x :
  SInvG c q s -> ve_info s ve = i -> s_infos s !! i = Some x -> si_admitted x = false ->
  map_has_info s k i = true -> k = si_key x -> h = sc_hash c k -> w = si_weight x ->
  s_next s + 2 < 2 ^ 32 ->
  exists s', handle_admit c s k h ve w = Ok s' /\ SInvG c q s' /\
    s_map s' = s_map s /\ s_ves s' = s_ves s /\ s_wq s' = s_wq s /\ s_rq s' = s_rq s /\
    s_va s' = s_va s /\ s_sk s' = s_sk s /\ s_skon s' = s_skon s /\ s_sync_after s' = s_sync_after s /\
    s_next s <= s_next s' <= s_next s + 2 /\
    s_prob s' = s_prob s ++ [(s_next s, mkSAo k h i)] /\
    (exists x', s_infos s' !! i = Some x' /\ si_admitted x' = true /\ si_weight x' = w /\ si_dirty x' = si_dirty x).
Proof.
  intros H Hve Hi Hna Hmh -> -> -> Hnext. pose proof H as H0. destG H0.
  assert (Hg0 : get_info s i = x) by (apply get_info_Some; exact Hi).
  rewrite admitted_infos_adm in Gec, Gws.
  pose proof (adm_size_bound _ _ Ginfos) as Hb1.
  pose proof (adm_weight_bound _ _ Ginfos Gwlt) as Hb2.
  pose proof (Gwlt _ _ Hi) as Hb3.
  change (2 ^ 32) with two32 in Hnext.
  unfold handle_admit. rewrite Hve. unfold chk_add64.
  destruct (s_ec s + 1 <? two64) eqn:E1; [|apply N.ltb_ge in E1; unfold two64, two32 in *; lia].
  cbn [rbind]. sproj.
  assert (Hsat : sat_add64 (s_ws s) (si_weight x) = s_ws s + si_weight x).
  { unfold sat_add64. apply N.min_l. unfold u64_max, two32 in *. nia. }
  rewrite Hsat.
  destruct (sc_ttl c) eqn:Et.
  - eexists. split; [reflexivity|].
    match goal with |- context [SInvG c q ?t] =>
      assert (Hinf : s_infos t = <[i := si_set_admitted true (si_set_wo (Some (s_next s + 1)) (si_set_ao (Some (s_next s)) x))]> (s_infos s)) end.
    { repeat sinf. rewrite Hg0. rewrite !insert_insert. reflexivity. }
    split; [|repeat (split; [reflexivity|])].
    + eapply G_admit with (i:=i) (x:=x); try exact Hinf; try eassumption; try reflexivity.
      rewrite Et. sprojg. repeat split. lia.
    + split; [sprojg; lia|]. split; [reflexivity|]. rewrite Hinf. eexists. rewrite lookup_insert.
      split; [reflexivity|]. repeat split.
  - eexists. split; [reflexivity|].
    match goal with |- context [SInvG c q ?t] =>
      assert (Hinf : s_infos t = <[i := si_set_admitted true (si_set_ao (Some (s_next s)) x)]> (s_infos s)) end.
    { repeat sinf. rewrite Hg0. rewrite !insert_insert. reflexivity. }
    split; [|repeat (split; [reflexivity|])].
    + eapply G_admit with (i:=i) (x:=x); try exact Hinf; try eassumption; try reflexivity.
      rewrite Et. sprojg. repeat split.
      destruct (Gadm _ _ Hi) as [_ Hw]. exact Hw.
    + split; [sprojg; lia|]. split; [reflexivity|]. rewrite Hinf. eexists. rewrite lookup_insert.
      split; [reflexivity|]. repeat split.
Qed.

Lemma has_upsert_for_ve_cons_upsert k h ve ow nw q v :
  has_upsert_for_ve (WUpsert k h ve ow nw :: q) v <-> v = ve \/ has_upsert_for_ve q v.
Proof.
  unfold has_upsert_for_ve. split.
  - intros (k' & h' & ow' & nw' & Hin). apply elem_of_cons in Hin as [Heq|Hin].
    + injection Heq as -> -> -> -> ->. left. reflexivity.
    + right. eauto 6.
  - intros [->|(k' & h' & ow' & nw' & Hin)].
    + exists k, h, ow, nw. left.
    + exists k', h', ow', nw'. right. assumption.
Qed.

Lemma has_upsert_for_ve_cons_remove k ve q v :
  has_upsert_for_ve (WRemove k ve :: q) v <-> has_upsert_for_ve q v.
Proof.
  unfold has_upsert_for_ve. split.
  - intros (k' & h' & ow' & nw' & Hin). apply elem_of_cons in Hin as [Heq|Hin]; [discriminate|eauto 6].
  - intros (k' & h' & ow' & nw' & Hin). exists k', h', ow', nw'. right. assumption.
Qed.

Lemma ve_ok_key_unique s k k' ve : ve_ok s k ve -> ve_ok s k' ve -> k = k'.
Proof.
  intros (e & y & He & Hy & Hk) (e' & y' & He' & Hy' & Hk'). congruence.
Qed.

Lemma ve_ok_info s k ve : ve_ok s k ve -> exists x, s_infos s !! ve_info s ve = Some x /\ si_key x = k.
Proof.
  intros (e & y & He & Hy & Hk). exists y. unfold ve_info, get_ve. rewrite He. cbn. auto.
Qed.

Lemma G_pop_upsert c k h ve ow nw q s :
  SInvG c (WUpsert k h ve ow nw :: q) s ->
  si_dirty (get_info s (ve_info s ve)) = false ->
  (forall k', s_map s !! k' = Some ve ->
     si_admitted (get_info s (ve_info s ve)) = true /\ si_weight (get_info s (ve_info s ve)) = nw) ->
  SInvG c q s.
Proof.
  intros H Hd Hcur. destG H.
  assert (Hop : wop_ok c s (WUpsert k h ve ow nw)) by (apply Gwq; left).
  destruct Hop as (Hok & Hh & Hnw).
  constructor; try assumption.
  - intros o Ho. apply Gwq. right. assumption.
  - intros j y Hj Hadm. destruct (Gghost _ _ Hj Hadm) as [?|(k' & ve' & Hin & Hve)]; [left; assumption|right].
    apply elem_of_cons in Hin as [Heq|Hin]; [discriminate|]. exists k', ve'. auto.
  - intros k0 ve0 k' ve_m Hin Hm. apply (Gdet k0 ve0 k' ve_m); [right; assumption|assumption].
  - intros k' ve_m Hm Hna. pose proof (Gorph _ _ Hm Hna) as Hu.
    apply has_upsert_for_ve_cons_upsert in Hu as [->|?]; [|assumption].
    destruct (Hcur _ Hm) as [Ha _]. congruence.
  - intros j y Hj Hdy. destruct (Gdirty _ _ Hj Hdy) as (k' & h' & ve' & ow' & nw' & Hin & Hve).
    apply elem_of_cons in Hin as [Heq|Hin].
    + injection Heq as -> -> -> -> ->. rewrite Hve, (get_info_Some _ _ _ Hj) in Hd. congruence.
    + exists k', h', ve', ow', nw'. auto.
  - intros k' ve_m Hm. destruct (Gweight _ _ Hm) as [Hu|?]; [|right; assumption].
    apply has_upsert_for_ve_cons_upsert in Hu as [->|?]; [right|left; assumption].
    destruct (Hcur _ Hm) as [_ ->]. rewrite Hnw.
    rewrite (ve_ok_key_unique _ _ _ _ Hok (Gmap _ _ Hm)). reflexivity.
  - cbn in Gsorted. apply StronglySorted_inv in Gsorted as [? _]. assumption.
  - intros k' ve_m Hm. cbn in Gsorted. apply StronglySorted_inv in Gsorted as [_ Hall].
    destruct (Golder _ _ Hm) as [Hu|Hall'].
    + apply has_upsert_for_ve_cons_upsert in Hu as [->|?]; [right|left; assumption].
      intros v Hv. rewrite Forall_forall in Hall. apply Hall. assumption.
    + right. intros v Hv. apply Hall'. cbn. right. assumption.
Qed.

Lemma G_pop_remove c k ve q s :
  SInvG c (WRemove k ve :: q) s ->
  si_admitted (get_info s (ve_info s ve)) = false ->
  SInvG c q s.
Proof.
  intros H Hna. destG H.
  constructor; try assumption.
  - intros o Ho. apply Gwq. right. assumption.
  - intros j y Hj Hadm. destruct (Gghost _ _ Hj Hadm) as [?|(k' & ve' & Hin & Hve)]; [left; assumption|right].
    apply elem_of_cons in Hin as [Heq|Hin].
    + injection Heq as -> ->. rewrite Hve, (get_info_Some _ _ _ Hj) in Hna. congruence.
    + exists k', ve'. auto.
  - intros k0 ve0 k' ve_m Hin Hm. apply (Gdet k0 ve0 k' ve_m); [right; assumption|assumption].
  - intros k' ve_m Hm Hna'. apply (Gorph _ _ Hm) in Hna'.
    apply (proj1 (has_upsert_for_ve_cons_remove _ _ _ _)) in Hna'. assumption.
  - intros j y Hj Hdy. destruct (Gdirty _ _ Hj Hdy) as (k' & h' & ve' & ow' & nw' & Hin & Hve).
    apply elem_of_cons in Hin as [Heq|Hin]; [discriminate|]. exists k', h', ve', ow', nw'. auto.
  - intros k' ve_m Hm. destruct (Gweight _ _ Hm) as [Hu|?]; [|right; assumption].
    apply (proj1 (has_upsert_for_ve_cons_remove _ _ _ _)) in Hu. left. assumption.
  - intros k' ve_m Hm. destruct (Golder _ _ Hm) as [Hu|Hall']; [left|right; assumption].
    apply (proj1 (has_upsert_for_ve_cons_remove _ _ _ _)) in Hu. assumption.
Qed.

Lemma handle_remove_map_G c q s k ve :
  SInvG c q s -> s_map s !! k = Some ve ->
  exists s' x, s_infos s !! ve_info s ve = Some x /\
    handle_remove (sset_map s (delete k (s_map s))) (ve_info s ve) = Ok s' /\ SInvG c q s' /\
    s_map s' = delete k (s_map s) /\ s_ves s' = s_ves s /\ s_wq s' = s_wq s /\ s_rq s' = s_rq s /\
    s_va s' = s_va s /\ s_sk s' = s_sk s /\ s_skon s' = s_skon s /\ s_sync_after s' = s_sync_after s /\
    s_next s' = s_next s /\
    (forall j, j <> ve_info s ve -> s_infos s' !! j = s_infos s !! j) /\
    (exists x', s_infos s' !! ve_info s ve = Some x' /\ si_admitted x' = false) /\
    s_prob s' = match si_ao x with Some n => remove_id n (s_prob s) | None => s_prob s end /\
    s_wo s' = match si_wo x with Some n => remove_id n (s_wo s) | None => s_wo s end /\
    (si_admitted x = true -> s_ec s' + 1 = s_ec s /\ s_ws s' + si_weight x = s_ws s /\
       exists n nd, si_ao x = Some n /\ (n, nd) ∈ s_prob s).
Proof.
  intros H Hm. pose proof (gv_map _ _ _ H _ _ Hm) as Hok.
  destruct (ve_ok_info _ _ _ Hok) as (x & Hi & Hkx).
  destruct (handle_remove_G c q s (delete k (s_map s)) (ve_info s ve) x H Hi) as (s' & Hs').
  - apply delete_subseteq.
  - intros k' ve' Hm'. destruct (decide (k' = k)) as [->|Hne].
    + right. congruence.
    + left. rewrite lookup_delete_ne by congruence. assumption.
  - intros k' ve' Hm' Heq. apply lookup_delete_Some in Hm' as [Hne Hm'].
    pose proof (gv_map _ _ _ H _ _ Hm') as Hok'.
    destruct (ve_ok_info _ _ _ Hok') as (x' & Hi' & Hkx'). rewrite Heq in Hi'. congruence.
  - exists s', x. split; [assumption|]. exact Hs'.
Qed.


Definition sk_load_s (s : sstate) : N := N.of_nat (size (sk_table (s_sk s))).

Lemma G_upd_la c q s i x ts :
  SInvG c q s -> s_infos s !! i = Some x -> SInvG c q (upd_info s i (si_set_la ts)).
Proof.
  intros H Hi. eapply G_upd with (i:=i) (x:=x) (x':=si_set_la ts x); try exact H; try exact Hi; try reflexivity.
  - rewrite s_infos_upd_info, (get_info_Some _ _ _ Hi). reflexivity.
  - auto.
  - apply (ga_weight_lt _ _ _ H _ _ Hi).
  - intros k ve_m Hm Hve. pose proof (gw_weight _ _ _ H _ _ Hm) as HW.
    rewrite Hve, (get_info_Some _ _ _ Hi) in HW. exact HW.
Qed.

Lemma increment_empty h : increment sk_empty h = Ok sk_empty.
Proof. reflexivity. Qed.

Lemma apply_read_G c q s o rest :
  SInvG c q s -> s_rq s = o :: rest -> sk_load_s s < 2 ^ 28 ->
  exists s', apply_read (sset_rq s rest) o = Ok s' /\ SInvG c q s' /\
    s_rq s' = rest /\ s_wq s' = s_wq s /\ s_map s' = s_map s /\ s_ves s' = s_ves s /\
    s_va s' = s_va s /\ s_next s' = s_next s /\ s_ec s' = s_ec s /\ s_ws s' = s_ws s /\
    s_skon s' = s_skon s /\ s_sync_after s' = s_sync_after s /\
    sk_load_s s' <= sk_load_s s + 4.
Proof.
  intros H Hrq Hload.
  destruct (gk_sketch _ _ _ H) as [Hwf Hoff].
  assert (Hinc : forall h, exists sk', increment (s_sk s) h = Ok sk' /\ sk_wf sk' /\
            (s_skon s = false -> sk' = sk_empty) /\
            N.of_nat (size (sk_table sk')) <= sk_load_s s + 4).
  { intros h. destruct (increment_ok_load (s_sk s) h Hwf Hload) as (sk' & Hi & Hwf' & _ & _ & _ & Hsz).
    exists sk'. split; [assumption|]. split; [assumption|]. split; [|assumption].
    intros Hf. rewrite (Hoff Hf), increment_empty in Hi. congruence. }
  assert (H1 : forall sk', sk_wf sk' -> (s_skon s = false -> sk' = sk_empty) ->
             SInvG c q (sset_sk (sset_rq s rest) sk' (s_skon s))).
  { intros sk' Hwf' Hoff'. eapply G_frame; try exact H; try reflexivity; sprojg; auto.
    - intros o' Ho'. rewrite Hrq. right. assumption.
    - rewrite Hrq. cbn. lia. }
  destruct o as [h ve ts|h]; cbn [apply_read]; sprojg.
  - destruct (Hinc h) as (sk' & -> & Hwf' & Hoff' & Hsz). cbn [rbind].
    specialize (H1 sk' Hwf' Hoff').
    set (s1 := sset_sk (sset_rq s rest) sk' (s_skon s)) in *.
    assert (Hrop : rop_ok s (RHit h ve ts)) by (apply (gv_rq _ _ _ H); rewrite Hrq; left).
    destruct Hrop as (k & Hok). destruct (ve_ok_info _ _ _ Hok) as (x & Hi & _).
    change (ve_info s1 ve) with (ve_info s ve).
    set (i := ve_info s ve) in *.
    change (s_infos s !! i = Some x) with (s_infos s1 !! i = Some x) in Hi.
    set (s2 := if si_la (get_info s1 i) <? ts then upd_info s1 i (si_set_la ts) else s1).
    assert (H2 : SInvG c q s2 /\ (exists x2, s_infos s2 !! i = Some x2) /\
      s_rq s2 = rest /\ s_wq s2 = s_wq s /\ s_map s2 = s_map s /\ s_ves s2 = s_ves s /\
      s_va s2 = s_va s /\ s_next s2 = s_next s /\ s_ec s2 = s_ec s /\ s_ws s2 = s_ws s /\
      s_skon s2 = s_skon s /\ s_sync_after s2 = s_sync_after s /\ s_sk s2 = sk').
    { subst s2. destruct (si_la (get_info s1 i) <? ts).
      - split; [eapply G_upd_la; eassumption|]. split; [|repeat split].
        rewrite s_infos_upd_info, lookup_insert. eauto.
      - split; [assumption|]. split; [eauto|repeat split]. }
    clearbody s2. destruct H2 as (H2 & (x2 & Hi2) & F1 & F2 & F3 & F4 & F5 & F6 & F7 & F8 & F9 & F10 & F11).
    destruct (si_admitted (get_info s2 i)).
    + destruct (s_move_to_back_ao_G _ _ _ _ _ H2 Hi2) as (s' & Hmv & H' & Hp & Hs').
      exists s'. split; [assumption|]. split; [assumption|]. rewrite Hs'. sprojg.
      repeat (split; [assumption|]). unfold sk_load_s. sprojg. rewrite F11. assumption.
    + exists s2. split; [reflexivity|]. split; [assumption|].
      repeat (split; [assumption|]). unfold sk_load_s. rewrite F11. assumption.
  - destruct (Hinc h) as (sk' & -> & Hwf' & Hoff' & Hsz). cbn [rbind].
    eexists. split; [reflexivity|]. split; [apply H1; assumption|].
    sprojg. repeat (split; [reflexivity|]). assumption.
Qed.

Lemma G_map_shrink c q s s' :
  SInvG c q s ->
  s_map s' ⊆ s_map s ->
  (forall k ve, s_map s !! k = Some ve -> s_map s' !! k = Some ve \/
                si_admitted (get_info s (ve_info s ve)) = false) ->
  s_ves s' = s_ves s -> s_infos s' = s_infos s -> s_prob s' = s_prob s -> s_wo s' = s_wo s ->
  s_rq s' = s_rq s -> s_ec s' = s_ec s -> s_ws s' = s_ws s -> s_next s' = s_next s ->
  s_sk s' = s_sk s -> s_skon s' = s_skon s ->
  SInvG c q s'.
Proof.
  intros H Hsub Hrm Hves Hinf Hprob Hwoq Hrq Hec Hws Hnext Hsk Hskon.
  assert (HK : infos_keys (s_infos s) (s_infos s')) by (rewrite Hinf; apply infos_keys_refl).
  destG H. constructor.
  - intros k ve Hm. eapply lookup_weaken in Hm; [|exact Hsub]. eapply ve_ok_keys; eauto.
  - rewrite Hves, Hinf, Hnext. assumption.
  - rewrite Hinf, Hnext. assumption.
  - intros o Ho. eapply wop_ok_keys; eauto.
  - intros o Ho. rewrite Hrq in Ho. eapply rop_ok_keys; eauto.
  - rewrite Hprob. assumption.
  - rewrite Hwoq. assumption.
  - rewrite Hprob, Hnext. assumption.
  - rewrite Hwoq, Hnext. assumption.
  - rewrite Hprob, Hinf. assumption.
  - rewrite Hprob, Hinf. assumption.
  - rewrite Hwoq, Hinf. assumption.
  - rewrite Hwoq, Hinf. assumption.
  - rewrite Hinf. assumption.
  - rewrite Hinf. intros j y Hj Hadm. rewrite (has_remove_for_info_ext s s') by assumption.
    destruct (Gghost _ _ Hj Hadm) as [Hmh|Hr]; [left|right; assumption].
    apply map_has_info_true in Hmh as (ve & Hm & Hve). apply map_has_info_true.
    exists ve. rewrite (ve_info_ext s s') by assumption. split; [|assumption].
    destruct (Hrm _ _ Hm) as [?|Hna]; [assumption|].
    rewrite Hve, (get_info_Some _ _ _ Hj) in Hna. congruence.
  - intros k ve k' ve_m Hq Hm. rewrite !(ve_info_ext s s') by assumption.
    eapply lookup_weaken in Hm; [|exact Hsub]. eauto.
  - intros k ve Hm. rewrite (ve_info_ext s s') by assumption.
    eapply lookup_weaken in Hm; [|exact Hsub]. unfold get_info. rewrite Hinf. apply (Gorph _ _ Hm).
  - rewrite Hinf. intros j y Hj Hdy. rewrite (has_upsert_for_info_ext s s') by assumption. eauto.
  - rewrite Hec, Gec. unfold admitted_infos. rewrite Hinf. reflexivity.
  - rewrite Hws, Gws. unfold admitted_infos. rewrite Hinf. reflexivity.
  - rewrite Hinf. assumption.
  - intros k ve Hm. rewrite (ve_info_ext s s'), (get_ve_ext s s') by assumption.
    eapply lookup_weaken in Hm; [|exact Hsub]. unfold get_info. rewrite Hinf. apply (Gweight _ _ Hm).
  - intros ve e k ve_m He Hm. rewrite (ve_info_ext s s') by assumption. rewrite Hves in He.
    eapply lookup_weaken in Hm; [|exact Hsub]. eauto.
  - assumption.
  - intros k ve_m Hm. eapply lookup_weaken in Hm; [|exact Hsub]. eauto.
  - rewrite Hrq. assumption.
  - rewrite Hsk, Hskon. assumption.
Qed.

Lemma sweigh_lt c k v : scfg_ok c -> sweigh c k v < two32.
Proof.
  intros [Hwf _]. unfold sweigh. destruct (sc_wf c) eqn:E; [eauto|]. unfold two32. lia.
Qed.

(** facts about the upsert at the head of the queue *)
Lemma upsert_head_facts c k h ve ow nw q s :
  scfg_ok c -> SInvG c (WUpsert k h ve ow nw :: q) s ->
  exists x, s_infos s !! ve_info s ve = Some x /\ si_key x = k /\ h = sc_hash c k /\
    nw = sweigh c k (sv_val (get_ve s ve)) /\ nw < two32 /\
    (forall k' ve_m, s_map s !! k' = Some ve_m -> ve_info s ve_m = ve_info s ve ->
       k' = k /\ (has_upsert_for_ve (WUpsert k h ve ow nw :: q) ve_m \/
                  nw = sweigh c k' (sv_val (get_ve s ve_m)))).
Proof.
  intros Hc H. pose proof H as H0. destG H0.
  assert (Hop : wop_ok c s (WUpsert k h ve ow nw)) by (apply Gwq; left).
  destruct Hop as (Hok & Hh & Hnw).
  destruct (ve_ok_info _ _ _ Hok) as (x & Hi & Hkx).
  exists x. split; [assumption|]. split; [assumption|]. split; [assumption|]. split; [assumption|].
  split. { rewrite Hnw. apply sweigh_lt. assumption. }
  intros k' ve_m Hm Hve.
  assert (k' = k) as ->.
  { destruct (ve_ok_info _ _ _ (Gmap _ _ Hm)) as (x' & Hi' & Hkx'). rewrite Hve in Hi'. congruence. }
  split; [reflexivity|].
  destruct (decide (ve_m = ve)) as [->|Hne]; [right; assumption|left].
  destruct (Golder _ _ Hm) as [?|Hall]; [assumption|exfalso].
  assert (ve_m < ve) by (apply Hall; cbn; left).
  destruct Hok as (e & y & He & _).
  assert (ve <= ve_m); [|lia].
  eapply Gnewest; [exact He|exact Hm|]. rewrite Hve. unfold ve_info, get_ve. rewrite He. reflexivity.
Qed.

Lemma get_info_weight_lt c q s j : SInvG c q s -> si_weight (get_info s j) < two32.
Proof.
  intros H. unfold get_info. destruct (s_infos s !! j) as [y|] eqn:E; cbn.
  - apply (ga_weight_lt _ _ _ H _ _ E).
  - unfold two32. lia.
Qed.

Lemma s_admit_loop_spec c q s l cw cf vw vf r victims skipped :
  SInvG c q s -> cw < two32 -> cf <= 15 ->
  exists v' sk' vw' vf' rest',
    s_admit_loop s l cw cf vw vf r victims skipped = Ok (v', sk', vw', vf') /\
    (v' ++ sk') ++ rest' ≡ₚ victims ++ skipped ++ l.*1.
Proof.
  intros H Hcw Hcf. revert vw vf r victims skipped.
  induction l as [|[nid nd] rest IH]; intros vw vf r victims skipped.
  - exists victims, skipped, vw, vf, []. split.
    + cbn [s_admit_loop]. destruct (cw <=? vw); [reflexivity|]. destruct (cf <? vf); reflexivity.
    + cbn. rewrite !app_nil_r. reflexivity.
  - cbn [s_admit_loop].
    destruct (cw <=? vw) eqn:E1.
    { exists victims, skipped, vw, vf, ((nid, nd) :: rest).*1. split; [reflexivity|]. rewrite app_assoc. reflexivity. }
    destruct (cf <? vf) eqn:E2.
    { exists victims, skipped, vw, vf, ((nid, nd) :: rest).*1. split; [reflexivity|]. rewrite app_assoc. reflexivity. }
    apply N.leb_gt in E1. apply N.ltb_ge in E2.
    destruct (map_has_info s (sa_key nd) (sa_info nd)).
    + pose proof (get_info_weight_lt _ _ _ (sa_info nd) H) as Hw.
      pose proof (frequency_le_15 (s_sk s) (sa_hash nd)) as Hf.
      unfold chk_add64. destruct (_ <? two64) eqn:E3; [|apply N.ltb_ge in E3; unfold two64, two32 in *; lia].
      cbn [rbind]. unfold chk_add32. destruct (_ <? two32) eqn:E4; [|apply N.ltb_ge in E4; unfold two32 in *; lia].
      cbn [rbind].
      destruct (IH (vw + si_weight (get_info s (sa_info nd))) (vf + frequency (s_sk s) (sa_hash nd)) 0 (victims ++ [nid]) skipped)
        as (v' & sk' & vw' & vf' & rest' & -> & Hp).
      exists v', sk', vw', vf', rest'. split; [reflexivity|]. rewrite Hp. cbn.
      rewrite <- app_assoc. cbn. apply Permutation_app_head. apply Permutation_middle.
    + destruct (MAX_CONSECUTIVE_RETRIES <? r + 1).
      * exists victims, (skipped ++ [nid]), vw, vf, rest.*1. split; [reflexivity|].
        cbn. rewrite <- !app_assoc. reflexivity.
      * destruct (IH vw vf (r + 1) victims (skipped ++ [nid])) as (v' & sk' & vw' & vf' & rest' & -> & Hp).
        exists v', sk', vw', vf', rest'. split; [reflexivity|]. rewrite Hp. cbn.
        rewrite <- !app_assoc. reflexivity.
Qed.

Lemma s_move_skipped_G c q s skipped :
  SInvG c q s -> (forall n, n ∈ skipped -> n ∈ (s_prob s).*1) ->
  exists s', s_move_skipped s skipped = Ok s' /\ SInvG c q s' /\ s_prob s' ≡ₚ s_prob s /\
    s' = sset_prob s (s_prob s').
Proof.
  revert s. induction skipped as [|nid rest IH]; intros s H Hin.
  - exists s. split; [reflexivity|]. split; [assumption|]. split; [reflexivity|]. symmetry. apply sset_prob_id.
  - cbn [s_move_skipped]. unfold sdeq_move_to_back.
    destruct (elem_fst_find_id nid (s_prob s)) as [nd Hnd]; [apply Hin; left|]. rewrite Hnd. cbn [rbind].
    pose proof (remove_id_perm _ _ _ Hnd) as Hp.
    destruct (IH (sset_prob s (remove_id nid (s_prob s) ++ [(nid, nd)]))) as (s' & -> & H' & Hp' & Hs').
    + apply G_perm_prob; assumption.
    + intros n Hn. sprojg. rewrite Hp. apply Hin. right. assumption.
    + exists s'. split; [reflexivity|]. split; [assumption|]. split.
      * rewrite Hp'. sprojg. assumption.
      * rewrite Hs' at 1. reflexivity.
Qed.

Lemma elem_fst_remove_id {A} n m (l : list (N * A)) :
  NoDup l.*1 -> n ∈ l.*1 -> n <> m -> n ∈ (remove_id m l).*1.
Proof.
  intros Hnd Hin Hne. apply elem_of_list_fmap in Hin as ([n' a] & -> & Hin).
  apply elem_of_list_fmap. exists (n', a). split; [reflexivity|].
  apply elem_remove_id; auto.
Qed.

Lemma s_remove_victims_G c q s i0 x0 victims skipped :
  SInvG c q s -> NoDup victims -> (forall n, n ∈ victims -> n ∉ skipped) ->
  (forall n, n ∈ victims ++ skipped -> n ∈ (s_prob s).*1) ->
  s_infos s !! i0 = Some x0 -> si_admitted x0 = false ->
  exists s' sk', s_remove_victims s victims skipped = Ok (s', sk') /\ SInvG c q s' /\
    (forall n, n ∈ sk' -> n ∈ (s_prob s').*1) /\
    s_map s' ⊆ s_map s /\ s_ves s' = s_ves s /\ s_wq s' = s_wq s /\ s_rq s' = s_rq s /\
    s_va s' = s_va s /\ s_sk s' = s_sk s /\ s_skon s' = s_skon s /\ s_sync_after s' = s_sync_after s /\
    s_next s' = s_next s /\
    s_infos s' !! i0 = Some x0 /\
    (forall k ve, s_map s !! k = Some ve -> ve_info s ve = i0 -> s_map s' !! k = Some ve).
Proof.
  revert s skipped. induction victims as [|nid rest IH]; intros s skipped H Hnd Hdis Hin Hi0 Hna0.
  - exists s, skipped. split; [reflexivity|]. split; [assumption|].
    split; [intros n Hn; apply Hin; assumption|].
    split; [reflexivity|]. repeat (split; [reflexivity|]). split; [assumption|]. auto.
  - cbn [s_remove_victims]. apply NoDup_cons in Hnd as [Hnid Hnd].
    destruct (elem_fst_find_id nid (s_prob s)) as [nd Hfd]; [apply Hin; left|]. rewrite Hfd.
    pose proof (find_id_Some_elem _ _ _ Hfd) as Hnode.
    destruct (map_has_info s (sa_key nd) (sa_info nd)) eqn:Emh.
    + apply map_has_info_true in Emh as (ve' & Hm' & Hve').
      destruct (handle_remove_map_G _ _ _ _ _ H Hm')
        as (s1 & x & Hi & Hr & H1 & E1 & E2 & E3 & E4 & E5 & E6 & E7 & E8 & E9 & E10 & _ & Ep & Ew & Ha).
      rewrite Hve' in *. rewrite Hr. cbn [rbind].
      destruct (gn_ao_info _ _ _ H _ _ Hnode) as (x' & Hx' & Hao & Hkey & _).
      replace x' with x in * by congruence. clear Hx'.
      assert (Hadm : si_admitted x = true).
      { apply (gn_admitted _ _ _ H _ _ Hi). eauto. }
      assert (Hne0 : i0 <> sa_info nd) by (intros ->; congruence).
      rewrite Hao in Ep.
      destruct (IH s1 skipped H1 Hnd) as (s' & sk' & Hrv & H' & Hsk & F1 & F2 & F3 & F4 & F5 & F6 & F7 & F8 & F9 & F10 & F11).
      * intros n Hn. apply Hdis. right. assumption.
      * intros n Hn. rewrite Ep. apply elem_fst_remove_id.
        -- apply (gn_nodup_ao _ _ _ H).
        -- apply Hin. right. assumption.
        -- intros ->. apply elem_of_app in Hn as [Hn|Hn]; [contradiction|].
           apply (Hdis nid); [left|assumption].
      * rewrite E10 by assumption. assumption.
      * assumption.
      * exists s', sk'. split; [assumption|]. split; [assumption|]. split; [assumption|].
        split. { etrans; [exact F1|]. rewrite E1. apply delete_subseteq. }
        repeat (split; [congruence|]).
        intros k ve Hm Hve. apply F11.
        -- rewrite E1. rewrite lookup_delete_ne; [assumption|]. intros <-. congruence.
        -- rewrite (ve_info_ext s s1) by assumption. assumption.
    + destruct (IH s (skipped ++ [nid]) H Hnd) as (s' & sk' & Hrv & Hrest); try assumption.
      * intros n Hn Hn'. apply elem_of_app in Hn' as [Hn'|Hn'].
        -- apply (Hdis n); [right|]; assumption.
        -- apply elem_of_list_singleton in Hn'. subst n. contradiction.
      * intros n Hn. apply Hin. apply elem_of_app in Hn as [Hn|Hn].
        -- right. apply elem_of_app. left. assumption.
        -- apply elem_of_app in Hn as [Hn|Hn].
           ++ right. apply elem_of_app. right. assumption.
           ++ apply elem_of_list_singleton in Hn. subst n. left.
      * exists s', sk'. split; assumption.
Qed.

Definition wframe (s s' : sstate) : Prop :=
  s_wq s' = s_wq s /\ s_rq s' = s_rq s /\ s_map s' ⊆ s_map s /\ s_ves s' = s_ves s /\
  s_va s' = s_va s /\ s_sk s' = s_sk s /\ s_skon s' = s_skon s /\ s_sync_after s' = s_sync_after s.

Lemma wframe_refl s : wframe s s.
Proof. repeat split; reflexivity. Qed.

Lemma wframe_trans s1 s2 s3 : wframe s1 s2 -> wframe s2 s3 -> wframe s1 s3.
Proof.
  intros (A1 & A2 & A3 & A4 & A5 & A6 & A7 & A8) (B1 & B2 & B3 & B4 & B5 & B6 & B7 & B8).
  repeat split; try congruence. etrans; eassumption.
Qed.

(** all fields but [s_infos] and [s_ws] agree *)
Definition same_but_infos_ws (s s' : sstate) : Prop :=
  s_map s' = s_map s /\ s_ves s' = s_ves s /\ s_prob s' = s_prob s /\ s_wo s' = s_wo s /\
  s_rq s' = s_rq s /\ s_wq s' = s_wq s /\ s_ec s' = s_ec s /\ s_va s' = s_va s /\
  s_sk s' = s_sk s /\ s_skon s' = s_skon s /\ s_sync_after s' = s_sync_after s /\
  s_next s' = s_next s.

Lemma pop_final c q s s' k h ve ow nw xf :
  SInvG c (WUpsert k h ve ow nw :: q) s' -> s_ves s' = s_ves s ->
  s_infos s' !! ve_info s ve = Some xf -> si_dirty xf = false ->
  (forall k', s_map s' !! k' = Some ve -> False) \/ (si_admitted xf = true /\ si_weight xf = nw) ->
  SInvG c q s'.
Proof.
  intros H Hv Hi Hd Hcase. eapply G_pop_upsert; [exact H| |].
  - rewrite (ve_info_ext s s') by assumption. rewrite (get_info_Some _ _ _ Hi). assumption.
  - intros k' Hm. rewrite (ve_info_ext s s') by assumption. rewrite (get_info_Some _ _ _ Hi).
    destruct Hcase as [Hno|?]; [destruct (Hno _ Hm)|assumption].
Qed.

Lemma handle_upsert_G c q s k h ve ow nw :
  scfg_ok c -> SInvG c (WUpsert k h ve ow nw :: q) s -> s_next s + 2 < 2 ^ 32 ->
  exists s', handle_upsert c s k h ve ow nw = Ok s' /\ SInvG c q s' /\ wframe s s' /\
    s_next s <= s_next s' <= s_next s + 2.
Proof.
  intros Hc H Hnext.
  destruct (upsert_head_facts _ _ _ _ _ _ _ _ Hc H) as (x & Hi & Hkx & Hh & Hnw & Hnwlt & HW).
  pose proof H as H0. destG H0.
  set (i := ve_info s ve) in *.
  assert (Hg0 : get_info s i = x) by (apply get_info_Some; exact Hi).
  rewrite admitted_infos_adm in Gec, Gws.
  pose proof (adm_size_bound _ _ Ginfos) as Hb1.
  pose proof (adm_weight_bound _ _ Ginfos Gwlt) as Hb2.
  pose proof (Gwlt _ _ Hi) as Hb3.
  destruct (adm_split _ _ _ Hi) as [Hsz Hwt].
  change (2 ^ 32) with two32 in Hnext.
  unfold handle_upsert. cbv zeta. fold i.
  set (sd := upd_info s i (si_set_dirty false)).
  assert (Hgd : get_info sd i = si_set_dirty false x).
  { subst sd. rewrite get_info_upd_same, Hg0. reflexivity. }
  rewrite !Hgd. cbn [si_set_dirty si_admitted si_weight].
  destruct (si_admitted x) eqn:Ea.
  - (* update of an admitted entry *)
    unfold cnt_of, wt_of in Hsz, Hwt. rewrite Ea in Hsz, Hwt.
    change (s_ws sd) with (s_ws s). change (s_map sd) with (s_map s).
    assert (Hsat : sat_add64 (sat_sub (s_ws s) (si_weight x)) nw = s_ws s - si_weight x + nw).
    { unfold sat_add64, sat_sub. apply N.min_l. unfold u64_max, two32 in *. nia. }
    rewrite Hsat.
    assert (Hopk : ve_ok s k ve).
    { assert (Hop : wop_ok c s (WUpsert k h ve ow nw)) by (apply Gwq; left). apply Hop. }
    match goal with |- context [s_move_to_back_ao ?t i] => set (t1 := t) end.
    (* [t1]: the weight is set only when the op's ValueEntry is the map's current one *)
    assert (Ht1 : exists x', s_infos t1 = <[i := x']> (s_infos s) /\ si_dirty x' = false /\
      (forall k', s_map s !! k' = Some ve -> si_admitted x' = true /\ si_weight x' = nw) /\
      SInvG c (WUpsert k h ve ow nw :: q) t1 /\
      s_map t1 = s_map s /\ s_ves t1 = s_ves s /\ s_rq t1 = s_rq s /\ s_wq t1 = s_wq s /\
      s_va t1 = s_va s /\ s_sk t1 = s_sk s /\ s_skon t1 = s_skon s /\
      s_sync_after t1 = s_sync_after s /\ s_next t1 = s_next s).
    { assert (Hstale : s_map s !! k <> Some ve ->
        exists x', s_infos sd = <[i := x']> (s_infos s) /\ si_dirty x' = false /\
        (forall k', s_map s !! k' = Some ve -> si_admitted x' = true /\ si_weight x' = nw) /\
        SInvG c (WUpsert k h ve ow nw :: q) sd /\
        s_map sd = s_map s /\ s_ves sd = s_ves s /\ s_rq sd = s_rq s /\ s_wq sd = s_wq s /\
        s_va sd = s_va s /\ s_sk sd = s_sk s /\ s_skon sd = s_skon s /\
        s_sync_after sd = s_sync_after s /\ s_next sd = s_next s).
      { intros Hnc. exists (si_set_dirty false x).
        assert (Hinfd : s_infos sd = <[i := si_set_dirty false x]> (s_infos s)).
        { subst sd. rewrite s_infos_upd_info, Hg0. reflexivity. }
        split; [exact Hinfd|]. split; [reflexivity|]. split.
        { intros k' Hm'. exfalso. apply Hnc.
          rewrite (ve_ok_key_unique _ _ _ _ Hopk (Gmap _ _ Hm')). exact Hm'. }
        split; [|repeat split].
        eapply G_upd with (i:=i) (x:=x) (x':=si_set_dirty false x); try exact H; try eassumption; try reflexivity.
        - cbn. discriminate.
        - intros k' ve_m Hm Hve. pose proof (Gweight _ _ Hm) as HW'. fold i in Hve.
          rewrite Hve, Hg0 in HW'. exact HW'. }
      subst t1. destruct (s_map s !! k) as [v|] eqn:Emk; [|apply Hstale; discriminate].
      destruct (N.eqb_spec v ve) as [->|Hne]; [|apply Hstale; congruence].
      clear Hstale.
      set (x' := si_set_weight nw (si_set_dirty false x)).
      set (t1 := upd_info (sset_ws sd (s_ws s - si_weight x + nw)) i (si_set_weight nw)).
      assert (Hinf1 : s_infos t1 = <[i := x']> (s_infos s)).
      { subst t1 sd. repeat sinf. rewrite Hg0. rewrite insert_insert. reflexivity. }
      assert (Hf1 : s_map t1 = s_map s /\ s_ves t1 = s_ves s /\ s_prob t1 = s_prob s /\ s_wo t1 = s_wo s /\
        s_rq t1 = s_rq s /\ s_wq t1 = s_wq s /\ s_ec t1 = s_ec s /\ s_va t1 = s_va s /\
        s_sk t1 = s_sk s /\ s_skon t1 = s_skon s /\ s_sync_after t1 = s_sync_after s /\
        s_next t1 = s_next s /\ s_ws t1 = s_ws s - si_weight x + nw) by (repeat split).
      clearbody t1. clear sd Hgd.
      destruct Hf1 as (F1 & F2 & F3 & F4 & F5 & F6 & F7 & F8 & F9 & F10 & F11 & F12 & F13).
      exists x'. split; [exact Hinf1|]. split; [reflexivity|].
      split; [intros _ _; split; [exact Ea|reflexivity]|].
      split; [|repeat split; assumption].
      eapply G_upd with (i:=i) (x:=x) (x':=x'); try exact H; try eassumption; try reflexivity.
      - subst x'. cbn. discriminate.
      - unfold wt_of. cbn. rewrite Ea, F13. rewrite Gws, Hwt. lia.
      - intros k' ve_m Hm Hve. apply (HW _ _ Hm Hve). }
    clearbody t1. clear sd Hgd.
    destruct Ht1 as (x' & Hinf1 & Hdx & Hcur & H1 & F1 & F2 & F5 & F6 & F8 & F9 & F10 & F11 & F12).
    assert (Hi1 : s_infos t1 !! i = Some x') by (rewrite Hinf1; apply lookup_insert).
    destruct (s_move_to_back_ao_G _ _ _ _ _ H1 Hi1) as (s3 & -> & H3 & Hp3 & Hs3). cbn [rbind].
    assert (Hi3 : s_infos s3 !! i = Some x') by (rewrite Hs3; exact Hi1).
    destruct (s_move_to_back_wo_G _ _ _ _ _ H3 Hi3) as (s4 & -> & H4 & Hp4 & Hs4).
    assert (Hi4 : s_infos s4 !! i = Some x') by (rewrite Hs4; exact Hi3).
    assert (Hv4 : s_ves s4 = s_ves s) by (rewrite Hs4, Hs3; exact F2).
    assert (Hm4 : s_map s4 = s_map s) by (rewrite Hs4, Hs3; exact F1).
    exists s4. split; [reflexivity|]. split.
    { eapply G_pop_upsert; [exact H4| |].
      - rewrite (ve_info_ext s s4) by assumption. fold i. rewrite (get_info_Some _ _ _ Hi4). exact Hdx.
      - intros k' Hm'. rewrite (ve_info_ext s s4) by assumption. fold i. rewrite (get_info_Some _ _ _ Hi4).
        rewrite Hm4 in Hm'. exact (Hcur _ Hm'). }
    rewrite Hs4, Hs3. sprojg. split; [|lia].
    unfold wframe. sprojg. rewrite F1. repeat split; try assumption; reflexivity.
  - (* not admitted yet *)
    unfold cnt_of, wt_of in Hsz, Hwt. rewrite Ea in Hsz, Hwt.
    change (map_has_info sd k i) with (map_has_info s k i).
    assert (Hsd : SInvG c (WUpsert k h ve ow nw :: q) sd /\
                  s_infos sd = <[i := si_set_dirty false x]> (s_infos s)).
    { assert (Hinfd : s_infos sd = <[i := si_set_dirty false x]> (s_infos s)).
      { subst sd. rewrite s_infos_upd_info, Hg0. reflexivity. }
      split; [|assumption].
      eapply G_upd with (i:=i) (x:=x) (x':=si_set_dirty false x); try exact H; try eassumption; try reflexivity.
      - cbn. discriminate.
      - intros k' ve_m Hm Hve. pose proof (Gweight _ _ Hm) as HW'. fold i in Hve.
        rewrite Hve, Hg0 in HW'. exact HW'. }
    destruct Hsd as [Hsd Hinfd].
    destruct (map_has_info s k i) eqn:Emh; cbn [negb].
    + (* current *)
      apply map_has_info_true in Emh as (ve_m & Hmk & Hvem). fold i in Hvem.
      set (x' := si_set_weight nw (si_set_dirty false x)).
      set (t := upd_info sd i (si_set_weight nw)).
      assert (Hinft : s_infos t = <[i := x']> (s_infos s)).
      { subst t. rewrite s_infos_upd_info, Hgd, Hinfd, insert_insert. reflexivity. }
      assert (Hft : s_map t = s_map s /\ s_ves t = s_ves s /\ s_prob t = s_prob s /\ s_wo t = s_wo s /\
        s_rq t = s_rq s /\ s_wq t = s_wq s /\ s_ec t = s_ec s /\ s_va t = s_va s /\
        s_sk t = s_sk s /\ s_skon t = s_skon s /\ s_sync_after t = s_sync_after s /\
        s_next t = s_next s /\ s_ws t = s_ws s) by (repeat split).
      change (s_map sd !! k) with (s_map s !! k). rewrite Hmk.
      clearbody t. clear sd Hgd Hsd Hinfd.
      destruct Hft as (F1 & F2 & F3 & F4 & F5 & F6 & F7 & F8 & F9 & F10 & F11 & F12 & F13).
      assert (Ht : SInvG c (WUpsert k h ve ow nw :: q) t).
      { eapply G_upd with (i:=i) (x:=x) (x':=x'); try exact H; try eassumption; try reflexivity.
        - subst x'. cbn. discriminate.
        - unfold wt_of. subst x'. cbn. rewrite Ea, F13. reflexivity.
        - intros k' ve_m' Hm Hve. apply (HW _ _ Hm Hve). }
      assert (Hit : s_infos t !! i = Some x') by (rewrite Hinft; apply lookup_insert).
      assert (Hwf : wframe s t).
      { unfold wframe. rewrite F1. repeat split; try assumption; reflexivity. }
      (* the state with the candidate removed *)
      set (rc := if ve_m =? ve then sset_map t (delete k (s_map t)) else t).
      assert (Hrc : SInvG c (WUpsert k h ve ow nw :: q) rc /\ s_infos rc = s_infos t /\
                    s_prob rc = s_prob t /\ wframe t rc /\ s_next rc = s_next t /\
                    (forall k', s_map rc !! k' = Some ve -> False)).
      { subst rc. destruct (N.eqb_spec ve_m ve) as [->|Hne].
        - split.
          { eapply G_map_shrink; try exact Ht; try reflexivity.
            - sprojg. apply delete_subseteq.
            - sprojg. intros k' ve' Hm'. destruct (decide (k' = k)) as [->|Hnk].
              + right. rewrite F1, Hmk in Hm'. injection Hm' as <-.
                rewrite (ve_info_ext s t) by assumption. fold i. rewrite (get_info_Some _ _ _ Hit). exact Ea.
              + left. rewrite lookup_delete_ne by congruence. assumption. }
          split; [reflexivity|]. split; [reflexivity|]. split.
          { unfold wframe. sprojg. repeat split; try reflexivity. apply delete_subseteq. }
          split; [reflexivity|]. sprojg. intros k' Hm'. apply lookup_delete_Some in Hm' as [Hnk Hm'].
          rewrite F1 in Hm'. destruct (HW _ _ Hm' eq_refl) as [-> _]. congruence.
        - split; [assumption|]. split; [reflexivity|]. split; [reflexivity|].
          split; [apply wframe_refl|]. split; [reflexivity|].
          intros k' Hm'. rewrite F1 in Hm'. destruct (HW _ _ Hm' eq_refl) as [-> _]. congruence. }
      clearbody rc. destruct Hrc as (Hrc & Hinfrc & Hprc & Hwfrc & Hnrc & Hnorc).
      (* capacity check *)
      assert (Hcap : exists free, s_has_enough_capacity c nw t = Ok free).
      { unfold s_has_enough_capacity. destruct (sc_cap c); [|eauto]. unfold chk_add64.
        destruct (_ <? two64) eqn:E; [cbn; eauto|]. apply N.ltb_ge in E.
        rewrite F13, Gws in E. unfold two64, two32 in *. nia. }
      destruct Hcap as (free & ->). cbn [rbind].
      assert (Hmht : map_has_info t k i = true).
      { apply map_has_info_true. exists ve_m. rewrite F1, (ve_info_ext s t) by assumption. auto. }
      assert (Hadmit : forall s1, SInvG c (WUpsert k h ve ow nw :: q) s1 -> wframe t s1 ->
                 s_next s1 = s_next t -> s_infos s1 !! i = Some x' -> s_map s1 !! k = Some ve_m ->
                 exists s2 xf, handle_admit c s1 k h ve nw = Ok s2 /\
                   SInvG c (WUpsert k h ve ow nw :: q) s2 /\ wframe t s2 /\
                   s_next s <= s_next s2 <= s_next s + 2 /\
                   s_prob s2 = s_prob s1 ++ [(s_next s1, mkSAo k h i)] /\
                   s_infos s2 !! i = Some xf /\ si_dirty xf = false /\
                   si_admitted xf = true /\ si_weight xf = nw).
      { intros s1 Hs1 (W1 & W2 & W3 & W4 & W5 & W6 & W7 & W8) Hn1 Hi1 Hm1.
        assert (Hv1 : s_ves s1 = s_ves s) by congruence.
        destruct (handle_admit_G c _ s1 k h ve nw i x' Hs1) as (s2 & Had & Hs2 & A1 & A2 & A3 & A4 & A5 & A6 & A7 & A8 & A9 & A10 & xf & A11 & A12 & A13 & A14); try assumption; try reflexivity.
        - rewrite (ve_info_ext s s1) by assumption. reflexivity.
        - apply map_has_info_true. exists ve_m. split; [assumption|].
          rewrite (ve_info_ext s s1) by assumption. assumption.
        - subst x'. cbn. congruence.
        - rewrite Hn1, F12. assumption.
        - exists s2, xf. split; [assumption|]. split; [assumption|]. split.
          { unfold wframe. rewrite A1. repeat split; try congruence. assumption. }
          split; [rewrite Hn1, F12 in A9; exact A9|]. split; [assumption|]. split; [assumption|].
          split; [rewrite A14; reflexivity|]. split; assumption. }
      destruct free.
      * (* room *)
        destruct (Hadmit t Ht (wframe_refl t) eq_refl Hit) as (s2 & xf & -> & Hs2 & Hw2 & Hn2 & _ & Hi2 & D1 & D2 & D3).
        { rewrite F1. assumption. }
        exists s2. split; [reflexivity|]. split.
        { eapply pop_final with (s:=s); try exact Hs2; try eassumption.
          - destruct Hw2 as (_ & _ & _ & -> & _). assumption.
          - right. auto. }
        split; [eapply wframe_trans; eassumption|assumption].
      * assert (Hv_rc : s_ves rc = s_ves s).
        { destruct Hwfrc as (_ & _ & _ & -> & _). assumption. }
        assert (Hi_rc : s_infos rc !! i = Some x') by (rewrite Hinfrc; assumption).
        assert (Hn_rc : s_next s <= s_next rc <= s_next s + 2) by (rewrite Hnrc, F12; lia).
        destruct (match sc_cap c with Some max => max <? nw | None => false end).
        { (* too big *)
          exists rc. split; [reflexivity|]. split.
          { eapply pop_final with (s:=s) (xf:=x'); try exact Hrc; try eassumption; [reflexivity|]. left. assumption. }
          split; [eapply wframe_trans; eassumption|assumption]. }
        destruct (s_admit_loop_spec _ _ t (s_prob t) nw (frequency (s_sk t) h) 0 0 0 [] [] Ht Hnwlt
                    (frequency_le_15 _ _)) as (vs & sk & vw & vf & rest' & -> & Hperm).
        cbn [rbind]. cbn [app] in Hperm.
        assert (Hnd_all : NoDup ((vs ++ sk) ++ rest')) by (rewrite Hperm; apply (gn_nodup_ao _ _ _ Ht)).
        apply NoDup_app in Hnd_all as (Hnd_vs_sk & _ & _).
        apply NoDup_app in Hnd_vs_sk as (Hnd_vs & Hdis & _).
        assert (Hmem : forall n, n ∈ vs ++ sk -> n ∈ (s_prob t).*1).
        { intros n Hn. rewrite <- Hperm. apply elem_of_app. left. assumption. }
        destruct ((nw <=? vw) && (vf <? frequency (s_sk t) h)).
        { (* admitted by TinyLFU *)
          destruct (s_remove_victims_G _ _ t i x' vs sk Ht Hnd_vs Hdis Hmem Hit Ea)
            as (s1 & sk1 & -> & Hs1 & Hsk1 & R1 & R2 & R3 & R4 & R5 & R6 & R7 & R8 & R9 & R10 & R11).
          cbn [rbind].
          destruct (Hadmit s1 Hs1) as (s2 & xf & -> & Hs2 & Hw2 & Hn2 & Hp2 & Hi2 & D1 & D2 & D3); try assumption.
          { unfold wframe. repeat split; assumption. }
          { apply R11; [rewrite F1; assumption|]. rewrite (ve_info_ext s t) by assumption. assumption. }
          cbn [rbind].
          destruct (s_move_skipped_G _ _ s2 sk1 Hs2) as (s3 & -> & Hs3 & Hp3 & Hs3').
          { intros n Hn. rewrite Hp2, fmap_app. apply elem_of_app. left. apply Hsk1. assumption. }
          exists s3. split; [reflexivity|]. split.
          { eapply pop_final with (s:=s) (xf:=xf); try exact Hs3.
            - rewrite Hs3'. sprojg. destruct Hw2 as (_ & _ & _ & -> & _). assumption.
            - rewrite Hs3'. exact Hi2.
            - assumption.
            - right. auto. }
          split; [|rewrite Hs3'; exact Hn2].
          eapply wframe_trans; [exact Hwf|]. rewrite Hs3'. exact Hw2. }
        (* rejected *)
        destruct (s_move_skipped_G _ _ rc sk Hrc) as (s3 & -> & Hs3 & Hp3 & Hs3').
        { intros n Hn. rewrite Hprc. apply Hmem. apply elem_of_app. right. assumption. }
        exists s3. split; [reflexivity|]. split.
        { eapply pop_final with (s:=s) (xf:=x'); try exact Hs3.
          - rewrite Hs3'. exact Hv_rc.
          - rewrite Hs3'. exact Hi_rc.
          - reflexivity.
          - left. rewrite Hs3'. exact Hnorc. }
        split; [|rewrite Hs3'; exact Hn_rc].
        eapply wframe_trans; [exact Hwf|]. eapply wframe_trans; [exact Hwfrc|].
        rewrite Hs3'. unfold wframe. sprojg. repeat split; reflexivity.
    + (* stale op *)
      exists sd. split; [reflexivity|]. split.
      { eapply pop_final with (s:=s) (xf:=si_set_dirty false x); try exact Hsd.
        - reflexivity.
        - fold i. rewrite Hinfd. apply lookup_insert.
        - reflexivity.
        - left. intros k' Hm'. change (s_map sd) with (s_map s) in Hm'.
          destruct (HW _ _ Hm' eq_refl) as [-> _].
          assert (map_has_info s k i = true); [|congruence].
          apply map_has_info_true. eauto. }
      split; [|change (s_next sd) with (s_next s); lia].
      unfold wframe. repeat split; reflexivity.
Qed.

Lemma sset_map_id s : sset_map s (s_map s) = s.
Proof. destruct s; reflexivity. Qed.

Lemma handle_remove_op_G c q s k ve :
  SInvG c (WRemove k ve :: q) s ->
  exists s', handle_remove s (ve_info s ve) = Ok s' /\ SInvG c q s' /\ wframe s s' /\ s_next s' = s_next s.
Proof.
  intros H.
  assert (Hop : wop_ok c s (WRemove k ve)) by (apply (gv_wq _ _ _ H); left).
  destruct (ve_ok_info _ _ _ Hop) as (x & Hi & _).
  destruct (handle_remove_G c _ s (s_map s) (ve_info s ve) x H Hi)
    as (s' & Hr & H' & E1 & E2 & E3 & E4 & E5 & E6 & E7 & E8 & E9 & _ & (x' & Hi' & Hna) & _).
  - reflexivity.
  - auto.
  - intros k' ve_m Hm. eapply (gr_detached _ _ _ H); [left|exact Hm].
  - rewrite sset_map_id in Hr. exists s'. split; [assumption|]. split.
    + eapply G_pop_remove; [exact H'|]. rewrite (ve_info_ext s s') by assumption.
      rewrite (get_info_Some _ _ _ Hi'). assumption.
    + split; [|assumption]. unfold wframe. rewrite E1. repeat split; try assumption. reflexivity.
Qed.

Lemma apply_write_G c q s o :
  scfg_ok c -> SInvG c (o :: q) s -> s_next s + 2 < 2 ^ 32 ->
  exists s', apply_write c s o = Ok s' /\ SInvG c q s' /\ wframe s s' /\
    s_next s <= s_next s' <= s_next s + 2.
Proof.
  intros Hc H Hnext. destruct o as [k h ve ow nw|k ve]; cbn [apply_write].
  - apply handle_upsert_G; assumption.
  - destruct (handle_remove_op_G _ _ _ _ _ H) as (s' & Hr & H' & Hw & Hn).
    exists s'. split; [assumption|]. split; [assumption|]. split; [assumption|]. lia.
Qed.


(* ------------------------------------------------------------------ *)
(** * Contract lemmas (about [SInvQ]) *)


Lemma apply_read_inv c extra s o rest :
  scfg_ok c -> SInvQ c extra s -> s_rq s = o :: rest -> sk_load_s s < 2 ^ 28 ->
  exists s', apply_read (sset_rq s rest) o = Ok s' /\ SInvQ c extra s' /\
    s_rq s' = rest /\ s_wq s' = s_wq s /\ s_map s' = s_map s /\ s_ves s' = s_ves s /\
    s_va s' = s_va s /\ s_next s' = s_next s /\ s_ec s' = s_ec s /\ s_ws s' = s_ws s /\
    s_skon s' = s_skon s /\ s_sync_after s' = s_sync_after s /\
    sk_load_s s' <= sk_load_s s + 4.
Proof.
  intros _ H Hrq Hload. apply SInvQ_G in H as (HG & Hq).
  destruct (apply_read_G _ _ _ _ _ HG Hrq Hload) as (s' & Hr & HG' & F).
  exists s'. split; [assumption|]. split; [|exact F].
  apply SInvQ_G. destruct F as (_ & -> & _). auto.
Qed.

Lemma apply_reads_inv c extra n s :
  scfg_ok c -> SInvQ c extra s -> sk_load_s s + 4 * N.of_nat n < 2 ^ 28 ->
  exists s', apply_reads s n = Ok s' /\ SInvQ c extra s' /\
    s_rq s' = drop n (s_rq s) /\ s_wq s' = s_wq s /\ s_map s' = s_map s /\ s_ves s' = s_ves s /\
    s_va s' = s_va s /\ s_next s' = s_next s /\ s_ec s' = s_ec s /\ s_ws s' = s_ws s /\
    s_skon s' = s_skon s /\ s_sync_after s' = s_sync_after s /\
    sk_load_s s' <= sk_load_s s + 4 * N.of_nat n.
Proof.
  intros Hc. revert s. induction n as [|n IH]; intros s H Hload.
  - exists s. split; [reflexivity|]. split; [assumption|]. rewrite drop_0.
    repeat (split; [reflexivity|]). lia.
  - cbn [apply_reads]. destruct (s_rq s) as [|o rest] eqn:Hrq.
    + exists s. split; [reflexivity|]. split; [assumption|]. rewrite Hrq.
      repeat (split; [reflexivity|]). lia.
    + destruct (apply_read_inv c extra s o rest Hc H Hrq) as (s1 & -> & H1 & F1 & F2 & F3 & F4 & F5 & F6 & F7 & F8 & F9 & F10 & F11); [lia|].
      cbn [rbind]. destruct (IH s1 H1) as (s' & Hr & H' & G1 & G2 & G3 & G4 & G5 & G6 & G7 & G8 & G9 & G10 & G11); [lia|].
      exists s'. split; [assumption|]. split; [assumption|].
      cbn [drop]. rewrite <- F1.
      repeat (split; [congruence|]). lia.
Qed.

Lemma apply_write_inv c extra s o rest :
  scfg_ok c -> SInvQ c extra s -> s_wq s = o :: rest -> s_next s + 2 < 2 ^ 32 ->
  exists s', apply_write c (sset_wq s rest) o = Ok s' /\ SInvQ c extra s' /\
    s_wq s' = rest /\ s_rq s' = s_rq s /\ s_map s' ⊆ s_map s /\ s_ves s' = s_ves s /\
    s_va s' = s_va s /\ s_sk s' = s_sk s /\ s_skon s' = s_skon s /\ s_sync_after s' = s_sync_after s /\
    s_next s <= s_next s' <= s_next s + 2.
Proof.
  intros Hc H Hwq Hnext. apply SInvQ_G in H as (HG & Hq1 & Hq2).
  rewrite Hwq in HG, Hq1. cbn [app] in HG.
  apply (SInvG_wq_irrel _ _ _ rest) in HG.
  destruct (apply_write_G c _ _ o Hc HG) as (s' & Hr & H' & (W1 & W2 & W3 & W4 & W5 & W6 & W7 & W8) & Hn).
  { assumption. }
  exists s'. split; [assumption|]. split.
  { apply SInvQ_G. rewrite W1. sprojg. split; [assumption|]. split; [|assumption].
    unfold qlen in *. cbn [length] in Hq1. lia. }
  repeat (split; [assumption|]). exact Hn.
Qed.

Lemma apply_writes_inv c extra n s :
  scfg_ok c -> SInvQ c extra s -> s_next s + 2 * N.of_nat n < 2 ^ 32 ->
  exists s', apply_writes c s n = Ok s' /\ SInvQ c extra s' /\
    s_wq s' = drop n (s_wq s) /\ s_rq s' = s_rq s /\ s_map s' ⊆ s_map s /\ s_ves s' = s_ves s /\
    s_va s' = s_va s /\ s_sk s' = s_sk s /\ s_skon s' = s_skon s /\ s_sync_after s' = s_sync_after s /\
    s_next s <= s_next s' <= s_next s + 2 * N.of_nat n.
Proof.
  intros Hc. revert s. induction n as [|n IH]; intros s H Hnext.
  - exists s. split; [reflexivity|]. split; [assumption|]. rewrite drop_0.
    repeat (split; [reflexivity|]). lia.
  - cbn [apply_writes]. destruct (s_wq s) as [|o rest] eqn:Hwq.
    + exists s. split; [reflexivity|]. split; [assumption|]. rewrite Hwq.
      repeat (split; [reflexivity|]). lia.
    + destruct (apply_write_inv c extra s o rest Hc H Hwq)
        as (s1 & -> & H1 & F1 & F2 & F3 & F4 & F5 & F6 & F7 & F8 & F9); [lia|].
      cbn [rbind]. destruct (IH s1 H1) as (s' & Hr & H' & G1 & G2 & G3 & G4 & G5 & G6 & G7 & G8 & G9); [lia|].
      exists s'. split; [assumption|]. split; [assumption|].
      cbn [drop]. rewrite <- F1.
      split; [assumption|]. split; [congruence|]. split; [etrans; eassumption|].
      repeat (split; [congruence|]). lia.
Qed.

Lemma handle_remove_map_inv c extra s k ve :
  scfg_ok c -> SInvQ c extra s -> s_map s !! k = Some ve ->
  exists s', handle_remove (sset_map s (delete k (s_map s))) (ve_info s ve) = Ok s' /\ SInvQ c extra s' /\
    s_map s' = delete k (s_map s) /\ s_ves s' = s_ves s /\ s_wq s' = s_wq s /\ s_rq s' = s_rq s /\
    s_va s' = s_va s /\ s_sk s' = s_sk s /\ s_skon s' = s_skon s /\ s_sync_after s' = s_sync_after s /\
    s_next s' = s_next s /\
    (forall i, i <> ve_info s ve -> s_infos s' !! i = s_infos s !! i) /\
    (* the deques only lose the nodes of that info; order of the rest is kept *)
    sublist (s_prob s') (s_prob s) /\ sublist (s_wo s') (s_wo s) /\
    (si_admitted (get_info s (ve_info s ve)) = true ->
       s_ec s' + 1 = s_ec s /\ s_ws s' + si_weight (get_info s (ve_info s ve)) = s_ws s /\
       (length (s_prob s') < length (s_prob s))%nat).
Proof.
  intros _ H Hm. apply SInvQ_G in H as (HG & Hq).
  destruct (handle_remove_map_G _ _ _ _ _ HG Hm)
    as (s' & x & Hi & Hr & HG' & E1 & E2 & E3 & E4 & E5 & E6 & E7 & E8 & E9 & E10 & _ & Ep & Ew & Ha).
  exists s'. split; [assumption|]. split.
  { apply SInvQ_G. rewrite E3. auto. }
  repeat (split; [assumption|]).
  rewrite (get_info_Some _ _ _ Hi).
  split. { rewrite Ep. destruct (si_ao x); [apply remove_id_sublist|reflexivity]. }
  split. { rewrite Ew. destruct (si_wo x); [apply remove_id_sublist|reflexivity]. }
  intros Hadm. destruct (Ha Hadm) as (A1 & A2 & n & nd & Hn & Hin).
  split; [assumption|]. split; [assumption|].
  rewrite Ep, Hn.
  pose proof (remove_id_length _ _ _ (elem_find_id _ _ _ (gn_nodup_ao _ _ _ HG) Hin)). lia.
Qed.

Lemma s_move_to_back_ao_inv c extra s i x :
  SInvQ c extra s -> s_infos s !! i = Some x ->
  exists s', s_move_to_back_ao s i = Ok s' /\ SInvQ c extra s' /\ s_prob s' ≡ₚ s_prob s /\
    s' = sset_prob s (s_prob s').
Proof.
  intros H Hi. apply SInvQ_G in H as (HG & Hq).
  destruct (s_move_to_back_ao_G _ _ _ _ _ HG Hi) as (s' & Hm & HG' & Hp & Hs').
  exists s'. split; [assumption|]. split; [|auto].
  apply SInvQ_G. rewrite Hs' in *. sprojg. auto.
Qed.

Lemma s_move_to_back_wo_inv c extra s i x :
  SInvQ c extra s -> s_infos s !! i = Some x ->
  exists s', s_move_to_back_wo s i = Ok s' /\ SInvQ c extra s' /\ s_wo s' ≡ₚ s_wo s /\
    s' = sset_wo s (s_wo s').
Proof.
  intros H Hi. apply SInvQ_G in H as (HG & Hq).
  destruct (s_move_to_back_wo_G _ _ _ _ _ HG Hi) as (s' & Hm & HG' & Hp & Hs').
  exists s'. split; [assumption|]. split; [|auto].
  apply SInvQ_G. rewrite Hs' in *. sprojg. auto.
Qed.

Lemma move_front_to_back_prob_inv c extra s :
  SInvQ c extra s -> SInvQ c extra (sset_prob s (move_front_to_back (s_prob s))).
Proof.
  intros H. apply SInvQ_G in H as (HG & Hq). apply SInvQ_G. sprojg. split; [|assumption].
  apply G_perm_prob; [assumption|apply move_front_to_back_perm].
Qed.

Lemma move_front_to_back_wo_inv c extra s :
  SInvQ c extra s -> SInvQ c extra (sset_wo s (move_front_to_back (s_wo s))).
Proof.
  intros H. apply SInvQ_G in H as (HG & Hq). apply SInvQ_G. sprojg. split; [|assumption].
  apply G_perm_wo; [assumption|apply move_front_to_back_perm].
Qed.

(* ------------------------------------------------------------------ *)
(** Status: every contract lemma of this layer is proved (no Admitted, no axioms).

    Structure: [SInvG c q s] is [SInvQ] with the logical write queue [q] explicit
    ([SInvQ_G]); the handlers never read [s_wq], so they are shown to preserve
    [SInvG c q] for the UNPOPPED queue ([G_upd], [G_remove], [G_admit], [G_map_shrink],
    [G_frame]), and the head op is dropped at the very end ([G_pop_upsert],
    [G_pop_remove]) once its info is clean / un-admitted.

    Note: clause [sr_detached] of [SInvQ] is what makes the popped-[WRemove] case
    go through ([handle_remove_op_G]); without it the invariant is not inductive
    (an admitted info with a queued WRemove that is still the map entry's info
    becomes a non-admitted map entry with no queued upsert). *)
