(** Invariant preservation and safety of the eviction layer and the public operations
    of the sync model, on top of the op-application contract of SInvWrites.v. *)
From MM Require Export Sync.SInvWrites.

(* ------------------------------------------------------------------ *)
(** * constant facts *)
Lemma c_flush_r_pos : 0 < READ_LOG_FLUSH_POINT. Proof. reflexivity. Qed.
Lemma c_flush_w_pos : 0 < WRITE_LOG_FLUSH_POINT. Proof. reflexivity. Qed.
Lemma c_flush_w_lt_size : WRITE_LOG_FLUSH_POINT < WRITE_LOG_SIZE. Proof. reflexivity. Qed.
Lemma c_flush_r_lt_size : READ_LOG_FLUSH_POINT < READ_LOG_SIZE. Proof. reflexivity. Qed.
Lemma c_flush_w_le : WRITE_LOG_FLUSH_POINT <= 64. Proof. vm_compute; discriminate. Qed.
Lemma c_flush_r_le : READ_LOG_FLUSH_POINT <= 64. Proof. vm_compute; discriminate. Qed.

Ltac sfields :=
  cbn [s_map s_ves s_infos s_prob s_wo s_rq s_wq s_ec s_ws s_va s_sk s_skon s_sync_after s_next
       sset_map sset_ves sset_infos sset_prob sset_wo sset_rq sset_wq sset_ec sset_ws sset_va
       sset_sk sset_sa sset_next upd_info] in *.

(* ------------------------------------------------------------------ *)
(** * frame lemmas *)
Lemma SInvQ_frame c extra extra' s s' :
  SInvQ c extra s ->
  s_map s' = s_map s -> s_ves s' = s_ves s -> s_infos s' = s_infos s ->
  s_prob s' = s_prob s -> s_wo s' = s_wo s -> s_rq s' = s_rq s ->
  s_wq s' ++ extra' = s_wq s ++ extra ->
  s_ec s' = s_ec s -> s_ws s' = s_ws s -> s_next s' = s_next s ->
  qlen (s_wq s') <= WRITE_LOG_FLUSH_POINT -> qlen extra' <= 1 ->
  (sk_wf (s_sk s') /\ (s_skon s' = false -> s_sk s' = sk_empty)) ->
  SInvQ c extra' s'.
Proof.
  intros H.
  destruct s as [m v i p w r q ec ws va sk on sa nx].
  destruct s' as [m' v' i' p' w' r' q' ec' ws' va' sk' on' sa' nx'].
  sfields. intros -> -> -> -> -> -> Hq -> -> -> HQ1 HQ2 HK.
  destruct H. constructor; sfields; try rewrite Hq; try assumption; auto.
Qed.

Lemma SInvQ_set_sa c extra s x : SInvQ c extra s -> SInvQ c extra (sset_sa s x).
Proof.
  intros H. eapply SInvQ_frame; try exact H; try reflexivity;
    try apply (sq_wq _ _ _ H); apply (sk_sketch _ _ _ H).
Qed.

Lemma SInvQ_set_va c extra s x : SInvQ c extra s -> SInvQ c extra (sset_va s x).
Proof.
  intros H. eapply SInvQ_frame; try exact H; try reflexivity;
    try apply (sq_wq _ _ _ H); apply (sk_sketch _ _ _ H).
Qed.

Lemma SInvQ_set_sk c extra s sk on :
  SInvQ c extra s -> sk_wf sk -> (on = false -> sk = sk_empty) -> SInvQ c extra (sset_sk s sk on).
Proof.
  intros H H1 H2. eapply SInvQ_frame; try exact H; try reflexivity;
    try apply (sq_wq _ _ _ H). split; assumption.
Qed.

(* ------------------------------------------------------------------ *)
(** * what maintenance leaves alone *)
Record mframe (s s' : sstate) : Prop := mkMF {
  mf_map : s_map s' ⊆ s_map s;
  mf_ves : s_ves s' = s_ves s;
  mf_va : s_va s' = s_va s;
  mf_wq : s_wq s' = s_wq s;
  mf_rq : s_rq s' = s_rq s;
  mf_next : s_next s' = s_next s;
  mf_sk : s_sk s' = s_sk s;
  mf_skon : s_skon s' = s_skon s;
  mf_sa : s_sync_after s' = s_sync_after s
}.

Lemma mframe_refl s : mframe s s.
Proof. constructor; reflexivity. Qed.

Lemma mframe_trans s1 s2 s3 : mframe s1 s2 -> mframe s2 s3 -> mframe s1 s3.
Proof.
  intros [] []. constructor; try congruence. etransitivity; eassumption.
Qed.

Definition estep (c : scfg) (extra : list writeop) (s : sstate) (r : res sstate) : Prop :=
  exists s', r = Ok s' /\ SInvQ c extra s' /\ mframe s s'.

Lemma estep_ok c extra s : SInvQ c extra s -> estep c extra s (Ok s).
Proof. intros H. exists s. split; [reflexivity|]. split; [assumption | apply mframe_refl]. Qed.

Lemma estep_weaken c extra s0 s r : mframe s0 s -> estep c extra s r -> estep c extra s0 r.
Proof.
  intros H0 (s' & -> & H1 & H2). exists s'. split; [reflexivity|].
  split; [assumption | eapply mframe_trans; eassumption].
Qed.

Lemma estep_bind c extra s r f :
  estep c extra s r ->
  (forall s1, SInvQ c extra s1 -> mframe s s1 -> estep c extra s1 (f s1)) ->
  estep c extra s (rbind r f).
Proof.
  intros (s1 & -> & H1 & H2) Hf. cbn [rbind]. eapply estep_weaken; [exact H2|]. apply Hf; assumption.
Qed.

Lemma map_entry_info c extra s k ve :
  SInvQ c extra s -> s_map s !! k = Some ve ->
  exists x, s_infos s !! ve_info s ve = Some x /\ si_key x = k.
Proof.
  intros H Hm. destruct (sv_map _ _ _ H _ _ Hm) as (e & x & He & Hx & Hk).
  exists x. unfold ve_info, get_ve. rewrite He. cbn [default]. auto.
Qed.

Lemma estep_remove c extra s k ve :
  scfg_ok c -> SInvQ c extra s -> s_map s !! k = Some ve ->
  estep c extra s (handle_remove (sset_map s (delete k (s_map s))) (ve_info s ve)).
Proof.
  intros Hc H Hm.
  destruct (handle_remove_map_inv c extra s k ve Hc H Hm)
    as (s' & E & HI & Hmap & Hves & Hwq & Hrq & Hva & Hsk & Hskon & Hsa & Hnext & _).
  exists s'. split; [exact E|]. split; [exact HI|].
  constructor; try assumption. rewrite Hmap. apply delete_subseteq.
Qed.

Lemma estep_mtb_ao c extra s i x :
  SInvQ c extra s -> s_infos s !! i = Some x ->
  exists s', s_move_to_back_ao s i = Ok s' /\ SInvQ c extra s' /\ mframe s s' /\ s_infos s' = s_infos s.
Proof.
  intros H Hi. destruct (s_move_to_back_ao_inv c extra s i x H Hi) as (s' & E & HI & _ & Es).
  exists s'. split; [exact E|]. split; [exact HI|]. rewrite Es.
  split; [constructor; reflexivity | reflexivity].
Qed.

Lemma estep_mtb_wo c extra s i x :
  SInvQ c extra s -> s_infos s !! i = Some x ->
  exists s', s_move_to_back_wo s i = Ok s' /\ SInvQ c extra s' /\ mframe s s' /\ s_infos s' = s_infos s.
Proof.
  intros H Hi. destruct (s_move_to_back_wo_inv c extra s i x H Hi) as (s' & E & HI & _ & Es).
  exists s'. split; [exact E|]. split; [exact HI|]. rewrite Es.
  split; [constructor; reflexivity | reflexivity].
Qed.

(** the "entry is dirty: move its nodes to the back" step *)
Lemma estep_mtb_both c extra s i x (f : sstate -> res sstate) :
  SInvQ c extra s -> s_infos s !! i = Some x ->
  (forall s2, SInvQ c extra s2 -> mframe s s2 -> estep c extra s2 (f s2)) ->
  estep c extra s (s1 <-r s_move_to_back_ao s i; s2 <-r s_move_to_back_wo s1 i; f s2).
Proof.
  intros H Hi Hf.
  destruct (estep_mtb_ao c extra s i x H Hi) as (s1 & -> & H1 & F1 & I1). cbn [rbind].
  rewrite <- I1 in Hi.
  destruct (estep_mtb_wo c extra s1 i x H1 Hi) as (s2 & -> & H2 & F2 & I2). cbn [rbind].
  assert (F : mframe s s2) by (eapply mframe_trans; eassumption).
  eapply estep_weaken; [exact F|]. apply Hf; assumption.
Qed.

Lemma estep_mftb_prob c extra s :
  SInvQ c extra s -> SInvQ c extra (sset_prob s (move_front_to_back (s_prob s))) /\
  mframe s (sset_prob s (move_front_to_back (s_prob s))).
Proof.
  intros H. split; [apply move_front_to_back_prob_inv; exact H | constructor; reflexivity].
Qed.

Lemma estep_mftb_wo c extra s :
  SInvQ c extra s -> SInvQ c extra (sset_wo s (move_front_to_back (s_wo s))) /\
  mframe s (sset_wo s (move_front_to_back (s_wo s))).
Proof.
  intros H. split; [apply move_front_to_back_wo_inv; exact H | constructor; reflexivity].
Qed.

(* ------------------------------------------------------------------ *)
(** * eviction loops *)
Lemma try_skip_estep c extra s k (f : sstate -> res sstate) :
  SInvQ c extra s ->
  (forall s1, SInvQ c extra s1 -> mframe s s1 -> estep c extra s1 (f s1)) ->
  estep c extra s ('(s1, cont) <-r try_skip_updated_entry s k; if cont then f s1 else Ok s1).
Proof.
  intros H Hf. unfold try_skip_updated_entry.
  destruct (s_map s !! k) as [ve|] eqn:Em.
  - cbv zeta. destruct (si_dirty (get_info s (ve_info s ve))).
    + destruct (map_entry_info c extra s k ve H Em) as (x & Hx & _).
      destruct (estep_mtb_ao c extra s _ x H Hx) as (s1 & -> & H1 & F1 & I1). cbn [rbind].
      rewrite <- I1 in Hx.
      destruct (estep_mtb_wo c extra s1 _ x H1 Hx) as (s2 & -> & H2 & F2 & I2). cbn [rbind].
      assert (F : mframe s s2) by (eapply mframe_trans; eassumption).
      eapply estep_weaken; [exact F|]. apply Hf; assumption.
    + cbn [rbind]. apply estep_ok; assumption.
  - cbn [rbind]. destruct (estep_mftb_prob c extra s H) as [H1 F1].
    eapply estep_weaken; [exact F1|]. apply Hf; assumption.
Qed.

Lemma s_remove_expired_wo_inv c extra fuel : forall s now,
  scfg_ok c -> SInvQ c extra s -> estep c extra s (s_remove_expired_wo c fuel s now).
Proof.
  induction fuel as [|fuel IH]; intros s now Hc H; cbn [s_remove_expired_wo].
  - apply estep_ok; assumption.
  - destruct (s_wo s) as [|[nid nd] rest] eqn:Ewo; [apply estep_ok; assumption|].
    destruct (s_expired (sc_ttl c) (s_va s) (si_lm (get_info s (sw_info nd))) now);
      [|apply estep_ok; assumption].
    cbv zeta. destruct (s_map s !! sw_key nd) as [ve|] eqn:Em.
    + destruct (s_expired (sc_ttl c) (s_va s) (si_lm (get_info s (ve_info s ve))) now).
      * eapply estep_bind; [apply estep_remove; eassumption|].
        intros s1 H1 _. apply IH; assumption.
      * destruct (si_dirty (get_info s (ve_info s ve))); [|apply estep_ok; assumption].
        destruct (map_entry_info c extra s _ ve H Em) as (x & Hx & _).
        eapply estep_mtb_both; [exact H | exact Hx |].
        intros s2 H2 _. apply IH; assumption.
    + rewrite <- Ewo. destruct (estep_mftb_wo c extra s H) as [H1 F1].
      eapply estep_weaken; [exact F1|]. apply IH; assumption.
Qed.

Lemma s_remove_expired_ao_inv c extra fuel : forall s now,
  scfg_ok c -> SInvQ c extra s -> estep c extra s (s_remove_expired_ao c fuel s now).
Proof.
  induction fuel as [|fuel IH]; intros s now Hc H; cbn [s_remove_expired_ao].
  - apply estep_ok; assumption.
  - destruct (s_prob s) as [|[nid nd] rest] eqn:Ep; [apply estep_ok; assumption|].
    destruct (s_expired (sc_tti c) (s_va s) (si_la (get_info s (sa_info nd))) now);
      [|apply estep_ok; assumption].
    cbv zeta. destruct (s_map s !! sa_key nd) as [ve|] eqn:Em.
    + destruct (s_expired (sc_tti c) (s_va s) (si_la (get_info s (ve_info s ve))) now).
      * eapply estep_bind; [apply estep_remove; eassumption|].
        intros s1 H1 _. apply IH; assumption.
      * apply (try_skip_estep c extra s (sa_key nd) (fun s1 => s_remove_expired_ao c fuel s1 now) H).
        intros s1 H1 _. apply IH; assumption.
    + apply (try_skip_estep c extra s (sa_key nd) (fun s1 => s_remove_expired_ao c fuel s1 now) H).
      intros s1 H1 _. apply IH; assumption.
Qed.

Lemma s_evict_expired_inv c extra s now :
  scfg_ok c -> SInvQ c extra s -> estep c extra s (s_evict_expired c s now).
Proof.
  intros Hc H. unfold s_evict_expired. eapply estep_bind.
  - destruct (sc_ttl c); [apply s_remove_expired_wo_inv; assumption | apply estep_ok; assumption].
  - intros s1 H1 _.
    destruct (sc_tti c); [apply s_remove_expired_ao_inv; assumption|].
    destruct (s_va s1); [apply s_remove_expired_ao_inv; assumption | apply estep_ok; assumption].
Qed.

Lemma s_evict_lru_loop_inv c extra fuel : forall s to_evict evicted,
  scfg_ok c -> SInvQ c extra s -> estep c extra s (s_evict_lru_loop fuel s to_evict evicted).
Proof.
  induction fuel as [|fuel IH]; intros s te ev Hc H; cbn [s_evict_lru_loop].
  - apply estep_ok; assumption.
  - destruct (te <=? ev); [apply estep_ok; assumption|].
    destruct (s_prob s) as [|[nid nd] rest] eqn:Ep; [apply estep_ok; assumption|].
    cbv zeta.
    assert (Hskip : estep c extra s ('(s1, cont) <-r try_skip_updated_entry s (sa_key nd);
                       if cont then s_evict_lru_loop fuel s1 te ev else Ok s1)).
    { apply (try_skip_estep c extra s (sa_key nd) (fun s1 => s_evict_lru_loop fuel s1 te ev) H).
      intros s1 H1 _. apply IH; assumption. }
    destruct (si_dirty (get_info s (sa_info nd))); [exact Hskip|].
    destruct (s_map s !! sa_key nd) as [ve|] eqn:Em; [|exact Hskip].
    destruct (si_lm (get_info s (ve_info s ve)) =? si_lm (get_info s (sa_info nd))); [|exact Hskip].
    eapply estep_bind; [apply estep_remove; eassumption|].
    intros s1 H1 _. apply IH; assumption.
Qed.

(* ------------------------------------------------------------------ *)
(** * enabling the sketch, sync rounds, sync *)
Lemma enable_sketch_inv c extra s :
  SInvQ c extra s ->
  exists sk on,
    (if s_should_enable_sketch c s then s_enable_sketch c s else s) = sset_sk s sk on /\
    SInvQ c extra (sset_sk s sk on) /\
    N.of_nat (size (sk_table sk)) <= sk_load_s s.
Proof.
  intros H. unfold s_should_enable_sketch, s_enable_sketch.
  assert (Hsame : exists sk on, s = sset_sk s sk on /\ SInvQ c extra (sset_sk s sk on) /\
                                N.of_nat (size (sk_table sk)) <= sk_load_s s).
  { exists (s_sk s), (s_skon s).
    assert (E : s = sset_sk s (s_sk s) (s_skon s)) by (destruct s; reflexivity).
    split; [exact E|]. rewrite <- E. split; [exact H | unfold sk_load_s; lia]. }
  destruct (s_skon s) eqn:Eon; [exact Hsame|].
  destruct (sc_cap c) as [cap|]; [|exact Hsame].
  destruct (cap / 2 <=? s_ws s); [|exact Hsame].
  destruct (sk_sketch _ _ _ H) as [Hwf Hemp]. specialize (Hemp Eon).
  eexists _, true. split; [reflexivity|].
  match goal with |- context [ensure_capacity _ ?cp] =>
    destruct (ensure_capacity_wf_fresh (s_sk s) cp Hwf) as [W1 W2] end.
  { rewrite Hemp. reflexivity. } { rewrite Hemp. reflexivity. }
  split.
  - apply SInvQ_set_sk; [exact H | exact W1 | discriminate].
  - unfold sk_load_s. exact W2.
Qed.

Lemma drop_length_nil {A} (l : list A) : drop (length l) l = [].
Proof. apply drop_all. Qed.

Lemma sync_rounds_inv c extra r s :
  scfg_ok c -> SInvQ c extra s ->
  s_next s + 2 * N.of_nat (length (s_wq s)) < 2 ^ 32 ->
  sk_load_s s + 4 * N.of_nat (length (s_rq s)) < 2 ^ 28 ->
  exists s', sync_rounds c (S r) s = Ok s' /\ SInvQ c extra s' /\
    s_rq s' = [] /\ s_wq s' = [] /\ s_map s' ⊆ s_map s /\ s_ves s' = s_ves s /\ s_va s' = s_va s /\
    s_sync_after s' = s_sync_after s /\
    s_next s <= s_next s' <= s_next s + 2 * N.of_nat (length (s_wq s)) /\
    sk_load_s s' <= sk_load_s s + 4 * N.of_nat (length (s_rq s)).
Proof.
  intros Hc H Hn Hl. cbn [sync_rounds].
  destruct (apply_reads_inv c extra (length (s_rq s)) s Hc H Hl)
    as (s1 & -> & H1 & Rrq & Rwq & Rmap & Rves & Rva & Rnext & Rec & Rws & Rskon & Rsa & Rload).
  cbn [rbind]. rewrite drop_length_nil in Rrq.
  destruct (apply_writes_inv c extra (length (s_wq s1)) s1 Hc H1)
    as (s2 & -> & H2 & Wwq & Wrq & Wmap & Wves & Wva & Wsk & Wskon & Wsa & Wnext).
  { rewrite Rnext, Rwq. exact Hn. }
  cbn [rbind]. rewrite drop_length_nil in Wwq.
  destruct (enable_sketch_inv c extra s2 H2) as (sk & on & -> & H3 & Hload).
  sfields. rewrite Wwq, Wrq, Rrq.
  replace (flush_r <=? qlen (@nil readop)) with false.
  2:{ symmetry. apply N.leb_gt. exact c_flush_r_pos. }
  replace (flush_w <=? qlen (@nil writeop)) with false.
  2:{ symmetry. apply N.leb_gt. exact c_flush_w_pos. }
  cbn [orb]. eexists. split; [reflexivity|]. split; [exact H3|]. sfields.
  split; [congruence|]. split; [congruence|].
  split; [rewrite <- Rmap; exact Wmap|].
  split; [congruence|]. split; [congruence|]. split; [congruence|].
  split; [rewrite Rnext, Rwq in Wnext; exact Wnext|].
  unfold sk_load_s at 1. sfields.
  assert (sk_load_s s2 = sk_load_s s1) by (unfold sk_load_s; rewrite Wsk; reflexivity).
  lia.
Qed.

Lemma s_sync_inv c extra s now :
  scfg_ok c -> SInvQ c extra s -> s_next s + 200 < 2 ^ 32 -> sk_load_s s + 400 < 2 ^ 28 ->
  exists s', s_sync c s now = Ok s' /\ SInvQ c extra s' /\
    s_rq s' = [] /\ s_wq s' = [] /\ s_map s' ⊆ s_map s /\ s_ves s' = s_ves s /\ s_va s' = s_va s /\
    s_sync_after s' = s_sync_after s /\
    s_next s <= s_next s' <= s_next s + 2 * N.of_nat (length (s_wq s)) /\
    sk_load_s s' <= sk_load_s s + 4 * N.of_nat (length (s_rq s)).
Proof.
  intros Hc H Hn Hl. unfold s_sync.
  pose proof (sq_rq _ _ _ H) as Qr. destruct (sq_wq _ _ _ H) as [Qw _].
  pose proof c_flush_r_le as Cr. pose proof c_flush_w_le as Cw. unfold qlen in Qr, Qw.
  destruct (sync_rounds_inv c extra (N.to_nat MAX_SYNC_REPEATS) s Hc H)
    as (s1 & -> & H1 & Rrq & Rwq & Rmap & Rves & Rva & Rsa & Rnext & Rload); [lia | lia |].
  cbn [rbind].
  assert (E2 : estep c extra s1
    (if s_has_expiry c || (match s_va s1 with Some _ => true | None => false end)
     then s_evict_expired c s1 now else Ok s1)).
  { destruct (s_has_expiry c || _); [apply s_evict_expired_inv; assumption | apply estep_ok; assumption]. }
  destruct E2 as (s2 & -> & H2 & F2). cbn [rbind]. cbv zeta.
  assert (E3 : estep c extra s2
    (if 0 <? s_weights_to_evict c s2
     then s_evict_lru_loop batch_s s2 (s_weights_to_evict c s2) 0 else Ok s2)).
  { destruct (0 <? _); [apply s_evict_lru_loop_inv; assumption | apply estep_ok; assumption]. }
  destruct E3 as (s3 & -> & H3 & F3).
  assert (F : mframe s1 s3) by (eapply mframe_trans; eassumption).
  destruct F as [Fmap Fves Fva Fwq Frq Fnext Fsk Fskon Fsa].
  exists s3. split; [reflexivity|]. split; [exact H3|].
  split; [congruence|]. split; [congruence|].
  split; [etransitivity; eassumption|].
  split; [congruence|]. split; [congruence|]. split; [congruence|].
  split; [rewrite Fnext; exact Rnext|].
  unfold sk_load_s in *. rewrite Fsk. exact Rload.
Qed.

(* ------------------------------------------------------------------ *)
(** * the implicit housekeeper, sending ops *)
Lemma hk_maybe_sync_inv c extra s len flush now :
  scfg_ok c -> SInvQ c extra s -> s_next s + 200 < 2 ^ 32 -> sk_load_s s + 400 < 2 ^ 28 ->
  exists s', hk_maybe_sync c s len flush now = Ok s' /\ SInvQ c extra s' /\
    s_map s' ⊆ s_map s /\ s_ves s' = s_ves s /\ s_va s' = s_va s /\
    s_next s <= s_next s' <= s_next s + 2 * N.of_nat (length (s_wq s)) /\
    sk_load_s s' <= sk_load_s s + 4 * N.of_nat (length (s_rq s)) /\
    ((s' = s /\ len < flush) \/ (s_rq s' = [] /\ s_wq s' = [])).
Proof.
  intros Hc H Hn Hl. unfold hk_maybe_sync.
  destruct (flush <=? len) eqn:Efl; cbn [orb].
  2: destruct (now <=? s_sync_after s) eqn:Esa.
  3:{ exists s. split; [reflexivity|]. split; [exact H|].
      split; [reflexivity|]. split; [reflexivity|]. split; [reflexivity|].
      split; [lia|]. split; [lia|]. left. split; [reflexivity | apply N.leb_gt; exact Efl]. }
  all: destruct (s_sync_inv c extra (sset_sa s (now + sync_interval)) now Hc
                   (SInvQ_set_sa _ _ _ _ H) Hn Hl)
      as (s' & E & H' & Rrq & Rwq & Rmap & Rves & Rva & _ & Rnext & Rload);
    exists s'; (split; [exact E|]); (split; [exact H'|]); sfields;
    (split; [exact Rmap|]); (split; [exact Rves|]); (split; [exact Rva|]);
    (split; [exact Rnext|]); (split; [exact Rload|]); right; split; assumption.
Qed.

Lemma SInvQ_push_wq c o s :
  SInvQ c [o] s -> qlen (s_wq s) + 1 <= WRITE_LOG_FLUSH_POINT ->
  SInvQ c [] (sset_wq s (s_wq s ++ [o])).
Proof.
  intros H HQ. eapply SInvQ_frame; try exact H; try reflexivity; sfields.
  - rewrite app_nil_r. reflexivity.
  - unfold qlen in *. rewrite app_length. cbn [length]. lia.
  - cbn. lia.
  - apply (sk_sketch _ _ _ H).
Qed.

Lemma schedule_write_op_inv c s o now :
  scfg_ok c -> SInvQ c [o] s -> s_next s + 200 < 2 ^ 32 -> sk_load_s s + 400 < 2 ^ 28 ->
  exists s', schedule_write_op c 2 s o now = Ok s' /\ SInvQ c [] s' /\
    s_next s <= s_next s' <= s_next s + 2 * N.of_nat (length (s_wq s)) /\
    sk_load_s s' <= sk_load_s s + 4 * N.of_nat (length (s_rq s)).
Proof.
  intros Hc H Hn Hl. cbn [schedule_write_op].
  destruct (hk_maybe_sync_inv c [o] s (qlen (s_wq s)) flush_w now Hc H Hn Hl)
    as (s1 & -> & H1 & _ & _ & _ & Rnext & Rload & Hcase).
  cbn [rbind].
  pose proof c_flush_w_lt_size as C1. pose proof c_flush_w_pos as C2.
  assert (Hq : qlen (s_wq s1) + 1 <= WRITE_LOG_FLUSH_POINT).
  { destruct Hcase as [[-> Hlt] | [_ ->]]; [unfold flush_w in Hlt; lia|]. cbn. lia. }
  replace (qlen (s_wq s1) <? WRITE_LOG_SIZE) with true by (symmetry; apply N.ltb_lt; lia).
  eexists. split; [reflexivity|]. split; [apply SInvQ_push_wq; assumption|].
  sfields. split; [exact Rnext|]. exact Rload.
Qed.

Lemma SInvQ_push_rq c extra o s :
  SInvQ c extra s -> rop_ok s o -> qlen (s_rq s) + 1 <= READ_LOG_FLUSH_POINT ->
  SInvQ c extra (sset_rq s (s_rq s ++ [o])).
Proof.
  intros H Ho HQ. destruct s as [m v i p w r q ec ws va sk on sa nx].
  destruct H. constructor; sfields; try assumption.
  - intros o0 [Hin | Hin]%elem_of_app.
    + apply sv_rq. exact Hin.
    + apply elem_of_list_singleton in Hin. subst o0. exact Ho.
  - unfold qlen in *. rewrite app_length. cbn [length]. lia.
Qed.

Lemma rop_ok_transfer c extra s s' o :
  rop_ok s o -> s_ves s' = s_ves s -> SInvQ c extra s' -> rop_ok s' o.
Proof.
  intros Ho Hv H'. destruct o as [h ve ts | h]; [|exact I].
  destruct Ho as (k & e & x & He & _). rewrite <- Hv in He.
  destruct (sv_ves_lt _ _ _ H' _ _ He) as [_ [x' Hx']].
  exists (si_key x'), e, x'. auto.
Qed.

Lemma record_read_op_inv c s o now :
  scfg_ok c -> SInv c s -> rop_ok s o -> s_next s + 200 < 2 ^ 32 -> sk_load_s s + 400 < 2 ^ 28 ->
  exists s', record_read_op c s o now = Ok s' /\ SInv c s' /\
    s_next s <= s_next s' <= s_next s + 2 * N.of_nat (length (s_wq s)) /\
    sk_load_s s' <= sk_load_s s + 4 * N.of_nat (length (s_rq s)).
Proof.
  intros Hc H Ho Hn Hl. unfold record_read_op.
  destruct (hk_maybe_sync_inv c [] s (qlen (s_rq s)) flush_r now Hc H Hn Hl)
    as (s1 & -> & H1 & _ & Rves & _ & Rnext & Rload & Hcase).
  cbn [rbind].
  destruct (qlen (s_rq s1) <? READ_LOG_SIZE).
  2:{ exists s1. auto. }
  eexists. split; [reflexivity|]. sfields. split; [|split; assumption].
  apply SInvQ_push_rq; [exact H1 | eapply rop_ok_transfer; eassumption |].
  pose proof c_flush_r_pos.
  destruct Hcase as [[-> Hlt] | [-> _]]; [unfold flush_r in Hlt; lia|]. cbn. lia.
Qed.

(* ------------------------------------------------------------------ *)
(** * small helpers for the public operations *)
Ltac sf :=
  cbn [s_map s_ves s_infos s_prob s_wo s_rq s_wq s_ec s_ws s_va s_sk s_skon s_sync_after s_next
       sset_map sset_ves sset_infos sset_prob sset_wo sset_rq sset_wq sset_ec sset_ws sset_va
       sset_sk sset_sa sset_next upd_info].

Lemma ve_ok_info s k ve :
  ve_ok s k ve -> exists e x, s_ves s !! ve = Some e /\ ve_info s ve = sv_info e /\
                              s_infos s !! ve_info s ve = Some x /\ si_key x = k.
Proof.
  intros (e & x & He & Hx & Hk). exists e, x. unfold ve_info, get_ve. rewrite He. cbn [default]. auto.
Qed.

Lemma has_upsert_for_ve_mono q q' ve :
  (forall o, o ∈ q -> o ∈ q') -> has_upsert_for_ve q ve -> has_upsert_for_ve q' ve.
Proof. intros Hq (k & h & ow & nw & Hin). exists k, h, ow, nw. auto. Qed.

Lemma elem_of_upsert_ves q ve : ve ∈ upsert_ves q <-> has_upsert_for_ve q ve.
Proof.
  unfold upsert_ves, has_upsert_for_ve. rewrite elem_of_list_omap. split.
  - intros (o & Hin & Ho). destruct o as [k h ve' ow nw|]; [|discriminate].
    injection Ho as ->. eauto.
  - intros (k & h & ow & nw & Hin). eexists. split; [exact Hin | reflexivity].
Qed.

Lemma StronglySorted_snoc {A} (R : A -> A -> Prop) l a :
  StronglySorted R l -> Forall (fun x => R x a) l -> StronglySorted R (l ++ [a]).
Proof.
  induction 1 as [|b l HS IH HF]; intros HA; cbn [app].
  - repeat constructor.
  - inversion HA; subst. constructor; [auto|].
    apply Forall_app. split; [assumption | repeat constructor; assumption].
Qed.

Lemma infos_weight_insert (M : gmap N sinfo) i y :
  M !! i = None -> infos_weight (<[i:=y]> M) = infos_weight M + si_weight y.
Proof.
  intros Hn. unfold infos_weight.
  rewrite (map_fold_insert_L (fun (_ : N) (i : sinfo) (acc : N) => acc + si_weight i) 0 i y M);
    [reflexivity | intros; lia | exact Hn].
Qed.

Definition iagree (y' y : sinfo) : Prop :=
  si_key y' = si_key y /\ si_admitted y' = si_admitted y /\ si_weight y' = si_weight y /\
  si_ao y' = si_ao y /\ si_wo y' = si_wo y.

Lemma iagree_refl y : iagree y y.
Proof. repeat split. Qed.

Definition adm_filter (M : gmap N sinfo) : gmap N sinfo :=
  filter (fun p => si_admitted (snd p) = true) M.

Lemma adm_filter_upd (M : gmap N sinfo) i x x' :
  M !! i = Some x -> si_admitted x' = si_admitted x -> si_weight x' = si_weight x ->
  size (adm_filter (<[i:=x']> M)) = size (adm_filter M) /\
  infos_weight (adm_filter (<[i:=x']> M)) = infos_weight (adm_filter M).
Proof.
  intros Hx Ha Hw. unfold adm_filter. destruct (si_admitted x) eqn:Ex.
  - rewrite map_filter_insert_True by exact Ha.
    assert (Hf : filter (fun p : N * sinfo => si_admitted p.2 = true) M !! i = Some x).
    { apply map_filter_lookup_Some. split; assumption. }
    split.
    + apply map_size_insert_Some. eauto.
    + rewrite <- insert_delete_insert.
      rewrite <- (insert_delete _ i x Hf) at 2.
      rewrite !infos_weight_insert by apply lookup_delete. lia.
  - rewrite map_filter_insert_not'; [split; reflexivity | cbn; congruence |].
    intros y Hy. cbn. congruence.
Qed.

Lemma adm_filter_fresh (M : gmap N sinfo) i x' :
  M !! i = None -> si_admitted x' = false -> adm_filter (<[i:=x']> M) = adm_filter M.
Proof.
  intros Hn Ha. unfold adm_filter. apply map_filter_insert_not'; [cbn; congruence|].
  intros y Hy. congruence.
Qed.

(* ------------------------------------------------------------------ *)
(** * the hash-map step of [insert] establishes the invariant with its upsert in flight *)
Lemma insert_trans c s k v ve i x' nxt ow :
  scfg_ok c -> SInv c s ->
  s_next s <= ve -> ve < nxt -> i < nxt -> s_next s <= nxt ->
  si_key x' = k -> si_weight x' < two32 ->
  ((exists old_ve x, s_map s !! k = Some old_ve /\ ve_info s old_ve = i /\
                     s_infos s !! i = Some x /\ iagree x' x)
   \/ (s_map s !! k = None /\ s_infos s !! i = None /\
       si_admitted x' = false /\ si_ao x' = None /\ si_wo x' = None)) ->
  SInvQ c [WUpsert k (sc_hash c k) ve ow (sweigh c k v)]
    (mkS (<[k:=ve]> (s_map s)) (<[ve:=mkSV v i]> (s_ves s)) (<[i:=x']> (s_infos s))
         (s_prob s) (s_wo s) (s_rq s) (s_wq s) (s_ec s) (s_ws s) (s_va s) (s_sk s) (s_skon s)
         (s_sync_after s) nxt).
Proof.
  intros Hc H Hve1 Hve2 Hi Hnx Hkey Hw Hcase.
  set (o := WUpsert k (sc_hash c k) ve ow (sweigh c k v)).
  set (s3 := mkS _ _ _ _ _ _ _ _ _ _ _ _ _ _).
  unfold SInv in H.
  assert (Vlt : forall ve0 e, s_ves s !! ve0 = Some e -> ve0 <> ve).
  { intros ve0 e He ->. apply (sv_ves_lt _ _ _ H) in He. lia. }
  assert (Ifw : forall i0 y, s_infos s !! i0 = Some y ->
            exists y', s_infos s3 !! i0 = Some y' /\ iagree y' y /\ (i0 <> i -> y' = y)).
  { intros i0 y Hy. unfold s3; sf. destruct (decide (i0 = i)) as [->|Hne].
    - exists x'. rewrite lookup_insert. split; [reflexivity|].
      destruct Hcase as [(old_ve & x & _ & _ & Hx & Hag)|(_ & Hn & _)]; [|congruence].
      rewrite Hx in Hy. injection Hy as <-. split; [exact Hag | congruence].
    - exists y. rewrite lookup_insert_ne by congruence.
      split; [assumption|]. split; [apply iagree_refl | reflexivity]. }
  assert (Ibw : forall i0 y', s_infos s3 !! i0 = Some y' ->
     (exists y, s_infos s !! i0 = Some y /\ iagree y' y /\ (i0 <> i -> y' = y)) \/
     (i0 = i /\ y' = x' /\ s_infos s !! i = None /\
      si_admitted x' = false /\ si_ao x' = None /\ si_wo x' = None)).
  { intros i0 y'. unfold s3; sf. rewrite lookup_insert_Some. intros [[<- <-]|[Hne Hy]].
    - destruct Hcase as [(old_ve & x & _ & _ & Hx & Hag)|(_ & Hn & Hr)].
      + left. exists x. split; [assumption|]. split; [assumption | congruence].
      + right. auto.
    - left. exists y'. split; [assumption|]. split; [apply iagree_refl | reflexivity]. }
  assert (VI : forall ve0, ve0 <> ve -> ve_info s3 ve0 = ve_info s ve0 /\ get_ve s3 ve0 = get_ve s ve0).
  { intros ve0 Hne. unfold ve_info, get_ve, s3; sf. rewrite lookup_insert_ne by congruence. auto. }
  assert (VIn : ve_info s3 ve = i /\ get_ve s3 ve = mkSV v i).
  { unfold ve_info, get_ve, s3; sf. rewrite lookup_insert. auto. }
  assert (GI : forall i0 y, s_infos s !! i0 = Some y -> iagree (get_info s3 i0) (get_info s i0)).
  { intros i0 y Hy. destruct (Ifw _ _ Hy) as (y' & Hy' & Hag & _).
    unfold get_info. rewrite Hy', Hy. exact Hag. }
  assert (VO : forall k0 ve0, ve_ok s k0 ve0 -> ve_ok s3 k0 ve0).
  { intros k0 ve0 (e & y & He & Hy & Hk). destruct (Ifw _ _ Hy) as (y' & Hy' & Hag & _).
    exists e, y'. split.
    - unfold s3; sf. rewrite lookup_insert_ne; [assumption|]. intros <-. eapply Vlt; eauto.
    - split; [assumption|]. destruct Hag as (-> & _). assumption. }
  assert (QM : forall o0, o0 ∈ s_wq s ++ [] -> o0 ∈ s_wq s3 ++ [o]).
  { intros o0. rewrite app_nil_r. intros Hin. apply elem_of_app. left. exact Hin. }
  assert (Onew : o ∈ s_wq s3 ++ [o]).
  { apply elem_of_app. right. apply elem_of_list_singleton. reflexivity. }
  assert (MV : forall k0 ve0, s_map s !! k0 = Some ve0 -> ve0 <> ve).
  { intros k0 ve0 Hm. destruct (sv_map _ _ _ H _ _ Hm) as (e & _ & He & _). eapply Vlt; eauto. }
  assert (QVu : forall k0 h0 ve0 ow0 nw0, WUpsert k0 h0 ve0 ow0 nw0 ∈ s_wq s ++ [] -> ve0 <> ve).
  { intros k0 h0 ve0 ow0 nw0 Hin. destruct (sv_wq _ _ _ H _ Hin) as ((e & _ & He & _) & _).
    eapply Vlt; eauto. }
  assert (QVr : forall k0 ve0, WRemove k0 ve0 ∈ s_wq s ++ [] -> ve0 <> ve).
  { intros k0 ve0 Hin. destruct (sv_wq _ _ _ H _ Hin) as (e & _ & He & _). eapply Vlt; eauto. }
  assert (Qold : forall o0, o0 ∈ s_wq s3 ++ [o] -> o0 ∈ s_wq s ++ [] \/ o0 = o).
  { intros o0. rewrite app_nil_r. intros [Hin|Hin]%elem_of_app; [left; exact Hin|].
    right. apply elem_of_list_singleton in Hin. exact Hin. }
  constructor.
  - (* sv_map *)
    intros k0 ve0. unfold s3 at 1; sf. rewrite lookup_insert_Some. intros [[<- <-]|[Hne Hm]].
    + exists (mkSV v i), x'. unfold s3; sf. rewrite lookup_insert. cbn [sv_info].
      rewrite lookup_insert. auto.
    + apply VO, (sv_map _ _ _ H). exact Hm.
  - (* sv_ves_lt *)
    intros ve0 e. unfold s3 at 1 2; sf. rewrite lookup_insert_Some. intros [[<- <-]|[Hne He]].
    + split; [lia|]. unfold s3; sf. cbn [sv_info]. rewrite lookup_insert. eauto.
    + destruct (sv_ves_lt _ _ _ H _ _ He) as [Hlt [y Hy]]. split; [lia|].
      destruct (Ifw _ _ Hy) as (y' & Hy' & _). exists y'. exact Hy'.
  - (* sv_infos_lt *)
    intros i0 y' Hy'. unfold s3; sf.
    destruct (Ibw _ _ Hy') as [(y & Hy & _)|(-> & _)]; [|exact Hi].
    apply (sv_infos_lt _ _ _ H) in Hy. lia.
  - (* sv_wq *)
    intros o0 Hin. destruct (Qold _ Hin) as [Hold | ->].
    + pose proof (sv_wq _ _ _ H _ Hold) as Hok.
      destruct o0 as [k0 h0 ve0 ow0 nw0 | k0 ve0]; cbn [wop_ok] in *.
      * destruct Hok as (Hveok & Hh & Hnw). split; [apply VO; assumption|].
        split; [assumption|]. rewrite (proj2 (VI _ (QVu _ _ _ _ _ Hold))). assumption.
      * apply VO; assumption.
    + unfold o. cbn [wop_ok]. split; [|split; [reflexivity|]].
      * exists (mkSV v i), x'. unfold s3; sf. rewrite lookup_insert. cbn [sv_info].
        rewrite lookup_insert. auto.
      * rewrite (proj2 VIn). reflexivity.
  - (* sv_rq *)
    intros o0 Hin. apply (sv_rq _ _ _ H) in Hin. destruct o0; [|exact I].
    destruct Hin as (k0 & Hk0). exists k0. apply VO; assumption.
  - exact (sn_nodup_ao _ _ _ H).
  - exact (sn_nodup_wo _ _ _ H).
  - intros n nd Hin. apply (sn_ao_lt _ _ _ H) in Hin. unfold s3; sf; lia.
  - intros n nd Hin. apply (sn_wo_lt _ _ _ H) in Hin. unfold s3; sf; lia.
  - (* sn_ao_info *)
    intros n nd Hin. destruct (sn_ao_info _ _ _ H _ _ Hin) as (y & Hy & Hao & Hk & Hh).
    destruct (Ifw _ _ Hy) as (y' & Hy' & (A1 & A2 & A3 & A4 & A5) & _).
    exists y'. rewrite A1, A4. auto.
  - (* sn_info_ao *)
    intros i0 y' n Hy' Hao.
    destruct (Ibw _ _ Hy') as [(y & Hy & Hag & _)|(-> & -> & _ & _ & Hn & _)]; [|congruence].
    destruct Hag as (_ & _ & _ & A4 & _). rewrite A4 in Hao.
    exact (sn_info_ao _ _ _ H _ _ _ Hy Hao).
  - (* sn_wo_info *)
    intros n nd Hin. destruct (sn_wo_info _ _ _ H _ _ Hin) as (Httl & y & Hy & Hwo & Hk).
    split; [exact Httl|].
    destruct (Ifw _ _ Hy) as (y' & Hy' & (A1 & A2 & A3 & A4 & A5) & _).
    exists y'. rewrite A1, A5. auto.
  - (* sn_info_wo *)
    intros i0 y' n Hy' Hwo.
    destruct (Ibw _ _ Hy') as [(y & Hy & Hag & _)|(-> & -> & _ & _ & _ & Hn)]; [|congruence].
    destruct Hag as (_ & _ & _ & _ & A5). rewrite A5 in Hwo.
    exact (sn_info_wo _ _ _ H _ _ _ Hy Hwo).
  - (* sn_admitted *)
    intros i0 y' Hy'.
    destruct (Ibw _ _ Hy') as [(y & Hy & Hag & _)|(-> & -> & _ & Ha & Hao & Hwo)].
    + destruct Hag as (_ & A2 & _ & A4 & A5). rewrite A2, A4, A5.
      exact (sn_admitted _ _ _ H _ _ Hy).
    + rewrite Ha, Hao, Hwo. split.
      * split; [discriminate | intros [? ?]; discriminate].
      * destruct (sc_ttl c); [split; [discriminate | intros [? ?]; discriminate] | reflexivity].
  - (* sg_no_ghost *)
    intros i0 y' Hy' Hadm.
    destruct (Ibw _ _ Hy') as [(y & Hy & Hag & _)|(_ & -> & _ & Ha & _)]; [|congruence].
    destruct Hag as (A1 & A2 & _). rewrite A1. rewrite A2 in Hadm.
    destruct (sg_no_ghost _ _ _ H _ _ Hy Hadm) as [Hmap | Hrem].
    + left. unfold map_has_info in *.
      destruct (s_map s !! si_key y) as [ve0|] eqn:Em; [|discriminate].
      apply N.eqb_eq in Hmap. unfold s3 at 1; sf.
      destruct (decide (si_key y = k)) as [Ek|Nk].
      * rewrite Ek, lookup_insert. rewrite (proj1 VIn). apply N.eqb_eq.
        rewrite Ek in Em.
        destruct Hcase as [(old_ve & x & Hm & Hvi & _)|(Hm & _)]; congruence.
      * rewrite lookup_insert_ne by congruence. rewrite Em. apply N.eqb_eq.
        rewrite (proj1 (VI ve0 (MV _ _ Em))). exact Hmap.
    + right. destruct Hrem as (k0 & ve0 & Hin & Hvi). exists k0, ve0.
      split; [apply QM; exact Hin|]. rewrite (proj1 (VI ve0 (QVr _ _ Hin))). exact Hvi.
  - (* sr_detached *)
    intros k0 ve0 k' ve_m Hin Hm.
    destruct (Qold _ Hin) as [Hin' | Heq]; [|discriminate].
    rewrite (proj1 (VI ve0 (QVr _ _ Hin'))).
    unfold s3 in Hm; cbn [s_map] in Hm. apply lookup_insert_Some in Hm as [[<- <-]|[Hne Hm]].
    + rewrite (proj1 VIn).
      destruct Hcase as [(old_ve & x & Hmo & Hvi & _)|(_ & Hnone & _)].
      * rewrite <- Hvi. exact (sr_detached _ _ _ H _ _ _ _ Hin' Hmo).
      * intros E. destruct (ve_ok_info s k0 ve0 (sv_wq _ _ _ H _ Hin')) as (e & y & _ & _ & Hy & _).
        congruence.
    + rewrite (proj1 (VI ve_m (MV _ _ Hm))). exact (sr_detached _ _ _ H _ _ _ _ Hin' Hm).
  - (* so_no_orphan *)
    intros k0 ve0 Hm Hna. unfold s3 in Hm; cbn [s_map] in Hm.
    apply lookup_insert_Some in Hm as [[<- <-]|[Hne Hm]].
    + exists k, (sc_hash c k), ow, (sweigh c k v). exact Onew.
    + rewrite (proj1 (VI _ (MV _ _ Hm))) in Hna.
      destruct (map_entry_info _ _ _ _ _ H Hm) as (y & Hy & _).
      destruct (GI _ _ Hy) as (_ & A2 & _). rewrite A2 in Hna.
      apply (has_upsert_for_ve_mono (s_wq s ++ [])); [exact QM|].
      exact (so_no_orphan _ _ _ H _ _ Hm Hna).
  - (* sd_dirty *)
    intros i0 y' Hy' Hd. destruct (decide (i0 = i)) as [->|Hne].
    + exists k, (sc_hash c k), ve, ow, (sweigh c k v). split; [exact Onew | exact (proj1 VIn)].
    + destruct (Ibw _ _ Hy') as [(y & Hy & _ & Heq)|(-> & _)]; [|congruence].
      rewrite (Heq Hne) in Hd.
      destruct (sd_dirty _ _ _ H _ _ Hy Hd) as (k0 & h0 & ve0 & ow0 & nw0 & Hin & Hvi).
      exists k0, h0, ve0, ow0, nw0. split; [apply QM; exact Hin|].
      rewrite (proj1 (VI _ (QVu _ _ _ _ _ Hin))). exact Hvi.
  - (* sa_ec *)
    unfold admitted_infos, s3; sf. fold (adm_filter (<[i:=x']> (s_infos s))).
    destruct Hcase as [(old_ve & x & _ & _ & Hx & (_ & A2 & A3 & _))|(_ & Hnone & Ha & _)].
    + rewrite (proj1 (adm_filter_upd _ _ _ _ Hx A2 A3)). exact (sa_ec _ _ _ H).
    + rewrite (adm_filter_fresh _ _ _ Hnone Ha). exact (sa_ec _ _ _ H).
  - (* sa_ws *)
    unfold admitted_infos, s3; sf. fold (adm_filter (<[i:=x']> (s_infos s))).
    destruct Hcase as [(old_ve & x & _ & _ & Hx & (_ & A2 & A3 & _))|(_ & Hnone & Ha & _)].
    + rewrite (proj2 (adm_filter_upd _ _ _ _ Hx A2 A3)). exact (sa_ws _ _ _ H).
    + rewrite (adm_filter_fresh _ _ _ Hnone Ha). exact (sa_ws _ _ _ H).
  - (* sa_weight_lt *)
    intros i0 y' Hy'.
    destruct (Ibw _ _ Hy') as [(y & Hy & (_ & _ & A3 & _) & _)|(_ & -> & _)]; [|exact Hw].
    rewrite A3. exact (sa_weight_lt _ _ _ H _ _ Hy).
  - (* sw_weight *)
    intros k0 ve0 Hm. unfold s3 in Hm; cbn [s_map] in Hm.
    apply lookup_insert_Some in Hm as [[<- <-]|[Hne Hm]].
    + left. exists k, (sc_hash c k), ow, (sweigh c k v). exact Onew.
    + destruct (sw_weight _ _ _ H _ _ Hm) as [Hu | Hw0].
      * left. apply (has_upsert_for_ve_mono (s_wq s ++ [])); [exact QM | exact Hu].
      * right. destruct (VI _ (MV _ _ Hm)) as [-> ->].
        destruct (map_entry_info _ _ _ _ _ H Hm) as (y & Hy & _).
        destruct (GI _ _ Hy) as (_ & _ & A3 & _). rewrite A3. exact Hw0.
  - (* sf_newest *)
    intros ve0 e k0 ve_m He Hm Hvi. unfold s3 in He, Hm; cbn [s_ves s_map] in He, Hm.
    apply lookup_insert_Some in Hm as [[<- <-]|[Hnk Hm]].
    + apply lookup_insert_Some in He as [[<- _]|[_ He]]; [lia|].
      apply (sv_ves_lt _ _ _ H) in He. lia.
    + rewrite (proj1 (VI _ (MV _ _ Hm))) in Hvi.
      apply lookup_insert_Some in He as [[<- <-]|[Hne He]].
      * cbn [sv_info] in Hvi. exfalso.
        destruct (map_entry_info _ _ _ _ _ H Hm) as (y & Hy & Hyk). rewrite Hvi in Hy.
        destruct Hcase as [(old_ve & x & Hmo & Hvio & Hx & _)|(_ & Hnone & _)]; [|congruence].
        destruct (map_entry_info _ _ _ _ _ H Hmo) as (y2 & Hy2 & Hyk2). rewrite Hvio in Hy2.
        congruence.
      * exact (sf_newest _ _ _ H _ _ _ _ He Hm Hvi).
  - (* sf_sorted *)
    unfold s3; sf. unfold upsert_ves. rewrite omap_app. cbn [omap o].
    apply StronglySorted_snoc.
    + pose proof (sf_sorted _ _ _ H) as HS. rewrite app_nil_r in HS. exact HS.
    + apply Forall_forall. intros ve0 Hin. apply elem_of_upsert_ves in Hin.
      destruct Hin as (k0 & h0 & ow0 & nw0 & Hin).
      assert (Hin' : WUpsert k0 h0 ve0 ow0 nw0 ∈ s_wq s ++ []) by (rewrite app_nil_r; exact Hin).
      destruct (sv_wq _ _ _ H _ Hin') as ((e & _ & He & _) & _).
      apply (sv_ves_lt _ _ _ H) in He. lia.
  - (* sf_applied_older *)
    intros k0 ve_m Hm. unfold s3 in Hm; cbn [s_map] in Hm.
    apply lookup_insert_Some in Hm as [[<- <-]|[Hne Hm]].
    + left. exists k, (sc_hash c k), ow, (sweigh c k v). exact Onew.
    + destruct (sf_applied_older _ _ _ H _ _ Hm) as [Hu | Hall].
      * left. apply (has_upsert_for_ve_mono (s_wq s ++ [])); [exact QM | exact Hu].
      * right. intros ve0 Hin. apply elem_of_upsert_ves in Hin.
        destruct Hin as (k1 & h1 & ow1 & nw1 & Hin).
        destruct (Qold _ Hin) as [Hold | Heq].
        -- apply Hall. apply elem_of_upsert_ves. exists k1, h1, ow1, nw1. exact Hold.
        -- injection Heq as _ _ -> _ _.
           destruct (sv_map _ _ _ H _ _ Hm) as (e & _ & He & _).
           apply (sv_ves_lt _ _ _ H) in He. lia.
  - exact (sq_rq _ _ _ H).
  - split; [exact (proj1 (sq_wq _ _ _ H)) | cbn; lia].
  - exact (sk_sketch _ _ _ H).
Qed.

(** * the hash-map step of [invalidate] establishes the invariant with its remove in flight *)
Lemma invalidate_trans c s k ve :
  SInv c s -> s_map s !! k = Some ve ->
  SInvQ c [WRemove k ve] (sset_map s (delete k (s_map s))).
Proof.
  intros H Em. unfold SInv in H.
  set (o := WRemove k ve). set (s3 := sset_map s (delete k (s_map s))).
  assert (QM : forall o0, o0 ∈ s_wq s ++ [] -> o0 ∈ s_wq s3 ++ [o]).
  { intros o0. rewrite app_nil_r. intros Hin. apply elem_of_app. left. exact Hin. }
  assert (Onew : o ∈ s_wq s3 ++ [o]).
  { apply elem_of_app. right. apply elem_of_list_singleton. reflexivity. }
  assert (Qold : forall o0, o0 ∈ s_wq s3 ++ [o] -> o0 ∈ s_wq s ++ [] \/ o0 = o).
  { intros o0. rewrite app_nil_r. intros [Hin|Hin]%elem_of_app; [left; exact Hin|].
    right. apply elem_of_list_singleton in Hin. exact Hin. }
  assert (MD : forall k0 ve0, s_map s3 !! k0 = Some ve0 -> k0 <> k /\ s_map s !! k0 = Some ve0).
  { intros k0 ve0. unfold s3; sf. rewrite lookup_delete_Some. intros [? ?]. split; [congruence | assumption]. }
  constructor.
  - intros k0 ve0 Hm. apply MD in Hm as [_ Hm]. exact (sv_map _ _ _ H _ _ Hm).
  - exact (sv_ves_lt _ _ _ H).
  - exact (sv_infos_lt _ _ _ H).
  - intros o0 Hin. destruct (Qold _ Hin) as [Hold | ->].
    + exact (sv_wq _ _ _ H _ Hold).
    + exact (sv_map _ _ _ H _ _ Em).
  - exact (sv_rq _ _ _ H).
  - exact (sn_nodup_ao _ _ _ H).
  - exact (sn_nodup_wo _ _ _ H).
  - exact (sn_ao_lt _ _ _ H).
  - exact (sn_wo_lt _ _ _ H).
  - exact (sn_ao_info _ _ _ H).
  - exact (sn_info_ao _ _ _ H).
  - exact (sn_wo_info _ _ _ H).
  - exact (sn_info_wo _ _ _ H).
  - exact (sn_admitted _ _ _ H).
  - (* G *)
    intros i0 y Hy Hadm. destruct (sg_no_ghost _ _ _ H _ _ Hy Hadm) as [Hmap | Hrem].
    + unfold map_has_info in *.
      destruct (s_map s !! si_key y) as [ve0|] eqn:Em2; [|discriminate].
      destruct (decide (si_key y = k)) as [Ek|Nk].
      * right. exists k, ve. split; [exact Onew|]. apply N.eqb_eq in Hmap.
        rewrite Ek in Em2. rewrite Em in Em2. injection Em2 as <-. exact Hmap.
      * left. unfold s3; sf. rewrite lookup_delete_ne by congruence. rewrite Em2. exact Hmap.
    + right. destruct Hrem as (k0 & ve0 & Hin & Hvi). exists k0, ve0.
      split; [apply QM; exact Hin | exact Hvi].
  - (* R *)
    intros k0 ve0 k' ve_m Hin Hm. apply MD in Hm as [Hne Hm].
    destruct (Qold _ Hin) as [Hold | Heq].
    + exact (sr_detached _ _ _ H _ _ _ _ Hold Hm).
    + injection Heq as -> ->. intros E. change (ve_info s ve_m = ve_info s ve) in E.
      destruct (map_entry_info _ _ _ _ _ H Hm) as (y & Hy & Hyk).
      destruct (map_entry_info _ _ _ _ _ H Em) as (y2 & Hy2 & Hyk2).
      rewrite E in Hy. congruence.
  - (* O *)
    intros k0 ve0 Hm Hna. apply MD in Hm as [_ Hm].
    apply (has_upsert_for_ve_mono (s_wq s ++ [])); [exact QM|].
    exact (so_no_orphan _ _ _ H _ _ Hm Hna).
  - (* D *)
    intros i0 y Hy Hd.
    destruct (sd_dirty _ _ _ H _ _ Hy Hd) as (k0 & h0 & ve0 & ow0 & nw0 & Hin & Hvi).
    exists k0, h0, ve0, ow0, nw0. split; [apply QM; exact Hin | exact Hvi].
  - exact (sa_ec _ _ _ H).
  - exact (sa_ws _ _ _ H).
  - exact (sa_weight_lt _ _ _ H).
  - (* W *)
    intros k0 ve0 Hm. apply MD in Hm as [_ Hm].
    destruct (sw_weight _ _ _ H _ _ Hm) as [Hu | Hw0].
    + left. apply (has_upsert_for_ve_mono (s_wq s ++ [])); [exact QM | exact Hu].
    + right. exact Hw0.
  - intros ve0 e k0 ve_m He Hm Hvi. apply MD in Hm as [_ Hm].
    exact (sf_newest _ _ _ H _ _ _ _ He Hm Hvi).
  - unfold s3; sf. unfold upsert_ves. rewrite omap_app. cbn [omap o]. rewrite app_nil_r.
    pose proof (sf_sorted _ _ _ H) as HS. rewrite app_nil_r in HS. exact HS.
  - intros k0 ve_m Hm. apply MD in Hm as [_ Hm].
    destruct (sf_applied_older _ _ _ H _ _ Hm) as [Hu | Hall].
    + left. apply (has_upsert_for_ve_mono (s_wq s ++ [])); [exact QM | exact Hu].
    + right. intros ve0 Hin. apply Hall. apply elem_of_upsert_ves in Hin.
      destruct Hin as (k1 & h1 & ow1 & nw1 & Hin). apply elem_of_upsert_ves.
      exists k1, h1, ow1, nw1. destruct (Qold _ Hin) as [Hold | Heq]; [exact Hold | discriminate].
  - exact (sq_rq _ _ _ H).
  - split; [exact (proj1 (sq_wq _ _ _ H)) | cbn; lia].
  - exact (sk_sketch _ _ _ H).
Qed.

(* ------------------------------------------------------------------ *)
(** * the public operations *)
Lemma sweigh_lt c k v : scfg_ok c -> sweigh c k v < two32.
Proof.
  intros [Hw _]. unfold sweigh. destruct (sc_wf c) as [f|] eqn:E; [eapply Hw; reflexivity|].
  reflexivity.
Qed.

Lemma s_insert_inv c s now k v :
  scfg_ok c -> SInv c s -> s_small s ->
  exists s', s_insert c s now k v = Ok s' /\ SInv c s' /\
    s_next s <= s_next s' <= s_next s + 2 + 2 * N.of_nat (length (s_wq s)) /\
    sk_load_s s' <= sk_load_s s + 4 * N.of_nat (length (s_rq s)).
Proof.
  intros Hc H [Hs1 Hs2]. unfold s_insert. cbv zeta.
  destruct (s_map s !! k) as [old_ve|] eqn:Em.
  - destruct (map_entry_info _ _ _ _ _ H Em) as (x & Hx & Hk).
    assert (Eg : get_info s (ve_info s old_ve) = x) by (unfold get_info; rewrite Hx; reflexivity).
    pose proof (sv_infos_lt _ _ _ H _ _ Hx) as Hlt.
    unfold upd_info. rewrite Eg. sf.
    eassert (H3 : SInvQ c [_] _).
    { eapply (insert_trans c s k v (s_next s) (ve_info s old_ve)
               (si_set_lm now (si_set_la now (si_set_dirty true x))) (s_next s + 1) (si_weight x));
        try assumption; try lia.
      - exact (sa_weight_lt _ _ _ H _ _ Hx).
      - left. exists old_ve, x. split; [exact Em|]. split; [reflexivity|]. split; [exact Hx|].
        repeat split. }
    eapply schedule_write_op_inv in H3; [|exact Hc|sf; lia|unfold sk_load_s in *; sf; lia].
    destruct H3 as (s' & E & H' & Hn & Hl). exists s'. split; [exact E|]. split; [exact H'|].
    unfold sk_load_s in *. sfields. split; [lia | exact Hl].
  - assert (Hnone : s_infos s !! s_next s = None).
    { destruct (s_infos s !! s_next s) as [y|] eqn:Ey; [|reflexivity].
      apply (sv_infos_lt _ _ _ H) in Ey. lia. }
    sf.
    eassert (H3 : SInvQ c [_] _).
    { eapply (insert_trans c s k v (s_next s + 1) (s_next s)
               (mkSI k false true now now (sweigh c k v) None None) (s_next s + 2) 0);
        try assumption; try lia.
      - reflexivity.
      - apply sweigh_lt; assumption.
      - right. repeat split; assumption. }
    eapply schedule_write_op_inv in H3; [|exact Hc|sf; lia|unfold sk_load_s in *; sf; lia].
    destruct H3 as (s' & E & H' & Hn & Hl). exists s'. split; [exact E|]. split; [exact H'|].
    unfold sk_load_s in *. sfields. split; [lia | exact Hl].
Qed.

Lemma s_invalidate_inv c s now k :
  scfg_ok c -> SInv c s -> s_small s ->
  exists s', s_invalidate c s now k = Ok s' /\ SInv c s' /\
    s_next s <= s_next s' <= s_next s + 2 * N.of_nat (length (s_wq s)) /\
    sk_load_s s' <= sk_load_s s + 4 * N.of_nat (length (s_rq s)).
Proof.
  intros Hc H [Hs1 Hs2]. unfold s_invalidate.
  destruct (s_map s !! k) as [ve|] eqn:Em.
  - pose proof (invalidate_trans c s k ve H Em) as H3.
    eapply schedule_write_op_inv in H3; [|exact Hc|sf; lia|unfold sk_load_s in *; sf; lia].
    destruct H3 as (s' & E & H' & Hn & Hl). exists s'. split; [exact E|]. split; [exact H'|].
    unfold sk_load_s in *. sfields. split; [lia | exact Hl].
  - exists s. split; [reflexivity|]. split; [exact H|]. lia.
Qed.

Lemma s_get_inv c s now k :
  scfg_ok c -> SInv c s -> s_small s ->
  exists s' v, s_get c s now k = Ok (s', v) /\ SInv c s' /\
    s_next s <= s_next s' <= s_next s + 2 * N.of_nat (length (s_wq s)) /\
    sk_load_s s' <= sk_load_s s + 4 * N.of_nat (length (s_rq s)).
Proof.
  intros Hc H [Hs1 Hs2]. unfold s_get. cbv zeta.
  assert (Hmiss : forall h, exists s' v,
    (s1 <-r record_read_op c s (RMiss h) now; Ok (s1, @None N)) = Ok (s', v) /\ SInv c s' /\
    s_next s <= s_next s' <= s_next s + 2 * N.of_nat (length (s_wq s)) /\
    sk_load_s s' <= sk_load_s s + 4 * N.of_nat (length (s_rq s))).
  { intros h. destruct (record_read_op_inv c s (RMiss h) now Hc H I) as (s' & -> & H' & Hn & Hl);
      [lia | unfold sk_load_s; lia |]. cbn [rbind]. exists s', None. auto. }
  destruct (s_map s !! k) as [ve|] eqn:Em; [|apply Hmiss].
  destruct (info_expired c s (get_info s (sv_info (get_ve s ve))) now); [apply Hmiss|].
  destruct (record_read_op_inv c s (RHit (sc_hash c k) ve now) now Hc H) as (s' & -> & H' & Hn & Hl);
    [exists k; exact (sv_map _ _ _ H _ _ Em) | lia | unfold sk_load_s; lia |].
  cbn [rbind]. eexists s', _. auto.
Qed.

(* ------------------------------------------------------------------ *)
(** * one public step, runs *)
Theorem sstep_safe c r o :
  scfg_ok c -> SInv c (sr_state r) -> s_small (sr_state r) ->
  exists r' out, sstep c r o = Ok (r', out) /\ SInv c (sr_state r') /\
    s_next (sr_state r') <= s_next (sr_state r) + 140 /\
    sk_load_s (sr_state r') <= sk_load_s (sr_state r) + 264 /\
    sr_now r <= sr_now r'.
Proof.
  destruct r as [s now]. cbn [sr_state sr_now]. intros Hc H Hs.
  pose proof (sq_rq _ _ _ H) as Qr. destruct (sq_wq _ _ _ H) as [Qw _].
  pose proof c_flush_r_le as Cr. pose proof c_flush_w_le as Cw. unfold qlen in Qr, Qw.
  destruct o as [k v|k|k| |k| | |d]; cbn [sstep sr_state sr_now].
  - destruct (s_insert_inv c s now k v Hc H Hs) as (s' & -> & H' & Hn & Hl). cbn [rbind].
    eexists _, _. split; [reflexivity|]. cbn [sr_state sr_now]. split; [exact H'|]. lia.
  - destruct (s_get_inv c s now k Hc H Hs) as (s' & v & -> & H' & Hn & Hl). cbn [rbind].
    eexists _, _. split; [reflexivity|]. cbn [sr_state sr_now]. split; [exact H'|]. lia.
  - eexists _, _. split; [reflexivity|]. cbn [sr_state sr_now]. split; [exact H|]. lia.
  - eexists _, _. split; [reflexivity|]. cbn [sr_state sr_now]. split; [exact H|]. lia.
  - destruct (s_invalidate_inv c s now k Hc H Hs) as (s' & -> & H' & Hn & Hl). cbn [rbind].
    eexists _, _. split; [reflexivity|]. cbn [sr_state sr_now]. split; [exact H'|]. lia.
  - eexists _, _. split; [reflexivity|]. cbn [sr_state sr_now]. unfold s_invalidate_all.
    split; [apply SInvQ_set_va; exact H|]. unfold sk_load_s. sf. lia.
  - destruct Hs as [Hs1 Hs2].
    destruct (s_sync_inv c [] s now Hc H) as (s' & -> & H' & _ & _ & _ & _ & _ & _ & Hn & Hl);
      [lia | unfold sk_load_s; lia |].
    cbn [rbind]. eexists _, _. split; [reflexivity|]. cbn [sr_state sr_now].
    split; [exact H'|]. lia.
  - eexists _, _. split; [reflexivity|]. cbn [sr_state sr_now]. split; [exact H|]. lia.
Qed.

Lemma sinv_init c : SInv c s_init.
Proof.
  unfold SInv, s_init. constructor; sf.
  - intros k ve Hm. rewrite lookup_empty in Hm. discriminate.
  - intros ve e Hm. rewrite lookup_empty in Hm. discriminate.
  - intros i x Hm. rewrite lookup_empty in Hm. discriminate.
  - intros o Hin. cbn in Hin. apply elem_of_nil in Hin. contradiction.
  - intros o Hin. apply elem_of_nil in Hin. contradiction.
  - constructor.
  - constructor.
  - intros n nd Hin. apply elem_of_nil in Hin. contradiction.
  - intros n nd Hin. apply elem_of_nil in Hin. contradiction.
  - intros n nd Hin. apply elem_of_nil in Hin. contradiction.
  - intros i x n Hm. rewrite lookup_empty in Hm. discriminate.
  - intros n nd Hin. apply elem_of_nil in Hin. contradiction.
  - intros i x n Hm. rewrite lookup_empty in Hm. discriminate.
  - intros i x Hm. rewrite lookup_empty in Hm. discriminate.
  - intros i x Hm. rewrite lookup_empty in Hm. discriminate.
  - intros k ve k' ve_m Hin. cbn in Hin. apply elem_of_nil in Hin. contradiction.
  - intros k ve Hm. rewrite lookup_empty in Hm. discriminate.
  - intros i x Hm. rewrite lookup_empty in Hm. discriminate.
  - unfold admitted_infos; sf. rewrite map_filter_empty, map_size_empty. reflexivity.
  - unfold admitted_infos; sf. rewrite map_filter_empty. unfold infos_weight.
    rewrite map_fold_empty. reflexivity.
  - intros i x Hm. rewrite lookup_empty in Hm. discriminate.
  - intros k ve Hm. rewrite lookup_empty in Hm. discriminate.
  - intros ve e k ve_m Hm. rewrite lookup_empty in Hm. discriminate.
  - cbn. constructor.
  - intros k ve Hm. rewrite lookup_empty in Hm. discriminate.
  - pose proof c_flush_r_pos. cbn. lia.
  - pose proof c_flush_w_pos. cbn. lia.
  - split; [exact sk_wf_empty | reflexivity].
Qed.

Lemma srun_safe_gen c ops : forall r,
  scfg_ok c -> SInv c (sr_state r) ->
  s_next (sr_state r) + 140 * N.of_nat (length ops) < 2 ^ 31 ->
  sk_load_s (sr_state r) + 264 * N.of_nat (length ops) < 2 ^ 27 ->
  exists r' outs, srun_ops c r ops = Ok (r', outs) /\ SInv c (sr_state r').
Proof.
  induction ops as [|o ops IH]; intros r Hc H Hn Hl; cbn [srun_ops].
  - exists r, []. auto.
  - cbn [length] in Hn, Hl. rewrite Nat2N.inj_succ in Hn, Hl.
    destruct (sstep_safe c r o Hc H) as (r1 & out & -> & H1 & Hn1 & Hl1 & _).
    { split; [lia | unfold sk_load_s in Hl; lia]. }
    cbn [rbind].
    destruct (IH r1 Hc H1) as (r2 & outs & -> & H2); [lia | lia |].
    cbn [rbind]. eexists _, _. split; [reflexivity | exact H2].
Qed.

Theorem srun_safe c ops :
  scfg_ok c -> N.of_nat (length ops) < 2 ^ 18 ->
  exists r outs, srun_ops c srun_init ops = Ok (r, outs) /\ SInv c (sr_state r).
Proof.
  intros Hc Hlen. apply srun_safe_gen; [exact Hc | apply sinv_init | |].
  - unfold srun_init, s_init. cbn [sr_state s_next]. lia.
  - unfold srun_init, s_init, sk_load_s, sk_empty. cbn [sr_state s_sk sk_table].
    rewrite map_size_empty. lia.
Qed.

Theorem sync_quiescent c s now :
  scfg_ok c -> SInv c s -> s_small s ->
  exists s', s_sync c s now = Ok s' /\ SInv c s' /\ quiescent s'.
Proof.
  intros Hc H [Hs1 Hs2].
  destruct (s_sync_inv c [] s now Hc H) as (s' & E & H' & Hrq & Hwq & _);
    [lia | unfold sk_load_s; lia |].
  exists s'. split; [exact E|]. split; [exact H'|]. split; assumption.
Qed.

(* ------------------------------------------------------------------ *)
(** * counters of a quiescent state *)
Definition sumN (l : list N) : N := foldr N.add 0 l.

Lemma sumN_perm l1 l2 : l1 ≡ₚ l2 -> sumN l1 = sumN l2.
Proof. unfold sumN. induction 1; cbn [foldr] in *; lia. Qed.

Lemma map_fold_sum {A} (g : N -> A -> N) (m : gmap N A) :
  map_fold (fun k a acc => acc + g k a) 0 m = sumN ((fun p => g p.1 p.2) <$> map_to_list m).
Proof.
  unfold map_fold, compose.
  induction (map_to_list m) as [|[k a] l IH]; [reflexivity|].
  unfold sumN in *. cbn [foldr fmap list_fmap fst snd] in *. rewrite IH.
  unfold uncurry, Datatypes.uncurry. lia.
Qed.

Lemma nodup_fst_unique {A} (l : list (N * A)) a b1 b2 :
  NoDup l.*1 -> (a, b1) ∈ l -> (a, b2) ∈ l -> b1 = b2.
Proof.
  induction l as [|[a' b'] l IH]; intros Hnd H1 H2.
  - apply elem_of_nil in H1. contradiction.
  - cbn [fmap list_fmap fst] in Hnd. apply NoDup_cons in Hnd as [Hnot Hnd].
    apply elem_of_cons in H1 as [E1|H1]; apply elem_of_cons in H2 as [E2|H2].
    + congruence.
    + exfalso. apply Hnot. injection E1 as -> _. exact (elem_of_list_fmap_1 fst _ _ H2).
    + exfalso. apply Hnot. injection E2 as -> _. exact (elem_of_list_fmap_1 fst _ _ H1).
    + apply IH; assumption.
Qed.

Theorem quiescent_counters c s :
  SInv c s -> quiescent s ->
  s_ec s = N.of_nat (size (s_map s)) /\ s_ec s = qlen (s_prob s) /\ s_ws s = s_map_weight c s /\
  (forall k ve, s_map s !! k = Some ve -> si_admitted (get_info s (ve_info s ve)) = true) /\
  (forall n nd, (n, nd) ∈ s_prob s -> map_has_info s (sa_key nd) (sa_info nd) = true).
Proof.
  intros H [Hrq Hwq]. unfold SInv in H.
  assert (Hq : s_wq s ++ [] = []) by (rewrite Hwq; reflexivity).
  assert (Hadm : forall k ve, s_map s !! k = Some ve ->
                              si_admitted (get_info s (ve_info s ve)) = true).
  { intros k ve Hm. destruct (si_admitted (get_info s (ve_info s ve))) eqn:E; [reflexivity|].
    destruct (so_no_orphan _ _ _ H _ _ Hm E) as (k0 & h0 & ow0 & nw0 & Hin).
    rewrite Hq in Hin. apply elem_of_nil in Hin. contradiction. }
  assert (Hgh : forall i x, s_infos s !! i = Some x -> si_admitted x = true ->
                            map_has_info s (si_key x) i = true).
  { intros i x Hx Ha. destruct (sg_no_ghost _ _ _ H _ _ Hx Ha) as [Hm|(k0 & ve0 & Hin & _)];
      [exact Hm|]. rewrite Hq in Hin. apply elem_of_nil in Hin. contradiction. }
  assert (Hw : forall k ve, s_map s !! k = Some ve ->
             si_weight (get_info s (ve_info s ve)) = sweigh c k (sv_val (get_ve s ve))).
  { intros k ve Hm. destruct (sw_weight _ _ _ H _ _ Hm) as [(k0 & h0 & ow0 & nw0 & Hin)|Hw0];
      [|exact Hw0]. rewrite Hq in Hin. apply elem_of_nil in Hin. contradiction. }
  assert (Hnode : forall n nd, (n, nd) ∈ s_prob s ->
            exists x, s_infos s !! sa_info nd = Some x /\ si_ao x = Some n /\
                      sa_key nd = si_key x /\ si_admitted x = true).
  { intros n nd Hin. destruct (sn_ao_info _ _ _ H _ _ Hin) as (x & Hx & Hao & Hk & _).
    exists x. split; [exact Hx|]. split; [exact Hao|]. split; [exact Hk|].
    apply (sn_admitted _ _ _ H _ _ Hx). rewrite Hao. eauto. }
  set (A := admitted_infos s).
  set (L1 := (fun p : N * N => ve_info s p.2) <$> map_to_list (s_map s)).
  set (L2 := (map_to_list A).*1).
  set (L3 := (fun p : N * saonode => sa_info p.2) <$> s_prob s).
  assert (HA : forall i x, (i, x) ∈ map_to_list A <-> s_infos s !! i = Some x /\ si_admitted x = true).
  { intros i x. rewrite elem_of_map_to_list. unfold A, admitted_infos.
    rewrite map_filter_lookup_Some. reflexivity. }
  assert (HP : L1 ≡ₚ L2).
  { apply NoDup_Permutation.
    - apply NoDup_fmap_2_strong; [|apply NoDup_map_to_list].
      intros [k1 ve1] [k2 ve2] H1 H2 E. cbn [snd] in E. apply elem_of_map_to_list in H1, H2.
      destruct (map_entry_info _ _ _ _ _ H H1) as (y1 & Hy1 & K1).
      destruct (map_entry_info _ _ _ _ _ H H2) as (y2 & Hy2 & K2).
      rewrite E in Hy1. assert (k1 = k2) by congruence. subst k2. congruence.
    - apply NoDup_fst_map_to_list.
    - intros i. unfold L1, L2. rewrite !elem_of_list_fmap. split.
      + intros ([k ve] & -> & Hin). apply elem_of_map_to_list in Hin. cbn [snd].
        destruct (map_entry_info _ _ _ _ _ H Hin) as (y & Hy & _).
        exists (ve_info s ve, y). split; [reflexivity|]. apply HA. split; [exact Hy|].
        specialize (Hadm _ _ Hin). unfold get_info in Hadm. rewrite Hy in Hadm. exact Hadm.
      + intros ([i0 y] & -> & Hin). cbn [fst]. apply HA in Hin as [Hy Ha].
        pose proof (Hgh _ _ Hy Ha) as Hm. unfold map_has_info in Hm.
        destruct (s_map s !! si_key y) as [ve|] eqn:Em; [|discriminate].
        apply N.eqb_eq in Hm. exists (si_key y, ve). split; [cbn [snd]; congruence|].
        apply elem_of_map_to_list. exact Em. }
  assert (HP3 : L3 ≡ₚ L2).
  { apply NoDup_Permutation.
    - apply NoDup_fmap_2_strong; [|exact (NoDup_fmap_1 fst _ (sn_nodup_ao _ _ _ H))].
      intros [n1 nd1] [n2 nd2] H1 H2 E. cbn [snd] in E.
      destruct (Hnode _ _ H1) as (x1 & Hx1 & Hao1 & _).
      destruct (Hnode _ _ H2) as (x2 & Hx2 & Hao2 & _).
      rewrite E in Hx1. assert (n1 = n2) by congruence. subst n2.
      f_equal. exact (nodup_fst_unique _ _ _ _ (sn_nodup_ao _ _ _ H) H1 H2).
    - apply NoDup_fst_map_to_list.
    - intros i. unfold L3, L2. rewrite !elem_of_list_fmap. split.
      + intros ([n nd] & -> & Hin). cbn [snd].
        destruct (Hnode _ _ Hin) as (x & Hx & _ & _ & Ha).
        exists (sa_info nd, x). split; [reflexivity|]. apply HA. auto.
      + intros ([i0 y] & -> & Hin). cbn [fst]. apply HA in Hin as [Hy Ha].
        apply (sn_admitted _ _ _ H _ _ Hy) in Ha as [n Hn].
        destruct (sn_info_ao _ _ _ H _ _ _ Hy Hn) as (nd & Hin & Hi).
        exists (n, nd). split; [cbn [snd]; congruence | exact Hin]. }
  assert (Hsz : size A = length L2).
  { unfold L2. rewrite fmap_length. reflexivity. }
  split; [|split; [|split; [|split]]].
  - rewrite (sa_ec _ _ _ H). fold A. rewrite Hsz, <- (Permutation_length HP).
    unfold L1. rewrite fmap_length. reflexivity.
  - rewrite (sa_ec _ _ _ H). fold A. rewrite Hsz, <- (Permutation_length HP3).
    unfold L3, qlen. rewrite fmap_length. reflexivity.
  - rewrite (sa_ws _ _ _ H). fold A. unfold infos_weight, s_map_weight.
    rewrite (map_fold_sum (fun _ x => si_weight x) A).
    rewrite (map_fold_sum (fun k ve => sweigh c k (sv_val (get_ve s ve))) (s_map s)).
    transitivity (sumN ((fun i => si_weight (get_info s i)) <$> L2)).
    + f_equal. unfold L2. rewrite <- list_fmap_compose. apply Forall_fmap_ext_1.
      apply Forall_forall. intros [i x] Hin. apply HA in Hin as [Hy _].
      cbn [compose fst snd]. unfold get_info. rewrite Hy. reflexivity.
    + rewrite <- (sumN_perm _ _ (fmap_Permutation _ _ _ HP)).
      f_equal. unfold L1. rewrite <- list_fmap_compose. apply Forall_fmap_ext_1.
      apply Forall_forall. intros [k ve] Hin. apply elem_of_map_to_list in Hin.
      cbn [compose fst snd]. apply Hw. exact Hin.
  - exact Hadm.
  - intros n nd Hin. destruct (Hnode _ _ Hin) as (x & Hx & _ & Hk & Ha).
    rewrite Hk. apply Hgh; assumption.
Qed.

Lemma srun_ops_app c r ops1 ops2 :
  srun_ops c r (ops1 ++ ops2) =
  match srun_ops c r ops1 with
  | Ok (r1, o1) => match srun_ops c r1 ops2 with Ok (r2, o2) => Ok (r2, o1 ++ o2) | Err e => Err e end
  | Err e => Err e
  end.
Proof.
  revert r. induction ops1 as [|o ops1 IH]; intros r; cbn [app srun_ops].
  - destruct (srun_ops c r ops2) as [[r2 o2]|e]; reflexivity.
  - destruct (sstep c r o) as [[r1 out]|e]; cbn [rbind]; [|reflexivity].
    rewrite IH. destruct (srun_ops c r1 ops1) as [[r2 o1]|e]; cbn [rbind]; [|reflexivity].
    destruct (srun_ops c r2 ops2) as [[r3 o2]|e]; reflexivity.
Qed.

(* ------------------------------------------------------------------ *)
(** Summary of the deliverable (all proved above, depending only on the contract lemmas of
    SInvWrites.v): [s_sync_inv], [sstep_safe], [sinv_init], [srun_safe], [sync_quiescent],
    [quiescent_counters], [srun_ops_app].  No target statement is missing. *)
