(** Executable model of the concurrent cache (src/sync/cache.rs, sync/base_cache.rs,
    common/concurrent/{deques,entry_info,housekeeper}.rs) as a SEQUENTIAL machine: one
    thread issuing operations, with the implicit housekeeper and explicit `sync()`.
    Heap objects that are shared by reference in the code are explicit here:
    ValueEntry (ve) ids and EntryInfo (info) ids; deque nodes are id-tagged list
    elements (live = member).  Definitions only. *)
From MM Require Export Base.Prelude Base.SoftF64 Gen.Consts Sketch.SketchModel.

Record scfg := mkSCfg {
  sc_cap  : option N;
  sc_ttl  : option N;
  sc_tti  : option N;
  sc_wf   : option (N -> N -> N);
  sc_hash : N -> N
}.

(** EntryInfo: shared by all ValueEntries of one continuous residence of a key *)
Record sinfo := mkSI {
  si_key : N;                 (* ghost: the key this info was created for *)
  si_admitted : bool;
  si_dirty : bool;
  si_la : N;                  (* last_accessed (always set by EntryInfo::new) *)
  si_lm : N;                  (* last_modified *)
  si_weight : N;              (* policy_weight *)
  si_ao : option N;           (* access_order_q_node *)
  si_wo : option N            (* write_order_q_node *)
}.

Record sve := mkSV { sv_val : N; sv_info : N }.

Record saonode := mkSAo { sa_key : N; sa_hash : N; sa_info : N }.
Record swonode := mkSWo { sw_key : N; sw_info : N }.

Inductive readop := RHit (hash ve ts : N) | RMiss (hash : N).
Inductive writeop :=
| WUpsert (key hash ve old_w new_w : N)
| WRemove (key ve : N).

Record sstate := mkS {
  s_map   : gmap N N;                   (* key -> ve id *)
  s_ves   : gmap N sve;                 (* every ValueEntry ever allocated *)
  s_infos : gmap N sinfo;               (* every EntryInfo ever allocated *)
  s_prob  : list (N * saonode);         (* deques.probation, front first *)
  s_wo    : list (N * swonode);         (* deques.write_order *)
  s_rq    : list readop;                (* read op channel (front first) *)
  s_wq    : list writeop;               (* write op channel *)
  s_ec    : N;
  s_ws    : N;
  s_va    : option N;                   (* valid_after *)
  s_sk    : sketch;
  s_skon  : bool;
  s_sync_after : N;                     (* housekeeper.sync_after *)
  s_next  : N                           (* allocation counter for ve / info / node ids *)
}.

Definition sync_interval : N := PERIODICAL_SYNC_INTERVAL_MILLIS * 1000000.

(** the harness installs the mock clock at reading 0 and re-derives sync_after *)
Definition s_init : sstate :=
  mkS ∅ ∅ ∅ [] [] [] [] 0 0 None sk_empty false sync_interval 0.

Definition sset_map s x := mkS x (s_ves s) (s_infos s) (s_prob s) (s_wo s) (s_rq s) (s_wq s) (s_ec s) (s_ws s) (s_va s) (s_sk s) (s_skon s) (s_sync_after s) (s_next s).
Definition sset_ves s x := mkS (s_map s) x (s_infos s) (s_prob s) (s_wo s) (s_rq s) (s_wq s) (s_ec s) (s_ws s) (s_va s) (s_sk s) (s_skon s) (s_sync_after s) (s_next s).
Definition sset_infos s x := mkS (s_map s) (s_ves s) x (s_prob s) (s_wo s) (s_rq s) (s_wq s) (s_ec s) (s_ws s) (s_va s) (s_sk s) (s_skon s) (s_sync_after s) (s_next s).
Definition sset_prob s x := mkS (s_map s) (s_ves s) (s_infos s) x (s_wo s) (s_rq s) (s_wq s) (s_ec s) (s_ws s) (s_va s) (s_sk s) (s_skon s) (s_sync_after s) (s_next s).
Definition sset_wo s x := mkS (s_map s) (s_ves s) (s_infos s) (s_prob s) x (s_rq s) (s_wq s) (s_ec s) (s_ws s) (s_va s) (s_sk s) (s_skon s) (s_sync_after s) (s_next s).
Definition sset_rq s x := mkS (s_map s) (s_ves s) (s_infos s) (s_prob s) (s_wo s) x (s_wq s) (s_ec s) (s_ws s) (s_va s) (s_sk s) (s_skon s) (s_sync_after s) (s_next s).
Definition sset_wq s x := mkS (s_map s) (s_ves s) (s_infos s) (s_prob s) (s_wo s) (s_rq s) x (s_ec s) (s_ws s) (s_va s) (s_sk s) (s_skon s) (s_sync_after s) (s_next s).
Definition sset_ec s x := mkS (s_map s) (s_ves s) (s_infos s) (s_prob s) (s_wo s) (s_rq s) (s_wq s) x (s_ws s) (s_va s) (s_sk s) (s_skon s) (s_sync_after s) (s_next s).
Definition sset_ws s x := mkS (s_map s) (s_ves s) (s_infos s) (s_prob s) (s_wo s) (s_rq s) (s_wq s) (s_ec s) x (s_va s) (s_sk s) (s_skon s) (s_sync_after s) (s_next s).
Definition sset_va s x := mkS (s_map s) (s_ves s) (s_infos s) (s_prob s) (s_wo s) (s_rq s) (s_wq s) (s_ec s) (s_ws s) x (s_sk s) (s_skon s) (s_sync_after s) (s_next s).
Definition sset_sk s x on := mkS (s_map s) (s_ves s) (s_infos s) (s_prob s) (s_wo s) (s_rq s) (s_wq s) (s_ec s) (s_ws s) (s_va s) x on (s_sync_after s) (s_next s).
Definition sset_sa s x := mkS (s_map s) (s_ves s) (s_infos s) (s_prob s) (s_wo s) (s_rq s) (s_wq s) (s_ec s) (s_ws s) (s_va s) (s_sk s) (s_skon s) x (s_next s).
Definition sset_next s x := mkS (s_map s) (s_ves s) (s_infos s) (s_prob s) (s_wo s) (s_rq s) (s_wq s) (s_ec s) (s_ws s) (s_va s) (s_sk s) (s_skon s) (s_sync_after s) x.

(** Heap access.  Ids are handles to reference-counted objects: a lookup of an id that
    was handed out by the allocator cannot fail in the code; the defaults below are
    shown never to be used (invariant `ids_valid` in SInvDefs.v). *)
Definition dummy_info : sinfo := mkSI 0 false false 0 0 0 None None.
Definition dummy_ve : sve := mkSV 0 0.
Definition get_ve (s : sstate) (v : N) : sve := default dummy_ve (s_ves s !! v).
Definition get_info (s : sstate) (i : N) : sinfo := default dummy_info (s_infos s !! i).
Definition ve_info (s : sstate) (v : N) : N := sv_info (get_ve s v).
Definition upd_info (s : sstate) (i : N) (f : sinfo -> sinfo) : sstate :=
  sset_infos s (<[i := f (get_info s i)]> (s_infos s)).

Definition si_set_admitted b (x : sinfo) := mkSI (si_key x) b (si_dirty x) (si_la x) (si_lm x) (si_weight x) (si_ao x) (si_wo x).
Definition si_set_dirty b (x : sinfo) := mkSI (si_key x) (si_admitted x) b (si_la x) (si_lm x) (si_weight x) (si_ao x) (si_wo x).
Definition si_set_la t (x : sinfo) := mkSI (si_key x) (si_admitted x) (si_dirty x) t (si_lm x) (si_weight x) (si_ao x) (si_wo x).
Definition si_set_lm t (x : sinfo) := mkSI (si_key x) (si_admitted x) (si_dirty x) (si_la x) t (si_weight x) (si_ao x) (si_wo x).
Definition si_set_weight w (x : sinfo) := mkSI (si_key x) (si_admitted x) (si_dirty x) (si_la x) (si_lm x) w (si_ao x) (si_wo x).
Definition si_set_ao n (x : sinfo) := mkSI (si_key x) (si_admitted x) (si_dirty x) (si_la x) (si_lm x) (si_weight x) n (si_wo x).
Definition si_set_wo n (x : sinfo) := mkSI (si_key x) (si_admitted x) (si_dirty x) (si_la x) (si_lm x) (si_weight x) (si_ao x) n.

Definition sweigh (c : scfg) (k v : N) : N :=
  match sc_wf c with Some f => f k v | None => 1 end.

Definition s_has_expiry (c : scfg) : bool :=
  match sc_ttl c, sc_tti c with None, None => false | _, _ => true end.

(** is_expired_entry_{wo,ao}(d, valid_after, ts, now) of base_cache.rs *)
Definition s_expired (d : option N) (va : option N) (ts now : N) : bool :=
  (match va with Some v => ts <? v | None => false end) ||
  (match d with Some d => ts + d <=? now | None => false end).

(** is_expired_entry_wo(..) || is_expired_entry_ao(..) on an EntryInfo *)
Definition info_expired (c : scfg) (s : sstate) (i : sinfo) (now : N) : bool :=
  s_expired (sc_ttl c) (s_va s) (si_lm i) now || s_expired (sc_tti c) (s_va s) (si_la i) now.

(** ---- deque primitives ---- *)
Definition sdeq_move_to_back {A} (n : N) (l : list (N * A)) : res (list (N * A)) :=
  match find_id n l with
  | Some a => Ok (remove_id n l ++ [(n, a)])
  | None => Err UseAfterFree
  end.

Definition sdeq_unlink {A} (n : N) (l : list (N * A)) : res (list (N * A)) :=
  if mem_id n l then Ok (remove_id n l) else Err UseAfterFree.

Definition move_front_to_back {A} (l : list (N * A)) : list (N * A) :=
  match l with [] => [] | x :: r => r ++ [x] end.

(** Deques::move_to_back_ao(entry) / move_to_back_ao_in_deque *)
Definition s_move_to_back_ao (s : sstate) (i : N) : res sstate :=
  match si_ao (get_info s i) with
  | Some n => p <-r sdeq_move_to_back n (s_prob s); Ok (sset_prob s p)
  | None => Ok s
  end.

Definition s_move_to_back_wo (s : sstate) (i : N) : res sstate :=
  match si_wo (get_info s i) with
  | Some n => w <-r sdeq_move_to_back n (s_wo s); Ok (sset_wo s w)
  | None => Ok s
  end.

(** ---- popularity estimator ---- *)
Definition s_should_enable_sketch (c : scfg) (s : sstate) : bool :=
  if s_skon s then false
  else match sc_cap c with Some max_cap => max_cap / 2 <=? s_ws s | None => false end.

Definition s_enable_sketch (c : scfg) (s : sstate) : sstate :=
  match sc_cap c with
  | Some max_cap =>
    let cap := match sc_wf c with
               | None => max_cap
               | Some _ => weighted_sketch_cap (s_ec s) (s_ws s) max_cap
               end in
    sset_sk s (ensure_capacity (s_sk s) (sketch_capacity cap)) true
  | None => s
  end.

(** ---- applying read ops ---- *)
Definition apply_read (s : sstate) (o : readop) : res sstate :=
  match o with
  | RMiss h => sk <-r increment (s_sk s) h; Ok (sset_sk s sk (s_skon s))
  | RHit h ve ts =>
    sk <-r increment (s_sk s) h;
    let s1 := sset_sk s sk (s_skon s) in
    let i := ve_info s1 ve in
    let s2 := if si_la (get_info s1 i) <? ts then upd_info s1 i (si_set_la ts) else s1 in
    if si_admitted (get_info s2 i) then s_move_to_back_ao s2 i else Ok s2
  end.

Fixpoint apply_reads (s : sstate) (count : nat) : res sstate :=
  match count with
  | O => Ok s
  | S n =>
    match s_rq s with
    | [] => Ok s
    | o :: rest => s1 <-r apply_read (sset_rq s rest) o; apply_reads s1 n
    end
  end.

(** ---- applying write ops ---- *)
Definition s_has_enough_capacity (c : scfg) (w : N) (s : sstate) : res bool :=
  match sc_cap c with
  | Some limit => sum <-r chk_add64 (s_ws s) w; Ok (sum <=? limit)
  | None => Ok true
  end.

(** handle_admit *)
Definition handle_admit (c : scfg) (s : sstate) (k h ve w : N) : res sstate :=
  let i := ve_info s ve in
  ec <-r chk_add64 (s_ec s) 1;
  let s1 := sset_ws (sset_ec s ec) (sat_add64 (s_ws s) w) in
  let n := s_next s1 in
  let s2 := sset_next (sset_prob s1 (s_prob s1 ++ [(n, mkSAo k h i)])) (n + 1) in
  let s3 := upd_info s2 i (si_set_ao (Some n)) in
  let s4 := match sc_ttl c with
            | Some _ => let n2 := s_next s3 in
                        upd_info (sset_next (sset_wo s3 (s_wo s3 ++ [(n2, mkSWo k i)])) (n2 + 1))
                                 i (si_set_wo (Some n2))
            | None => s3
            end in
  Ok (upd_info s4 i (si_set_admitted true)).

(** unlink_ao + unlink_wo of an EntryInfo (take the node pointers) *)
Definition s_unlink_nodes (s : sstate) (i : N) : res sstate :=
  let inf := get_info s i in
  p <-r match si_ao inf with Some n => sdeq_unlink n (s_prob s) | None => Ok (s_prob s) end;
  w <-r match si_wo inf with Some n => sdeq_unlink n (s_wo s) | None => Ok (s_wo s) end;
  Ok (upd_info (sset_wo (sset_prob s p) w) i (fun x => si_set_wo None (si_set_ao None x))).

(** handle_remove / handle_remove_with_deques on the EntryInfo of a ValueEntry *)
Definition handle_remove (s : sstate) (i : N) : res sstate :=
  let inf := get_info s i in
  if si_admitted inf then
    let s1 := upd_info s i (si_set_admitted false) in
    ec <-r chk_sub (s_ec s1) 1;
    let s2 := sset_ws (sset_ec s1 ec) (sat_sub (s_ws s1) (si_weight inf)) in
    s_unlink_nodes s2 i
  else
    Ok (upd_info s i (fun x => si_set_wo None (si_set_ao None x))).   (* unset_q_nodes *)

(** the map holds an entry of info [i] for key [k] *)
Definition map_has_info (s : sstate) (k i : N) : bool :=
  match s_map s !! k with Some ve => ve_info s ve =? i | None => false end.

(** admit (TinyLFU, with skipping of nodes whose key no longer maps to their info).
    Returns (victim node ids, skipped node ids, victims weight, victims freq). *)
Fixpoint s_admit_loop (s : sstate) (l : list (N * saonode)) (cand_w cand_f vw vf retries : N)
         (victims skipped : list N) : res (list N * list N * N * N) :=
  if cand_w <=? vw then Ok (victims, skipped, vw, vf)
  else if cand_f <? vf then Ok (victims, skipped, vw, vf)
  else
    match l with
    | [] => Ok (victims, skipped, vw, vf)
    | (nid, nd) :: rest =>
      if map_has_info s (sa_key nd) (sa_info nd) then
        vw' <-r chk_add64 vw (si_weight (get_info s (sa_info nd)));
        vf' <-r chk_add32 vf (frequency (s_sk s) (sa_hash nd));
        s_admit_loop s rest cand_w cand_f vw' vf' 0 (victims ++ [nid]) skipped
      else
        let retries' := retries + 1 in
        if MAX_CONSECUTIVE_RETRIES <? retries' then Ok (victims, skipped ++ [nid], vw, vf)
        else s_admit_loop s rest cand_w cand_f vw vf retries' victims (skipped ++ [nid])
    end.

Fixpoint s_remove_victims (s : sstate) (victims skipped : list N) : res (sstate * list N) :=
  match victims with
  | [] => Ok (s, skipped)
  | nid :: rest =>
    match find_id nid (s_prob s) with
    | None => Err UseAfterFree
    | Some nd =>
      if map_has_info s (sa_key nd) (sa_info nd) then
        s1 <-r handle_remove (sset_map s (delete (sa_key nd) (s_map s))) (sa_info nd);
        s_remove_victims s1 rest skipped
      else s_remove_victims s rest (skipped ++ [nid])
    end
  end.

Fixpoint s_move_skipped (s : sstate) (skipped : list N) : res sstate :=
  match skipped with
  | [] => Ok s
  | nid :: rest => p <-r sdeq_move_to_back nid (s_prob s); s_move_skipped (sset_prob s p) rest
  end.

(** handle_upsert *)
Definition handle_upsert (c : scfg) (s : sstate) (k h ve old_w new_w : N) : res sstate :=
  let i := ve_info s ve in
  let s := upd_info s i (si_set_dirty false) in
  if si_admitted (get_info s i) then
    (* update of an admitted entry: only the op carrying the value the map holds now sets the weight *)
    let s2 := if (match s_map s !! k with Some v => v =? ve | None => false end)
              then upd_info (sset_ws s (sat_add64 (sat_sub (s_ws s) (si_weight (get_info s i))) new_w))
                            i (si_set_weight new_w)
              else s in
    s3 <-r s_move_to_back_ao s2 i;
    s_move_to_back_wo s3 i
  else if negb (map_has_info s k i) then Ok s            (* stale op: skip *)
  else
    let is_current_entry := match s_map s !! k with Some v => v =? ve | None => false end in
    let remove_candidate (s : sstate) := if is_current_entry then sset_map s (delete k (s_map s)) else s in
    let s := upd_info s i (si_set_weight new_w) in
    free <-r s_has_enough_capacity c new_w s;
    if free then handle_admit c s k h ve new_w
    else if match sc_cap c with Some max => max <? new_w | None => false end then
      Ok (remove_candidate s)
    else
      let cand_f := frequency (s_sk s) h in
      '(victims, skipped, vw, vf) <-r s_admit_loop s (s_prob s) new_w cand_f 0 0 0 [] [];
      if (new_w <=? vw) && (vf <? cand_f) then
        '(s1, skipped1) <-r s_remove_victims s victims skipped;
        s2 <-r handle_admit c s1 k h ve new_w;
        s_move_skipped s2 skipped1
      else
        s_move_skipped (remove_candidate s) skipped.

Definition apply_write (c : scfg) (s : sstate) (o : writeop) : res sstate :=
  match o with
  | WUpsert k h ve ow nw => handle_upsert c s k h ve ow nw
  | WRemove k ve => handle_remove s (ve_info s ve)
  end.

Fixpoint apply_writes (c : scfg) (s : sstate) (count : nat) : res sstate :=
  match count with
  | O => Ok s
  | S n =>
    match s_wq s with
    | [] => Ok s
    | o :: rest => s1 <-r apply_write c (sset_wq s rest) o; apply_writes c s1 n
    end
  end.

(** ---- expiry purge ---- *)

(** try_skip_updated_entry *)
Definition try_skip_updated_entry (s : sstate) (k : N) : res (sstate * bool) :=
  match s_map s !! k with
  | Some ve =>
    let i := ve_info s ve in
    if si_dirty (get_info s i) then
      s1 <-r s_move_to_back_ao s i; s2 <-r s_move_to_back_wo s1 i; Ok (s2, true)
    else Ok (s, false)
  | None => Ok (sset_prob s (move_front_to_back (s_prob s)), true)
  end.

Fixpoint s_remove_expired_wo (c : scfg) (fuel : nat) (s : sstate) (now : N) : res sstate :=
  match fuel with
  | O => Ok s
  | S fuel' =>
    match s_wo s with
    | [] => Ok s
    | (nid, nd) :: _ =>
      if s_expired (sc_ttl c) (s_va s) (si_lm (get_info s (sw_info nd))) now then
        let k := sw_key nd in
        match s_map s !! k with
        | Some ve =>
          let i := ve_info s ve in
          if s_expired (sc_ttl c) (s_va s) (si_lm (get_info s i)) now then
            s1 <-r handle_remove (sset_map s (delete k (s_map s))) i;
            s_remove_expired_wo c fuel' s1 now
          else if si_dirty (get_info s i) then
            s1 <-r s_move_to_back_ao s i; s2 <-r s_move_to_back_wo s1 i;
            s_remove_expired_wo c fuel' s2 now
          else Ok s
        | None => s_remove_expired_wo c fuel' (sset_wo s (move_front_to_back (s_wo s))) now
        end
      else Ok s
    end
  end.

Fixpoint s_remove_expired_ao (c : scfg) (fuel : nat) (s : sstate) (now : N) : res sstate :=
  match fuel with
  | O => Ok s
  | S fuel' =>
    match s_prob s with
    | [] => Ok s
    | (nid, nd) :: _ =>
      if s_expired (sc_tti c) (s_va s) (si_la (get_info s (sa_info nd))) now then
        let k := sa_key nd in
        match s_map s !! k with
        | Some ve =>
          let i := ve_info s ve in
          if s_expired (sc_tti c) (s_va s) (si_la (get_info s i)) now then
            s1 <-r handle_remove (sset_map s (delete k (s_map s))) i;
            s_remove_expired_ao c fuel' s1 now
          else
            '(s1, cont) <-r try_skip_updated_entry s k;
            if cont then s_remove_expired_ao c fuel' s1 now else Ok s1
        | None =>
          '(s1, cont) <-r try_skip_updated_entry s k;
          if cont then s_remove_expired_ao c fuel' s1 now else Ok s1
        end
      else Ok s
    end
  end.

Definition batch_s : nat := N.to_nat S_EVICTION_BATCH_SIZE.

Definition s_evict_expired (c : scfg) (s : sstate) (now : N) : res sstate :=
  s1 <-r match sc_ttl c with Some _ => s_remove_expired_wo c batch_s s now | None => Ok s end;
  match sc_tti c, s_va s1 with
  | None, None => Ok s1
  | _, _ => s_remove_expired_ao c batch_s s1 now
  end.

(** ---- size eviction ---- *)
Fixpoint s_evict_lru_loop (fuel : nat) (s : sstate) (to_evict evicted : N) : res sstate :=
  match fuel with
  | O => Ok s
  | S fuel' =>
    if to_evict <=? evicted then Ok s
    else
      match s_prob s with
      | [] => Ok s
      | (nid, nd) :: _ =>
        let k := sa_key nd in
        let inf := get_info s (sa_info nd) in
        if si_dirty inf then
          '(s1, cont) <-r try_skip_updated_entry s k;
          if cont then s_evict_lru_loop fuel' s1 to_evict evicted else Ok s1
        else
          match s_map s !! k with
          | Some ve =>
            let i := ve_info s ve in
            if si_lm (get_info s i) =? si_lm inf then
              let w := si_weight (get_info s i) in
              s1 <-r handle_remove (sset_map s (delete k (s_map s))) i;
              s_evict_lru_loop fuel' s1 to_evict (sat_add64 evicted w)
            else
              '(s1, cont) <-r try_skip_updated_entry s k;
              if cont then s_evict_lru_loop fuel' s1 to_evict evicted else Ok s1
          | None =>
            '(s1, cont) <-r try_skip_updated_entry s k;
            if cont then s_evict_lru_loop fuel' s1 to_evict evicted else Ok s1
          end
      end
  end.

Definition s_weights_to_evict (c : scfg) (s : sstate) : N :=
  match sc_cap c with Some limit => sat_sub (s_ws s) limit | None => 0 end.

(** ---- Inner::sync ---- *)
Definition flush_r : N := READ_LOG_FLUSH_POINT.
Definition flush_w : N := WRITE_LOG_FLUSH_POINT.
Definition qlen {A} (l : list A) : N := N.of_nat (length l).

Fixpoint sync_rounds (c : scfg) (rounds : nat) (s : sstate) : res sstate :=
  match rounds with
  | O => Ok s
  | S r =>
    s1 <-r apply_reads s (length (s_rq s));
    s2 <-r apply_writes c s1 (length (s_wq s1));
    let s3 := if s_should_enable_sketch c s2 then s_enable_sketch c s2 else s2 in
    if (flush_r <=? qlen (s_rq s3)) || (flush_w <=? qlen (s_wq s3)) then sync_rounds c r s3
    else Ok s3
  end.

Definition s_sync (c : scfg) (s : sstate) (now : N) : res sstate :=
  s1 <-r sync_rounds c (S (N.to_nat MAX_SYNC_REPEATS)) s;
  s2 <-r (if s_has_expiry c || (match s_va s1 with Some _ => true | None => false end)
          then s_evict_expired c s1 now else Ok s1);
  let to_evict := s_weights_to_evict c s2 in
  if 0 <? to_evict then s_evict_lru_loop batch_s s2 to_evict 0 else Ok s2.

(** Housekeeper::should_apply + try_sync (sequential: the CAS always succeeds) *)
Definition hk_maybe_sync (c : scfg) (s : sstate) (len flush now : N) : res sstate :=
  if (flush <=? len) || (now <=? s_sync_after s) then
    s_sync c (sset_sa s (now + sync_interval)) now
  else Ok s.

(** schedule_write_op: maybe-sync, try_send; on a full channel retry (explicit fuel) *)
Fixpoint schedule_write_op (c : scfg) (fuel : nat) (s : sstate) (o : writeop) (now : N) : res sstate :=
  match fuel with
  | O => Err OutOfFuel
  | S f =>
    s1 <-r hk_maybe_sync c s (qlen (s_wq s)) flush_w now;
    if qlen (s_wq s1) <? WRITE_LOG_SIZE then Ok (sset_wq s1 (s_wq s1 ++ [o]))
    else schedule_write_op c f s1 o now
  end.

(** record_read_op: maybe-sync, try_send (dropped when the channel is full) *)
Definition record_read_op (c : scfg) (s : sstate) (o : readop) (now : N) : res sstate :=
  s1 <-r hk_maybe_sync c s (qlen (s_rq s)) flush_r now;
  if qlen (s_rq s1) <? READ_LOG_SIZE then Ok (sset_rq s1 (s_rq s1 ++ [o])) else Ok s1.

(** ---- public operations ---- *)
Definition s_insert (c : scfg) (s : sstate) (now k v : N) : res sstate :=
  let w := sweigh c k v in
  let h := sc_hash c k in
  match s_map s !! k with
  | Some old_ve =>
    (* update: new ValueEntry sharing the EntryInfo *)
    let i := ve_info s old_ve in
    let old_w := si_weight (get_info s i) in
    let s1 := upd_info s i (fun x => si_set_lm now (si_set_la now (si_set_dirty true x))) in
    let ve := s_next s1 in
    let s2 := sset_next (sset_ves s1 (<[ve := mkSV v i]> (s_ves s1))) (ve + 1) in
    let s3 := sset_map s2 (<[k := ve]> (s_map s2)) in
    schedule_write_op c 2 s3 (WUpsert k h ve old_w w) now
  | None =>
    let i := s_next s in
    let ve := i + 1 in
    let s1 := sset_next (sset_infos s (<[i := mkSI k false true now now w None None]> (s_infos s))) (i + 2) in
    let s2 := sset_ves s1 (<[ve := mkSV v i]> (s_ves s1)) in
    let s3 := sset_map s2 (<[k := ve]> (s_map s2)) in
    schedule_write_op c 2 s3 (WUpsert k h ve 0 w) now
  end.

Definition s_get (c : scfg) (s : sstate) (now k : N) : res (sstate * option N) :=
  let h := sc_hash c k in
  match s_map s !! k with
  | None => s1 <-r record_read_op c s (RMiss h) now; Ok (s1, None)
  | Some ve =>
    let e := get_ve s ve in
    if info_expired c s (get_info s (sv_info e)) now then
      s1 <-r record_read_op c s (RMiss h) now; Ok (s1, None)
    else
      s1 <-r record_read_op c s (RHit h ve now) now; Ok (s1, Some (sv_val e))
  end.

Definition s_contains (c : scfg) (s : sstate) (now k : N) : bool :=
  match s_map s !! k with
  | None => false
  | Some ve => negb (info_expired c s (get_info s (ve_info s ve)) now)
  end.

Definition s_iter (c : scfg) (s : sstate) (now : N) : list (N * N) :=
  omap (fun '(k, ve) =>
          let e := get_ve s ve in
          if info_expired c s (get_info s (sv_info e)) now then None else Some (k, sv_val e))
       (map_to_list (s_map s)).

Definition s_invalidate (c : scfg) (s : sstate) (now k : N) : res sstate :=
  match s_map s !! k with
  | Some ve => schedule_write_op c 2 (sset_map s (delete k (s_map s))) (WRemove k ve) now
  | None => Ok s
  end.

Definition s_invalidate_all (s : sstate) (now : N) : sstate := sset_va s (Some now).

Inductive sop :=
| SInsert (k v : N)
| SGet (k : N)
| SContains (k : N)
| SIter
| SInvalidate (k : N)
| SInvalidateAll
| SSync
| SAdvance (d : N).

Inductive sout :=
| SONone
| SOVal (v : option N)
| SOBool (b : bool)
| SOList (l : list (N * N)).

Record srun := mkSRun { sr_state : sstate; sr_now : N }.

Definition sstep (c : scfg) (r : srun) (o : sop) : res (srun * sout) :=
  let s := sr_state r in
  let now := sr_now r in
  match o with
  | SInsert k v => s' <-r s_insert c s now k v; Ok (mkSRun s' now, SONone)
  | SGet k => '(s', v) <-r s_get c s now k; Ok (mkSRun s' now, SOVal v)
  | SContains k => Ok (r, SOBool (s_contains c s now k))
  | SIter => Ok (r, SOList (s_iter c s now))
  | SInvalidate k => s' <-r s_invalidate c s now k; Ok (mkSRun s' now, SONone)
  | SInvalidateAll => Ok (mkSRun (s_invalidate_all s now) now, SONone)
  | SSync => s' <-r s_sync c s now; Ok (mkSRun s' now, SONone)
  | SAdvance d => Ok (mkSRun s (now + d), SONone)
  end.

Fixpoint srun_ops (c : scfg) (r : srun) (ops : list sop) : res (srun * list sout) :=
  match ops with
  | [] => Ok (r, [])
  | o :: rest =>
    '(r1, out) <-r sstep c r o;
    '(r2, outs) <-r srun_ops c r1 rest;
    Ok (r2, out :: outs)
  end.

Definition srun_init : srun := mkSRun s_init 0.

(** Live object accounting (C11): ValueEntries reachable from the map and the queues. *)
Definition live_ves (s : sstate) : list N :=
  let from_map := (map_to_list (s_map s)).*2 in
  let from_rq := omap (fun o => match o with RHit _ ve _ => Some ve | RMiss _ => None end) (s_rq s) in
  let from_wq := (fun o => match o with WUpsert _ _ ve _ _ => ve | WRemove _ ve => ve end) <$> s_wq s in
  remove_dups (from_map ++ from_rq ++ from_wq).
