(** Policy theorems of the concurrent-cache model in its sequential regime
    (TinyLFU admission, LRU victims, capacity after maintenance, no spurious loss),
    on top of the invariant development SInvWrites.v / SInvTop.v. *)
From MM Require Export Sync.SInvTop Sync.SPolicyDefs.

(* ------------------------------------------------------------------ *)
(** * Lists of triples, key deletion *)

Lemma sum_w_cons t l : sum_w (t :: l) = t.1.2 + sum_w l.
Proof. reflexivity. Qed.
Lemma sum_f_cons t l : sum_f (t :: l) = t.2 + sum_f l.
Proof. reflexivity. Qed.

Lemma delete_keys_comm {A} (ks : list N) (k : N) (m : gmap N A) :
  foldr delete (delete k m) ks = delete k (foldr delete m ks).
Proof.
  induction ks as [|a ks IH]; cbn [foldr]; [reflexivity|]. rewrite IH. apply delete_commute.
Qed.

Lemma delete_keys_fmap {A B} (f : A -> B) (ks : list N) (m : gmap N A) :
  f <$> foldr delete m ks = foldr delete (f <$> m) ks.
Proof. induction ks as [|a ks IH]; cbn [foldr]; [reflexivity|]. rewrite fmap_delete, IH. reflexivity. Qed.

Lemma gmap_size_subseteq {A} (m1 m2 : gmap N A) : m1 ⊆ m2 -> (size m1 <= size m2)%nat.
Proof.
  intros H. rewrite <- !(size_dom (D := gset N)). apply subseteq_size. apply subseteq_dom. exact H.
Qed.

Lemma gmap_size_delete_Some {A} (m : gmap N A) k x :
  m !! k = Some x -> (size (delete k m) + 1 = size m)%nat.
Proof.
  intros Hm. rewrite <- (insert_delete m k x Hm) at 2.
  rewrite map_size_insert_None by apply lookup_delete. lia.
Qed.

Lemma shortest_prefix_0 l : shortest_prefix l 0 = Some [].
Proof. destruct l; reflexivity. Qed.

Lemma shortest_prefix_spec l : forall need p,
  shortest_prefix l need = Some p -> p = take (length p) l /\ need <= sum_w p.
Proof.
  induction l as [|t l IH]; intros need p; cbn [shortest_prefix];
    destruct (N.eqb_spec need 0) as [->|Hne].
  - intros [= <-]. split; [reflexivity|]. cbn. lia.
  - discriminate.
  - intros [= <-]. split; [reflexivity|]. cbn. lia.
  - destruct (shortest_prefix l (need - t.1.2)) as [q|] eqn:E; [|discriminate]. intros [= <-].
    destruct (IH _ _ E) as [Hq Hw]. cbn [length take]. rewrite <- Hq. split; [reflexivity|].
    rewrite sum_w_cons. lia.
Qed.

(* ------------------------------------------------------------------ *)
(** * Views of a state *)

Definition keys_of (l : list (N * saonode)) : list N := sa_key <$> l.*2.

Definition tr_of (s : sstate) (nd : saonode) : N * N * N :=
  (sa_key nd, si_weight (get_info s (sa_info nd)), frequency (s_sk s) (sa_hash nd)).

Definition triples_of (s : sstate) (l : list (N * saonode)) : list (N * N * N) :=
  tr_of s <$> l.*2.

Lemma s_lru_keys_eq s : s_lru_keys s = keys_of (s_prob s).
Proof. reflexivity. Qed.
Lemma s_lru_triples_eq s : s_lru_triples s = triples_of s (s_prob s).
Proof. reflexivity. Qed.

Lemma keys_of_cons n nd l : keys_of ((n, nd) :: l) = sa_key nd :: keys_of l.
Proof. reflexivity. Qed.
Lemma triples_of_cons s n nd l : triples_of s ((n, nd) :: l) = tr_of s nd :: triples_of s l.
Proof. reflexivity. Qed.
Lemma keys_of_app l k : keys_of (l ++ k) = keys_of l ++ keys_of k.
Proof. unfold keys_of. rewrite !fmap_app. reflexivity. Qed.
Lemma keys_of_take n l : keys_of (take n l) = take n (keys_of l).
Proof. unfold keys_of. rewrite !fmap_take. reflexivity. Qed.
Lemma keys_of_drop n l : keys_of (drop n l) = drop n (keys_of l).
Proof. unfold keys_of. rewrite !fmap_drop. reflexivity. Qed.
Lemma keys_of_length l : length (keys_of l) = length l.
Proof. unfold keys_of. rewrite !fmap_length. reflexivity. Qed.
Lemma triples_of_length s l : length (triples_of s l) = length l.
Proof. unfold triples_of. rewrite !fmap_length. reflexivity. Qed.
Lemma triples_of_take s n l : triples_of s (take n l) = take n (triples_of s l).
Proof. unfold triples_of. rewrite !fmap_take. reflexivity. Qed.
Lemma triples_of_drop s n l : triples_of s (drop n l) = drop n (triples_of s l).
Proof. unfold triples_of. rewrite !fmap_drop. reflexivity. Qed.
Lemma triples_keys s l : (triples_of s l).*1.*1 = keys_of l.
Proof.
  unfold triples_of, keys_of. rewrite <- !list_fmap_compose. reflexivity.
Qed.

Lemma triples_of_ext s s' l :
  s_sk s' = s_sk s ->
  (forall n nd, (n, nd) ∈ l -> get_info s' (sa_info nd) = get_info s (sa_info nd)) ->
  triples_of s' l = triples_of s l.
Proof.
  intros Hsk Hl. induction l as [|[n nd] l IH]; [reflexivity|].
  rewrite !triples_of_cons. f_equal.
  - unfold tr_of. rewrite Hsk, (Hl n nd) by left. reflexivity.
  - apply IH. intros n' nd' Hin. apply (Hl n' nd'). right. exact Hin.
Qed.

Definition val_of (s : sstate) (ve : N) : N := sv_val (get_ve s ve).

Lemma s_view_eq s : s_view s = val_of s <$> s_map s.
Proof. reflexivity. Qed.

Lemma s_view_ext s s' m :
  s_ves s' = s_ves s -> s_map s' = m -> s_view s' = val_of s <$> m.
Proof.
  intros Hv <-. rewrite s_view_eq. apply map_fmap_ext. intros k ve _.
  unfold val_of. rewrite (get_ve_ext s s') by exact Hv. reflexivity.
Qed.

(* ------------------------------------------------------------------ *)
(** * States whose logical write queue holds no removal: every access-order node is
      the node of the map entry of its key *)

Definition no_removes (q : list writeop) : Prop := forall k ve, WRemove k ve ∉ q.

Lemma no_removes_nil : no_removes [].
Proof. intros k ve Hin. apply elem_of_nil in Hin. exact Hin. Qed.

Lemma no_removes_upsert k h ve ow nw : no_removes [WUpsert k h ve ow nw].
Proof.
  intros k' ve' Hin. apply elem_of_list_singleton in Hin. discriminate.
Qed.

Lemma node_clean c q s n nd :
  SInvG c q s -> no_removes q -> (n, nd) ∈ s_prob s ->
  exists x ve, s_infos s !! sa_info nd = Some x /\ si_ao x = Some n /\ si_admitted x = true /\
    si_key x = sa_key nd /\ s_map s !! sa_key nd = Some ve /\ ve_info s ve = sa_info nd.
Proof.
  intros H Hq Hin. destruct (gn_ao_info _ _ _ H _ _ Hin) as (x & Hx & Hao & Hk & _).
  assert (Ha : si_admitted x = true).
  { apply (gn_admitted _ _ _ H _ _ Hx). rewrite Hao. eauto. }
  destruct (gg_no_ghost _ _ _ H _ _ Hx Ha) as [Hm|(k0 & ve0 & Hin0 & _)].
  - rewrite <- Hk in Hm. apply map_has_info_true in Hm as (ve & Hm & Hve). exists x, ve.
    repeat split; try assumption. symmetry. assumption.
  - destruct (Hq _ _ Hin0).
Qed.

Lemma node_clean_mhi c q s n nd :
  SInvG c q s -> no_removes q -> (n, nd) ∈ s_prob s ->
  map_has_info s (sa_key nd) (sa_info nd) = true.
Proof.
  intros H Hq Hin. destruct (node_clean _ _ _ _ _ H Hq Hin) as (x & ve & _ & _ & _ & _ & Hm & Hve).
  apply map_has_info_true. eauto.
Qed.

(** removal of the front node of the access-order deque together with its map entry *)
Record front_step (s s1 : sstate) (nid : N) (nd : saonode) (x : sinfo) : Prop := mkFS {
  fs_prob : s_prob s = (nid, nd) :: s_prob s1;
  fs_info : s_infos s !! sa_info nd = Some x;
  fs_adm : si_admitted x = true;
  fs_mapin : exists ve, s_map s !! sa_key nd = Some ve /\ ve_info s ve = sa_info nd;
  fs_map : s_map s1 = delete (sa_key nd) (s_map s);
  fs_ves : s_ves s1 = s_ves s;
  fs_wo : sublist (s_wo s1) (s_wo s);
  fs_wq : s_wq s1 = s_wq s;
  fs_rq : s_rq s1 = s_rq s;
  fs_va : s_va s1 = s_va s;
  fs_sk : s_sk s1 = s_sk s;
  fs_skon : s_skon s1 = s_skon s;
  fs_sa : s_sync_after s1 = s_sync_after s;
  fs_next : s_next s1 = s_next s;
  fs_ws : s_ws s1 + si_weight x = s_ws s;
  fs_infos : forall j, j <> sa_info nd -> s_infos s1 !! j = s_infos s !! j;
  fs_triples : s_lru_triples s = tr_of s nd :: s_lru_triples s1
}.

Lemma front_remove c q s nid nd rest :
  SInvG c q s -> no_removes q -> s_prob s = (nid, nd) :: rest ->
  exists x s1,
    handle_remove (sset_map s (delete (sa_key nd) (s_map s))) (sa_info nd) = Ok s1 /\
    SInvG c q s1 /\ front_step s s1 nid nd x.
Proof.
  intros H Hq Hp.
  assert (Hin : (nid, nd) ∈ s_prob s) by (rewrite Hp; left).
  destruct (node_clean _ _ _ _ _ H Hq Hin) as (x & ve & Hx & Hao & Ha & Hk & Hm & Hve).
  destruct (handle_remove_map_G _ _ _ _ _ H Hm)
    as (s1 & x0 & Hi & Hr & H1 & E1 & E2 & E3 & E4 & E5 & E6 & E7 & E8 & E9 & E10 & _ & Ep & Ew & Hadm).
  rewrite Hve in *. replace x0 with x in * by congruence. clear Hi.
  destruct (Hadm Ha) as (_ & Hws & _).
  rewrite Hao, Hp in Ep. cbn [remove_id] in Ep. rewrite N.eqb_refl in Ep.
  exists x, s1. split; [exact Hr|]. split; [exact H1|].
  constructor; try assumption.
  - rewrite Ep. exact Hp.
  - eauto.
  - rewrite Ew. destruct (si_wo x); [apply remove_id_sublist|reflexivity].
  - rewrite !s_lru_triples_eq, Hp, Ep, triples_of_cons. f_equal.
    symmetry. apply triples_of_ext; [exact E6|].
    intros n' nd' Hin'. unfold get_info. rewrite E10; [reflexivity|].
    intros Heq.
    assert (Hin2 : (n', nd') ∈ s_prob s) by (rewrite Hp; right; exact Hin').
    destruct (node_clean _ _ _ _ _ H Hq Hin2) as (x' & _ & Hx' & Hao' & _).
    rewrite Heq in Hx'. assert (n' = nid) by congruence. subst n'.
    pose proof (gn_nodup_ao _ _ _ H) as Hnd. rewrite Hp in Hnd. cbn [fmap list_fmap fst] in Hnd.
    apply NoDup_cons in Hnd as [Hnot _]. apply Hnot.
    apply elem_of_list_fmap. exists (nid, nd'). split; [reflexivity|exact Hin'].
Qed.

(** [lru_cut n s s']: [s'] is [s] with its [n] least recently used entries evicted *)
Record lru_cut (n : nat) (s s' : sstate) : Prop := mkLC {
  lc_prob : s_prob s' = drop n (s_prob s);
  lc_map : s_map s' = delete_keys (take n (s_lru_keys s)) (s_map s);
  lc_ves : s_ves s' = s_ves s;
  lc_wo : sublist (s_wo s') (s_wo s);
  lc_wq : s_wq s' = s_wq s;
  lc_rq : s_rq s' = s_rq s;
  lc_va : s_va s' = s_va s;
  lc_sk : s_sk s' = s_sk s;
  lc_skon : s_skon s' = s_skon s;
  lc_sa : s_sync_after s' = s_sync_after s;
  lc_next : s_next s' = s_next s;
  lc_ws : s_ws s' + sum_w (take n (s_lru_triples s)) = s_ws s;
  lc_triples : s_lru_triples s' = drop n (s_lru_triples s);
  lc_size : (size (s_map s') + n = size (s_map s))%nat;
  lc_le : (n <= length (s_prob s))%nat;
  lc_infos : forall j y, s_infos s !! j = Some y -> si_admitted y = false -> s_infos s' !! j = Some y;
  lc_keep : forall k ve y, s_map s !! k = Some ve -> s_infos s !! ve_info s ve = Some y ->
              si_admitted y = false -> s_map s' !! k = Some ve
}.

Lemma lru_cut_0 s : lru_cut 0 s s.
Proof.
  constructor; try reflexivity; auto.
  - rewrite take_0. unfold sum_w. cbn [foldr]. lia.
  - lia.
Qed.

Lemma lru_cut_S n s s1 s' nid nd x :
  front_step s s1 nid nd x -> lru_cut n s1 s' -> lru_cut (S n) s s'.
Proof.
  intros F C. destruct F, C.
  destruct fs_mapin0 as (ve0 & Hm0 & Hve0).
  assert (Hkeys : s_lru_keys s = sa_key nd :: s_lru_keys s1).
  { rewrite !s_lru_keys_eq, fs_prob0. reflexivity. }
  assert (Hgx : get_info s (sa_info nd) = x) by (apply get_info_Some; assumption).
  constructor; try congruence.
  - rewrite fs_prob0. cbn [drop]. assumption.
  - rewrite Hkeys. cbn [take]. unfold delete_keys in *. cbn [foldr].
    rewrite lc_map0, fs_map0. apply delete_keys_comm.
  - etransitivity; eassumption.
  - rewrite fs_triples0. cbn [take]. rewrite sum_w_cons. unfold tr_of at 1. cbn [fst snd].
    rewrite Hgx. lia.
  - rewrite fs_triples0. cbn [drop]. assumption.
  - pose proof (gmap_size_delete_Some _ _ _ Hm0) as Hs. rewrite <- fs_map0 in Hs. lia.
  - rewrite fs_prob0. cbn [length]. lia.
  - intros j y Hj Hy. apply lc_infos0; [|exact Hy]. rewrite fs_infos0; [exact Hj|].
    intros ->. congruence.
  - intros k ve y Hm Hy Hna.
    assert (Hne : ve_info s ve <> sa_info nd) by (intros Heq; rewrite Heq in Hy; congruence).
    apply (lc_keep0 k ve y); [| |exact Hna].
    + rewrite fs_map0. rewrite lookup_delete_ne; [exact Hm|]. intros <-. congruence.
    + rewrite (ve_info_ext s s1) by assumption. rewrite fs_infos0; assumption.
Qed.

(* ------------------------------------------------------------------ *)
(** * TinyLFU: when no node is stale, the scan of [s_admit_loop] computes [tinylfu_victims] *)

Lemma s_admit_loop_clean s : forall l cw cf vw vf r victims skipped res,
  (forall n nd, (n, nd) ∈ l -> map_has_info s (sa_key nd) (sa_info nd) = true) ->
  s_admit_loop s l cw cf vw vf r victims skipped = Ok res ->
  res.1.1.2 = skipped /\
  match shortest_prefix (triples_of s l) (cw - vw) with
  | Some p => if vf + sum_f p <? cf
              then res = (victims ++ (take (length p) l).*1, skipped, vw + sum_w p, vf + sum_f p)
              else (cw <=? res.1.2) && (res.2 <? cf) = false
  | None => (cw <=? res.1.2) && (res.2 <? cf) = false
  end.
Proof.
  assert (Hstop : forall (l : list (N * saonode)) T cw cf vw vf (victims skipped : list N),
    (cw <= vw \/ cf < vf \/ T = []) ->
    (victims, skipped, vw, vf).1.1.2 = skipped /\
    match shortest_prefix T (cw - vw) with
    | Some p => if vf + sum_f p <? cf
                then (victims, skipped, vw, vf) =
                     (victims ++ (take (length p) l).*1, skipped, vw + sum_w p, vf + sum_f p)
                else (cw <=? (victims, skipped, vw, vf).1.2) && ((victims, skipped, vw, vf).2 <? cf) = false
    | None => (cw <=? (victims, skipped, vw, vf).1.2) && ((victims, skipped, vw, vf).2 <? cf) = false
    end).
  { intros l T cw cf vw vf victims skipped Hor. cbn [fst snd]. split; [reflexivity|].
    destruct (N.leb_spec cw vw) as [Hle|Hlt].
    - replace (cw - vw) with 0 by lia. rewrite shortest_prefix_0. cbn [sum_f sum_w foldr length].
      rewrite take_0, !N.add_0_r. destruct (vf <? cf); [|reflexivity].
      cbn [fmap list_fmap]. rewrite app_nil_r. reflexivity.
    - destruct Hor as [?|[Hcf| ->]]; [lia| |].
      + destruct (shortest_prefix T (cw - vw)) as [p|]; [|reflexivity].
        destruct (N.ltb_spec (vf + sum_f p) cf); [lia|].
        cbn [andb]. reflexivity.
      + cbn [shortest_prefix]. destruct (N.eqb_spec (cw - vw) 0); [lia|reflexivity]. }
  induction l as [|[nid nd] l IH]; intros cw cf vw vf r victims skipped res Hl; cbn [s_admit_loop].
  - intros H. assert (res = (victims, skipped, vw, vf)) as ->.
    { destruct (cw <=? vw); [|destruct (cf <? vf)]; congruence. }
    apply (Hstop []). right. right. reflexivity.
  - destruct (N.leb_spec cw vw) as [Hle|Hlt].
    { intros [= <-]. apply (Hstop ((nid, nd) :: l)). left. exact Hle. }
    destruct (N.ltb_spec cf vf) as [Hlt2|Hle2].
    { intros [= <-]. apply (Hstop ((nid, nd) :: l)). right. left. exact Hlt2. }
    rewrite (Hl nid nd) by left.
    unfold chk_add64 at 1. destruct (_ <? two64); cbn [rbind]; [|discriminate].
    unfold chk_add32 at 1. destruct (_ <? two32); cbn [rbind]; [|discriminate].
    intros H. apply IH in H; [|intros n' nd' Hin; apply (Hl n' nd'); right; exact Hin].
    destruct H as [Hsk H]. split; [exact Hsk|].
    rewrite triples_of_cons. cbn [shortest_prefix].
    destruct (N.eqb_spec (cw - vw) 0) as [?|_]; [lia|].
    assert (Htw : (tr_of s nd).1.2 = si_weight (get_info s (sa_info nd))) by reflexivity.
    assert (Htf : (tr_of s nd).2 = frequency (s_sk s) (sa_hash nd)) by reflexivity.
    rewrite Htw. rewrite N.sub_add_distr in H.
    destruct (shortest_prefix _ (cw - vw - si_weight (get_info s (sa_info nd)))) as [p|]; [|exact H].
    rewrite sum_f_cons, sum_w_cons, Htw, Htf, !N.add_assoc. cbn [length take].
    destruct (_ <? cf); [|exact H].
    rewrite H, fmap_cons, <- app_assoc. reflexivity.
Qed.

(** removing a prefix of the deque as victims *)
Lemma s_remove_victims_exact c q : forall n s skipped res,
  SInvG c q s -> no_removes q -> (n <= length (s_prob s))%nat ->
  s_remove_victims s (take n (s_prob s)).*1 skipped = Ok res ->
  exists s', res = (s', skipped) /\ SInvG c q s' /\ lru_cut n s s'.
Proof.
  induction n as [|n IH]; intros s skipped res H Hq Hn.
  - rewrite take_0. cbn [fmap list_fmap s_remove_victims]. intros [= <-].
    exists s. split; [reflexivity|]. split; [exact H|apply lru_cut_0].
  - destruct (s_prob s) as [|[nid nd] rest] eqn:Hp; [cbn [length] in Hn; lia|].
    cbn [take fmap list_fmap fst s_remove_victims]. rewrite Hp. cbn [find_id]. rewrite N.eqb_refl.
    assert (Hin : (nid, nd) ∈ s_prob s) by (rewrite Hp; left).
    rewrite (node_clean_mhi _ _ _ _ _ H Hq Hin).
    destruct (front_remove _ _ _ _ _ _ H Hq Hp) as (x & s1 & -> & H1 & F). cbn [rbind].
    assert (Hrest : s_prob s1 = rest) by (pose proof (fs_prob _ _ _ _ _ F); congruence).
    rewrite <- Hrest. intros E. apply IH in E; [|exact H1|exact Hq|rewrite Hrest; cbn [length] in Hn; lia].
    destruct E as (s' & -> & H' & C). exists s'. split; [reflexivity|]. split; [exact H'|].
    eapply lru_cut_S; eassumption.
Qed.

(* ------------------------------------------------------------------ *)
(** * The size-eviction loop on a state with nothing queued *)

Lemma no_dirty c s i x : SInvG c [] s -> s_infos s !! i = Some x -> si_dirty x = false.
Proof.
  intros H Hx. destruct (si_dirty x) eqn:E; [|reflexivity].
  destruct (gd_dirty _ _ _ H _ _ Hx E) as (k & h & ve & ow & nw & Hin & _).
  apply elem_of_nil in Hin. destruct Hin.
Qed.

Lemma s_evict_lru_loop_exact c : forall fuel s te ev s',
  SInvG c [] s -> ev + N.of_nat fuel * two32 <= u64_max ->
  s_evict_lru_loop fuel s te ev = Ok s' ->
  exists n, (n <= fuel)%nat /\ SInvG c [] s' /\ lru_cut n s s' /\
    (n = 0%nat \/ ev + sum_w (take (n - 1) (s_lru_triples s)) < te) /\
    (te <= ev + sum_w (take n (s_lru_triples s)) \/ n = fuel \/ n = length (s_prob s)).
Proof.
  induction fuel as [|fuel IH]; intros s te ev s' H Hb; cbn [s_evict_lru_loop].
  - intros [= <-]. exists 0%nat. split; [lia|]. split; [exact H|]. split; [apply lru_cut_0|].
    split; [left; reflexivity|]. right. left. reflexivity.
  - destruct (N.leb_spec te ev) as [Hle|Hlt].
    { intros [= <-]. exists 0%nat. split; [lia|]. split; [exact H|]. split; [apply lru_cut_0|].
      split; [left; reflexivity|]. left. rewrite take_0. unfold sum_w. cbn [foldr]. lia. }
    destruct (s_prob s) as [|[nid nd] rest] eqn:Hp.
    { intros [= <-]. exists 0%nat. split; [lia|]. split; [exact H|]. split; [apply lru_cut_0|].
      split; [left; reflexivity|]. right. right. reflexivity. }
    cbv zeta.
    destruct (front_remove _ _ _ _ _ _ H no_removes_nil Hp) as (x & s1 & Hr & H1 & F).
    pose proof (fs_info _ _ _ _ _ F) as Hx.
    assert (Hgx : get_info s (sa_info nd) = x) by (apply get_info_Some; exact Hx).
    rewrite Hgx, (no_dirty _ _ _ _ H Hx).
    destruct (fs_mapin _ _ _ _ _ F) as (ve & Hm & Hve).
    rewrite Hm, Hve, Hgx, N.eqb_refl, Hr. cbn [rbind].
    pose proof (ga_weight_lt _ _ _ H _ _ Hx) as Hw.
    rewrite Nat2N.inj_succ in Hb.
    assert (Hsat : sat_add64 ev (si_weight x) = ev + si_weight x).
    { unfold sat_add64. apply N.min_l. unfold two32, u64_max in *. lia. }
    rewrite Hsat. intros E.
    apply IH in E; [|exact H1|unfold two32, u64_max in *; lia].
    destruct E as (n & Hn & H' & C & A1 & A2).
    pose proof (fs_triples _ _ _ _ _ F) as Ht.
    assert (Htw : (tr_of s nd).1.2 = si_weight x) by (unfold tr_of; cbn [fst snd]; rewrite Hgx; reflexivity).
    assert (Hrest : s_prob s1 = rest) by (pose proof (fs_prob _ _ _ _ _ F); congruence).
    exists (S n). split; [lia|]. split; [exact H'|]. split; [eapply lru_cut_S; eassumption|].
    split.
    + right. replace (S n - 1)%nat with n by lia. rewrite Ht.
      destruct n as [|m].
      * rewrite take_0. unfold sum_w. cbn [foldr]. lia.
      * cbn [take]. rewrite sum_w_cons, Htw. destruct A1 as [?|A1]; [lia|].
        replace (S m - 1)%nat with m in A1 by lia. lia.
    + rewrite Ht. cbn [take length]. rewrite sum_w_cons, Htw.
      destruct A2 as [A2|[A2|A2]]; [left; lia|right; left; lia|right; right].
      rewrite A2, Hrest. reflexivity.
Qed.

Lemma SInv_quiescent_G c s : SInv c s -> quiescent s -> SInvG c [] s.
Proof. intros H [_ Hwq]. apply SInvQ_G in H as [HG _]. rewrite Hwq in HG. exact HG. Qed.

Lemma batch_bound : 0 + N.of_nat batch_s * two32 <= u64_max.
Proof. vm_compute. discriminate. Qed.

Lemma lru_cut_view n s s' :
  lru_cut n s s' -> s_view s' = delete_keys (take n (s_lru_keys s)) (s_view s).
Proof.
  intros C. rewrite (s_view_ext s s' _ (lc_ves _ _ _ C) (lc_map _ _ _ C)).
  unfold delete_keys. rewrite delete_keys_fmap. reflexivity.
Qed.

Lemma lru_cut_keys n s s' : lru_cut n s s' -> s_lru_keys s' = drop n (s_lru_keys s).
Proof. intros C. rewrite !s_lru_keys_eq, (lc_prob _ _ _ C). apply keys_of_drop. Qed.

Lemma s_evict_lru_prefix_gen c s to_evict s' :
  SInvG c [] s -> s_evict_lru_loop batch_s s to_evict 0 = Ok s' ->
  exists n, SInvG c [] s' /\ lru_cut n s s' /\
            (n = 0%nat \/ sum_w (take (n - 1) (s_lru_triples s)) < to_evict) /\
            (to_evict <= sum_w (take n (s_lru_triples s)) \/ n = batch_s \/ n = length (s_prob s)).
Proof.
  intros H E.
  destruct (s_evict_lru_loop_exact c batch_s s to_evict 0 s' H batch_bound E)
    as (n & Hn & H' & C & A1 & A2).
  rewrite !N.add_0_l in A1, A2. exists n. auto.
Qed.

(* ------------------------------------------------------------------ *)
(** * The maintenance step on a pending fresh insert *)

Lemma handle_admit_ws c s k h ve w s' :
  handle_admit c s k h ve w = Ok s' -> s_ws s' = sat_add64 (s_ws s) w.
Proof.
  unfold handle_admit. destruct (chk_add64 (s_ec s) 1) as [ec|]; cbn [rbind]; [|discriminate].
  intros [= <-]. destruct (sc_ttl c); reflexivity.
Qed.

Definition admitted_as (s s' : sstate) (k w : N) (n : nat) : Prop :=
  s_view s' = delete_keys (take n (s_lru_keys s)) (s_view s) /\
  s_lru_keys s' = drop n (s_lru_keys s) ++ [k] /\
  s_ws s' + sum_w (take n (s_lru_triples s)) = s_ws s + w.

Definition rejected_as (s s' : sstate) (k : N) : Prop :=
  s_view s' = delete k (s_view s) /\ s_prob s' = s_prob s /\ s_wo s' = s_wo s /\ s_ws s' = s_ws s.

Lemma admit_after_cut c q t s1 n k ve w i x' s2 :
  SInvG c q s1 -> lru_cut n t s1 ->
  s_map t !! k = Some ve -> ve_info t ve = i -> s_infos t !! i = Some x' -> si_admitted x' = false ->
  si_key x' = k -> si_weight x' = w -> s_next t + 2 < 2 ^ 32 -> s_ws t + w <= u64_max ->
  handle_admit c s1 k (sc_hash c k) ve w = Ok s2 ->
  admitted_as t s2 k w n.
Proof.
  intros H1 C Hm Hve Hi Hna Hk Hw Hn Hb E.
  assert (Hm1 : s_map s1 !! k = Some ve).
  { apply (lc_keep _ _ _ C k ve x'); [exact Hm|rewrite Hve; exact Hi|exact Hna]. }
  assert (Hi1 : s_infos s1 !! i = Some x') by (apply (lc_infos _ _ _ C); assumption).
  assert (Hve1 : ve_info s1 ve = i) by (rewrite (ve_info_ext t s1); [exact Hve|apply (lc_ves _ _ _ C)]).
  destruct (handle_admit_G c q s1 k (sc_hash c k) ve w i x' H1 Hve1 Hi1 Hna)
    as (s2' & E' & _ & A1 & A2 & _ & _ & _ & _ & _ & _ & _ & A10 & _).
  - apply map_has_info_true. eauto.
  - symmetry; exact Hk.
  - reflexivity.
  - symmetry; exact Hw.
  - rewrite (lc_next _ _ _ C). exact Hn.
  - rewrite E in E'. injection E' as <-.
    pose proof (handle_admit_ws _ _ _ _ _ _ _ E) as Hws.
    pose proof (lc_ws _ _ _ C) as Hws1.
    assert (Hsat : sat_add64 (s_ws s1) w = s_ws s1 + w) by (unfold sat_add64; apply N.min_l; lia).
    rewrite Hsat in Hws.
    split; [|split].
    + rewrite (s_view_ext s1 s2 _ A2 A1), <- s_view_eq. apply lru_cut_view. exact C.
    + rewrite (s_lru_keys_eq s2), A10, keys_of_app, <- s_lru_keys_eq, (lru_cut_keys _ _ _ C). reflexivity.
    + lia.
Qed.

Definition pending_outcome (c : scfg) (s s' : sstate) (k w : N) : Prop :=
  match sc_cap c with
  | None => admitted_as s s' k w 0
  | Some cap =>
    if s_ws s + w <=? cap then admitted_as s s' k w 0
    else if cap <? w then rejected_as s s' k
    else match tinylfu_victims (s_lru_triples s) w (frequency (s_sk s) (sc_hash c k)) with
         | Some p => admitted_as s s' k w (length p)
         | None => rejected_as s s' k
         end
  end.

Lemma handle_upsert_pending c s k ve w s' :
  scfg_ok c -> SInvG c [WUpsert k (sc_hash c k) ve 0 w] s -> s_next s < 2 ^ 31 ->
  s_map s !! k = Some ve -> si_admitted (get_info s (ve_info s ve)) = false ->
  handle_upsert c s k (sc_hash c k) ve 0 w = Ok s' ->
  pending_outcome c s s' k w.
Proof.
  intros Hc H Hnext Hm Hna.
  destruct (upsert_head_facts _ _ _ _ _ _ _ _ Hc H) as (x & Hi & Hkx & _ & Hnw & Hnwlt & HW).
  pose proof H as H0. destG H0.
  set (i := ve_info s ve) in *.
  assert (Hg0 : get_info s i = x) by (apply get_info_Some; exact Hi).
  rewrite Hg0 in Hna.
  rewrite admitted_infos_adm in Gec, Gws.
  pose proof (adm_weight_bound _ _ Ginfos Gwlt) as Hb2.
  destruct (adm_split _ _ _ Hi) as [Hsz Hwt].
  unfold cnt_of, wt_of in Hsz, Hwt. rewrite Hna in Hsz, Hwt.
  unfold handle_upsert. cbv zeta. cbv beta. fold i.
  set (sd := upd_info s i (si_set_dirty false)).
  assert (Hgd : get_info sd i = si_set_dirty false x).
  { subst sd. rewrite get_info_upd_same, Hg0. reflexivity. }
  rewrite !Hgd. cbn [si_set_dirty si_admitted si_weight]. rewrite Hna.
  change (map_has_info sd k i) with (map_has_info s k i).
  assert (Emh : map_has_info s k i = true).
  { apply map_has_info_true. exists ve. split; [exact Hm|reflexivity]. }
  rewrite Emh. cbn [negb].
  change (s_map sd !! k) with (s_map s !! k). rewrite Hm, N.eqb_refl. cbv iota.
  assert (Hinfd : s_infos sd = <[i := si_set_dirty false x]> (s_infos s)).
  { subst sd. rewrite s_infos_upd_info, Hg0. reflexivity. }
  set (x' := si_set_weight w (si_set_dirty false x)).
  set (t := upd_info sd i (si_set_weight w)).
  assert (Hinft : s_infos t = <[i := x']> (s_infos s)).
  { subst t. rewrite s_infos_upd_info, Hgd, Hinfd, insert_insert. reflexivity. }
  assert (Hft : s_map t = s_map s /\ s_ves t = s_ves s /\ s_prob t = s_prob s /\ s_wo t = s_wo s /\
    s_rq t = s_rq s /\ s_wq t = s_wq s /\ s_ec t = s_ec s /\ s_va t = s_va s /\
    s_sk t = s_sk s /\ s_skon t = s_skon s /\ s_sync_after t = s_sync_after s /\
    s_next t = s_next s /\ s_ws t = s_ws s) by (repeat split).
  clearbody t. clear sd Hgd Hinfd.
  destruct Hft as (F1 & F2 & F3 & F4 & F5 & F6 & F7 & F8 & F9 & F10 & F11 & F12 & F13).
  assert (Ht : SInvG c [WUpsert k (sc_hash c k) ve 0 w] t).
  { eapply G_upd with (i:=i) (x:=x) (x':=x'); try exact H; try eassumption; try reflexivity.
    - subst x'. cbn. discriminate.
    - unfold wt_of. subst x'. cbn. rewrite Hna, F13. reflexivity.
    - intros k' ve_m' Hm' Hve'. apply (HW _ _ Hm' Hve'). }
  assert (Hit : s_infos t !! i = Some x') by (rewrite Hinft; apply lookup_insert).
  assert (Hmt : s_map t !! k = Some ve) by (rewrite F1; exact Hm).
  assert (Hvet : ve_info t ve = i) by (apply ve_info_ext; exact F2).
  assert (Hq : no_removes [WUpsert k (sc_hash c k) ve 0 w]) by apply no_removes_upsert.
  assert (Hviewt : s_view t = s_view s).
  { rewrite (s_view_ext s t _ F2 F1). reflexivity. }
  assert (Hkeyst : s_lru_keys t = s_lru_keys s) by (rewrite !s_lru_keys_eq, F3; reflexivity).
  assert (Htrt : s_lru_triples t = s_lru_triples s).
  { rewrite !s_lru_triples_eq, F3. apply triples_of_ext; [exact F9|].
    intros n nd Hin. unfold get_info. rewrite Hinft, lookup_insert_ne; [reflexivity|].
    intros Heq. destruct (Gaoi _ _ Hin) as (y & Hy & Hao & _). rewrite <- Heq in Hy.
    assert (y = x) by congruence. subst y.
    destruct (Gadm _ _ Hi) as [[_ Hx] _]. rewrite Hna in Hx. discriminate Hx. eauto. }
  assert (Hnt : s_next t + 2 < 2 ^ 32) by (rewrite F12; lia).
  assert (Hadm0 : forall s2, s_ws s + w <= u64_max ->
            handle_admit c t k (sc_hash c k) ve w = Ok s2 -> admitted_as s s2 k w 0).
  { intros s2 Hb E.
    pose proof (admit_after_cut c _ t t 0 k ve w i x' s2 Ht (lru_cut_0 t) Hmt Hvet Hit Hna Hkx eq_refl Hnt) as A.
    rewrite F13 in A. specialize (A Hb E). unfold admitted_as in *.
    rewrite Hviewt, Hkeyst, Htrt, F13 in A. exact A. }
  assert (Hrej : rejected_as s (sset_map t (delete k (s_map t))) k).
  { unfold rejected_as. sprojg. split; [|auto].
    rewrite (s_view_ext s (sset_map t (delete k (s_map t))) (delete k (s_map s))); [|exact F2|sprojg; rewrite F1; reflexivity].
    rewrite fmap_delete. reflexivity. }
  unfold pending_outcome, s_has_enough_capacity.
  destruct (sc_cap c) as [cap|] eqn:Ecap.
  2:{ cbn [rbind]. intros E. apply Hadm0; [|exact E]. rewrite Gws. unfold two32, u64_max in *. lia. }
  unfold chk_add64. rewrite F13. destruct (s_ws s + w <? two64) eqn:E64; cbn [rbind]; [|discriminate].
  apply N.ltb_lt in E64.
  destruct (s_ws s + w <=? cap) eqn:Efit.
  { intros E. apply Hadm0; [unfold two64, u64_max in *; lia|exact E]. }
  destruct (cap <? w) eqn:Ebig.
  { intros [= <-]. exact Hrej. }
  destruct (s_admit_loop t (s_prob t) w (frequency (s_sk t) (sc_hash c k)) 0 0 0 [] [])
    as [[[[vs sk] vw] vf]|e] eqn:El; cbn [rbind]; [|discriminate].
  apply s_admit_loop_clean in El; [|intros n nd Hin; eapply node_clean_mhi; eassumption].
  destruct El as [Hsk El]. cbn [fst snd] in Hsk. subst sk.
  rewrite N.sub_0_r, <- s_lru_triples_eq, Htrt in El. rewrite F9 in *.
  unfold tinylfu_victims.
  assert (Hrejected : (w <=? vw) && (vf <? frequency (s_sk s) (sc_hash c k)) = false ->
    (if (w <=? vw) && (vf <? frequency (s_sk s) (sc_hash c k))
     then rbind (s_remove_victims t vs [])
            (fun x1 : sstate * list N => let (s1, skipped1) := x1 in
               rbind (handle_admit c s1 k (sc_hash c k) ve w) (fun s2 => s_move_skipped s2 skipped1))
     else s_move_skipped (sset_map t (delete k (s_map t))) []) = Ok s' -> rejected_as s s' k).
  { intros ->. cbn [s_move_skipped]. intros [= <-]. exact Hrej. }
  destruct (shortest_prefix (s_lru_triples s) w) as [p|] eqn:Esp; [|exact (Hrejected El)].
  rewrite N.add_0_l in El.
  destruct (sum_f p <? frequency (s_sk s) (sc_hash c k)) eqn:Ef; [|exact (Hrejected El)].
  clear Hrejected. injection El as -> -> ->.
  destruct (shortest_prefix_spec _ _ _ Esp) as [Hp Hwp].
  rewrite !N.add_0_l. rewrite Ef.
  replace (w <=? sum_w p) with true by (symmetry; apply N.leb_le; exact Hwp).
  cbn [andb app].
  destruct (s_remove_victims t (take (length p) (s_prob t)).*1 []) as [[s1 sk1]|] eqn:Erv;
    cbn [rbind]; [|discriminate].
  assert (Hlen : (length p <= length (s_prob t))%nat).
  { rewrite F3, <- (triples_of_length s), <- s_lru_triples_eq. rewrite Hp at 1.
    rewrite take_length. lia. }
  apply (s_remove_victims_exact c _ _ _ _ _ Ht Hq Hlen) in Erv.
  destruct Erv as (s1' & Heq & H1 & C). injection Heq as -> ->. rename s1' into s1.
  destruct (handle_admit c s1 k (sc_hash c k) ve w) as [s2|] eqn:Ead; cbn [rbind]; [|discriminate].
  cbn [s_move_skipped]. intros [= <-].
  pose proof (admit_after_cut c _ t s1 (length p) k ve w i x' s2 H1 C Hmt Hvet Hit Hna Hkx eq_refl Hnt) as A.
  rewrite F13 in A. specialize (A ltac:(unfold two64, u64_max in *; lia) Ead). unfold admitted_as in *.
  rewrite Hviewt, Hkeyst, Htrt, F13 in A. exact A.
Qed.

Lemma pending_outcome_wq c s q s' k w :
  pending_outcome c (sset_wq s q) s' k w <-> pending_outcome c s s' k w.
Proof. reflexivity. Qed.

Lemma admitted_as_0 s s' k w :
  admitted_as s s' k w 0 ->
  s_view s' = s_view s /\ s_lru_keys s' = s_lru_keys s ++ [k] /\ s_ws s' = s_ws s + w.
Proof.
  unfold admitted_as. rewrite !take_0, drop_0. unfold delete_keys, sum_w. cbn [foldr].
  intros (A & B & C). split; [exact A|]. split; [exact B|]. lia.
Qed.

Lemma tinylfu_victims_Some l w f p :
  tinylfu_victims l w f = Some p -> p = take (length p) l /\ w <= sum_w p /\ sum_f p < f.
Proof.
  unfold tinylfu_victims. destruct (shortest_prefix l w) as [q|] eqn:E; [|discriminate].
  destruct (N.ltb_spec (sum_f q) f); [|discriminate]. intros [= <-].
  destruct (shortest_prefix_spec _ _ _ E). auto.
Qed.

Lemma prefix_keys s p :
  p = take (length p) (s_lru_triples s) -> p.*1.*1 = take (length p) (s_lru_keys s).
Proof.
  intros Hp. rewrite Hp at 1. rewrite !fmap_take, s_lru_triples_eq, triples_keys. reflexivity.
Qed.

(* ------------------------------------------------------------------ *)
(** * What the expiry pass of a maintenance run may remove *)

Lemma handle_remove_ws_le s i s' : handle_remove s i = Ok s' -> s_ws s' <= s_ws s.
Proof.
  unfold handle_remove. destruct (si_admitted (get_info s i)).
  - cbv zeta. destruct (chk_sub _ _) as [ec|]; cbn [rbind]; [|discriminate].
    unfold s_unlink_nodes.
    match goal with |- context [rbind ?m _] => destruct m as [p|]; cbn [rbind]; [|discriminate] end.
    match goal with |- context [rbind ?m _] => destruct m as [w|]; cbn [rbind]; [|discriminate] end.
    intros [= <-]. sprojg. unfold sat_sub. lia.
  - intros [= <-]. sprojg. lia.
Qed.

Record xframe (c : scfg) (now : N) (s s' : sstate) : Prop := mkXF {
  xf_m : mframe s s';
  xf_ws : s_ws s' <= s_ws s;
  xf_gone : forall k ve, s_map s !! k = Some ve -> s_map s' !! k = None ->
            info_expired c s (get_info s (ve_info s ve)) now = true;
  xf_kept : forall k ve, s_map s' !! k = Some ve ->
            s_infos s' !! ve_info s ve = s_infos s !! ve_info s ve
}.

Lemma xframe_refl c now s : xframe c now s s.
Proof.
  constructor; [apply mframe_refl|lia| |reflexivity]. intros k ve Hm Hn. congruence.
Qed.

Lemma xframe_trans c now s1 s2 s3 : xframe c now s1 s2 -> xframe c now s2 s3 -> xframe c now s1 s3.
Proof.
  intros [M1 W1 G1 K1] [M2 W2 G2 K2].
  constructor; [eapply mframe_trans; eassumption|lia| |].
  - intros k ve Hm Hn. destruct (s_map s2 !! k) as [ve2|] eqn:E2; [|eauto].
    assert (ve2 = ve).
    { eapply lookup_weaken in E2; [|exact (mf_map _ _ M1)]. congruence. }
    subst ve2. pose proof (G2 _ _ E2 Hn) as Hx.
    rewrite (ve_info_ext s1 s2) in Hx by exact (mf_ves _ _ M1).
    unfold get_info in Hx. rewrite (K1 _ _ E2) in Hx.
    unfold info_expired in *. rewrite (mf_va _ _ M1) in Hx. exact Hx.
  - intros k ve Hm.
    assert (Hm2 : s_map s2 !! k = Some ve) by (eapply lookup_weaken; [exact Hm|exact (mf_map _ _ M2)]).
    pose proof (K2 _ _ Hm) as E. rewrite (ve_info_ext s1 s2) in E by exact (mf_ves _ _ M1).
    rewrite E. apply (K1 _ _ Hm2).
Qed.

Definition xstep (c : scfg) (now : N) (s : sstate) (r : res sstate) : Prop :=
  exists s', r = Ok s' /\ SInvQ c [] s' /\ xframe c now s s'.

Lemma xstep_ok c now s : SInvQ c [] s -> xstep c now s (Ok s).
Proof. intros H. exists s. split; [reflexivity|]. split; [assumption|apply xframe_refl]. Qed.

Lemma xstep_weaken c now s0 s r : xframe c now s0 s -> xstep c now s r -> xstep c now s0 r.
Proof.
  intros H0 (s' & -> & H1 & H2). exists s'. split; [reflexivity|].
  split; [assumption|eapply xframe_trans; eassumption].
Qed.

Lemma xstep_bind c now s r f :
  xstep c now s r ->
  (forall s1, SInvQ c [] s1 -> xframe c now s s1 -> xstep c now s1 (f s1)) ->
  xstep c now s (rbind r f).
Proof.
  intros (s1 & -> & H1 & H2) Hf. cbn [rbind]. eapply xstep_weaken; [exact H2|]. apply Hf; assumption.
Qed.

Lemma xstep_remove c now s k ve :
  scfg_ok c -> SInvQ c [] s -> s_map s !! k = Some ve ->
  info_expired c s (get_info s (ve_info s ve)) now = true ->
  xstep c now s (handle_remove (sset_map s (delete k (s_map s))) (ve_info s ve)).
Proof.
  intros Hc H Hm Hexp.
  destruct (handle_remove_map_inv c [] s k ve Hc H Hm)
    as (s' & E & HI & Hmap & Hves & Hwq & Hrq & Hva & Hsk & Hskon & Hsa & Hnext & Hinf & _).
  exists s'. split; [exact E|]. split; [exact HI|].
  constructor.
  - constructor; try assumption. rewrite Hmap. apply delete_subseteq.
  - exact (handle_remove_ws_le _ _ _ E).
  - intros k0 ve0 Hm0 Hn0. rewrite Hmap in Hn0. destruct (decide (k0 = k)) as [->|Hne].
    + replace ve0 with ve by congruence. exact Hexp.
    + rewrite lookup_delete_ne in Hn0 by congruence. congruence.
  - intros k0 ve0 Hm0. rewrite Hmap in Hm0. apply lookup_delete_Some in Hm0 as [Hne Hm0].
    apply Hinf. intros Heq.
    destruct (map_entry_info _ _ _ _ _ H Hm0) as (x0 & Hx0 & Hk0).
    destruct (map_entry_info _ _ _ _ _ H Hm) as (x1 & Hx1 & Hk1).
    rewrite Heq in Hx0. congruence.
Qed.

Lemma xframe_set_prob c now s p : xframe c now s (sset_prob s p).
Proof.
  constructor; [constructor; reflexivity|sprojg; lia| |reflexivity].
  intros k ve Hm Hn. change (s_map (sset_prob s p)) with (s_map s) in Hn. congruence.
Qed.

Lemma xframe_set_wo c now s p : xframe c now s (sset_wo s p).
Proof.
  constructor; [constructor; reflexivity|sprojg; lia| |reflexivity].
  intros k ve Hm Hn. change (s_map (sset_wo s p)) with (s_map s) in Hn. congruence.
Qed.

Lemma xstep_mtb_both c now s i x (f : sstate -> res sstate) :
  SInvQ c [] s -> s_infos s !! i = Some x ->
  (forall s2, SInvQ c [] s2 -> xframe c now s s2 -> xstep c now s2 (f s2)) ->
  xstep c now s (s1 <-r s_move_to_back_ao s i; s2 <-r s_move_to_back_wo s1 i; f s2).
Proof.
  intros H Hi Hf.
  destruct (s_move_to_back_ao_inv c [] s i x H Hi) as (s1 & -> & H1 & _ & Es1). cbn [rbind].
  assert (X1 : xframe c now s s1) by (rewrite Es1; apply xframe_set_prob).
  assert (Hi1 : s_infos s1 !! i = Some x) by (rewrite Es1; exact Hi).
  destruct (s_move_to_back_wo_inv c [] s1 i x H1 Hi1) as (s2 & -> & H2 & _ & Es2). cbn [rbind].
  assert (X2 : xframe c now s1 s2) by (rewrite Es2; apply xframe_set_wo).
  eapply xstep_weaken; [eapply xframe_trans; eassumption|]. apply Hf; [exact H2|].
  eapply xframe_trans; eassumption.
Qed.

Lemma try_skip_xstep c now s k (f : sstate -> res sstate) :
  SInvQ c [] s ->
  (forall s1, SInvQ c [] s1 -> xframe c now s s1 -> xstep c now s1 (f s1)) ->
  xstep c now s ('(s1, cont) <-r try_skip_updated_entry s k; if cont then f s1 else Ok s1).
Proof.
  intros H Hf. unfold try_skip_updated_entry.
  destruct (s_map s !! k) as [ve|] eqn:Em.
  - cbv zeta. destruct (si_dirty (get_info s (ve_info s ve))).
    + destruct (map_entry_info c [] s k ve H Em) as (x & Hx & _).
      destruct (s_move_to_back_ao_inv c [] s _ x H Hx) as (s1 & -> & H1 & _ & Es1). cbn [rbind].
      assert (X1 : xframe c now s s1) by (rewrite Es1; apply xframe_set_prob).
      assert (Hx1 : s_infos s1 !! ve_info s ve = Some x) by (rewrite Es1; exact Hx).
      destruct (s_move_to_back_wo_inv c [] s1 _ x H1 Hx1) as (s2 & -> & H2 & _ & Es2). cbn [rbind].
      assert (X2 : xframe c now s1 s2) by (rewrite Es2; apply xframe_set_wo).
      assert (X : xframe c now s s2) by (eapply xframe_trans; eassumption).
      eapply xstep_weaken; [exact X|]. apply Hf; assumption.
    + cbn [rbind]. apply xstep_ok; assumption.
  - cbn [rbind]. eapply xstep_weaken; [apply (xframe_set_prob c now s)|].
    apply Hf; [apply move_front_to_back_prob_inv; exact H|apply xframe_set_prob].
Qed.

Lemma s_remove_expired_wo_x c fuel : forall s now,
  scfg_ok c -> SInvQ c [] s -> xstep c now s (s_remove_expired_wo c fuel s now).
Proof.
  induction fuel as [|fuel IH]; intros s now Hc H; cbn [s_remove_expired_wo].
  - apply xstep_ok; assumption.
  - destruct (s_wo s) as [|[nid nd] rest] eqn:Ewo; [apply xstep_ok; assumption|].
    destruct (s_expired (sc_ttl c) (s_va s) (si_lm (get_info s (sw_info nd))) now);
      [|apply xstep_ok; assumption].
    cbv zeta. destruct (s_map s !! sw_key nd) as [ve|] eqn:Em.
    + destruct (s_expired (sc_ttl c) (s_va s) (si_lm (get_info s (ve_info s ve))) now) eqn:Ex.
      * eapply xstep_bind.
        { apply xstep_remove; try eassumption. unfold info_expired. rewrite Ex. reflexivity. }
        intros s1 H1 _. apply IH; assumption.
      * destruct (si_dirty (get_info s (ve_info s ve))); [|apply xstep_ok; assumption].
        destruct (map_entry_info c [] s _ ve H Em) as (x & Hx & _).
        eapply xstep_mtb_both; [exact H|exact Hx|].
        intros s2 H2 _. apply IH; assumption.
    + rewrite <- Ewo. eapply xstep_weaken; [apply (xframe_set_wo c now s)|].
      apply IH; [assumption|]. apply move_front_to_back_wo_inv. exact H.
Qed.

Lemma s_remove_expired_ao_x c fuel : forall s now,
  scfg_ok c -> SInvQ c [] s -> xstep c now s (s_remove_expired_ao c fuel s now).
Proof.
  induction fuel as [|fuel IH]; intros s now Hc H; cbn [s_remove_expired_ao].
  - apply xstep_ok; assumption.
  - destruct (s_prob s) as [|[nid nd] rest] eqn:Ep; [apply xstep_ok; assumption|].
    destruct (s_expired (sc_tti c) (s_va s) (si_la (get_info s (sa_info nd))) now);
      [|apply xstep_ok; assumption].
    cbv zeta. destruct (s_map s !! sa_key nd) as [ve|] eqn:Em.
    + destruct (s_expired (sc_tti c) (s_va s) (si_la (get_info s (ve_info s ve))) now) eqn:Ex.
      * eapply xstep_bind.
        { apply xstep_remove; try eassumption. unfold info_expired. rewrite Ex. apply orb_true_r. }
        intros s1 H1 _. apply IH; assumption.
      * apply (try_skip_xstep c now s (sa_key nd) (fun s1 => s_remove_expired_ao c fuel s1 now) H).
        intros s1 H1 _. apply IH; assumption.
    + apply (try_skip_xstep c now s (sa_key nd) (fun s1 => s_remove_expired_ao c fuel s1 now) H).
      intros s1 H1 _. apply IH; assumption.
Qed.

Lemma s_evict_expired_x c s now :
  scfg_ok c -> SInvQ c [] s -> xstep c now s (s_evict_expired c s now).
Proof.
  intros Hc H. unfold s_evict_expired. eapply xstep_bind.
  - destruct (sc_ttl c); [apply s_remove_expired_wo_x; assumption|apply xstep_ok; assumption].
  - intros s1 H1 _.
    destruct (sc_tti c); [apply s_remove_expired_ao_x; assumption|].
    destruct (s_va s1); [apply s_remove_expired_ao_x; assumption|apply xstep_ok; assumption].
Qed.

(* ------------------------------------------------------------------ *)
(** * Decomposition of a maintenance run *)

Lemma sync_rounds_quiescent c r s :
  SInv c s -> quiescent s ->
  exists sk on, sync_rounds c (S r) s = Ok (sset_sk s sk on) /\ SInvQ c [] (sset_sk s sk on).
Proof.
  intros H [Hrq Hwq]. cbn [sync_rounds]. rewrite Hrq. cbn [length apply_reads rbind].
  rewrite Hwq. cbn [length apply_writes rbind].
  destruct (enable_sketch_inv c [] s H) as (sk & on & -> & H3 & _). sprojg. rewrite Hrq, Hwq.
  replace (flush_r <=? qlen (@nil readop)) with false.
  2:{ symmetry. apply N.leb_gt. exact c_flush_r_pos. }
  replace (flush_w <=? qlen (@nil writeop)) with false.
  2:{ symmetry. apply N.leb_gt. exact c_flush_w_pos. }
  cbn [orb]. exists sk, on. split; [reflexivity|exact H3].
Qed.

Lemma s_sync_decompose c s now s' :
  scfg_ok c -> SInv c s -> s_small s -> s_sync c s now = Ok s' ->
  exists s1 s2, SInvQ c [] s1 /\ quiescent s1 /\ s_map s1 ⊆ s_map s /\
    (quiescent s -> exists sk on, s1 = sset_sk s sk on) /\
    SInvQ c [] s2 /\ quiescent s2 /\ xframe c now s1 s2 /\
    (if 0 <? s_weights_to_evict c s2
     then s_evict_lru_loop batch_s s2 (s_weights_to_evict c s2) 0 = Ok s' else s' = s2).
Proof.
  intros Hc H [Hs1 Hs2]. unfold s_sync.
  pose proof (sq_rq _ _ _ H) as Qr. destruct (sq_wq _ _ _ H) as [Qw _].
  pose proof c_flush_r_le as Cr. pose proof c_flush_w_le as Cw. unfold qlen in Qr, Qw.
  destruct (sync_rounds_inv c [] (N.to_nat MAX_SYNC_REPEATS) s Hc H)
    as (s1 & E1 & H1 & Rrq & Rwq & Rmap & _); [lia|unfold sk_load_s; lia|].
  rewrite E1. cbn [rbind].
  assert (X2 : xstep c now s1
    (if s_has_expiry c || (match s_va s1 with Some _ => true | None => false end)
     then s_evict_expired c s1 now else Ok s1)).
  { destruct (s_has_expiry c || _); [apply s_evict_expired_x; assumption|apply xstep_ok; assumption]. }
  destruct X2 as (s2 & -> & H2 & F2). cbn [rbind]. cbv zeta. intros E.
  exists s1, s2. split; [exact H1|]. split; [split; assumption|]. split; [exact Rmap|].
  split.
  { intros Hq. destruct (sync_rounds_quiescent c (N.to_nat MAX_SYNC_REPEATS) s H Hq) as (sk & on & E1' & _).
    exists sk, on. congruence. }
  split; [exact H2|]. split.
  { destruct (xf_m _ _ _ _ F2). split; congruence. }
  split; [exact F2|].
  destruct (0 <? s_weights_to_evict c s2); [exact E|congruence].
Qed.

Lemma empty_prob_ws c q s : SInvG c q s -> s_prob s = [] -> s_ws s = 0.
Proof.
  intros H Hp. rewrite (ga_ws _ _ _ H), admitted_infos_adm.
  assert (Hemp : adm (s_infos s) = ∅).
  { apply map_empty. intros i. destruct (adm (s_infos s) !! i) as [x|] eqn:E; [|reflexivity].
    apply adm_lookup in E as [Hx Ha].
    apply (gn_admitted _ _ _ H _ _ Hx) in Ha as [n Hn].
    destruct (gn_info_ao _ _ _ H _ _ _ Hx Hn) as (nd & Hin & _).
    rewrite Hp in Hin. apply elem_of_nil in Hin. destruct Hin. }
  rewrite Hemp. unfold infos_weight. apply map_fold_empty.
Qed.

Lemma SInvQ_quiescent_G c s : SInvQ c [] s -> quiescent s -> SInvG c [] s.
Proof. exact (SInv_quiescent_G c s). Qed.

(* ------------------------------------------------------------------ *)
(** * Non-vacuity: a concrete cache of capacity 2 (no weigher) *)

Definition ex_cfg : scfg := mkSCfg (Some 2) None None None (fun k => k mod two64).

Lemma ex_cfg_ok : scfg_ok ex_cfg.
Proof.
  split; [intros f k v [=]|]. intros k. cbn [sc_hash ex_cfg]. apply N.mod_lt. discriminate.
Qed.

Definition ex_state (ops : list sop) : sstate :=
  match srun_ops ex_cfg srun_init ops with Ok (r, _) => sr_state r | Err _ => s_init end.

Definition ex_warm : list sop :=
  [SInsert 1 10; SSync; SInsert 2 20; SSync; SGet 3; SGet 3; SSync; SInsert 3 30].
Definition ex_cold : list sop :=
  [SInsert 1 10; SSync; SInsert 2 20; SSync; SInsert 3 30].

Lemma pow2_18 : 2 ^ 18 = 262144. Proof. reflexivity. Qed.
Lemma pow2_27' : 2 ^ 27 = 134217728. Proof. reflexivity. Qed.
Lemma pow2_31 : 2 ^ 31 = 2147483648. Proof. reflexivity. Qed.

Lemma ex_state_inv ops : N.of_nat (length ops) < 2 ^ 18 -> SInv ex_cfg (ex_state ops).
Proof.
  intros Hl. destruct (srun_safe ex_cfg ops ex_cfg_ok Hl) as (r & outs & E & W).
  unfold ex_state. rewrite E. exact W.
Qed.

Definition ex_ve (s : sstate) (k : N) : N := default 0 (s_map s !! k).
Definition ex_after (s : sstate) : sstate :=
  match apply_writes ex_cfg s 1 with Ok s' => s' | Err _ => s_init end.

(** Key 3 was looked up twice before being inserted (estimate 2 > 0 = estimate of the LRU
    resident 1): the maintenance run admits it and evicts exactly the LRU entry.  Without
    the look-ups it is rejected and the residents are untouched. *)
Example s_pending_insert_example :
  let s := ex_state ex_warm in
  let t := ex_state ex_cold in
  (* the hypotheses of [s_pending_insert_outcome] hold in both runs *)
  (scfg_ok ex_cfg /\ SInv ex_cfg s /\ s_small s /\ pending_insert ex_cfg s 3 (ex_ve s 3) 1 /\
   apply_writes ex_cfg s 1 = Ok (ex_after s)) /\
  (SInv ex_cfg t /\ s_small t /\ pending_insert ex_cfg t 3 (ex_ve t 3) 1 /\
   apply_writes ex_cfg t 1 = Ok (ex_after t)) /\
  (* admitted *)
  sc_cap ex_cfg = Some 2 /\ s_ws s = 2 /\
  map_to_list (s_view s) = [(1, 10); (3, 30); (2, 20)] /\ s_lru_keys s = [1; 2] /\
  s_lru_triples s = [(1, 1, 0); (2, 1, 0)] /\ frequency (s_sk s) (sc_hash ex_cfg 3) = 2 /\
  tinylfu_victims (s_lru_triples s) 1 (frequency (s_sk s) (sc_hash ex_cfg 3)) = Some [(1, 1, 0)] /\
  map_to_list (s_view (ex_after s)) = [(3, 30); (2, 20)] /\ s_lru_keys (ex_after s) = [2; 3] /\
  s_ws (ex_after s) = 2 /\
  (* rejected *)
  s_ws t = 2 /\ frequency (s_sk t) (sc_hash ex_cfg 3) = 0 /\
  tinylfu_victims (s_lru_triples t) 1 (frequency (s_sk t) (sc_hash ex_cfg 3)) = None /\
  map_to_list (s_view (ex_after t)) = [(1, 10); (2, 20)] /\ s_lru_keys (ex_after t) = [1; 2] /\
  s_ws (ex_after t) = 2.
Proof.
  cbv zeta. split; [|split].
  - split; [exact ex_cfg_ok|].
    split; [apply ex_state_inv; rewrite pow2_18; vm_compute; reflexivity|].
    split; [split; [rewrite pow2_31|rewrite pow2_27']; vm_compute; reflexivity|].
    split; [repeat split; vm_compute; reflexivity|vm_compute; reflexivity].
  - split; [apply ex_state_inv; rewrite pow2_18; vm_compute; reflexivity|].
    split; [split; [rewrite pow2_31|rewrite pow2_27']; vm_compute; reflexivity|].
    split; [repeat split; vm_compute; reflexivity|vm_compute; reflexivity].
  - repeat match goal with |- _ /\ _ => split end; vm_compute; reflexivity.
Qed.

(* ------------------------------------------------------------------ *)
(** * Target theorems *)

(* C13 / C12 / C03: what the maintenance does with a pending fresh insert *)
Theorem s_pending_insert_outcome c s k ve w s' :
  scfg_ok c -> SInv c s -> s_small s -> pending_insert c s k ve w ->
  apply_writes c s 1 = Ok s' ->
  SInv c s' /\ quiescent s' /\
  match sc_cap c with
  | None =>        (* no capacity: always admitted, nothing evicted *)
      s_view s' = s_view s /\ s_lru_keys s' = s_lru_keys s ++ [k] /\ s_ws s' = s_ws s + w
  | Some cap =>
    if s_ws s + w <=? cap then      (* fits: admitted, evicts nothing (C03) *)
      s_view s' = s_view s /\ s_lru_keys s' = s_lru_keys s ++ [k] /\ s_ws s' = s_ws s + w
    else if cap <? w then           (* heavier than the whole capacity: rejected, nothing touched (C04) *)
      s_view s' = delete k (s_view s) /\ s_prob s' = s_prob s /\ s_wo s' = s_wo s /\ s_ws s' = s_ws s
    else match tinylfu_victims (s_lru_triples s) w (frequency (s_sk s) (sc_hash c k)) with
         | Some p =>                (* admitted: exactly the shortest LRU prefix p is evicted (C12, C13) *)
             s_view s' = delete_keys (p.*1.*1) (s_view s) /\
             s_lru_keys s' = drop (length p) (s_lru_keys s) ++ [k] /\
             p.*1.*1 = take (length p) (s_lru_keys s) /\
             s_ws s' + sum_w p = s_ws s + w
         | None =>                  (* rejected: the newcomer is removed, no resident is touched *)
             s_view s' = delete k (s_view s) /\ s_prob s' = s_prob s /\ s_wo s' = s_wo s /\ s_ws s' = s_ws s
         end
  end.
Proof.
  intros Hc H [Hs1 Hs2] (Hrq & Hwq & Hm & Hna) E.
  destruct (apply_writes_inv c [] 1 s Hc H) as (s'' & E' & H' & Wwq & Wrq & _); [lia|].
  rewrite E in E'. injection E' as <-.
  split; [exact H'|]. split; [split; [rewrite Wrq; exact Hrq|rewrite Wwq, Hwq; reflexivity]|].
  cbn [apply_writes] in E. rewrite Hwq in E. cbn [apply_write] in E.
  destruct (handle_upsert c (sset_wq s []) k (sc_hash c k) ve 0 w) as [s1|] eqn:Eu;
    cbn [rbind] in E; [|discriminate].
  injection E as ->.
  apply SInvQ_G in H as [HG _]. rewrite Hwq in HG. cbn [app] in HG.
  apply (SInvG_wq_irrel _ _ _ []) in HG.
  pose proof (handle_upsert_pending c (sset_wq s []) k ve w s' Hc HG Hs1 Hm Hna Eu) as P.
  apply pending_outcome_wq in P. unfold pending_outcome in P.
  destruct (sc_cap c) as [cap|]; [|apply admitted_as_0; exact P].
  destruct (s_ws s + w <=? cap); [apply admitted_as_0; exact P|].
  destruct (cap <? w); [exact P|].
  destruct (tinylfu_victims (s_lru_triples s) w (frequency (s_sk s) (sc_hash c k))) as [p|] eqn:Et;
    [|exact P].
  destruct (tinylfu_victims_Some _ _ _ _ Et) as (Hp & _ & _).
  pose proof (prefix_keys s p Hp) as Hk.
  destruct P as (A & B & C). rewrite <- Hp in C. rewrite <- Hk in A. auto.
Qed.

(* C12: on a quiescent state the size eviction of a maintenance run removes a prefix of the LRU order *)
Theorem s_evict_lru_prefix c s to_evict s' :
  scfg_ok c -> SInv c s -> quiescent s ->
  s_evict_lru_loop batch_s s to_evict 0 = Ok s' ->
  exists n, s_lru_keys s' = drop n (s_lru_keys s) /\
            s_view s' = delete_keys (take n (s_lru_keys s)) (s_view s) /\
            s_ws s' + sum_w (take n (s_lru_triples s)) = s_ws s /\
            (n = 0%nat \/ sum_w (take (n - 1) (s_lru_triples s)) < to_evict) /\
            (to_evict <= sum_w (take n (s_lru_triples s)) \/ n = batch_s \/ n = length (s_lru_keys s)).
Proof.
  intros _ H Hq E.
  destruct (s_evict_lru_prefix_gen c s to_evict s' (SInv_quiescent_G _ _ H Hq) E)
    as (n & _ & C & A1 & A2).
  exists n. split; [apply lru_cut_keys; exact C|]. split; [apply lru_cut_view; exact C|].
  split; [exact (lc_ws _ _ _ C)|]. split; [exact A1|].
  rewrite s_lru_keys_eq, keys_of_length. exact A2.
Qed.

(* C04: after a maintenance run the weighted size (= the physical resident weight, by quiescent_counters)
   is within capacity, or a whole batch of entries was evicted *)
Theorem s_sync_capacity c s now s' cap :
  scfg_ok c -> SInv c s -> s_small s -> s_sync c s now = Ok s' -> sc_cap c = Some cap ->
  s_ws s' <= cap \/ (size (s_map s') + N.to_nat S_EVICTION_BATCH_SIZE <= size (s_map s) + length (s_wq s))%nat.
Proof.
  intros Hc H Hs E Ecap.
  destruct (s_sync_decompose c s now s' Hc H Hs E)
    as (s1 & s2 & H1 & Hq1 & Hsub1 & _ & H2 & Hq2 & X & Hl).
  assert (Hte : s_weights_to_evict c s2 = s_ws s2 - cap).
  { unfold s_weights_to_evict. rewrite Ecap. reflexivity. }
  rewrite Hte in Hl.
  destruct (N.ltb_spec 0 (s_ws s2 - cap)) as [Hpos|Hz].
  2:{ subst s'. left. lia. }
  destruct (s_evict_lru_prefix_gen c s2 _ s' (SInv_quiescent_G _ _ H2 Hq2) Hl)
    as (n & H' & C & _ & A2).
  pose proof (lc_ws _ _ _ C) as Hws.
  destruct A2 as [A2|[A2|A2]].
  - left. lia.
  - right. pose proof (lc_size _ _ _ C) as Hsz.
    pose proof (gmap_size_subseteq _ _ (mf_map _ _ (xf_m _ _ _ _ X))) as Hsz2.
    pose proof (gmap_size_subseteq _ _ Hsub1) as Hsz1.
    fold batch_s. lia.
  - left. rewrite (empty_prob_ws _ _ _ H'); [lia|].
    rewrite (lc_prob _ _ _ C), A2. apply drop_all.
Qed.

(** the same with a quiescent start state, without slack *)
Theorem s_sync_capacity_quiescent c s now s' cap :
  scfg_ok c -> SInv c s -> s_small s -> quiescent s -> s_sync c s now = Ok s' -> sc_cap c = Some cap ->
  s_ws s' <= cap \/ (size (s_map s') + N.to_nat S_EVICTION_BATCH_SIZE <= size (s_map s))%nat.
Proof.
  intros Hc H Hs [_ Hwq] E Ecap.
  destruct (s_sync_capacity c s now s' cap Hc H Hs E Ecap) as [?|Hr]; [left; assumption|right].
  rewrite Hwq in Hr. cbn [length] in Hr. lia.
Qed.

(* C03: a maintenance run on a state with nothing queued removes a map entry only if it is expired
   (by ttl, tti or valid_after, judged on its own timestamps at `now`) or the cache is over capacity *)
Theorem s_sync_removal_causes c s now s' k ve :
  scfg_ok c -> SInv c s -> s_small s -> quiescent s -> s_sync c s now = Ok s' ->
  s_map s !! k = Some ve -> s_map s' !! k = None ->
  info_expired c s (get_info s (ve_info s ve)) now = true \/
  (exists cap, sc_cap c = Some cap /\ cap < s_ws s).
Proof.
  intros Hc H Hs Hq E Hm Hn.
  destruct (s_sync_decompose c s now s' Hc H Hs E)
    as (s1 & s2 & H1 & Hq1 & _ & Hs1 & H2 & Hq2 & X & Hl).
  destruct (Hs1 Hq) as (sk & on & ->).
  pose proof (xf_ws _ _ _ _ X) as Hws. change (s_ws (sset_sk s sk on)) with (s_ws s) in Hws.
  destruct (N.ltb_spec 0 (s_weights_to_evict c s2)) as [Hpos|Hz].
  - right. unfold s_weights_to_evict in Hpos. destruct (sc_cap c) as [cap|]; [|lia].
    exists cap. split; [reflexivity|]. unfold sat_sub in Hpos. lia.
  - subst s'. left. exact (xf_gone _ _ _ _ X k ve Hm Hn).
Qed.

(** the policy theorem instantiated on the example runs agrees with the computation *)
Example s_pending_insert_example_thm :
  let s := ex_state ex_warm in
  let t := ex_state ex_cold in
  (s_view (ex_after s) = delete_keys [1] (s_view s) /\ s_lru_keys (ex_after s) = drop 1 (s_lru_keys s) ++ [3]) /\
  (s_view (ex_after t) = delete 3 (s_view t) /\ s_prob (ex_after t) = s_prob t).
Proof.
  cbv zeta.
  destruct s_pending_insert_example
    as ((Hc & W & Hs & Hp & E) & (W' & Hs' & Hp' & E') & Hcap & Hws & _ & _ & _ & _ & Hv & _ & _ & _ & Hws' & _ & Hv' & _).
  pose proof (s_pending_insert_outcome ex_cfg _ 3 _ 1 _ Hc W Hs Hp E) as (_ & _ & P).
  pose proof (s_pending_insert_outcome ex_cfg _ 3 _ 1 _ Hc W' Hs' Hp' E') as (_ & _ & P').
  rewrite Hcap, Hws in P. rewrite Hcap, Hws' in P'.
  change (2 + 1 <=? 2) with false in P, P'. change (2 <? 1) with false in P, P'. cbv iota in P, P'.
  rewrite Hv in P. rewrite Hv' in P'.
  destruct P as (A & B & _). destruct P' as (A' & B' & _).
  split; [split; [exact A|exact B]|split; [exact A'|exact B']].
Qed.

Print Assumptions s_pending_insert_outcome.
Print Assumptions s_evict_lru_prefix.
Print Assumptions s_sync_capacity.
Print Assumptions s_sync_capacity_quiescent.
Print Assumptions s_sync_removal_causes.
Print Assumptions s_pending_insert_example.
Print Assumptions s_pending_insert_example_thm.

(** Summary.  Every target statement is proved exactly as stated (none needed a [_partial]
    variant): [s_pending_insert_outcome], [s_evict_lru_prefix], [s_sync_capacity] (the general
    statement; the slack [length (s_wq s)] is not even needed since the map only shrinks during
    a maintenance run), [s_sync_capacity_quiescent] (quiescent start, no slack),
    [s_sync_removal_causes].  Additional exported facts: [lru_cut] (the state after evicting the
    [n] least recently used entries) with [front_remove] / [lru_cut_S], [s_admit_loop_clean]
    (the TinyLFU scan computes [tinylfu_victims] when no node is stale),
    [s_remove_victims_exact], [s_evict_lru_loop_exact], [handle_upsert_pending],
    [xframe] / [s_evict_expired_x] (the expiry pass only removes expired entries and never
    increases the weighted size), [s_sync_decompose], and the non-vacuity examples
    [s_pending_insert_example], [s_pending_insert_example_thm]. *)
