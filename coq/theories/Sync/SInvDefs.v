(** Well-formedness invariant of the (repaired) concurrent-cache model, sequential
    regime.  Definitions only (proofs: SInv.v).

    [SInvQ c extra s]: the invariant with [extra] write ops "in flight": operations
    whose hash-map effect has happened but whose write op has not been sent to the
    channel yet (the implicit housekeeper runs exactly in that window). *)
From Coq Require Export Sorting.Sorted.
From MM Require Export Sync.SModel Sketch.SketchSpec.

Definition scfg_ok (c : scfg) : Prop :=
  (forall f k v, sc_wf c = Some f -> f k v < two32) /\
  (forall k, sc_hash c k < two64).

(** the ValueEntry [ve] is allocated, and so is its EntryInfo, which belongs to key [k] *)
Definition ve_ok (s : sstate) (k ve : N) : Prop :=
  exists e i, s_ves s !! ve = Some e /\ s_infos s !! sv_info e = Some i /\ si_key i = k.

Definition wop_ok (c : scfg) (s : sstate) (o : writeop) : Prop :=
  match o with
  | WUpsert k h ve ow nw =>
    ve_ok s k ve /\ h = sc_hash c k /\ nw = sweigh c k (sv_val (get_ve s ve))
  | WRemove k ve => ve_ok s k ve
  end.

Definition rop_ok (s : sstate) (o : readop) : Prop :=
  match o with
  | RHit _ ve _ => exists k, ve_ok s k ve
  | RMiss _ => True
  end.

Definition admitted_infos (s : sstate) : gmap N sinfo :=
  filter (fun p => si_admitted (snd p) = true) (s_infos s).

Definition infos_weight (m : gmap N sinfo) : N :=
  map_fold (fun _ i acc => acc + si_weight i) 0 m.

Definition has_upsert_for_ve (q : list writeop) (ve : N) : Prop :=
  exists k h ow nw, WUpsert k h ve ow nw ∈ q.

Definition has_upsert_for_info (s : sstate) (q : list writeop) (i : N) : Prop :=
  exists k h ve ow nw, WUpsert k h ve ow nw ∈ q /\ ve_info s ve = i.

Definition has_remove_for_info (s : sstate) (q : list writeop) (i : N) : Prop :=
  exists k ve, WRemove k ve ∈ q /\ ve_info s ve = i.

(** the ValueEntry ids of the upserts of a queue, in queue order *)
Definition upsert_ves (q : list writeop) : list N :=
  omap (fun o => match o with WUpsert _ _ ve _ _ => Some ve | WRemove _ _ => None end) q.

Record SInvQ (c : scfg) (extra : list writeop) (s : sstate) : Prop := mkSInv {
  (* V: every referenced id is allocated, below the allocation counter, and typed by key *)
  sv_map : forall k ve, s_map s !! k = Some ve -> ve_ok s k ve;
  sv_ves_lt : forall ve e, s_ves s !! ve = Some e -> ve < s_next s /\ is_Some (s_infos s !! sv_info e);
  sv_infos_lt : forall i x, s_infos s !! i = Some x -> i < s_next s;
  sv_wq : forall o, o ∈ s_wq s ++ extra -> wop_ok c s o;
  sv_rq : forall o, o ∈ s_rq s -> rop_ok s o;
  (* N: deque nodes and EntryInfos are in bijection through the node pointers *)
  sn_nodup_ao : NoDup (s_prob s).*1;
  sn_nodup_wo : NoDup (s_wo s).*1;
  sn_ao_lt : forall n nd, (n, nd) ∈ s_prob s -> n < s_next s;
  sn_wo_lt : forall n nd, (n, nd) ∈ s_wo s -> n < s_next s;
  sn_ao_info : forall n nd, (n, nd) ∈ s_prob s ->
      exists x, s_infos s !! sa_info nd = Some x /\ si_ao x = Some n /\
                sa_key nd = si_key x /\ sa_hash nd = sc_hash c (si_key x);
  sn_info_ao : forall i x n, s_infos s !! i = Some x -> si_ao x = Some n ->
      exists nd, (n, nd) ∈ s_prob s /\ sa_info nd = i;
  sn_wo_info : forall n nd, (n, nd) ∈ s_wo s ->
      sc_ttl c <> None /\
      exists x, s_infos s !! sw_info nd = Some x /\ si_wo x = Some n /\ sw_key nd = si_key x;
  sn_info_wo : forall i x n, s_infos s !! i = Some x -> si_wo x = Some n ->
      exists nd, (n, nd) ∈ s_wo s /\ sw_info nd = i;
  sn_admitted : forall i x, s_infos s !! i = Some x ->
      (si_admitted x = true <-> is_Some (si_ao x)) /\
      (match sc_ttl c with Some _ => si_admitted x = true <-> is_Some (si_wo x) | None => si_wo x = None end);
  (* G: no ghost — an admitted EntryInfo is the one of the map entry of its key, or its removal is queued *)
  sg_no_ghost : forall i x, s_infos s !! i = Some x -> si_admitted x = true ->
      map_has_info s (si_key x) i = true \/ has_remove_for_info s (s_wq s ++ extra) i;
  (* R: an EntryInfo whose removal is queued is detached from the map *)
  sr_detached : forall k ve k' ve_m, WRemove k ve ∈ s_wq s ++ extra ->
      s_map s !! k' = Some ve_m -> ve_info s ve_m <> ve_info s ve;
  (* O: no orphan — a map entry that is not admitted yet has its own write op queued *)
  so_no_orphan : forall k ve, s_map s !! k = Some ve ->
      si_admitted (get_info s (ve_info s ve)) = false -> has_upsert_for_ve (s_wq s ++ extra) ve;
  (* D: a dirty EntryInfo has a write op queued *)
  sd_dirty : forall i x, s_infos s !! i = Some x -> si_dirty x = true ->
      has_upsert_for_info s (s_wq s ++ extra) i;
  (* A: the counters are exactly the admitted entries and their (applied) weights *)
  sa_ec : s_ec s = N.of_nat (size (admitted_infos s));
  sa_ws : s_ws s = infos_weight (admitted_infos s);
  sa_weight_lt : forall i x, s_infos s !! i = Some x -> si_weight x < two32;
  (* W: the applied weight of a map entry is the weigher's, unless its own write op is still queued *)
  sw_weight : forall k ve, s_map s !! k = Some ve ->
      has_upsert_for_ve (s_wq s ++ extra) ve \/
      si_weight (get_info s (ve_info s ve)) = sweigh c k (sv_val (get_ve s ve));
  (* F: FIFO / freshness discipline of ValueEntries.  The map holds the newest ValueEntry
     of an EntryInfo; queued upserts are in creation order; a map entry whose own write
     op is no longer queued is older than every queued upsert. *)
  sf_newest : forall ve e k ve_m, s_ves s !! ve = Some e -> s_map s !! k = Some ve_m ->
      ve_info s ve_m = sv_info e -> ve <= ve_m;
  sf_sorted : StronglySorted N.lt (upsert_ves (s_wq s ++ extra));
  sf_applied_older : forall k ve_m, s_map s !! k = Some ve_m ->
      has_upsert_for_ve (s_wq s ++ extra) ve_m \/
      (forall ve, ve ∈ upsert_ves (s_wq s ++ extra) -> ve_m < ve);
  (* Q: the channels never fill up in the sequential regime *)
  sq_rq : qlen (s_rq s) <= READ_LOG_FLUSH_POINT;
  sq_wq : qlen (s_wq s) <= WRITE_LOG_FLUSH_POINT /\ qlen extra <= 1;
  (* K: the popularity sketch *)
  sk_sketch : sk_wf (s_sk s) /\ (s_skon s = false -> s_sk s = sk_empty)
}.

Definition SInv (c : scfg) (s : sstate) : Prop := SInvQ c [] s.

(** resource bounds under which no checked arithmetic of a step can fail *)
Definition s_small (s : sstate) : Prop :=
  s_next s < 2 ^ 31 /\ N.of_nat (size (sk_table (s_sk s))) < 2 ^ 27.

(** Quiescent: nothing queued. *)
Definition quiescent (s : sstate) : Prop := s_rq s = [] /\ s_wq s = [].

(** weight the weigher assigns to what the map physically holds *)
Definition s_map_weight (c : scfg) (s : sstate) : N :=
  map_fold (fun k ve acc => acc + sweigh c k (sv_val (get_ve s ve))) 0 (s_map s).
