(** Operation-level theorems of the concurrent-cache model in its sequential regime:
    "maintenance after every operation", i.e. the op sequence [op ; sync] started from a
    QUIESCENT state, stated in terms of the state BEFORE the op, in either housekeeping
    regime (the op itself runs a maintenance pass while [now <= s_sync_after], otherwise it
    does not).  Composes the op-application theorems of SPolicy.v / SRecency.v with the
    public steps [sstep _ (SInsert ..)] / [sstep _ (SGet ..)] and [sstep _ SSync]. *)
From MM Require Import Sync.SInvDefs Sync.SInvWrites Sync.SInvTop Sync.SPolicyDefs Sync.SPolicy Sync.SRecency Sync.SProvenance.
From MM Require Import Sketch.SketchProofs.

(* ------------------------------------------------------------------ *)
(** * Vocabulary *)

(** no expiry configured and no [invalidate_all] cut-off pending *)
Definition noexp (c : scfg) (s : sstate) : Prop :=
  sc_ttl c = None /\ sc_tti c = None /\ s_va s = None.

(** the weighted size is within the capacity *)
Definition within (c : scfg) (s : sstate) : Prop :=
  match sc_cap c with Some cap => s_ws s <= cap | None => True end.

(** weight the weigher assigns to key [k] in the view [m] (0 when absent) *)
Definition key_weight (c : scfg) (m : gmap N N) (k : N) : N :=
  match m !! k with Some v => sweigh c k v | None => 0 end.
Definition keys_weight (c : scfg) (m : gmap N N) (ks : list N) : N :=
  foldr (fun k acc => key_weight c m k + acc) 0 ks.

(* ------------------------------------------------------------------ *)
(** * The sketch: enabling it keeps every estimate at 0 *)

Lemma frequency_empty_table sk h : sk_table sk = ∅ -> frequency sk h = 0.
Proof.
  intros Ht. unfold frequency. destruct (sk_tlen sk =? 0); [reflexivity|].
  unfold counter_of, tget. rewrite Ht, !lookup_empty. cbn [default]. unfold nib.
  rewrite !N.shiftr_0_l, !N.land_0_l. reflexivity.
Qed.

Lemma ensure_capacity_empty_table cp : sk_table (ensure_capacity sk_empty cp) = ∅.
Proof. unfold ensure_capacity. cbv zeta. destruct (_ <=? sk_tlen sk_empty); reflexivity. Qed.

Lemma frequency_enable cp h : frequency (ensure_capacity sk_empty cp) h = frequency sk_empty h.
Proof.
  rewrite (frequency_empty_table _ h (ensure_capacity_empty_table cp)).
  symmetry. apply frequency_empty_table. reflexivity.
Qed.

(** what the end of a round of [sync_rounds] does *)
Definition quiet (c : scfg) (s : sstate) : sstate :=
  if s_should_enable_sketch c s then s_enable_sketch c s else s.

Definition sk_ok (s : sstate) : Prop := s_skon s = false -> s_sk s = sk_empty.

Lemma sset_sk_id s : sset_sk s (s_sk s) (s_skon s) = s.
Proof. destruct s; reflexivity. Qed.

Lemma quiet_shape c s :
  sk_ok s ->
  exists sk on, quiet c s = sset_sk s sk on /\ (forall h, frequency sk h = frequency (s_sk s) h).
Proof.
  intros Hk. unfold quiet, s_should_enable_sketch, s_enable_sketch.
  assert (Hsame : exists sk on, s = sset_sk s sk on /\ (forall h, frequency sk h = frequency (s_sk s) h)).
  { exists (s_sk s), (s_skon s). split; [symmetry; apply sset_sk_id|reflexivity]. }
  destruct (s_skon s) eqn:Eon; [exact Hsame|].
  destruct (sc_cap c) as [cap|]; [|exact Hsame].
  destruct (cap / 2 <=? s_ws s); [|exact Hsame].
  rewrite (Hk Eon). eexists _, true. split; [reflexivity|]. intros h. apply frequency_enable.
Qed.

Lemma SInvQ_sk_ok c extra s : SInvQ c extra s -> sk_ok s.
Proof. intros H. exact (proj2 (sk_sketch _ _ _ H)). Qed.

Lemma quiet_inv c extra s : SInvQ c extra s -> SInvQ c extra (quiet c s).
Proof.
  intros H. destruct (enable_sketch_inv c extra s H) as (sk & on & E & H' & _).
  unfold quiet. rewrite E. exact H'.
Qed.

(** one-round maintenance run: when the first round drains both queues, [s_sync] is that round
    followed by the size eviction (no expiry configured) *)
Lemma s_sync_round c s now s1 s2 :
  apply_reads s (length (s_rq s)) = Ok s1 -> apply_writes c s1 (length (s_wq s1)) = Ok s2 ->
  sk_ok s2 -> quiescent s2 -> noexp c s2 ->
  s_sync c s now =
    (let s3 := quiet c s2 in
     if 0 <? s_weights_to_evict c s3 then s_evict_lru_loop batch_s s3 (s_weights_to_evict c s3) 0
     else Ok s3).
Proof.
  intros E1 E2 Hk [Hrq Hwq] (Httl & Htti & Hva). unfold s_sync. cbn [sync_rounds].
  rewrite E1. cbn [rbind]. rewrite E2. cbn [rbind]. fold (quiet c s2).
  destruct (quiet_shape c s2 Hk) as (sk & on & -> & _). sproj. rewrite Hrq, Hwq.
  change (flush_r <=? qlen (@nil readop)) with false.
  change (flush_w <=? qlen (@nil writeop)) with false.
  cbn [orb rbind]. unfold s_has_expiry. rewrite Httl, Htti. change (s_va (sset_sk s2 sk on)) with (s_va s2). rewrite Hva. cbn [orb rbind]. reflexivity.
Qed.

(** a maintenance run on a state with nothing queued, no expiry and within capacity *)
Lemma s_sync_quiet c s now :
  sk_ok s -> quiescent s -> noexp c s -> within c s ->
  exists sk on, s_sync c s now = Ok (sset_sk s sk on) /\ (forall h, frequency sk h = frequency (s_sk s) h).
Proof.
  intros Hk Hq Hx Hw. destruct Hq as [Hrq Hwq].
  rewrite (s_sync_round c s now s s); try assumption.
  2:{ rewrite Hrq. reflexivity. } 2:{ rewrite Hwq. reflexivity. } 2:{ split; assumption. }
  cbv zeta. destruct (quiet_shape c s Hk) as (sk & on & -> & Hf).
  exists sk, on. split; [|exact Hf].
  replace (0 <? s_weights_to_evict c (sset_sk s sk on)) with false; [reflexivity|].
  symmetry. apply N.ltb_ge. unfold s_weights_to_evict, within, sat_sub in *. sproj.
  destruct (sc_cap c); lia.
Qed.

(** the implicit housekeeper on such a state, in either regime *)
Lemma hk_quiet c s len flush now :
  sk_ok s -> quiescent s -> noexp c s -> within c s ->
  exists sk on sa, hk_maybe_sync c s len flush now = Ok (sset_sa (sset_sk s sk on) sa) /\
    (forall h, frequency sk h = frequency (s_sk s) h).
Proof.
  intros Hk Hq Hx Hw. unfold hk_maybe_sync.
  destruct ((flush <=? len) || (now <=? s_sync_after s)).
  - destruct (s_sync_quiet c (sset_sa s (now + sync_interval)) now) as (sk & on & E & Hf); try assumption.
    exists sk, on, (now + sync_interval). split; [exact E|exact Hf].
  - exists (s_sk s), (s_skon s), (s_sync_after s). split; [|reflexivity].
    destruct s; reflexivity.
Qed.

(* ------------------------------------------------------------------ *)
(** * The state after the operation (pure computation, both housekeeping regimes) *)

Ltac hk_step c Hk Hrq Hwq Hx Hw sk on sa Hf :=
  match goal with
  | |- context [hk_maybe_sync c ?s3 ?l ?f ?now] =>
    let E := fresh "E" in
    destruct (hk_quiet c s3 l f now) as (sk & on & sa & E & Hf);
    [exact Hk|split; [exact Hrq|exact Hwq]|exact Hx|exact Hw|rewrite E; clear E]
  end.

Lemma s_insert_fresh_shape c s now k v t :
  sk_ok s -> quiescent s -> noexp c s -> within c s -> s_map s !! k = None ->
  s_insert c s now k v = Ok t ->
  exists sk on sa, (forall h, frequency sk h = frequency (s_sk s) h) /\
    t = mkS (<[k := s_next s + 1]> (s_map s)) (<[s_next s + 1 := mkSV v (s_next s)]> (s_ves s))
            (<[s_next s := mkSI k false true now now (sweigh c k v) None None]> (s_infos s))
            (s_prob s) (s_wo s) [] [WUpsert k (sc_hash c k) (s_next s + 1) 0 (sweigh c k v)]
            (s_ec s) (s_ws s) None sk on sa (s_next s + 2).
Proof.
  intros Hk [Hrq Hwq] Hx Hw Hm. unfold s_insert. rewrite Hm. cbv zeta. cbn [schedule_write_op].
  hk_step c Hk Hrq Hwq Hx Hw sk on sa Hf.
  cbn [rbind]. destruct Hx as (_ & _ & Hva). sproj. rewrite Hwq.
  change (qlen (@nil writeop) <? WRITE_LOG_SIZE) with true. cbv iota. intros [= <-].
  exists sk, on, sa. split; [exact Hf|]. rewrite <- Hrq, <- Hva. reflexivity.
Qed.

Lemma s_insert_update_shape c s now k v ve0 t :
  sk_ok s -> quiescent s -> noexp c s -> within c s -> s_map s !! k = Some ve0 ->
  s_insert c s now k v = Ok t ->
  let i := ve_info s ve0 in let x := get_info s i in
  exists sk on sa, (forall h, frequency sk h = frequency (s_sk s) h) /\
    t = mkS (<[k := s_next s]> (s_map s)) (<[s_next s := mkSV v i]> (s_ves s))
            (<[i := si_set_lm now (si_set_la now (si_set_dirty true x))]> (s_infos s))
            (s_prob s) (s_wo s) [] [WUpsert k (sc_hash c k) (s_next s) (si_weight x) (sweigh c k v)]
            (s_ec s) (s_ws s) None sk on sa (s_next s + 1).
Proof.
  intros Hk [Hrq Hwq] Hx Hw Hm. unfold s_insert. rewrite Hm. cbv zeta. cbn [schedule_write_op].
  hk_step c Hk Hrq Hwq Hx Hw sk on sa Hf.
  cbn [rbind]. destruct Hx as (_ & _ & Hva). sproj. rewrite Hwq.
  change (qlen (@nil writeop) <? WRITE_LOG_SIZE) with true. cbv iota. intros [= <-].
  exists sk, on, sa. split; [exact Hf|]. rewrite <- Hrq, <- Hva. reflexivity.
Qed.

Lemma record_read_shape c s o now t :
  sk_ok s -> quiescent s -> noexp c s -> within c s ->
  record_read_op c s o now = Ok t ->
  exists sk on sa, (forall h, frequency sk h = frequency (s_sk s) h) /\
    t = sset_rq (sset_sa (sset_sk s sk on) sa) [o].
Proof.
  intros Hk [Hrq Hwq] Hx Hw. unfold record_read_op.
  hk_step c Hk Hrq Hwq Hx Hw sk on sa Hf.
  cbn [rbind]. sproj. rewrite Hrq.
  change (qlen (@nil readop) <? READ_LOG_SIZE) with true. cbv iota. intros [= <-].
  exists sk, on, sa. split; [exact Hf|reflexivity].
Qed.

Lemma noexp_not_expired c s x now : noexp c s -> info_expired c s x now = false.
Proof. unfold info_expired. intros (-> & -> & ->). reflexivity. Qed.

(** a look-up from such a state: the value returned is the view's, and exactly one read op is queued *)
Lemma s_get_shape c s now k t ov :
  sk_ok s -> quiescent s -> noexp c s -> within c s ->
  s_get c s now k = Ok (t, ov) ->
  ov = s_view s !! k /\
  exists sk on sa, (forall h, frequency sk h = frequency (s_sk s) h) /\
    t = sset_rq (sset_sa (sset_sk s sk on) sa)
          [match s_map s !! k with Some ve => RHit (sc_hash c k) ve now | None => RMiss (sc_hash c k) end].
Proof.
  intros Hk Hq Hx Hw. unfold s_get. cbv zeta. unfold s_view. rewrite lookup_fmap.
  destruct (s_map s !! k) as [ve|] eqn:Em; cbn [fmap option_fmap option_map].
  - rewrite (noexp_not_expired c s _ now Hx).
    destruct (record_read_op c s (RHit (sc_hash c k) ve now) now) as [t'|] eqn:E; cbn [rbind]; [|discriminate].
    intros [= <- <-]. split; [reflexivity|]. eapply record_read_shape; eassumption.
  - destruct (record_read_op c s (RMiss (sc_hash c k)) now) as [t'|] eqn:E; cbn [rbind]; [|discriminate].
    intros [= <- <-]. split; [reflexivity|]. eapply record_read_shape; eassumption.
Qed.

(* ------------------------------------------------------------------ *)
(** * Relating the views of the state before the op and the state after it *)

Lemma map_ve_lt c extra s k ve : SInvQ c extra s -> s_map s !! k = Some ve -> ve < s_next s.
Proof.
  intros H Hm. destruct (sv_map _ _ _ H _ _ Hm) as (e & x & He & _).
  exact (proj1 (sv_ves_lt _ _ _ H _ _ He)).
Qed.

Lemma node_info_lt c extra s n nd : SInvQ c extra s -> (n, nd) ∈ s_prob s -> sa_info nd < s_next s.
Proof.
  intros H Hin. destruct (sn_ao_info _ _ _ H _ _ Hin) as (x & Hx & _).
  exact (sv_infos_lt _ _ _ H _ _ Hx).
Qed.

(** a new ValueEntry with a fresh id is put into the map at [k] *)
Lemma s_view_insert_new s t k ve e :
  s_map t = <[k := ve]> (s_map s) -> s_ves t = <[ve := e]> (s_ves s) ->
  (forall k' ve', s_map s !! k' = Some ve' -> ve' <> ve) ->
  s_view t = <[k := sv_val e]> (s_view s).
Proof.
  intros Hmap Hves Hfresh. unfold s_view. rewrite Hmap, fmap_insert. f_equal.
  - unfold get_ve. rewrite Hves, lookup_insert. reflexivity.
  - apply map_fmap_ext. intros k' ve' Hm. unfold get_ve. rewrite Hves, lookup_insert_ne; [reflexivity|].
    intros Heq. exact (Hfresh _ _ Hm (eq_sym Heq)).
Qed.

Lemma triples_of_ext_freq s s' l :
  (forall h, frequency (s_sk s') h = frequency (s_sk s) h) ->
  (forall n nd, (n, nd) ∈ l -> get_info s' (sa_info nd) = get_info s (sa_info nd)) ->
  triples_of s' l = triples_of s l.
Proof.
  intros Hsk Hl. induction l as [|[n nd] l IH]; [reflexivity|].
  rewrite !triples_of_cons. f_equal.
  - unfold tr_of. rewrite Hsk, (Hl n nd) by left. reflexivity.
  - apply IH. intros n' nd' Hin. apply (Hl n' nd'). right. exact Hin.
Qed.

(** every key of the LRU order of a quiescent state is in the map *)
Lemma lru_key_in_map c s k :
  SInv c s -> quiescent s -> k ∈ s_lru_keys s -> is_Some (s_map s !! k).
Proof.
  intros H Hq Hin. rewrite s_lru_keys_eq, keys_of_proj in Hin.
  apply elem_of_list_fmap in Hin as ([n nd] & -> & Hin). cbn [snd].
  destruct (node_clean c [] s n nd (SInv_quiescent_G _ _ H Hq) no_removes_nil Hin)
    as (_ & ve & _ & _ & _ & _ & Hm & _). eauto.
Qed.

Lemma delete_keys_insert_notin (ks : list N) k v (m : gmap N N) :
  k ∉ ks -> delete_keys ks (<[k := v]> m) = <[k := v]> (delete_keys ks m).
Proof.
  unfold delete_keys. induction ks as [|a ks IH]; intros Hn; cbn [foldr]; [reflexivity|].
  rewrite IH by (intros Hin; apply Hn; right; exact Hin).
  apply delete_insert_ne. intros <-. apply Hn. left.
Qed.

Lemma quiet_frame c s :
  sk_ok s ->
  s_view (quiet c s) = s_view s /\ s_lru_keys (quiet c s) = s_lru_keys s /\ s_ws (quiet c s) = s_ws s /\
  s_lru_triples (quiet c s) = s_lru_triples s.
Proof.
  intros Hk. destruct (quiet_shape c s Hk) as (sk & on & -> & Hf).
  split; [reflexivity|]. split; [reflexivity|]. split; [reflexivity|].
  rewrite !s_lru_triples_eq. apply triples_of_ext_freq; [exact Hf|reflexivity].
Qed.

(** the size eviction has nothing to do within capacity *)
Lemma no_eviction c s : within c s -> (0 <? s_weights_to_evict c s) = false.
Proof.
  intros Hw. apply N.ltb_ge. unfold s_weights_to_evict, within, sat_sub in *.
  destruct (sc_cap c); lia.
Qed.

(** the second step of [op ; sync] when the op queued exactly one read or write op which the
    first round drains (no expiry) *)
Lemma s_sync_after_op c t now s1 s2 s' :
  apply_reads t (length (s_rq t)) = Ok s1 -> apply_writes c s1 (length (s_wq s1)) = Ok s2 ->
  sk_ok s2 -> quiescent s2 -> noexp c s2 -> within c s2 ->
  s_sync c t now = Ok s' -> s' = quiet c s2.
Proof.
  intros E1 E2 Hk Hq Hx Hw E. rewrite (s_sync_round c t now s1 s2 E1 E2 Hk Hq Hx) in E. cbv zeta in E.
  rewrite no_eviction in E; [congruence|].
  unfold within in *. rewrite (proj1 (proj2 (proj2 (quiet_frame c s2 Hk)))). exact Hw.
Qed.

Lemma small_after s t :
  s_small s -> s_next t < 2 ^ 31 -> sk_load_s t <= sk_load_s s + 4 * N.of_nat (length (s_rq s)) ->
  quiescent s -> s_small t.
Proof.
  intros [_ Hs] Hn Hl [Hrq _]. rewrite Hrq in Hl. cbn [length] in Hl. unfold sk_load_s in Hl.
  split; [exact Hn|lia].
Qed.

(* ------------------------------------------------------------------ *)
(** * (1) fresh insert ; sync *)

Theorem s_insert_sync_outcome c r k v r1 o1 r2 o2 :
  let s := sr_state r in let s' := sr_state r2 in let w := sweigh c k v in
  scfg_ok c -> SInv c s -> s_small s -> s_next s + 2 < 2 ^ 31 ->
  quiescent s -> noexp c s -> within c s -> s_map s !! k = None ->
  sstep c r (SInsert k v) = Ok (r1, o1) -> sstep c r1 SSync = Ok (r2, o2) ->
  SInv c s' /\ quiescent s' /\
  match sc_cap c with
  | None => s_view s' = <[k := v]> (s_view s) /\ s_lru_keys s' = s_lru_keys s ++ [k] /\ s_ws s' = s_ws s + w
  | Some cap =>
    if s_ws s + w <=? cap then
      s_view s' = <[k := v]> (s_view s) /\ s_lru_keys s' = s_lru_keys s ++ [k] /\ s_ws s' = s_ws s + w
    else if cap <? w then
      s_view s' = s_view s /\ s_lru_keys s' = s_lru_keys s /\ s_ws s' = s_ws s
    else match tinylfu_victims (s_lru_triples s) w (frequency (s_sk s) (sc_hash c k)) with
         | Some p =>   (* admitted: exactly the shortest LRU prefix p is evicted *)
             s_view s' = <[k := v]> (delete_keys (p.*1.*1) (s_view s)) /\
             s_lru_keys s' = drop (length p) (s_lru_keys s) ++ [k] /\
             p.*1.*1 = take (length p) (s_lru_keys s) /\
             s_ws s' + sum_w p = s_ws s + w
         | None =>     (* rejected: the newcomer is gone, no resident is touched *)
             s_view s' = s_view s /\ s_lru_keys s' = s_lru_keys s /\ s_ws s' = s_ws s
         end
  end.
Proof.
  destruct r as [s now]. cbn [sr_state sr_now]. cbv zeta. intros Hc H Hs Hn Hq Hx Hw Hm E1 E2.
  cbn [sstep sr_state sr_now] in E1.
  destruct (s_insert_inv c s now k v Hc H Hs) as (t & Et & Ht & Hnt & Hlt).
  rewrite Et in E1. cbn [rbind] in E1. injection E1 as <- <-. cbn [sstep sr_state sr_now] in E2.
  destruct (s_insert_fresh_shape c s now k v t (SInvQ_sk_ok _ _ _ H) Hq Hx Hw Hm Et)
    as (sk & on & sa & Hf & Sh).
  set (ve := s_next s + 1) in *. set (w := sweigh c k v) in *.
  assert (F : s_map t = <[k := ve]> (s_map s) /\ s_ves t = <[ve := mkSV v (s_next s)]> (s_ves s) /\
     s_infos t = <[s_next s := mkSI k false true now now w None None]> (s_infos s) /\
     s_prob t = s_prob s /\ s_rq t = [] /\ s_wq t = [WUpsert k (sc_hash c k) ve 0 w] /\
     s_ws t = s_ws s /\ s_va t = None /\ s_sk t = sk /\ s_next t = s_next s + 2)
    by (rewrite Sh; repeat split).
  clear Sh. destruct F as (Fmap & Fves & Finfos & Fprob & Frq & Fwq & Fws & Fva & Fsk & Fnext).
  assert (Hst : s_small t).
  { apply (small_after s t Hs); [rewrite Fnext; exact Hn|exact Hlt|exact Hq]. }
  destruct (sync_quiescent c t now Hc Ht Hst) as (s' & Es' & H' & Hq').
  rewrite Es' in E2. cbn [rbind] in E2. injection E2 as <- <-. cbn [sr_state].
  split; [exact H'|]. split; [exact Hq'|].
  assert (Hp : pending_insert c t k ve w).
  { unfold pending_insert. split; [exact Frq|]. split; [exact Fwq|].
    split; [rewrite Fmap; apply lookup_insert|].
    unfold ve_info, get_ve, get_info. rewrite Fves, lookup_insert. cbn [default sv_info].
    rewrite Finfos, lookup_insert. reflexivity. }
  destruct (apply_writes_inv c [] 1 t Hc Ht) as (s2 & Ew & H2 & _ & _ & _ & _ & Wva & _).
  { rewrite Fnext. rewrite pow2_31 in Hn. change (2 ^ 32) with 4294967296. lia. }
  pose proof (s_pending_insert_outcome c t k ve w s2 Hc Ht Hst Hp Ew) as (_ & Hq2 & P).
  assert (Vt : s_view t = <[k := v]> (s_view s)).
  { apply (s_view_insert_new s t k ve (mkSV v (s_next s)) Fmap Fves). intros k' ve' Hm' ->.
    pose proof (map_ve_lt _ _ _ _ _ H Hm'). subst ve. lia. }
  assert (Kt : s_lru_keys t = s_lru_keys s) by (rewrite !s_lru_keys_eq, Fprob; reflexivity).
  assert (Tt : s_lru_triples t = s_lru_triples s).
  { rewrite !s_lru_triples_eq, Fprob. apply triples_of_ext_freq; [intros h; rewrite Fsk; apply Hf|].
    intros n nd Hin. unfold get_info. rewrite Finfos, lookup_insert_ne; [reflexivity|].
    pose proof (node_info_lt _ _ _ _ _ H Hin). lia. }
  assert (Ft : frequency (s_sk t) (sc_hash c k) = frequency (s_sk s) (sc_hash c k))
    by (rewrite Fsk; apply Hf).
  assert (Vk : s_view s !! k = None) by (unfold s_view; rewrite lookup_fmap, Hm; reflexivity).
  rewrite Vt, Kt, Tt, Ft, Fws in P.
  pose proof (SInvQ_sk_ok _ _ _ H2) as Hk2.
  assert (Hx2 : noexp c s2).
  { destruct Hx as (A & B & _). split; [exact A|]. split; [exact B|]. rewrite Wva. exact Fva. }
  assert (Hfin : within c s2 ->
            s_view s' = s_view s2 /\ s_lru_keys s' = s_lru_keys s2 /\ s_ws s' = s_ws s2).
  { intros Hw2. rewrite (s_sync_after_op c t now t s2 s'); try assumption.
    - destruct (quiet_frame c s2 Hk2) as (A & B & C & _). auto.
    - rewrite Frq. reflexivity.
    - rewrite Fwq. exact Ew. }
  assert (Hrej : s_view s2 = delete k (<[k := v]> (s_view s)) /\ s_prob s2 = s_prob t /\
                 s_wo s2 = s_wo t /\ s_ws s2 = s_ws s -> within c s ->
                 s_view s' = s_view s /\ s_lru_keys s' = s_lru_keys s /\ s_ws s' = s_ws s).
  { intros (A & B & _ & C) Hws. destruct Hfin as (-> & -> & ->).
    - unfold within in *. rewrite C. exact Hws.
    - rewrite A, C, delete_insert by exact Vk. rewrite !s_lru_keys_eq, B, Fprob. auto. }
  unfold within in Hfin. pose proof Hw as Hw0. unfold within in Hw0.
  destruct (sc_cap c) as [cap|]; [|destruct (Hfin I) as (-> & -> & ->); exact P].
  destruct (N.leb_spec (s_ws s + w) cap) as [Hfit|Hnofit].
  { destruct P as (A & B & C). destruct Hfin as (-> & -> & ->); [lia|]. auto. }
  destruct (cap <? w); [exact (Hrej P Hw)|].
  destruct (tinylfu_victims (s_lru_triples s) w (frequency (s_sk s) (sc_hash c k))) as [p|] eqn:Et';
    [|exact (Hrej P Hw)].
  destruct (tinylfu_victims_Some _ _ _ _ Et') as (_ & Hwp & _).
  destruct P as (A & B & C & D). destruct Hfin as (-> & -> & ->); [lia|].
  split; [|auto]. rewrite A. apply delete_keys_insert_notin.
  rewrite C. intros Hin. apply (sublist_elem _ _ _ (sublist_take _ _)) in Hin.
  destruct (lru_key_in_map c s k H Hq Hin) as [ve0 Hve0]. congruence.
Qed.

(* ------------------------------------------------------------------ *)
(** * (2), (2') look-up ; sync *)

(** a map entry of a quiescent state is admitted *)
Lemma quiescent_admitted c s k ve :
  SInv c s -> quiescent s -> s_map s !! k = Some ve -> si_admitted (get_info s (ve_info s ve)) = true.
Proof.
  intros H [_ Hwq] Hm. destruct (si_admitted (get_info s (ve_info s ve))) eqn:E; [reflexivity|].
  destruct (so_no_orphan _ _ _ H _ _ Hm E) as (k0 & h0 & ow & nw & Hin).
  rewrite Hwq in Hin. apply elem_of_nil in Hin. destruct Hin.
Qed.

(** common part: a look-up from a quiescent state followed by a maintenance run *)
Lemma s_get_sync_common c s now k t ov s' :
  scfg_ok c -> SInv c s -> s_small s -> quiescent s -> noexp c s -> within c s ->
  s_get c s now k = Ok (t, ov) -> s_sync c t now = Ok s' ->
  SInv c s' /\ quiescent s' /\ ov = s_view s !! k /\ s_view s' = s_view s /\ s_ws s' = s_ws s /\
  s_lru_keys s' = match ov with Some _ => touch k (s_lru_keys s) | None => s_lru_keys s end.
Proof.
  intros Hc H Hs Hq Hx Hw Eg Es.
  destruct (s_get_inv c s now k Hc H Hs) as (t' & ov' & Eg' & Ht & Hnt & Hlt).
  rewrite Eg in Eg'. injection Eg' as <- <-.
  destruct (s_get_shape c s now k t ov (SInvQ_sk_ok _ _ _ H) Hq Hx Hw Eg) as (Hov & sk & on & sa & Hf & Sh).
  set (o := match s_map s !! k with Some ve => RHit (sc_hash c k) ve now | None => RMiss (sc_hash c k) end) in *.
  assert (F : s_view t = s_view s /\ s_lru_keys t = s_lru_keys s /\ s_ws t = s_ws s /\ s_next t = s_next s /\
              s_rq t = [o] /\ s_wq t = s_wq s /\ s_va t = s_va s /\ s_map t = s_map s /\
              (forall ve, si_admitted (get_info t (ve_info t ve)) = si_admitted (get_info s (ve_info s ve))))
    by (rewrite Sh; repeat split).
  clear Sh. destruct F as (Fview & Fkeys & Fws & Fnext & Frq & Fwq & Fva & Fmap & Fadm).
  destruct Hq as [Hrq Hwq].
  assert (Hst : s_small t).
  { apply (small_after s t Hs); [rewrite Fnext; exact (proj1 Hs)|exact Hlt|split; assumption]. }
  destruct (sync_quiescent c t now Hc Ht Hst) as (s'' & Es'' & H' & Hq').
  rewrite Es in Es''. injection Es'' as <-.
  split; [exact H'|]. split; [exact Hq'|]. split; [exact Hov|].
  destruct (apply_reads_inv c [] 1 t Hc Ht (small_load_1 t Hst))
    as (s1 & Er & H1 & _ & _ & _ & _ & Rva & _ & _ & Rws & _).
  (* what the applied read did *)
  assert (P : quiescent s1 /\ s_view s1 = s_view t /\ s_ws s1 = s_ws t /\
              s_lru_keys s1 = match ov with Some _ => touch k (s_lru_keys t) | None => s_lru_keys t end).
  { rewrite Hov. unfold s_view at 3. rewrite lookup_fmap. subst o.
    destruct (s_map s !! k) as [ve|] eqn:Em; cbn [fmap option_fmap option_map].
    - assert (Hp : pending_hit t k (sc_hash c k) ve now).
      { split; [rewrite Fwq; exact Hwq|]. split; [exact Frq|]. split; [rewrite Fmap; exact Em|].
        rewrite Fadm. apply (quiescent_admitted c s k ve H); [split; assumption|exact Em]. }
      destruct (s_pending_hit_outcome c t k _ ve now s1 Hc Ht Hst Hp Er) as (_ & A & B & _ & C & D & _).
      auto.
    - assert (Hwt : s_wq t = []) by (rewrite Fwq; exact Hwq).
      destruct (s_pending_miss_outcome c t (sc_hash c k) s1 Hc Ht Hst Hwt Frq Er)
        as (_ & A & B & _ & C & D & _).
      rewrite !s_lru_keys_eq, B. auto. }
  destruct P as (Hq1 & P1 & P2 & P3).
  assert (Hk1 := SInvQ_sk_ok _ _ _ H1).
  rewrite (s_sync_after_op c t now s1 s1 s'); try assumption.
  - destruct (quiet_frame c s1 Hk1) as (A & B & C & _). rewrite A, B, C, P1, P2, P3, Fview, Fws, Fkeys. auto.
  - rewrite Frq. exact Er.
  - rewrite (proj2 Hq1). reflexivity.
  - destruct Hx as (A & B & C). split; [exact A|]. split; [exact B|]. rewrite Rva, Fva. exact C.
  - unfold within in *. rewrite P2, Fws. exact Hw.
Qed.

Theorem s_get_sync_outcome c r k r1 v r2 o2 :
  let s := sr_state r in let s' := sr_state r2 in
  scfg_ok c -> SInv c s -> s_small s -> quiescent s -> noexp c s -> within c s ->
  sstep c r (SGet k) = Ok (r1, SOVal (Some v)) -> sstep c r1 SSync = Ok (r2, o2) ->
  SInv c s' /\ quiescent s' /\ s_view s !! k = Some v /\
  s_view s' = s_view s /\ s_lru_keys s' = touch k (s_lru_keys s) /\ s_ws s' = s_ws s.
Proof.
  destruct r as [s now]. cbn [sr_state sr_now]. cbv zeta. intros Hc H Hs Hq Hx Hw E1 E2.
  cbn [sstep sr_state sr_now] in E1.
  destruct (s_get c s now k) as [[t ov]|] eqn:Eg; cbn [rbind] in E1; [|discriminate].
  injection E1 as <- ->. cbn [sstep sr_state sr_now] in E2.
  destruct (s_sync c t now) as [s'|] eqn:Es; cbn [rbind] in E2; [|discriminate].
  injection E2 as <- <-. cbn [sr_state].
  destruct (s_get_sync_common c s now k t (Some v) s' Hc H Hs Hq Hx Hw Eg Es) as (A & B & C & D & E & F).
  split; [exact A|]. split; [exact B|]. split; [symmetry; exact C|].
  split; [exact D|]. split; [exact F|exact E].
Qed.

Theorem s_miss_sync_outcome c r k r1 r2 o2 :
  let s := sr_state r in let s' := sr_state r2 in
  scfg_ok c -> SInv c s -> s_small s -> quiescent s -> noexp c s -> within c s ->
  sstep c r (SGet k) = Ok (r1, SOVal None) -> sstep c r1 SSync = Ok (r2, o2) ->
  SInv c s' /\ quiescent s' /\ s_view s !! k = None /\
  s_view s' = s_view s /\ s_lru_keys s' = s_lru_keys s /\ s_ws s' = s_ws s.
Proof.
  destruct r as [s now]. cbn [sr_state sr_now]. cbv zeta. intros Hc H Hs Hq Hx Hw E1 E2.
  cbn [sstep sr_state sr_now] in E1.
  destruct (s_get c s now k) as [[t ov]|] eqn:Eg; cbn [rbind] in E1; [|discriminate].
  injection E1 as <- ->. cbn [sstep sr_state sr_now] in E2.
  destruct (s_sync c t now) as [s'|] eqn:Es; cbn [rbind] in E2; [|discriminate].
  injection E2 as <- <-. cbn [sr_state].
  destruct (s_get_sync_common c s now k t None s' Hc H Hs Hq Hx Hw Eg Es) as (A & B & C & D & E & F).
  split; [exact A|]. split; [exact B|]. split; [symmetry; exact C|].
  split; [exact D|]. split; [exact F|exact E].
Qed.

(* ------------------------------------------------------------------ *)
(** * (3) update of a resident key ; sync *)

Lemma keys_weight_cons c m k ks : keys_weight c m (k :: ks) = key_weight c m k + keys_weight c m ks.
Proof. reflexivity. Qed.

(** in a quiescent state the applied weight of every LRU node is the weigher's of what the map holds *)
Lemma nodes_weight c s (l : list (N * saonode)) :
  SInvG c [] s -> (forall n nd, (n, nd) ∈ l -> (n, nd) ∈ s_prob s) ->
  sum_w (triples_of s l) = keys_weight c (s_view s) (keys_of l).
Proof.
  intros H. induction l as [|[n nd] l IH]; intros Hl; [reflexivity|].
  rewrite triples_of_cons, sum_w_cons, keys_of_cons, keys_weight_cons.
  rewrite IH by (intros n' nd' Hin; apply Hl; right; exact Hin). f_equal.
  destruct (node_clean c [] s n nd H no_removes_nil (Hl n nd ltac:(left)))
    as (x & ve & _ & _ & _ & _ & Hm & Hve).
  unfold tr_of. cbn [fst snd]. unfold key_weight, s_view. rewrite lookup_fmap, Hm.
  cbn [fmap option_fmap option_map]. rewrite <- Hve.
  destruct (gw_weight _ _ _ H _ _ Hm) as [(k0 & h0 & ow & nw & Hin)|Hwt]; [|exact Hwt].
  apply elem_of_nil in Hin. destruct Hin.
Qed.

Lemma lru_weight c s n :
  SInvG c [] s ->
  sum_w (take n (s_lru_triples s)) = keys_weight c (s_view s) (take n (s_lru_keys s)).
Proof.
  intros H. rewrite s_lru_triples_eq, s_lru_keys_eq, <- triples_of_take, <- keys_of_take.
  apply nodes_weight; [exact H|]. intros m nd Hin.
  exact (sublist_elem _ _ _ (sublist_take _ _) Hin).
Qed.

Lemma batch_s_ne0 : batch_s <> 0%nat.
Proof. vm_compute. discriminate. Qed.

Lemma touch_length_ne0 k l : k ∈ l -> length (touch k l) <> 0%nat.
Proof.
  intros Hin. unfold touch. rewrite (existsb_eqb_true k l Hin), app_length. cbn [length]. lia.
Qed.

(** the size-eviction tail of a maintenance run, uniformly in whether it has anything to do *)
Lemma evict_tail c s3 s' :
  SInvG c [] s3 ->
  (if 0 <? s_weights_to_evict c s3 then s_evict_lru_loop batch_s s3 (s_weights_to_evict c s3) 0 else Ok s3)
    = Ok s' ->
  exists n, SInvG c [] s' /\ lru_cut n s3 s' /\
    (n = 0%nat \/ sum_w (take (n - 1) (s_lru_triples s3)) < s_weights_to_evict c s3) /\
    (s_weights_to_evict c s3 <= sum_w (take n (s_lru_triples s3)) \/ n = batch_s \/ n = length (s_prob s3)).
Proof.
  intros H. destruct (N.ltb_spec 0 (s_weights_to_evict c s3)) as [Hpos|Hz].
  - intros E. exact (s_evict_lru_prefix_gen c s3 _ s' H E).
  - intros [= <-]. exists 0%nat. split; [exact H|]. split; [apply lru_cut_0|].
    split; [left; reflexivity|]. left. lia.
Qed.

Lemma info_weight_le_ws c q s i x :
  SInvG c q s -> s_infos s !! i = Some x -> si_admitted x = true -> si_weight x <= s_ws s.
Proof.
  intros H Hi Ha. rewrite (ga_ws _ _ _ H), admitted_infos_adm.
  destruct (adm_split _ _ _ Hi) as [_ Hwt]. unfold wt_of in Hwt. rewrite Ha in Hwt. lia.
Qed.

Theorem s_update_sync_outcome c r k v v0 r1 o1 r2 o2 :
  let s := sr_state r in let s' := sr_state r2 in let w := sweigh c k v in
  scfg_ok c -> SInv c s -> s_small s -> s_next s + 1 < 2 ^ 31 ->
  quiescent s -> noexp c s -> within c s ->
  s_view s !! k = Some v0 ->
  sstep c r (SInsert k v) = Ok (r1, o1) -> sstep c r1 SSync = Ok (r2, o2) ->
  SInv c s' /\ quiescent s' /\
  let order := touch k (s_lru_keys s) in           (* k moved to the MRU end *)
  let m := <[k := v]> (s_view s) in                (* the contents after the update *)
  let total := s_ws s + w - sweigh c k v0 in       (* the weighted size after the update *)
  let excess := match sc_cap c with Some cap => total - cap | None => 0 end in
  k ∈ s_lru_keys s /\ sweigh c k v0 <= s_ws s /\
  exists n,   (* n entries evicted from the LRU end of the reordered list *)
    s_lru_keys s' = drop n order /\
    s_view s' = delete_keys (take n order) m /\
    s_ws s' + keys_weight c m (take n order) = total /\
    (* the shortest prefix covering the excess (or a whole batch, or everything) *)
    (n = 0%nat \/ keys_weight c m (take (n - 1) order) < excess) /\
    (excess <= keys_weight c m (take n order) \/ n = batch_s \/ n = length order) /\
    (n = 0%nat <-> excess = 0) /\
    (within c s' \/ n = batch_s).
Proof.
  destruct r as [s now]. cbn [sr_state sr_now]. cbv zeta. intros Hc H Hs Hn Hq Hx Hw Hv E1 E2.
  cbn [sstep sr_state sr_now] in E1.
  destruct (s_insert_inv c s now k v Hc H Hs) as (t & Et & Ht & Hnt & Hlt).
  rewrite Et in E1. cbn [rbind] in E1. injection E1 as <- <-. cbn [sstep sr_state sr_now] in E2.
  (* the old entry *)
  assert (Hm : exists ve0, s_map s !! k = Some ve0 /\ sv_val (get_ve s ve0) = v0).
  { unfold s_view in Hv. rewrite lookup_fmap in Hv. destruct (s_map s !! k) as [ve0|]; [|discriminate].
    injection Hv as Hv. eauto. }
  destruct Hm as (ve0 & Hm & Hv0).
  destruct (map_entry_info c [] s k ve0 H Hm) as (x & Hi & Hkx).
  pose proof (get_info_Some _ _ _ Hi) as Hgx.
  pose proof (quiescent_admitted c s k ve0 H Hq Hm) as Ha. rewrite Hgx in Ha.
  pose proof (SInv_quiescent_G c s H Hq) as HG.
  assert (Hwx : si_weight x = sweigh c k v0).
  { destruct (gw_weight _ _ _ HG _ _ Hm) as [(k0 & h0 & ow & nw & Hin)|Hwt].
    - apply elem_of_nil in Hin. destruct Hin.
    - rewrite Hgx, Hv0 in Hwt. exact Hwt. }
  pose proof (info_weight_le_ws c [] s _ x HG Hi Ha) as Hle. rewrite Hwx in Hle.
  destruct (s_insert_update_shape c s now k v ve0 t (SInvQ_sk_ok _ _ _ H) Hq Hx Hw Hm Et)
    as (sk & on & sa & Hf & Sh).
  rewrite Hgx in Sh. set (i := ve_info s ve0) in *. set (ve := s_next s) in *. set (w := sweigh c k v) in *.
  set (x' := si_set_lm now (si_set_la now (si_set_dirty true x))) in *.
  assert (F : s_map t = <[k := ve]> (s_map s) /\ s_ves t = <[ve := mkSV v i]> (s_ves s) /\
     s_infos t = <[i := x']> (s_infos s) /\
     s_prob t = s_prob s /\ s_rq t = [] /\ s_wq t = [WUpsert k (sc_hash c k) ve (si_weight x) w] /\
     s_ws t = s_ws s /\ s_va t = None /\ s_next t = s_next s + 1)
    by (rewrite Sh; repeat split).
  clear Sh. destruct F as (Fmap & Fves & Finfos & Fprob & Frq & Fwq & Fws & Fva & Fnext).
  assert (Hst : s_small t).
  { apply (small_after s t Hs); [rewrite Fnext; exact Hn|exact Hlt|exact Hq]. }
  destruct (sync_quiescent c t now Hc Ht Hst) as (s' & Es' & H' & Hq').
  rewrite Es' in E2. cbn [rbind] in E2. injection E2 as <- <-. cbn [sr_state].
  split; [exact H'|]. split; [exact Hq'|].
  assert (Hvi : ve_info t ve = i).
  { unfold ve_info, get_ve. rewrite Fves, lookup_insert. reflexivity. }
  assert (Hgi : get_info t i = x').
  { unfold get_info. rewrite Finfos, lookup_insert. reflexivity. }
  assert (Hp : pending_update c t k ve (si_weight x) w).
  { split; [exact Frq|]. split; [exact Fwq|]. split; [rewrite Fmap; apply lookup_insert|].
    rewrite Hvi, Hgi. exact Ha. }
  destruct (apply_writes_inv c [] 1 t Hc Ht) as (s2 & Ew & H2 & _ & _ & _ & _ & Wva & _).
  { rewrite Fnext. rewrite pow2_31 in Hn. change (2 ^ 32) with 4294967296. lia. }
  destruct (s_pending_update_outcome c t k ve (si_weight x) w s2 Hc Ht Hst Hp Ew)
    as (_ & Hq2 & P1 & P2 & P3 & _ & P4 & _).
  rewrite Hvi, Hgi in P4. change (si_weight x') with (si_weight x) in P4. rewrite Hwx, Fws in P4.
  assert (Vt : s_view t = <[k := v]> (s_view s)).
  { apply (s_view_insert_new s t k ve (mkSV v i) Fmap Fves). intros k' ve' Hm' ->.
    pose proof (map_ve_lt _ _ _ _ _ H Hm'). subst ve. lia. }
  assert (Kt : s_lru_keys t = s_lru_keys s) by (rewrite !s_lru_keys_eq, Fprob; reflexivity).
  rewrite Kt in P1, P2. rewrite Vt in P3.
  split; [exact P2|]. split; [exact Hle|].
  (* the maintenance run *)
  pose proof (SInvQ_sk_ok _ _ _ H2) as Hk2.
  assert (Hx2 : noexp c s2).
  { destruct Hx as (A & B & _). split; [exact A|]. split; [exact B|]. rewrite Wva. exact Fva. }
  assert (E3 : apply_reads t (length (s_rq t)) = Ok t) by (rewrite Frq; reflexivity).
  assert (E4 : apply_writes c t (length (s_wq t)) = Ok s2) by (rewrite Fwq; exact Ew).
  rewrite (s_sync_round c t now t s2 E3 E4 Hk2 Hq2 Hx2) in Es'. cbv zeta in Es'.
  destruct (quiet_frame c s2 Hk2) as (Q1 & Q2 & Q3 & _).
  pose proof (quiet_inv c [] s2 H2) as H3.
  assert (Hq3 : quiescent (quiet c s2)).
  { destruct (quiet_shape c s2 Hk2) as (sk3 & on3 & -> & _). exact Hq2. }
  set (s3 := quiet c s2) in *.
  pose proof (SInvQ_quiescent_G c s3 H3 Hq3) as HG3.
  destruct (evict_tail c s3 s' HG3 Es') as (n & HG' & C & A1 & A2).
  rewrite (lru_weight c s3 (n - 1) HG3) in A1. rewrite (lru_weight c s3 n HG3) in A2.
  pose proof (lc_ws _ _ _ C) as Cws. rewrite (lru_weight c s3 _ HG3) in Cws.
  pose proof (lru_cut_keys _ _ _ C) as Ckeys. pose proof (lru_cut_view _ _ _ C) as Cview.
  assert (Hlen : length (s_prob s3) = length (s_lru_keys s3)) by (rewrite s_lru_keys_eq, keys_of_length; reflexivity).
  rewrite Hlen in A2.
  assert (Hws3 : s_ws s3 = s_ws s + w - sweigh c k v0) by lia.
  assert (Hte : s_weights_to_evict c s3 =
                match sc_cap c with Some cap => s_ws s + w - sweigh c k v0 - cap | None => 0 end).
  { unfold s_weights_to_evict, sat_sub. rewrite Hws3. reflexivity. }
  rewrite Hte in A1, A2. rewrite Q2, P1 in *. rewrite Q1, P3 in *. rewrite Hws3 in Cws.
  clear Hte.
  set (order := touch k (s_lru_keys s)) in *. set (m := <[k := v]> (s_view s)) in *.
  set (excess := match sc_cap c with Some cap => s_ws s + w - sweigh c k v0 - cap | None => 0 end) in *.
  exists n. split; [exact Ckeys|]. split; [exact Cview|]. split; [exact Cws|].
  split; [exact A1|]. split; [exact A2|].
  pose proof (touch_length_ne0 k _ P2) as Hlen0. fold order in Hlen0.
  pose proof batch_s_ne0 as Hb0.
  split.
  - split.
    + intros ->. rewrite take_0 in A2. change (keys_weight c m []) with 0 in A2.
      destruct A2 as [A2|[A2|A2]]; [lia|congruence|congruence].
    + intros Hz. destruct A1 as [A1|A1]; [exact A1|lia].
  - destruct A2 as [A2|[A2|A2]].
    + left. unfold within. subst excess. destruct (sc_cap c) as [cap|]; [lia|exact I].
    + right. exact A2.
    + left. unfold within. destruct (sc_cap c) as [cap|]; [|exact I].
      rewrite (empty_prob_ws c [] s' HG'); [lia|].
      rewrite (lc_prob _ _ _ C). apply drop_ge. rewrite Hlen. lia.
Qed.

(* ------------------------------------------------------------------ *)
(** * Non-vacuity: concrete reachable runs *)

Definition run_of (c : scfg) (ops : list sop) : srun :=
  match srun_ops c srun_init ops with Ok (r, _) => r | Err _ => srun_init end.

Lemma run_of_inv c ops :
  scfg_ok c -> N.of_nat (length ops) < 2 ^ 18 -> SInv c (sr_state (run_of c ops)).
Proof.
  intros Hc Hl. destruct (srun_safe c ops Hc Hl) as (r & outs & E & W).
  unfold run_of. rewrite E. exact W.
Qed.

(** a third configuration: capacity 10, weigher [v mod 16] *)
Definition exs_cfg : scfg :=
  mkSCfg (Some 10) None None (Some (fun _ v => v mod 16)) (fun k => k mod two64).

Lemma exs_cfg_ok : scfg_ok exs_cfg.
Proof.
  split.
  - intros f k v [= <-]. pose proof (N.mod_lt v 16). unfold two32. lia.
  - intros k. cbn [sc_hash exs_cfg]. apply N.mod_lt. discriminate.
Qed.

Ltac e2e_atom :=
  lazymatch goal with
  | |- scfg_ok _ => first [exact ex_cfg_ok|exact exw_cfg_ok|exact exs_cfg_ok]
  | |- SInv _ _ =>
      apply run_of_inv; [first [exact ex_cfg_ok|exact exw_cfg_ok|exact exs_cfg_ok]
                        |rewrite pow2_18; vm_compute; reflexivity]
  | |- s_small _ => ex_small
  | |- _ < 2 ^ 31 => rewrite pow2_31; vm_compute; reflexivity
  | |- _ <= _ => vm_compute; discriminate
  | |- True => exact I
  | |- _ = _ => vm_compute; reflexivity
  | |- match _ with _ => _ end => vm_compute; first [discriminate|exact I]
  end.
Ltac e2e_solve :=
  cbv zeta; unfold quiescent, noexp, within;
  repeat match goal with |- _ /\ _ => split end; e2e_atom.

(** keys 1, 2 resident in a cache of capacity 2; key 3 looked up twice (warm) or never (cold) *)
Definition e2e_warm : list sop := [SInsert 1 10; SSync; SInsert 2 20; SSync; SGet 3; SGet 3; SSync].
Definition e2e_cold : list sop := [SInsert 1 10; SSync; SInsert 2 20; SSync].
(** the same with the clock past the periodical sync point: the insert itself runs no maintenance *)
Definition e2e_warm_late : list sop := e2e_warm ++ [SAdvance (sync_interval + 1)].

(** (1), admitted with eviction: the hypotheses hold, in the regime where the insert itself runs a
    maintenance pass, and the computed outcome evicts exactly the LRU key 1 *)
Example s_insert_sync_example_admitted :
  let r := run_of ex_cfg e2e_warm in
  let r1 := run_of ex_cfg (e2e_warm ++ [SInsert 3 30]) in
  let r2 := run_of ex_cfg (e2e_warm ++ [SInsert 3 30; SSync]) in
  let s := sr_state r in let s' := sr_state r2 in
  (scfg_ok ex_cfg /\ SInv ex_cfg s /\ s_small s /\ s_next s + 2 < 2 ^ 31 /\
   quiescent s /\ noexp ex_cfg s /\ within ex_cfg s /\ s_map s !! 3 = None /\
   sstep ex_cfg r (SInsert 3 30) = Ok (r1, SONone) /\ sstep ex_cfg r1 SSync = Ok (r2, SONone)) /\
  (sr_now r <=? s_sync_after s) = true /\
  sc_cap ex_cfg = Some 2 /\ s_ws s = 2 /\ sweigh ex_cfg 3 30 = 1 /\
  tinylfu_victims (s_lru_triples s) 1 (frequency (s_sk s) (sc_hash ex_cfg 3)) = Some [(1, 1, 0)] /\
  map_to_list (s_view s) = [(1, 10); (2, 20)] /\ s_lru_keys s = [1; 2] /\
  map_to_list (s_view s') = [(3, 30); (2, 20)] /\ s_lru_keys s' = [2; 3] /\ s_ws s' = 2.
Proof. e2e_solve. Qed.

(** (1), admitted with eviction, in the other regime: the insert runs no maintenance *)
Example s_insert_sync_example_admitted_late :
  let r := run_of ex_cfg e2e_warm_late in
  let r1 := run_of ex_cfg (e2e_warm_late ++ [SInsert 3 30]) in
  let r2 := run_of ex_cfg (e2e_warm_late ++ [SInsert 3 30; SSync]) in
  let s := sr_state r in let s' := sr_state r2 in
  (scfg_ok ex_cfg /\ SInv ex_cfg s /\ s_small s /\ s_next s + 2 < 2 ^ 31 /\
   quiescent s /\ noexp ex_cfg s /\ within ex_cfg s /\ s_map s !! 3 = None /\
   sstep ex_cfg r (SInsert 3 30) = Ok (r1, SONone) /\ sstep ex_cfg r1 SSync = Ok (r2, SONone)) /\
  (sr_now r <=? s_sync_after s) = false /\
  sc_cap ex_cfg = Some 2 /\ s_ws s = 2 /\ sweigh ex_cfg 3 30 = 1 /\
  tinylfu_victims (s_lru_triples s) 1 (frequency (s_sk s) (sc_hash ex_cfg 3)) = Some [(1, 1, 0)] /\
  s_lru_keys s = [1; 2] /\
  map_to_list (s_view s') = [(3, 30); (2, 20)] /\ s_lru_keys s' = [2; 3] /\ s_ws s' = 2.
Proof. e2e_solve. Qed.

(** (1), rejected: never looked up, key 3 loses against the LRU resident and nothing changes *)
Example s_insert_sync_example_rejected :
  let r := run_of ex_cfg e2e_cold in
  let r1 := run_of ex_cfg (e2e_cold ++ [SInsert 3 30]) in
  let r2 := run_of ex_cfg (e2e_cold ++ [SInsert 3 30; SSync]) in
  let s := sr_state r in let s' := sr_state r2 in
  (scfg_ok ex_cfg /\ SInv ex_cfg s /\ s_small s /\ s_next s + 2 < 2 ^ 31 /\
   quiescent s /\ noexp ex_cfg s /\ within ex_cfg s /\ s_map s !! 3 = None /\
   sstep ex_cfg r (SInsert 3 30) = Ok (r1, SONone) /\ sstep ex_cfg r1 SSync = Ok (r2, SONone)) /\
  sc_cap ex_cfg = Some 2 /\ s_ws s = 2 /\ sweigh ex_cfg 3 30 = 1 /\
  tinylfu_victims (s_lru_triples s) 1 (frequency (s_sk s) (sc_hash ex_cfg 3)) = None /\
  map_to_list (s_view s) = [(1, 10); (2, 20)] /\ s_lru_keys s = [1; 2] /\
  map_to_list (s_view s') = [(1, 10); (2, 20)] /\ s_lru_keys s' = [1; 2] /\ s_ws s' = 2.
Proof. e2e_solve. Qed.

(** (2), (2'): a hit of key 1 makes 2 the LRU key; a miss of key 7 changes nothing *)
Example s_get_sync_example :
  let r := run_of ex_cfg e2e_cold in
  let r1 := run_of ex_cfg (e2e_cold ++ [SGet 1]) in
  let r2 := run_of ex_cfg (e2e_cold ++ [SGet 1; SSync]) in
  let q1 := run_of ex_cfg (e2e_cold ++ [SGet 7]) in
  let q2 := run_of ex_cfg (e2e_cold ++ [SGet 7; SSync]) in
  let s := sr_state r in
  (scfg_ok ex_cfg /\ SInv ex_cfg s /\ s_small s /\ quiescent s /\ noexp ex_cfg s /\ within ex_cfg s /\
   sstep ex_cfg r (SGet 1) = Ok (r1, SOVal (Some 10)) /\ sstep ex_cfg r1 SSync = Ok (r2, SONone) /\
   sstep ex_cfg r (SGet 7) = Ok (q1, SOVal None) /\ sstep ex_cfg q1 SSync = Ok (q2, SONone)) /\
  s_lru_keys s = [1; 2] /\ s_lru_keys (sr_state r2) = [2; 1] /\ s_lru_keys (sr_state q2) = [1; 2].
Proof. e2e_solve. Qed.

(** (3), within capacity (capacity 100, weigher [v mod 16]): key 1 (weight 3) is overwritten by a
    value of weight 7 *)
Definition e2e_upd : list sop := [SInsert 1 3; SSync; SInsert 2 4; SSync].

Example s_update_sync_example_fits :
  let r := run_of exw_cfg e2e_upd in
  let r1 := run_of exw_cfg (e2e_upd ++ [SInsert 1 7]) in
  let r2 := run_of exw_cfg (e2e_upd ++ [SInsert 1 7; SSync]) in
  let s := sr_state r in let s' := sr_state r2 in
  (scfg_ok exw_cfg /\ SInv exw_cfg s /\ s_small s /\ s_next s + 1 < 2 ^ 31 /\
   quiescent s /\ noexp exw_cfg s /\ within exw_cfg s /\ s_view s !! 1 = Some 3 /\
   sstep exw_cfg r (SInsert 1 7) = Ok (r1, SONone) /\ sstep exw_cfg r1 SSync = Ok (r2, SONone)) /\
  s_lru_keys s = [1; 2] /\ s_ws s = 7 /\
  s_lru_keys s' = [2; 1] /\ map_to_list (s_view s') = [(1, 7); (2, 4)] /\ s_ws s' = 11.
Proof. e2e_solve. Qed.

(** (3), over capacity (capacity 10): keys 1, 2, 3 of weights 3, 4, 2; key 2 is overwritten by a
    value of weight 9: the excess is 4 and the two LRU keys 1 and 3 (weights 3 + 2) are evicted *)
Definition e2e_over : list sop := [SInsert 1 3; SSync; SInsert 2 4; SSync; SInsert 3 2; SSync].

Example s_update_sync_example_over :
  let r := run_of exs_cfg e2e_over in
  let r1 := run_of exs_cfg (e2e_over ++ [SInsert 2 9]) in
  let r2 := run_of exs_cfg (e2e_over ++ [SInsert 2 9; SSync]) in
  let s := sr_state r in let s' := sr_state r2 in
  (scfg_ok exs_cfg /\ SInv exs_cfg s /\ s_small s /\ s_next s + 1 < 2 ^ 31 /\
   quiescent s /\ noexp exs_cfg s /\ within exs_cfg s /\ s_view s !! 2 = Some 4 /\
   sstep exs_cfg r (SInsert 2 9) = Ok (r1, SONone) /\ sstep exs_cfg r1 SSync = Ok (r2, SONone)) /\
  sc_cap exs_cfg = Some 10 /\ s_lru_keys s = [1; 2; 3] /\ s_ws s = 9 /\
  touch 2 (s_lru_keys s) = [1; 3; 2] /\
  keys_weight exs_cfg (<[2 := 9]> (s_view s)) [1] = 3 /\
  keys_weight exs_cfg (<[2 := 9]> (s_view s)) [1; 3] = 5 /\
  s_lru_keys s' = [2] /\ map_to_list (s_view s') = [(2, 9)] /\ s_ws s' = 9.
Proof. e2e_solve. Qed.

(** the theorems instantiated on the example runs agree with the computation *)
Example s_end_to_end_examples_thm :
  (let s := sr_state (run_of ex_cfg e2e_warm) in
   let s' := sr_state (run_of ex_cfg (e2e_warm ++ [SInsert 3 30; SSync])) in
   s_view s' = <[3 := 30]> (delete_keys [1] (s_view s)) /\ s_lru_keys s' = drop 1 (s_lru_keys s) ++ [3]) /\
  (let s := sr_state (run_of ex_cfg e2e_warm_late) in
   let s' := sr_state (run_of ex_cfg (e2e_warm_late ++ [SInsert 3 30; SSync])) in
   s_view s' = <[3 := 30]> (delete_keys [1] (s_view s)) /\ s_lru_keys s' = drop 1 (s_lru_keys s) ++ [3]) /\
  (let s := sr_state (run_of ex_cfg e2e_cold) in
   let s' := sr_state (run_of ex_cfg (e2e_cold ++ [SInsert 3 30; SSync])) in
   s_view s' = s_view s /\ s_lru_keys s' = s_lru_keys s /\ s_ws s' = s_ws s) /\
  (let s := sr_state (run_of ex_cfg e2e_cold) in
   let s' := sr_state (run_of ex_cfg (e2e_cold ++ [SGet 1; SSync])) in
   let t' := sr_state (run_of ex_cfg (e2e_cold ++ [SGet 7; SSync])) in
   s_view s' = s_view s /\ s_lru_keys s' = touch 1 (s_lru_keys s) /\
   s_view t' = s_view s /\ s_lru_keys t' = s_lru_keys s) /\
  (let s := sr_state (run_of exw_cfg e2e_upd) in
   let s' := sr_state (run_of exw_cfg (e2e_upd ++ [SInsert 1 7; SSync])) in
   s_lru_keys s' = touch 1 (s_lru_keys s) /\ s_view s' = <[1 := 7]> (s_view s) /\ s_ws s' = s_ws s + 7 - 3) /\
  (let s := sr_state (run_of exs_cfg e2e_over) in
   let s' := sr_state (run_of exs_cfg (e2e_over ++ [SInsert 2 9; SSync])) in
   s_lru_keys s' = drop 2 (touch 2 (s_lru_keys s)) /\
   s_view s' = delete_keys (take 2 (touch 2 (s_lru_keys s))) (<[2 := 9]> (s_view s)) /\
   s_ws s' + 5 = s_ws s + 9 - 4).
Proof.
  cbv zeta.
  split; [|split; [|split; [|split; [|split]]]].
  - destruct s_insert_sync_example_admitted
      as ((Hc & W & Hs & Hn & Hq & Hx & Hw & Hm & E1 & E2) & _ & Hcap & Hws & Hwt & Hv & _).
    pose proof (s_insert_sync_outcome _ _ _ _ _ _ _ _ Hc W Hs Hn Hq Hx Hw Hm E1 E2) as (_ & _ & P).
    cbv zeta in P. rewrite Hcap, Hws, Hwt in P.
    change (2 + 1 <=? 2) with false in P. change (2 <? 1) with false in P. cbv iota in P.
    rewrite Hv in P. destruct P as (A & B & _). split; [exact A|exact B].
  - destruct s_insert_sync_example_admitted_late
      as ((Hc & W & Hs & Hn & Hq & Hx & Hw & Hm & E1 & E2) & _ & Hcap & Hws & Hwt & Hv & _).
    pose proof (s_insert_sync_outcome _ _ _ _ _ _ _ _ Hc W Hs Hn Hq Hx Hw Hm E1 E2) as (_ & _ & P).
    cbv zeta in P. rewrite Hcap, Hws, Hwt in P.
    change (2 + 1 <=? 2) with false in P. change (2 <? 1) with false in P. cbv iota in P.
    rewrite Hv in P. destruct P as (A & B & _). split; [exact A|exact B].
  - destruct s_insert_sync_example_rejected
      as ((Hc & W & Hs & Hn & Hq & Hx & Hw & Hm & E1 & E2) & Hcap & Hws & Hwt & Hv & _).
    pose proof (s_insert_sync_outcome _ _ _ _ _ _ _ _ Hc W Hs Hn Hq Hx Hw Hm E1 E2) as (_ & _ & P).
    cbv zeta in P. rewrite Hcap, Hws, Hwt in P.
    change (2 + 1 <=? 2) with false in P. change (2 <? 1) with false in P. cbv iota in P.
    rewrite Hv in P. exact P.
  - destruct s_get_sync_example as ((Hc & W & Hs & Hq & Hx & Hw & E1 & E2 & E3 & E4) & _).
    pose proof (s_get_sync_outcome _ _ _ _ _ _ _ Hc W Hs Hq Hx Hw E1 E2) as (_ & _ & _ & A & B & _).
    pose proof (s_miss_sync_outcome _ _ _ _ _ _ Hc W Hs Hq Hx Hw E3 E4) as (_ & _ & _ & C & D & _).
    auto.
  - destruct s_update_sync_example_fits
      as ((Hc & W & Hs & Hn & Hq & Hx & Hw & Hv & E1 & E2) & _ & Hws & _).
    pose proof (s_update_sync_outcome _ _ _ _ _ _ _ _ _ Hc W Hs Hn Hq Hx Hw Hv E1 E2)
      as (_ & _ & _ & _ & n & A & B & C & _ & _ & [_ Hz] & _).
    cbv zeta in Hz, C. rewrite Hws in Hz.
    assert (n = 0%nat) as -> by (apply Hz; vm_compute; reflexivity).
    rewrite drop_0 in A. rewrite take_0 in B, C.
    split; [exact A|]. split; [exact B|]. change (keys_weight exw_cfg _ []) with 0 in C.
    rewrite N.add_0_r in C. exact C.
  - destruct s_update_sync_example_over
      as ((Hc & W & Hs & Hn & Hq & Hx & Hw & Hv & E1 & E2) & Hcap & _ & Hws & Ho & K1 & K2 & _).
    pose proof (s_update_sync_outcome _ _ _ _ _ _ _ _ _ Hc W Hs Hn Hq Hx Hw Hv E1 E2)
      as (_ & _ & _ & _ & n & A & B & C & A1 & A2 & _ & _).
    cbv zeta in A1, A2, C. rewrite Hcap, Hws in A1, A2.
    change (sweigh exs_cfg 2 9) with 9 in *. change (sweigh exs_cfg 2 4) with 4 in *.
    change (9 + 9 - 4 - 10) with 4 in A1, A2.
    rewrite Ho in A1, A2.
    assert (n = 2%nat) as ->.
    { destruct n as [|[|[|[|n]]]]; cbn [take Nat.sub] in A1, A2.
      - change (keys_weight _ _ []) with 0 in A2. destruct A2 as [?|[?|?]]; [lia|discriminate|discriminate].
      - rewrite K1 in A2. destruct A2 as [?|[?|?]]; [lia|discriminate|discriminate].
      - reflexivity.
      - rewrite K2 in A1. destruct A1 as [?|?]; [discriminate|lia].
      - exfalso. destruct A1 as [?|A1]; [discriminate|].
        vm_compute in A1. destruct n; discriminate. }
    rewrite Ho in C. cbn [take] in C. rewrite K2 in C.
    split; [exact A|]. split; [exact B|exact C].
Qed.

Print Assumptions s_insert_sync_outcome.
Print Assumptions s_get_sync_outcome.
Print Assumptions s_miss_sync_outcome.
Print Assumptions s_update_sync_outcome.
Print Assumptions s_insert_sync_example_admitted.
Print Assumptions s_insert_sync_example_admitted_late.
Print Assumptions s_insert_sync_example_rejected.
Print Assumptions s_get_sync_example.
Print Assumptions s_update_sync_example_fits.
Print Assumptions s_update_sync_example_over.
Print Assumptions s_end_to_end_examples_thm.

(** Summary and deviations from the contract.

    [s_insert_sync_outcome] (1), [s_get_sync_outcome] (2), [s_miss_sync_outcome] (2') and
    [s_update_sync_outcome] (3) compose the public op (from a quiescent state, in either housekeeping
    regime: [hk_quiet] covers both branches of [hk_maybe_sync]) with the following [SSync] and state
    the outcome on the state before the op.  Deviations:

    - (1) has the extra hypothesis [s_next s + 2 < 2 ^ 31] and (3) has [s_next s + 1 < 2 ^ 31]: the
      op allocates 2 (resp. 1) ids and the op-application theorems of SPolicy.v / SRecency.v
      ([s_pending_insert_outcome], [s_pending_update_outcome]) want [s_small] of the intermediate
      state; [s_small s] alone allows [s_next s = 2 ^ 31 - 1].  Every state reachable with fewer
      than 2 ^ 31 - 2 allocations satisfies it (see the examples).  (2), (2') need nothing extra
      (a look-up allocates nothing; the sketch table never grows in these steps).
    - the sketch may be enabled by either maintenance run; enabling replaces the empty sketch by an
      all-zero table, so every estimate stays 0 ([frequency_enable], [quiet_shape]) and
      [s_lru_triples] / the candidate's estimate in (1) are those of the state before the op.
    - (2') additionally concludes [s_view s !! k = None] (the look-up really was a miss).
    - (3): the eviction clause is the conclusion of [s_evict_lru_prefix_gen] on the state after the
      update was applied, re-expressed on the state BEFORE the op: the order is
      [touch k (s_lru_keys s)], the contents [<[k := v]> (s_view s)], and the weight of a prefix is
      measured with the weigher on those contents ([keys_weight]; in a quiescent state this is the
      applied weight of the nodes, [lru_weight]).  [n] is the shortest prefix covering the excess
      [s_ws s + w - sweigh c k v0 - cap], unless a whole batch ([batch_s]) or the whole list was
      evicted; [n = 0 <-> excess = 0]; [within c s' \/ n = batch_s].  It additionally concludes that
      [k] was in the LRU order and that its old weight was accounted in [s_ws s].
    - [noexp] is phrased with [sc_ttl c = None /\ sc_tti c = None /\ s_va s = None] as in the task. *)
