(** Vocabulary for the policy theorems of the concurrent cache in its sequential regime
    (C03, C04, C12, C13: "with maintenance after every operation").  Definitions only. *)
From MM Require Export Sync.SInvDefs Unsync.UPolicyDefs.

(** key -> value view of the hash map *)
Definition s_view (s : sstate) : gmap N N := (fun ve => sv_val (get_ve s ve)) <$> s_map s.

(** the LRU order as keys, front = least recently used *)
Definition s_lru_keys (s : sstate) : list N := sa_key <$> (s_prob s).*2.

(** (key, applied weight, popularity estimate) of every access-order node, front first *)
Definition s_lru_triples (s : sstate) : list (N * N * N) :=
  (fun nd => (sa_key nd, si_weight (get_info s (sa_info nd)), frequency (s_sk s) (sa_hash nd))) <$> (s_prob s).*2.

(** the only thing queued is the write op of a fresh insert of key k (value entry ve, weight w) *)
Definition pending_insert (c : scfg) (s : sstate) (k ve w : N) : Prop :=
  s_rq s = [] /\ s_wq s = [WUpsert k (sc_hash c k) ve 0 w] /\
  s_map s !! k = Some ve /\ si_admitted (get_info s (ve_info s ve)) = false.
