(** C01 in purely syntactic terms: whatever get / contains_key / iteration show for a key
    after ANY history is the value of the textually last insert of that key in the history
    (no reference state in the statement: [u_last_insert] / [s_last_insert] scan the list of
    operations and ignore everything but inserts of the key). *)
From MM Require Import Spec.History Spec.HistoryFacts Contract.Trace Contract.UnsyncTrace
  Contract.SyncTrace Contract.Deadline Unsync.UInvDefs.

(** value of the last insert of [k] among abstract operations *)
Definition a_upd (k : N) (acc : option N) (a : aop) : option N :=
  match a with
  | AInsert k' v => if N.eqb k' k then Some v else acc
  | _ => acc
  end.

(** [acc] knows the value of every cell the reference state holds for k *)
Definition tracks (k : N) (r : rstate) (acc : option N) : Prop :=
  forall rc, r !! k = Some rc -> acc = Some (rc_val rc).

Lemma tracks_empty k : tracks k ∅ None.
Proof. intros rc H. unfold rstate in *. by rewrite lookup_empty in H. Qed.

Lemma tracks_step f now k r acc a :
  tracks k r acc -> tracks k (rstep f now r a) (a_upd k acc a).
Proof.
  intros T rc. destruct a as [k' v|k' [v|]|k'| |p|]; cbn [rstep a_upd]; unfold rstate in *.
  - destruct (N.eqb_spec k' k) as [->|Hne].
    + rewrite lookup_insert. by intros [= <-].
    + rewrite lookup_insert_ne by exact Hne. apply T.
  - destruct (r !! k') as [c|] eqn:Hk'; [|apply T].
    destruct (decide (k' = k)) as [->|Hne].
    + rewrite lookup_insert. intros [= <-]. cbn [rc_val]. by apply T.
    + rewrite lookup_insert_ne by exact Hne. apply T.
  - apply T.
  - intros H. apply lookup_delete_Some in H as [_ H]. by apply T.
  - destruct f.
    + by rewrite lookup_empty.
    + intros H. apply map_filter_lookup_Some in H as [H _]. by apply T.
  - intros H. apply map_filter_lookup_Some in H as [H _]. by apply T.
  - apply T.
Qed.

(** ---------------- single-threaded cache ---------------- *)
Definition u_upd (k : N) (acc : option N) (o : uop) : option N :=
  match o with
  | UInsert k' v => if N.eqb k' k then Some v else acc
  | _ => acc
  end.
Definition u_last_insert (k : N) (ops : list uop) : option N := fold_left (u_upd k) ops None.

Lemma u_upd_aop k acc o out : a_upd k acc (aop_of_u o out) = u_upd k acc o.
Proof. destruct o, out; reflexivity. Qed.

Lemma u_ref_after_tracks c k : forall ops r run acc r' run',
  tracks k r acc -> u_ref_after c r run ops = Some (r', run') ->
  tracks k r' (fold_left (u_upd k) ops acc).
Proof.
  induction ops as [|o ops IH]; intros r run acc r' run' T H; cbn [u_ref_after fold_left] in *.
  - by injection H as <- <-.
  - destruct (ustep c run o) as [[run1 out]|]; [|discriminate].
    eapply IH; [|exact H]. rewrite <- (u_upd_aop k acc o out). by apply tracks_step.
Qed.

Theorem u_get_returns_last_insert c ops k r run run' v :
  cfg_ok c -> N.of_nat (length (ops ++ [UGet k])) < 2 ^ 24 ->
  u_ref_after c ∅ urun_init ops = Some (r, run) ->
  ustep c run (UGet k) = Ok (run', OVal (Some v)) -> u_last_insert k ops = Some v.
Proof.
  intros Hc Hn Href Hstep.
  pose proof (u_out_ok_after _ _ _ _ _ _ _ Hc Hn Href Hstep) as (rc & Hk & Hv & _).
  pose proof (u_ref_after_tracks c k ops ∅ urun_init None r run (tracks_empty k) Href rc Hk) as H.
  unfold u_last_insert. by rewrite H, Hv.
Qed.

Theorem u_iter_shows_last_insert c ops r run run' l :
  cfg_ok c -> N.of_nat (length (ops ++ [UIter])) < 2 ^ 24 ->
  u_ref_after c ∅ urun_init ops = Some (r, run) ->
  ustep c run UIter = Ok (run', OList l) ->
  forall k v, (k, v) ∈ l -> u_last_insert k ops = Some v.
Proof.
  intros Hc Hn Href Hstep k v Hin.
  pose proof (u_out_ok_after _ _ _ _ _ _ _ Hc Hn Href Hstep) as [_ J].
  destruct (J k v Hin) as (rc & Hk & Hv & _).
  pose proof (u_ref_after_tracks c k ops ∅ urun_init None r run (tracks_empty k) Href rc Hk) as H.
  unfold u_last_insert. by rewrite H, Hv.
Qed.

Theorem u_contains_needs_insert c ops k r run run' :
  cfg_ok c -> N.of_nat (length (ops ++ [UContains k])) < 2 ^ 24 ->
  u_ref_after c ∅ urun_init ops = Some (r, run) ->
  ustep c run (UContains k) = Ok (run', OBool true) -> exists v, u_last_insert k ops = Some v.
Proof.
  intros Hc Hn Href Hstep.
  pose proof (u_out_ok_after _ _ _ _ _ _ _ Hc Hn Href Hstep) as (v & rc & Hk & Hv & _).
  pose proof (u_ref_after_tracks c k ops ∅ urun_init None r run (tracks_empty k) Href rc Hk) as H.
  exists v. unfold u_last_insert. by rewrite H, Hv.
Qed.

(** ---------------- concurrent cache (sequential regime) ---------------- *)
Definition s_upd (k : N) (acc : option N) (o : sop) : option N :=
  match o with
  | SInsert k' v => if N.eqb k' k then Some v else acc
  | _ => acc
  end.
Definition s_last_insert (k : N) (ops : list sop) : option N := fold_left (s_upd k) ops None.

Lemma s_upd_aop k acc o out : a_upd k acc (aop_of_s o out) = s_upd k acc o.
Proof. destruct o, out; reflexivity. Qed.

Lemma s_ref_after_tracks c k : forall ops r run acc r' run',
  tracks k r acc -> s_ref_after c r run ops = Some (r', run') ->
  tracks k r' (fold_left (s_upd k) ops acc).
Proof.
  induction ops as [|o ops IH]; intros r run acc r' run' T H; cbn [s_ref_after fold_left] in *.
  - by injection H as <- <-.
  - destruct (sstep c run o) as [[run1 out]|]; [|discriminate].
    eapply IH; [|exact H]. rewrite <- (s_upd_aop k acc o out). by apply tracks_step.
Qed.

Theorem s_get_returns_last_insert c ops k r run run' v :
  s_ref_after c ∅ srun_init ops = Some (r, run) ->
  sstep c run (SGet k) = Ok (run', SOVal (Some v)) -> s_last_insert k ops = Some v.
Proof.
  intros Href Hstep.
  pose proof (s_out_ok_after _ _ _ _ _ _ _ Href Hstep) as (rc & Hk & Hv & _).
  pose proof (s_ref_after_tracks c k ops ∅ srun_init None r run (tracks_empty k) Href rc Hk) as H.
  unfold s_last_insert. by rewrite H, Hv.
Qed.

Theorem s_iter_shows_last_insert c ops r run run' l :
  s_ref_after c ∅ srun_init ops = Some (r, run) ->
  sstep c run SIter = Ok (run', SOList l) ->
  forall k v, (k, v) ∈ l -> s_last_insert k ops = Some v.
Proof.
  intros Href Hstep k v Hin.
  pose proof (s_out_ok_after _ _ _ _ _ _ _ Href Hstep) as [_ J].
  destruct (J k v Hin) as (rc & Hk & Hv & _).
  pose proof (s_ref_after_tracks c k ops ∅ srun_init None r run (tracks_empty k) Href rc Hk) as H.
  unfold s_last_insert. by rewrite H, Hv.
Qed.

(** not vacuous: a history on which get answers, with the value of the last of two inserts *)
Example u_last_insert_sample :
  let c := mkUCfg None None None None (fun k => k) in
  let ops := [UInsert 1 10; UInsert 2 20; UInsert 1 11; UInvalidate 2] in
  match u_ref_after c ∅ urun_init ops with
  | Some (_, run) =>
    match ustep c run (UGet 1) with Ok (_, OVal res) => Some (res, u_last_insert 1 ops) | _ => None end
  | None => None
  end = Some (Some 11, Some 11).
Proof. vm_compute. reflexivity. Qed.

Print Assumptions u_get_returns_last_insert.
Print Assumptions s_iter_shows_last_insert.
