(** The concurrent cache run by one thread: every lookup answer of every run is
    justified by the history-level reference state ([s_trace_ok_all]); an entry that
    the reference state lacks never shows up again until its key is inserted again
    ([s_invalidated_never_reappears]).

    Structure:
    - [fr H s s']: the FRAME that every maintenance function satisfies whenever it
      returns [Ok]: the map only shrinks, value entries and [valid_after] are
      untouched, the allocation counter only grows, the read queue only shrinks, and
      an EntryInfo keeps its key and last_modified, while its last_accessed is either
      unchanged or the time stamp of a read hit of [H] recorded for that info;
    - [Inv r s now]: the coupling invariant between the reference state and the
      cache state;
    - per-operation lemmas and the induction over histories. *)
From MM Require Import Contract.Trace Spec.HistoryFacts.

(** * Small tools *)

Ltac sproj :=
  unfold upd_info, sset_map, sset_ves, sset_infos, sset_prob, sset_wo, sset_rq, sset_wq,
    sset_ec, sset_ws, sset_va, sset_sk, sset_sa, sset_next;
  cbn [s_map s_ves s_infos s_prob s_wo s_rq s_wq s_ec s_ws s_va s_sk s_skon s_sync_after s_next].

Ltac sproj_in H :=
  unfold upd_info, sset_map, sset_ves, sset_infos, sset_prob, sset_wo, sset_rq, sset_wq,
    sset_ec, sset_ws, sset_va, sset_sk, sset_sa, sset_next in H;
  cbn [s_map s_ves s_infos s_prob s_wo s_rq s_wq s_ec s_ws s_va s_sk s_skon s_sync_after s_next] in H.

(** one step through a hypothesis [H : <monadic code> = Ok _]; a let-bound state is
    kept as a local definition (no duplication of terms) *)
Ltac rstep H :=
  lazymatch type of H with
  | (let x := ?v in @?b x) = ?rhs =>
    lazymatch type of v with
    | sstate => let y := fresh "st" in pose (y := v); change (b y = rhs) in H; cbv beta in H
    | _ => change (b v = rhs) in H; cbv beta in H
    end
  | rbind ?m ?f = ?rhs =>
    let E := fresh "E" in
    let a := fresh "a" in
    destruct m as [a|] eqn:E; [change (f a = rhs) in H; cbv beta in H | discriminate H]
  | (if ?b then _ else _) = Ok _ => let E := fresh "E" in destruct b eqn:E
  | (match ?x with _ => _ end) = Ok _ => let E := fresh "E" in destruct x eqn:E
  | Ok _ = Ok _ => let H' := fresh "E" in injection H as H'; try subst
  | Err _ = Ok _ => discriminate H
  end.

Lemma ve_info_ves s s' ve : s_ves s' = s_ves s -> ve_info s' ve = ve_info s ve.
Proof. intros E. unfold ve_info, get_ve. rewrite E. reflexivity. Qed.

Lemma get_ve_Some s ve e : s_ves s !! ve = Some e -> get_ve s ve = e.
Proof. intros E. unfold get_ve. rewrite E. reflexivity. Qed.

Lemma get_info_Some s i x : s_infos s !! i = Some x -> get_info s i = x.
Proof. intros E. unfold get_info. rewrite E. reflexivity. Qed.

(** * The frame of maintenance *)

Definition hit_for (H : list readop) (s : sstate) (i ts : N) : Prop :=
  exists h ve, RHit h ve ts ∈ H /\ ve_info s ve = i.

Record fr (H : list readop) (s s' : sstate) : Prop := mkFr {
  fr_map : s_map s' ⊆ s_map s;
  fr_ves : s_ves s' = s_ves s;
  fr_va : s_va s' = s_va s;
  fr_next : s_next s <= s_next s';
  fr_rq : forall o, o ∈ s_rq s' -> o ∈ s_rq s;
  fr_infos : forall i x, s_infos s !! i = Some x ->
    exists x', s_infos s' !! i = Some x' /\ si_key x' = si_key x /\ si_lm x' = si_lm x /\
      (si_la x' = si_la x \/ hit_for H s i (si_la x'))
}.

Lemma fr_refl H s : fr H s s.
Proof.
  split; try reflexivity; try lia; auto.
  intros i x Hx. exists x. auto.
Qed.

Lemma fr_mono H H' s s' : (forall o, o ∈ H -> o ∈ H') -> fr H s s' -> fr H' s s'.
Proof.
  intros Hsub [A B C D E F]. split; auto.
  intros i x Hx. destruct (F i x Hx) as (x' & F1 & F2 & F3 & F4).
  exists x'. repeat split; auto. destruct F4 as [F4|(h & ve & F4 & F5)]; [left; exact F4|].
  right. exists h, ve. auto.
Qed.

Lemma fr_nil H s s' : fr [] s s' -> fr H s s'.
Proof. apply fr_mono. intros o Ho. inversion Ho. Qed.

Lemma fr_trans H s s1 s2 : fr H s s1 -> fr H s1 s2 -> fr H s s2.
Proof.
  intros [A B C D E F] [A' B' C' D' E' F']. split.
  - etransitivity; eassumption.
  - congruence.
  - congruence.
  - lia.
  - auto.
  - intros i x Hx. destruct (F i x Hx) as (x1 & F1 & F2 & F3 & F4).
    destruct (F' i x1 F1) as (x2 & G1 & G2 & G3 & G4).
    exists x2. split; [exact G1|]. split; [congruence|]. split; [congruence|].
    destruct G4 as [G4|(h & ve & G4 & G5)].
    + rewrite G4. exact F4.
    + right. exists h, ve. split; [exact G4|]. rewrite <- G5. symmetry. apply ve_info_ves. exact B.
Qed.

(** the frame of a piece of maintenance that starts from the read queue of its state *)
Lemma fr_trans_rq s s1 s2 :
  fr (s_rq s) s s1 -> fr (s_rq s1) s1 s2 -> fr (s_rq s) s s2.
Proof.
  intros F1 F2. eapply fr_trans; [exact F1|]. eapply fr_mono; [|exact F2].
  apply (fr_rq _ _ _ F1).
Qed.

(** states that agree on the fields the frame talks about *)
Lemma fr_core s s' :
  s_map s' = s_map s -> s_ves s' = s_ves s -> s_infos s' = s_infos s -> s_va s' = s_va s ->
  s_next s' = s_next s -> s_rq s' = s_rq s -> fr [] s s'.
Proof.
  intros A B C D E F. split.
  - rewrite A. reflexivity.
  - exact B.
  - exact D.
  - lia.
  - intros o. rewrite F. auto.
  - intros i x Hx. exists x. rewrite C. auto.
Qed.

(** updates of an EntryInfo that leave key, last_modified and last_accessed alone *)
Definition keeps (f : sinfo -> sinfo) : Prop :=
  forall x, si_key (f x) = si_key x /\ si_lm (f x) = si_lm x /\ si_la (f x) = si_la x.

Lemma fr_upd_info s i f : keeps f -> fr [] s (upd_info s i f).
Proof.
  intros K. split; sproj; try reflexivity; try lia; auto.
  intros j x Hx. destruct (decide (j = i)) as [->|Hne].
  - rewrite lookup_insert. exists (f (get_info s i)). rewrite (get_info_Some _ _ _ Hx).
    destruct (K x) as (K1 & K2 & K3). auto.
  - rewrite lookup_insert_ne by congruence. exists x. auto.
Qed.

Section steps.
  Context (H : list readop) (s t : sstate).

  Lemma fr_step_upd i f : keeps f -> fr H s t -> fr H s (upd_info t i f).
  Proof. intros K F. eapply fr_trans; [exact F|]. apply fr_nil, fr_upd_info, K. Qed.

  Lemma fr_step_core t' :
    s_map t' = s_map t -> s_ves t' = s_ves t -> s_infos t' = s_infos t -> s_va t' = s_va t ->
    s_next t' = s_next t -> s_rq t' = s_rq t -> fr H s t -> fr H s t'.
  Proof. intros. eapply fr_trans; [eassumption|]. apply fr_nil, fr_core; assumption. Qed.

  Lemma fr_step_prob x : fr H s t -> fr H s (sset_prob t x).
  Proof. apply fr_step_core; reflexivity. Qed.
  Lemma fr_step_wo x : fr H s t -> fr H s (sset_wo t x).
  Proof. apply fr_step_core; reflexivity. Qed.
  Lemma fr_step_wq x : fr H s t -> fr H s (sset_wq t x).
  Proof. apply fr_step_core; reflexivity. Qed.
  Lemma fr_step_ec x : fr H s t -> fr H s (sset_ec t x).
  Proof. apply fr_step_core; reflexivity. Qed.
  Lemma fr_step_ws x : fr H s t -> fr H s (sset_ws t x).
  Proof. apply fr_step_core; reflexivity. Qed.
  Lemma fr_step_sk x b : fr H s t -> fr H s (sset_sk t x b).
  Proof. apply fr_step_core; reflexivity. Qed.
  Lemma fr_step_sa x : fr H s t -> fr H s (sset_sa t x).
  Proof. apply fr_step_core; reflexivity. Qed.

  Lemma fr_step_next n : fr H s t -> s_next t <= n -> fr H s (sset_next t n).
  Proof.
    intros F L. eapply fr_trans; [exact F|]. apply fr_nil.
    split; sproj; try reflexivity; auto.
    intros i x Hx. exists x. auto.
  Qed.

  Lemma fr_step_map m : fr H s t -> m ⊆ s_map t -> fr H s (sset_map t m).
  Proof.
    intros F L. eapply fr_trans; [exact F|]. apply fr_nil.
    split; sproj; try reflexivity; try lia; auto.
    intros i x Hx. exists x. auto.
  Qed.

  Lemma fr_step_rq l : fr H s t -> (forall o, o ∈ l -> o ∈ s_rq t) -> fr H s (sset_rq t l).
  Proof.
    intros F L. eapply fr_trans; [exact F|]. apply fr_nil.
    split; sproj; try reflexivity; try lia; auto.
    intros i x Hx. exists x. auto.
  Qed.
End steps.

Ltac keeps_tac := intros ?; cbn; auto.

Ltac fr_go :=
  lazymatch goal with
  | |- fr _ ?s ?s => apply fr_refl
  | |- fr ?H ?s (let x := ?v in @?b x) =>
    lazymatch type of v with
    | sstate => let y := fresh "st" in pose (y := v); change (fr H s (b y)); cbv beta; fr_go
    | _ => change (fr H s (b v)); cbv beta; fr_go
    end
  | |- fr _ _ (upd_info _ _ _) => apply fr_step_upd; [keeps_tac | fr_go]
  | |- fr _ _ (sset_prob _ _) => apply fr_step_prob; fr_go
  | |- fr _ _ (sset_wo _ _) => apply fr_step_wo; fr_go
  | |- fr _ _ (sset_wq _ _) => apply fr_step_wq; fr_go
  | |- fr _ _ (sset_ec _ _) => apply fr_step_ec; fr_go
  | |- fr _ _ (sset_ws _ _) => apply fr_step_ws; fr_go
  | |- fr _ _ (sset_sk _ _ _) => apply fr_step_sk; fr_go
  | |- fr _ _ (sset_sa _ _) => apply fr_step_sa; fr_go
  | |- fr _ _ (sset_next _ _) => apply fr_step_next; [fr_go | sproj; lia]
  | |- fr _ _ (sset_map _ (delete _ _)) => apply fr_step_map; [fr_go | apply delete_subseteq]
  | |- fr _ _ (if ?b then _ else _) => destruct b; fr_go
  | |- fr _ _ (match ?x with _ => _ end) => destruct x; fr_go
  | |- fr _ _ ?v =>
    is_var v;
    first [ progress unfold v; fr_go
          | lazymatch goal with
            | F : fr _ _ v |- _ =>
              first [ exact F | apply fr_nil; exact F
                    | eapply fr_trans; [|first [exact F | apply fr_nil; exact F]]; fr_go ]
            end ]
  end.

(** * Every maintenance function satisfies the frame *)

Lemma s_move_to_back_ao_fr s i s' : s_move_to_back_ao s i = Ok s' -> fr [] s s'.
Proof.
  unfold s_move_to_back_ao. intros E. repeat rstep E; fr_go.
Qed.

Lemma s_move_to_back_wo_fr s i s' : s_move_to_back_wo s i = Ok s' -> fr [] s s'.
Proof.
  unfold s_move_to_back_wo. intros E. repeat rstep E; fr_go.
Qed.

Lemma apply_read_fr s o s' : apply_read s o = Ok s' -> fr [o] s s'.
Proof.
  unfold apply_read. intros E. destruct o as [h ve ts|h].
  - rstep E. cbv zeta in E.
    set (s1 := sset_sk s a (s_skon s)) in *.
    assert (F1 : fr [RHit h ve ts] s s1) by (subst s1; fr_go).
    set (i := ve_info s1 ve) in *.
    set (s2 := if si_la (get_info s1 i) <? ts then upd_info s1 i (si_set_la ts) else s1) in *.
    assert (F2 : fr [RHit h ve ts] s s2).
    { subst s2. destruct (si_la (get_info s1 i) <? ts); [|exact F1].
      eapply fr_trans; [exact F1|]. clear F1.
      split; sproj; try reflexivity; try lia; auto.
      intros j x Hx. destruct (decide (j = i)) as [->|Hne].
      - rewrite lookup_insert. eexists. split; [reflexivity|].
        cbn [si_set_la si_key si_lm si_la].
        unfold get_info. cbn [s_infos s1 sset_sk]. 
        replace (s_infos s1) with (s_infos s) in * by reflexivity.
        rewrite Hx. cbn [default]. repeat split; auto.
        right. exists h, ve. split; [apply elem_of_list_here|reflexivity].
      - rewrite lookup_insert_ne by congruence. exists x. auto. }
    clearbody s2. clear F1. clearbody i. clearbody s1.
    rstep E.
    + apply s_move_to_back_ao_fr in E. fr_go.
    + rstep E. exact F2.
  - repeat rstep E. fr_go.
Qed.

Lemma apply_reads_fr n : forall s s', apply_reads s n = Ok s' -> fr (s_rq s) s s'.
Proof.
  induction n as [|n IH]; intros s s' E; cbn [apply_reads] in E.
  - rstep E. apply fr_refl.
  - destruct (s_rq s) as [|o rest] eqn:Erq.
    + rstep E. apply fr_refl.
    + rstep E. apply apply_read_fr in E0. apply IH in E.
      assert (F0 : fr (o :: rest) s (sset_rq s rest)).
      { apply fr_step_rq; [apply fr_refl|]. intros o' Ho'. rewrite Erq. apply elem_of_list_further, Ho'. }
      assert (F1 : fr (o :: rest) s a).
      { eapply fr_trans; [exact F0|]. eapply fr_mono; [|exact E0].
        intros o' Ho'. apply elem_of_list_singleton in Ho'. subst. apply elem_of_list_here. }
      eapply fr_trans; [exact F1|]. eapply fr_mono; [|exact E].
      intros o' Ho'. apply (fr_rq _ _ _ E0) in Ho'. cbn in Ho'. apply elem_of_list_further, Ho'.
Qed.

Lemma handle_admit_fr c s k h ve w s' : handle_admit c s k h ve w = Ok s' -> fr [] s s'.
Proof.
  cbv beta delta [handle_admit]. intros E. repeat rstep E. fr_go.
Qed.

Lemma s_unlink_nodes_fr s i s' : s_unlink_nodes s i = Ok s' -> fr [] s s'.
Proof.
  unfold s_unlink_nodes. intros E. rstep E. rstep E. rstep E. fr_go.
Qed.

Lemma handle_remove_fr s i s' : handle_remove s i = Ok s' -> fr [] s s'.
Proof.
  unfold handle_remove. intros E. rstep E.
  - rstep E. apply s_unlink_nodes_fr in E. fr_go.
  - rstep E. fr_go.
Qed.

Ltac fr_hyps1 :=
  repeat match goal with
  | E : s_move_to_back_ao _ _ = Ok _ |- _ => apply s_move_to_back_ao_fr in E
  | E : s_move_to_back_wo _ _ = Ok _ |- _ => apply s_move_to_back_wo_fr in E
  | E : handle_admit _ _ _ _ _ _ = Ok _ |- _ => apply handle_admit_fr in E
  | E : handle_remove _ _ = Ok _ |- _ => apply handle_remove_fr in E
  | E : s_unlink_nodes _ _ = Ok _ |- _ => apply s_unlink_nodes_fr in E
  end.

Lemma s_remove_victims_fr victims : forall s skipped s' l,
  s_remove_victims s victims skipped = Ok (s', l) -> fr [] s s'.
Proof.
  induction victims as [|nid rest IH]; intros s skipped s' l E; cbn [s_remove_victims] in E.
  - rstep E. apply fr_refl.
  - rstep E; [|discriminate E]. rstep E.
    + rstep E. apply IH in E. fr_hyps1. fr_go.
    + apply IH in E. exact E.
Qed.

Lemma s_move_skipped_fr skipped : forall s s', s_move_skipped s skipped = Ok s' -> fr [] s s'.
Proof.
  induction skipped as [|nid rest IH]; intros s s' E; cbn [s_move_skipped] in E.
  - rstep E. apply fr_refl.
  - rstep E. apply IH in E. fr_go.
Qed.

Ltac fr_hyps2 :=
  fr_hyps1;
  repeat match goal with
  | E : s_remove_victims _ _ _ = Ok (_, _) |- _ => apply s_remove_victims_fr in E
  | E : s_move_skipped _ _ = Ok _ |- _ => apply s_move_skipped_fr in E
  end.

Lemma handle_upsert_fr c s k h ve ow nw s' : handle_upsert c s k h ve ow nw = Ok s' -> fr [] s s'.
Proof.
  cbv beta delta [handle_upsert]. intros E. repeat rstep E; fr_hyps2; fr_go.
Qed.

Lemma apply_write_fr c s o s' : apply_write c s o = Ok s' -> fr [] s s'.
Proof.
  destruct o; cbn [apply_write]; intros E.
  - apply handle_upsert_fr in E. exact E.
  - apply handle_remove_fr in E. exact E.
Qed.

Lemma apply_writes_fr c n : forall s s', apply_writes c s n = Ok s' -> fr [] s s'.
Proof.
  induction n as [|n IH]; intros s s' E; cbn [apply_writes] in E.
  - rstep E. apply fr_refl.
  - rstep E.
    + rstep E. apply fr_refl.
    + rstep E. apply apply_write_fr in E1. apply IH in E. fr_go.
Qed.

Lemma try_skip_updated_entry_fr s k s' b :
  try_skip_updated_entry s k = Ok (s', b) -> fr [] s s'.
Proof.
  cbv beta delta [try_skip_updated_entry]. intros E. repeat rstep E; fr_hyps2; fr_go.
Qed.

Ltac fr_hyps3 :=
  fr_hyps2;
  repeat match goal with
  | E : try_skip_updated_entry _ _ = Ok (_, _) |- _ => apply try_skip_updated_entry_fr in E
  end.

Lemma s_remove_expired_wo_fr c now fuel : forall s s',
  s_remove_expired_wo c fuel s now = Ok s' -> fr [] s s'.
Proof.
  induction fuel as [|fuel IH]; intros s s' E; cbn beta iota delta [s_remove_expired_wo] in E.
  - rstep E. apply fr_refl.
  - repeat rstep E; try apply fr_refl; try apply IH in E; fr_hyps3; fr_go.
Qed.

Lemma s_remove_expired_ao_fr c now fuel : forall s s',
  s_remove_expired_ao c fuel s now = Ok s' -> fr [] s s'.
Proof.
  induction fuel as [|fuel IH]; intros s s' E; cbn beta iota delta [s_remove_expired_ao] in E.
  - rstep E. apply fr_refl.
  - repeat rstep E; try apply fr_refl; try apply IH in E; fr_hyps3; fr_go.
Qed.

Lemma s_evict_expired_fr c s now s' : s_evict_expired c s now = Ok s' -> fr [] s s'.
Proof.
  cbv beta delta [s_evict_expired]. intros E. rstep E.
  assert (F : fr [] s a).
  { destruct (sc_ttl c); [apply s_remove_expired_wo_fr in E0; exact E0|].
    injection E0 as <-. apply fr_refl. }
  clear E0.
  assert (F' : fr [] a s').
  { destruct (sc_tti c), (s_va a); try (apply s_remove_expired_ao_fr in E; exact E).
    injection E as <-. apply fr_refl. }
  fr_go.
Qed.

Lemma s_evict_lru_loop_fr fuel : forall s te ev s',
  s_evict_lru_loop fuel s te ev = Ok s' -> fr [] s s'.
Proof.
  induction fuel as [|fuel IH]; intros s te ev s' E; cbn beta iota delta [s_evict_lru_loop] in E.
  - rstep E. apply fr_refl.
  - repeat rstep E; try apply fr_refl; try apply IH in E; fr_hyps3; fr_go.
Qed.

Lemma s_enable_sketch_fr c s : fr [] s (s_enable_sketch c s).
Proof. unfold s_enable_sketch. destruct (sc_cap c); fr_go. Qed.

Lemma sync_rounds_fr c rounds : forall s s', sync_rounds c rounds s = Ok s' -> fr (s_rq s) s s'.
Proof.
  induction rounds as [|n IH]; intros s s' E; cbn beta iota delta [sync_rounds] in E.
  - rstep E. apply fr_refl.
  - rstep E. rstep E. apply apply_reads_fr in E0. apply apply_writes_fr in E1.
    rstep E.
    assert (F : fr (s_rq s) s st).
    { subst st. eapply fr_trans; [exact E0|]. apply fr_nil.
      destruct (s_should_enable_sketch c a0); [|exact E1].
      eapply fr_trans; [exact E1|]. apply s_enable_sketch_fr. }
    clearbody st. rstep E.
    + apply IH in E. eapply fr_trans_rq; eassumption.
    + rstep E. exact F.
Qed.

Lemma s_sync_fr c s now s' : s_sync c s now = Ok s' -> fr (s_rq s) s s'.
Proof.
  cbv beta delta [s_sync]. intros E. rstep E. apply sync_rounds_fr in E0.
  rstep E.
  assert (F : fr [] a a0).
  { destruct (s_has_expiry c || match s_va a with Some _ => true | None => false end).
    - apply s_evict_expired_fr in E1. exact E1.
    - injection E1 as <-. apply fr_refl. }
  clear E1. rstep E. rstep E.
  - apply s_evict_lru_loop_fr in E. fr_go.
  - rstep E. fr_go.
Qed.

Lemma hk_maybe_sync_fr c s len flush now s' :
  hk_maybe_sync c s len flush now = Ok s' -> fr (s_rq s) s s'.
Proof.
  cbv beta delta [hk_maybe_sync]. intros E. rstep E.
  - apply s_sync_fr in E. cbn in E. eapply fr_trans; [|exact E]. fr_go.
  - rstep E. apply fr_refl.
Qed.

Lemma schedule_write_op_fr c o now fuel : forall s s',
  schedule_write_op c fuel s o now = Ok s' -> fr (s_rq s) s s'.
Proof.
  induction fuel as [|fuel IH]; intros s s' E; cbn beta iota delta [schedule_write_op] in E.
  - discriminate E.
  - rstep E. apply hk_maybe_sync_fr in E0. rstep E.
    + rstep E. fr_go.
    + apply IH in E. eapply fr_trans_rq; eassumption.
Qed.

(** reads: the frame, then possibly the new op at the back of the read queue *)
Lemma record_read_op_fr c s o now s' :
  record_read_op c s o now = Ok s' ->
  exists s1, fr (s_rq s) s s1 /\ (s' = s1 \/ s' = sset_rq s1 (s_rq s1 ++ [o])).
Proof.
  cbv beta delta [record_read_op]. intros E. rstep E. apply hk_maybe_sync_fr in E0.
  exists a. split; [exact E0|]. rstep E; rstep E; auto.
Qed.

(** * The coupling invariant *)

(** the cell of key [k] (value entry [e], info [x]) agrees with the reference state,
    or it is hidden by [valid_after] *)
Definition matches (r : gmap N rcell) (s : sstate) (k : N) (e : sve) (x : sinfo) : Prop :=
  (exists c, r !! k = Some c /\ rc_val c = sv_val e /\ rc_ins c = si_lm x /\ si_la x <= rc_acc c)
  \/ (exists va, s_va s = Some va /\ si_lm x < va).

Record Inv (r : gmap N rcell) (s : sstate) (now : N) : Prop := mkInv {
  inv_map : forall k ve, s_map s !! k = Some ve ->
    exists e x, s_ves s !! ve = Some e /\ s_infos s !! sv_info e = Some x /\ si_key x = k /\
      si_la x <= now /\ matches r s k e x;
  inv_ves : forall ve e, s_ves s !! ve = Some e -> ve < s_next s /\ sv_info e < s_next s;
  inv_va : forall va, s_va s = Some va -> va <= now;
  inv_rq : forall h ve ts, RHit h ve ts ∈ s_rq s -> ts <= now /\
    exists e, s_ves s !! ve = Some e /\
      forall k ve' e' c, s_map s !! k = Some ve' -> s_ves s !! ve' = Some e' ->
        sv_info e' = sv_info e -> r !! k = Some c -> ts <= rc_acc c
}.

Lemma Inv_init : Inv ∅ s_init 0.
Proof.
  split; cbn.
  - intros k ve Hk. rewrite lookup_empty in Hk. discriminate.
  - intros ve e He. rewrite lookup_empty in He. discriminate.
  - discriminate.
  - intros h ve ts Hin. inversion Hin.
Qed.

Lemma Inv_fr r s s' now : Inv r s now -> fr (s_rq s) s s' -> Inv r s' now.
Proof.
  intros [IM IV IA IQ] [FM FV FA FN FQ FI]. split.
  - intros k ve Hk. pose proof (lookup_weaken _ _ _ _ Hk FM) as Hk0.
    destruct (IM k ve Hk0) as (e & x & He & Hx & Hkey & Hla & Hm).
    destruct (FI _ _ Hx) as (x' & Hx' & K1 & K2 & K3).
    assert (Hla' : si_la x' <= now /\
                   (forall c, r !! k = Some c -> si_la x <= rc_acc c -> si_la x' <= rc_acc c)).
    { destruct K3 as [K3|(h & ve0 & Hin & Hinfo)].
      - rewrite K3. auto.
      - destruct (IQ _ _ _ Hin) as (Hts & e0 & He0 & Hacc). split; [exact Hts|].
        intros c Hc _. apply (Hacc k ve e c); auto.
        unfold ve_info in Hinfo. rewrite (get_ve_Some _ _ _ He0) in Hinfo. congruence. }
    destruct Hla' as [Hla1 Hla2].
    exists e, x'. rewrite FV. split; [exact He|]. split; [exact Hx'|]. split; [congruence|].
    split; [exact Hla1|].
    destruct Hm as [(c & Hc & C1 & C2 & C3)|(va & Hva & Hlt)].
    + left. exists c. split; [exact Hc|]. split; [exact C1|]. split; [congruence|]. auto.
    + right. exists va. rewrite FA, K2. auto.
  - intros ve e He. rewrite FV in He. destruct (IV _ _ He). lia.
  - intros va Hva. rewrite FA in Hva. auto.
  - intros h ve ts Hin. apply FQ in Hin. destruct (IQ _ _ _ Hin) as (Hts & e & He & Hacc).
    split; [exact Hts|]. exists e. rewrite FV. split; [exact He|].
    intros k ve' e' c Hk. apply Hacc. exact (lookup_weaken _ _ _ _ Hk FM).
Qed.

Lemma Inv_fr_nil r s s' now : Inv r s now -> fr [] s s' -> Inv r s' now.
Proof. intros I F. eapply Inv_fr; [exact I|]. apply fr_nil, F. Qed.

Lemma Inv_now r s now now' : Inv r s now -> now <= now' -> Inv r s now'.
Proof.
  intros [IM IV IA IQ] L. split.
  - intros k ve Hk. destruct (IM k ve Hk) as (e & x & He & Hx & Hkey & Hla & Hm).
    exists e, x. repeat split; auto. lia.
  - exact IV.
  - intros va Hva. apply IA in Hva. lia.
  - intros h ve ts Hin. destruct (IQ _ _ _ Hin) as (Hts & Hrest). split; [lia|exact Hrest].
Qed.

(** a visible cell is justified by the reference state *)
Lemma visible_justified c r s now k ve :
  Inv r s now -> s_map s !! k = Some ve ->
  info_expired c s (get_info s (sv_info (get_ve s ve))) now = false ->
  justified (sc_ttl c) (sc_tti c) now r k (sv_val (get_ve s ve)).
Proof.
  intros [IM _ _ _] Hk Hexp.
  destruct (IM k ve Hk) as (e & x & He & Hx & Hkey & Hla & Hm).
  rewrite (get_ve_Some _ _ _ He) in *. rewrite (get_info_Some _ _ _ Hx) in Hexp.
  unfold info_expired, s_expired in Hexp.
  apply orb_false_iff in Hexp as [H1 H2].
  apply orb_false_iff in H1 as [H1a H1b]. apply orb_false_iff in H2 as [H2a H2b].
  destruct Hm as [(c0 & Hc & C1 & C2 & C3)|(va & Hva & Hlt)].
  - exists c0. unfold rstate. split; [exact Hc|]. split; [exact C1|]. split.
    + intros d Hd. rewrite Hd in H1b. apply N.leb_gt in H1b. lia.
    + intros d Hd. rewrite Hd in H2b. apply N.leb_gt in H2b. lia.
  - rewrite Hva in H1a. apply N.ltb_ge in H1a. lia.
Qed.

(** ** the effect of the public operations on the invariant *)

Lemma Inv_insert_upd r s now k v old_ve :
  Inv r s now -> s_map s !! k = Some old_ve ->
  let i := ve_info s old_ve in
  let s1 := upd_info s i (fun x => si_set_lm now (si_set_la now (si_set_dirty true x))) in
  let ve := s_next s1 in
  let s2 := sset_next (sset_ves s1 (<[ve := mkSV v i]> (s_ves s1))) (ve + 1) in
  let s3 := sset_map s2 (<[k := ve]> (s_map s2)) in
  Inv (<[k := mkRC v now now]> r) s3 now.
Proof.
  intros [IM IV IA IQ] Hk. cbv zeta.
  destruct (IM k old_ve Hk) as (e0 & x0 & He0 & Hx0 & Hkey0 & Hla0 & Hm0).
  assert (Hi : ve_info s old_ve = sv_info e0).
  { unfold ve_info. rewrite (get_ve_Some _ _ _ He0). reflexivity. }
  rewrite Hi. destruct (IV _ _ He0) as [Hlt0 Hlt0'].
  split; sproj.
  - intros k' ve' Hk'. apply lookup_insert_Some in Hk' as [[<- <-]|[Hne Hk']].
    + exists (mkSV v (sv_info e0)), (si_set_lm now (si_set_la now (si_set_dirty true x0))).
      rewrite lookup_insert. split; [reflexivity|]. cbn [sv_info].
      rewrite lookup_insert. rewrite (get_info_Some _ _ _ Hx0). split; [reflexivity|].
      cbn. split; [exact Hkey0|]. split; [lia|].
      left. eexists. rewrite lookup_insert. split; [reflexivity|]. cbn. repeat split; lia.
    + destruct (IM k' ve' Hk') as (e & x & He & Hx & Hkey & Hla & Hm).
      destruct (IV _ _ He) as [Hlt Hlt'].
      exists e, x. rewrite lookup_insert_ne by lia. split; [exact He|].
      rewrite lookup_insert_ne; [|intros Heq; rewrite <- Heq in Hx; congruence].
      split; [exact Hx|]. split; [exact Hkey|]. split; [exact Hla|].
      destruct Hm as [(c & Hc & C)|Hm]; [left|right; exact Hm].
      exists c. rewrite lookup_insert_ne by congruence. auto.
  - intros ve e He. apply lookup_insert_Some in He as [[<- <-]|[Hne He]].
    + cbn. lia.
    + destruct (IV _ _ He). lia.
  - exact IA.
  - intros h ve ts Hin. destruct (IQ _ _ _ Hin) as (Hts & e & He & Hacc).
    split; [exact Hts|]. exists e. destruct (IV _ _ He) as [Hlt Hlt'].
    rewrite lookup_insert_ne by lia. split; [exact He|].
    intros k' ve' e' c Hk' He' Hinfo Hc.
    apply lookup_insert_Some in Hk' as [[<- <-]|[Hne Hk']].
    + rewrite lookup_insert in Hc. injection Hc as <-. cbn. exact Hts.
    + rewrite lookup_insert_ne in Hc by congruence.
      destruct (IM k' ve' Hk') as (e1 & x1 & He1 & _). destruct (IV _ _ He1) as [Hlt1 _].
      rewrite lookup_insert_ne in He' by lia. exact (Hacc k' ve' e' _ Hk' He' Hinfo Hc).
Qed.

Lemma Inv_insert_new c r s now k v :
  Inv r s now -> s_map s !! k = None ->
  let w := sweigh c k v in
  let i := s_next s in
  let ve := i + 1 in
  let s1 := sset_next (sset_infos s (<[i := mkSI k false true now now w None None]> (s_infos s))) (i + 2) in
  let s2 := sset_ves s1 (<[ve := mkSV v i]> (s_ves s1)) in
  let s3 := sset_map s2 (<[k := ve]> (s_map s2)) in
  Inv (<[k := mkRC v now now]> r) s3 now.
Proof.
  intros [IM IV IA IQ] Hk. cbv zeta.
  split; sproj.
  - intros k' ve' Hk'. apply lookup_insert_Some in Hk' as [[<- <-]|[Hne Hk']].
    + exists (mkSV v (s_next s)), (mkSI k false true now now (sweigh c k v) None None).
      rewrite lookup_insert. split; [reflexivity|]. cbn [sv_info].
      rewrite lookup_insert. split; [reflexivity|].
      cbn. split; [reflexivity|]. split; [lia|].
      left. eexists. rewrite lookup_insert. split; [reflexivity|]. cbn. repeat split; lia.
    + destruct (IM k' ve' Hk') as (e & x & He & Hx & Hkey & Hla & Hm).
      destruct (IV _ _ He) as [Hlt Hlt'].
      exists e, x. rewrite lookup_insert_ne by lia. split; [exact He|].
      rewrite lookup_insert_ne by lia.
      split; [exact Hx|]. split; [exact Hkey|]. split; [exact Hla|].
      destruct Hm as [(c0 & Hc & C)|Hm]; [left|right; exact Hm].
      exists c0. rewrite lookup_insert_ne by congruence. auto.
  - intros ve e He. apply lookup_insert_Some in He as [[<- <-]|[Hne He]].
    + cbn. lia.
    + destruct (IV _ _ He). lia.
  - exact IA.
  - intros h ve ts Hin. destruct (IQ _ _ _ Hin) as (Hts & e & He & Hacc).
    split; [exact Hts|]. exists e. destruct (IV _ _ He) as [Hlt Hlt'].
    rewrite lookup_insert_ne by lia. split; [exact He|].
    intros k' ve' e' c0 Hk' He' Hinfo Hc.
    apply lookup_insert_Some in Hk' as [[<- <-]|[Hne Hk']].
    + rewrite lookup_insert in Hc. injection Hc as <-. cbn. exact Hts.
    + rewrite lookup_insert_ne in Hc by congruence.
      destruct (IM k' ve' Hk') as (e1 & x1 & He1 & _). destruct (IV _ _ He1) as [Hlt1 _].
      rewrite lookup_insert_ne in He' by lia. exact (Hacc k' ve' e' _ Hk' He' Hinfo Hc).
Qed.

Lemma Inv_delete_r r s now k :
  Inv r s now -> s_map s !! k = None -> Inv (delete k r) s now.
Proof.
  intros [IM IV IA IQ] Hk. split.
  - intros k' ve Hk'. assert (k' <> k) by congruence.
    destruct (IM k' ve Hk') as (e & x & He & Hx & Hkey & Hla & Hm).
    exists e, x. repeat split; auto.
    destruct Hm as [(c & Hc & C)|Hm]; [left|right; exact Hm].
    exists c. rewrite lookup_delete_ne by congruence. auto.
  - exact IV.
  - exact IA.
  - intros h ve ts Hin. destruct (IQ _ _ _ Hin) as (Hts & e & He & Hacc).
    split; [exact Hts|]. exists e. split; [exact He|].
    intros k' ve' e' c Hk' He' Hinfo Hc. assert (k' <> k) by congruence.
    rewrite lookup_delete_ne in Hc by congruence. exact (Hacc k' ve' e' _ Hk' He' Hinfo Hc).
Qed.

Lemma Inv_delete r s now k :
  Inv r s now -> Inv (delete k r) (sset_map s (delete k (s_map s))) now.
Proof.
  intros I. apply Inv_delete_r.
  - eapply Inv_fr_nil; [exact I|]. fr_go.
  - sproj. apply lookup_delete.
Qed.

(** a successful get: the reference state records the access *)
Lemma Inv_bump r s now k c :
  Inv r s now -> r !! k = Some c -> Inv (<[k := mkRC (rc_val c) (rc_ins c) now]> r) s now.
Proof.
  intros [IM IV IA IQ] Hk. split.
  - intros k' ve Hk'.
    destruct (IM k' ve Hk') as (e & x & He & Hx & Hkey & Hla & Hm).
    exists e, x. repeat split; auto.
    destruct Hm as [(c' & Hc & C1 & C2 & C3)|Hm]; [left|right; exact Hm].
    destruct (decide (k' = k)) as [->|Hne].
    + rewrite lookup_insert. eexists. split; [reflexivity|]. cbn.
      assert (c' = c) as -> by congruence. auto.
    + exists c'. rewrite lookup_insert_ne by congruence. auto.
  - exact IV.
  - exact IA.
  - intros h ve ts Hin. destruct (IQ _ _ _ Hin) as (Hts & e & He & Hacc).
    split; [exact Hts|]. exists e. split; [exact He|].
    intros k' ve' e' c' Hk' He' Hinfo Hc. destruct (decide (k' = k)) as [->|Hne].
    + rewrite lookup_insert in Hc. injection Hc as <-. cbn. exact Hts.
    + rewrite lookup_insert_ne in Hc by congruence. exact (Hacc k' ve' e' _ Hk' He' Hinfo Hc).
Qed.

(** a read op enters the read queue *)
Lemma Inv_enq r s now o :
  Inv r s now ->
  (forall h ve ts, o = RHit h ve ts -> ts <= now /\
     exists e, s_ves s !! ve = Some e /\
       forall k ve' e' c, s_map s !! k = Some ve' -> s_ves s !! ve' = Some e' ->
         sv_info e' = sv_info e -> r !! k = Some c -> ts <= rc_acc c) ->
  Inv r (sset_rq s (s_rq s ++ [o])) now.
Proof.
  intros [IM IV IA IQ] Ho. split; sproj; auto.
  intros h ve ts Hin. apply elem_of_app in Hin as [Hin|Hin]; [exact (IQ _ _ _ Hin)|].
  apply elem_of_list_singleton in Hin. apply (Ho h). congruence.
Qed.

Lemma Inv_invalidate_all r s now :
  Inv r s now ->
  Inv (filter (fun kc : N * rcell => now <= rc_ins kc.2) r) (sset_va s (Some now)) now.
Proof.
  intros [IM IV IA IQ]. split; sproj.
  - intros k ve Hk.
    destruct (IM k ve Hk) as (e & x & He & Hx & Hkey & Hla & Hm).
    exists e, x. repeat split; auto. unfold matches. sproj.
    destruct Hm as [(c & Hc & C1 & C2 & C3)|(va & Hva & Hlt)].
    + destruct (decide (now <= si_lm x)) as [Hle|Hgt].
      * left. exists c. split; [|auto]. apply map_filter_lookup_Some. split; [exact Hc|].
        cbn. lia.
      * right. exists now. split; [reflexivity|lia].
    + right. exists now. split; [reflexivity|]. apply IA in Hva. lia.
  - exact IV.
  - intros va [= <-]. lia.
  - intros h ve ts Hin. destruct (IQ _ _ _ Hin) as (Hts & e & He & Hacc).
    split; [exact Hts|]. exists e. split; [exact He|].
    intros k' ve' e' c Hk' He' Hinfo Hc. apply map_filter_lookup_Some in Hc as [Hc _].
    exact (Hacc k' ve' e' _ Hk' He' Hinfo Hc).
Qed.

(** ** one step of the run *)

(** the invariant of a run *)
Definition RInv (r : rstate) (run : srun) : Prop := Inv r (sr_state run) (sr_now run).

Lemma s_insert_inv c r s now k v s' :
  Inv r s now -> s_insert c s now k v = Ok s' -> Inv (<[k := mkRC v now now]> r) s' now.
Proof.
  intros I. cbv beta delta [s_insert]. cbv beta zeta.
  destruct (s_map s !! k) as [old_ve|] eqn:Hk; intros E.
  - apply schedule_write_op_fr in E. eapply Inv_fr; [|exact E].
    apply (Inv_insert_upd r s now k v old_ve I Hk).
  - apply schedule_write_op_fr in E. eapply Inv_fr; [|exact E].
    apply (Inv_insert_new c r s now k v I Hk).
Qed.

Lemma s_invalidate_inv c r s now k s' :
  Inv r s now -> s_invalidate c s now k = Ok s' -> Inv (delete k r) s' now.
Proof.
  intros I. unfold s_invalidate. destruct (s_map s !! k) as [ve|] eqn:Hk; intros E.
  - apply schedule_write_op_fr in E. eapply Inv_fr; [|exact E]. apply Inv_delete, I.
  - injection E as <-. apply Inv_delete_r; assumption.
Qed.

Lemma record_miss_inv c r s now h s' :
  Inv r s now -> record_read_op c s (RMiss h) now = Ok s' -> Inv r s' now.
Proof.
  intros I E. apply record_read_op_fr in E as (s1 & F & [->| ->]).
  - eapply Inv_fr; eassumption.
  - apply Inv_enq; [eapply Inv_fr; eassumption|]. discriminate.
Qed.

Lemma record_hit_inv c r s now k ve cl h s' :
  Inv r s now -> s_map s !! k = Some ve -> r !! k = Some cl ->
  record_read_op c s (RHit h ve now) now = Ok s' ->
  Inv (<[k := mkRC (rc_val cl) (rc_ins cl) now]> r) s' now.
Proof.
  intros I Hk Hcl E. apply record_read_op_fr in E as (s1 & F & Hs').
  assert (I1 : Inv r s1 now) by (eapply Inv_fr; eassumption).
  pose proof (Inv_bump _ _ _ _ _ I1 Hcl) as I2.
  destruct Hs' as [->| ->]; [exact I2|].
  apply Inv_enq; [exact I2|].
  intros h' ve0 ts [= <- <- <-]. split; [lia|].
  destruct (inv_map _ _ _ I k ve Hk) as (e & x & He & Hx & Hkey & _).
  exists e. rewrite (fr_ves _ _ _ F). split; [exact He|].
  intros k' ve' e' c' Hk' He' Hinfo Hc'.
  destruct (inv_map _ _ _ I2 k' ve' Hk') as (e1 & x1 & He1 & Hx1 & Hkey1 & _).
  destruct (fr_infos _ _ _ F _ _ Hx) as (x' & Hx' & K1 & _).
  rewrite (fr_ves _ _ _ F) in He1. assert (e1 = e') as -> by congruence.
  rewrite Hinfo in Hx1. assert (x1 = x') as -> by congruence.
  assert (k' = k) as -> by congruence.
  rewrite lookup_insert in Hc'. injection Hc' as <-. cbn. lia.
Qed.

Lemma s_get_inv c r s now k s' res :
  Inv r s now -> s_get c s now k = Ok (s', res) ->
  match res with
  | Some v => justified (sc_ttl c) (sc_tti c) now r k v
  | None => True
  end /\ Inv (rstep FSync now r (AGet k res)) s' now.
Proof.
  intros HI. cbv beta delta [s_get]. cbv beta zeta.
  destruct (s_map s !! k) as [ve|] eqn:Hk; intros E.
  - destruct (info_expired c s (get_info s (sv_info (get_ve s ve))) now) eqn:Hexp.
    + rstep E. rstep E. split; [exact Logic.I|]. cbn [rstep]. eapply record_miss_inv; eassumption.
    + rstep E. rstep E.
      pose proof (visible_justified c r s now k ve HI Hk Hexp) as J.
      split; [exact J|]. destruct J as (cl & Hcl & _). unfold rstate in *.
      cbn [rstep]. unfold rstate in *. rewrite Hcl.
      eapply record_hit_inv; eassumption.
  - rstep E. rstep E. split; [exact Logic.I|]. cbn [rstep]. eapply record_miss_inv; eassumption.
Qed.

Lemma s_contains_ok c r s now k :
  Inv r s now -> s_contains c s now k = true ->
  exists v, justified (sc_ttl c) (sc_tti c) now r k v.
Proof.
  intros I. unfold s_contains. destruct (s_map s !! k) as [ve|] eqn:Hk; [|discriminate].
  intros E. apply negb_true_iff in E. eexists.
  exact (visible_justified c r s now k ve I Hk E).
Qed.

Lemma omap_fst_NoDup {A} (f : N * A -> option (N * N)) (l : list (N * A)) :
  (forall k a k' v, f (k, a) = Some (k', v) -> k' = k) ->
  NoDup l.*1 -> NoDup (omap f l).*1.
Proof.
  intros Hf. induction l as [|[k a] l IH]; intros ND.
  - constructor.
  - cbn [omap list_omap] in *. rewrite fmap_cons in ND. apply NoDup_cons in ND as [Hnin ND].
    destruct (f (k, a)) as [[k' v]|] eqn:Ef; [|auto].
    apply Hf in Ef as ->. rewrite fmap_cons. apply NoDup_cons. split; [|auto].
    cbn [fst]. intros Hin. apply Hnin.
    apply elem_of_list_fmap in Hin as ([k1 v1] & -> & Hin).
    apply elem_of_list_omap in Hin as ([k2 a2] & Hin & Ef2).
    apply Hf in Ef2 as ->. cbn [fst]. apply elem_of_list_fmap. exists (k2, a2). auto.
Qed.

Lemma s_iter_ok c r s now :
  Inv r s now ->
  NoDup (s_iter c s now).*1 /\
  forall k v, (k, v) ∈ s_iter c s now -> justified (sc_ttl c) (sc_tti c) now r k v.
Proof.
  intros I. unfold s_iter. split.
  - apply omap_fst_NoDup; [|apply NoDup_fst_map_to_list].
    intros k a k' v. cbv zeta.
    destruct (info_expired c s (get_info s (sv_info (get_ve s a))) now); [discriminate|].
    intros [= <- _]. reflexivity.
  - intros k v Hin. apply elem_of_list_omap in Hin as ([k0 ve] & Hin & Ef).
    apply elem_of_map_to_list in Hin. cbv zeta in Ef.
    destruct (info_expired c s (get_info s (sv_info (get_ve s ve))) now) eqn:Hexp; [discriminate|].
    injection Ef as <- <-. exact (visible_justified c r s now k0 ve I Hin Hexp).
Qed.

(** one step: the answer is justified and the invariant is re-established for the
    updated reference state *)
Lemma sstep_ok c r run o run' out :
  RInv r run -> sstep c run o = Ok (run', out) ->
  s_out_ok c (sr_now run) r o out /\
  RInv (rstep FSync (sr_now run) r (aop_of_s o out)) run'.
Proof.
  unfold RInv. destruct run as [s now]. cbn [sr_state sr_now].
  intros HI E. destruct o; cbn [sstep sr_state sr_now] in E.
  - rstep E. rstep E. cbn [s_out_ok aop_of_s rstep sr_state sr_now]. split; [exact Logic.I|].
    eapply s_insert_inv; eassumption.
  - rstep E. destruct a as [s' res]. rstep E.
    destruct (s_get_inv _ _ _ _ _ _ _ HI E0) as [J I'].
    cbn [s_out_ok aop_of_s sr_state sr_now]. split; [|exact I'].
    destruct res; [exact J|exact Logic.I].
  - rstep E. cbn [s_out_ok aop_of_s rstep sr_state sr_now]. split; [|exact HI].
    destruct (s_contains c s now k) eqn:Ec; [|exact Logic.I].
    eapply s_contains_ok; eassumption.
  - rstep E. cbn [s_out_ok aop_of_s rstep sr_state sr_now]. split; [|exact HI].
    apply s_iter_ok, HI.
  - rstep E. rstep E. cbn [s_out_ok aop_of_s rstep sr_state sr_now]. split; [exact Logic.I|].
    eapply s_invalidate_inv; eassumption.
  - rstep E. cbn [s_out_ok aop_of_s rstep sr_state sr_now]. split; [exact Logic.I|].
    apply Inv_invalidate_all, HI.
  - rstep E. rstep E. cbn [s_out_ok aop_of_s rstep sr_state sr_now]. split; [exact Logic.I|].
    apply s_sync_fr in E0. eapply Inv_fr; eassumption.
  - rstep E. cbn [s_out_ok aop_of_s rstep sr_state sr_now]. split; [exact Logic.I|].
    eapply Inv_now; [exact HI|lia].
Qed.

(** * Every lookup answer of every run is justified *)

Theorem s_trace_ok_from c ops : forall r run, RInv r run -> s_trace_ok c r run ops.
Proof.
  induction ops as [|o rest IH]; intros r run HI; cbn [s_trace_ok]; [exact I|].
  destruct (sstep c run o) as [[run' out]|e] eqn:E; [|exact I].
  destruct (sstep_ok _ _ _ _ _ _ HI E) as [Hout HI']. split; [exact Hout|].
  apply IH, HI'.
Qed.

Theorem s_trace_ok_all : forall c ops, s_trace_ok c ∅ srun_init ops.
Proof. intros c ops. apply s_trace_ok_from. exact Inv_init. Qed.

Lemma s_trace_ok_app c r run ops1 ops2 :
  s_trace_ok c r run (ops1 ++ ops2) <->
  s_trace_ok c r run ops1 /\
  (forall r' run', s_ref_after c r run ops1 = Some (r', run') -> s_trace_ok c r' run' ops2).
Proof.
  revert r run. induction ops1 as [|o rest IH]; intros r run.
  - cbn [app s_trace_ok s_ref_after]. split.
    + intros T. split; [exact I|]. intros r' run' [= <- <-]. exact T.
    + intros [_ T]. apply T. reflexivity.
  - cbn [app s_trace_ok s_ref_after].
    destruct (sstep c run o) as [[run1 out]|e].
    + rewrite IH. tauto.
    + split; [|intros _; exact I]. intros _. split; [exact I|]. discriminate.
Qed.

(** the run reaches the invariant again after any history *)
Lemma s_ref_after_inv c ops : forall r run r' run',
  RInv r run -> s_ref_after c r run ops = Some (r', run') -> RInv r' run'.
Proof.
  induction ops as [|o rest IH]; intros r run r' run' HI E; cbn [s_ref_after] in E.
  - injection E as <- <-. exact HI.
  - destruct (sstep c run o) as [[run1 out]|e] eqn:Es; [|discriminate].
    destruct (sstep_ok _ _ _ _ _ _ HI Es) as [_ HI']. eapply IH; eassumption.
Qed.

(** * Invalidation is immediate and permanent *)

(** once the reference state lacks k, no lookup shows k until k is inserted again *)
Definition s_silent (k : N) (o : sop) (out : sout) : Prop :=
  match o, out with
  | SGet k', SOVal (Some _) => k' <> k
  | SContains k', SOBool true => k' <> k
  | SIter, SOList l => k ∉ l.*1
  | _, _ => True
  end.

Fixpoint s_silent_until_insert (c : scfg) (k : N) (run : srun) (ops : list sop) : Prop :=
  match ops with
  | [] => True
  | SInsert k' v :: rest =>
      if k' =? k then True
      else match sstep c run (SInsert k' v) with Ok (run', _) => s_silent_until_insert c k run' rest | Err _ => True end
  | o :: rest =>
      match sstep c run o with
      | Ok (run', out) => s_silent k o out /\ s_silent_until_insert c k run' rest
      | Err _ => True
      end
  end.

Lemma s_out_ok_silent c now (r : rstate) k o out :
  r !! k = None -> s_out_ok c now r o out -> s_silent k o out.
Proof.
  intros Hk Hok. destruct o, out; try exact I; cbn [s_out_ok s_silent] in *.
  - destruct v as [v|]; [|exact I]. intros ->. exact (unjustified_absent _ _ _ _ _ _ Hk Hok).
  - destruct b; [|exact I]. intros ->. destruct Hok as [v Hv].
    exact (unjustified_absent _ _ _ _ _ _ Hk Hv).
  - intros Hin. apply elem_of_list_fmap in Hin as ([k0 v] & -> & Hin).
    destruct Hok as [_ Hj]. exact (unjustified_absent _ _ _ _ _ _ Hk (Hj _ _ Hin)).
Qed.

Lemma s_trace_ok_silent c k ops : forall (r : rstate) run,
  r !! k = None -> s_trace_ok c r run ops -> s_silent_until_insert c k run ops.
Proof.
  induction ops as [|o rest IH]; intros r run Hk T; [exact I|].
  cbn [s_trace_ok] in T.
  assert (Hgen : forall run' out, sstep c run o = Ok (run', out) ->
            (forall v, aop_of_s o out <> AInsert k v) ->
            s_silent k o out /\ s_silent_until_insert c k run' rest).
  { intros run' out E Hne. rewrite E in T. destruct T as [Hok T]. split.
    - eapply s_out_ok_silent; eassumption.
    - eapply IH; [|exact T]. apply rstep_absent_stays; assumption. }
  destruct o as [k' v| | | | | | |]; cbn [s_silent_until_insert].
  1:{ destruct (k' =? k) eqn:Ek; [exact I|]. apply N.eqb_neq in Ek.
      destruct (sstep c run (SInsert k' v)) as [[run' out]|e] eqn:E; [|exact I].
      apply (Hgen run' out eq_refl). cbn [aop_of_s]. congruence. }
  all: match goal with |- match sstep ?c0 ?run0 ?o with _ => _ end =>
         destruct (sstep c0 run0 o) as [[run' out]|e] eqn:E; [|exact I];
         apply (Hgen run' out eq_refl); destruct out; cbn [aop_of_s]; discriminate end.
Qed.

Theorem s_invalidated_never_reappears : forall c ops1 ops2 k r run,
  s_ref_after c ∅ srun_init ops1 = Some (r, run) -> r !! k = None ->
  s_silent_until_insert c k run ops2.
Proof.
  intros c ops1 ops2 k r run Href Hk.
  pose proof (s_trace_ok_all c (ops1 ++ ops2)) as T.
  apply s_trace_ok_app in T as [_ T].
  eapply s_trace_ok_silent; [exact Hk|]. apply T, Href.
Qed.

(** the theorems are not vacuous: a sample history on which the model does not fail
    (the statements are trivially true from the first failing step on) *)
Example s_sample_run :
  let c := mkSCfg (Some 2) (Some 1000) (Some 500) None (fun k => k) in
  let ops := [SInsert 1 10; SGet 1; SAdvance 100; SInsert 2 20; SInvalidateAll; SGet 2;
              SInsert 2 21; SGet 2; SGet 1; SAdvance 600; SGet 2; SInsert 3 30; SInsert 4 40;
              SSync; SIter; SContains 3; SInvalidate 3; SContains 3] in
  match srun_ops c srun_init ops with Ok (_, outs) => Some outs | Err _ => None end =
  Some [SONone; SOVal (Some 10); SONone; SONone; SONone; SOVal (Some 20); SONone;
        SOVal (Some 21); SOVal None; SONone; SOVal None; SONone; SONone; SONone;
        SOList [(3, 30); (4, 40)]; SOBool true; SONone; SOBool false].
Proof. vm_compute. reflexivity. Qed.

Print Assumptions s_trace_ok_all.
Print Assumptions s_trace_ok_app.
Print Assumptions s_invalidated_never_reappears.
