(** Small consequences of the trace theorems, in the vocabulary of the property texts. *)
From MM Require Import Spec.History Spec.HistoryFacts Contract.Trace Unsync.UInvDefs.

(** what a justified answer means, clause by clause *)
Lemma justified_value ttl tti now r k v :
  justified ttl tti now r k v -> exists c, r !! k = Some c /\ rc_val c = v.
Proof. intros (c & Hk & Hv & _). eauto. Qed.

Lemma justified_ttl d tti now r k v :
  justified (Some d) tti now r k v -> exists c, r !! k = Some c /\ now < rc_ins c + d.
Proof. intros (c & Hk & _ & Ht & _). exists c. split; [exact Hk|]. apply Ht. reflexivity. Qed.

Lemma justified_tti ttl d now r k v :
  justified ttl (Some d) now r k v -> exists c, r !! k = Some c /\ now < rc_acc c + d.
Proof. intros (c & Hk & _ & _ & Ht). exists c. split; [exact Hk|]. apply Ht. reflexivity. Qed.

(** contains_key, iteration, sync and clock advances are not accesses: they leave the
    reference state (in particular rc_acc) untouched *)
Lemma contains_is_no_access_u k out : aop_of_u (UContains k) out = AOther.
Proof. destruct out; reflexivity. Qed.
Lemma iter_is_no_access_u out : aop_of_u UIter out = AOther.
Proof. destruct out; reflexivity. Qed.
Lemma contains_is_no_access_s k out : aop_of_s (SContains k) out = AOther.
Proof. destruct out; reflexivity. Qed.
Lemma iter_is_no_access_s out : aop_of_s SIter out = AOther.
Proof. destruct out; reflexivity. Qed.
Lemma sync_is_no_access_s out : aop_of_s SSync out = AOther.
Proof. destruct out; reflexivity. Qed.
Lemma rstep_other f now r : rstep f now r AOther = r.
Proof. reflexivity. Qed.
Lemma rstep_get_miss f now r k : rstep f now r (AGet k None) = r.
Proof. reflexivity. Qed.

(** the concurrent cache: contains_key and iteration are literally pure *)
Lemma s_contains_pure c r k : exists b, sstep c r (SContains k) = Ok (r, SOBool b).
Proof. eexists. reflexivity. Qed.
Lemma s_iter_pure c r : exists l, sstep c r SIter = Ok (r, SOList l).
Proof. eexists. reflexivity. Qed.
(** the single-threaded cache: iteration is the identity on the state *)
Lemma u_iter_pure c r r' out : ustep c r UIter = Ok (r', out) -> r' = r.
Proof.
  unfold ustep. destruct (u_iter c (ur_state r) (ur_now r)) as [l|e]; cbn [rbind]; intros H; inversion H; reflexivity.
Qed.

(** iteration of the concurrent cache lists exactly the unexpired map entries, each once *)
Lemma s_iter_exact c s now :
  NoDup (s_iter c s now).*1 /\
  forall k v, (k, v) ∈ s_iter c s now <->
    exists ve, s_map s !! k = Some ve /\ sv_val (get_ve s ve) = v /\
               info_expired c s (get_info s (ve_info s ve)) now = false.
Proof.
  unfold s_iter. split.
  - pose proof (NoDup_fst_map_to_list (s_map s)) as Hnd.
    revert Hnd. generalize (map_to_list (s_map s)) as l.
    induction l as [|[k ve] l IH]; intros Hnd; cbn [omap list_omap fmap list_fmap].
    + constructor.
    + cbn [fmap list_fmap fst] in Hnd. apply NoDup_cons in Hnd as [Hnotin Hnd].
      destruct (info_expired c s (get_info s (sv_info (get_ve s ve))) now) eqn:E.
      * apply IH. exact Hnd.
      * cbn [fmap list_fmap fst]. constructor; [|apply IH; exact Hnd].
        intros Hin. apply Hnotin. apply elem_of_list_fmap in Hin as ([k' v'] & Heq & Hin).
        cbn [fst] in Heq. subst k'. apply elem_of_list_omap in Hin as ([k2 ve2] & Hin2 & Hsome).
        destruct (info_expired c s (get_info s (sv_info (get_ve s ve2))) now); [discriminate|].
        injection Hsome as Hk2 _. apply elem_of_list_fmap. exists (k2, ve2).
        split; [cbn [fst]; symmetry; exact Hk2|exact Hin2].
  - intros k v. rewrite elem_of_list_omap. split.
    + intros ([k2 ve2] & Hin & Hsome). apply elem_of_map_to_list in Hin.
      destruct (info_expired c s (get_info s (sv_info (get_ve s ve2))) now) eqn:E; [discriminate|].
      injection Hsome as Hk2 Hv2. subst k2. exists ve2. split; [exact Hin|]. split; [exact Hv2|exact E].
    + intros (ve & Hm & Hv & Hex). exists (k, ve). split; [apply elem_of_map_to_list; exact Hm|].
      unfold ve_info in Hex. rewrite Hex. rewrite Hv. reflexivity.
Qed.

(** invalidate(k) on the concurrent cache removes k from the hash map at once and touches
    no other key; invalidate_all only moves valid_after *)
Lemma s_invalidate_all_map s now : s_map (s_invalidate_all s now) = s_map s /\ s_va (s_invalidate_all s now) = Some now.
Proof. split; reflexivity. Qed.
