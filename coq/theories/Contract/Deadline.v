(** Deadlines, end to end: after ANY history, a lookup issued at or after
    insert time + ttl (resp. last access + tti) of the reference cell of a key shows
    nothing for that key — get returns None, contains_key false, iteration omits it —
    whatever maintenance did or did not do in between.  Consequences of the trace theorems
    ([u_trace_ok_all], [s_trace_ok_all]) in the contrapositive reading of C05 / C06. *)
From MM Require Import Spec.History Spec.HistoryFacts Contract.Trace Contract.UnsyncTrace
  Contract.SyncTrace Unsync.UInvDefs.

(** the reference side: past a deadline no answer is justified *)
Lemma unjustified_after_ttl d tti now r k v c :
  r !! k = Some c -> rc_ins c + d <= now -> ~ justified (Some d) tti now r k v.
Proof.
  intros Hk Hle (c' & Hk' & _ & Ht & _). assert (c' = c) as -> by congruence.
  specialize (Ht d eq_refl). lia.
Qed.

Lemma unjustified_after_tti ttl d now r k v c :
  r !! k = Some c -> rc_acc c + d <= now -> ~ justified ttl (Some d) now r k v.
Proof.
  intros Hk Hle (c' & Hk' & _ & _ & Ht). assert (c' = c) as -> by congruence.
  specialize (Ht d eq_refl). lia.
Qed.

(** a key past either deadline *)
Definition past_deadline (ttl tti : option N) (now : N) (c : rcell) : Prop :=
  (exists d, ttl = Some d /\ rc_ins c + d <= now) \/ (exists d, tti = Some d /\ rc_acc c + d <= now).

Lemma unjustified_past_deadline ttl tti now r k v c :
  r !! k = Some c -> past_deadline ttl tti now c -> ~ justified ttl tti now r k v.
Proof.
  intros Hk [(d & -> & Hle)|(d & -> & Hle)].
  - by eapply unjustified_after_ttl.
  - by eapply unjustified_after_tti.
Qed.

(** ---------------- single-threaded cache ---------------- *)
Lemma u_out_ok_after c ops o r run run' out :
  cfg_ok c -> N.of_nat (length (ops ++ [o])) < 2 ^ 24 ->
  u_ref_after c ∅ urun_init ops = Some (r, run) ->
  ustep c run o = Ok (run', out) -> u_out_ok c (ur_now run) r o out.
Proof.
  intros Hc Hn Href Hstep.
  pose proof (u_trace_ok_all c (ops ++ [o]) Hc Hn) as T.
  apply u_trace_ok_app in T as [_ T]. specialize (T r run Href).
  cbn [u_trace_ok] in T. rewrite Hstep in T. exact (proj1 T).
Qed.

Theorem u_get_past_deadline c ops k r run rc run' res :
  cfg_ok c -> N.of_nat (length (ops ++ [UGet k])) < 2 ^ 24 ->
  u_ref_after c ∅ urun_init ops = Some (r, run) ->
  r !! k = Some rc -> past_deadline (uc_ttl c) (uc_tti c) (ur_now run) rc ->
  ustep c run (UGet k) = Ok (run', OVal res) -> res = None.
Proof.
  intros Hc Hn Href Hk Hp Hstep. destruct res as [v|]; [exfalso|reflexivity].
  pose proof (u_out_ok_after _ _ _ _ _ _ _ Hc Hn Href Hstep) as H. cbn [u_out_ok] in H.
  by eapply unjustified_past_deadline.
Qed.

Theorem u_contains_past_deadline c ops k r run rc run' b :
  cfg_ok c -> N.of_nat (length (ops ++ [UContains k])) < 2 ^ 24 ->
  u_ref_after c ∅ urun_init ops = Some (r, run) ->
  r !! k = Some rc -> past_deadline (uc_ttl c) (uc_tti c) (ur_now run) rc ->
  ustep c run (UContains k) = Ok (run', OBool b) -> b = false.
Proof.
  intros Hc Hn Href Hk Hp Hstep. destruct b; [exfalso|reflexivity].
  pose proof (u_out_ok_after _ _ _ _ _ _ _ Hc Hn Href Hstep) as [v H].
  by eapply unjustified_past_deadline.
Qed.

Theorem u_iter_past_deadline c ops k r run rc run' l :
  cfg_ok c -> N.of_nat (length (ops ++ [UIter])) < 2 ^ 24 ->
  u_ref_after c ∅ urun_init ops = Some (r, run) ->
  r !! k = Some rc -> past_deadline (uc_ttl c) (uc_tti c) (ur_now run) rc ->
  ustep c run UIter = Ok (run', OList l) -> forall v, (k, v) ∉ l.
Proof.
  intros Hc Hn Href Hk Hp Hstep v Hin.
  pose proof (u_out_ok_after _ _ _ _ _ _ _ Hc Hn Href Hstep) as [_ H].
  eapply unjustified_past_deadline; [exact Hk|exact Hp|]. by apply H.
Qed.

(** ---------------- concurrent cache (sequential regime) ---------------- *)
Lemma s_out_ok_after c ops o r run run' out :
  s_ref_after c ∅ srun_init ops = Some (r, run) ->
  sstep c run o = Ok (run', out) -> s_out_ok c (sr_now run) r o out.
Proof.
  intros Href Hstep.
  pose proof (s_trace_ok_all c (ops ++ [o])) as T.
  apply s_trace_ok_app in T as [_ T]. specialize (T r run Href).
  cbn [s_trace_ok] in T. rewrite Hstep in T. exact (proj1 T).
Qed.

Theorem s_get_past_deadline c ops k r run rc run' res :
  s_ref_after c ∅ srun_init ops = Some (r, run) ->
  r !! k = Some rc -> past_deadline (sc_ttl c) (sc_tti c) (sr_now run) rc ->
  sstep c run (SGet k) = Ok (run', SOVal res) -> res = None.
Proof.
  intros Href Hk Hp Hstep. destruct res as [v|]; [exfalso|reflexivity].
  pose proof (s_out_ok_after _ _ _ _ _ _ _ Href Hstep) as H. cbn [s_out_ok] in H.
  by eapply unjustified_past_deadline.
Qed.

Theorem s_contains_past_deadline c ops k r run rc run' b :
  s_ref_after c ∅ srun_init ops = Some (r, run) ->
  r !! k = Some rc -> past_deadline (sc_ttl c) (sc_tti c) (sr_now run) rc ->
  sstep c run (SContains k) = Ok (run', SOBool b) -> b = false.
Proof.
  intros Href Hk Hp Hstep. destruct b; [exfalso|reflexivity].
  pose proof (s_out_ok_after _ _ _ _ _ _ _ Href Hstep) as [v H].
  by eapply unjustified_past_deadline.
Qed.

Theorem s_iter_past_deadline c ops k r run rc run' l :
  s_ref_after c ∅ srun_init ops = Some (r, run) ->
  r !! k = Some rc -> past_deadline (sc_ttl c) (sc_tti c) (sr_now run) rc ->
  sstep c run SIter = Ok (run', SOList l) -> forall v, (k, v) ∉ l.
Proof.
  intros Href Hk Hp Hstep v Hin.
  pose proof (s_out_ok_after _ _ _ _ _ _ _ Href Hstep) as [_ H].
  eapply unjustified_past_deadline; [exact Hk|exact Hp|]. by apply H.
Qed.

(** not vacuous: a history whose reference state holds key 1 past its ttl deadline, on
    which the model runs without failing and get answers None *)
Example u_deadline_sample :
  let c := mkUCfg None (Some 100) None None (fun k => k) in
  let ops := [UInsert 1 10; UAdvance 100] in
  match u_ref_after c ∅ urun_init ops with
  | Some (r, run) =>
    match r !! 1, ustep c run (UGet 1) with
    | Some rc, Ok (_, OVal res) => Some (rc_ins rc + 100 <=? ur_now run, res)
    | _, _ => None
    end
  | None => None
  end = Some (true, None).
Proof. vm_compute. reflexivity. Qed.

Print Assumptions u_get_past_deadline.
Print Assumptions s_iter_past_deadline.
