(** COMPLETENESS (no spurious loss) of the concurrent cache run by one thread, with no
    max_capacity configured: every entry that the history-level reference state holds
    live is returned by get / contains_key / iteration ([s_trace_complete_all]).

    The reference state used here is the WEAK one ([rstep_weak]): a successful get
    does not extend the idle timer, because on the concurrent cache the access time
    of a get reaches the entry only when maintenance applies the recorded read.

    Structure:
    - [fc c now s s']: the completeness FRAME that every maintenance function
      satisfies whenever it returns [Ok] and [sc_cap c = None]: value entries and
      [valid_after] are untouched, a map entry disappears only if its own EntryInfo
      is expired at [now], and an EntryInfo keeps its last_modified while its
      last_accessed never decreases;
    - [CInv c r s now]: the coupling invariant (every reference cell that is live at
      [now] is held by the map, with the same value and insertion time, an access
      time that is at least the weak one, and not hidden by [valid_after]);
    - per-operation lemmas and the induction over histories; the structural
      invariant [SInv] (needed for the two insert cases) and the absence of failures
      come from [sstep_safe]. *)
From MM Require Import Contract.Trace Spec.HistoryFacts Sync.SInvTop Contract.SyncTrace.

(** * Definitions *)

(* like rstep FSync, but a successful get does not count as an access *)
Definition rstep_weak (now : N) (r : rstate) (o : aop) : rstate :=
  match o with
  | AGet _ _ => r
  | _ => rstep FSync now r o
  end.

Definition s_out_complete (c : scfg) (now : N) (r : rstate) (o : sop) (out : sout) : Prop :=
  match o, out with
  | SGet k, SOVal res => forall v, justified (sc_ttl c) (sc_tti c) now r k v -> res = Some v
  | SContains k, SOBool b => (exists v, justified (sc_ttl c) (sc_tti c) now r k v) -> b = true
  | SIter, SOList l => forall k v, justified (sc_ttl c) (sc_tti c) now r k v -> (k, v) ∈ l
  | _, _ => True
  end.

Fixpoint s_trace_complete (c : scfg) (r : rstate) (run : srun) (ops : list sop) : Prop :=
  match ops with
  | [] => True
  | o :: rest =>
    match sstep c run o with
    | Ok (run', out) =>
      s_out_complete c (sr_now run) r o out /\
      s_trace_complete c (rstep_weak (sr_now run) r (aop_of_s o out)) run' rest
    | Err _ => True
    end
  end.

(** * Small tools *)

Lemma s_expired_mono d va ts ts' now :
  ts <= ts' -> s_expired d va ts' now = true -> s_expired d va ts now = true.
Proof.
  intros L. unfold s_expired. intros E. apply orb_true_iff in E. apply orb_true_iff.
  destruct E as [E|E]; [left|right].
  - destruct va as [v|]; [|discriminate]. apply N.ltb_lt in E. apply N.ltb_lt. lia.
  - destruct d as [d0|]; [|discriminate]. apply N.leb_le in E. apply N.leb_le. lia.
Qed.

Lemma get_info_upd s i f j :
  get_info (upd_info s i f) j = if decide (j = i) then f (get_info s i) else get_info s j.
Proof.
  unfold get_info at 1. unfold upd_info, sset_infos. cbn [s_infos].
  destruct (decide (j = i)) as [->|Hne].
  - rewrite lookup_insert. reflexivity.
  - rewrite lookup_insert_ne by congruence. reflexivity.
Qed.

Lemma get_info_infos s s' i : s_infos s' = s_infos s -> get_info s' i = get_info s i.
Proof. intros E. unfold get_info. rewrite E. reflexivity. Qed.

Lemma get_ve_ves s s' v : s_ves s' = s_ves s -> get_ve s' v = get_ve s v.
Proof. intros E. unfold get_ve. rewrite E. reflexivity. Qed.

(** * The completeness frame of maintenance *)

Record fc (c : scfg) (now : N) (s s' : sstate) : Prop := mkFc {
  fc_ves : s_ves s' = s_ves s;
  fc_va : s_va s' = s_va s;
  fc_map : forall k ve, s_map s !! k = Some ve ->
    s_map s' !! k = Some ve \/ info_expired c s (get_info s (ve_info s ve)) now = true;
  fc_infos : forall i,
    si_lm (get_info s' i) = si_lm (get_info s i) /\ si_la (get_info s i) <= si_la (get_info s' i)
}.

Lemma fc_refl c now s : fc c now s s.
Proof. split; [reflexivity|reflexivity|auto|intros i; split; [reflexivity|lia]]. Qed.

Lemma fc_trans c now s s1 s2 : fc c now s s1 -> fc c now s1 s2 -> fc c now s s2.
Proof.
  intros [A B C D] [A' B' C' D']. split.
  - congruence.
  - congruence.
  - intros k ve Hk. destruct (C k ve Hk) as [Hk1|Hexp]; [|right; exact Hexp].
    destruct (C' k ve Hk1) as [Hk2|Hexp]; [left; exact Hk2|]. right.
    rewrite (ve_info_ves _ _ _ A) in Hexp.
    destruct (D (ve_info s ve)) as [D1 D2].
    unfold info_expired in *. rewrite B in Hexp. rewrite D1 in Hexp.
    apply orb_true_iff in Hexp. apply orb_true_iff. destruct Hexp as [E|E]; [left; exact E|right].
    eapply s_expired_mono; eassumption.
  - intros i. destruct (D i) as [D1 D2]. destruct (D' i) as [D1' D2']. split; [congruence|lia].
Qed.

(** states that agree on the fields the frame talks about *)
Lemma fc_core c now s s' :
  s_map s' = s_map s -> s_ves s' = s_ves s -> s_infos s' = s_infos s -> s_va s' = s_va s ->
  fc c now s s'.
Proof.
  intros A B C D. split; auto.
  - intros k ve Hk. left. rewrite A. exact Hk.
  - intros i. rewrite (get_info_infos _ _ _ C). split; [reflexivity|lia].
Qed.

(** updates of an EntryInfo that leave last_modified alone and do not decrease
    last_accessed *)
Definition keeps2 (f : sinfo -> sinfo) : Prop :=
  forall x, si_lm (f x) = si_lm x /\ si_la x <= si_la (f x).

Lemma fc_upd_info c now s i f : keeps2 f -> fc c now s (upd_info s i f).
Proof.
  intros K. split; try reflexivity.
  - intros k ve Hk. left. exact Hk.
  - intros j. rewrite get_info_upd. destruct (decide (j = i)) as [->|Hne].
    + apply K.
    + split; [reflexivity|lia].
Qed.

(** the only way a map entry goes away: its own EntryInfo is expired *)
Lemma fc_delete c now s k ve :
  s_map s !! k = Some ve -> info_expired c s (get_info s (ve_info s ve)) now = true ->
  fc c now s (sset_map s (delete k (s_map s))).
Proof.
  intros Hk Hexp. split; try reflexivity.
  - intros k' ve' Hk'. cbn [sset_map s_map]. destruct (decide (k' = k)) as [->|Hne].
    + right. assert (ve' = ve) as -> by congruence. exact Hexp.
    + left. rewrite lookup_delete_ne by congruence. exact Hk'.
  - intros i. unfold get_info. cbn [sset_map s_infos]. split; [reflexivity|lia].
Qed.

Section csteps.
  Context (c : scfg) (now : N) (s t : sstate).

  Lemma fc_step_upd i f : keeps2 f -> fc c now s t -> fc c now s (upd_info t i f).
  Proof. intros K F. eapply fc_trans; [exact F|]. apply fc_upd_info, K. Qed.

  Lemma fc_step_core t' :
    s_map t' = s_map t -> s_ves t' = s_ves t -> s_infos t' = s_infos t -> s_va t' = s_va t ->
    fc c now s t -> fc c now s t'.
  Proof. intros. eapply fc_trans; [eassumption|]. apply fc_core; assumption. Qed.

  Lemma fc_step_prob x : fc c now s t -> fc c now s (sset_prob t x).
  Proof. apply fc_step_core; reflexivity. Qed.
  Lemma fc_step_wo x : fc c now s t -> fc c now s (sset_wo t x).
  Proof. apply fc_step_core; reflexivity. Qed.
  Lemma fc_step_wq x : fc c now s t -> fc c now s (sset_wq t x).
  Proof. apply fc_step_core; reflexivity. Qed.
  Lemma fc_step_rq x : fc c now s t -> fc c now s (sset_rq t x).
  Proof. apply fc_step_core; reflexivity. Qed.
  Lemma fc_step_ec x : fc c now s t -> fc c now s (sset_ec t x).
  Proof. apply fc_step_core; reflexivity. Qed.
  Lemma fc_step_ws x : fc c now s t -> fc c now s (sset_ws t x).
  Proof. apply fc_step_core; reflexivity. Qed.
  Lemma fc_step_sk x b : fc c now s t -> fc c now s (sset_sk t x b).
  Proof. apply fc_step_core; reflexivity. Qed.
  Lemma fc_step_sa x : fc c now s t -> fc c now s (sset_sa t x).
  Proof. apply fc_step_core; reflexivity. Qed.
  Lemma fc_step_next x : fc c now s t -> fc c now s (sset_next t x).
  Proof. apply fc_step_core; reflexivity. Qed.
End csteps.

Ltac keeps2_tac := intros ?; cbn; split; [reflexivity|lia].

Ltac fc_go :=
  lazymatch goal with
  | |- fc _ _ ?s ?s => apply fc_refl
  | |- fc ?c ?now ?s (let x := ?v in @?b x) =>
    lazymatch type of v with
    | sstate => let y := fresh "st" in pose (y := v); change (fc c now s (b y)); cbv beta; fc_go
    | _ => change (fc c now s (b v)); cbv beta; fc_go
    end
  | |- fc _ _ _ (upd_info _ _ _) => apply fc_step_upd; [keeps2_tac | fc_go]
  | |- fc _ _ _ (sset_prob _ _) => apply fc_step_prob; fc_go
  | |- fc _ _ _ (sset_wo _ _) => apply fc_step_wo; fc_go
  | |- fc _ _ _ (sset_wq _ _) => apply fc_step_wq; fc_go
  | |- fc _ _ _ (sset_rq _ _) => apply fc_step_rq; fc_go
  | |- fc _ _ _ (sset_ec _ _) => apply fc_step_ec; fc_go
  | |- fc _ _ _ (sset_ws _ _) => apply fc_step_ws; fc_go
  | |- fc _ _ _ (sset_sk _ _ _) => apply fc_step_sk; fc_go
  | |- fc _ _ _ (sset_sa _ _) => apply fc_step_sa; fc_go
  | |- fc _ _ _ (sset_next _ _) => apply fc_step_next; fc_go
  | |- fc _ _ _ (if ?b then _ else _) => destruct b; fc_go
  | |- fc _ _ _ (match ?x with _ => _ end) => destruct x; fc_go
  | |- fc _ _ _ ?v =>
    is_var v;
    first [ progress unfold v; fc_go
          | lazymatch goal with
            | F : fc _ _ _ v |- _ =>
              first [ exact F | eapply fc_trans; [|exact F]; fc_go ]
            end ]
  end.

(** * Every maintenance function satisfies the frame (no max_capacity) *)

Lemma s_move_to_back_ao_fc c now s i s' : s_move_to_back_ao s i = Ok s' -> fc c now s s'.
Proof. unfold s_move_to_back_ao. intros E. repeat rstep E; fc_go. Qed.

Lemma s_move_to_back_wo_fc c now s i s' : s_move_to_back_wo s i = Ok s' -> fc c now s s'.
Proof. unfold s_move_to_back_wo. intros E. repeat rstep E; fc_go. Qed.

Lemma apply_read_fc c now s o s' : apply_read s o = Ok s' -> fc c now s s'.
Proof.
  unfold apply_read. intros E. destruct o as [h ve ts|h].
  - rstep E. cbv zeta in E.
    set (s1 := sset_sk s a (s_skon s)) in *.
    assert (F1 : fc c now s s1) by (subst s1; fc_go).
    set (i := ve_info s1 ve) in *.
    set (s2 := if si_la (get_info s1 i) <? ts then upd_info s1 i (si_set_la ts) else s1) in *.
    assert (F2 : fc c now s s2).
    { subst s2. destruct (si_la (get_info s1 i) <? ts) eqn:Elt; [|exact F1].
      apply N.ltb_lt in Elt.
      eapply fc_trans; [exact F1|]. clear F1.
      split; try reflexivity.
      - intros k ve' Hk. left. exact Hk.
      - intros j. rewrite get_info_upd. destruct (decide (j = i)) as [->|Hne].
        + cbn [si_set_la si_lm si_la]. split; [reflexivity|lia].
        + split; [reflexivity|lia]. }
    clearbody s2. clear F1. clearbody i. clearbody s1.
    rstep E.
    + apply (s_move_to_back_ao_fc c now) in E. fc_go.
    + rstep E. exact F2.
  - repeat rstep E. fc_go.
Qed.

Lemma apply_reads_fc c now n : forall s s', apply_reads s n = Ok s' -> fc c now s s'.
Proof.
  induction n as [|n IH]; intros s s' E; cbn [apply_reads] in E.
  - rstep E. apply fc_refl.
  - destruct (s_rq s) as [|o rest] eqn:Erq.
    + rstep E. apply fc_refl.
    + rstep E. apply (apply_read_fc c now) in E0. apply IH in E.
      eapply fc_trans; [|exact E]. eapply fc_trans; [|exact E0]. fc_go.
Qed.

Lemma handle_admit_fc c now c' s k h ve w s' : handle_admit c' s k h ve w = Ok s' -> fc c now s s'.
Proof. cbv beta delta [handle_admit]. intros E. repeat rstep E. fc_go. Qed.

Lemma s_unlink_nodes_fc c now s i s' : s_unlink_nodes s i = Ok s' -> fc c now s s'.
Proof. unfold s_unlink_nodes. intros E. rstep E. rstep E. rstep E. fc_go. Qed.

Lemma handle_remove_fc c now s i s' : handle_remove s i = Ok s' -> fc c now s s'.
Proof.
  unfold handle_remove. intros E. rstep E.
  - rstep E. apply (s_unlink_nodes_fc c now) in E. fc_go.
  - rstep E. fc_go.
Qed.

Ltac fc_hyps1 c now :=
  repeat match goal with
  | E : s_move_to_back_ao _ _ = Ok _ |- _ => apply (s_move_to_back_ao_fc c now) in E
  | E : s_move_to_back_wo _ _ = Ok _ |- _ => apply (s_move_to_back_wo_fc c now) in E
  | E : handle_admit _ _ _ _ _ _ = Ok _ |- _ => apply (handle_admit_fc c now) in E
  | E : handle_remove _ _ = Ok _ |- _ => apply (handle_remove_fc c now) in E
  | E : s_unlink_nodes _ _ = Ok _ |- _ => apply (s_unlink_nodes_fc c now) in E
  end.

Lemma has_capacity_none c w s : sc_cap c = None -> s_has_enough_capacity c w s = Ok true.
Proof. intros Hc. unfold s_has_enough_capacity. rewrite Hc. reflexivity. Qed.

(** with no max_capacity a fresh entry is always admitted: no rejection, no victims *)
Lemma handle_upsert_fc c now s k h ve ow nw s' :
  sc_cap c = None -> handle_upsert c s k h ve ow nw = Ok s' -> fc c now s s'.
Proof.
  intros Hcap. cbv beta delta [handle_upsert]. intros E.
  rstep E. rstep E. rstep E.
  - (* update of an admitted entry *)
    repeat rstep E; fc_hyps1 c now; fc_go.
  - rstep E.
    + (* stale op *) rstep E. fc_go.
    + rstep E. rstep E. rstep E.
      rewrite (has_capacity_none c _ _ Hcap) in E. cbn [rbind] in E.
      fc_hyps1 c now. fc_go.
Qed.

Lemma apply_write_fc c now s o s' :
  sc_cap c = None -> apply_write c s o = Ok s' -> fc c now s s'.
Proof.
  intros Hcap. destruct o; cbn [apply_write]; intros E.
  - eapply handle_upsert_fc; eassumption.
  - apply (handle_remove_fc c now) in E. exact E.
Qed.

Lemma apply_writes_fc c now n : sc_cap c = None ->
  forall s s', apply_writes c s n = Ok s' -> fc c now s s'.
Proof.
  intros Hcap. induction n as [|n IH]; intros s s' E; cbn [apply_writes] in E.
  - rstep E. apply fc_refl.
  - rstep E.
    + rstep E. apply fc_refl.
    + rstep E. apply (apply_write_fc c now _ _ _ Hcap) in E1. apply IH in E. fc_go.
Qed.

Lemma try_skip_updated_entry_fc c now s k s' b :
  try_skip_updated_entry s k = Ok (s', b) -> fc c now s s'.
Proof.
  cbv beta delta [try_skip_updated_entry]. intros E. repeat rstep E; fc_hyps1 c now; fc_go.
Qed.

Ltac fc_hyps3 c now :=
  fc_hyps1 c now;
  repeat match goal with
  | E : try_skip_updated_entry _ _ = Ok (_, _) |- _ => apply (try_skip_updated_entry_fc c now) in E
  end.

Lemma s_remove_expired_wo_fc c now fuel : forall s s',
  s_remove_expired_wo c fuel s now = Ok s' -> fc c now s s'.
Proof.
  induction fuel as [|fuel IH]; intros s s' E; cbn beta iota delta [s_remove_expired_wo] in E.
  - rstep E. apply fc_refl.
  - repeat rstep E; try apply fc_refl; try apply IH in E; fc_hyps3 c now.
    all: try fc_go.
    (* the purge of an entry whose own last_modified is expired *)
    eapply fc_trans; [|exact E]. eapply fc_trans; [|exact E5].
    eapply fc_delete; [exact E3|]. unfold info_expired. rewrite E4. reflexivity.
Qed.

Lemma s_remove_expired_ao_fc c now fuel : forall s s',
  s_remove_expired_ao c fuel s now = Ok s' -> fc c now s s'.
Proof.
  induction fuel as [|fuel IH]; intros s s' E; cbn beta iota delta [s_remove_expired_ao] in E.
  - rstep E. apply fc_refl.
  - repeat rstep E; try apply fc_refl; try apply IH in E; fc_hyps3 c now.
    all: try fc_go.
    (* the purge of an entry whose own last_accessed is expired *)
    eapply fc_trans; [|exact E]. eapply fc_trans; [|exact E5].
    eapply fc_delete; [exact E3|]. unfold info_expired. rewrite E4. apply orb_true_r.
Qed.

Lemma s_evict_expired_fc c s now s' : s_evict_expired c s now = Ok s' -> fc c now s s'.
Proof.
  cbv beta delta [s_evict_expired]. intros E. rstep E.
  assert (F : fc c now s a).
  { destruct (sc_ttl c); [apply s_remove_expired_wo_fc in E0; exact E0|].
    injection E0 as <-. apply fc_refl. }
  clear E0.
  assert (F' : fc c now a s').
  { destruct (sc_tti c), (s_va a); try (apply s_remove_expired_ao_fc in E; exact E).
    injection E as <-. apply fc_refl. }
  fc_go.
Qed.

Lemma should_enable_sketch_none c s : sc_cap c = None -> s_should_enable_sketch c s = false.
Proof. intros Hc. unfold s_should_enable_sketch. rewrite Hc. destruct (s_skon s); reflexivity. Qed.

Lemma sync_rounds_fc c now rounds : sc_cap c = None ->
  forall s s', sync_rounds c rounds s = Ok s' -> fc c now s s'.
Proof.
  intros Hcap. induction rounds as [|n IH]; intros s s' E; cbn beta iota delta [sync_rounds] in E.
  - rstep E. apply fc_refl.
  - rstep E. rstep E. apply (apply_reads_fc c now) in E0. apply (apply_writes_fc c now _ Hcap) in E1.
    rewrite (should_enable_sketch_none c _ Hcap) in E. cbv zeta in E.
    rstep E.
    + apply IH in E. fc_go.
    + rstep E. fc_go.
Qed.

(** with no max_capacity there is nothing to evict by size *)
Lemma s_sync_fc c s now s' : sc_cap c = None -> s_sync c s now = Ok s' -> fc c now s s'.
Proof.
  intros Hcap. cbv beta delta [s_sync]. intros E. rstep E.
  apply (sync_rounds_fc c now _ Hcap) in E0.
  rstep E.
  assert (F : fc c now a a0).
  { destruct (s_has_expiry c || match s_va a with Some _ => true | None => false end).
    - apply s_evict_expired_fc in E1. exact E1.
    - injection E1 as <-. apply fc_refl. }
  clear E1. unfold s_weights_to_evict in E. rewrite Hcap in E. cbv zeta in E.
  change (0 <? 0) with false in E. cbv iota in E. rstep E. fc_go.
Qed.

Lemma hk_maybe_sync_fc c s len flush now s' :
  sc_cap c = None -> hk_maybe_sync c s len flush now = Ok s' -> fc c now s s'.
Proof.
  intros Hcap. cbv beta delta [hk_maybe_sync]. intros E. rstep E.
  - apply (s_sync_fc _ _ _ _ Hcap) in E. eapply fc_trans; [|exact E]. fc_go.
  - rstep E. apply fc_refl.
Qed.

Lemma schedule_write_op_fc c o now fuel : sc_cap c = None ->
  forall s s', schedule_write_op c fuel s o now = Ok s' -> fc c now s s'.
Proof.
  intros Hcap. induction fuel as [|fuel IH]; intros s s' E; cbn beta iota delta [schedule_write_op] in E.
  - discriminate E.
  - rstep E. apply (hk_maybe_sync_fc _ _ _ _ _ _ Hcap) in E0. rstep E.
    + rstep E. fc_go.
    + apply IH in E. fc_go.
Qed.

Lemma record_read_op_fc c s o now s' :
  sc_cap c = None -> record_read_op c s o now = Ok s' -> fc c now s s'.
Proof.
  intros Hcap. cbv beta delta [record_read_op]. intros E. rstep E.
  apply (hk_maybe_sync_fc _ _ _ _ _ _ Hcap) in E0. rstep E; rstep E; fc_go.
Qed.

(** * The coupling invariant *)

(** the cell is within its time-to-live and (weak) time-to-idle at [now] *)
Definition live (c : scfg) (now : N) (rc : rcell) : Prop :=
  (forall d, sc_ttl c = Some d -> now < rc_ins rc + d) /\
  (forall d, sc_tti c = Some d -> now < rc_acc rc + d).

(** the map holds the cell: same value and insertion time, an access time that is at
    least the weak one, and [valid_after] does not hide it *)
Definition holds (s : sstate) (k : N) (rc : rcell) : Prop :=
  exists ve, s_map s !! k = Some ve /\
    sv_val (get_ve s ve) = rc_val rc /\
    si_lm (get_info s (ve_info s ve)) = rc_ins rc /\
    rc_acc rc <= si_la (get_info s (ve_info s ve)) /\
    (forall va, s_va s = Some va -> va <= rc_ins rc).

Record CInv (c : scfg) (r : gmap N rcell) (s : sstate) (now : N) : Prop := mkCInv {
  ci_va : forall va, s_va s = Some va -> va <= now;
  ci_ref : forall k rc, r !! k = Some rc -> rc_ins rc <= rc_acc rc;
  ci_live : forall k rc, r !! k = Some rc -> live c now rc -> holds s k rc
}.

Lemma CInv_init c : CInv c ∅ s_init 0.
Proof.
  split.
  - cbn. discriminate.
  - intros k rc Hk. rewrite lookup_empty in Hk. discriminate.
  - intros k rc Hk. rewrite lookup_empty in Hk. discriminate.
Qed.

(** a live cell that the map holds is visible *)
Lemma holds_visible c s now rc ve :
  rc_ins rc <= rc_acc rc -> live c now rc ->
  si_lm (get_info s (ve_info s ve)) = rc_ins rc ->
  rc_acc rc <= si_la (get_info s (ve_info s ve)) ->
  (forall va, s_va s = Some va -> va <= rc_ins rc) ->
  info_expired c s (get_info s (ve_info s ve)) now = false.
Proof.
  intros Hle [L1 L2] Hlm Hla Hva. unfold info_expired, s_expired. rewrite Hlm.
  apply orb_false_iff. split; apply orb_false_iff; split.
  - destruct (s_va s) as [va|]; [|reflexivity]. apply N.ltb_ge. apply Hva. reflexivity.
  - destruct (sc_ttl c) as [d|]; [|reflexivity]. apply N.leb_gt. apply L1. reflexivity.
  - destruct (s_va s) as [va|]; [|reflexivity]. apply N.ltb_ge.
    pose proof (Hva va eq_refl). lia.
  - destruct (sc_tti c) as [d|]; [|reflexivity]. apply N.leb_gt.
    pose proof (L2 d eq_refl). lia.
Qed.

Lemma CInv_visible c r s now k rc :
  CInv c r s now -> r !! k = Some rc -> live c now rc ->
  exists ve, s_map s !! k = Some ve /\ sv_val (get_ve s ve) = rc_val rc /\
    info_expired c s (get_info s (ve_info s ve)) now = false.
Proof.
  intros [IA IR IL] Hk HL. destruct (IL k rc Hk HL) as (ve & Hm & Hv & Hlm & Hla & Hva).
  exists ve. split; [exact Hm|]. split; [exact Hv|].
  eapply holds_visible; eauto.
Qed.

(** maintenance keeps the invariant *)
Lemma CInv_fc c r s s' now : CInv c r s now -> fc c now s s' -> CInv c r s' now.
Proof.
  intros HI [FV FA FM FI]. split.
  - intros va Hva. rewrite FA in Hva. exact (ci_va _ _ _ _ HI va Hva).
  - exact (ci_ref _ _ _ _ HI).
  - intros k rc Hk HL.
    destruct (CInv_visible _ _ _ _ _ _ HI Hk HL) as (ve0 & Hm0 & _ & Hvis).
    destruct (ci_live _ _ _ _ HI k rc Hk HL) as (ve & Hm & Hv & Hlm & Hla & Hva).
    assert (ve0 = ve) as -> by congruence.
    destruct (FM k ve Hm) as [Hm'|Hexp]; [|congruence].
    exists ve. split; [exact Hm'|].
    rewrite (get_ve_ves _ _ _ FV), (ve_info_ves _ _ _ FV), FA.
    destruct (FI (ve_info s ve)) as [F1 F2].
    split; [exact Hv|]. split; [congruence|]. split; [lia|exact Hva].
Qed.

(** the clock moves forward *)
Lemma CInv_now c r s now now' : CInv c r s now -> now <= now' -> CInv c r s now'.
Proof.
  intros [IA IR IL] L. split.
  - intros va Hva. apply IA in Hva. lia.
  - exact IR.
  - intros k rc Hk [L1 L2]. apply (IL k rc Hk). split.
    + intros d Hd. pose proof (L1 d Hd). lia.
    + intros d Hd. pose proof (L2 d Hd). lia.
Qed.

(** ** the answers *)

Lemma justified_live c now (r : rstate) k v :
  justified (sc_ttl c) (sc_tti c) now r k v ->
  exists rc, r !! k = Some rc /\ rc_val rc = v /\ live c now rc.
Proof. intros (rc & Hk & Hv & L1 & L2). exists rc. unfold live. auto. Qed.

Lemma s_get_complete c r s now k s' res v :
  CInv c r s now -> s_get c s now k = Ok (s', res) ->
  justified (sc_ttl c) (sc_tti c) now r k v -> res = Some v.
Proof.
  intros HI E J. apply justified_live in J as (rc & Hk & Hv & HL). unfold rstate in *.
  destruct (CInv_visible _ _ _ _ _ _ HI Hk HL) as (ve & Hm & Hval & Hvis).
  cbv beta delta [s_get] in E. cbv beta zeta in E. rewrite Hm in E.
  unfold ve_info in Hvis. rewrite Hvis in E.
  rstep E. rstep E. congruence.
Qed.

Lemma s_contains_complete c r s now k :
  CInv c r s now -> (exists v, justified (sc_ttl c) (sc_tti c) now r k v) ->
  s_contains c s now k = true.
Proof.
  intros HI [v J]. apply justified_live in J as (rc & Hk & Hv & HL). unfold rstate in *.
  destruct (CInv_visible _ _ _ _ _ _ HI Hk HL) as (ve & Hm & Hval & Hvis).
  unfold s_contains. rewrite Hm, Hvis. reflexivity.
Qed.

Lemma s_iter_complete c r s now k v :
  CInv c r s now -> justified (sc_ttl c) (sc_tti c) now r k v -> (k, v) ∈ s_iter c s now.
Proof.
  intros HI J. apply justified_live in J as (rc & Hk & Hv & HL). unfold rstate in *.
  destruct (CInv_visible _ _ _ _ _ _ HI Hk HL) as (ve & Hm & Hval & Hvis).
  unfold s_iter. apply elem_of_list_omap. exists (k, ve). split.
  - apply elem_of_map_to_list. exact Hm.
  - cbv zeta. unfold ve_info in Hvis. rewrite Hvis. congruence.
Qed.

(** ** the effect of the public operations on the invariant *)

(** reference cells that are not touched by a change of the cache state that leaves
    their map entry, value entry, EntryInfo and [valid_after] alone *)
Lemma holds_transfer s s' k rc :
  holds s k rc ->
  (forall ve, s_map s !! k = Some ve ->
     s_map s' !! k = Some ve /\ get_ve s' ve = get_ve s ve /\
     get_info s' (ve_info s ve) = get_info s (ve_info s ve)) ->
  s_va s' = s_va s ->
  holds s' k rc.
Proof.
  intros (ve & Hm & Hv & Hlm & Hla & Hva) T FA.
  destruct (T ve Hm) as (Hm' & Eve & Einf).
  exists ve. split; [exact Hm'|].
  assert (Ei : ve_info s' ve = ve_info s ve) by (unfold ve_info; rewrite Eve; reflexivity).
  rewrite Ei, Eve, Einf, FA. auto.
Qed.

Lemma CInv_insert_upd c r s now k v old_ve :
  SInv c s -> CInv c r s now -> s_map s !! k = Some old_ve ->
  let i := ve_info s old_ve in
  let s1 := upd_info s i (fun x => si_set_lm now (si_set_la now (si_set_dirty true x))) in
  let ve := s_next s1 in
  let s2 := sset_next (sset_ves s1 (<[ve := mkSV v i]> (s_ves s1))) (ve + 1) in
  let s3 := sset_map s2 (<[k := ve]> (s_map s2)) in
  CInv c (<[k := mkRC v now now]> r) s3 now.
Proof.
  intros HS [IA IR IL] Hk. cbv zeta.
  destruct (map_entry_info _ _ _ _ _ HS Hk) as (x0 & Hx0 & Hkey0).
  set (i := ve_info s old_ve) in *.
  set (f := fun x => si_set_lm now (si_set_la now (si_set_dirty true x))).
  set (s1 := upd_info s i f).
  assert (Hn1 : s_next s1 = s_next s) by reflexivity.
  assert (Hv1 : s_ves s1 = s_ves s) by reflexivity.
  rewrite Hn1, Hv1.
  set (s3 := sset_map _ _).
  assert (M3 : s_map s3 = <[k := s_next s]> (s_map s)) by reflexivity.
  assert (V3 : s_ves s3 = <[s_next s := mkSV v i]> (s_ves s)) by reflexivity.
  assert (I3 : forall j, get_info s3 j = get_info s1 j) by (intros j; reflexivity).
  assert (A3 : s_va s3 = s_va s) by reflexivity.
  clearbody s3. split.
  - rewrite A3. exact IA.
  - intros k' rc Hk'. apply lookup_insert_Some in Hk' as [[<- <-]|[Hne Hk']]; [cbn; lia|].
    exact (IR _ _ Hk').
  - intros k' rc Hk' HL. apply lookup_insert_Some in Hk' as [[<- <-]|[Hne Hk']].
    + exists (s_next s). rewrite M3, lookup_insert. split; [reflexivity|].
      assert (Eve : get_ve s3 (s_next s) = mkSV v i).
      { unfold get_ve. rewrite V3, lookup_insert. reflexivity. }
      unfold ve_info. rewrite Eve. cbn [sv_val sv_info rc_val rc_ins rc_acc].
      rewrite I3. subst s1. rewrite get_info_upd. rewrite decide_True by reflexivity.
      subst f. cbn [si_lm si_la si_set_lm si_set_la si_set_dirty].
      split; [reflexivity|]. split; [reflexivity|]. split; [lia|].
      rewrite A3. exact IA.
    + eapply holds_transfer; [exact (IL k' rc Hk' HL)| |exact A3].
      intros ve' Hm'.
      destruct (sv_map _ _ _ HS _ _ Hm') as (e' & x' & He' & Hx' & Hkey').
      destruct (sv_ves_lt _ _ _ HS _ _ He') as [Hlt _].
      split; [rewrite M3, lookup_insert_ne by congruence; exact Hm'|]. split.
      * unfold get_ve. rewrite V3, lookup_insert_ne by lia. reflexivity.
      * rewrite I3. subst s1. rewrite get_info_upd. rewrite decide_False; [reflexivity|].
        intros Heq. destruct (map_entry_info _ _ _ _ _ HS Hm') as (x1 & Hx1 & Hkey1).
        rewrite Heq in Hx1. congruence.
Qed.

Lemma CInv_insert_new c r s now k v :
  SInv c s -> CInv c r s now -> s_map s !! k = None ->
  let w := sweigh c k v in
  let i := s_next s in
  let ve := i + 1 in
  let s1 := sset_next (sset_infos s (<[i := mkSI k false true now now w None None]> (s_infos s))) (i + 2) in
  let s2 := sset_ves s1 (<[ve := mkSV v i]> (s_ves s1)) in
  let s3 := sset_map s2 (<[k := ve]> (s_map s2)) in
  CInv c (<[k := mkRC v now now]> r) s3 now.
Proof.
  intros HS [IA IR IL] Hk. cbv zeta.
  set (s3 := sset_map _ _).
  assert (M3 : s_map s3 = <[k := s_next s + 1]> (s_map s)) by reflexivity.
  assert (V3 : s_ves s3 = <[s_next s + 1 := mkSV v (s_next s)]> (s_ves s)) by reflexivity.
  assert (I3 : s_infos s3 = <[s_next s := mkSI k false true now now (sweigh c k v) None None]> (s_infos s))
    by reflexivity.
  assert (A3 : s_va s3 = s_va s) by reflexivity.
  clearbody s3. split.
  - rewrite A3. exact IA.
  - intros k' rc Hk'. apply lookup_insert_Some in Hk' as [[<- <-]|[Hne Hk']]; [cbn; lia|].
    exact (IR _ _ Hk').
  - intros k' rc Hk' HL. apply lookup_insert_Some in Hk' as [[<- <-]|[Hne Hk']].
    + exists (s_next s + 1). rewrite M3, lookup_insert. split; [reflexivity|].
      assert (Eve : get_ve s3 (s_next s + 1) = mkSV v (s_next s)).
      { unfold get_ve. rewrite V3, lookup_insert. reflexivity. }
      unfold ve_info. rewrite Eve. cbn [sv_val sv_info rc_val rc_ins rc_acc].
      unfold get_info. rewrite I3, lookup_insert. cbn [default from_option id si_lm si_la].
      split; [reflexivity|]. split; [reflexivity|]. split; [lia|].
      rewrite A3. exact IA.
    + eapply holds_transfer; [exact (IL k' rc Hk' HL)| |exact A3].
      intros ve' Hm'.
      destruct (sv_map _ _ _ HS _ _ Hm') as (e' & x' & He' & Hx' & Hkey').
      destruct (sv_ves_lt _ _ _ HS _ _ He') as [Hlt _].
      split; [rewrite M3, lookup_insert_ne by congruence; exact Hm'|]. split.
      * unfold get_ve. rewrite V3, lookup_insert_ne by lia. reflexivity.
      * destruct (map_entry_info _ _ _ _ _ HS Hm') as (x1 & Hx1 & Hkey1).
        pose proof (sv_infos_lt _ _ _ HS _ _ Hx1) as Hlt1.
        unfold get_info. rewrite I3, lookup_insert_ne by lia. reflexivity.
Qed.

Lemma CInv_delete c r s now k :
  CInv c r s now -> CInv c (delete k r) (sset_map s (delete k (s_map s))) now.
Proof.
  intros [IA IR IL]. split.
  - exact IA.
  - intros k' rc Hk'. apply lookup_delete_Some in Hk' as [Hne Hk']. exact (IR _ _ Hk').
  - intros k' rc Hk' HL. apply lookup_delete_Some in Hk' as [Hne Hk'].
    eapply holds_transfer; [exact (IL k' rc Hk' HL)| |reflexivity].
    intros ve' Hm'. split; [|split; reflexivity].
    cbn [sset_map s_map]. rewrite lookup_delete_ne by congruence. exact Hm'.
Qed.

Lemma CInv_delete_r c r s now k : CInv c r s now -> CInv c (delete k r) s now.
Proof.
  intros [IA IR IL]. split.
  - exact IA.
  - intros k' rc Hk'. apply lookup_delete_Some in Hk' as [Hne Hk']. exact (IR _ _ Hk').
  - intros k' rc Hk' HL. apply lookup_delete_Some in Hk' as [Hne Hk']. exact (IL k' rc Hk' HL).
Qed.

Lemma CInv_invalidate_all c r s now :
  CInv c r s now ->
  CInv c (filter (fun kc : N * rcell => now <= rc_ins kc.2) r) (sset_va s (Some now)) now.
Proof.
  intros [IA IR IL]. split.
  - cbn [sset_va s_va]. intros va [= <-]. lia.
  - intros k rc Hk. apply map_filter_lookup_Some in Hk as [Hk _]. exact (IR _ _ Hk).
  - intros k rc Hk HL. apply map_filter_lookup_Some in Hk as [Hk Hge]. cbn [snd] in Hge.
    destruct (IL k rc Hk HL) as (ve & Hm & Hv & Hlm & Hla & Hva).
    exists ve. split; [exact Hm|]. split; [exact Hv|]. split; [exact Hlm|]. split; [exact Hla|].
    cbn [sset_va s_va]. intros va [= <-]. exact Hge.
Qed.

(** ** one step of the run *)

Definition RC (c : scfg) (r : rstate) (run : srun) : Prop :=
  CInv c r (sr_state run) (sr_now run).

Lemma s_insert_cinv c r s now k v s' :
  sc_cap c = None -> SInv c s -> CInv c r s now -> s_insert c s now k v = Ok s' ->
  CInv c (<[k := mkRC v now now]> r) s' now.
Proof.
  intros Hcap HS HI. cbv beta delta [s_insert]. cbv beta zeta.
  destruct (s_map s !! k) as [old_ve|] eqn:Hk; intros E.
  - apply (schedule_write_op_fc _ _ _ _ Hcap) in E. eapply CInv_fc; [|exact E].
    apply (CInv_insert_upd c r s now k v old_ve HS HI Hk).
  - apply (schedule_write_op_fc _ _ _ _ Hcap) in E. eapply CInv_fc; [|exact E].
    apply (CInv_insert_new c r s now k v HS HI Hk).
Qed.

Lemma s_invalidate_cinv c r s now k s' :
  sc_cap c = None -> CInv c r s now -> s_invalidate c s now k = Ok s' -> CInv c (delete k r) s' now.
Proof.
  intros Hcap HI. unfold s_invalidate. destruct (s_map s !! k) as [ve|] eqn:Hk; intros E.
  - apply (schedule_write_op_fc _ _ _ _ Hcap) in E. eapply CInv_fc; [|exact E]. apply CInv_delete, HI.
  - injection E as <-. apply CInv_delete_r, HI.
Qed.

Lemma s_get_cinv c r s now k s' res :
  sc_cap c = None -> CInv c r s now -> s_get c s now k = Ok (s', res) -> CInv c r s' now.
Proof.
  intros Hcap HI. cbv beta delta [s_get]. cbv beta zeta. intros E.
  repeat rstep E;
    match goal with
    | H : record_read_op _ _ _ _ = Ok _ |- _ =>
      apply (record_read_op_fc _ _ _ _ _ Hcap) in H; eapply CInv_fc; [exact HI|exact H]
    end.
Qed.

(** one step: the answer is complete and the invariant is re-established for the
    updated weak reference state *)
Lemma sstep_complete c r run o run' out :
  sc_cap c = None -> SInv c (sr_state run) -> RC c r run -> sstep c run o = Ok (run', out) ->
  s_out_complete c (sr_now run) r o out /\
  RC c (rstep_weak (sr_now run) r (aop_of_s o out)) run'.
Proof.
  unfold RC. destruct run as [s now]. cbn [sr_state sr_now].
  intros Hcap HS HI E. destruct o; cbn [sstep sr_state sr_now] in E.
  - rstep E. rstep E. cbn [s_out_complete aop_of_s rstep_weak rstep sr_state sr_now].
    split; [exact Logic.I|]. eapply s_insert_cinv; eassumption.
  - rstep E. destruct a as [s' res]. rstep E.
    cbn [s_out_complete aop_of_s rstep_weak sr_state sr_now]. split.
    + intros v J. eapply s_get_complete; eassumption.
    + eapply s_get_cinv; eassumption.
  - rstep E. cbn [s_out_complete aop_of_s rstep_weak rstep sr_state sr_now]. split; [|exact HI].
    intros J. eapply s_contains_complete; eassumption.
  - rstep E. cbn [s_out_complete aop_of_s rstep_weak rstep sr_state sr_now]. split; [|exact HI].
    intros k v J. eapply s_iter_complete; eassumption.
  - rstep E. rstep E. cbn [s_out_complete aop_of_s rstep_weak rstep sr_state sr_now].
    split; [exact Logic.I|]. eapply s_invalidate_cinv; eassumption.
  - rstep E. cbn [s_out_complete aop_of_s rstep_weak rstep sr_state sr_now].
    split; [exact Logic.I|]. apply CInv_invalidate_all, HI.
  - rstep E. rstep E. cbn [s_out_complete aop_of_s rstep_weak rstep sr_state sr_now].
    split; [exact Logic.I|]. apply (s_sync_fc _ _ _ _ Hcap) in E0. eapply CInv_fc; eassumption.
  - rstep E. cbn [s_out_complete aop_of_s rstep_weak rstep sr_state sr_now].
    split; [exact Logic.I|]. eapply CInv_now; [exact HI|lia].
Qed.

(** * Every live entry of every run is returned *)

Theorem s_trace_complete_from c ops : forall r run,
  scfg_ok c -> sc_cap c = None -> SInv c (sr_state run) ->
  s_next (sr_state run) + 140 * N.of_nat (length ops) < 2 ^ 31 ->
  sk_load_s (sr_state run) + 264 * N.of_nat (length ops) < 2 ^ 27 ->
  RC c r run -> s_trace_complete c r run ops.
Proof.
  induction ops as [|o rest IH]; intros r run Hc Hcap HS Hn Hl HI; cbn [s_trace_complete]; [exact I|].
  cbn [length] in Hn, Hl. rewrite Nat2N.inj_succ in Hn, Hl.
  destruct (sstep_safe c run o Hc HS) as (run' & out & E & HS' & Hn' & Hl' & _).
  { split; [lia | unfold sk_load_s in Hl; lia]. }
  rewrite E.
  destruct (sstep_complete _ _ _ _ _ _ Hcap HS HI E) as [Hout HI']. split; [exact Hout|].
  apply IH; try assumption; lia.
Qed.

Theorem s_trace_complete_all : forall c ops, scfg_ok c -> sc_cap c = None ->
  N.of_nat (length ops) < 2 ^ 18 -> s_trace_complete c ∅ srun_init ops.
Proof.
  intros c ops Hc Hcap Hlen. apply s_trace_complete_from; try assumption.
  - apply sinv_init.
  - unfold srun_init, s_init. cbn [sr_state s_next]. lia.
  - unfold srun_init, s_init, sk_load_s, sk_empty. cbn [sr_state s_sk sk_table].
    rewrite map_size_empty. lia.
  - apply CInv_init.
Qed.

Print Assumptions s_trace_complete_all.

(** the theorem is not vacuous (the model does not fail on this history), and the
    weak reference is necessary: the get of key 1 at reading t+6 is recorded but not yet
    applied when the key is looked up again at reading t+12 (the clock is past
    [sync_after], so the housekeeper does not run), the idle timer (10) still runs from
    the insert at reading t and the entry is not returned, although the reference state
    of [rstep FSync] (access at t+6) would still hold it live *)
Example s_complete_sample_run :
  let c := mkSCfg None (Some 1000) (Some 10) None (fun k => k) in
  let ops := [SAdvance 1000000000000; SInsert 1 10; SInsert 2 20; SAdvance 6; SGet 1; SInsert 2 21;
              SAdvance 6; SGet 1; SGet 2; SContains 2; SIter] in
  match srun_ops c srun_init ops with Ok (_, outs) => Some outs | Err _ => None end =
  Some [SONone; SONone; SONone; SONone; SOVal (Some 10); SONone; SONone;
        SOVal None; SOVal (Some 21); SOBool true; SOList [(2, 21)]].
Proof. vm_compute. reflexivity. Qed.
