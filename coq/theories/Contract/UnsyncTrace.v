(** The single-threaded cache against the history-level reference state.

    Soundness ([u_trace_ok_all]): every lookup answer of every run is justified by the
    reference state.  Completeness ([u_trace_complete_all]): with no capacity the cache
    returns every live entry.  Invalidation is immediate and permanent
    ([u_invalidated_never_reappears]); iteration is exact ([u_iter_exact]).

    Method: every operation is characterised on the observable view [cells] of a state
    (key |-> value, last-modified reading, last-accessed reading); the invariants relate
    that view to the reference state and are proved on finite maps alone. *)
From MM Require Import Sketch.SketchProofs.
From MM Require Import Unsync.UInv.
From MM Require Export Contract.Trace.
From Coq Require Import Lia.

Notation cell := (N * option N * option N)%type.

(** * Id-tagged lists: lookups after the deque primitives *)
Section find.
  Context {A : Type}.
  Implicit Types l : list (N * A).

  Lemma find_id_remove_ne n m l : n <> m -> find_id n (remove_id m l) = find_id n l.
  Proof.
    intros Hne. induction l as [|[i a] l IH]; cbn [remove_id find_id]; [done|].
    destruct (N.eqb_spec i m) as [->|Him].
    - destruct (N.eqb_spec m n) as [->|_]; [done|done].
    - cbn [find_id]. by rewrite IH.
  Qed.

  Lemma find_id_remove_eq m l : NoDup l.*1 -> find_id m (remove_id m l) = None.
  Proof.
    induction l as [|[i a] l IH]; cbn [remove_id find_id]; [done|].
    rewrite fmap_cons. cbn [fst]. intros Hnd. apply NoDup_cons in Hnd as [Hni Hnd].
    destruct (N.eqb_spec i m) as [->|Him].
    - destruct (find_id m l) eqn:E; [|done]. apply find_id_Some_elem in E.
      exfalso. apply Hni. by eapply elem_fst.
    - cbn [find_id]. destruct (N.eqb_spec i m); [done|]. by apply IH.
  Qed.

  Lemma find_id_app n l1 l2 :
    find_id n (l1 ++ l2) = match find_id n l1 with Some a => Some a | None => find_id n l2 end.
  Proof.
    induction l1 as [|[i a] l1 IH]; cbn [app find_id]; [done|].
    by destruct (N.eqb i n).
  Qed.

  Lemma find_id_update_ne n m f l : n <> m -> find_id n (update_id m f l) = find_id n l.
  Proof.
    intros Hne. induction l as [|[i a] l IH]; cbn [update_id find_id]; [done|].
    destruct (N.eqb_spec i m) as [->|Him]; cbn [find_id].
    - destruct (N.eqb_spec m n) as [->|_]; done.
    - by rewrite IH.
  Qed.

  Lemma find_id_update_eq m f l : find_id m (update_id m f l) = f <$> find_id m l.
  Proof.
    induction l as [|[i a] l IH]; cbn [update_id find_id]; [done|].
    destruct (N.eqb_spec i m) as [->|Him]; cbn [find_id].
    - by rewrite N.eqb_refl.
    - destruct (N.eqb_spec i m); [done|]. exact IH.
  Qed.

  Lemma find_id_move_back n m a l :
    NoDup l.*1 -> find_id m l = Some a -> find_id n (remove_id m l ++ [(m, a)]) = find_id n l.
  Proof.
    intros Hnd Hm. rewrite find_id_app. destruct (decide (n = m)) as [->|Hne].
    - rewrite find_id_remove_eq by done. cbn [find_id]. by rewrite N.eqb_refl.
    - rewrite find_id_remove_ne by done. destruct (find_id n l); [done|].
      cbn [find_id]. destruct (N.eqb_spec m n); [congruence|done].
  Qed.

  Lemma find_id_snoc_old n m a b l :
    find_id n l = Some a -> find_id n (l ++ [(m, b)]) = Some a.
  Proof. intros H. by rewrite find_id_app, H. Qed.
End find.

(** * The observable view *)
Definition cell_exp (c : ucfg) (now : N) (x : cell) : bool :=
  expired_at (uc_ttl c) x.1.2 now || expired_at (uc_tti c) x.2 now.

Lemma cells_lookup s k : cells s !! k = cell_of s <$> (u_map s !! k).
Proof. unfold cells. by rewrite lookup_fmap. Qed.

Lemma cell_of_eq s s' e :
  (forall n, ue_ao e = Some n -> find_id n (u_prob s') = find_id n (u_prob s)) ->
  (forall n, ue_wo e = Some n -> find_id n (u_wo s') = find_id n (u_wo s)) ->
  cell_of s' e = cell_of s e.
Proof.
  intros Ha Hw. unfold cell_of.
  destruct (ue_ao e) as [n|]; destruct (ue_wo e) as [m|];
    rewrite ?(Ha _ eq_refl), ?(Hw _ eq_refl); reflexivity.
Qed.

(** distinct entries own distinct nodes *)
Lemma wfs_ao_inj c pk s k k' e e' n :
  WFs c pk s -> u_map s !! k = Some e -> u_map s !! k' = Some e' ->
  ue_ao e = Some n -> ue_ao e' = Some n -> k = k'.
Proof.
  intros W H H' Ha Ha'.
  assert (Hp : forall k0 e0, u_map s !! k0 = Some e0 -> ue_ao e0 = Some n -> Some k0 <> pk).
  { intros k0 e0 H0 Ha0 Heq. destruct (ws_pend _ _ _ W k0 e0 (eq_sym Heq) H0). congruence. }
  destruct (ws_map_ao _ _ _ W _ _ H (Hp _ _ H Ha)) as (m & nd & E1 & E2 & E3 & _).
  destruct (ws_map_ao _ _ _ W _ _ H' (Hp _ _ H' Ha')) as (m' & nd' & F1 & F2 & F3 & _).
  rewrite Ha in E1. rewrite Ha' in F1. injection E1 as <-. injection F1 as <-.
  assert (nd = nd') by (eapply elem_unique; [apply W|eauto..]). congruence.
Qed.

Lemma wfs_wo_inj c pk s k k' e e' n :
  WFs c pk s -> u_map s !! k = Some e -> u_map s !! k' = Some e' ->
  ue_wo e = Some n -> ue_wo e' = Some n -> k = k'.
Proof.
  intros W H H' Ha Ha'.
  assert (Hp : forall k0 e0, u_map s !! k0 = Some e0 -> ue_wo e0 = Some n -> Some k0 <> pk).
  { intros k0 e0 H0 Ha0 Heq. destruct (ws_pend _ _ _ W k0 e0 (eq_sym Heq) H0). congruence. }
  pose proof (ws_map_wo _ _ _ W _ _ H (Hp _ _ H Ha)) as E.
  pose proof (ws_map_wo _ _ _ W _ _ H' (Hp _ _ H' Ha')) as F.
  destruct (uc_ttl c) as [ttl|]; [|congruence].
  destruct E as (m & nd & E1 & E2 & E3). destruct F as (m' & nd' & F1 & F2 & F3).
  rewrite Ha in E1. rewrite Ha' in F1. injection E1 as <-. injection F1 as <-.
  assert (nd = nd') by (eapply elem_unique; [apply W|eauto..]). congruence.
Qed.

(** the nodes of a (non-pending) entry are live *)
Lemma wfs_ao_find c pk s k e :
  WFs c pk s -> u_map s !! k = Some e -> Some k <> pk ->
  exists n nd, ue_ao e = Some n /\ find_id n (u_prob s) = Some nd /\ (n, nd) ∈ u_prob s /\ an_key nd = k.
Proof.
  intros W H Hpk. destruct (ws_map_ao _ _ _ W _ _ H Hpk) as (n & nd & E1 & E2 & E3 & _).
  exists n, nd. split; [done|]. split; [|done]. apply elem_find_id; [apply W|done].
Qed.

Lemma wfs_wo_find c pk s k e :
  WFs c pk s -> u_map s !! k = Some e -> Some k <> pk ->
  match uc_ttl c with
  | Some _ => exists n nd, ue_wo e = Some n /\ find_id n (u_wo s) = Some nd /\ (n, nd) ∈ u_wo s /\ wn_key nd = k
  | None => ue_wo e = None
  end.
Proof.
  intros W H Hpk. pose proof (ws_map_wo _ _ _ W _ _ H Hpk) as E.
  destruct (uc_ttl c) as [ttl|]; [|done]. destruct E as (n & nd & E1 & E2 & E3).
  exists n, nd. split; [done|]. split; [|done]. apply elem_find_id; [apply W|done].
Qed.

Lemma has_expiry_false c : has_expiry c = false -> uc_ttl c = None /\ uc_tti c = None.
Proof. unfold has_expiry. destruct (uc_ttl c), (uc_tti c); done. Qed.

Lemma has_expiry_ttl c d : uc_ttl c = Some d -> has_expiry c = true.
Proof. unfold has_expiry. by intros ->. Qed.

Lemma has_expiry_tti c d : uc_tti c = Some d -> has_expiry c = true.
Proof. unfold has_expiry. intros ->. by destruct (uc_ttl c). Qed.

Lemma cell_shape c pk s k e :
  WFs c pk s -> u_map s !! k = Some e -> Some k <> pk ->
  (uc_ttl c = None -> (cell_of s e).1.2 = None) /\
  (has_expiry c = false -> (cell_of s e).2 = None).
Proof.
  intros W H Hpk. split.
  - intros Httl. pose proof (ws_map_wo _ _ _ W _ _ H Hpk) as E. rewrite Httl in E.
    unfold cell_of. cbn [fst snd]. by rewrite E.
  - intros Hex. destruct (wfs_ao_find _ _ _ _ _ W H Hpk) as (n & nd & E1 & E2 & E3 & _).
    unfold cell_of. cbn [snd]. rewrite E1, E2.
    pose proof (ws_ts_ao _ _ _ W _ _ E3) as [Hts _].
    destruct (an_ts nd); [|done]. rewrite Hex in Hts. by specialize (Hts ltac:(by eexists)).
Qed.

Lemma entry_expired_cell c pk s k e now :
  WFs c pk s -> u_map s !! k = Some e -> Some k <> pk ->
  entry_expired c s e now = Ok (cell_exp c now (cell_of s e)).
Proof.
  intros W H Hpk. unfold entry_expired, entry_lm, entry_la, cell_exp, cell_of. cbn [fst snd].
  destruct (wfs_ao_find _ _ _ _ _ W H Hpk) as (n & nd & E1 & E2 & _).
  pose proof (wfs_wo_find _ _ _ _ _ W H Hpk) as Hwo.
  rewrite E1, E2.
  destruct (uc_ttl c) as [ttl|].
  - destruct Hwo as (n2 & nd2 & F1 & F2 & _). rewrite F1, F2. cbn [rbind].
    destruct (expired_at _ (wn_ts nd2) now); cbn [rbind orb]; done.
  - rewrite Hwo. cbn [rbind]. cbn [expired_at orb]. done.
Qed.

(** * Removing an entry *)
Lemma unlink_entry_inv s e s' :
  unlink_entry s e = Ok s' ->
  s' = set_wo (set_prob s (match ue_ao e with Some n => remove_id n (u_prob s) | None => u_prob s end))
              (match ue_wo e with Some n => remove_id n (u_wo s) | None => u_wo s end).
Proof.
  unfold unlink_entry, deq_unlink.
  destruct (ue_ao e) as [n|]; destruct (ue_wo e) as [m|];
    repeat (match goal with |- context [mem_id ?a ?b] => destruct (mem_id a b) end; cbn [rbind]);
    try done; by intros [= <-].
Qed.

Lemma cells_evict c pk s k e s1 :
  WFs c pk s -> u_map s !! k = Some e ->
  unlink_entry (UModel.set_map s (delete k (u_map s))) e = Ok s1 ->
  cells s1 = delete k (cells s).
Proof.
  intros W H E. apply unlink_entry_inv in E. subst s1. simpl_set.
  apply map_eq. intros k'. rewrite cells_lookup. simpl_set.
  destruct (decide (k' = k)) as [->|Hne].
  - by rewrite !lookup_delete.
  - rewrite !lookup_delete_ne by done. rewrite cells_lookup.
    destruct (u_map s !! k') as [e'|] eqn:H'; [|done]. cbn [fmap option_fmap option_map]. f_equal.
    apply cell_of_eq; simpl_set.
    + intros n Hn. destruct (ue_ao e) as [m|] eqn:Ha; [|done].
      apply find_id_remove_ne. intros ->. apply Hne. eapply wfs_ao_inj; eauto.
    + intros n Hn. destruct (ue_wo e) as [m|] eqn:Ha; [|done].
      apply find_id_remove_ne. intros ->. apply Hne. eapply wfs_wo_inj; eauto.
Qed.

(** * Shrinking views *)
Definition shrunk (P : cell -> Prop) (m m' : gmap N cell) : Prop :=
  forall k, m' !! k = m !! k \/ (m' !! k = None /\ exists x, m !! k = Some x /\ P x).

Lemma shrunk_refl P m : shrunk P m m.
Proof. intros k. by left. Qed.

Lemma shrunk_trans P m1 m2 m3 : shrunk P m1 m2 -> shrunk P m2 m3 -> shrunk P m1 m3.
Proof.
  intros H1 H2 k. destruct (H2 k) as [E|[E (x & Hx & Px)]]; destruct (H1 k) as [F|[F (y & Hy & Py)]].
  - left. congruence.
  - right. split; [congruence|eauto].
  - right. split; [done|]. exists x. split; [congruence|done].
  - congruence.
Qed.

Lemma shrunk_mono (P Q : cell -> Prop) m m' : (forall x, P x -> Q x) -> shrunk P m m' -> shrunk Q m m'.
Proof. intros HPQ H k. destruct (H k) as [E|[E (x & Hx & Px)]]; [by left|right; eauto]. Qed.

Lemma shrunk_delete (P : cell -> Prop) m k x : m !! k = Some x -> P x -> shrunk P m (delete k m).
Proof.
  intros H Px k'. destruct (decide (k' = k)) as [->|Hne].
  - right. rewrite lookup_delete. eauto.
  - left. by rewrite lookup_delete_ne.
Qed.

Lemma shrunk_lookup P m m' k x : shrunk P m m' -> m' !! k = Some x -> m !! k = Some x.
Proof. intros H Hk. destruct (H k) as [E|[E _]]; congruence. Qed.

(** * Maintenance: what may disappear *)
Lemma remove_expired_wo_cells c fuel : forall s now cnt wt s' cnt' wt',
  WFs c None s -> remove_expired_wo c fuel s now cnt wt = Ok (s', cnt', wt') ->
  WFs c None s' /\ shrunk (fun x => cell_exp c now x = true) (cells s) (cells s').
Proof.
  induction fuel as [|fuel IH]; intros s now cnt wt s' cnt' wt' W H; cbn [remove_expired_wo] in H.
  { injection H as <- _ _. split; [done|apply shrunk_refl]. }
  destruct (u_wo s) as [|[nid nd] rest] eqn:Ewo.
  { injection H as <- _ _. split; [done|apply shrunk_refl]. }
  destruct (expired_at (uc_ttl c) (wn_ts nd) now) eqn:Eexp.
  2:{ injection H as <- _ _. split; [done|apply shrunk_refl]. }
  assert (Hin : (nid, nd) ∈ u_wo s) by (rewrite Ewo; left).
  destruct (ws_wo_map _ _ _ W _ _ Hin) as (_ & e & He & Hwo).
  rewrite He in H.
  destruct (evict_one _ _ _ _ _ W He ltac:(done)) as (s1 & E1 & W1 & _).
  rewrite E1 in H. cbn [rbind] in H.
  destruct (IH _ _ _ _ _ _ _ W1 H) as (W' & Sh). split; [done|].
  eapply shrunk_trans; [|exact Sh]. rewrite (cells_evict _ _ _ _ _ _ W He E1).
  eapply shrunk_delete.
  - rewrite cells_lookup, He. reflexivity.
  - cbn beta. unfold cell_exp, cell_of. cbn [fst snd]. rewrite Hwo.
    rewrite (elem_find_id _ _ _ (ws_nodup_wo _ _ _ W) Hin). by rewrite Eexp.
Qed.

Lemma remove_expired_ao_cells c fuel : forall s now cnt wt s' cnt' wt',
  WFs c None s -> remove_expired_ao c fuel s now cnt wt = Ok (s', cnt', wt') ->
  WFs c None s' /\ shrunk (fun x => cell_exp c now x = true) (cells s) (cells s').
Proof.
  induction fuel as [|fuel IH]; intros s now cnt wt s' cnt' wt' W H; cbn [remove_expired_ao] in H.
  { injection H as <- _ _. split; [done|apply shrunk_refl]. }
  destruct (u_prob s) as [|[nid nd] rest] eqn:Ep.
  { injection H as <- _ _. split; [done|apply shrunk_refl]. }
  destruct (expired_at (uc_tti c) (an_ts nd) now) eqn:Eexp.
  2:{ injection H as <- _ _. split; [done|apply shrunk_refl]. }
  assert (Hin : (nid, nd) ∈ u_prob s) by (rewrite Ep; left).
  destruct (ws_ao_map _ _ _ W _ _ Hin) as (e & He & Hao).
  rewrite He in H.
  destruct (evict_one _ _ _ _ _ W He ltac:(done)) as (s1 & E1 & W1 & _).
  rewrite E1 in H. cbn [rbind] in H.
  destruct (IH _ _ _ _ _ _ _ W1 H) as (W' & Sh). split; [done|].
  eapply shrunk_trans; [|exact Sh]. rewrite (cells_evict _ _ _ _ _ _ W He E1).
  eapply shrunk_delete.
  - rewrite cells_lookup, He. reflexivity.
  - cbn beta. unfold cell_exp, cell_of. cbn [fst snd]. rewrite Hao.
    rewrite (elem_find_id _ _ _ (ws_nodup_ao _ _ _ W) Hin). rewrite Eexp. apply orb_true_r.
Qed.

Lemma evict_lru_loop_cells c fuel : forall s te cnt wt s' cnt' wt',
  WFs c None s -> evict_lru_loop fuel s te cnt wt = Ok (s', cnt', wt') ->
  WFs c None s' /\ shrunk (fun _ => te <> 0) (cells s) (cells s').
Proof.
  induction fuel as [|fuel IH]; intros s te cnt wt s' cnt' wt' W H; cbn [evict_lru_loop] in H.
  { injection H as <- _ _. split; [done|apply shrunk_refl]. }
  destruct (N.leb_spec te wt) as [Hle|Hlt].
  { injection H as <- _ _. split; [done|apply shrunk_refl]. }
  destruct (u_prob s) as [|[nid nd] rest] eqn:Ep.
  { injection H as <- _ _. split; [done|apply shrunk_refl]. }
  assert (Hin : (nid, nd) ∈ u_prob s) by (rewrite Ep; left).
  destruct (ws_ao_map _ _ _ W _ _ Hin) as (e & He & Hao).
  rewrite He in H.
  destruct (evict_one _ _ _ _ _ W He ltac:(done)) as (s1 & E1 & W1 & _).
  rewrite E1 in H. cbn [rbind] in H.
  destruct (IH _ _ _ _ _ _ _ W1 H) as (W' & Sh). split; [done|].
  eapply shrunk_trans; [|exact Sh]. rewrite (cells_evict _ _ _ _ _ _ W He E1).
  eapply shrunk_delete.
  - rewrite cells_lookup, He. reflexivity.
  - cbn beta. lia.
Qed.

Lemma evict_expired_cells c s now s' :
  WFs c None s -> evict_expired c s now = Ok s' ->
  WFs c None s' /\ shrunk (fun x => cell_exp c now x = true) (cells s) (cells s').
Proof.
  intros W H. unfold evict_expired in H.
  assert (H1 : forall r1, match uc_ttl c with
         | Some _ =>
           '(s', cnt, wt) <-r remove_expired_wo c batch_u s now 0 0;
           ec <-r chk_sub (u_ec s') cnt;
           Ok (set_ws (set_ec s' ec) (sat_sub (u_ws s') wt))
         | None => Ok s
         end = Ok r1 -> WFs c None r1 /\ shrunk (fun x => cell_exp c now x = true) (cells s) (cells r1)).
  { intros r1 H1. destruct (uc_ttl c) as [ttl|].
    - destruct (remove_expired_wo c batch_u s now 0 0) as [[[s1 cnt1] wt1]|] eqn:E1; cbn [rbind] in H1; [|done].
      destruct (chk_sub (u_ec s1) cnt1) as [ec|]; cbn [rbind] in H1; [|done]. injection H1 as <-.
      destruct (remove_expired_wo_cells _ _ _ _ _ _ _ _ _ W E1) as (W1 & Sh1).
      split; [by apply WFs_set_counters|exact Sh1].
    - injection H1 as <-. split; [done|apply shrunk_refl]. }
  destruct (match uc_ttl c with Some _ => _ | None => _ end) as [r1|] eqn:E; cbn [rbind] in H; [|done].
  destruct (H1 _ eq_refl) as (W1 & Sh1).
  destruct (uc_tti c) as [tti|].
  - destruct (remove_expired_ao c batch_u r1 now 0 0) as [[[s2 cnt2] wt2]|] eqn:E2; cbn [rbind] in H; [|done].
    destruct (chk_sub (u_ec s2) cnt2) as [ec|]; cbn [rbind] in H; [|done]. injection H as <-.
    destruct (remove_expired_ao_cells _ _ _ _ _ _ _ _ _ W1 E2) as (W2 & Sh2).
    split; [by apply WFs_set_counters|]. eapply shrunk_trans; [exact Sh1|exact Sh2].
  - injection H as <-. done.
Qed.

Lemma evict_lru_entries_cells c s s' :
  WFs c None s -> evict_lru_entries c s = Ok s' ->
  WFs c None s' /\ shrunk (fun _ => uc_cap c <> None) (cells s) (cells s').
Proof.
  intros W H. unfold evict_lru_entries in H.
  destruct (evict_lru_loop batch_u s (weights_to_evict c s) 0 0) as [[[s1 cnt1] wt1]|] eqn:E1; cbn [rbind] in H; [|done].
  destruct (chk_sub (u_ec s1) cnt1) as [ec|]; cbn [rbind] in H; [|done]. injection H as <-.
  destruct (evict_lru_loop_cells _ _ _ _ _ _ _ _ _ W E1) as (W1 & Sh1).
  split; [by apply WFs_set_counters|].
  eapply shrunk_mono; [|exact Sh1]. cbn beta. intros _ Hne Hcap. apply Hne.
  unfold weights_to_evict. by rewrite Hcap.
Qed.

(** what maintenance may remove: expired entries, and anything when a capacity is set *)
Definition Pm (c : ucfg) (now : N) (x : cell) : Prop := cell_exp c now x = true \/ uc_cap c <> None.

Lemma maintain_cells c s now s1 ts :
  WFs c None s -> maintain c s now = Ok (s1, ts) ->
  WFs c None s1 /\ ts = (if has_expiry c then Some now else None) /\
  shrunk (Pm c now) (cells s) (cells s1).
Proof.
  intros W H. split; [|split; [by eapply maintain_ts|]]; revert H;
    unfold maintain, evict_expired_if_needed; intros H.
  - destruct (has_expiry c).
    + destruct (evict_expired c s now) as [s0|] eqn:E0; cbn [rbind] in H; [|done].
      destruct (evict_lru_entries c s0) as [s2|] eqn:E2; cbn [rbind] in H; [|done]. injection H as <- _.
      destruct (evict_expired_cells _ _ _ _ W E0) as (W0 & _).
      by destruct (evict_lru_entries_cells _ _ _ W0 E2).
    + cbn [rbind] in H.
      destruct (evict_lru_entries c s) as [s2|] eqn:E2; cbn [rbind] in H; [|done]. injection H as <- _.
      by destruct (evict_lru_entries_cells _ _ _ W E2).
  - destruct (has_expiry c).
    + destruct (evict_expired c s now) as [s0|] eqn:E0; cbn [rbind] in H; [|done].
      destruct (evict_lru_entries c s0) as [s2|] eqn:E2; cbn [rbind] in H; [|done]. injection H as <- _.
      destruct (evict_expired_cells _ _ _ _ W E0) as (W0 & Sh0).
      destruct (evict_lru_entries_cells _ _ _ W0 E2) as (_ & Sh2).
      eapply shrunk_trans; (eapply shrunk_mono; [|eassumption]); cbn beta; unfold Pm; tauto.
    + cbn [rbind] in H.
      destruct (evict_lru_entries c s) as [s2|] eqn:E2; cbn [rbind] in H; [|done]. injection H as <- _.
      destruct (evict_lru_entries_cells _ _ _ W E2) as (_ & Sh2).
      eapply shrunk_mono; [|eassumption]. cbn beta; unfold Pm; tauto.
Qed.

(** * Touching and reordering nodes *)
Lemma cells_set_map s m : cells (UModel.set_map s m) = cell_of s <$> m.
Proof. reflexivity. Qed.

Lemma set_last_accessed_cells c pk s k e t s3 :
  WFs c pk s -> u_map s !! k = Some e -> Some k <> pk ->
  set_last_accessed s e t = Ok s3 ->
  cells s3 = <[k := ((cell_of s e).1.1, (cell_of s e).1.2, Some t)]> (cells s).
Proof.
  intros W H Hpk E.
  destruct (wfs_ao_find _ _ _ _ _ W H Hpk) as (n & nd & Ha & Hf & Hin & _).
  unfold set_last_accessed in E. rewrite Ha, (elem_mem_id _ _ _ Hin) in E. injection E as <-.
  apply map_eq. intros k'. rewrite cells_lookup. simpl_set.
  destruct (decide (k' = k)) as [->|Hne].
  - rewrite lookup_insert, H. cbn [fmap option_fmap option_map]. f_equal.
    unfold cell_of. simpl_set. cbn [fst snd]. by rewrite Ha, find_id_update_eq, Hf.
  - rewrite lookup_insert_ne by done. rewrite cells_lookup.
    destruct (u_map s !! k') as [e'|] eqn:H'; [|done]. cbn [fmap option_fmap option_map]. f_equal.
    apply cell_of_eq; simpl_set; [|done].
    intros n' Hn'. apply find_id_update_ne. intros ->. apply Hne. eapply wfs_ao_inj; eauto.
Qed.

Lemma set_last_modified_cells c pk s k e t s3 :
  WFs c pk s -> u_map s !! k = Some e -> Some k <> pk ->
  set_last_modified s e t = Ok s3 ->
  cells s3 = <[k := ((cell_of s e).1.1, (if uc_ttl c then Some t else None), (cell_of s e).2)]> (cells s).
Proof.
  intros W H Hpk E.
  pose proof (wfs_wo_find _ _ _ _ _ W H Hpk) as Hwo.
  pose proof (cell_shape _ _ _ _ _ W H Hpk) as [Hsh _].
  unfold set_last_modified in E. destruct (uc_ttl c) as [ttl|].
  - destruct Hwo as (n & nd & Ha & Hf & Hin & _).
    rewrite Ha, (elem_mem_id _ _ _ Hin) in E. injection E as <-.
    apply map_eq. intros k'. rewrite cells_lookup. simpl_set.
    destruct (decide (k' = k)) as [->|Hne].
    + rewrite lookup_insert, H. cbn [fmap option_fmap option_map]. f_equal.
      unfold cell_of. simpl_set. cbn [fst snd]. by rewrite Ha, find_id_update_eq, Hf.
    + rewrite lookup_insert_ne by done. rewrite cells_lookup.
      destruct (u_map s !! k') as [e'|] eqn:H'; [|done]. cbn [fmap option_fmap option_map]. f_equal.
      apply cell_of_eq; simpl_set; [done|].
      intros n' Hn'. apply find_id_update_ne. intros ->. apply Hne. eapply wfs_wo_inj; eauto.
  - rewrite Hwo in E. injection E as <-. symmetry. apply insert_id.
    rewrite cells_lookup, H. cbn [fmap option_fmap option_map]. f_equal.
    rewrite <-(Hsh eq_refl). by destruct (cell_of s e) as [[? ?] ?].
Qed.

Lemma move_to_back_ao_cells s e s3 :
  NoDup (u_prob s).*1 -> move_to_back_ao s e = Ok s3 -> cells s3 = cells s.
Proof.
  intros Hnd E. unfold move_to_back_ao, deq_move_to_back in E.
  destruct (ue_ao e) as [n|]; [|by injection E as <-].
  destruct (find_id n (u_prob s)) as [a|] eqn:Hf; cbn [rbind] in E; [|done]. injection E as <-.
  apply map_eq. intros k'. rewrite !cells_lookup. simpl_set.
  destruct (u_map s !! k') as [e'|]; [|done]. cbn [fmap option_fmap option_map]. f_equal.
  apply cell_of_eq; simpl_set; [|done]. intros n' _. by apply find_id_move_back.
Qed.

Lemma move_to_back_wo_cells s e s3 :
  NoDup (u_wo s).*1 -> move_to_back_wo s e = Ok s3 -> cells s3 = cells s.
Proof.
  intros Hnd E. unfold move_to_back_wo, deq_move_to_back in E.
  destruct (ue_wo e) as [n|]; [|done].
  destruct (find_id n (u_wo s)) as [a|] eqn:Hf; cbn [rbind] in E; [|done]. injection E as <-.
  apply map_eq. intros k'. rewrite !cells_lookup. simpl_set.
  destruct (u_map s !! k') as [e'|]; [|done]. cbn [fmap option_fmap option_map]. f_equal.
  apply cell_of_eq; simpl_set; [done|]. intros n' _. by apply find_id_move_back.
Qed.

(** * insert *)
Lemma push_candidate_cells c s k h w ts e s' :
  WFs c (Some k) s -> u_map s !! k = Some e ->
  push_candidate c s k h w ts = Ok s' ->
  cells s' = <[k := (ue_val e, (if uc_ttl c then ts else None), ts)]> (cells s).
Proof.
  intros W H E. rewrite (push_candidate_eq _ _ _ _ _ _ _ H) in E. injection E as <-.
  assert (Hfa : find_id (u_next s) (u_prob s) = None).
  { destruct (find_id (u_next s) (u_prob s)) eqn:F; [|done]. apply find_id_Some_elem in F.
    pose proof (ws_ids_ao _ _ _ W _ _ F). lia. }
  assert (Hfw : find_id (u_next s + 1) (u_wo s) = None).
  { destruct (find_id (u_next s + 1) (u_wo s)) eqn:F; [|done]. apply find_id_Some_elem in F.
    pose proof (ws_ids_wo _ _ _ W _ _ F). lia. }
  apply map_eq. intros k'. rewrite cells_lookup. cbn [u_map].
  destruct (decide (k' = k)) as [->|Hne].
  - rewrite !lookup_insert. cbn [fmap option_fmap option_map]. f_equal.
    unfold cell_of. cbn [u_prob u_wo ue_val ue_ao ue_wo].
    rewrite find_id_app, Hfa. cbn [find_id]. rewrite N.eqb_refl. cbn [an_ts].
    destruct (uc_ttl c) as [ttl|]; [|done].
    rewrite find_id_app, Hfw. cbn [find_id]. rewrite N.eqb_refl. done.
  - rewrite !lookup_insert_ne by done. rewrite cells_lookup.
    destruct (u_map s !! k') as [e'|] eqn:H'; [|done]. cbn [fmap option_fmap option_map]. f_equal.
    assert (Hpk : Some k' <> Some k) by congruence.
    apply cell_of_eq; cbn [u_prob u_wo].
    + intros n' Hn'. destruct (wfs_ao_find _ _ _ _ _ W H' Hpk) as (n & nd & Ha & Hf & _).
      rewrite Hn' in Ha. injection Ha as <-. rewrite Hf. by eapply find_id_snoc_old.
    + intros n' Hn'. pose proof (wfs_wo_find _ _ _ _ _ W H' Hpk) as Hwo.
      destruct (uc_ttl c) as [ttl|]; [|congruence].
      destruct Hwo as (n & nd & Ha & Hf & _).
      rewrite Hn' in Ha. injection Ha as <-. rewrite Hf. by eapply find_id_snoc_old.
Qed.

Lemma remove_victims_cells c k : forall vs s s',
  WFs c (Some k) s -> remove_victims s vs = Ok s' ->
  WFs c (Some k) s' /\ u_map s' !! k = u_map s !! k /\
  (forall k', cells s' !! k' = cells s !! k' \/ cells s' !! k' = None).
Proof.
  induction vs as [|nid vs IH]; intros s s' W H; cbn [remove_victims] in H.
  { injection H as <-. split; [done|]. split; [done|]. intros k'. by left. }
  destruct (find_id nid (u_prob s)) as [nd|] eqn:Hf; [|done].
  apply find_id_Some_elem in Hf.
  destruct (ws_ao_map _ _ _ W _ _ Hf) as (e & He & Hao). rewrite He in H.
  assert (Hnk : an_key nd <> k).
  { intros Heq. rewrite Heq in He. destruct (ws_pend _ _ _ W _ _ eq_refl He). congruence. }
  destruct (evict_one _ _ _ _ _ W He ltac:(congruence)) as (s1 & E1 & W1 & _ & Hm & _).
  rewrite E1 in H. cbn [rbind] in H.
  destruct (chk_sub (u_ec s1) 1) as [ec|]; cbn [rbind] in H; [|done].
  destruct (IH _ _ (WFs_set_ec _ _ _ ec W1) H) as (W' & Hk' & Hc'). simpl_set.
  split; [done|]. split.
  - rewrite Hk', Hm. by apply lookup_delete_ne.
  - intros k'. change (cells (set_ec s1 ec)) with (cells s1) in Hc'.
    rewrite (cells_evict _ _ _ _ _ _ W He E1) in Hc'.
    destruct (Hc' k') as [Hl|Hr]; [|by right].
    destruct (decide (k' = an_key nd)) as [->|Hne].
    + right. by rewrite Hl, lookup_delete.
    + left. by rewrite Hl, lookup_delete_ne.
Qed.

Lemma maybe_enable_cells c s : cells (maybe_enable_sketch c s) = cells s.
Proof.
  unfold maybe_enable_sketch, enable_sketch.
  destruct (should_enable_sketch c s); [|done]. by destruct (uc_cap c).
Qed.

Definition new_cell (c : ucfg) (now v : N) : cell :=
  (v, (if uc_ttl c then Some now else None), (if has_expiry c then Some now else None)).

Lemma ttl_ts c (now : N) :
  (if uc_ttl c then (if has_expiry c then Some now else None) else None) =
  (if uc_ttl c then Some now else None).
Proof. unfold has_expiry. by destruct (uc_ttl c). Qed.

Lemma handle_insert_cells c s1 k v now s' :
  WFs c None s1 -> u_map s1 !! k = None ->
  handle_insert c (UModel.set_map s1 (<[k := mkUE v (weigh c k v) None None]> (u_map s1)))
                k (uc_hash c k) (weigh c k v) (if has_expiry c then Some now else None) = Ok s' ->
  (forall k', k' <> k -> cells s' !! k' = cells s1 !! k' \/ cells s' !! k' = None) /\
  (cells s' !! k = Some (new_cell c now v) \/ cells s' !! k = None) /\
  (uc_cap c = None -> cells s' = <[k := new_cell c now v]> (cells s1)).
Proof.
  intros W1 Hk H.
  set (pe := mkUE v (weigh c k v) None None) in *.
  set (s2 := UModel.set_map s1 (<[k := pe]> (u_map s1))) in *.
  assert (W2 : WFs c (Some k) s2) by (by apply wfs_add_pending).
  assert (Hk2 : u_map s2 !! k = Some pe) by apply lookup_insert.
  assert (Hc1 : cells s1 !! k = None) by (by rewrite cells_lookup, Hk).
  assert (Hc2 : cells s2 = <[k := (v, None, None)]> (cells s1)).
  { subst s2. rewrite cells_set_map, fmap_insert. reflexivity. }
  (* the accepting tail *)
  assert (Hpush : forall s3 s4 ec ws,
    WFs c (Some k) s3 -> u_map s3 !! k = Some pe ->
    push_candidate c s3 k (uc_hash c k) (weigh c k v) (if has_expiry c then Some now else None) = Ok s4 ->
    cells (maybe_enable_sketch c (set_ws (set_ec s4 ec) ws)) = <[k := new_cell c now v]> (cells s3)).
  { intros s3 s4 ec ws W3 Hk3 E. rewrite maybe_enable_cells.
    change (cells (set_ws (set_ec s4 ec) ws)) with (cells s4).
    rewrite (push_candidate_cells _ _ _ _ _ _ _ _ W3 Hk3 E). cbn [ue_val pe].
    unfold new_cell. by rewrite ttl_ts. }
  (* the rejecting tail *)
  assert (Hrej : cells (UModel.set_map s2 (delete k (u_map s2))) = cells s1).
  { rewrite cells_set_map, fmap_delete. fold (cells s2). rewrite Hc2.
    by rewrite delete_insert. }
  assert (Hfree : forall s',
    (s3 <-r push_candidate c s2 k (uc_hash c k) (weigh c k v) (if has_expiry c then Some now else None);
     ec <-r chk_add64 (u_ec s3) 1;
     Ok (maybe_enable_sketch c (set_ws (set_ec s3 ec) (sat_add64 (u_ws s3) (weigh c k v))))) = Ok s' ->
    cells s' = <[k := new_cell c now v]> (cells s1)).
  { intros s0 E.
    destruct (push_candidate c s2 _ _ _ _) as [s3|] eqn:E3; cbn [rbind] in E; [|done].
    destruct (chk_add64 (u_ec s3) 1) as [ec|]; cbn [rbind] in E; [|done]. injection E as <-.
    rewrite (Hpush _ _ _ _ W2 Hk2 E3), Hc2. by rewrite insert_insert. }
  assert (Hfin_acc : forall s0, cells s0 = <[k := new_cell c now v]> (cells s1) ->
    (forall k', k' <> k -> cells s0 !! k' = cells s1 !! k' \/ cells s0 !! k' = None) /\
    (cells s0 !! k = Some (new_cell c now v) \/ cells s0 !! k = None)).
  { intros s0 ->. split.
    - intros k' Hne. left. by rewrite lookup_insert_ne.
    - left. by rewrite lookup_insert. }
  assert (Hfin_rej : forall s0, cells s0 = cells s1 ->
    (forall k', k' <> k -> cells s0 !! k' = cells s1 !! k' \/ cells s0 !! k' = None) /\
    (cells s0 !! k = Some (new_cell c now v) \/ cells s0 !! k = None)).
  { intros s0 ->. split; [by left|by right]. }
  unfold handle_insert, has_enough_capacity in H.
  destruct (uc_cap c) as [limit|] eqn:Ecap.
  2:{ cbn [rbind] in H. pose proof (Hfree _ H) as Hc. destruct (Hfin_acc _ Hc). done. }
  cut ((forall k', k' <> k -> cells s' !! k' = cells s1 !! k' \/ cells s' !! k' = None) /\
       (cells s' !! k = Some (new_cell c now v) \/ cells s' !! k = None)).
  { intros [? ?]. done. }
  destruct (chk_add64 (u_ws s2) (weigh c k v)) as [sum|]; cbn [rbind] in H; [|done].
  destruct (sum <=? limit).
  { apply Hfin_acc. by apply Hfree. }
  destruct (limit <? weigh c k v).
  { injection H as <-. by apply Hfin_rej. }
  destruct (admit_loop c s2 (u_prob s2) _ _ 0 0 []) as [[[victims vw] vf]|]; cbn [rbind] in H; [|done].
  destruct ((weigh c k v <=? vw) && (vf <? frequency (u_sk s2) (uc_hash c k))).
  2:{ injection H as <-. by apply Hfin_rej. }
  destruct (remove_victims s2 victims) as [s3|] eqn:E3; cbn [rbind] in H; [|done].
  destruct (remove_victims_cells _ _ _ _ _ W2 E3) as (W3 & Hk3 & Hc3).
  rewrite Hk2 in Hk3.
  destruct (push_candidate c s3 _ _ _ _) as [s4|] eqn:E4; cbn [rbind] in H; [|done].
  destruct (chk_add64 (u_ec s4) 1) as [ec|]; cbn [rbind] in H; [|done]. injection H as <-.
  rewrite (Hpush _ _ _ _ W3 Hk3 E4). split.
  - intros k' Hne. rewrite lookup_insert_ne by done.
    destruct (Hc3 k') as [Hl|Hr]; [left|by right]. rewrite Hl, Hc2. by rewrite lookup_insert_ne.
  - left. by rewrite lookup_insert.
Qed.

Lemma handle_update_cells c s1 k v now old s' :
  WFs c None s1 -> u_map s1 !! k = Some old ->
  handle_update c (UModel.set_map s1 (<[k := mkUE v (weigh c k v) None None]> (u_map s1)))
                k (if has_expiry c then Some now else None) (weigh c k v) old = Ok s' ->
  cells s' = <[k := new_cell c now v]> (cells s1).
Proof.
  intros W Hk H.
  unfold handle_update in H. simpl_set. rewrite lookup_insert in H. cbn [ue_val] in H.
  rewrite insert_insert in H.
  set (w := weigh c k v) in *. set (e := mkUE v w (ue_ao old) (ue_wo old)) in *.
  set (s0 := UModel.set_map (UModel.set_map s1 _) (<[k:=e]> (u_map s1))) in *.
  assert (W0 : WFs c None s0) by exact (wfs_replace c s1 k old v w W Hk eq_refl).
  assert (Hk0 : u_map s0 !! k = Some e) by apply lookup_insert.
  assert (Hc0 : cells s0 = <[k := (v, (cell_of s1 old).1.2, (cell_of s1 old).2)]> (cells s1)).
  { subst s0. rewrite cells_set_map, fmap_insert. reflexivity. }
  pose proof (cell_shape _ _ _ _ _ W Hk ltac:(done)) as [Hsh1 Hsh2].
  assert (H2 : forall s2,
    match (if has_expiry c then Some now else None) with
    | Some t => s' <-r set_last_accessed s0 e t; set_last_modified s' e t
    | None => Ok s0
    end = Ok s2 -> WFs c None s2 /\ u_map s2 !! k = Some e /\ cells s2 = <[k := new_cell c now v]> (cells s1)).
  { intros s2 E. destruct (has_expiry c) eqn:Hex.
    - destruct (set_last_accessed_ok c None s0 k e now W0 Hk0 ltac:(done) Hex) as (p & Ea & Wp).
      rewrite Ea in E. cbn [rbind] in E.
      pose proof (set_last_accessed_cells _ _ _ _ _ _ _ W0 Hk0 ltac:(done) Ea) as Ca.
      destruct (set_last_modified_ok c None (set_prob s0 p) k e now Wp Hk0 ltac:(done)) as (w' & Em & Ww).
      rewrite Em in E. injection E as <-.
      pose proof (set_last_modified_cells _ _ _ _ _ _ _ Wp Hk0 ltac:(done) Em) as Cm.
      split; [done|]. split; [done|]. rewrite Cm, Ca, Hc0, !insert_insert. f_equal.
      assert (Hce : cells (set_prob s0 p) !! k = Some (cell_of (set_prob s0 p) e)).
      { rewrite cells_lookup. simpl_set. by rewrite Hk0. }
      rewrite Ca, lookup_insert in Hce. apply (inj Some) in Hce. rewrite <-Hce. cbn [fst snd].
      unfold new_cell. rewrite Hex. reflexivity.
    - injection E as <-. split; [done|]. split; [done|]. rewrite Hc0. f_equal.
      destruct (has_expiry_false _ Hex) as [Httl _].
      unfold new_cell. rewrite Hex, Httl, (Hsh1 Httl), (Hsh2 eq_refl). done. }
  destruct (match (if has_expiry c then Some now else None) with Some _ => _ | None => _ end) as [s2|] eqn:E2;
    cbn [rbind] in H; [|done].
  destruct (H2 _ eq_refl) as (W2 & Hk2 & C2).
  destruct (move_to_back_ao s2 e) as [s3|] eqn:E3; cbn [rbind] in H; [|done].
  pose proof (move_to_back_ao_cells _ _ _ (ws_nodup_ao _ _ _ W2) E3) as C3.
  destruct (move_to_back_ao_ok c None s2 k e W2 Hk2 ltac:(done)) as (p & E3' & W3 & _).
  rewrite E3 in E3'. injection E3' as ->.
  destruct (uc_ttl c) as [ttl|].
  - destruct (move_to_back_wo (set_prob s2 p) e) as [s4|] eqn:E4; cbn [rbind] in H; [|done].
    injection H as <-.
    pose proof (move_to_back_wo_cells _ _ _ (ws_nodup_wo _ _ _ W3) E4) as C4.
    change (cells (set_ws s4 _)) with (cells s4). congruence.
  - cbn [rbind] in H. injection H as <-.
    change (cells (set_ws (set_prob s2 p) _)) with (cells (set_prob s2 p)). congruence.
Qed.

(** * The operations on the view *)
Lemma WF_WFs_None c s : WF c s -> WFs c None s.
Proof. intros W. by apply WF_WFs in W as [? _]. Qed.

Lemma u_insert_cells c s now k v s' :
  WF c s -> u_insert c s now k v = Ok s' ->
  exists m1, shrunk (Pm c now) (cells s) m1 /\
    (forall k', k' <> k -> cells s' !! k' = m1 !! k' \/ cells s' !! k' = None) /\
    (cells s' !! k = Some (new_cell c now v) \/ cells s' !! k = None) /\
    (uc_cap c = None -> cells s' = <[k := new_cell c now v]> m1).
Proof.
  intros W H. apply WF_WFs_None in W. unfold u_insert in H.
  destruct (maintain c s now) as [[s1 ts]|] eqn:Em; cbn [rbind] in H; [|done].
  destruct (maintain_cells _ _ _ _ _ W Em) as (W1 & -> & Sh).
  exists (cells s1). split; [done|].
  destruct (u_map s1 !! k) as [old|] eqn:Hk.
  - pose proof (handle_update_cells _ _ _ _ _ _ _ W1 Hk H) as ->. split; [|split; [|done]].
    + intros k' Hne. left. by rewrite lookup_insert_ne.
    + left. by rewrite lookup_insert.
  - by apply handle_insert_cells.
Qed.

Lemma u_get_cells c s now k s' res :
  cfg_ok c -> WF' c s -> small s -> u_get c s now k = Ok (s', res) ->
  exists m1, shrunk (Pm c now) (cells s) m1 /\
    match m1 !! k with
    | None => res = None /\ cells s' = m1
    | Some x =>
      if cell_exp c now x then res = None /\ cells s' = m1
      else res = Some x.1.1 /\
           cells s' = <[k := (x.1.1, x.1.2, if has_expiry c then Some now else x.2)]> m1
    end.
Proof.
  intros Hc W [Hn Hl] H.
  destruct (maintain_ok c s now Hc (WF'_WF _ _ W) Hn) as (s1 & E1 & W1 & Sh).
  unfold u_get in H. rewrite E1 in H. cbn [rbind] in H.
  destruct (maintain_cells _ _ _ _ _ (WF_WFs_None _ _ (WF'_WF _ _ W)) E1) as (W1s & _ & Shc).
  pose proof (shrinks_load _ _ Sh) as Hl1.
  destruct (increment_ok_load (u_sk s1) (uc_hash c k)) as (sk1 & Ei & Wsk & _).
  { apply W1. } { fold (sk_load s1). rewrite Hl1, pow2_28. rewrite pow2_27 in Hl. lia. }
  rewrite Ei in H. cbn [rbind] in H.
  set (s2 := set_sk s1 sk1 (u_skon s1)) in *.
  assert (W2 : WFs c None s2) by (apply WF_WFs_None, WF_set_sk; done).
  exists (cells s1). split; [done|]. change (cells s1) with (cells s2).
  rewrite cells_lookup.
  destruct (u_map s2 !! k) as [e|] eqn:Hk; cbn [fmap option_fmap option_map].
  2:{ by injection H as <- <-. }
  assert (Hnone : cell_exp c now (cell_of s2 e) = false ->
    forall s3, move_to_back_ao s2 e = Ok s3 ->
    cells s3 = <[k := ((cell_of s2 e).1.1, (cell_of s2 e).1.2, (cell_of s2 e).2)]> (cells s2)).
  { intros _ s3 E3. rewrite (move_to_back_ao_cells _ _ _ (ws_nodup_ao _ _ _ W2) E3).
    symmetry. apply insert_id. rewrite cells_lookup, Hk. cbn [fmap option_fmap option_map].
    reflexivity. }
  destruct (has_expiry c) eqn:Hex.
  - rewrite (entry_expired_cell _ _ _ _ _ now W2 Hk ltac:(done)) in H. cbn [rbind] in H.
    destruct (cell_exp c now (cell_of s2 e)); [by injection H as <- <-|].
    destruct (set_last_accessed_ok c None s2 k e now W2 Hk ltac:(done) Hex) as (p & Ea & Wp).
    rewrite Ea in H. cbn [rbind] in H.
    pose proof (set_last_accessed_cells _ _ _ _ _ _ _ W2 Hk ltac:(done) Ea) as Ca.
    destruct (move_to_back_ao (set_prob s2 p) e) as [s4|] eqn:E4; cbn [rbind] in H; [|done].
    injection H as <- <-. split; [done|].
    rewrite (move_to_back_ao_cells _ _ _ (ws_nodup_ao _ _ _ Wp) E4). exact Ca.
  - assert (Hne : cell_exp c now (cell_of s2 e) = false).
    { destruct (has_expiry_false _ Hex) as [Httl Htti]. unfold cell_exp. rewrite Httl, Htti.
      unfold expired_at. by destruct (cell_of s2 e) as [[? [?|]] [?|]]. }
    rewrite Hne.
    destruct (move_to_back_ao s2 e) as [s3|] eqn:E3; cbn [rbind] in H; [|done].
    injection H as <- <-. split; [done|]. by apply Hnone.
Qed.

Lemma u_contains_cells c s now k s' b :
  WF c s -> u_contains c s now k = Ok (s', b) ->
  shrunk (Pm c now) (cells s) (cells s') /\ WFs c None s' /\
  b = match cells s' !! k with Some x => negb (cell_exp c now x) | None => false end.
Proof.
  intros W H. apply WF_WFs_None in W. unfold u_contains in H.
  destruct (maintain c s now) as [[s1 ts]|] eqn:Em; cbn [rbind] in H; [|done].
  destruct (maintain_cells _ _ _ _ _ W Em) as (W1 & -> & Sh).
  rewrite cells_lookup.
  destruct (u_map s1 !! k) as [e|] eqn:Hk.
  2:{ injection H as <- <-. by rewrite Hk. }
  destruct (has_expiry c) eqn:Hex.
  - rewrite (entry_expired_cell _ _ _ _ _ now W1 Hk ltac:(done)) in H. cbn [rbind] in H.
    injection H as <- <-. by rewrite Hk.
  - injection H as <- <-. rewrite Hk. cbn [fmap option_fmap option_map].
    destruct (has_expiry_false _ Hex) as [Httl Htti]. unfold cell_exp. rewrite Httl, Htti.
    unfold expired_at. by destruct (cell_of s1 e) as [[? [?|]] [?|]].
Qed.

Lemma u_invalidate_cells c s now k s' :
  WF c s -> u_invalidate c s now k = Ok s' ->
  exists m1, shrunk (Pm c now) (cells s) m1 /\ cells s' = delete k m1.
Proof.
  intros W H. apply WF_WFs_None in W. unfold u_invalidate in H.
  destruct (maintain c s now) as [[s1 ts]|] eqn:Em; cbn [rbind] in H; [|done].
  destruct (maintain_cells _ _ _ _ _ W Em) as (W1 & _ & Sh).
  exists (cells s1). split; [done|].
  destruct (u_map s1 !! k) as [e|] eqn:Hk.
  - destruct (unlink_entry _ e) as [s2|] eqn:E2; cbn [rbind] in H; [|done].
    destruct (chk_sub (u_ec s2) 1) as [ec|]; cbn [rbind] in H; [|done]. injection H as <-.
    change (cells (set_ws (set_ec s2 ec) _)) with (cells s2).
    by eapply cells_evict.
  - injection H as <-. symmetry. apply delete_notin. by rewrite cells_lookup, Hk.
Qed.

Lemma u_invalidate_all_cells s : cells (u_invalidate_all s) = ∅.
Proof. unfold cells, u_invalidate_all. cbn [u_map]. apply fmap_empty. Qed.

Lemma invalidate_keys_cells c : forall keys s cnt wt s' cnt' wt',
  WFs c None s -> invalidate_keys s keys cnt wt = Ok (s', cnt', wt') ->
  forall k, cells s' !! k = if decide (k ∈ keys) then None else cells s !! k.
Proof.
  induction keys as [|k0 keys IH]; intros s cnt wt s' cnt' wt' W H k; cbn [invalidate_keys] in H.
  { injection H as <- _ _. destruct (decide (k ∈ [])) as [Hin|_]; [|done]. by apply elem_of_nil in Hin. }
  destruct (u_map s !! k0) as [e|] eqn:He.
  - destruct (evict_one _ _ _ _ _ W He ltac:(done)) as (s1 & E1 & W1 & _).
    rewrite E1 in H. cbn [rbind] in H.
    rewrite (IH _ _ _ _ _ _ W1 H k), (cells_evict _ _ _ _ _ _ W He E1).
    destruct (decide (k ∈ keys)) as [Hin|Hnin].
    + rewrite decide_True; [done|]. by right.
    + destruct (decide (k = k0)) as [->|Hne].
      * rewrite decide_True by left. by rewrite lookup_delete.
      * rewrite decide_False; [by rewrite lookup_delete_ne|].
        intros Hin. apply elem_of_cons in Hin as [?|?]; done.
  - rewrite (IH _ _ _ _ _ _ W H k).
    destruct (decide (k ∈ keys)) as [Hin|Hnin].
    + rewrite decide_True; [done|]. by right.
    + destruct (decide (k = k0)) as [->|Hne].
      * rewrite decide_True by left. by rewrite cells_lookup, He.
      * rewrite decide_False; [done|].
        intros Hin. apply elem_of_cons in Hin as [?|?]; done.
Qed.

Lemma u_invalidate_if_cells c s p s' :
  WF c s -> u_invalidate_if s p = Ok s' ->
  forall k, cells s' !! k =
    match cells s !! k with Some x => if p k x.1.1 then None else Some x | None => None end.
Proof.
  intros W H k. apply WF_WFs_None in W. unfold u_invalidate_if in H.
  destruct (invalidate_keys s _ 0 0) as [[[s1 cnt1] wt1]|] eqn:E1; cbn [rbind] in H; [|done].
  destruct (chk_sub (u_ec s1) cnt1) as [ec|]; cbn [rbind] in H; [|done]. injection H as <-.
  change (cells (set_ws (set_ec s1 ec) _)) with (cells s1).
  rewrite (invalidate_keys_cells _ _ _ _ _ _ _ _ W E1 k).
  rewrite cells_lookup.
  match goal with |- context [decide (k ∈ ?l)] => set (keys := l) end.
  assert (Hkeys : k ∈ keys <-> exists e, u_map s !! k = Some e /\ p k (ue_val e) = true).
  { subst keys. rewrite elem_of_list_In, filter_In, <-elem_of_list_In. split.
    - intros [_ Hp]. destruct (u_map s !! k) as [e|]; [|done]. eauto.
    - intros (e & He & Hp). split.
      + apply elem_of_list_fmap. exists (k, e). split; [done|]. by apply elem_of_map_to_list.
      + by rewrite He. }
  destruct (u_map s !! k) as [e|] eqn:He; cbn [fmap option_fmap option_map].
  - change ((cell_of s e).1.1) with (ue_val e).
    destruct (p k (ue_val e)) eqn:Hp.
    + rewrite decide_True; [done|]. apply Hkeys. eauto.
    + rewrite decide_False; [done|]. intros Hin. apply Hkeys in Hin as (e' & [= <-] & Hp'). congruence.
  - destruct (decide (k ∈ keys)); done.
Qed.

(** * Iteration *)
Lemma filter_live_exact c s now : forall l r,
  filter_live c s now l = Ok r ->
  sublist r.*1 l.*1 /\
  forall k v, (k, v) ∈ r <-> exists e, (k, e) ∈ l /\ ue_val e = v /\ entry_expired c s e now = Ok false.
Proof.
  induction l as [|[k0 e0] l IH]; intros r H; cbn [filter_live] in H.
  { injection H as <-. split; [constructor|]. intros k v. split.
    - intros Hin. by apply elem_of_nil in Hin.
    - intros (e & Hin & _). by apply elem_of_nil in Hin. }
  destruct (entry_expired c s e0 now) as [ex|] eqn:Ex; cbn [rbind] in H; [|done].
  destruct (filter_live c s now l) as [r0|] eqn:E0; cbn [rbind] in H; [|done]. injection H as <-.
  destruct (IH _ eq_refl) as (Hsub & Hiff).
  destruct ex.
  - split; [rewrite fmap_cons; by apply sublist_cons|].
    intros k v. rewrite Hiff. split; intros (e & Hin & Hv & Hex).
    + exists e. split; [by right|done].
    + apply elem_of_cons in Hin as [[= -> ->]|Hin]; [congruence|eauto].
  - split; [rewrite !fmap_cons; by apply sublist_skip|].
    intros k v. rewrite elem_of_cons, Hiff. split.
    + intros [[= -> ->]|(e & Hin & Hv & Hex)].
      * exists e0. split; [left|done].
      * exists e. split; [by right|done].
    + intros (e & Hin & Hv & Hex). apply elem_of_cons in Hin as [[= -> ->]|Hin].
      * left. by rewrite Hv.
      * right. eauto.
Qed.

Theorem u_iter_exact : forall c s now l, cfg_ok c -> WF' c s -> u_iter c s now = Ok l ->
  NoDup l.*1 /\ forall k v, (k, v) ∈ l <-> exists e, u_map s !! k = Some e /\ ue_val e = v /\ entry_expired c s e now = Ok false.
Proof.
  intros c s now l _ _ H. unfold u_iter in H.
  destruct (filter_live_exact _ _ _ _ _ H) as (Hsub & Hiff). split.
  - eapply sublist_nodup; [exact Hsub|]. apply NoDup_fst_map_to_list.
  - intros k v. rewrite Hiff. split; intros (e & Hin & Hrest); exists e; (split; [|done]).
    + by apply elem_of_map_to_list.
    + by apply elem_of_map_to_list.
Qed.

Lemma u_iter_cells c s now l :
  WF c s -> u_iter c s now = Ok l ->
  NoDup l.*1 /\ forall k v, (k, v) ∈ l <-> exists x, cells s !! k = Some x /\ x.1.1 = v /\ cell_exp c now x = false.
Proof.
  intros W H. apply WF_WFs_None in W. unfold u_iter in H.
  destruct (filter_live_exact _ _ _ _ _ H) as (Hsub & Hiff). split.
  - eapply sublist_nodup; [exact Hsub|]. apply NoDup_fst_map_to_list.
  - intros k v. rewrite Hiff. split.
    + intros (e & Hin & Hv & Hex). apply elem_of_map_to_list in Hin.
      rewrite (entry_expired_cell _ _ _ _ _ now W Hin ltac:(done)) in Hex. injection Hex as Hex.
      exists (cell_of s e). rewrite cells_lookup, Hin. done.
    + intros (x & Hx & Hv & Hex). rewrite cells_lookup in Hx.
      destruct (u_map s !! k) as [e|] eqn:He; [|done]. injection Hx as <-.
      exists e. split; [by apply elem_of_map_to_list|]. split; [done|].
      rewrite (entry_expired_cell _ _ _ _ _ now W He ltac:(done)). by rewrite Hex.
Qed.

(** * Reference-state facts *)
Lemma u_rstep_invalidate_absent f now r k : rstep f now r (AInvalidate k) !! k = None.
Proof. cbn [rstep]. unfold rstate. apply lookup_delete. Qed.

Lemma u_rstep_insert_eq f now r k v : rstep f now r (AInsert k v) !! k = Some (mkRC v now now).
Proof. cbn [rstep]. unfold rstate. apply lookup_insert. Qed.

Lemma u_rstep_insert_ne f now r k k' v : k' <> k -> rstep f now r (AInsert k v) !! k' = r !! k'.
Proof. intros Hne. cbn [rstep]. unfold rstate. by apply lookup_insert_ne. Qed.

Lemma u_rstep_get_hit f now r k v rc :
  r !! k = Some rc -> rstep f now r (AGet k (Some v)) = <[k := mkRC (rc_val rc) (rc_ins rc) now]> r.
Proof. intros H. cbn [rstep]. by rewrite H. Qed.

Lemma u_rstep_absent f now r k o :
  r !! k = None -> (forall v, o <> AInsert k v) -> rstep f now r o !! k = None.
Proof.
  intros H Ho. destruct o as [k' v|k' [v|]|k'| |p|]; cbn [rstep]; unfold rstate in *; try done.
  - rewrite lookup_insert_ne; [done|]. intros ->. by eapply Ho.
  - destruct (r !! k') as [rc|] eqn:E; [|done].
    rewrite lookup_insert_ne; [done|]. congruence.
  - destruct (decide (k' = k)) as [->|Hne]; [apply lookup_delete|by rewrite lookup_delete_ne].
  - destruct f; [apply lookup_empty|].
    apply map_filter_lookup_None. by left.
  - apply map_filter_lookup_None. by left.
Qed.

Lemma u_not_justified_absent ttl tti now r k v : r !! k = None -> ~ justified ttl tti now r k v.
Proof. intros H (rc & Hr & _). congruence. Qed.

(** * The invariants, on finite maps *)
Definition rcell_view (c : ucfg) (rc : rcell) : cell :=
  (rc_val rc, (if uc_ttl c then Some (rc_ins rc) else None),
   (if has_expiry c then Some (rc_acc rc) else None)).

Definition SoundM (c : ucfg) (r : gmap N rcell) (m : gmap N cell) : Prop :=
  forall k x, m !! k = Some x -> exists rc, r !! k = Some rc /\ x = rcell_view c rc.

Definition ComplM (c : ucfg) (now : N) (r : gmap N rcell) (m : gmap N cell) : Prop :=
  forall k rc, r !! k = Some rc -> cell_exp c now (rcell_view c rc) = false ->
    m !! k = Some (rcell_view c rc).

Lemma u_live_iff c now rc :
  cell_exp c now (rcell_view c rc) = false <->
  (forall d, uc_ttl c = Some d -> now < rc_ins rc + d) /\
  (forall d, uc_tti c = Some d -> now < rc_acc rc + d).
Proof.
  unfold cell_exp, rcell_view, has_expiry. cbn [fst snd].
  destruct (uc_ttl c) as [d1|], (uc_tti c) as [d2|]; cbn [expired_at];
    rewrite ?orb_false_iff, ?orb_false_r, ?N.leb_gt; split.
  all: intros [H1 H2]; split; try done; try (intros d [= <-]; done); try (intros d [=]); eauto.
Qed.

Lemma u_justified_live c now r k v :
  justified (uc_ttl c) (uc_tti c) now r k v <->
  exists rc, r !! k = Some rc /\ rc_val rc = v /\ cell_exp c now (rcell_view c rc) = false.
Proof.
  unfold justified. split; intros (rc & H & Hv & Hl); exists rc; (split; [done|]); (split; [done|]).
  - by apply u_live_iff.
  - by apply u_live_iff in Hl.
Qed.

Lemma cell_exp_mono c now now' x : now <= now' -> cell_exp c now x = true -> cell_exp c now' x = true.
Proof.
  intros Hle. unfold cell_exp, expired_at. destruct x as [[v [lm|]] [la|]]; cbn [fst snd];
    destruct (uc_ttl c) as [d1|], (uc_tti c) as [d2|];
    rewrite ?orb_true_iff, ?orb_false_r, ?N.leb_le; try done; try lia.
  all: cbn [orb]; rewrite ?N.leb_le; try done; lia.
Qed.

Lemma sound_shrunk c r P m m1 : SoundM c r m -> shrunk P m m1 -> SoundM c r m1.
Proof. intros HS Sh k x Hx. apply (HS k x). by eapply shrunk_lookup. Qed.

Lemma compl_shrunk c now r m m1 :
  uc_cap c = None -> ComplM c now r m -> shrunk (Pm c now) m m1 -> ComplM c now r m1.
Proof.
  intros Hcap HC Sh k rc Hr Hl. specialize (HC k rc Hr Hl).
  destruct (Sh k) as [E|[_ (x & Hx & [Px|Px])]]; [congruence| |done].
  rewrite HC in Hx. injection Hx as <-. congruence.
Qed.

Lemma sound_just c now r m k x :
  SoundM c r m -> m !! k = Some x -> cell_exp c now x = false ->
  justified (uc_ttl c) (uc_tti c) now r k x.1.1.
Proof.
  intros HS Hx Hex. destruct (HS k x Hx) as (rc & Hr & ->).
  apply u_justified_live. exists rc. done.
Qed.

Lemma compl_just c now r m k v :
  ComplM c now r m -> justified (uc_ttl c) (uc_tti c) now r k v ->
  exists x, m !! k = Some x /\ x.1.1 = v /\ cell_exp c now x = false.
Proof.
  intros HC Hj. apply u_justified_live in Hj as (rc & Hr & Hv & Hl).
  exists (rcell_view c rc). split; [by apply HC|done].
Qed.

Lemma new_cell_view c now v : new_cell c now v = rcell_view c (mkRC v now now).
Proof. reflexivity. Qed.

Lemma sound_insert c now r m1 m' k v :
  SoundM c r m1 ->
  (forall k', k' <> k -> m' !! k' = m1 !! k' \/ m' !! k' = None) ->
  (m' !! k = Some (new_cell c now v) \/ m' !! k = None) ->
  SoundM c (<[k := mkRC v now now]> r) m'.
Proof.
  intros HS Hne Hk k' x Hx. destruct (decide (k' = k)) as [->|Hn].
  - rewrite lookup_insert. eexists. split; [done|].
    destruct Hk as [Hk|Hk]; rewrite Hk in Hx; [|done]. injection Hx as <-. apply new_cell_view.
  - rewrite lookup_insert_ne by done. apply HS.
    destruct (Hne k' Hn) as [E|E]; congruence.
Qed.

Lemma compl_insert c now r m1 k v :
  ComplM c now r m1 -> ComplM c now (<[k := mkRC v now now]> r) (<[k := new_cell c now v]> m1).
Proof.
  intros HC k' rc Hr Hl. destruct (decide (k' = k)) as [->|Hn].
  - rewrite lookup_insert in Hr. injection Hr as <-. by rewrite lookup_insert.
  - rewrite lookup_insert_ne in Hr by done. rewrite lookup_insert_ne by done. by apply HC.
Qed.

Lemma get_hit_view c now rc :
  ((rcell_view c rc).1.1, (rcell_view c rc).1.2, if has_expiry c then Some now else (rcell_view c rc).2) =
  rcell_view c (mkRC (rc_val rc) (rc_ins rc) now).
Proof. unfold rcell_view. cbn [fst snd rc_val rc_ins rc_acc]. by destruct (has_expiry c). Qed.

Lemma sound_get_hit c now r m1 k rc :
  SoundM c r m1 -> r !! k = Some rc ->
  SoundM c (<[k := mkRC (rc_val rc) (rc_ins rc) now]> r)
           (<[k := rcell_view c (mkRC (rc_val rc) (rc_ins rc) now)]> m1).
Proof.
  intros HS Hr k' x Hx. destruct (decide (k' = k)) as [->|Hn].
  - rewrite lookup_insert in Hx. injection Hx as <-. rewrite lookup_insert. eauto.
  - rewrite lookup_insert_ne in Hx by done. rewrite lookup_insert_ne by done. by apply HS.
Qed.

Lemma compl_get_hit c now r m1 k rc :
  ComplM c now r m1 -> r !! k = Some rc ->
  ComplM c now (<[k := mkRC (rc_val rc) (rc_ins rc) now]> r)
           (<[k := rcell_view c (mkRC (rc_val rc) (rc_ins rc) now)]> m1).
Proof.
  intros HC Hr k' rc' Hr' Hl. destruct (decide (k' = k)) as [->|Hn].
  - rewrite lookup_insert in Hr'. injection Hr' as <-. by rewrite lookup_insert.
  - rewrite lookup_insert_ne in Hr' by done. rewrite lookup_insert_ne by done. by apply HC.
Qed.

Lemma sound_delete c r m1 k : SoundM c r m1 -> SoundM c (delete k r) (delete k m1).
Proof.
  intros HS k' x Hx. apply lookup_delete_Some in Hx as [Hne Hx].
  rewrite lookup_delete_ne by done. by apply HS.
Qed.

Lemma compl_delete c now r m1 k : ComplM c now r m1 -> ComplM c now (delete k r) (delete k m1).
Proof.
  intros HC k' rc Hr Hl. apply lookup_delete_Some in Hr as [Hne Hr].
  rewrite lookup_delete_ne by done. by apply HC.
Qed.

Section inv_if.
  Context (c : ucfg) (p : N -> N -> bool) (r : gmap N rcell) (m m' : gmap N cell).
  Hypothesis Hm' : forall k, m' !! k =
    match m !! k with Some x => if p k x.1.1 then None else Some x | None => None end.
  Let r' : gmap N rcell := filter (fun kc => p (fst kc) (rc_val (snd kc)) = false) r.

  Lemma sound_invalidate_if : SoundM c r m -> SoundM c r' m'.
  Proof.
    intros HS k x Hx. rewrite Hm' in Hx. destruct (m !! k) as [y|] eqn:Hy; [|done].
    destruct (p k y.1.1) eqn:Hp; [done|]. injection Hx as <-.
    destruct (HS k y Hy) as (rc & Hr & ->). exists rc. split; [|done].
    apply map_filter_lookup_Some. split; [done|]. exact Hp.
  Qed.

  Lemma compl_invalidate_if now : ComplM c now r m -> ComplM c now r' m'.
  Proof.
    intros HC k rc Hr Hl. apply map_filter_lookup_Some in Hr as [Hr Hp]. cbn [fst snd] in Hp.
    rewrite Hm', (HC k rc Hr Hl). cbn [rcell_view fst]. by rewrite Hp.
  Qed.
End inv_if.

(** * One step against the reference state *)
Lemma step_inv c r run o run' out :
  cfg_ok c -> WF' c (ur_state run) -> small (ur_state run) ->
  SoundM c r (cells (ur_state run)) ->
  ustep c run o = Ok (run', out) ->
  u_out_ok c (ur_now run) r o out /\
  SoundM c (rstep FUnsync (ur_now run) r (aop_of_u o out)) (cells (ur_state run')) /\
  (uc_cap c = None -> ComplM c (ur_now run) r (cells (ur_state run)) ->
   u_out_complete c (ur_now run) r o out /\
   ComplM c (ur_now run') (rstep FUnsync (ur_now run) r (aop_of_u o out)) (cells (ur_state run'))).
Proof.
  intros Hc W Hs HS H. destruct run as [s now]. cbn [ur_state ur_now] in *.
  pose proof (WF'_WF _ _ W) as W0.
  destruct o as [k v|k|k| |k| |p|d]; cbn [ustep ur_state ur_now] in H.
  - (* insert *)
    destruct (u_insert c s now k v) as [s'|] eqn:E; cbn [rbind] in H; [|done]. injection H as <- <-.
    cbn [aop_of_u u_out_ok u_out_complete rstep ur_state ur_now]. unfold rstate in *.
    destruct (u_insert_cells _ _ _ _ _ _ W0 E) as (m1 & Sh & Hne & Hk & Hcap).
    pose proof (sound_shrunk _ _ _ _ _ HS Sh) as S1.
    split; [done|]. split; [by eapply sound_insert|].
    intros Hnc HC. split; [done|]. rewrite (Hcap Hnc).
    apply compl_insert. by eapply compl_shrunk.
  - (* get *)
    destruct (u_get c s now k) as [[s' res]|] eqn:E; cbn [rbind] in H; [|done]. injection H as <- <-.
    cbn [aop_of_u u_out_ok u_out_complete ur_state ur_now].
    destruct (u_get_cells _ _ _ _ _ _ Hc W Hs E) as (m1 & Sh & Hm).
    pose proof (sound_shrunk _ _ _ _ _ HS Sh) as S1.
    assert (Hmiss : res = None -> cells s' = m1 ->
              (forall x, m1 !! k = Some x -> cell_exp c now x = true) ->
      match res with Some v => justified (uc_ttl c) (uc_tti c) now r k v | None => True end /\
      SoundM c (rstep FUnsync now r (AGet k res)) (cells s') /\
      (uc_cap c = None -> ComplM c now r (cells s) ->
       (forall v, justified (uc_ttl c) (uc_tti c) now r k v -> res = Some v) /\
       ComplM c now (rstep FUnsync now r (AGet k res)) (cells s'))).
    { intros -> -> Hx. cbn [rstep]. split; [done|]. split; [done|].
      intros Hnc HC. pose proof (compl_shrunk _ _ _ _ _ Hnc HC Sh) as C1. split; [|done].
      intros v Hj. destruct (compl_just _ _ _ _ _ _ C1 Hj) as (x & Hx1 & _ & Hx2).
      rewrite (Hx _ Hx1) in Hx2. done. }
    destruct (m1 !! k) as [x|] eqn:Hx.
    2:{ destruct Hm as [? ?]. apply Hmiss; done. }
    destruct (cell_exp c now x) eqn:Hex.
    { destruct Hm as [? ?]. apply Hmiss; [done|done|]. by intros ? [= <-]. }
    destruct Hm as [-> Hm]. rewrite Hm.
    destruct (S1 k x Hx) as (rc & Hr & ->).
    rewrite (u_rstep_get_hit _ _ _ _ _ _ Hr), get_hit_view.
    split; [by eapply sound_just|]. split; [by apply sound_get_hit|].
    intros Hnc HC. pose proof (compl_shrunk _ _ _ _ _ Hnc HC Sh) as C1. split.
    + intros v Hj. destruct (compl_just _ _ _ _ _ _ C1 Hj) as (x & Hx1 & Hx2 & _).
      rewrite Hx in Hx1. injection Hx1 as <-. by rewrite Hx2.
    + by apply compl_get_hit.
  - (* contains *)
    destruct (u_contains c s now k) as [[s' b]|] eqn:E; cbn [rbind] in H; [|done]. injection H as <- <-.
    cbn [aop_of_u u_out_ok u_out_complete rstep ur_state ur_now].
    destruct (u_contains_cells _ _ _ _ _ _ W0 E) as (Sh & _ & Hb).
    pose proof (sound_shrunk _ _ _ _ _ HS Sh) as S1.
    split; [|split; [done|]].
    + destruct b; [|done]. destruct (cells s' !! k) as [x|] eqn:Hx; [|done].
      exists x.1.1. eapply sound_just; [done..|]. by destruct (cell_exp c now x).
    + intros Hnc HC. pose proof (compl_shrunk _ _ _ _ _ Hnc HC Sh) as C1. split; [|done].
      intros (v & Hj). destruct (compl_just _ _ _ _ _ _ C1 Hj) as (x & Hx1 & _ & Hx2).
      by rewrite Hb, Hx1, Hx2.
  - (* iter *)
    destruct (u_iter c s now) as [l|] eqn:E; cbn [rbind] in H; [|done]. injection H as <- <-.
    cbn [aop_of_u u_out_ok u_out_complete rstep ur_state ur_now].
    destruct (u_iter_cells _ _ _ _ W0 E) as (Hnd & Hiff).
    split; [|split; [done|]].
    + split; [done|]. intros k v Hin. apply Hiff in Hin as (x & Hx & <- & Hex). by eapply sound_just.
    + intros Hnc HC. split; [|done]. intros k v Hj. apply Hiff. by eapply compl_just.
  - (* invalidate *)
    destruct (u_invalidate c s now k) as [s'|] eqn:E; cbn [rbind] in H; [|done]. injection H as <- <-.
    cbn [aop_of_u u_out_ok u_out_complete rstep ur_state ur_now]. unfold rstate in *.
    destruct (u_invalidate_cells _ _ _ _ _ W0 E) as (m1 & Sh & ->).
    pose proof (sound_shrunk _ _ _ _ _ HS Sh) as S1.
    split; [done|]. split; [by apply sound_delete|].
    intros Hnc HC. split; [done|]. apply compl_delete. by eapply compl_shrunk.
  - (* invalidate_all *)
    injection H as <- <-.
    cbn [aop_of_u u_out_ok u_out_complete rstep ur_state ur_now]. unfold rstate in *.
    rewrite u_invalidate_all_cells. split; [done|]. split.
    + intros k x Hx. by rewrite lookup_empty in Hx.
    + intros _ _. split; [done|]. intros k rc Hr. by rewrite lookup_empty in Hr.
  - (* invalidate_if *)
    destruct (u_invalidate_if s p) as [s'|] eqn:E; cbn [rbind] in H; [|done]. injection H as <- <-.
    cbn [aop_of_u u_out_ok u_out_complete rstep ur_state ur_now]. unfold rstate in *.
    pose proof (u_invalidate_if_cells _ _ _ _ W0 E) as Hm'.
    split; [done|]. split; [by eapply sound_invalidate_if|].
    intros _ HC. split; [done|]. by eapply compl_invalidate_if.
  - (* advance *)
    injection H as <- <-.
    cbn [aop_of_u u_out_ok u_out_complete rstep ur_state ur_now].
    split; [done|]. split; [done|]. intros _ HC. split; [done|].
    intros k rc Hr Hl. apply HC; [done|].
    destruct (cell_exp c now (rcell_view c rc)) eqn:Hex; [|done].
    rewrite (cell_exp_mono c now (now + d) _ ltac:(lia) Hex) in Hl. done.
Qed.

(** * Runs *)
Definition Budget (s : ustate) (n : nat) : Prop :=
  u_next s + 2 * N.of_nat n < 2 ^ 32 /\ sk_load s + 4 * N.of_nat n < 2 ^ 27.

Definition Inv (c : ucfg) (r : rstate) (run : urun) (n : nat) : Prop :=
  WF' c (ur_state run) /\ Budget (ur_state run) n /\ SoundM c r (cells (ur_state run)).

Lemma budget_small s n : Budget s (S n) -> small s.
Proof. unfold Budget, small. rewrite pow2_32, pow2_27. lia. Qed.

Lemma budget_le s n m : (m <= n)%nat -> Budget s n -> Budget s m.
Proof. unfold Budget. rewrite pow2_32, pow2_27. lia. Qed.

Lemma inv_init c n : N.of_nat n < 2 ^ 24 -> Inv c ∅ urun_init n.
Proof.
  intros Hn. rewrite pow2_24 in Hn. split; [apply wf_init|]. split.
  - unfold Budget, sk_load. cbn [urun_init ur_state u_init u_next u_sk sk_empty sk_table].
    rewrite map_size_empty, pow2_32, pow2_27. lia.
  - intros k x Hx. cbn [urun_init ur_state] in Hx. unfold cells in Hx. cbn [u_init u_map] in Hx.
    by rewrite fmap_empty, lookup_empty in Hx.
Qed.

Lemma compl_init c : ComplM c (ur_now urun_init) ∅ (cells (ur_state urun_init)).
Proof. intros k rc Hr. by rewrite lookup_empty in Hr. Qed.

Lemma inv_step c r run o n run' out :
  cfg_ok c -> Inv c r run (S n) -> ustep c run o = Ok (run', out) ->
  u_out_ok c (ur_now run) r o out /\
  Inv c (rstep FUnsync (ur_now run) r (aop_of_u o out)) run' n /\
  (uc_cap c = None -> ComplM c (ur_now run) r (cells (ur_state run)) ->
   u_out_complete c (ur_now run) r o out /\
   ComplM c (ur_now run') (rstep FUnsync (ur_now run) r (aop_of_u o out)) (cells (ur_state run'))).
Proof.
  intros Hc (W & HB & HS) H. pose proof (budget_small _ _ HB) as Hs.
  destruct (ustep_safe c run o Hc W Hs) as (r1 & out1 & E1 & W1 & Hn1 & Hl1 & _).
  rewrite H in E1. injection E1 as <- <-.
  destruct (step_inv _ _ _ _ _ _ Hc W Hs HS H) as (Hok & HS' & HC').
  split; [done|]. split; [|done]. split; [done|]. split; [|done].
  destruct HB as [HB1 HB2]. unfold Budget. rewrite pow2_32, pow2_27 in *. lia.
Qed.

Lemma u_trace_ok_from c : forall ops r run,
  cfg_ok c -> Inv c r run (length ops) -> u_trace_ok c r run ops.
Proof.
  induction ops as [|o ops IH]; intros r run Hc HI; cbn [u_trace_ok]; [done|].
  destruct (ustep c run o) as [[run' out]|] eqn:E; [|done]. cbn [length] in HI.
  destruct (inv_step _ _ _ _ _ _ _ Hc HI E) as (Hok & HI' & _). split; [done|]. by apply IH.
Qed.

Theorem u_trace_ok_all : forall c ops, cfg_ok c -> N.of_nat (length ops) < 2 ^ 24 ->
  u_trace_ok c ∅ urun_init ops.
Proof. intros c ops Hc Hn. apply u_trace_ok_from; [done|]. by apply inv_init. Qed.

Lemma u_trace_complete_from c : forall ops r run,
  cfg_ok c -> uc_cap c = None -> Inv c r run (length ops) ->
  ComplM c (ur_now run) r (cells (ur_state run)) -> u_trace_complete c r run ops.
Proof.
  induction ops as [|o ops IH]; intros r run Hc Hnc HI HC; cbn [u_trace_complete]; [done|].
  destruct (ustep c run o) as [[run' out]|] eqn:E; [|done]. cbn [length] in HI.
  destruct (inv_step _ _ _ _ _ _ _ Hc HI E) as (_ & HI' & HC').
  destruct (HC' Hnc HC) as (Hoc & HC1). split; [done|]. by apply IH.
Qed.

Theorem u_trace_complete_all : forall c ops, cfg_ok c -> uc_cap c = None -> N.of_nat (length ops) < 2 ^ 24 ->
  u_trace_complete c ∅ urun_init ops.
Proof.
  intros c ops Hc Hnc Hn. apply u_trace_complete_from; [done|done|by apply inv_init|apply compl_init].
Qed.

Lemma u_trace_ok_app c r run ops1 ops2 :
  u_trace_ok c r run (ops1 ++ ops2) <->
  u_trace_ok c r run ops1 /\
  (forall r' run', u_ref_after c r run ops1 = Some (r', run') -> u_trace_ok c r' run' ops2).
Proof.
  revert r run. induction ops1 as [|o ops1 IH]; intros r run; cbn [app u_trace_ok u_ref_after].
  - split.
    + intros H. split; [done|]. by intros r' run' [= <- <-].
    + intros [_ H]. by apply H.
  - destruct (ustep c run o) as [[run1 out]|]; [|by split].
    rewrite IH. tauto.
Qed.

Lemma u_ref_after_inv c : forall ops r run n r' run',
  cfg_ok c -> Inv c r run (length ops + n) -> u_ref_after c r run ops = Some (r', run') ->
  Inv c r' run' n.
Proof.
  induction ops as [|o ops IH]; intros r run n r' run' Hc HI H; cbn [u_ref_after] in H.
  - by injection H as <- <-.
  - destruct (ustep c run o) as [[run1 out]|] eqn:E; [|done]. cbn [length plus] in HI.
    destruct (inv_step _ _ _ _ _ _ _ Hc HI E) as (_ & HI' & _). by eapply IH.
Qed.

Definition u_silent (k : N) (o : uop) (out : uout) : Prop :=
  match o, out with
  | UGet k', OVal (Some _) => k' <> k
  | UContains k', OBool true => k' <> k
  | UIter, OList l => k ∉ l.*1
  | _, _ => True
  end.

Fixpoint u_silent_until_insert (c : ucfg) (k : N) (run : urun) (ops : list uop) : Prop :=
  match ops with
  | [] => True
  | UInsert k' v :: rest =>
      if k' =? k then True
      else match ustep c run (UInsert k' v) with Ok (run', _) => u_silent_until_insert c k run' rest | Err _ => True end
  | o :: rest =>
      match ustep c run o with
      | Ok (run', out) => u_silent k o out /\ u_silent_until_insert c k run' rest
      | Err _ => True
      end
  end.

Lemma u_out_ok_silent c now r k o out : r !! k = None -> u_out_ok c now r o out -> u_silent k o out.
Proof.
  intros Hr. destruct o as [k' v|k'|k'| |k'| |p|d], out as [|[v'|]|[|]|l]; cbn [u_out_ok u_silent]; try done.
  - intros Hj ->. by eapply u_not_justified_absent.
  - intros (v & Hj) ->. by eapply u_not_justified_absent.
  - intros [_ Hl] Hin. apply elem_of_list_fmap in Hin as ([k' v] & -> & Hin). cbn [fst] in *.
    eapply u_not_justified_absent; [exact Hr|]. by apply Hl.
Qed.

Lemma u_silent_from c k : forall ops r run,
  cfg_ok c -> Inv c r run (length ops) -> r !! k = None -> u_silent_until_insert c k run ops.
Proof.
  induction ops as [|o ops IH]; intros r run Hc HI Hr; [done|].
  assert (Hgen : match ustep c run o with
      | Ok (run', out) => (forall v, o <> UInsert k v) -> u_silent k o out /\ u_silent_until_insert c k run' ops
      | Err _ => True
      end).
  { destruct (ustep c run o) as [[run' out]|] eqn:E; [|done]. intros Ho. cbn [length] in HI.
    destruct (inv_step _ _ _ _ _ _ _ Hc HI E) as (Hok & HI' & _). split.
    - by eapply u_out_ok_silent.
    - eapply IH; [done|exact HI'|]. apply u_rstep_absent; [done|].
      intros v Heq. destruct o as [k' v'|k'|k'| |k'| |p|d], out as [|[v''|]|[|]|l]; cbn [aop_of_u] in Heq;
        try done; injection Heq as -> ->; by eapply Ho. }
  destruct o as [k' v|k'|k'| |k'| |p|d]; cbn [u_silent_until_insert].
  2-8: destruct (ustep c run _) as [[run' out]|]; [|done]; by apply Hgen.
  destruct (N.eqb_spec k' k) as [->|Hne]; [done|].
  destruct (ustep c run _) as [[run' out]|]; [|done]. apply Hgen. congruence.
Qed.

(** invalidation is immediate and permanent: once the reference state lacks k, no
    lookup shows k until k is inserted again *)
Theorem u_invalidated_never_reappears : forall c ops1 ops2 k r run,
  cfg_ok c -> N.of_nat (length (ops1 ++ ops2)) < 2 ^ 24 ->
  u_ref_after c ∅ urun_init ops1 = Some (r, run) -> r !! k = None ->
  u_silent_until_insert c k run ops2.
Proof.
  intros c ops1 ops2 k r run Hc Hn Href Hr. rewrite app_length in Hn.
  eapply u_silent_from; [done| |done].
  eapply u_ref_after_inv; [done| |exact Href]. by apply inv_init.
Qed.

Print Assumptions u_trace_ok_all.
Print Assumptions u_trace_complete_all.
Print Assumptions u_trace_ok_app.
Print Assumptions u_invalidated_never_reappears.
Print Assumptions u_iter_exact.

(* Status: all five target statements ([u_trace_ok_all], [u_trace_complete_all],
   [u_trace_ok_app], [u_invalidated_never_reappears], [u_iter_exact]) are proved as
   stated, with no admits and no axioms; nothing is missing and no [_partial] variant
   was needed (no counterexample to any target statement was found).
   Reusable exports: the per-operation characterisations on the view [cells]
   ([maintain_cells], [u_insert_cells], [u_get_cells], [u_contains_cells],
   [u_invalidate_cells], [u_invalidate_all_cells], [u_invalidate_if_cells], [u_iter_cells]),
   the one-step lemma [step_inv] / [inv_step], and the generalised run lemmas
   [u_trace_ok_from], [u_trace_complete_from], [u_ref_after_inv], [u_silent_from]. *)
