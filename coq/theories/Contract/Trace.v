(** Running a cache model and the history-level reference state side by side, and the
    predicate "every lookup answer of the run is justified by the reference state".
    Definitions only. *)
From MM Require Export Spec.History Unsync.UModel Sync.SModel.

(** ---------------- single-threaded cache ---------------- *)
Definition aop_of_u (o : uop) (out : uout) : aop :=
  match o, out with
  | UInsert k v, _ => AInsert k v
  | UGet k, OVal r => AGet k r
  | UInvalidate k, _ => AInvalidate k
  | UInvalidateAll, _ => AInvalidateAll
  | UInvalidateIf p, _ => AInvalidateIf p
  | _, _ => AOther
  end.

(** the lookup answers of one step, judged against the reference state before the step *)
Definition u_out_ok (c : ucfg) (now : N) (r : rstate) (o : uop) (out : uout) : Prop :=
  match o, out with
  | UGet k, OVal (Some v) => justified (uc_ttl c) (uc_tti c) now r k v
  | UContains k, OBool true => exists v, justified (uc_ttl c) (uc_tti c) now r k v
  | UIter, OList l =>
    NoDup l.*1 /\ forall k v, (k, v) ∈ l -> justified (uc_ttl c) (uc_tti c) now r k v
  | _, _ => True
  end.

Fixpoint u_trace_ok (c : ucfg) (r : rstate) (run : urun) (ops : list uop) : Prop :=
  match ops with
  | [] => True
  | o :: rest =>
    match ustep c run o with
    | Ok (run', out) =>
      u_out_ok c (ur_now run) r o out /\
      u_trace_ok c (rstep FUnsync (ur_now run) r (aop_of_u o out)) run' rest
    | Err _ => True
    end
  end.

(** the reference state after a history (None if the model failed on the way) *)
Fixpoint u_ref_after (c : ucfg) (r : rstate) (run : urun) (ops : list uop) : option (rstate * urun) :=
  match ops with
  | [] => Some (r, run)
  | o :: rest =>
    match ustep c run o with
    | Ok (run', out) => u_ref_after c (rstep FUnsync (ur_now run) r (aop_of_u o out)) run' rest
    | Err _ => None
    end
  end.

(** ---------------- concurrent cache, one thread ---------------- *)
Definition aop_of_s (o : sop) (out : sout) : aop :=
  match o, out with
  | SInsert k v, _ => AInsert k v
  | SGet k, SOVal r => AGet k r
  | SInvalidate k, _ => AInvalidate k
  | SInvalidateAll, _ => AInvalidateAll
  | _, _ => AOther
  end.

Definition s_out_ok (c : scfg) (now : N) (r : rstate) (o : sop) (out : sout) : Prop :=
  match o, out with
  | SGet k, SOVal (Some v) => justified (sc_ttl c) (sc_tti c) now r k v
  | SContains k, SOBool true => exists v, justified (sc_ttl c) (sc_tti c) now r k v
  | SIter, SOList l =>
    NoDup l.*1 /\ forall k v, (k, v) ∈ l -> justified (sc_ttl c) (sc_tti c) now r k v
  | _, _ => True
  end.

Fixpoint s_trace_ok (c : scfg) (r : rstate) (run : srun) (ops : list sop) : Prop :=
  match ops with
  | [] => True
  | o :: rest =>
    match sstep c run o with
    | Ok (run', out) =>
      s_out_ok c (sr_now run) r o out /\
      s_trace_ok c (rstep FSync (sr_now run) r (aop_of_s o out)) run' rest
    | Err _ => True
    end
  end.

Fixpoint s_ref_after (c : scfg) (r : rstate) (run : srun) (ops : list sop) : option (rstate * srun) :=
  match ops with
  | [] => Some (r, run)
  | o :: rest =>
    match sstep c run o with
    | Ok (run', out) => s_ref_after c (rstep FSync (sr_now run) r (aop_of_s o out)) run' rest
    | Err _ => None
    end
  end.

(** ---------------- completeness (no spurious loss) ---------------- *)
(** With no max_capacity, every entry the reference state holds live is returned:
    the cache is exactly a map with expiry. *)
Definition u_out_complete (c : ucfg) (now : N) (r : rstate) (o : uop) (out : uout) : Prop :=
  match o, out with
  | UGet k, OVal res => forall v, justified (uc_ttl c) (uc_tti c) now r k v -> res = Some v
  | UContains k, OBool b => (exists v, justified (uc_ttl c) (uc_tti c) now r k v) -> b = true
  | UIter, OList l => forall k v, justified (uc_ttl c) (uc_tti c) now r k v -> (k, v) ∈ l
  | _, _ => True
  end.

Fixpoint u_trace_complete (c : ucfg) (r : rstate) (run : urun) (ops : list uop) : Prop :=
  match ops with
  | [] => True
  | o :: rest =>
    match ustep c run o with
    | Ok (run', out) =>
      u_out_complete c (ur_now run) r o out /\
      u_trace_complete c (rstep FUnsync (ur_now run) r (aop_of_u o out)) run' rest
    | Err _ => True
    end
  end.
