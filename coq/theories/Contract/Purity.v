(** C15 for the concurrent cache: contains_key and iteration are literally pure, so adding
    or removing such calls anywhere in a history changes neither the final state nor the
    result of any other operation. *)
From MM Require Import Sync.SModel Contract.Glue.

Definition is_obs (o : sop) : bool :=
  match o with SContains _ | SIter => true | _ => false end.

(** h' is h with observation calls inserted anywhere *)
Inductive obs_inserted : list sop -> list sop -> Prop :=
| oi_nil : obs_inserted [] []
| oi_keep o h h' : obs_inserted h h' -> obs_inserted (o :: h) (o :: h')
| oi_add o h h' : is_obs o = true -> obs_inserted h h' -> obs_inserted h (o :: h').

(** outputs of the operations of h' that come from h (dropping those of the inserted calls) *)
Inductive outs_match : list sop -> list sop -> list sout -> list sout -> Prop :=
| om_nil : outs_match [] [] [] []
| om_keep o h h' x outs outs' : outs_match h h' outs outs' -> outs_match (o :: h) (o :: h') (x :: outs) (x :: outs')
| om_add o h h' x outs outs' : is_obs o = true -> outs_match h h' outs outs' -> outs_match h (o :: h') outs (x :: outs').

Lemma sstep_obs_pure c r o : is_obs o = true -> exists out, sstep c r o = Ok (r, out).
Proof.
  destruct o; cbn [is_obs]; intros H; try discriminate.
  - destruct (s_contains_pure c r k) as [b Hb]. eauto.
  - destruct (s_iter_pure c r) as [l Hl]. eauto.
Qed.

Theorem sync_observations_pure c : forall h h', obs_inserted h h' ->
  forall r r1 outs, srun_ops c r h = Ok (r1, outs) ->
  exists outs', srun_ops c r h' = Ok (r1, outs') /\ outs_match h h' outs outs'.
Proof.
  intros h h' Hins. induction Hins as [|o h h' Hins IH|o h h' Hobs Hins IH]; intros r r1 outs Hrun.
  - cbn [srun_ops] in *. inversion Hrun; subst. exists []. split; [reflexivity|constructor].
  - cbn [srun_ops] in *. destruct (sstep c r o) as [[r2 out]|e]; cbn [rbind] in *; [|discriminate].
    destruct (srun_ops c r2 h) as [[r3 outs2]|e] eqn:E; cbn [rbind] in *; [|discriminate].
    inversion Hrun; subst. destruct (IH _ _ _ E) as (outs' & Hr & Hm).
    exists (out :: outs'). rewrite Hr. cbn [rbind]. split; [reflexivity|constructor; exact Hm].
  - destruct (sstep_obs_pure c r o Hobs) as [out Hout].
    destruct (IH _ _ _ Hrun) as (outs' & Hr & Hm).
    exists (out :: outs'). cbn [srun_ops]. rewrite Hout. cbn [rbind]. rewrite Hr. cbn [rbind].
    split; [reflexivity|constructor; assumption].
Qed.

(** ... and conversely, if the longer history runs, so does the shorter one, with the same results *)
Theorem sync_observations_removable c : forall h h', obs_inserted h h' ->
  forall r r1 outs', srun_ops c r h' = Ok (r1, outs') ->
  exists outs, srun_ops c r h = Ok (r1, outs) /\ outs_match h h' outs outs'.
Proof.
  intros h h' Hins. induction Hins as [|o h h' Hins IH|o h h' Hobs Hins IH]; intros r r1 outs' Hrun.
  - cbn [srun_ops] in *. inversion Hrun; subst. exists []. split; [reflexivity|constructor].
  - cbn [srun_ops] in *. destruct (sstep c r o) as [[r2 out]|e]; cbn [rbind] in *; [|discriminate].
    destruct (srun_ops c r2 h') as [[r3 outs2]|e] eqn:E; cbn [rbind] in *; [|discriminate].
    inversion Hrun; subst. destruct (IH _ _ _ E) as (outs & Hr & Hm).
    exists (out :: outs). rewrite Hr. cbn [rbind]. split; [reflexivity|constructor; exact Hm].
  - destruct (sstep_obs_pure c r o Hobs) as [out Hout].
    cbn [srun_ops] in Hrun. rewrite Hout in Hrun. cbn [rbind] in Hrun.
    destruct (srun_ops c r h') as [[r3 outs2]|e] eqn:E; cbn [rbind] in *; [|discriminate].
    inversion Hrun; subst. destruct (IH _ _ _ E) as (outs & Hr & Hm).
    exists outs. split; [exact Hr|constructor; assumption].
Qed.
