(** Numeric digests of model runs, used to cross-check the EXTRACTED models against
    evaluation inside Coq ([vm_compute]) on the same histories (tools/vmcheck.py).
    Definitions only. *)
From MM Require Export Base.Families Unsync.UModel Sync.SModel.

Definition mix (k v w : N) : N := k * 1000003 + v * 7919 + w.

Definition pairs_digest (l : list (N * N)) : list N :=
  [N.of_nat (length l); fold_right (fun kv acc => acc + mix kv.1 kv.2 0) 0 l].

Definition uout_digest (o : uout) : list N :=
  match o with
  | ONone => [0]
  | OVal None => [1]
  | OVal (Some v) => [2; v]
  | OBool b => [3; if b then 1 else 0]
  | OList l => 4 :: pairs_digest l
  end.

Definition ustate_digest (s : ustate) : list N :=
  [u_ec s; u_ws s; N.of_nat (size (u_map s));
   map_fold (fun k e acc => acc + mix k (ue_val e) (ue_weight e)) 0 (u_map s);
   if u_skon s then 1 else 0; sk_size (u_sk s); sk_tlen (u_sk s);
   map_fold (fun i w acc => acc + w * (i * 1000003 + 1)) 0 (sk_table (u_sk s))]
  ++ (an_key <$> (u_prob s).*2) ++ [888888888] ++ (wn_key <$> (u_wo s).*2).

Fixpoint urun_digest (c : ucfg) (r : urun) (ops : list uop) : list (list N) :=
  match ops with
  | [] => []
  | o :: rest =>
    match ustep c r o with
    | Ok (r', out) => (uout_digest out ++ [777777777] ++ ustate_digest (ur_state r')) :: urun_digest c r' rest
    | Err _ => [[666666666]]
    end
  end.

Definition sout_digest (o : sout) : list N :=
  match o with
  | SONone => [0]
  | SOVal None => [1]
  | SOVal (Some v) => [2; v]
  | SOBool b => [3; if b then 1 else 0]
  | SOList l => 4 :: pairs_digest l
  end.

Definition sstate_digest (s : sstate) : list N :=
  [s_ec s; s_ws s; N.of_nat (size (s_map s));
   map_fold (fun k ve acc => acc + mix k (sv_val (get_ve s ve)) (si_weight (get_info s (ve_info s ve)))) 0 (s_map s);
   map_fold (fun k ve acc => acc + mix k (si_la (get_info s (ve_info s ve))) (si_lm (get_info s (ve_info s ve)))) 0 (s_map s);
   match s_va s with Some v => v + 1 | None => 0 end;
   qlen (s_rq s); qlen (s_wq s); s_sync_after s;
   if s_skon s then 1 else 0; sk_size (s_sk s); sk_tlen (s_sk s);
   map_fold (fun i w acc => acc + w * (i * 1000003 + 1)) 0 (sk_table (s_sk s))]
  ++ (sa_key <$> (s_prob s).*2) ++ [888888888] ++ (sw_key <$> (s_wo s).*2).

Fixpoint srun_digest (c : scfg) (r : srun) (ops : list sop) : list (list N) :=
  match ops with
  | [] => []
  | o :: rest =>
    match sstep c r o with
    | Ok (r', out) => (sout_digest out ++ [777777777] ++ sstate_digest (sr_state r')) :: srun_digest c r' rest
    | Err _ => [[666666666]]
    end
  end.
