(** Model of the builders (src/unsync/builder.rs, src/sync/builder.rs,
    common/builder_utils.rs) and of Policy, with the (trivial) proofs of C17. *)
From MM Require Export Base.Prelude Gen.Consts.
From MM Require Import Unsync.UModel.

Record builder := mkB {
  b_cap : option N;        (* max_capacity *)
  b_ic  : option N;        (* initial_capacity *)
  b_ttl : option N;        (* time_to_live, ns *)
  b_tti : option N;        (* time_to_idle, ns *)
  b_wf  : option (N -> N -> N)
}.

(** CacheBuilder::default() *)
Definition builder_default : builder := mkB None None None None None.

(** Duration::from_secs(1000 * YEAR_SECONDS), in ns *)
Definition max_expiry_ns : N := MAX_EXPIRY_SECS * 1000000000.

Definition too_long (d : option N) : bool :=
  match d with Some x => max_expiry_ns <? x | None => false end.

(** build / build_with_hasher: ensure_expirations_or_panic then with_everything *)
Definition build (b : builder) (hash : N -> N) : res ucfg :=
  if too_long (b_ttl b) || too_long (b_tti b) then Err Panic
  else Ok (mkUCfg (b_cap b) (b_ttl b) (b_tti b) (b_wf b) hash).

(** Cache::new(max_capacity) *)
Definition new_cache (n : N) (hash : N -> N) : res ucfg :=
  Ok (mkUCfg (Some n) None None None hash).

(** Cache::policy() *)
Definition policy (c : ucfg) : option N * option N * option N := (uc_cap c, uc_ttl c, uc_tti c).

(** ---- C17 ---- *)
Lemma policy_of_build b h c : build b h = Ok c -> policy c = (b_cap b, b_ttl b, b_tti b).
Proof.
  unfold build. destruct (too_long (b_ttl b) || too_long (b_tti b)); intros H; inversion H; reflexivity.
Qed.

Lemma too_long_iff d : too_long d = true <-> exists x, d = Some x /\ max_expiry_ns < x.
Proof.
  unfold too_long. destruct d as [x|].
  - rewrite N.ltb_lt. split; [intros Hx; exists x; auto | intros (y & Hy & Hlt); inversion Hy; subst; exact Hlt].
  - split; [discriminate | intros (y & Hy & _); discriminate].
Qed.

Lemma build_panics_iff b h :
  build b h = Err Panic <->
  (exists d, b_ttl b = Some d /\ max_expiry_ns < d) \/ (exists d, b_tti b = Some d /\ max_expiry_ns < d).
Proof.
  rewrite <- !too_long_iff, <- orb_true_iff. unfold build.
  destruct (too_long (b_ttl b) || too_long (b_tti b)); split; intros Hx; try reflexivity; discriminate.
Qed.

Lemma build_ok_iff b h :
  (exists c, build b h = Ok c) <->
  (forall d, b_ttl b = Some d -> d <= max_expiry_ns) /\ (forall d, b_tti b = Some d -> d <= max_expiry_ns).
Proof.
  split.
  - intros [c Hc]. split; intros d Hd; apply N.le_ngt; intros Hlt.
    + assert (Hp : build b h = Err Panic) by (apply build_panics_iff; left; eauto). congruence.
    + assert (Hp : build b h = Err Panic) by (apply build_panics_iff; right; eauto). congruence.
  - intros [Ht Hi]. unfold build.
    destruct (too_long (b_ttl b) || too_long (b_tti b)) eqn:E; [|eauto].
    apply orb_true_iff in E as [E|E]; apply too_long_iff in E as (x & Hx & Hlt).
    + specialize (Ht _ Hx). lia.
    + specialize (Hi _ Hx). lia.
Qed.

(** new(n) is builder().max_capacity(n).build() *)
Lemma new_is_builder n h :
  new_cache n h = build (mkB (Some n) None None None None) h.
Proof. reflexivity. Qed.

(** initial_capacity has no effect: it does not even reach the configuration the cache runs with *)
Lemma initial_capacity_ignored b h ic :
  build (mkB (b_cap b) ic (b_ttl b) (b_tti b) (b_wf b)) h = build b h.
Proof. reflexivity. Qed.

(** without a weigher every entry weighs 1 *)
Lemma no_weigher_weighs_one c k v : uc_wf c = None -> weigh c k v = 1.
Proof. unfold weigh. intros ->. reflexivity. Qed.

(** without max_capacity nothing is ever evicted for size: there is never anything to evict
    and every new key has room *)
Lemma no_capacity_no_eviction c s : uc_cap c = None -> weights_to_evict c s = 0.
Proof. unfold weights_to_evict. intros ->. reflexivity. Qed.
Lemma no_capacity_always_room c w ws : uc_cap c = None -> has_enough_capacity c w ws = Ok true.
Proof. unfold has_enough_capacity. intros ->. reflexivity. Qed.

Example boundary_1000y_ok :
  exists c, build (mkB None None (Some max_expiry_ns) (Some max_expiry_ns) None) (fun k => k) = Ok c.
Proof. eexists. vm_compute. reflexivity. Qed.
Example boundary_1000y_plus_1ns_panics :
  build (mkB None None (Some (max_expiry_ns + 1)) None None) (fun k => k) = Err Panic.
Proof. vm_compute. reflexivity. Qed.
