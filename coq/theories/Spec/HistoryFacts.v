(** Facts about the history-level reference state alone (no cache model involved). *)
From MM Require Import Spec.History.

Lemma rstep_invalidate_gone f now r k : rstep f now r (AInvalidate k) !! k = None.
Proof. cbn [rstep]; unfold rstate in *. apply lookup_delete. Qed.

Lemma rstep_invalidate_other f now r k k' :
  k' <> k -> rstep f now r (AInvalidate k) !! k' = r !! k'.
Proof. intros H. cbn [rstep]; unfold rstate in *. apply lookup_delete_ne. congruence. Qed.

Lemma rstep_invalidate_if_gone f now r p k c :
  r !! k = Some c -> p k (rc_val c) = true -> rstep f now r (AInvalidateIf p) !! k = None.
Proof.
  intros Hk Hp. cbn [rstep]; unfold rstate in *. apply map_filter_lookup_None. right.
  intros c' Hc'. cbn [fst snd]. assert (c' = c) as -> by congruence. congruence.
Qed.

Lemma rstep_invalidate_if_other f now r p k c :
  r !! k = Some c -> p k (rc_val c) = false -> rstep f now r (AInvalidateIf p) !! k = Some c.
Proof.
  intros Hk Hp. cbn [rstep]; unfold rstate in *. apply map_filter_lookup_Some. split; [exact Hk|exact Hp].
Qed.

Lemma rstep_invalidate_all_unsync now r k : rstep FUnsync now r AInvalidateAll !! k = None.
Proof. cbn [rstep]; unfold rstate in *. apply lookup_empty. Qed.

Lemma rstep_invalidate_all_sync_gone now r k c :
  r !! k = Some c -> rc_ins c < now -> rstep FSync now r AInvalidateAll !! k = None.
Proof.
  intros Hk Hlt. cbn [rstep]; unfold rstate in *. apply map_filter_lookup_None. right.
  intros c' Hc'. cbn [fst snd]. assert (c' = c) as -> by congruence. lia.
Qed.

Lemma rstep_invalidate_all_sync_kept now r k c :
  r !! k = Some c -> now <= rc_ins c -> rstep FSync now r AInvalidateAll !! k = Some c.
Proof.
  intros Hk Hle. cbn [rstep]; unfold rstate in *. apply map_filter_lookup_Some. split; [exact Hk|exact Hle].
Qed.

(** an absent key stays absent until it is inserted again: invalidated entries never
    reappear *)
Lemma rstep_absent_stays f now r o k :
  r !! k = None -> (forall v, o <> AInsert k v) -> rstep f now r o !! k = None.
Proof.
  intros Hk Hne. destruct o as [k' v|k' [v|]|k'| |p|]; cbn [rstep]; unfold rstate in *.
  - destruct (decide (k' = k)) as [->|Hd]; [exfalso; exact (Hne v eq_refl)|].
    rewrite lookup_insert_ne by exact Hd. exact Hk.
  - destruct (r !! k') as [c|] eqn:Hk'; [|exact Hk].
    destruct (decide (k' = k)) as [->|Hd]; [congruence|].
    rewrite lookup_insert_ne by exact Hd. exact Hk.
  - exact Hk.
  - destruct (decide (k' = k)) as [->|Hd]; [apply lookup_delete|].
    rewrite lookup_delete_ne by exact Hd. exact Hk.
  - destruct f; [apply lookup_empty|].
    apply map_filter_lookup_None. left. exact Hk.
  - apply map_filter_lookup_None. left. exact Hk.
  - exact Hk.
Qed.

Lemma rstep_insert f now r k v : rstep f now r (AInsert k v) !! k = Some (mkRC v now now).
Proof. cbn [rstep]; unfold rstate in *. apply lookup_insert. Qed.

Lemma rstep_insert_other f now r k v k' :
  k' <> k -> rstep f now r (AInsert k v) !! k' = r !! k'.
Proof. intros H. cbn [rstep]; unfold rstate in *. apply lookup_insert_ne. congruence. Qed.

Lemma unjustified_absent ttl tti now r k v : r !! k = None -> ~ justified ttl tti now r k v.
Proof. intros Hk (c & Hc & _). congruence. Qed.

(** an update restarts both intervals; a successful get restarts the idle interval only *)
Lemma rstep_get_hit f now r k v c :
  r !! k = Some c -> rstep f now r (AGet k (Some v)) !! k = Some (mkRC (rc_val c) (rc_ins c) now).
Proof. intros Hk. cbn [rstep]; unfold rstate in *. rewrite Hk. apply lookup_insert. Qed.

Lemma rstep_get_hit_other f now r k v k' :
  k' <> k -> rstep f now r (AGet k (Some v)) !! k' = r !! k'.
Proof.
  intros Hd. cbn [rstep]; unfold rstate in *. destruct (r !! k) as [c|]; [|reflexivity].
  apply lookup_insert_ne. congruence.
Qed.
