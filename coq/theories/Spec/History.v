(** What the properties talk about, defined on the history alone: for every key, the
    most recent insert that has not been invalidated since, with the clock readings
    of that insert and of the latest access.  Definitions only.

    The reference state is updated alongside the operations of a history; it depends
    on the cache only through the answers of successful gets (a get that returned a
    value counts as an access).  [flavour] distinguishes the two documented
    semantics of invalidate_all: the single-threaded cache removes everything; the
    concurrent cache removes what was inserted at a strictly earlier clock reading. *)
From MM Require Export Base.Prelude.

Record rcell := mkRC {
  rc_val : N;      (* value of the most recent insert *)
  rc_ins : N;      (* clock reading of that insert *)
  rc_acc : N       (* clock reading of the latest insert / update / successful get *)
}.

Definition rstate := gmap N rcell.

Inductive flavour := FUnsync | FSync.

(** Abstract view of an operation, shared by both caches. *)
Inductive aop :=
| AInsert (k v : N)
| AGet (k : N) (result : option N)     (* with the value the cache answered *)
| AInvalidate (k : N)
| AInvalidateAll
| AInvalidateIf (p : N -> N -> bool)
| AOther.                               (* contains_key, iter, sync, clock advance *)

Definition rstep (f : flavour) (now : N) (r : rstate) (o : aop) : rstate :=
  match o with
  | AInsert k v => <[k := mkRC v now now]> r
  | AGet k (Some _) =>
    match r !! k with
    | Some c => <[k := mkRC (rc_val c) (rc_ins c) now]> r
    | None => r
    end
  | AGet k None => r
  | AInvalidate k => delete k r
  | AInvalidateAll =>
    match f with
    | FUnsync => ∅
    | FSync => filter (fun kc => now <= rc_ins (snd kc)) r
    end
  | AInvalidateIf p => filter (fun kc => p (fst kc) (rc_val (snd kc)) = false) r
  | AOther => r
  end.

(** A lookup answer is justified by the reference state when it shows only the
    latest live value, within its time-to-live and time-to-idle. *)
Definition justified (ttl tti : option N) (now : N) (r : rstate) (k v : N) : Prop :=
  exists c, r !! k = Some c /\ rc_val c = v /\
    (forall d, ttl = Some d -> now < rc_ins c + d) /\
    (forall d, tti = Some d -> now < rc_acc c + d).
