(** * HK: interleaving model of the maintenance ("housekeeper") protocol of the
    concurrent cache.

    Abstracted code (src/sync/cache.rs [schedule_write_op],
    src/sync/base_cache.rs [apply_reads_writes_if_needed] / [Inner::sync],
    src/common/concurrent/housekeeper.rs [try_sync]):

      insert(k,v):  do_insert_with_hash                 (atomic map upsert; the write op is "in flight")
                    loop { if should_apply(len wq) { try_sync() }
                           match try_send(op) { Ok => break, Full => sleep; continue } }
      try_sync():   if CAS(is_sync_running, false -> true) { sync(); is_sync_running := false }
      sync():       lock(deques); apply all queued write ops; evict to capacity; unlock(deques)
      public sync() calls sync() directly, bypassing the flag.

    Any number of threads, each running a finite list of operations, are
    interleaved at the granularity of the atomic steps above.  The thread pool
    is an id-tagged list (ids pairwise distinct); all theorems quantify over
    every schedule.

    Modelling decisions (worst case for the overshoot): every insert is of a
    fresh key with unit weight, so [resident] grows by one at the upsert.  A
    drain leaves ANY number [adm' <= min cap (adm + wq)] of policy
    entries (this covers admission, rejection, eviction and expiry) and removes
    all other previously policy-counted/queued entries from the map.
    Not modelled: the read channel, the clock (its outcome is the arbitrary
    [choice] of a step), the repeat loop inside [Inner::sync] (one drain empties
    the queue atomically under the lock), a disconnected channel.

    Main results (all for every interleaving of any number of threads):
    - [hk_inv_init], [hk_inv_step]: the invariant [HKInv] (mutual exclusion of
      flag and lock, queue bound, ghost accounting);
    - [hk_overshoot]: resident <= cap + WRITE_LOG_SIZE + number of threads;
    - [hk_flag_released]: flag and lock are free once all threads are finished;
    - [hk_deadlock_free]: some step is enabled while a thread is unfinished;
    - [hk_step_mu], [hk_can_finish]: a finishing schedule exists from every
      reachable state;
    - [hk_step_phi], [hk_terminates], [hk_no_livelock]: every scheduler that
      picks each thread again and again finishes, whatever its choices;
    - [hk_accepts_sound], [hk_accepts_quiescent_sound]: the acquire / release /
      lock / unlock events of every run are accepted by the trace monitor. *)
From MM Require Import Base.Prelude Gen.Consts.

(** ** Constant facts (the only place where the constants are unfolded) *)
Section constant_facts.
  Lemma flush_point_pos : 0 < WRITE_LOG_FLUSH_POINT.
  Proof. vm_compute. reflexivity. Qed.
  Lemma flush_point_le_size : WRITE_LOG_FLUSH_POINT <= WRITE_LOG_SIZE.
  Proof. vm_compute. discriminate. Qed.
  Lemma log_size_pos : 0 < WRITE_LOG_SIZE.
  Proof. pose proof flush_point_pos. pose proof flush_point_le_size. lia. Qed.
End constant_facts.
#[local] Opaque WRITE_LOG_SIZE WRITE_LOG_FLUSH_POINT.

(** ** Model *)
Inductive hop := HInsert | HSync.

Inductive pc :=
| PIdle                (* before the operation starts (also: thread finished, no operation left) *)
| PLoop                (* head of the schedule_write_op loop *)
| PWantLock (b : bool) (* about to lock the deques; [b]: came through the housekeeper flag *)
| PInSync (b : bool)   (* holds the deques lock, inside Inner::sync *)
| PRelease             (* about to store is_sync_running := false *)
| PSend                (* about to try_send *)
| PDone.               (* operation complete *)

Notation thread := (list hop * pc)%type.

Record hstate := MkH {
  h_flag : option N;       (* is_sync_running, with the (ghost) identity of the holder *)
  h_lock : option N;       (* deques mutex, with the identity of the holder *)
  h_wq : N;                (* length of the bounded write channel *)
  h_inflight : N;          (* upserted entries whose write op is not yet in the channel *)
  h_resident : N;          (* entries in the hash map *)
  h_adm : N;          (* entries counted by the policy *)
  h_threads : list (N * thread) }.

(** [should_apply]: [clock] is the (arbitrary) outcome of the clock condition. *)
Definition should_apply (wq : N) (clock : bool) : bool :=
  clock || (WRITE_LOG_FLUSH_POINT <=? wq).

(** One atomic step of thread [t].  [choice] resolves the clock condition at
    PLoop (skipping maintenance is only possible below the flush point), [n]
    resolves the outcome of the drain.  [None]: thread unknown, finished, or
    blocked on the lock.  EXECUTABLE. *)
Definition hk_step (cap : N) (st : hstate) (t : N) (choice : bool) (n : N) : option hstate :=
  let '(MkH f l w i r a ths) := st in
  match find_id t ths with
  | Some (op :: rest, p) =>
    let ops := op :: rest in
    let go f' l' w' i' r' a' x :=
      Some (MkH f' l' w' i' r' a' (update_id t (fun _ => x) ths)) in
    match p with
    | PIdle =>
      match op with
      | HInsert => go f l w (i + 1) (r + 1) a (ops, PLoop)
      | HSync => go f l w i r a (ops, PWantLock false)
      end
    | PLoop =>
      if should_apply w choice then
        match f with
        | None => go (Some t) l w i r a (ops, PWantLock true)      (* CAS won *)
        | Some _ => go f l w i r a (ops, PSend)                     (* CAS lost *)
        end
      else go f l w i r a (ops, PSend)
    | PWantLock b =>
      match l with
      | None => go f (Some t) w i r a (ops, PInSync b)
      | Some _ => None
      end
    | PInSync b =>
      let a' := N.min n (N.min cap (a + w)) in
      go f None 0 i (r - (a + w - a')) a' (ops, if b then PRelease else PDone)
    | PRelease => go None l w i r a (ops, PSend)
    | PSend =>
      if w <? WRITE_LOG_SIZE then go f l (w + 1) (i - 1) r a (ops, PDone)
      else go f l w i r a (ops, PLoop)                               (* Full: retry *)
    | PDone => go f l w i r a (rest, PIdle)
    end
  | _ => None
  end.

Definition sched : Type := list (N * bool * N).

(** EXECUTABLE. *)
Fixpoint hk_run (cap : N) (st : hstate) (s : sched) : option hstate :=
  match s with
  | [] => Some st
  | (t, c, n) :: s' =>
    match hk_step cap st t c n with
    | Some st' => hk_run cap st' s'
    | None => None
    end
  end.

(** Initial state: [a0] entries already in the policy, every thread idle. *)
Definition hk_init (a0 : N) (progs : list (N * list hop)) : hstate :=
  MkH None None 0 0 a0 a0 (map (fun e => (fst e, (snd e, PIdle))) progs).

Definition hk_reachable (cap a0 : N) (progs : list (N * list hop)) (st : hstate) : Prop :=
  exists s, hk_run cap (hk_init a0 progs) s = Some st.

Definition thr_finished (x : thread) : bool :=
  match fst x with [] => true | _ => false end.

Definition hk_finished (st : hstate) : bool :=
  forallb (fun e => thr_finished (snd e)) (h_threads st).

(** ** Program-counter classes *)
Definition holds_flag (p : pc) : bool :=
  match p with PWantLock true | PInSync true | PRelease => true | _ => false end.
Definition in_sync (p : pc) : bool :=
  match p with PInSync _ => true | _ => false end.
Definition inflight_pc (p : pc) : bool :=
  match p with PLoop | PWantLock true | PInSync true | PRelease | PSend => true | _ => false end.

Fixpoint cnt (P : pc -> bool) (l : list (N * thread)) : nat :=
  match l with
  | [] => 0%nat
  | e :: r => ((if P (snd (snd e)) then 1 else 0) + cnt P r)%nat
  end.

Definition b2n (b : bool) : nat := if b then 1%nat else 0%nat.

(** ** Facts about id-tagged lists *)
Section idlists.
  Context {A : Type}.
  Implicit Types l : list (N * A).

  Lemma find_update_same t f l x :
    find_id t l = Some x -> find_id t (update_id t f l) = Some (f x).
  Proof.
    induction l as [|[m a] r IH]; simpl; [discriminate|].
    destruct (N.eqb m t) eqn:E; simpl; rewrite E; auto.
    intros [= ->]. reflexivity.
  Qed.

  Lemma find_update_other t t' f l :
    t <> t' -> find_id t' (update_id t f l) = find_id t' l.
  Proof.
    intros Hne. induction l as [|[m a] r IH]; simpl; [reflexivity|].
    destruct (N.eqb m t) eqn:E; simpl.
    - apply N.eqb_eq in E. subst m.
      destruct (N.eqb t t') eqn:E'; [apply N.eqb_eq in E'; contradiction|reflexivity].
    - destruct (N.eqb m t'); auto.
  Qed.

  Lemma map_fst_update t f l : map fst (update_id t f l) = map fst l.
  Proof.
    induction l as [|[m a] r IH]; simpl; [reflexivity|].
    destruct (N.eqb m t); simpl; congruence.
  Qed.

  Lemma update_update t x y l :
    update_id t (fun _ => y) (update_id t (fun _ => x) l) = update_id t (fun _ => y) l.
  Proof.
    induction l as [|[m a] r IH]; simpl; [reflexivity|].
    destruct (N.eqb m t) eqn:E; simpl; rewrite E; congruence.
  Qed.

  Lemma find_id_In t l x : find_id t l = Some x -> In (t, x) l.
  Proof.
    induction l as [|[m a] r IH]; simpl; [discriminate|].
    destruct (N.eqb m t) eqn:E.
    - apply N.eqb_eq in E. intros [= ->]. left. congruence.
    - auto.
  Qed.

  Lemma In_find_id t l x : NoDup (map fst l) -> In (t, x) l -> find_id t l = Some x.
  Proof.
    induction l as [|[m a] r IH]; simpl; [tauto|].
    intros Hnd [Heq|Hin].
    - inversion Heq; subst. rewrite N.eqb_refl. reflexivity.
    - apply NoDup_cons in Hnd as [Hni Hnd'].
      destruct (N.eqb m t) eqn:E.
      + apply N.eqb_eq in E. subst m. exfalso. apply Hni.
        apply elem_of_list_In.
        change t with (fst (t, x)). apply in_map. exact Hin.
      + auto.
  Qed.
End idlists.

Lemma cnt_update P t l ops p x :
  find_id t l = Some (ops, p) ->
  (cnt P (update_id t (fun _ => x) l) + b2n (P p) = cnt P l + b2n (P (snd x)))%nat.
Proof.
  induction l as [|[m a] r IH]; simpl; [discriminate|].
  destruct (N.eqb m t) eqn:E; simpl.
  - intros [= ->]. simpl. unfold b2n. destruct (P p), (P (snd x)); lia.
  - intros H. specialize (IH H). lia.
Qed.

Lemma cnt_le_length P l : (cnt P l <= length l)%nat.
Proof. induction l as [|e r IH]; simpl; [lia|]. destruct (P _); lia. Qed.

Lemma length_update {A} t (f : A -> A) l : length (update_id t f l) = length l.
Proof. rewrite <- (map_length fst), map_fst_update, map_length. reflexivity. Qed.

(** ** The invariant *)
Record HKInv (cap : N) (st : hstate) : Prop := {
  inv_nodup : NoDup (map fst (h_threads st));
  (* (i) the flag is held exactly by the thread between the successful CAS and the releasing store *)
  inv_flag : forall t ops p, find_id t (h_threads st) = Some (ops, p) ->
               (holds_flag p = true <-> h_flag st = Some t);
  inv_flag_ex : forall t, h_flag st = Some t -> exists x, find_id t (h_threads st) = Some x;
  (* (ii) the lock is held exactly by the thread inside sync *)
  inv_lock : forall t ops p, find_id t (h_threads st) = Some (ops, p) ->
               (in_sync p = true <-> h_lock st = Some t);
  inv_lock_ex : forall t, h_lock st = Some t -> exists x, find_id t (h_threads st) = Some x;
  (* (iii) *)
  inv_wq : h_wq st <= WRITE_LOG_SIZE;
  (* (iv) *)
  inv_inflight : h_inflight st = N.of_nat (cnt inflight_pc (h_threads st));
  (* (v) *)
  inv_resident : h_resident st = h_adm st + h_wq st + h_inflight st;
  inv_adm : h_adm st <= cap;
  (* finished threads rest at PIdle *)
  inv_idle : forall t p, find_id t (h_threads st) = Some ([], p) -> p = PIdle
}.

(** Uniqueness corollaries of (i)/(ii): "exactly one". *)
Lemma hk_flag_unique cap st t1 t2 o1 p1 o2 p2 :
  HKInv cap st ->
  find_id t1 (h_threads st) = Some (o1, p1) -> holds_flag p1 = true ->
  find_id t2 (h_threads st) = Some (o2, p2) -> holds_flag p2 = true -> t1 = t2.
Proof.
  intros I F1 H1 F2 H2.
  apply (inv_flag _ _ I) in F1. apply (inv_flag _ _ I) in F2.
  apply F1 in H1. apply F2 in H2. congruence.
Qed.

Lemma hk_lock_unique cap st t1 t2 o1 p1 o2 p2 :
  HKInv cap st ->
  find_id t1 (h_threads st) = Some (o1, p1) -> in_sync p1 = true ->
  find_id t2 (h_threads st) = Some (o2, p2) -> in_sync p2 = true -> t1 = t2.
Proof.
  intros I F1 H1 F2 H2.
  apply (inv_lock _ _ I) in F1. apply (inv_lock _ _ I) in F2.
  apply F1 in H1. apply F2 in H2. congruence.
Qed.

Lemma hk_flag_holder cap st t :
  HKInv cap st -> h_flag st = Some t ->
  exists ops p, find_id t (h_threads st) = Some (ops, p) /\ holds_flag p = true.
Proof.
  intros I H. destruct (inv_flag_ex _ _ I _ H) as [[ops p] F].
  exists ops, p. split; [exact F|]. apply (inv_flag _ _ I _ _ _ F). exact H.
Qed.

Lemma hk_lock_holder cap st t :
  HKInv cap st -> h_lock st = Some t ->
  exists ops p, find_id t (h_threads st) = Some (ops, p) /\ in_sync p = true.
Proof.
  intros I H. destruct (inv_lock_ex _ _ I _ H) as [[ops p] F].
  exists ops, p. split; [exact F|]. apply (inv_lock _ _ I _ _ _ F). exact H.
Qed.

(** Generic preservation: thread [t] moves from [(ops,p)] to [(ops',p')] and the
    globals change to [f' l' w' i' r' a']. *)
Lemma inv_update cap st t ops p ops' p' f' l' w' i' r' a' :
  HKInv cap st ->
  find_id t (h_threads st) = Some (ops, p) ->
  (holds_flag p' = true <-> f' = Some t) ->
  (forall t', t' <> t -> (h_flag st = Some t' <-> f' = Some t')) ->
  (in_sync p' = true <-> l' = Some t) ->
  (forall t', t' <> t -> (h_lock st = Some t' <-> l' = Some t')) ->
  w' <= WRITE_LOG_SIZE ->
  i' + N.of_nat (b2n (inflight_pc p)) = h_inflight st + N.of_nat (b2n (inflight_pc p')) ->
  r' = a' + w' + i' ->
  a' <= cap ->
  (ops' = [] -> p' = PIdle) ->
  HKInv cap (MkH f' l' w' i' r' a' (update_id t (fun _ => (ops', p')) (h_threads st))).
Proof.
  intros I F Hf Hfo Hl Hlo Hw Hi Hr Ha Hidle.
  constructor; simpl.
  - rewrite map_fst_update. apply (inv_nodup _ _ I).
  - intros t1 o1 p1. destruct (N.eq_dec t t1) as [<-|Hne].
    + rewrite (find_update_same _ _ _ _ F). intros [= <- <-]. exact Hf.
    + rewrite find_update_other by exact Hne. intros F1.
      rewrite (inv_flag _ _ I _ _ _ F1). apply Hfo. congruence.
  - intros t1 H1. destruct (N.eq_dec t t1) as [<-|Hne].
    + rewrite (find_update_same _ _ _ _ F). eauto.
    + rewrite find_update_other by exact Hne.
      apply (inv_flag_ex _ _ I). apply Hfo; [congruence|exact H1].
  - intros t1 o1 p1. destruct (N.eq_dec t t1) as [<-|Hne].
    + rewrite (find_update_same _ _ _ _ F). intros [= <- <-]. exact Hl.
    + rewrite find_update_other by exact Hne. intros F1.
      rewrite (inv_lock _ _ I _ _ _ F1). apply Hlo. congruence.
  - intros t1 H1. destruct (N.eq_dec t t1) as [<-|Hne].
    + rewrite (find_update_same _ _ _ _ F). eauto.
    + rewrite find_update_other by exact Hne.
      apply (inv_lock_ex _ _ I). apply Hlo; [congruence|exact H1].
  - exact Hw.
  - pose proof (cnt_update inflight_pc t _ _ _ (ops', p') F) as C. simpl in C.
    pose proof (inv_inflight _ _ I) as II. lia.
  - exact Hr.
  - exact Ha.
  - intros t1 p1. destruct (N.eq_dec t t1) as [<-|Hne].
    + rewrite (find_update_same _ _ _ _ F). intros [= E1 E2]. subst. auto.
    + rewrite find_update_other by exact Hne. apply (inv_idle _ _ I).
Qed.

Lemma cnt_pos P t l ops p :
  find_id t l = Some (ops, p) -> P p = true -> (1 <= cnt P l)%nat.
Proof.
  induction l as [|[m a] r IH]; simpl; [discriminate|].
  destruct (N.eqb m t).
  - intros [= ->] HP. simpl. rewrite HP. lia.
  - intros F H. specialize (IH F H). lia.
Qed.

Lemma cnt_idle P l :
  P PIdle = false -> (forall e, In e l -> snd (snd e) = PIdle) -> cnt P l = 0%nat.
Proof.
  intros HP. induction l as [|e r IH]; [reflexivity|].
  intros H. cbn [cnt]. rewrite (H e) by (left; reflexivity). rewrite HP, IH; [reflexivity|].
  intros e' He'. apply H. right. exact He'.
Qed.

Theorem hk_inv_init cap a0 progs :
  a0 <= cap -> NoDup (map fst progs) -> HKInv cap (hk_init a0 progs).
Proof.
  intros Ha Hnd.
  assert (Hidle : forall e, In e (h_threads (hk_init a0 progs)) -> snd (snd e) = PIdle).
  { simpl. intros e He. apply in_map_iff in He as [x [<- _]]. reflexivity. }
  assert (Hfind : forall t ops p, find_id t (h_threads (hk_init a0 progs)) = Some (ops, p) -> p = PIdle).
  { intros t ops p F. apply find_id_In in F. apply (Hidle _ F). }
  constructor.
  - simpl. rewrite map_map. simpl. exact Hnd.
  - intros t ops p F. rewrite (Hfind _ _ _ F). simpl. split; discriminate.
  - simpl. discriminate.
  - intros t ops p F. rewrite (Hfind _ _ _ F). simpl. split; discriminate.
  - simpl. discriminate.
  - simpl. pose proof log_size_pos. lia.
  - rewrite cnt_idle; [reflexivity|reflexivity|exact Hidle].
  - simpl. lia.
  - simpl. exact Ha.
  - intros t p F. apply (Hfind _ _ _ F).
Qed.

(** What a step looks like once the thread entry is known. *)
Lemma hk_step_unfold cap st t choice n :
  hk_step cap st t choice n =
  match find_id t (h_threads st) with
  | Some (op :: rest, p) =>
    let ops := op :: rest in
    let go f' l' w' i' r' a' x :=
      Some (MkH f' l' w' i' r' a' (update_id t (fun _ => x) (h_threads st))) in
    match p with
    | PIdle =>
      match op with
      | HInsert => go (h_flag st) (h_lock st) (h_wq st) (h_inflight st + 1) (h_resident st + 1) (h_adm st) (ops, PLoop)
      | HSync => go (h_flag st) (h_lock st) (h_wq st) (h_inflight st) (h_resident st) (h_adm st) (ops, PWantLock false)
      end
    | PLoop =>
      if should_apply (h_wq st) choice then
        match h_flag st with
        | None => go (Some t) (h_lock st) (h_wq st) (h_inflight st) (h_resident st) (h_adm st) (ops, PWantLock true)
        | Some _ => go (h_flag st) (h_lock st) (h_wq st) (h_inflight st) (h_resident st) (h_adm st) (ops, PSend)
        end
      else go (h_flag st) (h_lock st) (h_wq st) (h_inflight st) (h_resident st) (h_adm st) (ops, PSend)
    | PWantLock b =>
      match h_lock st with
      | None => go (h_flag st) (Some t) (h_wq st) (h_inflight st) (h_resident st) (h_adm st) (ops, PInSync b)
      | Some _ => None
      end
    | PInSync b =>
      let a' := N.min n (N.min cap (h_adm st + h_wq st)) in
      go (h_flag st) None 0 (h_inflight st) (h_resident st - (h_adm st + h_wq st - a')) a'
         (ops, if b then PRelease else PDone)
    | PRelease => go None (h_lock st) (h_wq st) (h_inflight st) (h_resident st) (h_adm st) (ops, PSend)
    | PSend =>
      if h_wq st <? WRITE_LOG_SIZE
      then go (h_flag st) (h_lock st) (h_wq st + 1) (h_inflight st - 1) (h_resident st) (h_adm st) (ops, PDone)
      else go (h_flag st) (h_lock st) (h_wq st) (h_inflight st) (h_resident st) (h_adm st) (ops, PLoop)
    | PDone => go (h_flag st) (h_lock st) (h_wq st) (h_inflight st) (h_resident st) (h_adm st) (rest, PIdle)
    end
  | _ => None
  end.
Proof. destruct st. reflexivity. Qed.

Ltac inv_side :=
  simpl in *;
  repeat match goal with
         | H : _ <-> _ |- _ => destruct H
         end;
  try solve [ intuition (try congruence; try discriminate; try lia) ].

Theorem hk_inv_step cap st t choice n st' :
  HKInv cap st -> hk_step cap st t choice n = Some st' -> HKInv cap st'.
Proof.
  intros I. rewrite hk_step_unfold.
  destruct (find_id t (h_threads st)) as [[[|op rest] p]|] eqn:F; try discriminate.
  pose proof (inv_flag _ _ I _ _ _ F) as Hft.
  pose proof (inv_lock _ _ I _ _ _ F) as Hlt.
  pose proof (inv_wq _ _ I) as Hw.
  pose proof (inv_resident _ _ I) as Hr.
  pose proof (inv_adm _ _ I) as Ha.
  pose proof (inv_inflight _ _ I) as Hi.
  pose proof (cnt_pos inflight_pc _ _ _ _ F) as Hpos.
  cbv zeta.
  destruct p as [| |b|b| | |].
  - (* PIdle *)
    destruct op; intros [= <-]; eapply inv_update; eauto; inv_side.
  - (* PLoop *)
    destruct (should_apply _ _); [destruct (h_flag st) as [h|] eqn:Ef|];
      intros [= <-]; eapply inv_update; eauto; inv_side.
  - (* PWantLock *)
    destruct (h_lock st) as [h|] eqn:El; [discriminate|].
    intros [= <-]; eapply inv_update; eauto; destruct b; inv_side.
  - (* PInSync *)
    intros [= <-]; eapply inv_update; eauto; destruct b; inv_side.
  - (* PRelease *)
    intros [= <-]; eapply inv_update; eauto; inv_side.
  - (* PSend *)
    destruct (N.ltb_spec (h_wq st) WRITE_LOG_SIZE);
      intros [= <-]; eapply inv_update; eauto; inv_side.
  - (* PDone *)
    intros [= <-]; eapply inv_update; eauto; inv_side.
Qed.

Lemma hk_run_app cap st s1 s2 :
  hk_run cap st (s1 ++ s2) =
  match hk_run cap st s1 with Some st1 => hk_run cap st1 s2 | None => None end.
Proof.
  revert st. induction s1 as [|[[t c] n] s1 IH]; intros st; simpl; [reflexivity|].
  destruct (hk_step cap st t c n); auto.
Qed.

Lemma hk_inv_run cap st s st' :
  HKInv cap st -> hk_run cap st s = Some st' -> HKInv cap st'.
Proof.
  revert st. induction s as [|[[t c] n] s IH]; intros st I; simpl.
  - intros [= <-]. exact I.
  - destruct (hk_step cap st t c n) as [st1|] eqn:E; [|discriminate].
    apply IH. eapply hk_inv_step; eauto.
Qed.

Lemma hk_inv_reachable cap a0 progs st :
  a0 <= cap -> NoDup (map fst progs) -> hk_reachable cap a0 progs st -> HKInv cap st.
Proof.
  intros Ha Hnd [s Hs]. eapply hk_inv_run; [|exact Hs]. apply hk_inv_init; assumption.
Qed.

(** The number of threads never changes. *)
Lemma hk_step_threads cap st t c n st' :
  hk_step cap st t c n = Some st' ->
  exists x, h_threads st' = update_id t (fun _ => x) (h_threads st).
Proof.
  rewrite hk_step_unfold.
  destruct (find_id t (h_threads st)) as [[[|op rest] p]|]; try discriminate.
  cbv zeta.
  destruct p as [| |b|b| | |]; [destruct op| | | | | |];
    repeat match goal with |- context [if ?c then _ else _] => destruct c end;
    repeat match goal with |- context [match ?c with Some _ => _ | None => _ end] => destruct c end;
    try discriminate; intros [= <-]; simpl; eauto.
Qed.

Lemma hk_run_nthreads cap st s st' :
  hk_run cap st s = Some st' -> length (h_threads st') = length (h_threads st).
Proof.
  revert st. induction s as [|[[t c] n] s IH]; intros st; simpl.
  - intros [= <-]. reflexivity.
  - destruct (hk_step cap st t c n) as [st1|] eqn:E; [|discriminate].
    intros H. rewrite (IH _ H). apply hk_step_threads in E as [x ->]. apply length_update.
Qed.

(** ** Overshoot: between maintenance runs the map holds at most the capacity,
    plus the bounded write queue, plus one entry per inserting thread. *)
Lemma hk_inv_overshoot cap st :
  HKInv cap st ->
  h_resident st <= cap + WRITE_LOG_SIZE + N.of_nat (length (h_threads st)).
Proof.
  intros I.
  pose proof (inv_resident _ _ I). pose proof (inv_adm _ _ I).
  pose proof (inv_wq _ _ I). pose proof (inv_inflight _ _ I).
  pose proof (cnt_le_length inflight_pc (h_threads st)). lia.
Qed.

Theorem hk_overshoot cap a0 progs st :
  a0 <= cap -> NoDup (map fst progs) -> hk_reachable cap a0 progs st ->
  h_resident st <= cap + WRITE_LOG_SIZE + N.of_nat (length progs).
Proof.
  intros Ha Hnd R. pose proof (hk_inv_reachable _ _ _ _ Ha Hnd R) as I.
  destruct R as [s Hs]. apply hk_run_nthreads in Hs. simpl in Hs. rewrite map_length in Hs.
  rewrite <- Hs. apply hk_inv_overshoot. exact I.
Qed.

(** ** The flag (and the lock) are always released *)
Lemma hk_finished_find st t ops p :
  hk_finished st = true -> find_id t (h_threads st) = Some (ops, p) -> ops = [].
Proof.
  unfold hk_finished. rewrite forallb_forall. intros H F.
  apply find_id_In in F. specialize (H _ F). unfold thr_finished in H. simpl in H.
  destruct ops; [reflexivity|discriminate].
Qed.

Lemma hk_inv_flag_released cap st :
  HKInv cap st -> hk_finished st = true -> h_flag st = None /\ h_lock st = None.
Proof.
  intros I Hfin. split.
  - destruct (h_flag st) as [t|] eqn:E; [|reflexivity].
    destruct (hk_flag_holder _ _ _ I E) as (ops & p & F & H).
    pose proof (hk_finished_find _ _ _ _ Hfin F). subst ops.
    rewrite (inv_idle _ _ I _ _ F) in H. discriminate.
  - destruct (h_lock st) as [t|] eqn:E; [|reflexivity].
    destruct (hk_lock_holder _ _ _ I E) as (ops & p & F & H).
    pose proof (hk_finished_find _ _ _ _ Hfin F). subst ops.
    rewrite (inv_idle _ _ I _ _ F) in H. discriminate.
Qed.

Theorem hk_flag_released cap a0 progs st :
  a0 <= cap -> NoDup (map fst progs) -> hk_reachable cap a0 progs st ->
  hk_finished st = true -> h_flag st = None /\ h_lock st = None.
Proof.
  intros Ha Hnd R. apply hk_inv_flag_released with cap. eapply hk_inv_reachable; eauto.
Qed.

(** ** Deadlock freedom *)
Lemma hk_unfinished_thread cap st :
  HKInv cap st -> hk_finished st = false ->
  exists t op rest p, find_id t (h_threads st) = Some (op :: rest, p).
Proof.
  intros I Hfin. unfold hk_finished in Hfin.
  assert (exists e, In e (h_threads st) /\ thr_finished (snd e) = false) as [[t [ops p]] [Hin Hf]].
  { induction (h_threads st) as [|e r IH]; simpl in Hfin; [discriminate|].
    destruct (thr_finished (snd e)) eqn:E.
    - destruct (IH Hfin) as [e' [? ?]]. exists e'. split; [right|]; assumption.
    - exists e. split; [left; reflexivity|exact E]. }
  apply (In_find_id _ _ _ (inv_nodup _ _ I)) in Hin.
  unfold thr_finished in Hf. simpl in Hf. destruct ops as [|op rest]; [discriminate|].
  eauto.
Qed.

(** A thread with an operation left is enabled unless it waits for a held lock. *)
Lemma hk_step_enabled cap st t op rest p c n :
  find_id t (h_threads st) = Some (op :: rest, p) ->
  (forall b, p = PWantLock b -> h_lock st = None) ->
  exists st', hk_step cap st t c n = Some st'.
Proof.
  intros F Hl. rewrite hk_step_unfold, F. cbv zeta.
  destruct p as [| |b|b| | |]; [destruct op| | | | | |];
    try rewrite (Hl _ eq_refl);
    repeat match goal with |- context [if ?c then _ else _] => destruct c end;
    repeat match goal with |- context [match ?c with Some _ => _ | None => _ end] => destruct c end;
    eauto.
Qed.

Lemma hk_inv_deadlock_free cap st :
  HKInv cap st -> hk_finished st = false ->
  exists t c n st', hk_step cap st t c n = Some st'.
Proof.
  intros I Hfin.
  destruct (h_lock st) as [h|] eqn:El.
  - (* the lock holder is inside sync and can always finish the drain *)
    destruct (hk_lock_holder _ _ _ I El) as (ops & p & F & H).
    destruct ops as [|op rest]; [rewrite (inv_idle _ _ I _ _ F) in H; discriminate|].
    exists h, true, 0.
    apply hk_step_enabled with (op := op) (rest := rest) (p := p); [exact F|].
    intros b ->. discriminate.
  - destruct (hk_unfinished_thread _ _ I Hfin) as (t & op & rest & p & F).
    exists t, true, 0. eapply hk_step_enabled; eauto.
Qed.

Theorem hk_deadlock_free cap a0 progs st :
  a0 <= cap -> NoDup (map fst progs) -> hk_reachable cap a0 progs st ->
  hk_finished st = false ->
  exists t choice n st', hk_step cap st t choice n = Some st'.
Proof.
  intros Ha Hnd R. apply hk_inv_deadlock_free. eapply hk_inv_reachable; eauto.
Qed.

(** ** Progress measure *)
Definition pc_rank (p : pc) : nat :=
  match p with
  | PDone => 0 | PSend => 3 | PRelease => 4 | PInSync _ => 5
  | PWantLock _ => 6 | PLoop => 7 | PIdle => 8
  end%nat.

Definition thr_mu (x : thread) : nat := (10 * length (fst x) + pc_rank (snd x))%nat.

Fixpoint msum (l : list (N * thread)) : nat :=
  match l with
  | [] => 0%nat
  | e :: r => (thr_mu (snd e) + msum r)%nat
  end.

Definition mu (st : hstate) : nat := msum (h_threads st).

Lemma msum_update t l x y :
  find_id t l = Some x ->
  (msum (update_id t (fun _ => y) l) + thr_mu x = msum l + thr_mu y)%nat.
Proof.
  induction l as [|[m a] r IH]; simpl; [discriminate|].
  destruct (N.eqb m t); simpl.
  - intros [= ->]. lia.
  - intros H. specialize (IH H). lia.
Qed.

(** Every step decreases [mu], except the Full retry of [try_send], which can
    only happen when the queue is full and which adds exactly 4. *)
Definition is_full_retry (st : hstate) (t : N) : Prop :=
  (exists ops, find_id t (h_threads st) = Some (ops, PSend)) /\ h_wq st = WRITE_LOG_SIZE.

Theorem hk_step_mu cap st t c n st' :
  HKInv cap st -> hk_step cap st t c n = Some st' ->
  (mu st' < mu st)%nat \/ (is_full_retry st t /\ mu st' = (mu st + 4)%nat).
Proof.
  intros I. rewrite hk_step_unfold.
  destruct (find_id t (h_threads st)) as [[[|op rest] p]|] eqn:F; try discriminate.
  cbv zeta. unfold mu.
  destruct p as [| |b|b| | |].
  1: destruct op.
  all: try (destruct (N.ltb_spec (h_wq st) WRITE_LOG_SIZE) as [Hlt|Hge]).
  all: repeat match goal with |- context [if ?c then _ else _] => destruct c end.
  all: repeat match goal with |- context [match ?c with Some _ => _ | None => _ end] => destruct c end.
  all: try discriminate.
  all: intros [= <-]; simpl.
  all: match goal with |- context [update_id _ (fun _ => ?y) _] =>
         pose proof (msum_update _ _ _ y F) as M end.
  all: unfold thr_mu in M; simpl in M.
  all: try (left; lia).
  right. split; [|lia]. split; [eauto|]. pose proof (inv_wq _ _ I). lia.
Qed.

(** A decreasing step of a thread that is not waiting for a held lock and is
    not about to retry on a full queue. *)
Lemma hk_step_decr cap st t op rest p :
  HKInv cap st ->
  find_id t (h_threads st) = Some (op :: rest, p) ->
  (forall b, p = PWantLock b -> h_lock st = None) ->
  (p = PSend -> h_wq st < WRITE_LOG_SIZE) ->
  exists st', hk_step cap st t true 0 = Some st' /\ (mu st' < mu st)%nat.
Proof.
  intros I F Hl Hs.
  destruct (hk_step_enabled cap st t op rest p true 0 F Hl) as [st' E].
  exists st'. split; [exact E|].
  destruct (hk_step_mu _ _ _ _ _ _ I E) as [H|[[[ops F'] Hw] _]]; [exact H|].
  rewrite F in F'. injection F' as _ ->. specialize (Hs eq_refl). lia.
Qed.

(** With the queue full and both flag and lock free, a sender gets through by
    itself: retry, win the CAS, lock, drain, release, send. *)
Lemma hk_retry_cycle cap st t op rest :
  HKInv cap st ->
  find_id t (h_threads st) = Some (op :: rest, PSend) ->
  h_flag st = None -> h_lock st = None -> ~ h_wq st < WRITE_LOG_SIZE ->
  exists st', hk_run cap st (repeat (t, true, 0) 6) = Some st' /\ (mu st' < mu st)%nat.
Proof.
  intros I F Hf Hl Hw.
  assert (Hltb : (h_wq st <? WRITE_LOG_SIZE) = false) by (apply N.ltb_ge; lia).
  assert (H0 : (0 <? WRITE_LOG_SIZE) = true) by (apply N.ltb_lt, log_size_pos).
  cbn [repeat hk_run].
  rewrite hk_step_unfold, F. cbv zeta. rewrite Hltb.
  rewrite hk_step_unfold. cbn [h_threads h_flag h_lock h_wq h_inflight h_resident h_adm].
  rewrite (find_update_same _ _ _ _ F). cbv zeta.
  replace (should_apply (h_wq st) true) with true by reflexivity. rewrite Hf.
  rewrite update_update.
  rewrite hk_step_unfold. cbn [h_threads h_flag h_lock h_wq h_inflight h_resident h_adm].
  rewrite (find_update_same _ _ _ _ F). cbv zeta. rewrite Hl. rewrite update_update.
  rewrite hk_step_unfold. cbn [h_threads h_flag h_lock h_wq h_inflight h_resident h_adm].
  rewrite (find_update_same _ _ _ _ F). cbv zeta. rewrite update_update.
  rewrite hk_step_unfold. cbn [h_threads h_flag h_lock h_wq h_inflight h_resident h_adm].
  rewrite (find_update_same _ _ _ _ F). cbv zeta. rewrite update_update.
  rewrite hk_step_unfold. cbn [h_threads h_flag h_lock h_wq h_inflight h_resident h_adm].
  rewrite (find_update_same _ _ _ _ F). cbv zeta. rewrite H0. rewrite update_update.
  eexists. split; [reflexivity|].
  unfold mu. cbn [h_threads].
  pose proof (msum_update t _ _ (op :: rest, PDone) F) as M.
  unfold thr_mu in M. simpl in M. lia.
Qed.

(** From every non-final state satisfying the invariant some finite schedule
    strictly decreases [mu]. *)
Lemma hk_progress cap st :
  HKInv cap st -> hk_finished st = false ->
  exists s st', hk_run cap st s = Some st' /\ (mu st' < mu st)%nat.
Proof.
  intros I Hfin.
  assert (one : forall t st', hk_step cap st t true 0 = Some st' /\ (mu st' < mu st)%nat ->
                exists s st', hk_run cap st s = Some st' /\ (mu st' < mu st)%nat).
  { intros t st' [E M]. exists [(t, true, 0)], st'. simpl. rewrite E. auto. }
  destruct (h_lock st) as [h|] eqn:El.
  - (* run the lock holder *)
    destruct (hk_lock_holder _ _ _ I El) as (ops & p & F & H).
    destruct ops as [|op rest]; [rewrite (inv_idle _ _ I _ _ F) in H; discriminate|].
    destruct (hk_step_decr cap st h op rest p I F) as [st' R].
    + intros b ->. discriminate.
    + intros ->. discriminate.
    + eapply one; eauto.
  - destruct (hk_unfinished_thread _ _ I Hfin) as (t & op & rest & p & F).
    destruct (N.ltb_spec (h_wq st) WRITE_LOG_SIZE) as [Hlt|Hge].
    + destruct (hk_step_decr cap st t op rest p I F) as [st' R]; eauto.
    + destruct (h_flag st) as [g|] eqn:Ef.
      * (* run the flag holder: it is at PWantLock true or PRelease *)
        destruct (hk_flag_holder _ _ _ I Ef) as (ops & q & G & H).
        destruct ops as [|op' rest']; [rewrite (inv_idle _ _ I _ _ G) in H; discriminate|].
        destruct (hk_step_decr cap st g op' rest' q I G) as [st' R]; eauto.
        intros ->. discriminate.
      * destruct p as [| |b|b| | |].
        6: { (* PSend on a full queue, flag and lock free *)
          destruct (hk_retry_cycle cap st t op rest I F Ef El) as (st' & R & M); [lia|eauto]. }
        all: destruct (hk_step_decr cap st t op rest _ I F) as [st' R]; eauto; discriminate.
Qed.

(** ** Termination, part 1: a finishing schedule exists from every reachable
    state (in particular: no deadlock, and no state from which livelock is
    unavoidable). *)
Lemma hk_inv_can_finish cap st :
  HKInv cap st -> exists s st', hk_run cap st s = Some st' /\ hk_finished st' = true.
Proof.
  remember (mu st) as k eqn:Hk. revert st Hk.
  induction k as [k IH] using lt_wf_ind. intros st Hk I.
  destruct (hk_finished st) eqn:Hfin.
  - exists [], st. auto.
  - destruct (hk_progress _ _ I Hfin) as (s1 & st1 & R1 & M).
    destruct (IH (mu st1) ltac:(lia) st1 eq_refl (hk_inv_run _ _ _ _ I R1)) as (s2 & st2 & R2 & F2).
    exists (s1 ++ s2), st2. rewrite hk_run_app, R1. auto.
Qed.

Theorem hk_can_finish cap a0 progs st :
  a0 <= cap -> NoDup (map fst progs) -> hk_reachable cap a0 progs st ->
  exists s st', hk_run cap st s = Some st' /\ hk_finished st' = true.
Proof.
  intros Ha Hnd R. apply hk_inv_can_finish. eapply hk_inv_reachable; eauto.
Qed.

(** ** Trace acceptance: what an instrumented implementation can report *)
Inductive hact := HAcquire (t : N) | HRelease (t : N) | HLock (t : N) | HUnlock (t : N).

(** Monitor state: (flag holder, lock holder). *)
Notation mon := (option N * option N)%type.

Definition opt_is (o : option N) (t : N) : bool :=
  match o with Some u => N.eqb u t | None => false end.

(** EXECUTABLE. *)
Definition mon_step (m : mon) (a : hact) : option mon :=
  let '(f, l) := m in
  match a with
  | HAcquire t => match f with None => Some (Some t, l) | Some _ => None end
  | HRelease t => if opt_is f t && negb (opt_is l t) then Some (None, l) else None
  | HLock t => match l with None => Some (f, Some t) | Some _ => None end
  | HUnlock t => if opt_is l t then Some (f, None) else None
  end.

Fixpoint mon_run (m : mon) (tr : list hact) : option mon :=
  match tr with
  | [] => Some m
  | a :: tr' => match mon_step m a with Some m' => mon_run m' tr' | None => None end
  end.

Definition hk_accepts (tr : list hact) : bool :=
  match mon_run (None, None) tr with Some _ => true | None => false end.

Definition hk_accepts_quiescent (tr : list hact) : bool :=
  match mon_run (None, None) tr with Some (None, None) => true | _ => false end.

(** The action reported by the step that thread [t] takes in [st]. *)
Definition hk_emit (st : hstate) (t : N) (choice : bool) : list hact :=
  match find_id t (h_threads st) with
  | Some (_ :: _, p) =>
    match p with
    | PLoop => if should_apply (h_wq st) choice
               then match h_flag st with None => [HAcquire t] | Some _ => [] end
               else []
    | PWantLock _ => match h_lock st with None => [HLock t] | Some _ => [] end
    | PInSync _ => [HUnlock t]
    | PRelease => [HRelease t]
    | _ => []
    end
  | _ => []
  end.

Fixpoint hk_trace (cap : N) (st : hstate) (s : sched) : list hact :=
  match s with
  | [] => []
  | (t, c, n) :: s' =>
    match hk_step cap st t c n with
    | Some st' => hk_emit st t c ++ hk_trace cap st' s'
    | None => []
    end
  end.

Lemma mon_run_app m tr1 tr2 :
  mon_run m (tr1 ++ tr2) =
  match mon_run m tr1 with Some m' => mon_run m' tr2 | None => None end.
Proof.
  revert m. induction tr1 as [|a tr1 IH]; intros m; simpl; [reflexivity|].
  destruct (mon_step m a); auto.
Qed.

Lemma opt_is_same t : opt_is (Some t) t = true.
Proof. apply N.eqb_refl. Qed.

Lemma opt_is_true o t : opt_is o t = true <-> o = Some t.
Proof.
  destruct o as [u|]; simpl; [|split; discriminate].
  rewrite N.eqb_eq. split; congruence.
Qed.

Lemma opt_is_false o t : opt_is o t = false <-> o <> Some t.
Proof. rewrite <- opt_is_true. destruct (opt_is o t); split; congruence. Qed.

Lemma hk_step_mon cap st t c n st' :
  HKInv cap st -> hk_step cap st t c n = Some st' ->
  mon_run (h_flag st, h_lock st) (hk_emit st t c) = Some (h_flag st', h_lock st').
Proof.
  intros I. rewrite hk_step_unfold. unfold hk_emit.
  destruct (find_id t (h_threads st)) as [[[|op rest] p]|] eqn:F; try discriminate.
  pose proof (inv_flag _ _ I _ _ _ F) as Hft.
  pose proof (inv_lock _ _ I _ _ _ F) as Hlt.
  cbv zeta.
  destruct p as [| |b|b| | |].
  - destruct op; intros [= <-]; reflexivity.
  - destruct (should_apply _ _); [destruct (h_flag st) eqn:Ef|]; intros [= <-]; simpl;
      rewrite ?Ef; reflexivity.
  - destruct (h_lock st) eqn:El; [discriminate|]. intros [= <-]. simpl. reflexivity.
  - intros [= <-]. simpl. destruct Hlt as [Hlt _]. rewrite (Hlt eq_refl), opt_is_same. reflexivity.
  - intros [= <-]. simpl. destruct Hft as [Hft _]. rewrite (Hft eq_refl), opt_is_same.
    destruct (opt_is (h_lock st) t) eqn:E; [|reflexivity].
    apply opt_is_true in E. apply Hlt in E. discriminate.
  - destruct (_ <? _); intros [= <-]; reflexivity.
  - intros [= <-]; reflexivity.
Qed.

Lemma hk_run_mon cap st s st' :
  HKInv cap st -> hk_run cap st s = Some st' ->
  mon_run (h_flag st, h_lock st) (hk_trace cap st s) = Some (h_flag st', h_lock st').
Proof.
  revert st. induction s as [|[[t c] n] s IH]; intros st I; simpl.
  - intros [= <-]. reflexivity.
  - destruct (hk_step cap st t c n) as [st1|] eqn:E; [|discriminate].
    intros R. rewrite mon_run_app, (hk_step_mon _ _ _ _ _ _ I E).
    apply IH; [|exact R]. eapply hk_inv_step; eauto.
Qed.

(** The projection of every run is accepted; the projection of a complete run
    is accepted as quiescent. *)
Theorem hk_accepts_sound cap a0 progs s st :
  a0 <= cap -> NoDup (map fst progs) ->
  hk_run cap (hk_init a0 progs) s = Some st ->
  hk_accepts (hk_trace cap (hk_init a0 progs) s) = true.
Proof.
  intros Ha Hnd R. unfold hk_accepts.
  pose proof (hk_run_mon _ _ _ _ (hk_inv_init _ _ _ Ha Hnd) R) as M. simpl in M.
  rewrite M. reflexivity.
Qed.

Theorem hk_accepts_quiescent_sound cap a0 progs s st :
  a0 <= cap -> NoDup (map fst progs) ->
  hk_run cap (hk_init a0 progs) s = Some st -> hk_finished st = true ->
  hk_accepts_quiescent (hk_trace cap (hk_init a0 progs) s) = true.
Proof.
  intros Ha Hnd R Hfin. unfold hk_accepts_quiescent.
  pose proof (hk_inv_init _ _ _ Ha Hnd) as I0.
  pose proof (hk_run_mon _ _ _ _ I0 R) as M. simpl in M. rewrite M.
  destruct (hk_inv_flag_released _ _ (hk_inv_run _ _ _ _ I0 R) Hfin) as [-> ->]. reflexivity.
Qed.

(** The monitor accepts exactly the traces that respect the protocol:
    an explicit characterisation of one monitor step. *)
Lemma mon_step_spec f l a m' :
  mon_step (f, l) a = Some m' <->
  match a with
  | HAcquire t => f = None /\ m' = (Some t, l)
  | HRelease t => f = Some t /\ l <> Some t /\ m' = (None, l)
  | HLock t => l = None /\ m' = (f, Some t)
  | HUnlock t => l = Some t /\ m' = (f, None)
  end.
Proof.
  destruct a as [t|t|t|t]; simpl.
  - destruct f; split; try discriminate; intuition congruence.
  - destruct (opt_is f t) eqn:Ef; destruct (opt_is l t) eqn:El; simpl;
      rewrite ?opt_is_true, ?opt_is_false in *.
    + split; [discriminate|]. intros (_ & H & _). contradiction.
    + split; [intros [= <-]; auto|]. intros (_ & _ & ->). reflexivity.
    + split; [discriminate|]. intros (H & _). contradiction.
    + split; [discriminate|]. intros (H & _). contradiction.
  - destruct l; split; try discriminate; intuition congruence.
  - destruct (opt_is l t) eqn:El; split; try discriminate.
    + apply opt_is_true in El. intros [= <-]. auto.
    + intros [_ ->]. reflexivity.
    + intros [H _]. apply opt_is_true in H. congruence.
Qed.

(** Examples *)
Example hk_accepts_ex1 :
  hk_accepts_quiescent
    [HAcquire 1; HLock 2; HUnlock 2; HLock 1; HUnlock 1; HRelease 1; HLock 2; HUnlock 2] = true.
Proof. vm_compute. reflexivity. Qed.

Example hk_accepts_ex2 : (* two simultaneous flag holders *)
  hk_accepts [HAcquire 1; HAcquire 2; HLock 1; HUnlock 1; HRelease 1] = false.
Proof. vm_compute. reflexivity. Qed.

Example hk_accepts_ex3 : (* flag released while still holding the lock *)
  hk_accepts [HAcquire 1; HLock 1; HRelease 1; HUnlock 1] = false.
Proof. vm_compute. reflexivity. Qed.

Example hk_accepts_ex4 : (* two simultaneous lock holders *)
  hk_accepts [HAcquire 1; HLock 1; HLock 2] = false.
Proof. vm_compute. reflexivity. Qed.

Example hk_accepts_ex5 : (* accepted but not quiescent: flag never released *)
  (hk_accepts [HAcquire 1; HLock 1; HUnlock 1],
   hk_accepts_quiescent [HAcquire 1; HLock 1; HUnlock 1]) = (true, false).
Proof. vm_compute. reflexivity. Qed.

(** An executed interleaving of two inserting threads and an explicit sync. *)
Definition ex_progs : list (N * list hop) := [(1, [HInsert]); (2, [HInsert]); (3, [HSync])].
Definition ex_sched : sched :=
  [(1, true, 0); (2, true, 0); (3, true, 0); (1, true, 0); (2, true, 0); (3, true, 0);
   (2, true, 0); (2, true, 0); (3, true, 9); (1, true, 0); (1, true, 9); (3, true, 0);
   (1, true, 0); (1, true, 0); (1, true, 0)].

Example hk_run_ex :
  (hk_trace 10 (hk_init 0 ex_progs) ex_sched,
   option_map (fun st => (hk_finished st, h_wq st, h_resident st, h_adm st))
              (hk_run 10 (hk_init 0 ex_progs) ex_sched))
  = ([HAcquire 1; HLock 3; HUnlock 3; HLock 1; HUnlock 1; HRelease 1],
     Some (true, 1, 2, 1)).
Proof. vm_compute. reflexivity. Qed.

(** ** Termination, part 2: every fair scheduler finishes.

    A finer, lexicographic measure [phi = (U, mode, R)]:
    - [U]: operations not yet completed (an insert completes when its write op
      is in the channel, an explicit sync when its drain is done);
    - [mode]: 0 when the queue is not full; when it is full: 1 if the flag is
      held by a thread that is going to drain, 2 if the flag is free, 3 if the
      flag is held by a thread that has already drained (at [PRelease]);
    - [R]: sum of per-thread ranks; the rank of [PSend] depends on the mode.
    Every step is non-increasing in [phi]; the only steps that leave [phi]
    unchanged are Full retries and lost CASes while the queue is full and
    ANOTHER thread holds the flag. *)
Fixpoint gsum (g : thread -> nat) (l : list (N * thread)) : nat :=
  match l with
  | [] => 0%nat
  | e :: r => (g (snd e) + gsum g r)%nat
  end.

Lemma gsum_update g t l x y :
  find_id t l = Some x ->
  (gsum g (update_id t (fun _ => y) l) + g x = gsum g l + g y)%nat.
Proof.
  induction l as [|[m a] r IH]; simpl; [discriminate|].
  destruct (N.eqb m t); simpl.
  - intros [= ->]. lia.
  - intros H. specialize (IH H). lia.
Qed.

Definition u_thr (x : thread) : nat :=
  match snd x with PDone => (length (fst x) - 1)%nat | _ => length (fst x) end.

Definition rank (m : nat) (p : pc) : nat :=
  match p with
  | PDone => 9 | PIdle => 8 | PLoop => 7 | PWantLock _ => 6 | PInSync _ => 5 | PRelease => 4
  | PSend => match m with 0 => 3 | 2 => 8 | _ => 7 end
  end%nat.

Definition is_rel (p : pc) : bool := match p with PRelease => true | _ => false end.

Definition hmode (st : hstate) : nat :=
  if WRITE_LOG_SIZE <=? h_wq st then
    match h_flag st with
    | None => 2%nat
    | Some _ => (1 + 2 * cnt is_rel (h_threads st))%nat
    end
  else 0%nat.

Definition phi (st : hstate) : nat * nat * nat :=
  (gsum u_thr (h_threads st), hmode st, gsum (fun x => rank (hmode st) (snd x)) (h_threads st)).

Definition lt3 (x y : nat * nat * nat) : Prop :=
  let '(a, b, c) := x in let '(a', b', c') := y in
  (a < a' \/ (a = a' /\ b < b') \/ (a = a' /\ b = b' /\ c < c'))%nat.

Lemma lt3_wf : well_founded lt3.
Proof.
  intros [[a b] c]. revert b c.
  induction a as [a IHa] using lt_wf_ind. intros b.
  induction b as [b IHb] using lt_wf_ind. intros c.
  induction c as [c IHc] using lt_wf_ind.
  constructor. intros [[a' b'] c'] H. simpl in H.
  destruct H as [H|[[-> H]|(-> & -> & H)]]; auto.
Qed.

Lemma phi_update f' l' w' i' r' a' st t x y :
  find_id t (h_threads st) = Some x ->
  let st' := MkH f' l' w' i' r' a' (update_id t (fun _ => y) (h_threads st)) in
  (u_thr y < u_thr x \/
   (u_thr y = u_thr x /\
    (hmode st' < hmode st \/
     (hmode st' = hmode st /\ rank (hmode st) (snd y) < rank (hmode st) (snd x)))))%nat ->
  lt3 (phi st') (phi st).
Proof.
  intros F st' H. unfold phi, lt3.
  pose proof (gsum_update u_thr t _ _ y F) as EU.
  pose proof (gsum_update (fun x => rank (hmode st) (snd x)) t _ _ y F) as ER.
  cbn [h_threads st'] in *. fold st'.
  destruct H as [H|[H1 [H|[H2 H3]]]]; [lia|lia|].
  rewrite H2. cbv beta in ER. lia.
Qed.

Lemma phi_update_eq f' l' w' i' r' a' st t x y :
  find_id t (h_threads st) = Some x ->
  let st' := MkH f' l' w' i' r' a' (update_id t (fun _ => y) (h_threads st)) in
  u_thr y = u_thr x -> hmode st' = hmode st ->
  rank (hmode st) (snd y) = rank (hmode st) (snd x) ->
  phi st' = phi st.
Proof.
  intros F st' H1 H2 H3. unfold phi.
  pose proof (gsum_update u_thr t _ _ y F) as EU.
  pose proof (gsum_update (fun x => rank (hmode st) (snd x)) t _ _ y F) as ER.
  cbn [h_threads st'] in *. fold st'. rewrite H2. cbv beta in ER.
  f_equal; [f_equal|]; lia.
Qed.

Lemma hmode_eq f' l' w' i' r' a' st t ops p y :
  find_id t (h_threads st) = Some (ops, p) ->
  w' = h_wq st -> f' = h_flag st -> is_rel (snd y) = is_rel p ->
  hmode (MkH f' l' w' i' r' a' (update_id t (fun _ => y) (h_threads st))) = hmode st.
Proof.
  intros F -> -> H. unfold hmode. cbn [h_wq h_flag h_threads].
  pose proof (cnt_update is_rel t _ _ _ y F) as EC. rewrite H in EC.
  destruct (_ <=? _); [|reflexivity]. destruct (h_flag st); [|reflexivity]. lia.
Qed.

Lemma cnt_zero P l :
  NoDup (map fst l) ->
  (forall t ops p, find_id t l = Some (ops, p) -> P p = false) -> cnt P l = 0%nat.
Proof.
  induction l as [|[m [ops p]] r IH]; [reflexivity|].
  cbn [map fst]. intros Hnd H. apply NoDup_cons in Hnd as [Hni Hnd].
  cbn [cnt snd]. rewrite (H m ops p) by (simpl; rewrite N.eqb_refl; reflexivity).
  rewrite IH; [reflexivity|exact Hnd|].
  intros t o q F. apply (H t o q). simpl.
  destruct (N.eqb m t) eqn:E; [|exact F].
  apply N.eqb_eq in E. subst m. exfalso. apply Hni.
  apply elem_of_list_In. apply find_id_In in F.
  change t with (fst (t, (o, q))). apply in_map. exact F.
Qed.

Lemma hk_no_release_when_free cap st :
  HKInv cap st -> h_flag st = None -> cnt is_rel (h_threads st) = 0%nat.
Proof.
  intros I Hf. apply cnt_zero; [apply (inv_nodup _ _ I)|].
  intros t ops p F. destruct p; try reflexivity.
  apply (inv_flag _ _ I) in F. destruct F as [F _]. specialize (F eq_refl). congruence.
Qed.

(** A step that leaves [phi] unchanged: a lost CAS or a Full retry while the
    flag is held (necessarily by another thread). *)
Definition stutter_ok (st : hstate) (t : N) : Prop :=
  h_flag st <> None /\
  exists ops p, find_id t (h_threads st) = Some (ops, p) /\ (p = PLoop \/ p = PSend).

Lemma should_apply_full w c : WRITE_LOG_SIZE <= w -> should_apply w c = true.
Proof.
  intros H. unfold should_apply. apply orb_true_iff. right. apply N.leb_le.
  pose proof flush_point_le_size. lia.
Qed.

Theorem hk_step_phi cap st t c n st' :
  HKInv cap st -> hk_step cap st t c n = Some st' ->
  lt3 (phi st') (phi st) \/
  (phi st' = phi st /\ h_flag st' = h_flag st /\ h_lock st' = h_lock st /\ stutter_ok st t).
Proof.
  intros I. rewrite hk_step_unfold.
  destruct (find_id t (h_threads st)) as [[[|op rest] p]|] eqn:F; try discriminate.
  pose proof (inv_flag _ _ I _ _ _ F) as Hft.
  cbv zeta.
  destruct p as [| |b|b| | |].
  - (* PIdle *)
    destruct op; intros [= <-]; left; (eapply phi_update; [exact F|]);
      right; (split; [reflexivity|]); right;
      (split; [eapply hmode_eq; eauto|]); simpl; lia.
  - (* PLoop *)
    destruct (should_apply (h_wq st) c) eqn:Esa; [destruct (h_flag st) as [g|] eqn:Ef|].
    + (* lost CAS *)
      intros [= <-].
      assert (Hm : hmode (MkH (Some g) (h_lock st) (h_wq st) (h_inflight st) (h_resident st)
                     (h_adm st) (update_id t (fun _ => (op :: rest, PSend)) (h_threads st)))
                   = hmode st) by (eapply hmode_eq; eauto).
      destruct (hmode st) as [|[|[|m]]] eqn:Em.
      * left. eapply phi_update; [exact F|].
        right. split; [reflexivity|]. right. rewrite Em. split; [exact Hm|].
        simpl. lia.
      * right. split; [|split; [reflexivity|split; [reflexivity|]]].
        -- eapply phi_update_eq; [exact F|..]; rewrite ?Em; try reflexivity. exact Hm.
        -- split; [congruence|eauto].
      * exfalso. unfold hmode in Em. rewrite Ef in Em. destruct (_ <=? _); lia.
      * right. split; [|split; [reflexivity|split; [reflexivity|]]].
        -- eapply phi_update_eq; [exact F|..]; rewrite ?Em; try reflexivity. exact Hm.
        -- split; [congruence|eauto].
    + (* CAS won *)
      intros [= <-]. left. eapply phi_update; [exact F|].
      right. split; [reflexivity|].
      pose proof (hk_no_release_when_free _ _ I Ef) as Z.
      pose proof (cnt_update is_rel t _ _ _ (op :: rest, PWantLock true) F) as EC.
      unfold hmode. cbn [h_wq h_flag h_threads]. rewrite Ef.
      destruct (_ <=? _).
      * left. simpl in EC. lia.
      * right. split; [reflexivity|]. simpl. lia.
    + (* maintenance skipped: the queue is below the flush point, hence not full *)
      intros [= <-]. left. eapply phi_update; [exact F|].
      right. split; [reflexivity|]. right.
      split; [eapply hmode_eq; eauto|].
      assert (Em : hmode st = 0%nat).
      { unfold hmode. destruct (N.leb_spec WRITE_LOG_SIZE (h_wq st)) as [Hle|]; [|reflexivity].
        rewrite (should_apply_full _ c Hle) in Esa. discriminate. }
      rewrite Em. simpl. lia.
  - (* PWantLock *)
    destruct (h_lock st) as [h|] eqn:El; [discriminate|].
    intros [= <-]. left. eapply phi_update; [exact F|].
    right. split; [reflexivity|]. right.
    split; [eapply hmode_eq; eauto; destruct b; reflexivity|]. simpl. lia.
  - (* PInSync *)
    intros [= <-]. left. destruct b.
    + eapply phi_update; [exact F|].
      right. split; [reflexivity|].
      assert (Hm' : forall f l i r a ths, hmode (MkH f l 0 i r a ths) = 0%nat).
      { intros. unfold hmode. cbn [h_wq].
        destruct (N.leb_spec WRITE_LOG_SIZE 0) as [Hle|]; [|reflexivity].
        pose proof log_size_pos. lia. }
      rewrite Hm'. destruct (hmode st) eqn:Em; [right|left; lia].
      split; [reflexivity|]. simpl. lia.
    + eapply phi_update; [exact F|].
      left. unfold u_thr. simpl. lia.
  - (* PRelease *)
    intros [= <-]. left. eapply phi_update; [exact F|].
    right. split; [reflexivity|].
    destruct Hft as [Hft _]. specialize (Hft eq_refl).
    pose proof (cnt_pos is_rel _ _ _ _ F eq_refl) as Hpos.
    unfold hmode. cbn [h_wq h_flag h_threads]. rewrite Hft.
    destruct (_ <=? _).
    + left. lia.
    + right. split; [reflexivity|]. simpl. lia.
  - (* PSend *)
    destruct (N.ltb_spec (h_wq st) WRITE_LOG_SIZE) as [Hlt|Hge]; intros [= <-].
    + left. eapply phi_update; [exact F|].
      left. unfold u_thr. simpl. lia.
    + assert (Hm : hmode (MkH (h_flag st) (h_lock st) (h_wq st) (h_inflight st) (h_resident st)
                     (h_adm st) (update_id t (fun _ => (op :: rest, PLoop)) (h_threads st)))
                   = hmode st) by (eapply hmode_eq; eauto).
      assert (Hfull : (WRITE_LOG_SIZE <=? h_wq st) = true) by (apply N.leb_le; exact Hge).
      destruct (h_flag st) as [g|] eqn:Ef.
      * right. split; [|split; [reflexivity|split; [reflexivity|]]].
        -- eapply phi_update_eq; [exact F|..]; try reflexivity.
           ++ rewrite Hm. reflexivity.
           ++ unfold hmode. rewrite Hfull, Ef.
              replace (1 + 2 * cnt is_rel (h_threads st))%nat
                with (S (2 * cnt is_rel (h_threads st)))%nat by lia.
              simpl. destruct (cnt is_rel (h_threads st)) as [|k]; [reflexivity|].
              replace (S k + (S k + 0))%nat with (S (S (k + k)))%nat by lia. reflexivity.
        -- split; [congruence|eauto].
      * left. eapply phi_update; [exact F|].
        right. split; [reflexivity|]. right. split; [rewrite Hm; reflexivity|].
        unfold hmode. rewrite Hfull, Ef. simpl. lia.
  - (* PDone *)
    intros [= <-]. left. eapply phi_update; [exact F|].
    right. split; [unfold u_thr; simpl; lia|]. right.
    split; [eapply hmode_eq; eauto|]. simpl. lia.
Qed.

(** The thread whose next step is certain to decrease [phi]: the lock holder;
    else the flag holder; else (flag and lock free) any unfinished thread. *)
Definition helper (st : hstate) (h : N) : Prop :=
  h_lock st = Some h \/
  (h_lock st = None /\ h_flag st = Some h) \/
  (h_lock st = None /\ h_flag st = None /\
   exists op rest p, find_id h (h_threads st) = Some (op :: rest, p)).

Lemma helper_exists cap st :
  HKInv cap st -> hk_finished st = false -> exists h, helper st h.
Proof.
  intros I Hfin. unfold helper.
  destruct (h_lock st) as [h|]; [eauto|].
  destruct (h_flag st) as [g|]; [eauto|].
  destruct (hk_unfinished_thread _ _ I Hfin) as (t & op & rest & p & F).
  exists t. right. right. eauto 10.
Qed.

Lemma helper_known cap st h :
  HKInv cap st -> helper st h ->
  exists op rest p, find_id h (h_threads st) = Some (op :: rest, p) /\
    (forall b, p = PWantLock b -> h_lock st = None) /\
    (h_flag st = None \/ (p <> PLoop /\ p <> PSend)).
Proof.
  intros I [Hl|[[Hl Hf]|(Hl & Hf & op & rest & p & F)]].
  - destruct (hk_lock_holder _ _ _ I Hl) as (ops & p & F & H).
    destruct ops as [|op rest]; [rewrite (inv_idle _ _ I _ _ F) in H; discriminate|].
    exists op, rest, p. split; [exact F|]. split.
    + intros b ->. discriminate.
    + right. split; intros ->; discriminate.
  - destruct (hk_flag_holder _ _ _ I Hf) as (ops & p & F & H).
    destruct ops as [|op rest]; [rewrite (inv_idle _ _ I _ _ F) in H; discriminate|].
    exists op, rest, p. split; [exact F|]. split.
    + intros; exact Hl.
    + right. split; intros ->; discriminate.
  - exists op, rest, p. split; [exact F|]. split; [intros; exact Hl|left; exact Hf].
Qed.

(** The helper is enabled whatever the scheduler's choices, and each of its
    steps strictly decreases [phi]. *)
Lemma helper_decr cap st h c n :
  HKInv cap st -> helper st h ->
  exists st', hk_step cap st h c n = Some st' /\ lt3 (phi st') (phi st).
Proof.
  intros I H.
  destruct (helper_known _ _ _ I H) as (op & rest & p & F & Hl & Hx).
  destruct (hk_step_enabled cap st h op rest p c n F Hl) as [st' E].
  exists st'. split; [exact E|].
  destruct (hk_step_phi _ _ _ _ _ _ I E) as [L|(_ & _ & _ & Hne & ops & q & F' & Hq)]; [exact L|].
  rewrite F in F'. injection F' as _ <-.
  destruct Hx as [Hf|[H1 H2]]; [contradiction|]. destruct Hq; contradiction.
Qed.

(** Steps of other threads either decrease [phi] or keep both [phi] and the helper. *)
Lemma helper_stable cap st h t c n st' :
  HKInv cap st -> helper st h -> hk_step cap st t c n = Some st' ->
  lt3 (phi st') (phi st) \/ (phi st' = phi st /\ helper st' h).
Proof.
  intros I H E.
  destruct (hk_step_phi _ _ _ _ _ _ I E) as [L|(P & Ef & El & Hne & _)]; [left; exact L|].
  right. split; [exact P|]. unfold helper in *. rewrite Ef, El.
  destruct H as [H|[H|(_ & H & _)]]; [auto|auto|contradiction].
Qed.

(** *** Schedulers.  An infinite scheduler picks a thread (and resolves the
    nondeterminism) at every tick; picking a blocked or finished thread is a
    no-op.  EXECUTABLE. *)
Fixpoint hk_exec (cap : N) (st : hstate) (sc : nat -> N * bool * N) (k : nat) : hstate :=
  match k with
  | O => st
  | S k' =>
    let s := hk_exec cap st sc k' in
    let '(t, c, n) := sc k' in
    match hk_step cap s t c n with Some s' => s' | None => s end
  end.

(** Fairness: every thread of the pool is picked again and again. *)
Definition fair_sched (ids : list N) (sc : nat -> N * bool * N) : Prop :=
  forall t, In t ids -> forall i, exists j, (i <= j)%nat /\ fst (fst (sc j)) = t.

Lemma hk_exec_add cap st sc k1 k2 :
  hk_exec cap st sc (k1 + k2) = hk_exec cap (hk_exec cap st sc k1) (fun i => sc (k1 + i)%nat) k2.
Proof.
  induction k2 as [|k2 IH]; [rewrite Nat.add_0_r; reflexivity|].
  rewrite Nat.add_succ_r. cbn [hk_exec]. rewrite IH. reflexivity.
Qed.

Lemma hk_exec_inv cap st sc k : HKInv cap st -> HKInv cap (hk_exec cap st sc k).
Proof.
  intros I. induction k as [|k IH]; [exact I|].
  cbn [hk_exec]. destruct (sc k) as [[t c] n].
  destruct (hk_step _ _ _ _ _) eqn:E; [|exact IH]. eapply hk_inv_step; eauto.
Qed.

Lemma hk_exec_ids cap st sc k :
  map fst (h_threads (hk_exec cap st sc k)) = map fst (h_threads st).
Proof.
  induction k as [|k IH]; [reflexivity|].
  cbn [hk_exec]. destruct (sc k) as [[t c] n].
  destruct (hk_step _ _ _ _ _) eqn:E; [|exact IH].
  apply hk_step_threads in E as [x ->]. rewrite map_fst_update. exact IH.
Qed.

Lemma fair_shift ids sc k : fair_sched ids sc -> fair_sched ids (fun i => sc (k + i)%nat).
Proof.
  intros H t Ht i. destruct (H t Ht (k + i)%nat) as (j & Hj & E).
  exists (j - k)%nat. split; [lia|]. replace (k + (j - k))%nat with j by lia. exact E.
Qed.

(** If the helper is picked at tick [j], [phi] has decreased at some tick [<= j+1]. *)
Lemma helper_progress cap h j : forall st sc,
  HKInv cap st -> helper st h -> fst (fst (sc j)) = h ->
  exists k, lt3 (phi (hk_exec cap st sc k)) (phi st).
Proof.
  induction j as [|j IH]; intros st sc I H Hj.
  - exists 1%nat. cbn [hk_exec]. destruct (sc 0%nat) as [[t c] n]. simpl in Hj. subst t.
    destruct (helper_decr cap st h c n I H) as (st' & -> & L). exact L.
  - destruct (sc 0%nat) as [[t c] n] eqn:E0.
    assert (Hshift : forall st1, hk_exec cap st sc 1 = st1 -> HKInv cap st1 ->
              phi st1 = phi st -> helper st1 h ->
              exists k, lt3 (phi (hk_exec cap st sc k)) (phi st)).
    { intros st1 E1 I1 P1 H1.
      destruct (IH st1 (fun i => sc (1 + i)%nat) I1 H1 Hj) as [k L].
      exists (1 + k)%nat. rewrite hk_exec_add, E1, <- P1. exact L. }
    destruct (hk_step cap st t c n) as [st'|] eqn:E.
    + assert (E1 : hk_exec cap st sc 1 = st') by (cbn [hk_exec]; rewrite E0, E; reflexivity).
      destruct (helper_stable _ _ _ _ _ _ _ I H E) as [L|[P H']].
      * exists 1%nat. rewrite E1. exact L.
      * apply (Hshift st' E1); auto. eapply hk_inv_step; eauto.
    + assert (E1 : hk_exec cap st sc 1 = st) by (cbn [hk_exec]; rewrite E0, E; reflexivity).
      apply (Hshift st E1); auto.
Qed.

Lemma hk_inv_terminates cap : forall st sc,
  HKInv cap st -> fair_sched (map fst (h_threads st)) sc ->
  exists k, hk_finished (hk_exec cap st sc k) = true.
Proof.
  intros st. remember (phi st) as x eqn:Hx. revert st Hx.
  induction x as [x IH] using (well_founded_induction lt3_wf).
  intros st -> sc I Hfair.
  destruct (hk_finished st) eqn:Hfin; [exists 0%nat; exact Hfin|].
  destruct (helper_exists _ _ I Hfin) as [h H].
  destruct (helper_known _ _ _ I H) as (op & rest & p & F & _).
  assert (Hin : In h (map fst (h_threads st))).
  { apply find_id_In in F. change h with (fst (h, (op :: rest, p))). apply in_map. exact F. }
  destruct (Hfair h Hin 0%nat) as (j & _ & Hj).
  destruct (helper_progress cap h j st sc I H Hj) as [k L].
  destruct (IH _ L (hk_exec cap st sc k) eq_refl (fun i => sc (k + i)%nat)) as [k' Hk'].
  - apply hk_exec_inv. exact I.
  - rewrite hk_exec_ids. apply fair_shift. exact Hfair.
  - exists (k + k')%nat. rewrite hk_exec_add. exact Hk'.
Qed.

Lemma hk_run_ids cap s : forall st st',
  hk_run cap st s = Some st' -> map fst (h_threads st') = map fst (h_threads st).
Proof.
  induction s as [|[[t c] n] s IH]; intros st st'; simpl.
  - intros [= <-]. reflexivity.
  - destruct (hk_step cap st t c n) as [st1|] eqn:E; [|discriminate].
    intros H. rewrite (IH _ _ H). apply hk_step_threads in E as [x ->]. apply map_fst_update.
Qed.

(** Under every fair scheduler (whatever it chooses for the clock condition
    and for the outcome of the drains) all threads finish, and then the flag
    and the lock are free. *)
Theorem hk_terminates cap a0 progs st sc :
  a0 <= cap -> NoDup (map fst progs) -> hk_reachable cap a0 progs st ->
  fair_sched (map fst progs) sc ->
  exists k, let st' := hk_exec cap st sc k in
    hk_finished st' = true /\ h_flag st' = None /\ h_lock st' = None.
Proof.
  intros Ha Hnd R Hfair.
  pose proof (hk_inv_reachable _ _ _ _ Ha Hnd R) as I.
  assert (Hids : map fst (h_threads st) = map fst progs).
  { destruct R as [s Hs]. rewrite (hk_run_ids _ _ _ _ Hs). simpl.
    rewrite map_map. reflexivity. }
  destruct (hk_inv_terminates cap st sc I) as [k Hk]; [rewrite Hids; exact Hfair|].
  exists k. cbv zeta. split; [exact Hk|].
  apply hk_inv_flag_released with cap; [apply hk_exec_inv; exact I|exact Hk].
Qed.

(** The number of ticks is not bounded by the model (a fair scheduler may delay
    a thread arbitrarily long), but no tick is wasted without cause: *)
Corollary hk_no_livelock cap st t c n st' :
  HKInv cap st -> hk_step cap st t c n = Some st' ->
  phi st' = phi st ->
  (* the step was a lost CAS or a Full retry, the queue is full, and a DIFFERENT
     thread holds the flag and has an enabled, [phi]-decreasing step unless it
     waits for the lock, whose holder then has one *)
  WRITE_LOG_SIZE <= h_wq st /\
  exists g, g <> t /\ h_flag st = Some g /\
    exists h, helper st h /\ h <> t /\ (h = g \/ h_lock st = Some h).
Proof.
  intros I E P.
  destruct (hk_step_phi _ _ _ _ _ _ I E) as [L|(_ & _ & _ & Hne & ops & p & F & Hp)].
  { exfalso. rewrite P in L. destruct (phi st) as [[a b] d]. simpl in L. lia. }
  destruct (h_flag st) as [g|] eqn:Ef; [|contradiction].
  assert (Hgt : g <> t).
  { intros ->. apply (inv_flag _ _ I) in F. destruct F as [_ F]. specialize (F Ef).
    destruct Hp as [-> | ->]; discriminate. }
  split.
  - (* the queue is full: otherwise the step would have decreased phi *)
    destruct (N.le_gt_cases WRITE_LOG_SIZE (h_wq st)) as [Hle|Hgt']; [exact Hle|].
    exfalso. revert E. rewrite hk_step_unfold, F.
    destruct ops as [|op rest]; [discriminate|]. cbv zeta.
    assert (Em : hmode st = 0%nat).
    { unfold hmode. destruct (N.leb_spec WRITE_LOG_SIZE (h_wq st)); [lia|reflexivity]. }
    destruct Hp as [-> | ->].
    + assert (G : forall y, y = Some st' -> y = Some (MkH (Some g) (h_lock st) (h_wq st) (h_inflight st)
                    (h_resident st) (h_adm st)
                    (update_id t (fun _ => (op :: rest, PSend)) (h_threads st))) -> False).
      { intros y -> [= ->].
        assert (L : lt3 (phi (MkH (Some g) (h_lock st) (h_wq st) (h_inflight st)
                    (h_resident st) (h_adm st)
                    (update_id t (fun _ => (op :: rest, PSend)) (h_threads st)))) (phi st)).
        { eapply phi_update; [exact F|]. right. split; [reflexivity|]. right.
          split; [eapply hmode_eq; eauto|]. rewrite Em. simpl. lia. }
        rewrite P in L. destruct (phi st) as [[a b] d]. simpl in L. lia. }
      rewrite Ef. destruct (should_apply _ _); intros E; eapply G; eauto.
    + destruct (N.ltb_spec (h_wq st) WRITE_LOG_SIZE); [|lia].
      intros [= <-].
      assert (L : lt3 (phi (MkH (h_flag st) (h_lock st) (h_wq st + 1) (h_inflight st - 1)
                    (h_resident st) (h_adm st)
                    (update_id t (fun _ => (op :: rest, PDone)) (h_threads st)))) (phi st)).
      { eapply phi_update; [exact F|]. left. unfold u_thr. simpl. lia. }
      rewrite P in L. destruct (phi st) as [[a b] d]. simpl in L. lia.
  - exists g. split; [exact Hgt|]. split; [reflexivity|].
    destruct (h_lock st) as [h|] eqn:El.
    + exists h. split; [left; exact El|]. split; [|right; reflexivity].
      intros ->. apply (inv_lock _ _ I) in F. destruct F as [_ F]. specialize (F El).
      destruct Hp as [-> | ->]; discriminate.
    + exists g. split; [right; left; auto|]. split; [exact Hgt|left; reflexivity].
Qed.
