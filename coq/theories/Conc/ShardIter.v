(** Iteration over a sharded map beside concurrent updaters.

    The map is split into shards and every key belongs statically to one shard
    ([sh : N -> nat], an arbitrary function).  An iterator visits the shards in
    the order 0, 1, ..., n-1 and holds the read lock of a shard while it lists
    it, so the listing of one shard is atomic with respect to the writers of
    that shard.  Other threads update the values of EXISTING keys in place at
    any moment between two steps of the iterator.

    A trace is an arbitrary list of atomic actions: any number of updater
    threads, any keys, any interleaving with the iterator's listing steps.
    (Updater threads need no identity here: an update is an update.) *)
From MM Require Import Base.Prelude.

Inductive sact :=
| SUpdate (k v : N)        (* a writer thread updates the value of key k (takes effect only if k is present) *)
| SList.                   (* the iterator lists its current shard atomically and moves to the next one *)

Record istate := {
  is_map : gmap N N;
  is_next : nat;              (* next shard to list *)
  is_out : list (N * N)       (* yielded so far *)
}.

(** The entries of shard [i], in [map_to_list] order. *)
Definition shard_entries (sh : N -> nat) (i : nat) (m : gmap N N) : list (N * N) :=
  filter (fun kv => sh kv.1 = i) (map_to_list m).

Definition s_update (m : gmap N N) (k v : N) : gmap N N :=
  match m !! k with Some _ => <[k:=v]> m | None => m end.

Definition s_step (sh : N -> nat) (st : istate) (a : sact) : istate :=
  match a with
  | SUpdate k v =>
      {| is_map := s_update (is_map st) k v; is_next := is_next st; is_out := is_out st |}
  | SList =>
      {| is_map := is_map st;
         is_next := S (is_next st);
         is_out := is_out st ++ shard_entries sh (is_next st) (is_map st) |}
  end.

Fixpoint s_run (sh : N -> nat) (st : istate) (tr : list sact) : istate :=
  match tr with
  | [] => st
  | a :: r => s_run sh (s_step sh st a) r
  end.

Fixpoint count_lists (tr : list sact) : nat :=
  match tr with
  | [] => O
  | SList :: r => S (count_lists r)
  | SUpdate _ _ :: r => count_lists r
  end.

Definition s_init (m0 : gmap N N) : istate :=
  {| is_map := m0; is_next := O; is_out := [] |}.

Section iter.
Context (sh : N -> nat).

(** * Basic facts *)

Lemma s_run_app st tr1 tr2 :
  s_run sh st (tr1 ++ tr2) = s_run sh (s_run sh st tr1) tr2.
Proof. revert st. induction tr1 as [|a tr1 IH]; intros st; [done|]. cbn. apply IH. Qed.

Lemma s_update_dom m k v : dom (s_update m k v) = dom m.
Proof.
  unfold s_update. destruct (m !! k) as [w|] eqn:E; [|done].
  rewrite dom_insert_L. apply elem_of_dom_2 in E. set_solver.
Qed.

Lemma s_step_dom st a : dom (is_map (s_step sh st a)) = dom (is_map st).
Proof. destruct a; cbn; [apply s_update_dom|done]. Qed.

(** Updates never add or remove keys: the key set is constant. *)
Theorem s_run_dom st tr : dom (is_map (s_run sh st tr)) = dom (is_map st).
Proof.
  revert st. induction tr as [|a tr IH]; intros st; [done|].
  cbn. rewrite IH. apply s_step_dom.
Qed.

Lemma s_run_next st tr : is_next (s_run sh st tr) = (is_next st + count_lists tr)%nat.
Proof.
  revert st. induction tr as [|a tr IH]; intros st; cbn; [lia|].
  rewrite IH. destruct a; cbn; lia.
Qed.

Lemma elem_of_shard_entries i m k v :
  (k, v) ∈ shard_entries sh i m <-> m !! k = Some v /\ sh k = i.
Proof.
  unfold shard_entries. rewrite elem_of_list_filter, elem_of_map_to_list. cbn. tauto.
Qed.

Lemma elem_of_shard_entries_fst i m k :
  k ∈ (shard_entries sh i m).*1 <-> is_Some (m !! k) /\ sh k = i.
Proof.
  rewrite elem_of_list_fmap. split.
  - intros ([k' v] & -> & H). apply elem_of_shard_entries in H as [H1 H2]. cbn. eauto.
  - intros [[v Hv] Hs]. exists (k, v). split; [done|]. by apply elem_of_shard_entries.
Qed.

Lemma NoDup_fst_filter (P : N * N -> Prop) `{!forall x, Decision (P x)} (l : list (N * N)) :
  NoDup l.*1 -> NoDup (filter P l).*1.
Proof.
  induction l as [|x l IH]; [done|]. rewrite fmap_cons, NoDup_cons. intros [Hx Hl].
  rewrite filter_cons. destruct (decide (P x)); [|auto].
  rewrite fmap_cons. apply NoDup_cons. split; [|auto].
  intros (y & Hy & Hin)%elem_of_list_fmap. apply elem_of_list_filter in Hin as [_ Hin].
  apply Hx. apply elem_of_list_fmap. eauto.
Qed.

Lemma NoDup_shard_entries_fst i m : NoDup (shard_entries sh i m).*1.
Proof. apply NoDup_fst_filter, NoDup_fst_map_to_list. Qed.

(** * The invariant

    With [D] the (constant) key set: the keys yielded so far are exactly the
    keys of the shards already listed, each yielded once. *)
Record iter_inv (D : gset N) (st : istate) : Prop := {
  inv_dom : dom (is_map st) = D;
  inv_nodup : NoDup (is_out st).*1;
  inv_sound : forall k, k ∈ (is_out st).*1 -> k ∈ D /\ (sh k < is_next st)%nat;
  inv_complete : forall k, k ∈ D -> (sh k < is_next st)%nat -> k ∈ (is_out st).*1
}.

Lemma iter_inv_init m0 : iter_inv (dom m0) (s_init m0).
Proof.
  split; cbn; [done|constructor| |]; intros k H; [by apply elem_of_nil in H|lia].
Qed.

Lemma iter_inv_step D st a : iter_inv D st -> iter_inv D (s_step sh st a).
Proof.
  intros [Hd Hn Hs Hc]. destruct a as [k v|].
  - split; cbn; [by rewrite s_update_dom|done..].
  - split; cbn.
    + done.
    + rewrite fmap_app. apply NoDup_app. split; [done|]. split.
      * intros k Hk Hk'. apply Hs in Hk as [_ Hk].
        apply elem_of_shard_entries_fst in Hk' as [_ Hk']. lia.
      * apply NoDup_shard_entries_fst.
    + intros k. rewrite fmap_app, elem_of_app. intros [Hk|Hk].
      * apply Hs in Hk as [? ?]. split; [done|lia].
      * apply elem_of_shard_entries_fst in Hk as [Hk ?].
        split; [|lia]. rewrite <- Hd. by apply elem_of_dom.
    + intros k Hk Hlt. rewrite fmap_app, elem_of_app.
      destruct (decide (sh k = is_next st)) as [Heq|Hne].
      * right. apply elem_of_shard_entries_fst. split; [|done].
        apply elem_of_dom. by rewrite Hd.
      * left. apply Hc; [done|lia].
Qed.

Lemma iter_inv_run D st tr : iter_inv D st -> iter_inv D (s_run sh st tr).
Proof.
  revert st. induction tr as [|a tr IH]; intros st H; [done|].
  cbn. apply IH, iter_inv_step, H.
Qed.

(** A yielded pair was in the output already or was current at some moment of
    the run. *)
Lemma s_run_out_current st tr k v :
  (k, v) ∈ is_out (s_run sh st tr) ->
  (k, v) ∈ is_out st \/
  exists tr1 tr2, tr = tr1 ++ tr2 /\ is_map (s_run sh st tr1) !! k = Some v.
Proof.
  revert st. induction tr as [|a tr IH]; intros st; cbn; [auto|].
  intros H. apply IH in H as [H|(tr1 & tr2 & -> & H)].
  - destruct a as [k' v'|]; cbn in H; [auto|].
    apply elem_of_app in H as [H|H]; [auto|].
    apply elem_of_shard_entries in H as [H _].
    right. exists [], (SList :: tr). done.
  - right. exists (a :: tr1), tr2. done.
Qed.

(** * The theorems: a full iteration of [n] shards beside arbitrary updates *)

Section full.
Context (n : nat) (m0 : gmap N N) (tr : list sact).
Hypothesis sh_bound : forall k, (sh k < n)%nat.
Hypothesis tr_lists : count_lists tr = n.

Let final := s_run sh (s_init m0) tr.

Lemma final_inv : iter_inv (dom m0) final.
Proof. apply iter_inv_run, iter_inv_init. Qed.

Lemma final_next : is_next final = n.
Proof. unfold final. rewrite s_run_next. cbn. done. Qed.

(** No key is yielded twice. *)
Theorem iter_no_duplicates : NoDup (is_out final).*1.
Proof. apply final_inv. Qed.

(** Every key of the map is yielded (hence, with [iter_no_duplicates],
    exactly once), whatever the updaters do meanwhile. *)
Theorem iter_complete k : is_Some (m0 !! k) -> k ∈ (is_out final).*1.
Proof.
  intros Hk. apply (inv_complete _ _ final_inv); [by apply elem_of_dom|].
  rewrite final_next. apply sh_bound.
Qed.

(** Only keys of the map are yielded. *)
Theorem iter_only_residents k : k ∈ (is_out final).*1 -> is_Some (m0 !! k).
Proof. intros Hk. apply (inv_sound _ _ final_inv) in Hk as [Hk _]. by apply elem_of_dom. Qed.

(** Every yielded value was the current value of its key at some moment during
    the iteration. *)
Theorem iter_value_was_current k v :
  (k, v) ∈ is_out final ->
  exists tr1 tr2, tr = tr1 ++ tr2 /\ is_map (s_run sh (s_init m0) tr1) !! k = Some v.
Proof.
  intros H. apply s_run_out_current in H as [H|H]; [|done].
  cbn in H. by apply elem_of_nil in H.
Qed.

(** The key set of the map at the end is the key set at the start. *)
Theorem iter_dom_preserved : dom (is_map final) = dom m0.
Proof. apply s_run_dom. Qed.

(** The yielded keys are a permutation of the keys of the map. *)
Corollary iter_keys_permutation : (is_out final).*1 ≡ₚ (map_to_list m0).*1.
Proof.
  apply NoDup_Permutation.
  - apply iter_no_duplicates.
  - apply NoDup_fst_map_to_list.
  - intros k. split.
    + intros [v Hv]%iter_only_residents. apply elem_of_list_fmap.
      exists (k, v). split; [done|]. by apply elem_of_map_to_list.
    + intros ([k' v] & -> & H)%elem_of_list_fmap. apply elem_of_map_to_list in H.
      apply iter_complete. cbn. eauto.
Qed.

End full.
End iter.

(** * Example

    Two shards (even keys in shard 0, odd keys in shard 1), three keys.  Key 2
    is updated before shard 0 is listed (the new value is yielded), key 4 after
    (the old value is yielded), key 3 is updated twice before shard 1 is listed
    (the last value is yielded); an update of the absent key 9 has no effect. *)
Definition ex_sh (k : N) : nat := N.to_nat (k mod 2).
Definition ex_m0 : gmap N N := <[2:=20]> (<[3:=30]> (<[4:=40]> ∅)).
Definition ex_tr : list sact :=
  [SUpdate 2 21; SUpdate 9 99; SList; SUpdate 4 41; SUpdate 3 31; SUpdate 3 32; SList; SUpdate 3 33].

Example iter_ex_out :
  let st := s_run ex_sh (s_init ex_m0) ex_tr in
  (is_out st, is_next st, map_to_list (is_map st)) =
  ([(2, 21); (4, 40); (3, 32)], 2%nat, [(3, 33); (2, 21); (4, 41)]).
Proof. vm_compute. reflexivity. Qed.

Example iter_ex_count : count_lists ex_tr = 2%nat.
Proof. vm_compute. reflexivity. Qed.

(** The same trace with the iterator racing ahead: both shards listed before
    any update takes effect, so the initial values are yielded. *)
Example iter_ex_out_early :
  is_out (s_run ex_sh (s_init ex_m0) [SList; SList; SUpdate 2 21; SUpdate 3 31]) =
  [(2, 20); (4, 40); (3, 30)].
Proof. vm_compute. reflexivity. Qed.
