(** Per-key coherence of a concurrent map beside an adversarial environment.

    The concurrent cache keeps its values in a hash map whose cells are
    accessed by per-key atomic operations: [insert k v] performs exactly one
    atomic upsert of the cell of [k], [invalidate k] exactly one atomic
    removal, [get k] exactly one atomic read (and may hide what it read because
    the entry is expired).  Background maintenance (eviction, expiry) may remove
    any cell at any moment.

    A trace is the list of the atomic actions of ALL threads in the order in
    which they took effect.  Nothing bounds the number of threads, the keys or
    the length of the trace, and nothing restricts the interleaving: every
    theorem below quantifies over an arbitrary [list cact].

    [cell_accepts] is the executable acceptance function (usable as a test
    oracle on recorded traces); the theorems say what acceptance means. *)
From MM Require Import Base.Prelude.

Inductive cact :=
| CWrite (t k v : N)                 (* thread t: insert's atomic upsert of key k with value v *)
| CRemove (t k : N)                  (* thread t: invalidate's atomic removal of key k *)
| CRead (t k : N) (res : option N)   (* thread t: get's atomic read of key k, with what get returned *)
| CEnv (k : N).                      (* maintenance removes key k (eviction, expiry) *)

Definition cell_step (m : gmap N N) (a : cact) : option (gmap N N) :=
  match a with
  | CWrite _ k v => Some (<[k:=v]> m)
  | CRemove _ k => Some (delete k m)
  | CEnv k => Some (delete k m)
  | CRead _ k (Some v) =>
      match m !! k with
      | Some w => if N.eqb w v then Some m else None
      | None => None
      end
  | CRead _ k None => Some m
  end.

Fixpoint cell_run (m : gmap N N) (tr : list cact) : option (gmap N N) :=
  match tr with
  | [] => Some m
  | a :: r => match cell_step m a with Some m' => cell_run m' r | None => None end
  end.

Definition cell_accepts (tr : list cact) : bool :=
  match cell_run ∅ tr with Some _ => true | None => false end.

(** [touches k a]: the action can change the cell of [k]. *)
Definition touches (k : N) (a : cact) : bool :=
  match a with
  | CWrite _ k' _ => N.eqb k' k
  | CRemove _ k' => N.eqb k' k
  | CEnv k' => N.eqb k' k
  | CRead _ _ _ => false
  end.

(** Position of the last action before position [i] that touches [k]. *)
Fixpoint last_touch (k : N) (tr : list cact) (i : nat) : option nat :=
  match i with
  | O => None
  | S j =>
      match tr !! j with
      | Some a => if touches k a then Some j else last_touch k tr j
      | None => last_touch k tr j
      end
  end.

(** What the cell of [k] holds just before position [i], read off the trace. *)
Definition written (a : cact) : option N :=
  match a with CWrite _ _ v => Some v | _ => None end.

Definition cell_view (k : N) (tr : list cact) (i : nat) : option N :=
  match last_touch k tr i with
  | Some j => match tr !! j with Some a => written a | None => None end
  | None => None
  end.

(** * The step function *)

Lemma cell_step_read_Some m t k v m' :
  cell_step m (CRead t k (Some v)) = Some m' -> m' = m /\ m !! k = Some v.
Proof.
  cbn. destruct (m !! k) as [w|]; [|discriminate].
  destruct (N.eqb_spec w v); [|discriminate]. intros [= <-]. subst. auto.
Qed.

Lemma cell_step_read_ok m t k v :
  m !! k = Some v -> cell_step m (CRead t k (Some v)) = Some m.
Proof. intros H. cbn. rewrite H, N.eqb_refl. reflexivity. Qed.

Lemma cell_step_untouched m a m' k :
  cell_step m a = Some m' -> touches k a = false -> m' !! k = m !! k.
Proof.
  destruct a as [t k' v|t k'|t k' [v|]|k']; cbn.
  - intros [= <-] H. apply N.eqb_neq in H. rewrite lookup_insert_ne; auto.
  - intros [= <-] H. apply N.eqb_neq in H. rewrite lookup_delete_ne; auto.
  - destruct (m !! k'); [|discriminate]. destruct (N.eqb n v); [|discriminate].
    intros [= <-] _. reflexivity.
  - intros [= <-] _. reflexivity.
  - intros [= <-] H. apply N.eqb_neq in H. rewrite lookup_delete_ne; auto.
Qed.

Lemma cell_step_touched m a m' k :
  cell_step m a = Some m' -> touches k a = true -> m' !! k = written a.
Proof.
  destruct a as [t k' v|t k'|t k' [v|]|k']; cbn; try discriminate.
  - intros [= <-] H. apply N.eqb_eq in H. subst. apply lookup_insert.
  - intros [= <-] H. apply N.eqb_eq in H. subst. apply lookup_delete.
  - intros [= <-] H. apply N.eqb_eq in H. subst. apply lookup_delete.
Qed.

(** * Runs compose *)

Theorem cell_run_app m tr1 tr2 :
  cell_run m (tr1 ++ tr2) = cell_run m tr1 ≫= fun m' => cell_run m' tr2.
Proof.
  revert m. induction tr1 as [|a tr1 IH]; intros m; [reflexivity|].
  cbn. destruct (cell_step m a) as [m'|]; [apply IH|reflexivity].
Qed.

Lemma cell_run_snoc m tr a :
  cell_run m (tr ++ [a]) = cell_run m tr ≫= fun m' => cell_step m' a.
Proof.
  rewrite cell_run_app. destruct (cell_run m tr) as [m'|]; [|reflexivity].
  cbn. destruct (cell_step m' a); reflexivity.
Qed.

(** An accepted trace is accepted up to every position, and the action at that
    position is accepted by the map reached there. *)
Lemma cell_run_split m tr m' i a :
  cell_run m tr = Some m' -> tr !! i = Some a ->
  exists mi mi', cell_run m (take i tr) = Some mi /\ cell_step mi a = Some mi'.
Proof.
  intros Hrun Hi.
  rewrite <- (take_drop_middle tr i a Hi), cell_run_app in Hrun.
  destruct (cell_run m (take i tr)) as [mi|]; [|discriminate].
  cbn in Hrun. destruct (cell_step mi a) as [mi'|] eqn:E; [|discriminate].
  eauto.
Qed.

(** * [last_touch] *)

Lemma last_touch_Some k tr i j :
  last_touch k tr i = Some j <->
  (j < i)%nat /\ (exists a, tr !! j = Some a /\ touches k a = true) /\
  forall n a, (j < n < i)%nat -> tr !! n = Some a -> touches k a = false.
Proof.
  induction i as [|i IH]; cbn.
  - split; [discriminate|]. intros [? _]. lia.
  - destruct (tr !! i) as [a|] eqn:Ei; [destruct (touches k a) eqn:Et|].
    + split.
      * intros [= <-]. split; [lia|]. split; [eauto|]. intros; lia.
      * intros (Hlt & _ & Hno). f_equal.
        destruct (decide (j = i)) as [|Hne]; [congruence|].
        assert (touches k a = false) by (apply (Hno i); [lia|done]). congruence.
    + rewrite IH. split.
      * intros (Hlt & Ha & Hno). split; [lia|]. split; [done|].
        intros n a' Hn Hn'. destruct (decide (n = i)) as [->|]; [congruence|].
        apply (Hno n); [lia|done].
      * intros (Hlt & (a' & Ha & Ht) & Hno).
        assert (j <> i) by congruence.
        split; [lia|]. split; [eauto|]. intros n a'' Hn. apply Hno. lia.
    + rewrite IH. split.
      * intros (Hlt & Ha & Hno). split; [lia|]. split; [done|].
        intros n a' Hn Hn'. destruct (decide (n = i)) as [->|]; [congruence|].
        apply (Hno n); [lia|done].
      * intros (Hlt & (a' & Ha & Ht) & Hno).
        assert (j <> i) by congruence.
        split; [lia|]. split; [eauto|]. intros n a'' Hn. apply Hno. lia.
Qed.

Lemma last_touch_None k tr i :
  last_touch k tr i = None <->
  forall n a, (n < i)%nat -> tr !! n = Some a -> touches k a = false.
Proof.
  induction i as [|i IH]; cbn.
  - split; [intros; lia|done].
  - destruct (tr !! i) as [a|] eqn:Ei; [destruct (touches k a) eqn:Et|].
    + split; [discriminate|]. intros H. specialize (H i a). rewrite H in Et; [done|lia|done].
    + rewrite IH. split.
      * intros H n a' Hn Hn'. destruct (decide (n = i)) as [->|]; [congruence|].
        apply (H n); [lia|done].
      * intros H n a' Hn. apply H. lia.
    + rewrite IH. split.
      * intros H n a' Hn Hn'. destruct (decide (n = i)) as [->|]; [congruence|].
        apply (H n); [lia|done].
      * intros H n a' Hn. apply H. lia.
Qed.

(** [last_touch] never goes backwards. *)
Theorem last_touch_monotone k tr i1 i2 j1 :
  (i1 <= i2)%nat -> last_touch k tr i1 = Some j1 ->
  exists j2, last_touch k tr i2 = Some j2 /\ (j1 <= j2)%nat.
Proof.
  intros Hle H1. induction Hle as [|i2 Hle IH]; [eauto|].
  destruct IH as (j2 & H2 & Hj). cbn.
  destruct (tr !! i2) as [a|]; [destruct (touches k a)|]; eauto.
  apply last_touch_Some in H2. exists i2. split; [done|lia].
Qed.

(** [last_touch] looks only at the prefix before [i]. *)
Lemma last_touch_prefix k tr tr' i :
  (i <= length tr)%nat -> last_touch k (tr ++ tr') i = last_touch k tr i.
Proof.
  induction i as [|i IH]; [done|]. intros Hi. cbn.
  rewrite lookup_app_l by lia. rewrite IH by lia. reflexivity.
Qed.

Lemma last_touch_take k tr i :
  last_touch k (take i tr) (length (take i tr)) = last_touch k tr (length (take i tr)).
Proof.
  transitivity (last_touch k (take i tr ++ drop i tr) (length (take i tr))).
  - symmetry. apply last_touch_prefix. lia.
  - rewrite take_drop. reflexivity.
Qed.

Lemma cell_view_take k tr i :
  (i <= length tr)%nat ->
  cell_view k (take i tr) (length (take i tr)) = cell_view k tr i.
Proof.
  intros Hi. unfold cell_view. rewrite last_touch_take, take_length, Nat.min_l by lia.
  destruct (last_touch k tr i) as [j|] eqn:E; [|done].
  apply last_touch_Some in E. rewrite lookup_take by lia. reflexivity.
Qed.

Lemma cell_view_snoc k tr a :
  cell_view k (tr ++ [a]) (length (tr ++ [a])) =
  if touches k a then written a else cell_view k tr (length tr).
Proof.
  unfold cell_view. rewrite app_length, Nat.add_1_r. cbn.
  rewrite lookup_app_r, Nat.sub_diag by lia. cbn.
  destruct (touches k a).
  - rewrite lookup_app_r, Nat.sub_diag by lia. reflexivity.
  - rewrite last_touch_prefix by lia.
    destruct (last_touch k tr (length tr)) as [j|] eqn:E; [|done].
    apply last_touch_Some in E. rewrite lookup_app_l by lia. reflexivity.
Qed.

(** * The map is what the trace says *)

(** The central invariant: after an accepted trace the cell of every key holds
    exactly what the last action touching the key left there. *)
Lemma cell_run_view tr m k :
  cell_run ∅ tr = Some m -> m !! k = cell_view k tr (length tr).
Proof.
  revert m. induction tr as [|a tr IH] using rev_ind; intros m.
  - intros [= <-]. apply lookup_empty.
  - rewrite cell_run_snoc. destruct (cell_run ∅ tr) as [m0|]; [|discriminate].
    cbn. intros Hstep. rewrite cell_view_snoc.
    destruct (touches k a) eqn:Et.
    + eapply cell_step_touched; eauto.
    + rewrite <- (IH m0 eq_refl). eapply cell_step_untouched; eauto.
Qed.

(** What a successful read returned is the view of its key at its position. *)
Lemma cell_read_view tr m i t k v :
  cell_run ∅ tr = Some m -> tr !! i = Some (CRead t k (Some v)) ->
  cell_view k tr i = Some v.
Proof.
  intros Hrun Hi.
  destruct (cell_run_split _ _ _ _ _ Hrun Hi) as (mi & mi' & Hpre & Hstep).
  apply cell_step_read_Some in Hstep as [_ Hk].
  rewrite <- cell_view_take by (apply lookup_lt_Some in Hi; lia).
  rewrite <- (cell_run_view _ _ k Hpre). done.
Qed.

Lemma touches_write k a v :
  touches k a = true -> written a = Some v -> exists t, a = CWrite t k v.
Proof.
  destruct a as [t k' v'|?|?|?]; cbn; try discriminate.
  intros Hk [= ->]. apply N.eqb_eq in Hk. subst. eauto.
Qed.

(** A successful read at [i] has a last toucher of its key, and that is a
    write of the value read. *)
Theorem cell_read_last_touch tr m i t k v :
  cell_run ∅ tr = Some m -> tr !! i = Some (CRead t k (Some v)) ->
  exists j t', last_touch k tr i = Some j /\ tr !! j = Some (CWrite t' k v).
Proof.
  intros Hrun Hi. pose proof (cell_read_view _ _ _ _ _ _ Hrun Hi) as Hv.
  unfold cell_view in Hv. destruct (last_touch k tr i) as [j|] eqn:E; [|discriminate].
  pose proof E as E'. apply last_touch_Some in E' as (_ & (a & Ha & Ht) & _).
  rewrite Ha in Hv. destruct (touches_write _ _ _ Ht Hv) as [t' ->]. eauto.
Qed.

(** A get returns nothing or the value of the LATEST write action on its key:
    never a superseded value, never a removed one, never a phantom. *)
Theorem cell_read_latest tr m i t k v :
  cell_run ∅ tr = Some m -> tr !! i = Some (CRead t k (Some v)) ->
  exists j t', (j < i)%nat /\ tr !! j = Some (CWrite t' k v) /\
    forall n a, (j < n < i)%nat -> tr !! n = Some a -> ~ touches k a.
Proof.
  intros Hrun Hi.
  destruct (cell_read_last_touch _ _ _ _ _ _ Hrun Hi) as (j & t' & Hl & Hj).
  apply last_touch_Some in Hl as (Hlt & _ & Hno).
  exists j, t'. split; [done|]. split; [done|].
  intros n a Hn Ha. rewrite (Hno n a Hn Ha). cbn. auto.
Qed.

(** What readers of a key see never goes backwards in the order in which the
    writes took effect: a later read observes the same write action or a later
    one (and the same action means the same value). *)
Theorem cell_read_monotone tr m k i1 i2 t1 t2 v1 v2 j1 j2 :
  cell_run ∅ tr = Some m ->
  (i1 < i2)%nat ->
  tr !! i1 = Some (CRead t1 k (Some v1)) ->
  tr !! i2 = Some (CRead t2 k (Some v2)) ->
  last_touch k tr i1 = Some j1 ->
  last_touch k tr i2 = Some j2 ->
  (j1 <= j2)%nat /\
  (exists t, tr !! j1 = Some (CWrite t k v1)) /\
  (exists t, tr !! j2 = Some (CWrite t k v2)) /\
  (j1 = j2 -> v1 = v2).
Proof.
  intros Hrun Hlt H1 H2 L1 L2.
  destruct (cell_read_last_touch _ _ _ _ _ _ Hrun H1) as (j1' & t1' & L1' & W1).
  destruct (cell_read_last_touch _ _ _ _ _ _ Hrun H2) as (j2' & t2' & L2' & W2).
  rewrite L1 in L1'. rewrite L2 in L2'. injection L1' as <-. injection L2' as <-.
  destruct (last_touch_monotone k tr i1 i2 j1) as (j2' & L2' & Hle); [lia|done|].
  rewrite L2 in L2'. injection L2' as <-.
  split; [done|]. split; [eauto|]. split; [eauto|].
  intros ->. congruence.
Qed.

(** After all threads have stopped the map holds for each key nothing or the
    last value written: nothing when no action ever touched the key or the
    last one touching it was a removal (by a thread or by maintenance), the
    value [v] when the last action touching the key was a write of [v]. *)
Theorem cell_final tr m k :
  cell_run ∅ tr = Some m ->
  (m !! k = None /\
     (last_touch k tr (length tr) = None \/
      exists j, last_touch k tr (length tr) = Some j /\
        ((exists t, tr !! j = Some (CRemove t k)) \/ tr !! j = Some (CEnv k))))
  \/
  (exists v j t, m !! k = Some v /\
     last_touch k tr (length tr) = Some j /\ tr !! j = Some (CWrite t k v)).
Proof.
  intros Hrun. rewrite (cell_run_view _ _ k Hrun). unfold cell_view.
  destruct (last_touch k tr (length tr)) as [j|] eqn:E; [|left; auto].
  pose proof E as E'. apply last_touch_Some in E' as (_ & (a & Ha & Ht) & _).
  rewrite Ha. destruct a as [t k' v|t k'|t k' r|k']; cbn in Ht; try discriminate;
    apply N.eqb_eq in Ht; subst k'; cbn.
  - right. eauto 10.
  - left. split; [done|]. right. eauto.
  - left. split; [done|]. right. eauto.
Qed.

(** The same statement with the meaning of "last action touching [k]" spelled
    out instead of [last_touch]. *)
Corollary cell_final_explicit tr m k :
  cell_run ∅ tr = Some m ->
  (m !! k = None /\ forall n a, tr !! n = Some a -> ~ touches k a)
  \/
  (exists j a, tr !! j = Some a /\
     (forall n a', (j < n)%nat -> tr !! n = Some a' -> ~ touches k a') /\
     ((m !! k = None /\ ((exists t, a = CRemove t k) \/ a = CEnv k)) \/
      (exists t v, m !! k = Some v /\ a = CWrite t k v))).
Proof.
  intros Hrun.
  assert (Hno : forall j, (forall n a, (j < n < length tr)%nat -> tr !! n = Some a -> touches k a = false) ->
      forall n a', (j < n)%nat -> tr !! n = Some a' -> ~ touches k a').
  { intros j H n a' Hn Ha'. rewrite (H n a'); [cbn; auto| |done].
    apply lookup_lt_Some in Ha'. lia. }
  destruct (cell_final tr m k Hrun) as [[Hm [Hl|(j & Hl & Hj)]]|(v & j & t & Hm & Hl & Hj)].
  - left. split; [done|]. intros n a Ha.
    rewrite last_touch_None in Hl. rewrite (Hl n a); [cbn; auto| |done].
    apply lookup_lt_Some in Ha. done.
  - right. apply last_touch_Some in Hl as (_ & _ & Hl).
    destruct Hj as [[t Hj]|Hj]; eexists j, _; (split; [exact Hj|]); (split; [eauto|]);
      left; eauto.
  - right. apply last_touch_Some in Hl as (_ & _ & Hl).
    exists j, (CWrite t k v). split; [done|]. split; [eauto|]. right. eauto.
Qed.

(** * Maintenance can only remove *)

(** [weaken k tr]: every get of [k] returns nothing. *)
Definition weaken_act (k : N) (a : cact) : cact :=
  match a with
  | CRead t k' (Some v) => if N.eqb k' k then CRead t k' None else a
  | _ => a
  end.
Definition weaken (k : N) (tr : list cact) : list cact := map (weaken_act k) tr.

(** Two maps that agree away from [k] stay so under the same actions, as long
    as gets of [k] in the second run are allowed to return nothing. *)
Lemma cell_run_weaken k tr m1 m2 m1' :
  (forall k', k' <> k -> m1 !! k' = m2 !! k') ->
  cell_run m1 tr = Some m1' ->
  exists m2', cell_run m2 (weaken k tr) = Some m2' /\
    forall k', k' <> k -> m1' !! k' = m2' !! k'.
Proof.
  revert m1 m2. induction tr as [|a tr IH]; intros m1 m2 Hag; cbn.
  - intros [= <-]. eauto.
  - destruct (cell_step m1 a) as [m1s|] eqn:E1; [|discriminate]. intros Hrun.
    assert (exists m2s, cell_step m2 (weaken_act k a) = Some m2s /\
              forall k', k' <> k -> m1s !! k' = m2s !! k') as (m2s & E2 & Hag').
    { destruct a as [t k0 v|t k0|t k0 [v|]|k0]; cbn in *.
      - injection E1 as <-. eexists; split; [done|]. intros k' Hk'.
        destruct (decide (k' = k0)) as [->|]; [by rewrite !lookup_insert|].
        rewrite !lookup_insert_ne by done. auto.
      - injection E1 as <-. eexists; split; [done|]. intros k' Hk'.
        destruct (decide (k' = k0)) as [->|]; [by rewrite !lookup_delete|].
        rewrite !lookup_delete_ne by done. auto.
      - destruct (N.eqb_spec k0 k) as [->|Hne]; cbn.
        + destruct (m1 !! k); [|discriminate]. destruct (N.eqb n v); [|discriminate].
          injection E1 as <-. eauto.
        + rewrite <- (Hag k0 Hne). destruct (m1 !! k0); [|discriminate].
          destruct (N.eqb n v); [|discriminate]. injection E1 as <-. eauto.
      - injection E1 as <-. eauto.
      - injection E1 as <-. eexists; split; [done|]. intros k' Hk'.
        destruct (decide (k' = k0)) as [->|]; [by rewrite !lookup_delete|].
        rewrite !lookup_delete_ne by done. auto. }
    rewrite E2. eapply IH; eauto.
Qed.

(** Maintenance removing [k] at any point of an accepted trace leaves the
    trace accepted once the later gets of [k] that returned a value are
    allowed to return nothing; gets of every other key are untouched, and so
    is the final content of every other cell. *)
Theorem cell_env_only_removes k tr1 tr2 m :
  cell_run ∅ (tr1 ++ tr2) = Some m ->
  exists m', cell_run ∅ (tr1 ++ CEnv k :: weaken k tr2) = Some m' /\
    forall k', k' <> k -> m !! k' = m' !! k'.
Proof.
  rewrite !cell_run_app. destruct (cell_run ∅ tr1) as [m1|]; [|discriminate].
  cbn. apply cell_run_weaken. intros k' Hk'. rewrite lookup_delete_ne; auto.
Qed.

(** A trace without successful reads is always accepted (a get may always
    return nothing, whatever the other threads and maintenance do). *)
Definition read_none (a : cact) : bool :=
  match a with CRead _ _ (Some _) => false | _ => true end.

Lemma cell_accepts_read_none tr :
  forallb read_none tr = true -> cell_accepts tr = true.
Proof.
  unfold cell_accepts. generalize (∅ : gmap N N).
  induction tr as [|a tr IH]; intros m; [done|]. cbn.
  intros [Ha Htr]%andb_prop.
  destruct a as [?|?|? ? [?|]|?]; cbn in *; try discriminate; apply IH; done.
Qed.

(** * Examples *)

(** Two threads.  Thread 1 inserts 10 under key 7, thread 2 overwrites with 20
    and reads its own write; thread 1 then reads 20 (the latest write), the
    environment evicts the key, thread 1 reads nothing, thread 2 reinserts. *)
Example cell_ex_accepted :
  cell_accepts
    [CWrite 1 7 10; CWrite 2 7 20; CRead 2 7 (Some 20); CRead 1 7 (Some 20);
     CWrite 1 8 5; CEnv 7; CRead 1 7 None; CRead 2 8 (Some 5);
     CWrite 2 7 30; CRead 1 7 (Some 30); CRemove 1 7; CRead 2 7 None] = true.
Proof. vm_compute. reflexivity. Qed.

(** A stale read: thread 1 reads the value that thread 2 has already
    overwritten. *)
Example cell_ex_stale_rejected :
  cell_accepts [CWrite 1 7 10; CWrite 2 7 20; CRead 1 7 (Some 10)] = false.
Proof. vm_compute. reflexivity. Qed.

(** A read after eviction that still returns the evicted value. *)
Example cell_ex_evicted_rejected :
  cell_accepts [CWrite 1 7 10; CEnv 7; CRead 2 7 (Some 10)] = false.
Proof. vm_compute. reflexivity. Qed.

(** A phantom value nobody wrote. *)
Example cell_ex_phantom_rejected :
  cell_accepts [CWrite 1 7 10; CRead 2 8 (Some 10)] = false.
Proof. vm_compute. reflexivity. Qed.

Example cell_ex_last_touch :
  last_touch 7 [CWrite 1 7 10; CWrite 2 8 1; CWrite 2 7 20; CRead 1 7 (Some 20)] 3 = Some 2%nat.
Proof. vm_compute. reflexivity. Qed.
