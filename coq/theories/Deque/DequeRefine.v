(** The pointer-level deque model refines the list model and is memory safe
    within its `unsafe` contract. *)
From MM Require Export Deque.DequeAbs.

(** * Heap image of a list segment *)
Definition hd_or (l : list (N * N)) (dflt : option N) : option N :=
  match l with [] => dflt | (m, _) :: _ => Some m end.
Fixpoint lst_or (l : list (N * N)) (dflt : option N) : option N :=
  match l with [] => dflt | (m, _) :: r => lst_or r (Some m) end.

(** [segon base p l nx]: the nodes of segment [l] (whose predecessor is [p] and
    successor is [nx]) written on top of [base]. *)
Fixpoint segon (base : gmap N dnode) (p : option N) (l : list (N * N)) (nx : option N)
  : gmap N dnode :=
  match l with
  | [] => base
  | (n, e) :: r => <[n := mkDN (hd_or r nx) p e]> (segon base (Some n) r nx)
  end.

Lemma hd_or_app l1 l2 x : hd_or (l1 ++ l2) x = hd_or l1 (hd_or l2 x).
Proof. destruct l1 as [|[]]; done. Qed.
Lemma lst_or_app l1 l2 x : lst_or (l1 ++ l2) x = lst_or l2 (lst_or l1 x).
Proof. revert x; induction l1 as [|[] l1 IH]; intros; cbn; auto. Qed.
Lemma hd_or_None l : hd_or l None = head l.*1.
Proof. destruct l as [|[]]; done. Qed.
Lemma lst_or_last l x : lst_or l x = match last l.*1 with Some m => Some m | None => x end.
Proof.
  revert x; induction l as [|[m e] l IH]; intros; [done|].
  cbn [lst_or]. rewrite IH. destruct l as [|[m' e'] l]; [done|].
  change (last (((m, e) :: (m', e') :: l).*1)) with (last (((m', e') :: l).*1)).
  destruct (last _) eqn:E; [done|].
  apply last_None in E. done.
Qed.
Lemma lst_or_None l : lst_or l None = last l.*1.
Proof. rewrite lst_or_last. by destruct (last _). Qed.

Lemma segon_app base p l1 l2 nx :
  segon base p (l1 ++ l2) nx = segon (segon base (lst_or l1 p) l2 nx) p l1 (hd_or l2 nx).
Proof.
  revert p; induction l1 as [|[n e] l1 IH]; intros p; [done|].
  cbn [app segon lst_or]. by rewrite IH, hd_or_app.
Qed.

Lemma segon_insert_base base k v p l nx :
  k ∉ l.*1 -> segon (<[k := v]> base) p l nx = <[k := v]> (segon base p l nx).
Proof.
  revert p; induction l as [|[n e] l IH]; intros p Hk; [done|].
  rewrite fmap_cons, not_elem_of_cons in Hk. destruct Hk as [Hn Hk]. cbn [fst] in Hn.
  cbn [segon]. rewrite IH by done. by rewrite insert_commute by done.
Qed.

Lemma segon_lookup_notin base k p l nx :
  k ∉ l.*1 -> segon base p l nx !! k = base !! k.
Proof.
  revert p; induction l as [|[n e] l IH]; intros p Hk; [done|].
  rewrite fmap_cons, not_elem_of_cons in Hk. destruct Hk as [Hn Hk]. cbn [fst] in Hn.
  cbn [segon]. rewrite lookup_insert_ne by done. by apply IH.
Qed.

Lemma segon_lookup_in base k p l nx :
  k ∈ l.*1 -> is_Some (segon base p l nx !! k).
Proof.
  revert p; induction l as [|[n e] l IH]; intros p Hk; [by apply elem_of_nil in Hk|].
  rewrite fmap_cons, elem_of_cons in Hk. cbn [fst] in Hk. cbn [segon].
  destruct (decide (k = n)) as [->|Hne].
  - rewrite lookup_insert. eauto.
  - rewrite lookup_insert_ne by done. apply IH. by destruct Hk.
Qed.

(** * Representation invariant *)
Record Rep (d : pdeque) (l : list (N * N)) : Prop := mkRep {
  (* the heap is exactly the image of [l]: its domain is the set of ids of [l],
     consecutive nodes are mutually linked, the first node has no prev, the last
     no next, elements agree (see [rep_dom] and [rep_links] below) *)
  rep_heap : d_heap d = segon ∅ None l None;
  rep_nodup : NoDup l.*1;
  rep_fresh : forall n, n ∈ l.*1 -> n < d_next_id d;
  rep_len : d_len d = N.of_nat (length l);
  rep_head : d_head d = first_id l;
  rep_tail : d_tail d = last_id l;
  rep_cursor : forall n, d_cursor d = Some (CNode n) -> n ∈ l.*1
}.

Definition abs_of (d : pdeque) (l : list (N * N)) : adeque :=
  mkAD l (d_cursor d) (d_next_id d).

(** ** List facts *)
Lemma ids_split (l : list (N * N)) h :
  h ∈ l.*1 -> exists l1 e l2, l = l1 ++ (h, e) :: l2.
Proof.
  intros Hh. apply elem_of_list_fmap in Hh as ([h' e] & -> & Hin).
  apply elem_of_list_split in Hin as (l1 & l2 & ->). eauto.
Qed.

Lemma nodup_mid (l1 : list (N * N)) n e l2 :
  NoDup (l1 ++ (n, e) :: l2).*1 ->
  NoDup l1.*1 /\ NoDup l2.*1 /\ n ∉ l1.*1 /\ n ∉ l2.*1 /\
  (forall k, k ∈ l1.*1 -> k ∉ l2.*1).
Proof.
  rewrite fmap_app, fmap_cons. cbn [fst]. intros H.
  apply NoDup_app in H as (H1 & H2 & H3). apply NoDup_cons in H3 as (H3 & H4).
  repeat split; auto.
  - intros Hn. apply (H2 n Hn). left.
  - intros k Hk Hk2. apply (H2 k Hk). by right.
Qed.

Lemma find_id_mid (l1 : list (N * N)) n e l2 :
  n ∉ l1.*1 -> find_id n (l1 ++ (n, e) :: l2) = Some e.
Proof.
  induction l1 as [|[m x] l1 IH]; cbn [app find_id]; intros Hn.
  - by rewrite N.eqb_refl.
  - rewrite fmap_cons, not_elem_of_cons in Hn. destruct Hn as [Hne Hn]. cbn [fst] in Hne.
    destruct (N.eqb_spec m n); [congruence|auto].
Qed.

Lemma find_id_notin (l : list (N * N)) n : n ∉ l.*1 -> find_id n l = None.
Proof.
  induction l as [|[m x] l IH]; cbn [find_id]; intros Hn; [done|].
  rewrite fmap_cons, not_elem_of_cons in Hn. destruct Hn as [Hne Hn]. cbn [fst] in Hne.
  destruct (N.eqb_spec m n); [congruence|auto].
Qed.

Lemma remove_id_mid (l1 : list (N * N)) n e l2 :
  n ∉ l1.*1 -> remove_id n (l1 ++ (n, e) :: l2) = l1 ++ l2.
Proof.
  induction l1 as [|[m x] l1 IH]; cbn [app remove_id]; intros Hn.
  - by rewrite N.eqb_refl.
  - rewrite fmap_cons, not_elem_of_cons in Hn. destruct Hn as [Hne Hn]. cbn [fst] in Hne.
    destruct (N.eqb_spec m n); [congruence|]. by rewrite IH.
Qed.

Lemma next_of_mid (l1 : list (N * N)) n e l2 :
  n ∉ l1.*1 -> next_of (l1 ++ (n, e) :: l2) n = first_id l2.
Proof.
  induction l1 as [|[m x] l1 IH]; cbn [app next_of]; intros Hn.
  - by rewrite N.eqb_refl.
  - rewrite fmap_cons, not_elem_of_cons in Hn. destruct Hn as [Hne Hn]. cbn [fst] in Hne.
    destruct (N.eqb_spec m n); [congruence|auto].
Qed.

Lemma lst_or_None_inv l : lst_or l None = None -> l = [].
Proof.
  rewrite lst_or_None. intros H%last_None. by apply fmap_nil_inv in H.
Qed.

Lemma lst_or_snoc l m e x : lst_or (l ++ [(m, e)]) x = Some m.
Proof. by rewrite lst_or_app. Qed.

Lemma list_snoc_view {A} (l : list A) : l = [] \/ exists l' x, l = l' ++ [x].
Proof.
  induction l as [|a l IH] using rev_ind; [by left|right; eauto].
Qed.

(** ** Lookup in the image of a list *)
Lemma segon_lookup_mid base p (l1 : list (N * N)) n e l2 nx :
  n ∉ l1.*1 ->
  segon base p (l1 ++ (n, e) :: l2) nx !! n = Some (mkDN (hd_or l2 nx) (lst_or l1 p) e).
Proof.
  intros Hn. rewrite segon_app, segon_lookup_notin by done.
  cbn [segon]. by rewrite lookup_insert.
Qed.

Lemma rep_lookup_mid d (l1 : list (N * N)) n e l2 :
  Rep d (l1 ++ (n, e) :: l2) ->
  d_heap d !! n = Some (mkDN (first_id l2) (last_id l1) e).
Proof.
  intros R. rewrite (rep_heap _ _ R).
  destruct (nodup_mid _ _ _ _ (rep_nodup _ _ R)) as (_ & _ & Hn & _).
  rewrite segon_lookup_mid by done. by rewrite hd_or_None, lst_or_None.
Qed.

Lemma rep_lookup_member d l n :
  Rep d l -> n ∈ l.*1 -> is_Some (d_heap d !! n).
Proof.
  intros R Hn. rewrite (rep_heap _ _ R). by apply segon_lookup_in.
Qed.

Lemma rep_lookup_dead d l n :
  Rep d l -> n ∉ l.*1 -> d_heap d !! n = None.
Proof.
  intros R Hn. rewrite (rep_heap _ _ R). by rewrite segon_lookup_notin.
Qed.

(** the domain of the heap is exactly the set of ids of the list *)
Lemma rep_dom d l : Rep d l -> forall n, is_Some (d_heap d !! n) <-> n ∈ l.*1.
Proof.
  intros R n. split; [|by apply rep_lookup_member].
  intros Hs. destruct (decide (n ∈ l.*1)) as [|Hn]; [done|].
  rewrite (rep_lookup_dead _ _ _ R Hn) in Hs. by destruct Hs.
Qed.

(** link structure, index form *)
Lemma rep_links d l i n e :
  Rep d l -> l !! i = Some (n, e) ->
  d_heap d !! n =
    Some (mkDN (fst <$> l !! S i)
               (match i with O => None | S j => fst <$> l !! j end) e).
Proof.
  intros R Hi.
  pose proof (take_drop_middle _ _ _ Hi) as Hl.
  rewrite <- Hl in R. rewrite (rep_lookup_mid _ _ _ _ _ R). f_equal. f_equal.
  - unfold first_id. rewrite head_lookup, list_lookup_fmap, lookup_drop. by rewrite Nat.add_0_r.
  - unfold last_id. rewrite last_lookup, fmap_length, list_lookup_fmap.
    assert (i < length l)%nat as Hlt by (by eapply lookup_lt_Some).
    rewrite take_length, Nat.min_l by lia.
    destruct i as [|j]; [done|]. cbn [pred]. by rewrite lookup_take by lia.
Qed.

(** * Basic facts *)
Theorem rep_empty : Rep pd_empty [].
Proof.
  split; cbn; try done.
  - constructor.
  - intros n Hn. by apply elem_of_nil in Hn.
Qed.

Lemma deref_ok d p nd : d_heap d !! p = Some nd -> pd_deref d p = Ok nd.
Proof. unfold pd_deref. by intros ->. Qed.

Lemma deref_dead d p : d_heap d !! p = None -> pd_deref d p = Err UseAfterFree.
Proof. unfold pd_deref. by intros ->. Qed.

Lemma walk_seg heap (l1 l2 : list (N * N)) fuel :
  NoDup (l1 ++ l2).*1 ->
  heap = segon ∅ None (l1 ++ l2) None ->
  (length l2 < fuel)%nat ->
  pd_walk_from heap fuel (first_id l2) = Some l2.
Proof.
  revert l1 fuel. induction l2 as [|[n e] l2 IH]; intros l1 fuel ND Hh Hf.
  - by destruct fuel.
  - destruct fuel as [|fuel]; [cbn in Hf; lia|].
    cbn [first_id fmap list_fmap head fst pd_walk_from].
    destruct (nodup_mid _ _ _ _ ND) as (_ & _ & Hn & _).
    assert (heap !! n = Some (mkDN (hd_or l2 None) (lst_or l1 None) e)) as ->
      by (rewrite Hh; by apply segon_lookup_mid).
    cbn [dn_next dn_elem]. rewrite hd_or_None. fold (first_id l2).
    rewrite (IH (l1 ++ [(n, e)]) fuel); [done| | |cbn in Hf; lia].
    + by rewrite <- app_assoc.
    + rewrite <- app_assoc. by subst.
Qed.

Theorem dq_walk_rep d l : Rep d l -> dq_walk d = Some l.
Proof.
  intros R. unfold dq_walk. rewrite (rep_head _ _ R).
  apply (walk_seg _ [] l).
  - apply (rep_nodup _ _ R).
  - apply (rep_heap _ _ R).
  - rewrite (rep_len _ _ R). lia.
Qed.

Lemma set_cursor_id d : set_cursor d (d_cursor d) = d.
Proof. by destruct d. Qed.

Lemma rep_set_cursor d l c :
  Rep d l -> (forall n, c = Some (CNode n) -> n ∈ l.*1) -> Rep (set_cursor d c) l.
Proof. intros [] Hc. split; cbn; auto. Qed.

(** ** The cursor guard *)
Lemma abs_advance_wf (l : list (N * N)) c n :
  abs_advance l c = Some (CNode n) -> exists m, c = Some (CNode m) /\ next_of l m = Some n.
Proof.
  destruct c as [[m|]|]; cbn; try done.
  destruct (next_of l m) eqn:E; intros [=]; subst. eauto.
Qed.

Lemma next_of_member (l : list (N * N)) m n : next_of l m = Some n -> n ∈ l.*1.
Proof.
  induction l as [|[k x] l IH]; cbn [next_of]; [done|].
  rewrite fmap_cons. destruct (N.eqb k m).
  - unfold first_id. intros H. right. destruct (l.*1); [done|]. cbn in H. injection H as ->. left.
  - intros H. right. auto.
Qed.

Lemma advance_ok d l :
  Rep d l -> pd_advance_cursor d = Ok (set_cursor d (abs_advance l (d_cursor d))).
Proof.
  intros R. unfold pd_advance_cursor.
  destruct (d_cursor d) as [[c|]|] eqn:Ec; cbn [abs_advance].
  - destruct (ids_split _ _ (rep_cursor _ _ R _ Ec)) as (l1 & e & l2 & ->).
    rewrite (deref_ok _ _ _ (rep_lookup_mid _ _ _ _ _ R)). cbn [rbind dn_next].
    destruct (nodup_mid _ _ _ _ (rep_nodup _ _ R)) as (_ & _ & Hn & _).
    by rewrite next_of_mid.
  - done.
  - by rewrite <- Ec, set_cursor_id.
Qed.

Lemma guard_ok d l n :
  Rep d l -> n ∈ l.*1 ->
  pd_cursor_guard d n = Ok (set_cursor d (abs_guard l (d_cursor d) n)).
Proof.
  intros R Hn. unfold pd_cursor_guard.
  destruct (rep_lookup_member _ _ _ R Hn) as [nd Hnd].
  rewrite (deref_ok _ _ _ Hnd). cbn [rbind].
  unfold pd_is_at_cursor, abs_guard.
  destruct (d_cursor d) as [[c|]|] eqn:Ec; cbn [rbind].
  - destruct (rep_lookup_member _ _ _ R (rep_cursor _ _ R _ Ec)) as [cd Hcd].
    rewrite (deref_ok _ _ _ Hcd). cbn [rbind].
    destruct (N.eqb c n).
    + rewrite (advance_ok _ _ R). by rewrite Ec.
    + by rewrite <- Ec, set_cursor_id.
  - by rewrite <- Ec, set_cursor_id.
  - by rewrite <- Ec, set_cursor_id.
Qed.

Lemma abs_guard_member (l : list (N * N)) c n k :
  (forall m, c = Some (CNode m) -> m ∈ l.*1) ->
  abs_guard l c n = Some (CNode k) -> k ∈ l.*1.
Proof.
  intros Hc. unfold abs_guard. destruct c as [[m|]|]; try done.
  destruct (N.eqb m n); [|by auto].
  intros (m' & _ & H)%abs_advance_wf. by eapply next_of_member.
Qed.

Lemma abs_guard_removed (l1 : list (N * N)) n e l2 c k :
  NoDup (l1 ++ (n, e) :: l2).*1 ->
  (forall m, c = Some (CNode m) -> m ∈ (l1 ++ (n, e) :: l2).*1) ->
  abs_guard (l1 ++ (n, e) :: l2) c n = Some (CNode k) -> k ∈ (l1 ++ l2).*1.
Proof.
  intros ND Hc. destruct (nodup_mid _ _ _ _ ND) as (_ & _ & Hn1 & _).
  unfold abs_guard. destruct c as [[m|]|]; try done.
  destruct (N.eqb_spec m n) as [->|Hne].
  - cbn [abs_advance]. rewrite next_of_mid by done. unfold first_id.
    rewrite fmap_app. destruct (l2.*1) as [|x r]; cbn [head]; [done|].
    intros [= <-]. apply elem_of_app. right. left.
  - intros [= <-]. specialize (Hc m eq_refl).
    rewrite fmap_app, fmap_cons, elem_of_app, elem_of_cons in Hc. cbn [fst] in Hc.
    rewrite fmap_app, elem_of_app. tauto.
Qed.

Lemma chk_sub_succ n : chk_sub (N.of_nat (S n)) 1 = Ok (N.of_nat n).
Proof.
  unfold chk_sub. destruct (N.leb_spec 1 (N.of_nat (S n))); [|lia]. f_equal. lia.
Qed.

Ltac pdsimpl :=
  unfold set_heap, set_len, set_head, set_tail, set_cursor, nd_set_next, nd_set_prev;
  cbn [rbind d_heap d_len d_head d_tail d_cursor d_next_id
       dn_next dn_prev dn_elem is_some].
Tactic Notation "pdsimpl" "in" "*" :=
  unfold set_heap, set_len, set_head, set_tail, set_cursor, nd_set_next, nd_set_prev in *;
  cbn [rbind d_heap d_len d_head d_tail d_cursor d_next_id
       dn_next dn_prev dn_elem is_some] in *.

(** * pop_front *)
Lemma pop_front_ok d n e l2 :
  Rep d ((n, e) :: l2) ->
  exists d', pd_pop_front d = Ok (d', Some e) /\ Rep d' l2 /\
    d_cursor d' = abs_guard ((n, e) :: l2) (d_cursor d) n /\ d_next_id d' = d_next_id d.
Proof.
  intros R. unfold pd_pop_front. rewrite (rep_head _ _ R).
  cbn [first_id fmap list_fmap head fst].
  rewrite (guard_ok _ _ _ R) by (rewrite fmap_cons; left). pdsimpl.
  pose proof (abs_guard_removed [] n e l2 (d_cursor d) ) as Hc. cbn [app] in Hc.
  specialize (fun k => Hc k (rep_nodup _ _ R) (rep_cursor _ _ R)).
  set (c' := abs_guard _ _ _) in *. clearbody c'.
  destruct (nodup_mid [] _ _ _ (rep_nodup _ _ R)) as (_ & ND2 & _ & Hn2 & _).
  destruct R as [Hh _ Hf Hl _ Ht _]. destruct d as [heap len hd tl cur nid].
  pdsimpl in *. subst heap len tl.
  unfold pd_free. pdsimpl. cbn [segon].
  rewrite lookup_insert. pdsimpl.
  rewrite delete_insert by (rewrite segon_lookup_notin by done; apply lookup_empty).
  destruct l2 as [|[x ex] l2'].
  - cbn [hd_or]. pdsimpl.
    change (N.of_nat (length [(n, e)])) with (N.of_nat 1). rewrite chk_sub_succ. pdsimpl.
    eexists. split; [reflexivity|]. split; [|done].
    split; cbn; try done. intros k Hk. by apply elem_of_nil in Hk.
  - cbn [hd_or segon]. unfold pd_write, pd_deref. pdsimpl.
    rewrite lookup_insert. pdsimpl.
    rewrite insert_insert. cbn [length]. rewrite chk_sub_succ. pdsimpl.
    eexists. split; [reflexivity|]. split; [|done].
    split; pdsimpl; try done.
    intros k Hk. apply Hf. rewrite fmap_cons. by right.
Qed.

(** * push_back *)
Lemma first_id_app_ne (l r : list (N * N)) : l <> [] -> first_id (l ++ r) = first_id l.
Proof. by destruct l. Qed.
Lemma last_id_snoc (l : list (N * N)) k e : last_id (l ++ [(k, e)]) = Some k.
Proof. unfold last_id. rewrite fmap_app. apply last_snoc. Qed.

Lemma push_back_ok d l e :
  Rep d l ->
  exists d', pd_push_back d e = Ok (d', d_next_id d) /\ Rep d' (l ++ [(d_next_id d, e)]) /\
    d_cursor d' = d_cursor d /\ d_next_id d' = d_next_id d + 1.
Proof.
  intros R.
  assert (d_next_id d ∉ l.*1) as Hfresh.
  { intros H. apply (rep_fresh _ _ R) in H. lia. }
  assert (NoDup (l ++ [(d_next_id d, e)]).*1) as ND'.
  { rewrite fmap_app. apply NoDup_app. split; [apply (rep_nodup _ _ R)|]. split.
    - intros k Hk Hk'. cbn in Hk'. apply elem_of_list_singleton in Hk'. by subst.
    - cbn. apply NoDup_singleton. }
  assert (forall n, n ∈ (l ++ [(d_next_id d, e)]).*1 -> n < d_next_id d + 1) as Hf'.
  { intros n. rewrite fmap_app, elem_of_app. intros [H|H].
    - apply (rep_fresh _ _ R) in H. lia.
    - cbn in H. apply elem_of_list_singleton in H. lia. }
  assert (forall n, d_cursor d = Some (CNode n) -> n ∈ (l ++ [(d_next_id d, e)]).*1) as Hc'.
  { intros n H. rewrite fmap_app, elem_of_app. left. by apply (rep_cursor _ _ R). }
  assert (N.of_nat (length l) + 1 = N.of_nat (length (l ++ [(d_next_id d, e)]))) as Hlen.
  { rewrite app_length. cbn. lia. }
  unfold pd_push_back, pd_alloc.
  destruct R as [Hh ND Hf Hl Hhd Ht Hc]. destruct d as [heap len hd tl cur nid].
  pdsimpl in *. subst heap len hd tl.
  destruct (list_snoc_view l) as [->|(l' & [t et] & ->)].
  - cbn [last_id fmap list_fmap last]. pdsimpl.
    eexists. split; [reflexivity|]. split; [|done].
    split; pdsimpl; try done.
  - rewrite last_id_snoc. unfold pd_write, pd_deref. pdsimpl.
    assert (t ∉ l'.*1 /\ nid ∉ l'.*1 /\ nid <> t) as (Ht1 & Hn1 & Hne).
    { destruct (nodup_mid _ _ _ _ ND) as (_ & _ & ? & _). 
      rewrite fmap_app, not_elem_of_app in Hfresh. cbn in Hfresh.
      rewrite not_elem_of_cons in Hfresh. tauto. }
    rewrite segon_app. cbn [segon hd_or]. rewrite segon_insert_base by done.
    rewrite lookup_insert_ne, lookup_insert by done. pdsimpl.
    eexists. split; [reflexivity|]. split; [|done].
    split; pdsimpl; try done.
    + rewrite <- app_assoc. rewrite segon_app. cbn [app segon hd_or lst_or].
      rewrite !segon_insert_base by done.
      apply map_eq. intros i.
      destruct (decide (i = t)) as [->|]; [|destruct (decide (i = nid)) as [->|]];
        simplify_map_eq; done.
    + symmetry. apply first_id_app_ne. by destruct l'.
    + by rewrite last_id_snoc.
Qed.

(** * unlink / unlink_and_drop *)
Ltac nodup_unfold H :=
  repeat first [rewrite fmap_app in H | rewrite fmap_cons in H];
  cbn [fst fmap list_fmap] in H;
  repeat first [rewrite NoDup_app in H | rewrite NoDup_cons in H].

Ltac ndsolve ND := done.
Ltac facts ND P := assert P as ?HF by (clear -ND; set_solver); destruct_and?.

Ltac heap_steps ND :=
  repeat (first [ rewrite lookup_insert
                | rewrite lookup_insert_ne by ndsolve ND ]; pdsimpl).

Ltac heap_norm ND :=
  rewrite <- ?app_assoc; cbn [app segon hd_or lst_or];
  repeat (first [rewrite segon_app | rewrite lst_or_app | rewrite hd_or_app];
          cbn [app segon hd_or lst_or]);
  rewrite ?segon_insert_base by ndsolve ND.

Ltac ends_solve :=
  unfold first_id, last_id;
  rewrite <- ?hd_or_None, <- ?lst_or_None; cbn [hd_or lst_or];
  repeat (first [rewrite hd_or_app | rewrite lst_or_app]; cbn [hd_or lst_or]);
  try done.

Ltac assoc_all := repeat (progress (rewrite <- ?app_assoc in *; cbn [app] in *)).

Ltac pw ND :=
  repeat first
    [ rewrite lookup_delete
    | rewrite lookup_delete_ne by ndsolve ND
    | rewrite lookup_insert
    | rewrite lookup_insert_ne by ndsolve ND
    | rewrite segon_lookup_notin by ndsolve ND
    | rewrite lookup_empty ];
  try done.

Lemma unlink_ok d l1 n e l2 :
  Rep d (l1 ++ (n, e) :: l2) ->
  exists d', pd_unlink d n = Ok d' /\
    d_heap d' !! n = Some (mkDN None None e) /\
    Rep (set_heap d' (delete n (d_heap d'))) (l1 ++ l2) /\
    d_cursor d' = abs_guard (l1 ++ (n, e) :: l2) (d_cursor d) n /\
    d_next_id d' = d_next_id d.
Proof.
  intros R. unfold pd_unlink.
  assert (n ∈ (l1 ++ (n, e) :: l2).*1) as Hmem.
  { rewrite fmap_app, fmap_cons, elem_of_app, elem_of_cons. auto. }
  rewrite (guard_ok _ _ _ R Hmem). pdsimpl.
  pose proof (abs_guard_removed l1 n e l2 (d_cursor d)) as Hc.
  specialize (fun k => Hc k (rep_nodup _ _ R) (rep_cursor _ _ R)).
  set (c' := abs_guard _ _ _) in *. clearbody c'.
  destruct R as [Hh ND Hf Hl Hhd Ht _]. destruct d as [heap len hd tl cur nid].
  pdsimpl in *. subst heap len hd tl.
  assert (forall k, k ∈ (l1 ++ l2).*1 -> k < nid) as Hf'.
  { intros k Hk. apply Hf. revert Hk. rewrite !fmap_app, fmap_cons, !elem_of_app, elem_of_cons. tauto. }
  assert (NoDup (l1 ++ l2).*1) as ND'.
  { destruct (nodup_mid _ _ _ _ ND) as (N1 & N2 & _ & _ & Hd).
    rewrite fmap_app. apply NoDup_app. auto. }
  assert (N.of_nat (length (l1 ++ (n, e) :: l2)) = N.of_nat (S (length (l1 ++ l2)))) as ->.
  { rewrite !app_length. cbn [length]. f_equal. lia. }
  unfold pd_write, pd_deref. pdsimpl.
  destruct (list_snoc_view l1) as [->|(l1' & [pv ep] & ->)]; destruct l2 as [|[x ex] l2'].
  all: assoc_all; nodup_unfold ND.
  2: facts ND (n <> x /\ n ∉ l2'.*1 /\ x ∉ l2'.*1).
  3: facts ND (n <> pv /\ n ∉ l1'.*1 /\ pv ∉ l1'.*1).
  4: facts ND (n <> pv /\ n <> x /\ pv <> x /\ n ∉ l1'.*1 /\ pv ∉ l1'.*1 /\ x ∉ l1'.*1 /\
               n ∉ l2'.*1 /\ pv ∉ l2'.*1 /\ x ∉ l2'.*1).
  all: heap_norm ND; heap_steps ND.
  all: rewrite chk_sub_succ; pdsimpl; eexists; (split; [reflexivity|]); pdsimpl.
  all: split; [apply lookup_insert|]; split; [|done]; split; pdsimpl; try done; try ends_solve.
  all: heap_norm ND; apply map_eq; intros i.
  - destruct (decide (i = n)) as [->|]; pw ND.
  - destruct (decide (i = n)) as [->|]; [|destruct (decide (i = x)) as [->|]]; pw ND.
  - destruct (decide (i = n)) as [->|]; [|destruct (decide (i = pv)) as [->|]]; pw ND.
  - destruct (decide (i = n)) as [->|]; [|destruct (decide (i = pv)) as [->|];
      [|destruct (decide (i = x)) as [->|]]]; pw ND.
Qed.

Lemma unlink_and_drop_ok d l1 n e l2 :
  Rep d (l1 ++ (n, e) :: l2) ->
  exists d', pd_unlink_and_drop d n = Ok d' /\ Rep d' (l1 ++ l2) /\
    d_cursor d' = abs_guard (l1 ++ (n, e) :: l2) (d_cursor d) n /\
    d_next_id d' = d_next_id d.
Proof.
  intros R. destruct (unlink_ok _ _ _ _ _ R) as (d1 & E & Hl & R' & Hc & Hn).
  unfold pd_unlink_and_drop. rewrite E. pdsimpl. unfold pd_free. rewrite Hl. pdsimpl.
  eexists. split; [reflexivity|]. split; [exact R'|]. done.
Qed.

(** Remark on [contains] (cf. [contains_exact] below): for a member it answers
    true; for a node that is live but unlinked it answers false.  The second
    half is not needed for the refinement, since the model only reaches
    [unlink] through [unlink_and_drop], which frees the node right away; it is
    nevertheless provable for the bare [pd_unlink]: *)
Lemma contains_after_unlink d l1 n e l2 d' :
  Rep d (l1 ++ (n, e) :: l2) -> pd_unlink d n = Ok d' -> pd_contains d' n = Ok false.
Proof.
  intros R E. destruct (unlink_ok _ _ _ _ _ R) as (d1 & E1 & Hl & R' & _).
  rewrite E in E1. injection E1 as <-.
  unfold pd_contains. rewrite (deref_ok _ _ _ Hl). pdsimpl.
  unfold pd_is_head. pose proof (rep_head _ _ R') as Hh. pdsimpl in *.
  destruct (d_head d') as [h|] eqn:Eh; [|done].
  assert (h ∈ (l1 ++ l2).*1) as Hm.
  { unfold first_id in Hh. destruct ((l1 ++ l2).*1); [done|]. injection Hh as ->. left. }
  assert (h <> n) as Hne.
  { intros ->. destruct (nodup_mid _ _ _ _ (rep_nodup _ _ R)) as (_ & _ & H1 & H2 & _).
    rewrite fmap_app, elem_of_app in Hm. tauto. }
  destruct (rep_lookup_member _ _ _ R' Hm) as [hd Hhd]. pdsimpl in *.
  rewrite lookup_delete_ne in Hhd by done.
  rewrite (deref_ok _ _ _ Hhd). pdsimpl. by destruct (N.eqb_spec h n).
Qed.

(** * move_to_back *)
Lemma is_tail_ok d l n : Rep d l -> pd_is_tail d n = Ok (opt_eqb (last_id l) n).
Proof.
  intros R. unfold pd_is_tail. rewrite (rep_tail _ _ R).
  destruct (last_id l) as [t|] eqn:E; [|done].
  assert (t ∈ l.*1) as Hm.
  { unfold last_id in E. by apply last_Some_elem_of in E. }
  destruct (rep_lookup_member _ _ _ R Hm) as [td Htd].
  by rewrite (deref_ok _ _ _ Htd).
Qed.

Lemma is_head_ok d l n : Rep d l -> pd_is_head d n = Ok (opt_eqb (first_id l) n).
Proof.
  intros R. unfold pd_is_head. rewrite (rep_head _ _ R).
  destruct (first_id l) as [t|] eqn:E; [|done].
  assert (t ∈ l.*1) as Hm.
  { unfold first_id in E. destruct (l.*1); [done|]. injection E as ->. left. }
  destruct (rep_lookup_member _ _ _ R Hm) as [td Htd].
  by rewrite (deref_ok _ _ _ Htd).
Qed.

Lemma last_id_not_tail (l1 : list (N * N)) n e x ex l2 :
  NoDup (l1 ++ (n, e) :: (x, ex) :: l2).*1 ->
  opt_eqb (last_id (l1 ++ (n, e) :: (x, ex) :: l2)) n = false.
Proof.
  intros ND. unfold last_id. rewrite <- lst_or_None, lst_or_app. cbn [lst_or].
  rewrite lst_or_last. nodup_unfold ND.
  destruct (last l2.*1) as [m|] eqn:E; cbn [opt_eqb].
  - apply last_Some_elem_of in E. destruct (N.eqb_spec m n); [|done]. set_solver.
  - destruct (N.eqb_spec x n); [|done]. set_solver.
Qed.

Lemma moved_perm {A} (l1 : list A) a l2 : l1 ++ l2 ++ [a] ≡ₚ l1 ++ a :: l2.
Proof. rewrite app_assoc, <- Permutation_cons_append. apply Permutation_middle. Qed.

Lemma move_to_back_ok d l1 n e l2 :
  Rep d (l1 ++ (n, e) :: l2) ->
  exists d', pd_move_to_back d n = Ok d' /\ Rep d' (l1 ++ l2 ++ [(n, e)]) /\
    d_cursor d' = (if opt_eqb (last_id (l1 ++ (n, e) :: l2)) n then d_cursor d
                   else abs_guard (l1 ++ (n, e) :: l2) (d_cursor d) n) /\
    d_next_id d' = d_next_id d.
Proof.
  intros R. unfold pd_move_to_back.
  rewrite (deref_ok _ _ _ (rep_lookup_mid _ _ _ _ _ R)). pdsimpl.
  rewrite (is_tail_ok _ _ _ R). pdsimpl.
  destruct l2 as [|[x ex] l2].
  { rewrite last_id_snoc. cbn [opt_eqb]. rewrite N.eqb_refl. eauto. }
  rewrite (last_id_not_tail _ _ _ _ _ _ (rep_nodup _ _ R)).
  assert (n ∈ (l1 ++ (n, e) :: (x, ex) :: l2).*1) as Hmem.
  { rewrite fmap_app, fmap_cons, elem_of_app, elem_of_cons. auto. }
  rewrite (guard_ok _ _ _ R Hmem). pdsimpl.
  pose proof (abs_guard_member (l1 ++ (n, e) :: (x, ex) :: l2) (d_cursor d) n) as Hc.
  specialize (fun k => Hc k (rep_cursor _ _ R)).
  set (c' := abs_guard _ _ _) in *. clearbody c'.
  set (l' := l1 ++ ((x, ex) :: l2) ++ [(n, e)]).
  assert (l' ≡ₚ l1 ++ (n, e) :: (x, ex) :: l2) as HP by apply moved_perm.
  assert (NoDup l'.*1) as ND' by (rewrite HP; apply (rep_nodup _ _ R)).
  assert (forall k, k ∈ l'.*1 -> k < d_next_id d) as Hf'.
  { intros k. rewrite HP. apply (rep_fresh _ _ R). }
  assert (forall k, c' = Some (CNode k) -> k ∈ l'.*1) as Hc'.
  { intros k Hk. rewrite HP. auto. }
  assert (d_len d = N.of_nat (length l')) as Hl'.
  { rewrite (rep_len _ _ R). by rewrite HP. }
  clear HP Hc. subst l'.
  destruct R as [Hh ND Hf Hl Hhd Ht _]. destruct d as [heap len hd tl cur nid].
  pdsimpl in *. subst heap hd tl. clear Hl Hmem.
  unfold pd_write, pd_deref. pdsimpl.
  unfold last_id. rewrite <- lst_or_None.
  destruct (list_snoc_view l1) as [->|(l1' & [pv ep] & ->)];
    destruct (list_snoc_view l2) as [->|(l2' & [t et] & ->)].
  all: assoc_all; nodup_unfold ND.
  1: facts ND (n <> x).
  2: facts ND (n <> x /\ n <> t /\ x <> t /\ n ∉ l2'.*1 /\ x ∉ l2'.*1 /\ t ∉ l2'.*1).
  3: facts ND (n <> x /\ n <> pv /\ x <> pv /\ n ∉ l1'.*1 /\ x ∉ l1'.*1 /\ pv ∉ l1'.*1).
  4: facts ND (n <> x /\ n <> pv /\ x <> pv /\ n <> t /\ x <> t /\ pv <> t /\
               n ∉ l1'.*1 /\ x ∉ l1'.*1 /\ pv ∉ l1'.*1 /\ t ∉ l1'.*1 /\
               n ∉ l2'.*1 /\ x ∉ l2'.*1 /\ pv ∉ l2'.*1 /\ t ∉ l2'.*1).
  all: heap_norm ND; heap_steps ND.
  all: eexists; (split; [reflexivity|]); pdsimpl.
  all: split; [|done]; split; pdsimpl; try done; try ends_solve.
  all: heap_norm ND; apply map_eq; intros i.
  - destruct (decide (i = n)) as [->|]; [|destruct (decide (i = x)) as [->|]]; pw ND.
  - destruct (decide (i = n)) as [->|]; [|destruct (decide (i = x)) as [->|];
      [|destruct (decide (i = t)) as [->|]]]; pw ND.
  - destruct (decide (i = n)) as [->|]; [|destruct (decide (i = x)) as [->|];
      [|destruct (decide (i = pv)) as [->|]]]; pw ND.
  - destruct (decide (i = n)) as [->|]; [|destruct (decide (i = x)) as [->|];
      [|destruct (decide (i = pv)) as [->|]; [|destruct (decide (i = t)) as [->|]]]]; pw ND.
Qed.

(** * Read-only operations *)
Lemma elem_of_mid (l1 : list (N * N)) n e l2 : n ∈ (l1 ++ (n, e) :: l2).*1.
Proof. rewrite fmap_app, fmap_cons, elem_of_app, elem_of_cons. auto. Qed.

Lemma first_id_member (l : list (N * N)) h : first_id l = Some h -> h ∈ l.*1.
Proof. unfold first_id. destruct (l.*1); [done|]. intros [= ->]. left. Qed.

Lemma contains_ok d l h :
  Rep d l -> h ∈ l.*1 -> pd_contains d h = Ok true.
Proof.
  intros R Hh. destruct (ids_split _ _ Hh) as (l1 & e & l2 & ->).
  unfold pd_contains. rewrite (deref_ok _ _ _ (rep_lookup_mid _ _ _ _ _ R)). pdsimpl.
  destruct (last_id l1) eqn:E; [done|]. cbn [is_some].
  unfold last_id in E. apply last_None, fmap_nil_inv in E. subst l1.
  rewrite (is_head_ok _ _ _ R). cbn. by rewrite N.eqb_refl.
Qed.

Theorem contains_exact d l :
  Rep d l -> forall h, h ∈ l.*1 -> dq_step d (DContains h) = Ok (d, DOBool true).
Proof.
  intros R h Hh. cbn [dq_step].
  destruct (rep_lookup_member _ _ _ R Hh) as [nd Hnd].
  rewrite (deref_ok _ _ _ Hnd). pdsimpl. by rewrite (contains_ok _ _ _ R Hh).
Qed.

Lemma abs_advance_member (l : list (N * N)) c n :
  abs_advance l c = Some (CNode n) -> n ∈ l.*1.
Proof. intros (m & _ & H)%abs_advance_wf. by eapply next_of_member. Qed.

Lemma iter_next_ok d l :
  Rep d l ->
  let c0 := abs_iter_start l (d_cursor d) in
  pd_iter_next d = Ok (set_cursor d (abs_advance l c0), abs_iter_elem l c0).
Proof.
  intros R c0. unfold pd_iter_next.
  set (d0 := match d_cursor d with None => _ | Some _ => d end).
  assert (d0 = set_cursor d c0) as ->.
  { subst d0 c0. unfold abs_iter_start. rewrite <- (rep_head _ _ R).
    destruct (d_cursor d) eqn:Ec.
    - by rewrite <- Ec, set_cursor_id.
    - destruct (d_head d); [done|]. by rewrite <- Ec, set_cursor_id. }
  assert (Rep (set_cursor d c0) l) as R0.
  { apply rep_set_cursor; [done|]. intros n. subst c0. unfold abs_iter_start.
    destruct (d_cursor d) eqn:Ec.
    - intros [= ->]. by apply (rep_cursor _ _ R).
    - destruct (first_id l) eqn:Eh; [|done]. intros [= <-]. by apply first_id_member. }
  rewrite (advance_ok _ _ R0).
  change (d_cursor (set_cursor d c0)) with c0. clearbody c0.
  destruct c0 as [[n|]|]; pdsimpl; try done.
  destruct (ids_split _ _ (rep_cursor _ _ R0 n eq_refl)) as (l1 & e & l2 & ->).
  pose proof (rep_lookup_mid _ _ _ _ _ R0) as Hl. pdsimpl in *.
  unfold pd_deref. pdsimpl. rewrite Hl. pdsimpl.
  destruct (nodup_mid _ _ _ _ (rep_nodup _ _ R)) as (_ & _ & Hn & _).
  cbn [abs_iter_elem]. by rewrite find_id_mid.
Qed.

(** the boolean contract check offered to the test driver is the contract *)
Lemma mem_id_spec (l : list (N * N)) h : mem_id h l = true <-> h ∈ l.*1.
Proof.
  unfold mem_id. induction l as [|[m x] l IH]; cbn [find_id].
  - split; [done|]. intros H. by apply elem_of_nil in H.
  - rewrite fmap_cons, elem_of_cons. cbn [fst].
    destruct (N.eqb_spec m h) as [->|Hne]; [tauto|].
    rewrite IH. split; [tauto|]. intros [->|]; [done|tauto].
Qed.

Lemma in_contractb_spec l o : in_contractb l o = true <-> in_contract l o.
Proof. destruct o; cbn; try tauto; apply mem_id_spec. Qed.

(** * Main refinement theorem

    Within the contract every operation succeeds (no dereference of a dead
    node, no double free, no `unreachable!()`, no `len` underflow), re-establishes
    [Rep], and has the list-level effect and output of [abs_step].  The abstract
    state next to the list [l] consists of the cursor and the allocation counter,
    which the pointer-level state stores verbatim: [abs_of d l]. *)
Theorem dq_step_refines d l o :
  Rep d l -> in_contract l o ->
  exists d' out l', dq_step d o = Ok (d', out) /\ Rep d' l' /\
    abs_step (abs_of d l) o = (abs_of d' l', out).
Proof.
  intros R HC. destruct o as [e| |h| |h|h| |h|]; cbn [in_contract] in HC.
  - (* push *)
    destruct (push_back_ok _ _ e R) as (d' & E & R' & Hc & Hn).
    exists d', (DOHandle (Some (d_next_id d))), (l ++ [(d_next_id d, e)]).
    cbn [dq_step]. rewrite E. pdsimpl. split; [done|]. split; [done|].
    unfold abs_of. cbn. by rewrite Hc, Hn.
  - (* pop *)
    destruct l as [|[n e] l2].
    + exists d, (DOElem None), []. cbn [dq_step]. unfold pd_pop_front.
      rewrite (rep_head _ _ R). cbn. done.
    + destruct (pop_front_ok _ _ _ _ R) as (d' & E & R' & Hc & Hn).
      exists d', (DOElem (Some e)), l2. cbn [dq_step]. rewrite E. pdsimpl.
      split; [done|]. split; [done|]. unfold abs_of. cbn. by rewrite Hc, Hn.
  - (* move_to_back *)
    destruct (ids_split _ _ HC) as (l1 & e & l2 & ->).
    destruct (move_to_back_ok _ _ _ _ _ R) as (d' & E & R' & Hc & Hn).
    exists d', DONone, (l1 ++ l2 ++ [(h, e)]). cbn [dq_step]. rewrite E. pdsimpl.
    split; [done|]. split; [done|]. unfold abs_of. cbn [abs_step a_list a_cur a_next].
    destruct (nodup_mid _ _ _ _ (rep_nodup _ _ R)) as (_ & _ & Hn1 & _).
    unfold abs_move_to_back. rewrite find_id_mid, remove_id_mid by done.
    by rewrite Hc, Hn, <- app_assoc.
  - (* move_front_to_back *)
    destruct l as [|[n e] l2].
    + exists d, DONone, []. cbn [dq_step]. unfold pd_move_front_to_back.
      rewrite (rep_head _ _ R). cbn. done.
    + destruct (move_to_back_ok _ [] _ _ _ R) as (d' & E & R' & Hc & Hn).
      exists d', DONone, (l2 ++ [(n, e)]). cbn [dq_step]. unfold pd_move_front_to_back.
      rewrite (rep_head _ _ R). cbn [first_id fmap list_fmap head fst]. rewrite E. pdsimpl.
      split; [done|]. split; [done|]. unfold abs_of. cbn [abs_step a_list a_cur a_next].
      unfold abs_move_to_back. cbn [find_id remove_id]. rewrite N.eqb_refl.
      cbn [app] in Hc. by rewrite Hc, Hn.
  - (* unlink_and_drop *)
    destruct (ids_split _ _ HC) as (l1 & e & l2 & ->).
    destruct (unlink_and_drop_ok _ _ _ _ _ R) as (d' & E & R' & Hc & Hn).
    exists d', DONone, (l1 ++ l2). cbn [dq_step]. rewrite E. pdsimpl.
    split; [done|]. split; [done|]. unfold abs_of. cbn [abs_step a_list a_cur a_next].
    destruct (nodup_mid _ _ _ _ (rep_nodup _ _ R)) as (_ & _ & Hn1 & _).
    unfold abs_unlink. rewrite remove_id_mid by done. by rewrite Hc, Hn.
  - (* contains *)
    exists d, (DOBool true), l. rewrite (contains_exact _ _ R _ HC).
    split; [done|]. split; [done|]. unfold abs_of. cbn [abs_step a_list].
    destruct (ids_split _ _ HC) as (l1 & e & l2 & ->).
    destruct (nodup_mid _ _ _ _ (rep_nodup _ _ R)) as (_ & _ & Hn1 & _).
    unfold abs_contains, mem_id. by rewrite find_id_mid.
  - (* peek_front *)
    destruct l as [|[n e] l2].
    + exists d, (DOPair None), []. cbn [dq_step]. unfold pd_peek_front_ptr.
      rewrite (rep_head _ _ R). cbn. done.
    + exists d, (DOPair (Some (n, e))), ((n, e) :: l2). cbn [dq_step]. unfold pd_peek_front_ptr.
      rewrite (rep_head _ _ R). cbn [first_id fmap list_fmap head fst].
      rewrite (deref_ok _ _ _ (rep_lookup_mid _ [] _ _ _ R)). pdsimpl. done.
  - (* next_node_ptr *)
    destruct (ids_split _ _ HC) as (l1 & e & l2 & ->).
    exists d, (DOHandle (first_id l2)), (l1 ++ (h, e) :: l2). cbn [dq_step].
    unfold pd_next_node_ptr. rewrite (deref_ok _ _ _ (rep_lookup_mid _ _ _ _ _ R)). pdsimpl.
    split; [done|]. split; [done|]. unfold abs_of. cbn [abs_step a_list].
    destruct (nodup_mid _ _ _ _ (rep_nodup _ _ R)) as (_ & _ & Hn1 & _).
    by rewrite next_of_mid.
  - (* iterator next *)
    pose proof (iter_next_ok _ _ R) as E. cbn zeta in E.
    eexists _, _, l. cbn [dq_step]. rewrite E. pdsimpl. split; [reflexivity|].
    split; [|done].
    apply rep_set_cursor; [done|]. intros n. apply abs_advance_member.
Qed.

(** * Runs of any length stay safe within the contract *)
Lemma dq_run_refines ops : forall d l,
  Rep d l -> contract_run_from (abs_of d l) ops ->
  exists d' l', dq_run d ops = Ok d' /\ Rep d' l' /\ abs_run (abs_of d l) ops = abs_of d' l'.
Proof.
  induction ops as [|o ops IH]; intros d l R HC.
  - exists d, l. done.
  - inversion HC as [|a o' ops' Hin Hrest]; subst. cbn [abs_of a_list] in Hin.
    destruct (dq_step_refines _ _ _ R Hin) as (d1 & out & l1 & E & R1 & EA).
    rewrite EA in Hrest. cbn [fst] in Hrest.
    destruct (IH _ _ R1 Hrest) as (d' & l' & E' & R' & EA').
    exists d', l'. cbn [dq_run abs_run]. rewrite E, EA. cbn [rbind fst]. done.
Qed.

Theorem dq_run_safe : forall ops,
  contract_run [] ops -> exists d l, dq_run pd_empty ops = Ok d /\ Rep d l.
Proof.
  intros ops HC.
  destruct (dq_run_refines ops pd_empty [] rep_empty HC) as (d & l & E & R & _). eauto.
Qed.

(** * Drop frees every node exactly once *)
Lemma drop_loop_ok l : forall d fuel,
  Rep d l -> (length l < fuel)%nat ->
  exists d', pd_drop_loop fuel d = Ok d' /\ Rep d' [].
Proof.
  induction l as [|[n e] l IH]; intros d fuel R Hf.
  - destruct fuel as [|fuel]; [lia|]. exists d. cbn [pd_drop_loop].
    unfold pd_pop_front. rewrite (rep_head _ _ R). cbn. done.
  - destruct fuel as [|fuel]; [lia|]. cbn [pd_drop_loop].
    destruct (pop_front_ok _ _ _ _ R) as (d1 & E & R1 & _).
    rewrite E. cbn [rbind]. apply IH; [done|]. cbn [length] in Hf. lia.
Qed.

Theorem dq_drop_frees_all d l :
  Rep d l -> exists d', dq_drop d = Ok d' /\ d_heap d' = ∅.
Proof.
  intros R. unfold dq_drop.
  destruct (drop_loop_ok l d (N.to_nat (d_len d + 1)) R) as (d' & E & R').
  { rewrite (rep_len _ _ R). lia. }
  exists d'. split; [done|]. apply (rep_heap _ _ R').
Qed.

(** * Out-of-contract use is detected by the model *)
Theorem use_after_free_detected d l h :
  Rep d l -> h ∉ l.*1 ->
  dq_step d (DMoveToBack h) = Err UseAfterFree /\
  dq_step d (DUnlinkDrop h) = Err UseAfterFree.
Proof.
  intros R Hh. pose proof (rep_lookup_dead _ _ _ R Hh) as Hd.
  cbn [dq_step]. unfold pd_move_to_back, pd_unlink_and_drop, pd_unlink, pd_cursor_guard.
  by rewrite (deref_dead _ _ Hd).
Qed.

Theorem use_after_free_detected_ro d l h :
  Rep d l -> h ∉ l.*1 ->
  dq_step d (DContains h) = Err UseAfterFree /\
  dq_step d (DNextOf h) = Err UseAfterFree.
Proof.
  intros R Hh. pose proof (rep_lookup_dead _ _ _ R Hh) as Hd.
  cbn [dq_step]. unfold pd_next_node_ptr.
  by rewrite (deref_dead _ _ Hd).
Qed.

(** * Non-vacuity: concrete runs *)
Definition ex_ops : list dop :=
  [DPush 10; DPush 11; DPush 12; DPush 13; DMoveToBack 1; DIterNext; DPop;
   DUnlinkDrop 2; DPush 14; DMoveFrontToBack; DIterNext; DContains 4].

Example ex_run_walk :
  (match dq_run pd_empty ex_ops with Ok d => dq_walk d | Err _ => None end)
  = Some [(1, 11); (4, 14); (3, 13)].
Proof. vm_compute. reflexivity. Qed.

Example ex_run_abs :
  a_list (abs_run ad_empty ex_ops) = [(1, 11); (4, 14); (3, 13)].
Proof. vm_compute. reflexivity. Qed.

Example ex_run_fields :
  (match dq_run pd_empty ex_ops with
   | Ok d => Some (d_len d, d_head d, d_tail d, d_cursor d, d_next_id d)
   | Err _ => None end)
  = Some (3, Some 1, Some 3, Some (CNode 4), 5).
Proof. vm_compute. reflexivity. Qed.

Example ex_run_in_contract : contract_run [] ex_ops.
Proof.
  unfold contract_run, ex_ops.
  repeat (constructor; [cbn; try exact I; set_solver|]; cbn).
  constructor.
Qed.

(** outputs along a run *)
Fixpoint dq_outs (d : pdeque) (ops : list dop) : list (res dout) :=
  match ops with
  | [] => []
  | o :: r => match dq_step d o with
              | Ok (d', out) => Ok out :: dq_outs d' r
              | Err e => [Err e]
              end
  end.

Example ex_outs :
  dq_outs pd_empty ex_ops =
  [Ok (DOHandle (Some 0)); Ok (DOHandle (Some 1)); Ok (DOHandle (Some 2)); Ok (DOHandle (Some 3));
   Ok DONone; Ok (DOElem (Some 10)); Ok (DOElem (Some 10)); Ok DONone; Ok (DOHandle (Some 4));
   Ok DONone; Ok (DOElem (Some 11)); Ok (DOBool true)].
Proof. vm_compute. reflexivity. Qed.

(** use after free: handle 0 was popped (and its Box dropped) *)
Example ex_uaf :
  dq_outs pd_empty [DPush 10; DPush 11; DPop; DMoveToBack 0]
  = [Ok (DOHandle (Some 0)); Ok (DOHandle (Some 1)); Ok (DOElem (Some 10)); Err UseAfterFree].
Proof. vm_compute. reflexivity. Qed.

Example ex_double_unlink :
  dq_outs pd_empty [DPush 10; DPush 11; DUnlinkDrop 1; DUnlinkDrop 1]
  = [Ok (DOHandle (Some 0)); Ok (DOHandle (Some 1)); Ok DONone; Err UseAfterFree].
Proof. vm_compute. reflexivity. Qed.

Example ex_drop :
  (match dq_run pd_empty ex_ops with
   | Ok d => match dq_drop d with Ok d' => Some (map_to_list (d_heap d'), d_len d', d_head d', d_tail d') | Err _ => None end
   | Err _ => None end)
  = Some ([], 0, None, None).
Proof. vm_compute. reflexivity. Qed.

(** Why callers must test [contains] before [move_to_back] on a node that may
    have been unlinked without being freed: a live, unlinked node has
    prev = next = None, so [move_to_back] takes the `None => self.head = node.next`
    arm and the deque loses its head (len 2, tail Some 2, head None, walk = []).
    This is outside the unsafe contract (the node is not a member); it is
    recorded here as executable documentation of the contract. *)
Example ex_move_unlinked_live_node :
  (d0 <-r dq_run pd_empty [DPush 10; DPush 11; DPush 12];
   d1 <-r pd_unlink d0 1;
   c <-r pd_contains d1 1;
   d2 <-r pd_move_to_back d1 1;
   Ok (c, d_len d2, d_head d2, d_tail d2, dq_walk d2))
  = Ok (false, 2, None, Some 2, Some []).
Proof. vm_compute. reflexivity. Qed.

Print Assumptions rep_empty.
Print Assumptions dq_walk_rep.
Print Assumptions dq_step_refines.
Print Assumptions dq_run_safe.
Print Assumptions contains_exact.
Print Assumptions dq_drop_frees_all.
Print Assumptions use_after_free_detected.
Print Assumptions use_after_free_detected_ro.
Print Assumptions contains_after_unlink.
Print Assumptions rep_links.
Print Assumptions rep_dom.
Print Assumptions in_contractb_spec.
