(** Abstract model of the deque: a list of (id, element) pairs, front first,
    an abstract cursor (position at an id, or Done) and the allocation counter
    that names the next pushed node.  Definitions only. *)
From MM Require Export Deque.DequePtr.

Record adeque := mkAD {
  a_list : list (N * N);          (* (id, element), front first *)
  a_cur : option dcursor;         (* None: no iteration in progress *)
  a_next : N                      (* id the next push_back will hand out *)
}.
Definition ad_empty : adeque := mkAD [] None 0.

Definition first_id (l : list (N * N)) : option N := head l.*1.
Definition last_id (l : list (N * N)) : option N := last l.*1.

(** id of the successor of [n] in [l] *)
Fixpoint next_of (l : list (N * N)) (n : N) : option N :=
  match l with
  | [] => None
  | (m, _) :: r => if N.eqb m n then first_id r else next_of r n
  end.

(** * List-level operations *)
Definition abs_push_back (l : list (N * N)) (id e : N) : list (N * N) := l ++ [(id, e)].
Definition abs_pop_front (l : list (N * N)) : list (N * N) := tail l.
Definition abs_move_to_back (l : list (N * N)) (n : N) : list (N * N) :=
  match find_id n l with
  | Some e => remove_id n l ++ [(n, e)]
  | None => l
  end.
Definition abs_move_front_to_back (l : list (N * N)) : list (N * N) :=
  match l with
  | [] => []
  | (n, _) :: _ => abs_move_to_back l n
  end.
Definition abs_unlink (l : list (N * N)) (n : N) : list (N * N) := remove_id n l.
Definition abs_contains (l : list (N * N)) (n : N) : bool := mem_id n l.

(** * Cursor-level operations *)
Definition abs_advance (l : list (N * N)) (c : option dcursor) : option dcursor :=
  match c with
  | None => None
  | Some (CNode n) => Some (match next_of l n with Some m => CNode m | None => CDone end)
  | Some CDone => None
  end.

(** the cursor steps over node [n] before [n] leaves its position *)
Definition abs_guard (l : list (N * N)) (c : option dcursor) (n : N) : option dcursor :=
  match c with
  | Some (CNode m) => if N.eqb m n then abs_advance l c else c
  | _ => c
  end.

Definition abs_iter_start (l : list (N * N)) (c : option dcursor) : option dcursor :=
  match c with
  | None => match first_id l with Some h => Some (CNode h) | None => None end
  | Some _ => c
  end.

Definition abs_iter_elem (l : list (N * N)) (c : option dcursor) : option N :=
  match c with
  | Some (CNode n) => find_id n l
  | _ => None
  end.

Definition opt_eqb (a : option N) (n : N) : bool :=
  match a with Some m => N.eqb m n | None => false end.

(** * The abstract step: new state and the same observable output as [dq_step] *)
Definition abs_step (a : adeque) (o : dop) : adeque * dout :=
  let l := a_list a in
  let c := a_cur a in
  let k := a_next a in
  match o with
  | DPush e => (mkAD (abs_push_back l k e) c (k + 1), DOHandle (Some k))
  | DPop =>
      match l with
      | [] => (a, DOElem None)
      | (n, e) :: _ => (mkAD (abs_pop_front l) (abs_guard l c n) k, DOElem (Some e))
      end
  | DMoveToBack h =>
      (mkAD (abs_move_to_back l h) (if opt_eqb (last_id l) h then c else abs_guard l c h) k, DONone)
  | DMoveFrontToBack =>
      match l with
      | [] => (a, DONone)
      | (h, _) :: _ =>
          (mkAD (abs_move_to_back l h) (if opt_eqb (last_id l) h then c else abs_guard l c h) k,
           DONone)
      end
  | DUnlinkDrop h => (mkAD (abs_unlink l h) (abs_guard l c h) k, DONone)
  | DContains h => (a, DOBool (abs_contains l h))
  | DPeekFront => (a, DOPair (head l))
  | DNextOf h => (a, DOHandle (next_of l h))
  | DIterNext =>
      let c0 := abs_iter_start l c in
      (mkAD l (abs_advance l c0) k, DOElem (abs_iter_elem l c0))
  end.

(** * The `unsafe` contract: handles passed in must be nodes of this deque *)
Definition in_contract (l : list (N * N)) (o : dop) : Prop :=
  match o with
  | DMoveToBack h | DUnlinkDrop h | DContains h | DNextOf h => h ∈ l.*1
  | _ => True
  end.

Definition in_contractb (l : list (N * N)) (o : dop) : bool :=
  match o with
  | DMoveToBack h | DUnlinkDrop h | DContains h | DNextOf h => mem_id h l
  | _ => true
  end.

Inductive contract_run_from : adeque -> list dop -> Prop :=
| crf_nil a : contract_run_from a []
| crf_cons a o ops :
    in_contract (a_list a) o ->
    contract_run_from (abs_step a o).1 ops ->
    contract_run_from a (o :: ops).

(** smallest counter above all ids of [l] *)
Definition fresh_for (l : list (N * N)) : N :=
  foldr (fun x acc => N.max (N.succ x.1) acc) 0 l.

(** [contract_run l ops]: starting from the abstract list [l] (no iteration in
    progress), each op is in contract w.r.t. the abstract list reached so far. *)
Definition contract_run (l : list (N * N)) (ops : list dop) : Prop :=
  contract_run_from (mkAD l None (fresh_for l)) ops.

Fixpoint abs_run (a : adeque) (ops : list dop) : adeque :=
  match ops with
  | [] => a
  | o :: r => abs_run (abs_step a o).1 r
  end.
