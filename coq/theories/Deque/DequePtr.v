(** Pointer-level executable model of the intrusive doubly linked list of
    src/common/deque.rs (lines 1-330; `region`, #[cfg(test)] and
    #[cfg(mini_moka_verif)] parts left out).

    A `NonNull<DeqNode<T>>` is a node id (N); the heap is a finite map from
    ids of live nodes (allocated by Box::into_raw, not yet given back to
    Box::from_raw) to node contents.  Every raw-pointer dereference is a
    checked lookup in that map.  Definitions only: no lemma lives here. *)
From MM Require Export Base.Prelude.

Record dnode := mkDN { dn_next : option N; dn_prev : option N; dn_elem : N }.
Inductive dcursor := CNode (n : N) | CDone.
Record pdeque := mkPD {
  d_heap : gmap N dnode;       (* live nodes (allocated and not yet freed) *)
  d_len : N; d_head : option N; d_tail : option N;
  d_cursor : option dcursor;
  d_next_id : N                (* allocation counter: the i-th push_back gets id i, starting at 0 *)
}.
Definition pd_empty : pdeque := mkPD ∅ 0 None None None 0.

(** field setters *)
Definition set_heap (d : pdeque) (h : gmap N dnode) : pdeque :=
  mkPD h (d_len d) (d_head d) (d_tail d) (d_cursor d) (d_next_id d).
Definition set_len (d : pdeque) (n : N) : pdeque :=
  mkPD (d_heap d) n (d_head d) (d_tail d) (d_cursor d) (d_next_id d).
Definition set_head (d : pdeque) (p : option N) : pdeque :=
  mkPD (d_heap d) (d_len d) p (d_tail d) (d_cursor d) (d_next_id d).
Definition set_tail (d : pdeque) (p : option N) : pdeque :=
  mkPD (d_heap d) (d_len d) (d_head d) p (d_cursor d) (d_next_id d).
Definition set_cursor (d : pdeque) (c : option dcursor) : pdeque :=
  mkPD (d_heap d) (d_len d) (d_head d) (d_tail d) c (d_next_id d).

Definition nd_set_next (x : option N) (nd : dnode) : dnode := mkDN x (dn_prev nd) (dn_elem nd).
Definition nd_set_prev (x : option N) (nd : dnode) : dnode := mkDN (dn_next nd) x (dn_elem nd).

Definition is_some {A} (o : option A) : bool := match o with Some _ => true | None => false end.

(** * Memory primitives *)

(** `p.as_ref()`, `p.as_mut()`, `( *p.as_ptr()).field` used as an rvalue: the
    node must be live. *)
Definition pd_deref (d : pdeque) (p : N) : res dnode :=
  match d_heap d !! p with
  | Some nd => Ok nd
  | None => Err UseAfterFree
  end.

(** `( *p.as_ptr()).field = v` / `node.field = v` through a live `&mut`. *)
Definition pd_write (d : pdeque) (p : N) (f : dnode -> dnode) : res pdeque :=
  nd <-r pd_deref d p;
  Ok (set_heap d (<[p := f nd]> (d_heap d))).

(** `Box::from_raw(p)`: ownership of the allocation goes back to a Box, which
    the model drops / hands to the caller right away: the node stops being live.
    The contents are returned (the Box can still be read by its owner). *)
Definition pd_free (d : pdeque) (p : N) : res (pdeque * dnode) :=
  match d_heap d !! p with
  | Some nd => Ok (set_heap d (delete p (d_heap d)), nd)
  | None => Err DoubleFree
  end.

(** `Box::into_raw(node)`: a fresh id. *)
Definition pd_alloc (d : pdeque) (nd : dnode) : pdeque * N :=
  (mkPD (<[d_next_id d := nd]> (d_heap d)) (d_len d) (d_head d) (d_tail d) (d_cursor d)
        (d_next_id d + 1),
   d_next_id d).

(** * Private methods (deque.rs:289-329) *)

(** `is_head(&self, node: &DeqNode<T>)`: `node` is identified by its address [p].
    `head.as_ref()` creates a reference to the head node: checked. *)
Definition pd_is_head (d : pdeque) (p : N) : res bool :=
  match d_head d with
  | Some h => _ <-r pd_deref d h; Ok (N.eqb h p)
  | None => Ok false
  end.

Definition pd_is_tail (d : pdeque) (p : N) : res bool :=
  match d_tail d with
  | Some t => _ <-r pd_deref d t; Ok (N.eqb t p)
  | None => Ok false
  end.

Definition pd_is_at_cursor (d : pdeque) (p : N) : res bool :=
  match d_cursor d with
  | Some (CNode c) => _ <-r pd_deref d c; Ok (N.eqb c p)
  | _ => Ok false
  end.

Definition pd_advance_cursor (d : pdeque) : res pdeque :=
  match d_cursor d with            (* self.cursor.take() *)
  | None => Ok d
  | Some (CNode n) =>
      nd <-r pd_deref d n;                            (* ( *node.as_ptr()).next *)
      Ok (set_cursor d (Some (match dn_next nd with
                              | Some nx => CNode nx
                              | None => CDone
                              end)))
  | Some CDone => Ok (set_cursor d None)
  end.

(** The block
      `if self.is_at_cursor(node.as_ref()) { self.advance_cursor(); }`
    which occurs verbatim in pop_front, move_to_back and unlink. *)
Definition pd_cursor_guard (d : pdeque) (p : N) : res pdeque :=
  _ <-r pd_deref d p;                                 (* node.as_ref() *)
  c <-r pd_is_at_cursor d p;
  if c then pd_advance_cursor d else Ok d.

(** * Crate-public methods (deque.rs:90-267) *)

(** `DeqNode::next_node_ptr(this)` *)
Definition pd_next_node_ptr (d : pdeque) (p : N) : res (option N) :=
  nd <-r pd_deref d p; Ok (dn_next nd).

(** `contains(&self, node: &DeqNode<T>)`: `node.prev.is_some() || self.is_head(node)` *)
Definition pd_contains (d : pdeque) (p : N) : res bool :=
  nd <-r pd_deref d p;                                (* node.prev read through the reference *)
  if is_some (dn_prev nd) then Ok true else pd_is_head d p.

Definition pd_peek_front_ptr (d : pdeque) : option N := d_head d.

Definition pd_peek_front (d : pdeque) : res (option dnode) :=
  match d_head d with
  | Some h => nd <-r pd_deref d h; Ok (Some nd)
  | None => Ok None
  end.

(** `pop_front`: returns the element of the popped node (the Box itself is
    dropped by the caller; the node is no longer live after Box::from_raw). *)
Definition pd_pop_front (d : pdeque) : res (pdeque * option N) :=
  match d_head d with
  | None => Ok (d, None)
  | Some p =>
      d <-r pd_cursor_guard d p;
      '(d, nd) <-r pd_free d p;                       (* Box::from_raw(node.as_ptr()) *)
      let d := set_head d (dn_next nd) in             (* self.head = node.next *)
      d <-r match d_head d with
            | None => Ok (set_tail d None)
            | Some h => pd_write d h (nd_set_prev None)
            end;
      len <-r chk_sub (d_len d) 1;                    (* self.len -= 1 *)
      (* node.prev = None; node.next = None: writes into the Box, not the heap *)
      Ok (set_len d len, Some (dn_elem nd))
  end.

(** `push_back(Box::new(DeqNode::new(e)))` *)
Definition pd_push_back (d : pdeque) (e : N) : res (pdeque * N) :=
  let nd := mkDN None (d_tail d) e in                 (* node.next = None; node.prev = self.tail *)
  let '(d, p) := pd_alloc d nd in                     (* Box::into_raw *)
  d <-r match d_tail d with
        | None => Ok (set_head d (Some p))
        | Some t => pd_write d t (nd_set_next (Some p))
        end;
  let d := set_tail d (Some p) in
  let d := set_len d (d_len d + 1) in                 (* self.len += 1 *)
  Ok (d, p).

(** `unsafe fn move_to_back(&mut self, node)`.  Fields of `node` are read
    through the live `&mut`, i.e. from the heap at the time of the read. *)
Definition pd_move_to_back (d : pdeque) (p : N) : res pdeque :=
  _ <-r pd_deref d p;                                 (* node.as_ref() *)
  t <-r pd_is_tail d p;
  if t then Ok d else
  d <-r pd_cursor_guard d p;
  nd <-r pd_deref d p;                                (* node.as_mut(); node.prev, node.next *)
  d <-r match dn_prev nd with
        | Some prev =>
            if is_some (dn_next nd)
            then pd_write d prev (nd_set_next (dn_next nd))
            else Ok d                                 (* Some(..) => () *)
        | None => Ok (set_head d (dn_next nd))
        end;
  nd <-r pd_deref d p;
  match dn_next nd with                               (* node.next.take() *)
  | Some next =>
      d <-r pd_write d p (nd_set_next None);
      nd <-r pd_deref d p;                            (* node.prev *)
      d <-r pd_write d next (nd_set_prev (dn_prev nd));
      match d_tail d with
      | Some tail =>
          d <-r pd_write d p (nd_set_prev (Some tail));
          d <-r pd_write d tail (nd_set_next (Some p));
          Ok (set_tail d (Some p))
      | None => Err Unreachable
      end
  | None => Ok d
  end.

Definition pd_move_front_to_back (d : pdeque) : res pdeque :=
  match d_head d with
  | Some p => pd_move_to_back d p
  | None => Ok d
  end.

(** `unsafe fn unlink(&mut self, node)`: does not free the node. *)
Definition pd_unlink (d : pdeque) (p : N) : res pdeque :=
  d <-r pd_cursor_guard d p;
  nd <-r pd_deref d p;                                (* node.as_mut(); node.prev, node.next *)
  d <-r match dn_prev nd with
        | Some prev => pd_write d prev (nd_set_next (dn_next nd))
        | None => Ok (set_head d (dn_next nd))
        end;
  nd <-r pd_deref d p;
  d <-r match dn_next nd with
        | Some next => pd_write d next (nd_set_prev (dn_prev nd))
        | None => Ok (set_tail d (dn_prev nd))
        end;
  d <-r pd_write d p (nd_set_prev None);
  d <-r pd_write d p (nd_set_next None);
  len <-r chk_sub (d_len d) 1;                        (* self.len -= 1 *)
  Ok (set_len d len).

(** `unsafe fn unlink_and_drop(&mut self, node)` *)
Definition pd_unlink_and_drop (d : pdeque) (p : N) : res pdeque :=
  d <-r pd_unlink d p;
  '(d, _) <-r pd_free d p;                            (* drop(Box::from_raw(node.as_ptr())) *)
  Ok d.

(** `<&mut Deque<T> as Iterator>::next` *)
Definition pd_iter_next (d : pdeque) : res (pdeque * option N) :=
  let d := match d_cursor d with
           | None => match d_head d with
                     | Some h => set_cursor d (Some (CNode h))
                     | None => d
                     end
           | Some _ => d
           end in
  elem <-r match d_cursor d with
           | Some (CNode n) => nd <-r pd_deref d n; Ok (Some (dn_elem nd))
           | _ => Ok None
           end;
  d <-r pd_advance_cursor d;
  Ok (d, elem).

(** `Drop for Deque`: `while let Some(node) = self.pop_front() { drop(node) }`.
    Each iteration removes one node, so [d_len d + 1] iterations suffice. *)
Fixpoint pd_drop_loop (fuel : nat) (d : pdeque) : res pdeque :=
  match fuel with
  | O => Err OutOfFuel
  | S f =>
      '(d, r) <-r pd_pop_front d;
      match r with
      | Some _ => pd_drop_loop f d
      | None => Ok d
      end
  end.

Definition dq_drop (d : pdeque) : res pdeque :=
  pd_drop_loop (N.to_nat (d_len d + 1)) d.

(** * Operation interface used by the test driver *)
Inductive dop :=
| DPush (e : N)            (* push_back(Box::new(DeqNode::new(e))) -> handle *)
| DPop                     (* pop_front() -> element; the returned Box is dropped by the caller *)
| DMoveToBack (h : N)      (* unsafe move_to_back(handle) *)
| DMoveFrontToBack
| DUnlinkDrop (h : N)      (* unsafe unlink_and_drop(handle) *)
| DContains (h : N)        (* contains(&*handle): dereferences the handle *)
| DPeekFront               (* peek_front_ptr() -> (handle, element) *)
| DNextOf (h : N)          (* DeqNode::next_node_ptr(handle) *)
| DIterNext.               (* <&mut Deque as Iterator>::next -> element *)
Inductive dout :=
| DONone | DOBool (b : bool) | DOElem (e : option N) | DOHandle (h : option N)
| DOPair (p : option (N * N)).

Definition dq_step (d : pdeque) (o : dop) : res (pdeque * dout) :=
  match o with
  | DPush e => '(d, p) <-r pd_push_back d e; Ok (d, DOHandle (Some p))
  | DPop => '(d, r) <-r pd_pop_front d; Ok (d, DOElem r)
  | DMoveToBack h => d <-r pd_move_to_back d h; Ok (d, DONone)
  | DMoveFrontToBack => d <-r pd_move_front_to_back d; Ok (d, DONone)
  | DUnlinkDrop h => d <-r pd_unlink_and_drop d h; Ok (d, DONone)
  | DContains h =>
      _ <-r pd_deref d h;                             (* &*handle *)
      b <-r pd_contains d h; Ok (d, DOBool b)
  | DPeekFront =>
      match pd_peek_front_ptr d with
      | Some h => nd <-r pd_deref d h; Ok (d, DOPair (Some (h, dn_elem nd)))
      | None => Ok (d, DOPair None)
      end
  | DNextOf h => r <-r pd_next_node_ptr d h; Ok (d, DOHandle r)
  | DIterNext => '(d, r) <-r pd_iter_next d; Ok (d, DOElem r)
  end.

Fixpoint dq_run (d : pdeque) (ops : list dop) : res pdeque :=
  match ops with
  | [] => Ok d
  | o :: r => '(d', _) <-r dq_step d o; dq_run d' r
  end.

(** Structural walk used for printing: nodes reachable from head following
    `next`, at most [d_len + 1] steps, as (id, element) pairs front to back;
    None if a dangling id is met. *)
Fixpoint pd_walk_from (h : gmap N dnode) (fuel : nat) (cur : option N) : option (list (N * N)) :=
  match cur with
  | None => Some []
  | Some p =>
      match fuel with
      | O => Some []
      | S f =>
          match h !! p with
          | None => None
          | Some nd =>
              match pd_walk_from h f (dn_next nd) with
              | Some r => Some ((p, dn_elem nd) :: r)
              | None => None
              end
          end
      end
  end.

Definition dq_walk (d : pdeque) : option (list (N * N)) :=
  pd_walk_from (d_heap d) (N.to_nat (d_len d + 1)) (d_head d).
