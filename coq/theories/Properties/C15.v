(** Property C15 — contains_key and iteration are pure observations.
    Concurrent cache: literal purity, hence the metamorphic statement for ALL histories and
    ALL ways of inserting/removing such calls.  Single-threaded cache: iteration is the
    identity on the state; contains_key is exactly the maintenance every operation starts
    with plus a read, and it never touches the popularity sketch, any timestamp or the
    recency order of what it leaves.  (Its maintenance can perform a PENDING size eviction:
    that is the recorded known finding PendingExcessAtObservation, see known_findings.json;
    the metamorphic theorem for the single-threaded cache outside that class is
    Unsync/UPurity.v.) *)
From MM Require Import Sync.SModel Unsync.UInvDefs Unsync.UInv Unsync.UPurity Contract.Glue Contract.Purity.

Theorem C15_sync_observations_pure : forall c h h', obs_inserted h h' ->
  forall r r1 outs, srun_ops c r h = Ok (r1, outs) ->
  exists outs', srun_ops c r h' = Ok (r1, outs') /\ outs_match h h' outs outs'.
Proof. exact sync_observations_pure. Qed.

Theorem C15_sync_observations_removable : forall c h h', obs_inserted h h' ->
  forall r r1 outs', srun_ops c r h' = Ok (r1, outs') ->
  exists outs, srun_ops c r h = Ok (r1, outs) /\ outs_match h h' outs outs'.
Proof. exact sync_observations_removable. Qed.

Theorem C15_sync_contains_pure : forall c r k, exists b, sstep c r (SContains k) = Ok (r, SOBool b).
Proof. exact s_contains_pure. Qed.
Theorem C15_sync_iter_pure : forall c r, exists l, sstep c r SIter = Ok (r, SOList l).
Proof. exact s_iter_pure. Qed.

Theorem C15_unsync_iter_pure : forall c r r' out, ustep c r UIter = Ok (r', out) -> r' = r.
Proof. exact u_iter_pure. Qed.

(** contains_key = the maintenance every operation starts with, and nothing else *)
Theorem C15_unsync_contains_is_maintenance : forall c s now k s' b,
  u_contains c s now k = Ok (s', b) -> exists ts, maintain c s now = Ok (s', ts).
Proof. exact u_contains_frame. Qed.

(** maintenance only removes entries: survivors keep their relative order, and the sketch is untouched *)
Theorem C15_unsync_maintenance_frame : forall c s now s1 ts,
  cfg_ok c -> WF' c s -> small s -> maintain c s now = Ok (s1, ts) ->
  u_map s1 ⊆ u_map s /\ u_sk s1 = u_sk s /\ u_skon s1 = u_skon s /\
  sublist (u_prob s1) (u_prob s) /\ sublist (u_wo s1) (u_wo s).
Proof. exact maintain_subset. Qed.

(** single-threaded cache, metamorphic theorem: for ALL histories h and ALL ways h' of inserting
    contains_key / iter calls, if the key universe is smaller than one maintenance batch (no
    purge is truncated) and no INSERTED contains_key starts while an excess created by a
    weight-growing update is pending ([quiet_insertion]), every operation of h answers the same
    in h' *)
Theorem C15_unsync_observations_pure : forall c h h' r1 outs r2 outs',
  cfg_ok c -> N.of_nat (length h') < 2 ^ 24 -> small_universe h' ->
  quiet_insertion c urun_init h h' ->
  urun_ops c urun_init h = Ok (r1, outs) ->
  urun_ops c urun_init h' = Ok (r2, outs') ->
  outs_match_u h h' outs outs'.
Proof. exact unsync_observations_pure. Qed.

(** the excluded class is real (known finding PendingExcessAtObservation): with an update-created
    excess pending, an inserted contains_key evicts and a later iteration differs *)
Theorem C15_unsync_refuted_with_pending_excess :
  exists c h h' r1 outs r2 outs', obs_inserted_u h h' /\
    urun_ops c urun_init h = Ok (r1, outs) /\ urun_ops c urun_init h' = Ok (r2, outs') /\
    ~ outs_match_u h h' outs outs'.
Proof. exact unsync_contains_not_pure_with_pending_excess. Qed.

Print Assumptions C15_unsync_observations_pure.
Print Assumptions C15_unsync_refuted_with_pending_excess.
Print Assumptions C15_sync_observations_pure.
Print Assumptions C15_sync_observations_removable.
Print Assumptions C15_sync_contains_pure.
Print Assumptions C15_sync_iter_pure.
Print Assumptions C15_unsync_iter_pure.
Print Assumptions C15_unsync_contains_is_maintenance.
Print Assumptions C15_unsync_maintenance_frame.
