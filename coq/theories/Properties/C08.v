(** Property C08 — memory safety and absence of internal panics for every call sequence.
    In the models every raw-pointer dereference, Box::from_raw, unreachable!, expect/unwrap
    and non-wrapping arithmetic of the source is a CHECKED operation returning
    Err {UseAfterFree, DoubleFree, Unreachable, ExpectFailed, Panic, Overflow}; "no memory
    error, no internal panic, no overflow on any call sequence" is therefore the statement
    that a run never returns Err. *)
From MM Require Import Unsync.UInvDefs Unsync.UInv Sketch.SketchSpec Sketch.SketchProofs Sync.SInvDefs Sync.SInvWrites Sync.SInvTop Deque.DequePtr Deque.DequeAbs Deque.DequeRefine.

(** single-threaded cache: every history runs to completion, in a well-formed state
    (deque nodes and map entries in bijection, no dangling node pointer) *)
Theorem C08_unsync_safe : forall c ops, cfg_ok c -> N.of_nat (length ops) < 2 ^ 24 ->
  exists r outs, urun_ops c urun_init ops = Ok (r, outs) /\ WF' c (ur_state r).
Proof. exact urun_safe. Qed.

(** one step from any well-formed state *)
Theorem C08_unsync_step_safe : forall c r o, cfg_ok c -> WF' c (ur_state r) -> small (ur_state r) ->
  exists r' out, ustep c r o = Ok (r', out) /\ WF' c (ur_state r') /\
    u_next (ur_state r') <= u_next (ur_state r) + 2 /\
    sk_load (ur_state r') <= sk_load (ur_state r) + 4 /\
    ur_now r <= ur_now r'.
Proof. exact ustep_safe. Qed.

(** the popularity sketch: recording a lookup never overflows / indexes out of bounds *)
Theorem C08_sketch_safe : forall sk h, sk_wf sk -> N.of_nat (size (sk_table sk)) < 2 ^ 28 ->
  exists sk', increment sk h = Ok sk' /\ sk_wf sk' /\ sk_tlen sk' = sk_tlen sk /\ sk_mask sk' = sk_mask sk /\
              sk_sample sk' = sk_sample sk /\
              N.of_nat (size (sk_table sk')) <= N.of_nat (size (sk_table sk)) + 4.
Proof. exact increment_ok_load. Qed.

(** concurrent cache (sequential regime, repaired code): every history, with any placement of
    sync() and in both housekeeping regimes, runs to completion in a state satisfying SInv
    (node<->EntryInfo bijection, no ghost node, no dangling pointer, FIFO discipline of the
    queued write ops ...): no use-after-free, no double free, no internal panic, no overflow,
    and the retry loop of schedule_write_op never runs out of its fuel of 2 *)
Theorem C08_sync_safe : forall c ops, scfg_ok c -> N.of_nat (length ops) < 2 ^ 18 ->
  exists r outs, srun_ops c srun_init ops = Ok (r, outs) /\ SInv c (sr_state r).
Proof. exact srun_safe. Qed.

Theorem C08_sync_step_safe : forall c r o, scfg_ok c -> SInv c (sr_state r) -> s_small (sr_state r) ->
  exists r' out, sstep c r o = Ok (r', out) /\ SInv c (sr_state r') /\
    s_next (sr_state r') <= s_next (sr_state r) + 140 /\
    sk_load_s (sr_state r') <= sk_load_s (sr_state r) + 264 /\
    sr_now r <= sr_now r'.
Proof. exact sstep_safe. Qed.

(** the intrusive list itself (common/deque.rs), modelled at POINTER level (heap of nodes with
    next/prev, head/tail/len/cursor; every dereference checks liveness; Box::from_raw frees):
    for every operation sequence within the `unsafe` contract (handles passed to move_to_back /
    unlink_and_drop / contains / next_node_ptr are members) no dereference of a dead node, no
    double free, no unreachable!(), no len underflow ever happens, the representation invariant
    (mutual links, head/tail/len, cursor on a member) is kept and each operation refines the list
    operation; dropping the deque frees every node exactly once; and use outside the contract is
    detected as use-after-free by the model *)
Theorem C08_deque_run_safe : forall ops, contract_run [] ops ->
  exists d l, dq_run pd_empty ops = Ok d /\ Rep d l.
Proof. exact dq_run_safe. Qed.
Theorem C08_deque_step_refines : forall d l o, Rep d l -> in_contract l o ->
  exists d' out l', dq_step d o = Ok (d', out) /\ Rep d' l' /\ abs_step (abs_of d l) o = (abs_of d' l', out).
Proof. exact dq_step_refines. Qed.
Theorem C08_deque_drop_frees_all : forall d l, Rep d l -> exists d', dq_drop d = Ok d' /\ d_heap d' = ∅.
Proof. exact dq_drop_frees_all. Qed.
Theorem C08_deque_contains_exact : forall d l, Rep d l -> forall h, h ∈ l.*1 -> dq_step d (DContains h) = Ok (d, DOBool true).
Proof. exact contains_exact. Qed.
Theorem C08_deque_use_after_free_detected : forall d l h, Rep d l -> h ∉ l.*1 ->
  dq_step d (DMoveToBack h) = Err UseAfterFree /\ dq_step d (DUnlinkDrop h) = Err UseAfterFree.
Proof. exact use_after_free_detected. Qed.

Print Assumptions C08_deque_run_safe.
Print Assumptions C08_deque_step_refines.
Print Assumptions C08_deque_drop_frees_all.
Print Assumptions C08_deque_contains_exact.
Print Assumptions C08_deque_use_after_free_detected.
Print Assumptions C08_sync_safe.
Print Assumptions C08_sync_step_safe.
Print Assumptions C08_unsync_safe.
Print Assumptions C08_unsync_step_safe.
Print Assumptions C08_sketch_safe.
