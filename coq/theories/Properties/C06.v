(** Property C06 — time-to-idle: no entry is observable after tti without an access.
    [rc_acc] of the reference cell is the clock reading of the most recent insert, update or
    successful get; contains_key and iteration never enter it. *)
From MM Require Import Contract.Trace Contract.UnsyncTrace Contract.SyncTrace Contract.Glue Contract.Deadline
  Spec.HistoryFacts Unsync.UInvDefs.

Theorem C06_unsync : forall c ops, cfg_ok c -> N.of_nat (length ops) < 2 ^ 24 ->
  u_trace_ok c ∅ urun_init ops.
Proof. exact u_trace_ok_all. Qed.

Theorem C06_sync : forall c ops, s_trace_ok c ∅ srun_init ops.
Proof. exact s_trace_ok_all. Qed.

Theorem C06_justified_within_tti : forall ttl d now r k v,
  justified ttl (Some d) now r k v -> exists c, r !! k = Some c /\ now < rc_acc c + d.
Proof. exact justified_tti. Qed.

(** what counts as an access: insert / update ... *)
Theorem C06_insert_is_access : forall f now r k v,
  rstep f now r (AInsert k v) !! k = Some (mkRC v now now).
Proof. exact rstep_insert. Qed.
(** ... and a get that returned a value; *)
Theorem C06_hit_is_access : forall f now r k v c,
  r !! k = Some c -> rstep f now r (AGet k (Some v)) !! k = Some (mkRC (rc_val c) (rc_ins c) now).
Proof. exact rstep_get_hit. Qed.
(** a get that returned nothing, contains_key and iteration never are *)
Theorem C06_miss_is_no_access : forall f now r k, rstep f now r (AGet k None) = r.
Proof. exact rstep_get_miss. Qed.
Theorem C06_contains_is_no_access_unsync : forall k out, aop_of_u (UContains k) out = AOther.
Proof. exact contains_is_no_access_u. Qed.
Theorem C06_iter_is_no_access_unsync : forall out, aop_of_u UIter out = AOther.
Proof. exact iter_is_no_access_u. Qed.
Theorem C06_contains_is_no_access_sync : forall k out, aop_of_s (SContains k) out = AOther.
Proof. exact contains_is_no_access_s. Qed.
Theorem C06_iter_is_no_access_sync : forall out, aop_of_s SIter out = AOther.
Proof. exact iter_is_no_access_s. Qed.
Theorem C06_other_leaves_reference : forall f now r, rstep f now r AOther = r.
Proof. exact rstep_other. Qed.

(** end to end, for EVERY history: a lookup issued at or after the deadline of the key's
    reference cell shows nothing for the key — get, contains_key and iteration alike, on both
    caches, whatever maintenance ran in between ([past_deadline] = insert time + ttl <= now or
    last access + tti <= now; the C06 disjunct is the one this property is about) *)
Theorem C06_deadline_reached : forall (ttl : option N) d now (c : rcell),
  rc_acc c + d <= now -> past_deadline ttl (Some d) now c.
Proof. intros; right; eauto. Qed.
Theorem C06_unsync_get_past_deadline : forall c ops k r run rc run' res,
  cfg_ok c -> N.of_nat (length (ops ++ [UGet k])) < 2 ^ 24 ->
  u_ref_after c ∅ urun_init ops = Some (r, run) ->
  r !! k = Some rc -> past_deadline (uc_ttl c) (uc_tti c) (ur_now run) rc ->
  ustep c run (UGet k) = Ok (run', OVal res) -> res = None.
Proof. exact u_get_past_deadline. Qed.
Theorem C06_unsync_contains_past_deadline : forall c ops k r run rc run' b,
  cfg_ok c -> N.of_nat (length (ops ++ [UContains k])) < 2 ^ 24 ->
  u_ref_after c ∅ urun_init ops = Some (r, run) ->
  r !! k = Some rc -> past_deadline (uc_ttl c) (uc_tti c) (ur_now run) rc ->
  ustep c run (UContains k) = Ok (run', OBool b) -> b = false.
Proof. exact u_contains_past_deadline. Qed.
Theorem C06_unsync_iter_past_deadline : forall c ops k r run rc run' l,
  cfg_ok c -> N.of_nat (length (ops ++ [UIter])) < 2 ^ 24 ->
  u_ref_after c ∅ urun_init ops = Some (r, run) ->
  r !! k = Some rc -> past_deadline (uc_ttl c) (uc_tti c) (ur_now run) rc ->
  ustep c run UIter = Ok (run', OList l) -> forall v, (k, v) ∉ l.
Proof. exact u_iter_past_deadline. Qed.
Theorem C06_sync_get_past_deadline : forall c ops k r run rc run' res,
  s_ref_after c ∅ srun_init ops = Some (r, run) ->
  r !! k = Some rc -> past_deadline (sc_ttl c) (sc_tti c) (sr_now run) rc ->
  sstep c run (SGet k) = Ok (run', SOVal res) -> res = None.
Proof. exact s_get_past_deadline. Qed.
Theorem C06_sync_contains_past_deadline : forall c ops k r run rc run' b,
  s_ref_after c ∅ srun_init ops = Some (r, run) ->
  r !! k = Some rc -> past_deadline (sc_ttl c) (sc_tti c) (sr_now run) rc ->
  sstep c run (SContains k) = Ok (run', SOBool b) -> b = false.
Proof. exact s_contains_past_deadline. Qed.
Theorem C06_sync_iter_past_deadline : forall c ops k r run rc run' l,
  s_ref_after c ∅ srun_init ops = Some (r, run) ->
  r !! k = Some rc -> past_deadline (sc_ttl c) (sc_tti c) (sr_now run) rc ->
  sstep c run SIter = Ok (run', SOList l) -> forall v, (k, v) ∉ l.
Proof. exact s_iter_past_deadline. Qed.

Check C06_justified_within_tti : forall ttl d now r k v,
  justified ttl (Some d) now r k v -> exists c, r !! k = Some c /\ now < rc_acc c + d.
Print Assumptions C06_unsync.
Print Assumptions C06_sync.
Print Assumptions C06_justified_within_tti.
Print Assumptions C06_insert_is_access.
Print Assumptions C06_hit_is_access.
Print Assumptions C06_miss_is_no_access.
Print Assumptions C06_contains_is_no_access_unsync.
Print Assumptions C06_iter_is_no_access_unsync.
Print Assumptions C06_contains_is_no_access_sync.
Print Assumptions C06_iter_is_no_access_sync.
Print Assumptions C06_other_leaves_reference.
Print Assumptions C06_deadline_reached.
Print Assumptions C06_unsync_get_past_deadline.
Print Assumptions C06_unsync_contains_past_deadline.
Print Assumptions C06_unsync_iter_past_deadline.
Print Assumptions C06_sync_get_past_deadline.
Print Assumptions C06_sync_contains_past_deadline.
Print Assumptions C06_sync_iter_past_deadline.
