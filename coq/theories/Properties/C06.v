(** Property C06 — time-to-idle: no entry is observable after tti without an access.
    [rc_acc] of the reference cell is the clock reading of the most recent insert, update or
    successful get; contains_key and iteration never enter it. *)
From MM Require Import Contract.Trace Contract.UnsyncTrace Contract.SyncTrace Contract.Glue
  Spec.HistoryFacts Unsync.UInvDefs.

Theorem C06_unsync : forall c ops, cfg_ok c -> N.of_nat (length ops) < 2 ^ 24 ->
  u_trace_ok c ∅ urun_init ops.
Proof. exact u_trace_ok_all. Qed.

Theorem C06_sync : forall c ops, s_trace_ok c ∅ srun_init ops.
Proof. exact s_trace_ok_all. Qed.

Theorem C06_justified_within_tti : forall ttl d now r k v,
  justified ttl (Some d) now r k v -> exists c, r !! k = Some c /\ now < rc_acc c + d.
Proof. exact justified_tti. Qed.

(** what counts as an access: insert / update ... *)
Theorem C06_insert_is_access : forall f now r k v,
  rstep f now r (AInsert k v) !! k = Some (mkRC v now now).
Proof. exact rstep_insert. Qed.
(** ... and a get that returned a value; *)
Theorem C06_hit_is_access : forall f now r k v c,
  r !! k = Some c -> rstep f now r (AGet k (Some v)) !! k = Some (mkRC (rc_val c) (rc_ins c) now).
Proof. exact rstep_get_hit. Qed.
(** a get that returned nothing, contains_key and iteration never are *)
Theorem C06_miss_is_no_access : forall f now r k, rstep f now r (AGet k None) = r.
Proof. exact rstep_get_miss. Qed.
Theorem C06_contains_is_no_access_unsync : forall k out, aop_of_u (UContains k) out = AOther.
Proof. exact contains_is_no_access_u. Qed.
Theorem C06_iter_is_no_access_unsync : forall out, aop_of_u UIter out = AOther.
Proof. exact iter_is_no_access_u. Qed.
Theorem C06_contains_is_no_access_sync : forall k out, aop_of_s (SContains k) out = AOther.
Proof. exact contains_is_no_access_s. Qed.
Theorem C06_iter_is_no_access_sync : forall out, aop_of_s SIter out = AOther.
Proof. exact iter_is_no_access_s. Qed.
Theorem C06_other_leaves_reference : forall f now r, rstep f now r AOther = r.
Proof. exact rstep_other. Qed.

Check C06_justified_within_tti : forall ttl d now r k v,
  justified ttl (Some d) now r k v -> exists c, r !! k = Some c /\ now < rc_acc c + d.
Print Assumptions C06_unsync.
Print Assumptions C06_sync.
Print Assumptions C06_justified_within_tti.
Print Assumptions C06_insert_is_access.
Print Assumptions C06_hit_is_access.
Print Assumptions C06_miss_is_no_access.
Print Assumptions C06_contains_is_no_access_unsync.
Print Assumptions C06_iter_is_no_access_unsync.
Print Assumptions C06_contains_is_no_access_sync.
Print Assumptions C06_iter_is_no_access_sync.
Print Assumptions C06_other_leaves_reference.
